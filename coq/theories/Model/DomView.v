(** * The DOM view of a built document: what harness/src/domains/wfdoc.rs dumps through the public
    accessors of xml-dom / xml-info (property C01).

    [dom_dump merged doc] is the token list of the dump of the document [doc] that the model of
    [XmlDocument::from_raw] ([Model.Info.from_raw]) builds, in the raw view ([merged = false]:
    [XmlDocument::from_raw]) and in the merged-text view ([merged = true]:
    [from_raw_with_context(Context::from_text_expanded(true))]).  Function by function:

    - document properties: [Document::version], [character_encoding_scheme] ("" = absent), [standalone];
    - the children of the document ([HasChild for XmlDocument]: no merging at this level): comments, PIs,
      the document type declaration, the document element;
    - [dump_doctype]: name ([HasQName]: prefix:local), public / system identifier AS WRITTEN (WF17),
      [XmlDocumentTypeDeclaration::notations] and [::unparsed_entities] (EVERY declaration, WF22) sorted
      by (name, printed token) -- Rust sorts the pairs (String, String) --, the PIs in order;
    - an element: name, then the rows of [namespace_attributes()] chained with [attributes()], sorted by
      (qualified name, printed token).  [Element::attributes] = the specified attributes that are no namespace
      declarations, then, for every definition of [declaration_att_defs] (first definition of a name over all
      attribute-list declarations of the element type) that is not #IMPLIED and whose name is not among
      the items collected so far, an attribute made from the declaration: #REQUIRED gives an attribute
      without value items (D36).  A definition whose name is a namespace declaration written on the element is skipped
      as well (D65, repaired in 703c414: before, such a declaration was listed twice).
      [Attribute::normalized_value]: character references as they are, literal text with [normalize_ws],
      entity references through [attr_value_from_name] (= [Model.Info.expand_attr] on the entities of the
      document type declaration), then -- when the element type declares the attribute with a type other
      than CDATA -- split at spaces, drop empty pieces, join with one space;
    - children of an element ([HasChild for XmlElement]): in the raw view one token per item (Text,
      CDATA section, character reference, entity reference with [XmlEntityReference::value] =
      [Model.Info.expand], comment, PI, element); in the merged view every maximal run of Text / CDATA /
      character reference / entity reference is ONE ExpandedText node whose data is the concatenation
      (an empty concatenation still gives a node: WF14; replacement text is not re-parsed: D13; nothing
      normalizes line ends: WF16).

    [dom_view merged doc : infoset] is the dump as a list of [Spec.Infoset.token]: the merged dump as it
    is, the raw dump after the merging that checks/C01.py applies ([merge_raw]: adjacent text / CDATA /
    reference tokens become one text token, empty runs vanish).  A failed accessor (`?attr`, `?mtext`,
    `r:..:!`) has no token of the specification: it is mapped to [TUnexp] of a string starting with `?`,
    which no information set of the specification contains.

    [show_token] is the printer of the dump format (also used as the second sort key).
    Computable, no proofs (Proofs/DomView*.v). *)
From Coq Require Import List NArith Bool.
From XmlRs Require Import Base.CPred Model.Peg Model.ParseActions Model.Info.
From XmlRs Require Spec.Infoset.
Import ListNotations.
Local Open Scope N_scope.

(** ** tokens of the dump *)
Inductive dtoken :=
| KTok (t : Infoset.token)              (* D: c: p: T: n: u: /T E: a: b: /E t: *)
| KCData (s : str)                      (* d:<data>           raw view only *)
| KCharRef (s : str)                    (* h:<char>           raw view only *)
| KRef (name : str) (value : option str) (* r:<name>:<value|!> raw view only *)
| KBadAttr (name : str)                 (* ?attr:<name>       normalized_value failed *)
| KBadText.                             (* ?mtext             data of the merged text node failed *)

(** ** the printer (harness/src/domains/wfdoc.rs, ocaml/specdomains/wf/wfdoc.ml) *)
Fixpoint dec_digits (fuel : nat) (n : N) (acc : str) : str :=
  match fuel with
  | O => acc
  | S f => if n / 10 =? 0 then (48 + n mod 10) :: acc else dec_digits f (n / 10) ((48 + n mod 10) :: acc)
  end.
Definition show_n (n : N) : str := dec_digits (S (N.size_nat n)) n [].
Fixpoint enc_tail (s : str) : str :=
  match s with [] => [] | c :: t => 44 :: show_n c ++ enc_tail t end.
Definition enc (s : str) : str :=                 (* util::enc *)
  match s with [] => [45] | c :: t => show_n c ++ enc_tail t end.
Definition enc_o (o : option str) : str := match o with None => [126] | Some s => enc s end.

Definition show_token (t : Infoset.token) : str :=
  match t with
  | Infoset.TDoc v e sa =>
    [68;58] ++ enc_o v ++ [58] ++ enc_o e ++ [58]
    ++ match sa with None => [126] | Some true => [121] | Some false => [110] end
  | Infoset.TComment s => [99;58] ++ enc s
  | Infoset.TPI t d => [112;58] ++ enc t ++ [58] ++ enc d
  | Infoset.TDoctype n p s => [84;58] ++ enc n ++ [58] ++ enc_o p ++ [58] ++ enc_o s
  | Infoset.TNotation n p s => [110;58] ++ enc n ++ [58] ++ enc_o p ++ [58] ++ enc_o s
  | Infoset.TUnparsed n p s nt => [117;58] ++ enc n ++ [58] ++ enc_o p ++ [58] ++ enc s ++ [58] ++ enc nt
  | Infoset.TEndDoctype => [47;84]
  | Infoset.TElem n => [69;58] ++ enc n
  | Infoset.TAttr sp n v => [if sp then 97 else 98; 58] ++ enc n ++ [58] ++ enc v
  | Infoset.TEndElem => [47;69]
  | Infoset.TText s => [116;58] ++ enc s
  | Infoset.TUnexp n => [120;58] ++ enc n
  end.

Definition show_dtoken (t : dtoken) : str :=
  match t with
  | KTok t => show_token t
  | KCData s => [100;58] ++ enc s
  | KCharRef s => [104;58] ++ enc s
  | KRef n v => [114;58] ++ enc n ++ [58] ++ match v with Some s => enc s | None => [33] end
  | KBadAttr n => [63;97;116;116;114;58] ++ enc n
  | KBadText => [63;109;116;101;120;116]
  end.

Fixpoint join_sp_str (l : list str) : str :=
  match l with [] => [] | [x] => x | x :: t => x ++ 32 :: join_sp_str t end.
Definition show_dump (l : list dtoken) : str := join_sp_str (map show_dtoken l).

(** ** sorting rows (String, String): lexicographic on code points (= byte order of UTF-8) *)
Fixpoint lex_ltb (a b : str) : bool :=
  match a, b with
  | [], _ :: _ => true
  | _, [] => false
  | x :: a', y :: b' => (x <? y) || ((x =? y) && lex_ltb a' b')
  end.
Definition row := (str * dtoken)%type.
Definition row_ltb (a b : row) : bool :=
  lex_ltb (fst a) (fst b) || (str_eqb (fst a) (fst b) && lex_ltb (show_dtoken (snd a)) (show_dtoken (snd b))).
Fixpoint row_insert (x : row) (l : list row) : list row :=
  match l with
  | [] => [x]
  | y :: t => if row_ltb x y then x :: l else y :: row_insert x t
  end.
Definition row_sort (l : list row) : list row := fold_right row_insert [] l.

(** ** names *)
Definition qn (local : str) (prefix : option str) : str :=      (* fn qn of wfdoc.rs *)
  match prefix with Some p => p ++ 58 :: local | None => local end.
(** equal_qname on the (local name, prefix) pairs that [HasQName::qname] turns into QNames *)
Definition qname_eq (l1 : str) (p1 : option str) (l2 : str) (p2 : option str) : bool :=
  opt_eqb str_eqb p1 p2 && str_eqb l1 l2.

(** ** XmlElement::declaration_att_defs *)
Fixpoint push_defs (defs : list attdef) (atts : list attdef) : list attdef :=
  match atts with
  | [] => defs
  | d :: r =>
    push_defs (if existsb (fun v => qname_eq (xd_local v) (xd_prefix v) (xd_local d) (xd_prefix d)) defs
               then defs else defs ++ [d]) r
  end.
Fixpoint att_defs_from (defs : list attdef) (als : list attlist) (local : str) (prefix : option str) : list attdef :=
  match als with
  | [] => defs
  | al :: r =>
    att_defs_from (if qname_eq (al_local al) (al_prefix al) local prefix then push_defs defs (al_atts al) else defs)
                  r local prefix
  end.
Definition declaration_att_defs (dt : option doctype) (local : str) (prefix : option str) : list attdef :=
  att_defs_from [] (match dt with Some x => dt_attlists x | None => [] end) local prefix.

(** XmlAttribute::declaration_type (the element is the parent of a specified attribute and is set as
    the parent of a defaulted one) *)
Definition declaration_type (defs : list attdef) (local : str) (prefix : option str) : option att_type :=
  match find (fun v => qname_eq (xd_local v) (xd_prefix v) local prefix) defs with
  | Some d => Some (xd_ty d)
  | None => None
  end.

(** ** Attribute::normalized_value *)
Fixpoint value_loop (ents : list entity) (vs : list avalue) : ires str :=
  match vs with
  | [] => IOk []
  | XaChar text _ _ :: r => ibind (value_loop ents r) (fun t => IOk (text ++ t))
  | XaEntity e :: r => ibind (expand_attr ents (en_name e)) (fun v => ibind (value_loop ents r) (fun t => IOk (v ++ t)))
  | XaText s :: r => ibind (value_loop ents r) (fun t => IOk (normalize_ws s ++ t))
  end.
(** [split(' ').filter(|v| !v.is_empty()).collect::<Vec<&str>>().join(" ")] *)
Fixpoint split_words (s cur : str) : list str :=       (* cur: the current piece, reversed *)
  match s with
  | [] => match cur with [] => [] | _ => [rev cur] end
  | c :: t => if c =? 32 then match cur with [] => split_words t [] | _ => rev cur :: split_words t [] end
              else split_words t (c :: cur)
  end.
Definition split_filter_join (s : str) : str := join_sp_str (split_words s []).
Definition normalized_value (ents : list entity) (ty : option att_type) (vs : list avalue) : ires str :=
  ibind (value_loop ents vs) (fun s =>
  IOk (match ty with
       | None | Some AtCdata => s
       | Some _ => split_filter_join s
       end)).

(** ** the rows of one element *)
Record vattr := VAttr { va_local : str; va_prefix : option str; va_values : list avalue; va_from_dtd : bool }.
Definition vattr_of (a : attr) : vattr := VAttr (xa_local a) (xa_prefix a) (xa_values a) false.
(** XmlAttribute::new_from_declaration *)
Definition vattr_of_def (d : attdef) : vattr :=
  VAttr (xd_local d) (xd_prefix d) (match xd_value d with XdValue _ vs => vs | _ => [] end) true.
Definition is_implied (d : attdef) : bool := match xd_value d with XdImplied => true | _ => false end.

(** [is_namespace_declaration] on the name of a definition: xmlns or xmlns:p ([p:xmlns] is an ordinary name) *)
Definition def_namespace (d : attdef) : bool :=
  match xd_prefix d with Some p => str_eqb p s_xmlns | None => str_eqb (xd_local d) s_xmlns end.
Definition is_value_def (d : attdef) : bool := match xd_value d with XdValue _ _ => true | _ => false end.

(** Element::attributes (after /repo bf629dc, D67): [items] = attributes_specified(), extended in the loop by every
    definition that is not #IMPLIED (a #REQUIRED one included: D36), is no namespace declaration and whose name is not
    among the items *)
Fixpoint add_defaults (items : list vattr) (defs : list attdef) : list vattr :=
  match defs with
  | [] => items
  | d :: r =>
    add_defaults (if negb (is_implied d) && negb (def_namespace d)
                     && negb (existsb (fun v => qname_eq (va_local v) (va_prefix v) (xd_local d) (xd_prefix d)) items)
                  then items ++ [vattr_of_def d] else items) r
  end.
(** HasQName/Element::namespace_attributes: the written declarations, extended by every definition that is a namespace
    declaration with a default VALUE ("v" or #FIXED "v") and whose name is not among the items: a namespace declaration is
    supplied "directly or by default" (Namespaces in XML 1.0, 3); a written one wins (D65 cannot recur) *)
Fixpoint add_ns_defaults (items : list vattr) (defs : list attdef) : list vattr :=
  match defs with
  | [] => items
  | d :: r =>
    add_ns_defaults (if is_value_def d && def_namespace d
                        && negb (existsb (fun v => qname_eq (va_local v) (va_prefix v) (xd_local d) (xd_prefix d)) items)
                     then items ++ [vattr_of_def d] else items) r
  end.
Definition element_attributes (defs : list attdef) (attrs : list attr) : list vattr :=
  add_defaults (map vattr_of (filter (fun a => negb (attr_namespace a)) attrs)) defs.
Definition namespace_attributes (defs : list attdef) (attrs : list attr) : list vattr :=
  add_ns_defaults (map vattr_of (filter attr_namespace attrs)) defs.

Definition ents_of (dt : option doctype) : list entity :=       (* what Context::entity sees *)
  match dt with Some x => dt_entities x | None => [] end.

Definition attr_row (ents : list entity) (defs : list attdef) (a : vattr) : row :=
  let name := qn (va_local a) (va_prefix a) in
  (name,
   match normalized_value ents (declaration_type defs (va_local a) (va_prefix a)) (va_values a) with
   | IOk v => KTok (Infoset.TAttr (negb (va_from_dtd a)) name v)
   | _ => KBadAttr name
   end).
Definition attr_rows (dt : option doctype) (local : str) (prefix : option str) (attrs : list attr) : list dtoken :=
  let defs := declaration_att_defs dt local prefix in
  map snd (row_sort (map (attr_row (ents_of dt) defs) (namespace_attributes defs attrs ++ element_attributes defs attrs))).

(** ** children of an element *)
Definition pi_token (p : ppi) : dtoken :=
  KTok (Infoset.TPI (pi_target p) (match pi_value p with Some c => c | None => [] end)).

(** character data of one item of a run (None: the item is not character data; Some None: value() failed) *)
Definition run_data (ents : list entity) (x : item) : option (option str) :=
  match x with
  | ItText s => Some (Some s)
  | ItCData s => Some (Some s)
  | ItCharRef text _ _ => Some (Some text)
  | ItUnexpanded e => Some (match expand ents (en_name e) with IOk v => Some v | _ => None end)
  | _ => None
  end.

(** XmlExpandedText::data of the run collected so far ([None]: some value() failed) *)
Definition flush_run (run : option (option str)) : list dtoken :=
  match run with
  | None => []
  | Some (Some s) => [KTok (Infoset.TText s)]
  | Some None => [KBadText]
  end.
Definition push_run (run : option (option str)) (d : option str) : option (option str) :=
  match run with
  | None => Some d
  | Some (Some s) => Some (match d with Some t => Some (s ++ t) | None => None end)
  | Some None => Some None
  end.

Section Items.
Variable dt : option doctype.

Fixpoint item_dump (merged : bool) (x : item) : list dtoken :=
  match x with
  | ItElement local prefix attrs children =>
    KTok (Infoset.TElem (qn local prefix)) :: attr_rows dt local prefix attrs
    ++ (if merged
        then (fix go (l : list item) (run : option (option str)) : list dtoken :=
                match l with
                | [] => flush_run run
                | y :: t => match run_data (ents_of dt) y with
                            | Some d => go t (push_run run d)
                            | None => flush_run run ++ item_dump merged y ++ go t None
                            end
                end) children None
        else (fix go (l : list item) : list dtoken :=
                match l with [] => [] | y :: t => item_dump merged y ++ go t end) children)
    ++ [KTok Infoset.TEndElem]
  | ItText s => [KTok (Infoset.TText s)]
  | ItCData s => [KCData s]
  | ItCharRef text _ _ => [KCharRef text]
  | ItComment s => [KTok (Infoset.TComment s)]
  | ItPI p => [pi_token p]
  | ItUnexpanded e => [KRef (en_name e) (match expand (ents_of dt) (en_name e) with IOk v => Some v | _ => None end)]
  | ItDocType d =>
    KTok (Infoset.TDoctype (qn (dt_local d) (dt_prefix d)) (dt_public d) (dt_system d))
    :: map snd (row_sort (map (fun n => (no_name n, KTok (Infoset.TNotation (no_name n) (no_public n) (no_system n))))
                              (dt_notations d)))
    ++ map snd (row_sort (flat_map (fun e => match en_notation e with
                                             | Some nt => [(en_name e, KTok (Infoset.TUnparsed (en_name e) (en_public e)
                                                                               (match en_system e with Some s => s | None => [] end) nt))]
                                             | None => [] end)
                                   (dt_entities d)))
    ++ map pi_token (dt_pis d)
    ++ [KTok Infoset.TEndDoctype]
  end.
End Items.

(** ** the document *)
Definition dom_dump (merged : bool) (d : document) : list dtoken :=
  KTok (Infoset.TDoc (doc_version d) (match doc_encoding d with [] => None | e => Some e end) (doc_standalone d))
  :: flat_map (item_dump (doc_doctype d) merged) (doc_children d).

(** ** the dump as an information set *)
Definition s_bad_attr : str := [63;97;116;116;114;58].       (* ?attr: *)
Definition s_bad_text : str := [63;109;116;101;120;116].     (* ?mtext *)
Definition s_bad_ref : str := [63;114;101;102;58].           (* ?ref: *)

(** checks/C01.py [merge_raw]; [acc]: the pending run ([None] = no run) *)
Fixpoint merge_raw (l : list dtoken) (acc : option str) : Infoset.infoset :=
  let flush := match acc with Some (c :: s) => [Infoset.TText (c :: s)] | _ => [] end in
  let add s := Some (match acc with Some a => a ++ s | None => s end) in
  match l with
  | [] => flush
  | KTok (Infoset.TText s) :: t => merge_raw t (add s)
  | KCData s :: t => merge_raw t (add s)
  | KCharRef s :: t => merge_raw t (add s)
  | KRef n (Some v) :: t => merge_raw t (add v)
  | KRef n None :: t => flush ++ Infoset.TUnexp (s_bad_ref ++ n) :: merge_raw t None
  | KTok x :: t => flush ++ x :: merge_raw t None
  | KBadAttr n :: t => flush ++ Infoset.TUnexp (s_bad_attr ++ n) :: merge_raw t None
  | KBadText :: t => flush ++ Infoset.TUnexp s_bad_text :: merge_raw t None
  end.

Definition plain_token (t : dtoken) : Infoset.token :=
  match t with
  | KTok x => x
  | KCData s | KCharRef s => Infoset.TText s
  | KRef n (Some v) => Infoset.TText v
  | KRef n None => Infoset.TUnexp (s_bad_ref ++ n)
  | KBadAttr n => Infoset.TUnexp (s_bad_attr ++ n)
  | KBadText => Infoset.TUnexp s_bad_text
  end.

Definition dom_view (merged : bool) (d : document) : Infoset.infoset :=
  if merged then map plain_token (dom_dump true d) else merge_raw (dom_dump false d) None.
