(** * Big-step reasoning about [Peg.denote] (used by the C08 round-trip proofs).

    [parses e s t r]: with enough fuel, [e] on [s] answers [Ok (t, r)]; [fails e s]: with enough
    fuel it answers [Fail].  One introduction lemma per combinator turns a proof about the
    fuelled interpreter into a derivation; [steps] / [ssteps] describe the iterations of
    [many0] and [separated_list]; [denote_mono] (more fuel never changes an answer that is
    not [Oof]) and the generic termination theorem connect a derivation to [Peg.run]. *)
From Coq Require Import List NArith Arith Lia Bool.
From XmlRs Require Import Base.CPred Model.Peg Proofs.PegTermination.
Import ListNotations.
Local Open Scope nat_scope.

(** ** strings *)
Lemma prefix_app (a r : str) : prefix a (a ++ r) = Some r.
Proof. induction a as [|x a IH]; cbn [prefix app]; [reflexivity|]. now rewrite N.eqb_refl. Qed.

Lemma prefix_nil_l s : prefix [] s = Some s.
Proof. destruct s; reflexivity. Qed.

Lemma prefix_hd_ne x a y s : x <> y -> prefix (x :: a) (y :: s) = None.
Proof. intros H. cbn [prefix]. destruct (N.eqb_spec x y); [contradiction|reflexivity]. Qed.

Lemma prefix_of_nil x a : prefix (x :: a) [] = None.
Proof. reflexivity. Qed.

Definition stops (f : char -> bool) (b : str) : Prop :=
  match b with [] => True | x :: _ => f x = false end.

Lemma span_app f (a b : str) : forallb f a = true -> stops f b -> span f (a ++ b) = (a, b).
Proof.
  induction a as [|c a IH]; cbn [forallb app]; intros Ha Hb.
  - destruct b as [|x b]; cbn [span]; [reflexivity|]. cbn [stops] in Hb. now rewrite Hb.
  - apply andb_true_iff in Ha. destruct Ha as [Hc Ha]. cbn [span]. rewrite Hc, (IH Ha Hb). reflexivity.
Qed.

Lemma span_stop f b : stops f b -> span f b = ([], b).
Proof. intros H. apply (span_app f [] b eq_refl H). Qed.

Lemma span_eq f s : s = fst (span f s) ++ snd (span f s).
Proof.
  induction s as [|c s IH]; cbn [span]; [reflexivity|]. destruct (f c); [|reflexivity].
  destruct (span f s) as [a b]. cbn [fst snd] in *. now rewrite IH at 1.
Qed.

Lemma span_fst_all f s : forallb f (fst (span f s)) = true.
Proof.
  induction s as [|c s IH]; cbn [span]; [reflexivity|]. destruct (f c) eqn:E; [|reflexivity].
  destruct (span f s) as [a b]. cbn [fst forallb] in *. now rewrite E, IH.
Qed.

Lemma span_snd_stops f s : stops f (snd (span f s)).
Proof.
  induction s as [|c s IH]; cbn [span]; [exact I|]. destruct (f c) eqn:E; [|exact E].
  destruct (span f s) as [a b]. exact IH.
Qed.

Lemma forallb_ext {A} (f g : A -> bool) l : (forall c, f c = g c) -> forallb f l = forallb g l.
Proof. intros H; induction l as [|c l IH]; cbn [forallb]; [reflexivity|]. now rewrite H, IH. Qed.

Lemma span_ext (f g : char -> bool) s : (forall c, f c = g c) -> span f s = span g s.
Proof. intros H; induction s as [|c s IH]; cbn [span]; [reflexivity|]. now rewrite H, IH. Qed.

Lemma span_sub (f g : char -> bool) : (forall c, f c = true -> g c = true) ->
  forall s, span g s = (fst (span f s) ++ fst (span g (snd (span f s))), snd (span g (snd (span f s)))).
Proof.
  intros Hfg; induction s as [|x s IH]; [reflexivity|].
  change (span f (x :: s)) with (if f x then let (a, b) := span f s in (x :: a, b) else ([], x :: s)).
  destruct (f x) eqn:E.
  - cbn [span]. rewrite (Hfg _ E). destruct (span f s) as [a b]. cbn [fst snd] in *. rewrite IH.
    destruct (span g b) as [c d]. reflexivity.
  - cbn [fst snd app]. destruct (span g (x :: s)) as [c d]. reflexivity.
Qed.

Lemma consumed_app (u d : str) : consumed (u ++ d) d = u.
Proof.
  unfold consumed. rewrite app_length. replace (length u + length d - length d) with (length u) by lia.
  rewrite firstn_app, Nat.sub_diag, firstn_all. cbn. apply app_nil_r.
Qed.

Section G.
Variable G : list pexpr.
Notation denote := (denote G).

Lemma den_eq f e s : denote f e s = den1 G f e s.
Proof. destruct f; destruct e; reflexivity. Qed.

(** ** more fuel never changes an answer *)
Lemma many_loop_ext k (p q : str -> res (tree * str)) :
  (forall s, p s <> Oof -> q s = p s) ->
  forall s acc, many_loop k p s acc <> Oof -> many_loop k q s acc = many_loop k p s acc.
Proof.
  intros Hpq; induction k as [|k IH]; intros s acc H; [reflexivity|]. cbn [many_loop] in *.
  destruct (p s) as [[t r]| |] eqn:E.
  - rewrite (Hpq s) by (rewrite E; discriminate). rewrite E.
    destruct (Nat.ltb (length r) (length s)); [|reflexivity]. apply IH. exact H.
  - rewrite (Hpq s) by (rewrite E; discriminate). rewrite E. reflexivity.
  - contradiction.
Qed.

Lemma sep_loop_ext k (sp sq p q : str -> res (tree * str)) :
  (forall s, sp s <> Oof -> sq s = sp s) -> (forall s, p s <> Oof -> q s = p s) ->
  forall s acc, sep_loop k sp p s acc <> Oof -> sep_loop k sq q s acc = sep_loop k sp p s acc.
Proof.
  intros Hs Hp; induction k as [|k IH]; intros s acc H; [reflexivity|]. cbn [sep_loop] in *.
  destruct (sp s) as [[t1 r1]| |] eqn:E1.
  - rewrite (Hs s) by (rewrite E1; discriminate). rewrite E1.
    destruct (Nat.ltb (length r1) (length s)); [|reflexivity].
    destruct (p r1) as [[t2 r2]| |] eqn:E2.
    + rewrite (Hp r1) by (rewrite E2; discriminate). rewrite E2. apply IH. exact H.
    + rewrite (Hp r1) by (rewrite E2; discriminate). rewrite E2. reflexivity.
    + contradiction.
  - rewrite (Hs s) by (rewrite E1; discriminate). rewrite E1. reflexivity.
  - contradiction.
Qed.

Lemma bind_not_oof {A B} (x : res A) (k : A -> res B) : bind x k <> Oof -> x <> Oof.
Proof. destruct x; cbn [bind]; intros H; try discriminate. exfalso; apply H; reflexivity. Qed.

Lemma denote_mono1 : forall f e s, denote f e s <> Oof -> denote (S f) e s = denote f e s.
Proof.
  induction f as [|f IHf];
  induction e as [a|c|c|a IHa b IHb|a IHa b IHb|a IHa b IHb|a IHa b IHb|p IHp|p IHp|p IHp
                  |sp IHsp p IHp|sp IHsp p IHp|p IHp|l p IHp|p IHp pat|p IHp pat|p1 p2 p IHp|n];
  intros s H; rewrite den_eq in H; rewrite (den_eq (S _)), (den_eq _ _ s); cbn [den1] in *;
  try reflexivity.
  (* Seq, SeqL, SeqR *)
  all: try (pose proof (bind_not_oof _ _ H) as Ha; rewrite (IHa s Ha);
            destruct (Peg.denote G _ a s) as [[ta ra]| |]; cbn [bind fst snd] in *; try reflexivity;
            pose proof (bind_not_oof _ _ H) as Hb; rewrite (IHb ra Hb); reflexivity).
  (* Alt *)
  all: try (destruct (Peg.denote G _ a s) as [[ta ra]| |] eqn:Ea;
            [ rewrite (IHa s) by (rewrite Ea; discriminate); rewrite Ea; reflexivity
            | rewrite (IHa s) by (rewrite Ea; discriminate); rewrite Ea; apply IHb; exact H
            | contradiction ]).
  (* Many0 *)
  all: try (apply many_loop_ext; [exact IHp|exact H]).
  (* Many1, SepBy1 *)
  all: try (pose proof (bind_not_oof _ _ H) as Hp; rewrite (IHp s Hp);
            destruct (Peg.denote G _ p s) as [[tp rp]| |]; cbn [bind fst snd] in *; try reflexivity;
            first [ apply many_loop_ext; [exact IHp|exact H]
                  | apply sep_loop_ext; [exact IHsp|exact IHp|exact H] ]).
  (* Opt, SepBy0 *)
  all: try (destruct (Peg.denote G _ p s) as [[tp rp]| |] eqn:Ep;
            [ rewrite (IHp s) by (rewrite Ep; discriminate); rewrite Ep;
              first [ reflexivity | apply sep_loop_ext; [exact IHsp|exact IHp|exact H] ]
            | rewrite (IHp s) by (rewrite Ep; discriminate); rewrite Ep; reflexivity
            | contradiction ]).
  (* Recognize, Map, TakeUntil, TakeExcept, VerifyEq *)
  all: try (pose proof (bind_not_oof _ _ H) as Hp; rewrite (IHp s Hp); reflexivity).
  (* NT *)
  - exfalso; apply H; reflexivity.
  - cbn [callnt] in *. apply IHf. exact H.
Qed.

Lemma denote_mono f f' e s : f <= f' -> denote f e s <> Oof -> denote f' e s = denote f e s.
Proof.
  induction 1 as [|f' Hle IH]; intros H; [reflexivity|].
  rewrite denote_mono1; [apply IH; exact H|]. rewrite (IH H). exact H.
Qed.

(** ** derivations *)
Definition parses (e : pexpr) (s : str) (t : tree) (r : str) : Prop :=
  exists f0, forall f, f0 <= f -> denote f e s = Ok (t, r).
Definition fails (e : pexpr) (s : str) : Prop :=
  exists f0, forall f, f0 <= f -> denote f e s = Fail.

Lemma parses_len e s t r : parses e s t r -> length r <= length s.
Proof. intros [f0 H]. eapply den_len. apply (H f0). lia. Qed.

Lemma parses_fun e s t r t' r' : parses e s t r -> parses e s t' r' -> t = t' /\ r = r'.
Proof.
  intros [f0 H] [f1 H1]. specialize (H (max f0 f1) (Nat.le_max_l _ _)).
  specialize (H1 (max f0 f1) (Nat.le_max_r _ _)). rewrite H in H1. injection H1; auto.
Qed.

Lemma parses_fails e s t r : parses e s t r -> fails e s -> False.
Proof.
  intros [f0 H] [f1 H1]. specialize (H (max f0 f1) (Nat.le_max_l _ _)).
  specialize (H1 (max f0 f1) (Nat.le_max_r _ _)). rewrite H in H1. discriminate.
Qed.

Ltac fuel2 H1 H2 f0 f1 :=
  exists (max f0 f1); intros f Hf; rewrite den_eq; cbn [den1];
  rewrite H1 by lia; cbn [bind fst snd]; try (rewrite H2 by lia; cbn [bind fst snd]).

Lemma parses_tag a s r : prefix a s = Some r -> parses (Tag a) s (TStr a) r.
Proof. intros H. exists 0. intros f _. rewrite den_eq. cbn [den1]. now rewrite H. Qed.

Lemma parses_tag_app a r : parses (Tag a) (a ++ r) (TStr a) r.
Proof. apply parses_tag, prefix_app. Qed.

Lemma fails_tag a s : prefix a s = None -> fails (Tag a) s.
Proof. intros H. exists 0. intros f _. rewrite den_eq. cbn [den1]. now rewrite H. Qed.

Lemma parses_chars0 p s : parses (Chars0 p) s (TStr (fst (span (eval p) s))) (snd (span (eval p) s)).
Proof. exists 0. intros f _. rewrite den_eq. cbn [den1]. destruct (span (eval p) s). reflexivity. Qed.

Lemma parses_chars0_app p (a b : str) : forallb (eval p) a = true -> stops (eval p) b ->
  parses (Chars0 p) (a ++ b) (TStr a) b.
Proof.
  intros Ha Hb. pose proof (parses_chars0 p (a ++ b)) as H. rewrite (span_app _ _ _ Ha Hb) in H. exact H.
Qed.

Lemma parses_chars1_app p (x : char) (a b : str) : forallb (eval p) (x :: a) = true -> stops (eval p) b ->
  parses (Chars1 p) ((x :: a) ++ b) (TStr (x :: a)) b.
Proof.
  intros Ha Hb. exists 0. intros f _. rewrite den_eq. cbn [den1]. rewrite (span_app _ _ _ Ha Hb). reflexivity.
Qed.

Lemma parses_chars1 p s : fst (span (eval p) s) <> [] ->
  parses (Chars1 p) s (TStr (fst (span (eval p) s))) (snd (span (eval p) s)).
Proof.
  intros H. exists 0. intros f _. rewrite den_eq. cbn [den1]. destruct (span (eval p) s) as [[|x a] b]; [contradiction|reflexivity].
Qed.

Lemma fails_chars1 p s : stops (eval p) s -> fails (Chars1 p) s.
Proof. intros H. exists 0. intros f _. rewrite den_eq. cbn [den1]. rewrite (span_stop _ _ H). reflexivity. Qed.

Lemma parses_seq a b s ta r1 tb r2 :
  parses a s ta r1 -> parses b r1 tb r2 -> parses (Seq a b) s (TPair ta tb) r2.
Proof. intros [f0 H0] [f1 H1]. fuel2 H0 H1 f0 f1. reflexivity. Qed.

Lemma parses_seql a b s ta r1 tb r2 :
  parses a s ta r1 -> parses b r1 tb r2 -> parses (SeqL a b) s ta r2.
Proof. intros [f0 H0] [f1 H1]. fuel2 H0 H1 f0 f1. reflexivity. Qed.

Lemma parses_seqr a b s ta r1 tb r2 :
  parses a s ta r1 -> parses b r1 tb r2 -> parses (SeqR a b) s tb r2.
Proof. intros [f0 H0] [f1 H1]. fuel2 H0 H1 f0 f1. reflexivity. Qed.

Lemma fails_seq_1 a b s : fails a s -> fails (Seq a b) s /\ fails (SeqL a b) s /\ fails (SeqR a b) s.
Proof.
  intros [f0 H0]. repeat split; exists f0; intros f Hf; rewrite den_eq; cbn [den1]; rewrite H0 by lia; reflexivity.
Qed.

Lemma fails_seq_2 a b s ta r1 : parses a s ta r1 -> fails b r1 ->
  fails (Seq a b) s /\ fails (SeqL a b) s /\ fails (SeqR a b) s.
Proof.
  intros [f0 H0] [f1 H1]. repeat split; fuel2 H0 H1 f0 f1; reflexivity.
Qed.

Lemma parses_alt_l a b s t r : parses a s t r -> parses (Alt a b) s t r.
Proof. intros [f0 H0]. exists f0. intros f Hf. rewrite den_eq. cbn [den1]. now rewrite H0 by lia. Qed.

Lemma parses_alt_r a b s t r : fails a s -> parses b s t r -> parses (Alt a b) s t r.
Proof. intros [f0 H0] [f1 H1]. exists (max f0 f1). intros f Hf. rewrite den_eq. cbn [den1]. rewrite H0 by lia. apply H1. lia. Qed.

Lemma fails_alt a b s : fails a s -> fails b s -> fails (Alt a b) s.
Proof. intros [f0 H0] [f1 H1]. exists (max f0 f1). intros f Hf. rewrite den_eq. cbn [den1]. rewrite H0 by lia. apply H1. lia. Qed.

Lemma parses_opt_some p s t r : parses p s t r -> parses (Opt p) s (TSome t) r.
Proof. intros [f0 H0]. exists f0. intros f Hf. rewrite den_eq. cbn [den1]. now rewrite H0 by lia. Qed.

Lemma parses_opt_none p s : fails p s -> parses (Opt p) s TNone s.
Proof. intros [f0 H0]. exists f0. intros f Hf. rewrite den_eq. cbn [den1]. now rewrite H0 by lia. Qed.

Lemma parses_map l p s t r : parses p s t r -> parses (Map l p) s (TMap l t) r.
Proof. intros [f0 H0]. exists f0. intros f Hf. rewrite den_eq. cbn [den1]. now rewrite H0 by lia. Qed.

Lemma fails_map l p s : fails p s -> fails (Map l p) s.
Proof. intros [f0 H0]. exists f0. intros f Hf. rewrite den_eq. cbn [den1]. now rewrite H0 by lia. Qed.

Lemma parses_recognize p s t r : parses p s t r -> parses (Recognize p) s (TStr (consumed s r)) r.
Proof. intros [f0 H0]. exists f0. intros f Hf. rewrite den_eq. cbn [den1]. now rewrite H0 by lia. Qed.

Lemma fails_recognize p s : fails p s -> fails (Recognize p) s.
Proof. intros [f0 H0]. exists f0. intros f Hf. rewrite den_eq. cbn [den1]. now rewrite H0 by lia. Qed.

Lemma parses_take_except p pat s t r : parses p s t r -> ci_reject pat (consumed s r) = false ->
  parses (TakeExcept p pat) s (TStr (consumed s r)) r.
Proof.
  intros [f0 H0] Hc. exists f0. intros f Hf. rewrite den_eq. cbn [den1]. rewrite H0 by lia.
  cbn [bind fst snd]. now rewrite Hc.
Qed.

Lemma fails_take_except_reject p pat s t r : parses p s t r -> ci_reject pat (consumed s r) = true ->
  fails (TakeExcept p pat) s.
Proof.
  intros [f0 H0] Hc. exists f0. intros f Hf. rewrite den_eq. cbn [den1]. rewrite H0 by lia.
  cbn [bind fst snd]. now rewrite Hc.
Qed.

Lemma fails_take_except p pat s : fails p s -> fails (TakeExcept p pat) s.
Proof. intros [f0 H0]. exists f0. intros f Hf. rewrite den_eq. cbn [den1]. now rewrite H0 by lia. Qed.

Lemma parses_nt n s t r : parses (body G n) s t r -> parses (NT n) s t r.
Proof.
  intros [f0 H0]. exists (S f0). intros f Hf. destruct f as [|f]; [lia|].
  rewrite den_eq. cbn [den1 callnt]. apply H0. lia.
Qed.

Lemma fails_nt n s : fails (body G n) s -> fails (NT n) s.
Proof.
  intros [f0 H0]. exists (S f0). intros f Hf. destruct f as [|f]; [lia|].
  rewrite den_eq. cbn [den1 callnt]. apply H0. lia.
Qed.

(** ** iterations of [many0] *)
Inductive steps (p : pexpr) : str -> list tree -> str -> Prop :=
| steps_nil s : steps p s [] s
| steps_cons s t r l r' :
    parses p s t r -> length r < length s -> steps p r l r' -> steps p s (t :: l) r'.

Lemma steps_app p s l1 r1 l2 r2 : steps p s l1 r1 -> steps p r1 l2 r2 -> steps p s (l1 ++ l2) r2.
Proof. induction 1; intros H'; cbn [app]; [exact H'|]. econstructor; eauto. Qed.

Lemma steps_one p s t r : parses p s t r -> length r < length s -> steps p s [t] r.
Proof. intros. econstructor; eauto. constructor. Qed.

Lemma many_loop_steps p s l r : steps p s l r -> fails p r ->
  exists f0, forall f, f0 <= f -> forall k acc, length s < k ->
    many_loop k (denote f p) s acc = Ok (TList (rev acc ++ l), r).
Proof.
  induction 1 as [s|s t r0 l r' Hp Hlt Hst IH]; intros Hf.
  - destruct Hf as [f0 Hf]. exists f0. intros f Hle k acc Hk. destruct k as [|k]; [lia|].
    cbn [many_loop]. rewrite Hf by lia. now rewrite app_nil_r.
  - destruct (IH Hf) as [f1 H1]. destruct Hp as [f0 H0]. exists (max f0 f1).
    intros f Hle k acc Hk. destruct k as [|k]; [lia|]. cbn [many_loop]. rewrite H0 by lia.
    destruct (Nat.ltb_spec (length r0) (length s)); [|lia].
    rewrite H1 by lia. cbn [rev]. now rewrite <- app_assoc.
Qed.

Lemma parses_many0 p s l r : steps p s l r -> fails p r -> parses (Many0 p) s (TList l) r.
Proof.
  intros Hs Hf. destruct (many_loop_steps _ _ _ _ Hs Hf) as [f0 H]. exists f0. intros f Hle.
  rewrite den_eq. cbn [den1]. rewrite (H f Hle) by lia. reflexivity.
Qed.

(** ** iterations of [separated_list]: after an element, (separator element)* and a stop *)
Inductive ssteps (sep p : pexpr) : str -> list tree -> str -> Prop :=
| ssteps_nil s : ssteps sep p s [] s
| ssteps_cons s ts r1 t r2 l r' :
    parses sep s ts r1 -> length r1 < length s -> parses p r1 t r2 -> ssteps sep p r2 l r' ->
    ssteps sep p s (t :: l) r'.

Definition sstop (sep p : pexpr) (r : str) : Prop :=
  fails sep r \/ exists ts r1, parses sep r ts r1 /\ length r1 < length r /\ fails p r1.

Lemma ssteps_app sep p s l1 r1 l2 r2 :
  ssteps sep p s l1 r1 -> ssteps sep p r1 l2 r2 -> ssteps sep p s (l1 ++ l2) r2.
Proof. induction 1; intros H'; cbn [app]; [exact H'|]. econstructor; eauto. Qed.

Lemma sep_loop_ssteps sep p s l r : ssteps sep p s l r -> sstop sep p r ->
  exists f0, forall f, f0 <= f -> forall k acc, length s < k ->
    sep_loop k (denote f sep) (denote f p) s acc = Ok (TList (rev acc ++ l), r).
Proof.
  induction 1 as [s|s ts r1 t r2 l r' Hs Hlt Hp Hst IH]; intros Hstop.
  - destruct Hstop as [[f0 Hf]|(ts & r1 & [f0 H0] & Hlt & [f1 H1])].
    + exists f0. intros f Hle k acc Hk. destruct k as [|k]; [lia|].
      cbn [sep_loop]. rewrite Hf by lia. now rewrite app_nil_r.
    + exists (max f0 f1). intros f Hle k acc Hk. destruct k as [|k]; [lia|].
      cbn [sep_loop]. rewrite H0 by lia. destruct (Nat.ltb_spec (length r1) (length s)); [|lia].
      rewrite H1 by lia. now rewrite app_nil_r.
  - destruct (IH Hstop) as [f2 H2]. destruct Hs as [f0 H0]. destruct Hp as [f1 H1].
    exists (max f0 (max f1 f2)). intros f Hle k acc Hk. destruct k as [|k]; [lia|].
    cbn [sep_loop]. rewrite H0 by lia. destruct (Nat.ltb_spec (length r1) (length s)); [|lia].
    rewrite H1 by lia.
    assert (L2 : length r2 <= length r1) by (eapply den_len; apply (H1 (max f0 (max f1 f2))); lia).
    rewrite H2 by lia. cbn [rev]. now rewrite <- app_assoc.
Qed.

Lemma parses_sepby1 sep p s t0 r0 l r :
  parses p s t0 r0 -> ssteps sep p r0 l r -> sstop sep p r ->
  parses (SepBy1 sep p) s (TList (t0 :: l)) r.
Proof.
  intros [f0 H0] Hs Hstop. destruct (sep_loop_ssteps _ _ _ _ _ Hs Hstop) as [f1 H1].
  exists (max f0 f1). intros f Hle. rewrite den_eq. cbn [den1]. rewrite H0 by lia. cbn [bind fst snd].
  rewrite H1 by lia. reflexivity.
Qed.

Lemma fails_sepby1 sep p s : fails p s -> fails (SepBy1 sep p) s.
Proof. intros [f0 H0]. exists f0. intros f Hf. rewrite den_eq. cbn [den1]. now rewrite H0 by lia. Qed.

Lemma parses_sepby0_cons sep p s t0 r0 l r :
  parses p s t0 r0 -> ssteps sep p r0 l r -> sstop sep p r ->
  parses (SepBy0 sep p) s (TList (t0 :: l)) r.
Proof.
  intros [f0 H0] Hs Hstop. destruct (sep_loop_ssteps _ _ _ _ _ Hs Hstop) as [f1 H1].
  exists (max f0 f1). intros f Hle. rewrite den_eq. cbn [den1]. rewrite H0 by lia.
  rewrite H1 by lia. reflexivity.
Qed.

Lemma parses_sepby0_nil sep p s : fails p s -> parses (SepBy0 sep p) s (TList []) s.
Proof. intros [f0 H0]. exists f0. intros f Hf. rewrite den_eq. cbn [den1]. now rewrite H0 by lia. Qed.

(** ** from a derivation to [Peg.run] *)
Lemma parses_denote e s t r f : parses e s t r -> denote f e s <> Oof -> denote f e s = Ok (t, r).
Proof.
  intros [f0 H] Hn. rewrite <- (denote_mono f (max f f0) e s (Nat.le_max_l _ _) Hn).
  apply H. lia.
Qed.

Lemma fails_denote e s f : fails e s -> denote f e s <> Oof -> denote f e s = Fail.
Proof.
  intros [f0 H] Hn. rewrite <- (denote_mono f (max f f0) e s (Nat.le_max_l _ _) Hn).
  apply H. lia.
Qed.

End G.

Theorem parses_run G nulls ranks R n s t r :
  cert_okb G nulls ranks R = true -> parses G (NT n) s t r -> run G R n s = Ok (t, r).
Proof.
  intros C H. unfold run. apply parses_denote; [exact H|].
  exact (certified_grammar_terminates G nulls ranks R C n s).
Qed.

Theorem fails_run G nulls ranks R n s :
  cert_okb G nulls ranks R = true -> fails G (NT n) s -> run G R n s = Fail.
Proof.
  intros C H. unfold run. apply fails_denote; [exact H|].
  exact (certified_grammar_terminates G nulls ranks R C n s).
Qed.
