(** * C05, round 2: the tree behind the table.

    [SpecShape] says that the rows of the table, read by the pre-order walk of the specification
    ([all_nodes]), come in increasing order.  From that single fact this file derives what the
    axes need: the rows of a subtree are a contiguous, increasing segment of the walk; children,
    attributes and descendants are increasing lists; sibling subtrees are disjoint and ordered;
    every node of the tree except the root has its parent in the tree.  [T i] ("tree node"): row
    [i] is reached by the walk -- the invariant of context nodes in the refinement proof. *)
From Coq Require Import List NArith Bool Lia Sorting.Sorted Sorting.Permutation.
From XmlRs Require Import Base.CPred Base.NList Base.Float64.
From XmlRs Require Import Spec.XPathCore Model.XPathFuncs.
From XmlRs Require Import Model.XPathAst Model.XDoc Model.XPathScalar Model.XPathEval.
From XmlRs Require Import Spec.XPath10.
From XmlRs Require Import Proofs.XPathNav Proofs.XPathSort Proofs.XPathCanon Proofs.XPathRefine.
Import ListNotations.
Open Scope N_scope.

(** ** lists in increasing order *)
Notation inc := (StronglySorted N.lt).

Lemma inc_app (a b : list N) :
  inc (a ++ b) <-> inc a /\ inc b /\ (forall x y, In x a -> In y b -> x < y).
Proof.
  induction a as [|h t IH]; cbn [app].
  - split; [intros H; split; [constructor|split; [exact H|intros x y []]]|intros [_ [H _]]; exact H].
  - split.
    + intros H. inversion H as [|h' t' Ht Hh]; subst. apply IH in Ht. destruct Ht as [Ha [Hb Hab]].
      rewrite Forall_forall in Hh. split; [|split; [exact Hb|]].
      * constructor; [exact Ha|]. apply Forall_forall. intros x Hx. apply Hh. apply in_or_app. left. exact Hx.
      * intros x y [->|Hx] Hy; [apply Hh; apply in_or_app; right; exact Hy|apply Hab; assumption].
    + intros [Ha [Hb Hab]]. inversion Ha as [|h' t' Ht Hh]; subst. constructor.
      * apply IH. split; [exact Ht|split; [exact Hb|]]. intros x y Hx Hy. apply Hab; [right; exact Hx|exact Hy].
      * apply Forall_forall. intros x Hx. apply in_app_or in Hx. destruct Hx as [Hx|Hx].
        -- rewrite Forall_forall in Hh. apply Hh. exact Hx.
        -- apply Hab; [left; reflexivity|exact Hx].
Qed.

Lemma inc_filter (f : N -> bool) l : inc l -> inc (filter f l).
Proof.
  intros H. induction H as [|x t Ht IH Hx]; cbn [filter]; [constructor|].
  destruct (f x); [|exact IH]. constructor; [exact IH|].
  apply Forall_forall. intros y Hy. apply filter_In in Hy. rewrite Forall_forall in Hx. apply Hx. apply Hy.
Qed.

Lemma inc_NoDup l : inc l -> NoDup l.
Proof.
  intros H. induction H as [|x t Ht IH Hx]; constructor; [|exact IH].
  intros Hin. rewrite Forall_forall in Hx. specialize (Hx x Hin). lia.
Qed.

Lemma inc_cons_lt x l : inc (x :: l) -> forall y, In y l -> x < y.
Proof. intros H y Hy. inversion H as [|x' l' _ Hx]; subst. rewrite Forall_forall in Hx. apply Hx. exact Hy. Qed.

Lemma inc_rev_NoDup l : inc l -> NoDup (rev l).
Proof. intros H. apply NoDup_rev. apply inc_NoDup. exact H. Qed.

Lemma flat_map_ext_in' {A B} (f g : A -> list B) l :
  (forall x, In x l -> f x = g x) -> flat_map f l = flat_map g l.
Proof.
  induction l as [|x t IH]; intros H; cbn [flat_map]; [reflexivity|].
  rewrite (H x (or_introl eq_refl)), IH; [reflexivity|]. intros y Hy. apply H. right. exact Hy.
Qed.

Lemma filter_flat_map {A B} (p : B -> bool) (g : A -> list B) l :
  filter p (flat_map g l) = flat_map (fun x => filter p (g x)) l.
Proof. induction l as [|x t IH]; cbn [flat_map]; [reflexivity|]. rewrite filter_app, IH. reflexivity. Qed.

Lemma filter_none {A} (p : A -> bool) l : (forall x, In x l -> p x = false) -> filter p l = [].
Proof.
  induction l as [|x t IH]; intros H; cbn [filter]; [reflexivity|].
  rewrite (H x (or_introl eq_refl)). apply IH. intros y Hy. apply H. right. exact Hy.
Qed.

Lemma filter_all {A} (p : A -> bool) l : (forall x, In x l -> p x = true) -> filter p l = l.
Proof.
  induction l as [|x t IH]; intros H; cbn [filter]; [reflexivity|].
  rewrite (H x (or_introl eq_refl)). f_equal. apply IH. intros y Hy. apply H. right. exact Hy.
Qed.

Lemma filter_cons_app {A} (p : A -> bool) x l : filter p (x :: l) = (if p x then [x] else []) ++ filter p l.
Proof. cbn [filter]. destruct (p x); reflexivity. Qed.

Lemma flat_map_rev {A B} (f : A -> list B) l :
  flat_map (fun x => rev (f x)) (rev l) = rev (flat_map f l).
Proof.
  induction l as [|x t IH]; cbn [rev flat_map]; [reflexivity|].
  rewrite flat_map_app, IH. cbn [flat_map]. rewrite app_nil_r, rev_app_distr. reflexivity.
Qed.

(** [after] / [before] of the specification on a list without duplicates *)
Lemma after_split x a b : ~ In x a -> after x (a ++ x :: b) = b.
Proof.
  induction a as [|y t IH]; intros H; cbn [app after].
  - rewrite N.eqb_refl. reflexivity.
  - destruct (N.eqb_spec y x) as [E|E]; [exfalso; apply H; left; exact E|]. apply IH. intros Hin. apply H. right. exact Hin.
Qed.

Lemma before_split x a b : ~ In x a -> before x (a ++ x :: b) = a.
Proof.
  induction a as [|y t IH]; intros H; cbn [app before].
  - rewrite N.eqb_refl. reflexivity.
  - destruct (N.eqb_spec y x) as [E|E]; [exfalso; apply H; left; exact E|]. f_equal. apply IH. intros Hin. apply H. right. exact Hin.
Qed.

Lemma after_notin x l : ~ In x l -> after x l = [].
Proof.
  induction l as [|y t IH]; intros H; cbn [after]; [reflexivity|].
  destruct (N.eqb_spec y x) as [E|E]; [exfalso; apply H; left; exact E|]. apply IH. intros Hin. apply H. right. exact Hin.
Qed.

Section Tree.
Variable doc : xdoc.
Hypothesis Hinv : DocInv doc.
Hypothesis Hshape : SpecShape doc.
Let Hwf := inv_wf doc Hinv.
Let Hkeys := inv_keys doc Hinv.

Notation xch := (xchildren doc).
Notation attrs := (attributes doc).

(** ** induction along the tree *)
Lemma xch_valid i c : valid doc i -> In c (xch i) -> valid doc c /\ i < c.
Proof. intros Vi Hc. apply (wf_children doc Hwf i c Vi). apply (xchildren_incl doc). exact Hc. Qed.

Lemma tree_ind (P : N -> Prop) :
  (forall i, valid doc i -> (forall c, In c (xch i) -> P c) -> P i) -> forall i, valid doc i -> P i.
Proof.
  intros Hstep.
  assert (H : forall k i, valid doc i -> (length doc - N.to_nat i < k)%nat -> P i).
  { induction k as [|k IH]; intros i Vi Hlt; [lia|]. apply Hstep; [exact Vi|].
    intros c Hc. destruct (xch_valid i c Vi Hc) as [Vc Hic]. apply IH; [exact Vc|]. unfold valid in Vc. lia. }
  intros i Vi. apply (H (S (length doc)) i Vi). lia.
Qed.

(** ** the walk, rows only *)
Fixpoint rwalk (fuel : nat) (i : N) : list N :=
  match fuel with
  | O => []
  | S f => i :: (match kind doc i with KElement => attrs i | _ => [] end) ++ flat_map (rwalk f) (xch i)
  end.

Lemma rows_of_app a b : rows_of (a ++ b) = rows_of a ++ rows_of b.
Proof. unfold rows_of. apply flat_map_app. Qed.

Lemma rows_of_ns e l : rows_of (map (NsOf e) l) = [].
Proof. induction l as [|x t IH]; [reflexivity|exact IH]. Qed.

Lemma rows_of_rows l : rows_of (map Row l) = l.
Proof. induction l as [|x t IH]; [reflexivity|]. cbn [map]. unfold rows_of in *. cbn [flat_map app]. f_equal. exact IH. Qed.

Lemma rows_walk fuel : forall i, rows_of (walk_fuel doc fuel i) = rwalk fuel i.
Proof.
  induction fuel as [|f IH]; intros i; [reflexivity|]. cbn [walk_fuel rwalk].
  change (Row i :: ?l) with ([Row i] ++ l). rewrite rows_of_app. cbn [app]. change (rows_of [Row i]) with [i]. cbn [app].
  f_equal. rewrite rows_of_app. f_equal.
  - destruct (kind doc i); try reflexivity. rewrite rows_of_app, rows_of_ns, rows_of_rows. reflexivity.
  - induction (xch i) as [|c t IHt]; [reflexivity|]. cbn [flat_map]. rewrite rows_of_app, IH, IHt. reflexivity.
Qed.

Lemma rwalk_fuel f1 : forall f2 i, valid doc i ->
  (length doc - N.to_nat i < f1)%nat -> (length doc - N.to_nat i < f2)%nat -> rwalk f1 i = rwalk f2 i.
Proof.
  induction f1 as [|f1 IH]; intros f2 i Vi H1 H2; [lia|]. destruct f2 as [|f2]; [lia|]. cbn [rwalk].
  f_equal. f_equal. apply flat_map_ext_in'. intros c Hc. destruct (xch_valid i c Vi Hc) as [Vc Hic].
  unfold valid in Vc. apply IH; [exact Vc|lia|lia].
Qed.

Definition W (i : N) : list N := rwalk (fuel0 doc) i.

Lemma W_eq i : valid doc i -> W i = i :: attrs i ++ flat_map W (xch i).
Proof.
  intros Vi. unfold W at 1. unfold fuel0. cbn [rwalk]. f_equal. f_equal.
  - destruct (kind doc i) eqn:Ek; try reflexivity; symmetry; apply (sh_attrs doc Hshape i Vi); rewrite Ek; discriminate.
  - apply flat_map_ext_in'. intros c Hc. destruct (xch_valid i c Vi Hc) as [Vc Hic].
    unfold W, fuel0. unfold valid in Vc. apply rwalk_fuel; [exact Vc|lia|lia].
Qed.

Lemma W_root : W doc_root = rows_of (all_nodes doc).
Proof. unfold W, all_nodes. symmetry. apply rows_walk. Qed.

Definition T (i : N) : Prop := In i (W doc_root).

Lemma W_self i : valid doc i -> In i (W i).
Proof. intros Vi. rewrite (W_eq i Vi). left. reflexivity. Qed.

Lemma T_root : T doc_root.
Proof. apply W_self. apply (wf_root doc Hwf). Qed.

(** membership in a subtree, one level *)
Lemma W_in r x : valid doc r ->
  (In x (W r) <-> x = r \/ In x (attrs r) \/ exists c, In c (xch r) /\ In x (W c)).
Proof.
  intros Vr. rewrite (W_eq r Vr). cbn [In]. rewrite in_app_iff, in_flat_map. split.
  - intros [E|[H|H]]; [left; symmetry; exact E|right; left; exact H|right; right; exact H].
  - intros [E|[H|H]]; [left; symmetry; exact E|right; left; exact H|right; right; exact H].
Qed.

Lemma attr_leaf a i : valid doc i -> In a (attrs i) -> valid doc a /\ xch a = [] /\ attrs a = [].
Proof.
  intros Vi Ha. pose proof (wf_attrs doc Hwf i a Vi Ha) as Va.
  pose proof (sh_attr_kind doc Hshape i a Vi Ha) as Ka. split; [exact Va|]. split.
  - unfold xchildren. rewrite Ka. reflexivity.
  - apply (sh_attrs doc Hshape a Va). rewrite Ka. discriminate.
Qed.

Lemma W_attr a i : valid doc i -> In a (attrs i) -> W a = [a].
Proof.
  intros Vi Ha. destruct (attr_leaf a i Vi Ha) as [Va [E1 E2]]. rewrite (W_eq a Va), E1, E2. reflexivity.
Qed.

Lemma W_valid : forall r, valid doc r -> Forall (valid doc) (W r).
Proof.
  apply (tree_ind (fun r => Forall (valid doc) (W r))). intros r Vr IH.
  apply Forall_forall. intros x Hx. apply (W_in r x Vr) in Hx.
  destruct Hx as [->|[Hx|[c [Hc Hx]]]]; [exact Vr|apply (wf_attrs doc Hwf r x Vr Hx)|].
  specialize (IH c Hc). rewrite Forall_forall in IH. apply IH. exact Hx.
Qed.

(** the rows of a subtree are a segment of the rows of every enclosing subtree *)
Lemma W_segment : forall r, valid doc r -> forall i, In i (W r) -> exists pre post, W r = pre ++ W i ++ post.
Proof.
  apply (tree_ind (fun r => forall i, In i (W r) -> exists pre post, W r = pre ++ W i ++ post)).
  intros r Vr IH i Hi. apply (W_in r i Vr) in Hi. destruct Hi as [->|[Hi|[c [Hc Hi]]]].
  - exists [], []. rewrite app_nil_r. reflexivity.
  - rewrite (W_attr i r Vr Hi). destruct (in_split i (attrs r) Hi) as [l1 [l2 E]].
    exists (r :: l1), (l2 ++ flat_map W (xch r)). rewrite (W_eq r Vr), E. cbn [app]. rewrite <- app_assoc. reflexivity.
  - destruct (IH c Hc i Hi) as [pre [post E]]. destruct (in_split c (xch r) Hc) as [l1 [l2 E2]].
    exists (r :: attrs r ++ flat_map W l1 ++ pre), (post ++ flat_map W l2).
    rewrite (W_eq r Vr), E2, flat_map_app. cbn [flat_map]. rewrite E. cbn [app].
    rewrite <- !app_assoc. reflexivity.
Qed.

Lemma T_valid i : T i -> valid doc i.
Proof. intros Hi. pose proof (W_valid doc_root (wf_root doc Hwf)) as H. rewrite Forall_forall in H. apply H. exact Hi. Qed.

Lemma T_sub i x : T i -> In x (W i) -> T x.
Proof.
  intros Ti Hx. destruct (W_segment doc_root (wf_root doc Hwf) i Ti) as [pre [post E]].
  unfold T. rewrite E. apply in_or_app. right. apply in_or_app. left. exact Hx.
Qed.

Lemma T_child i c : T i -> In c (xch i) -> T c.
Proof.
  intros Ti Hc. apply (T_sub i c Ti). apply (W_in i c (T_valid i Ti)). right. right. exists c. split; [exact Hc|].
  apply W_self. apply (xch_valid i c (T_valid i Ti) Hc).
Qed.

Lemma T_attr i a : T i -> In a (attrs i) -> T a.
Proof. intros Ti Ha. apply (T_sub i a Ti). apply (W_in i a (T_valid i Ti)). right. left. exact Ha. Qed.

(** ** order *)
Lemma root_inc : inc (W doc_root).
Proof. rewrite W_root. apply (sh_order doc Hshape). Qed.

Lemma T_inc i : T i -> inc (W i).
Proof.
  intros Ti. destruct (W_segment doc_root (wf_root doc Hwf) i Ti) as [pre [post E]].
  pose proof root_inc as H. rewrite E in H. apply inc_app in H. destruct H as [_ [H _]].
  apply inc_app in H. apply H.
Qed.

(** a tree node outside the subtree of [i] is before [i] or after every row of the subtree *)
Lemma T_outside i m : T i -> T m -> In m (W i) \/ m < i \/ (forall x, In x (W i) -> x < m).
Proof.
  intros Ti Tm. destruct (W_segment doc_root (wf_root doc Hwf) i Ti) as [pre [post E]].
  pose proof root_inc as H. rewrite E in H. apply inc_app in H. destruct H as [_ [H H1]].
  apply inc_app in H. destruct H as [_ [_ H2]].
  unfold T in Tm. rewrite E in Tm. apply in_app_or in Tm. destruct Tm as [Hm|Hm].
  - right. left. apply H1; [exact Hm|]. apply in_or_app. left. apply W_self. apply T_valid. exact Ti.
  - apply in_app_or in Hm. destruct Hm as [Hm|Hm]; [left; exact Hm|].
    right. right. intros x Hx. apply H2; assumption.
Qed.

Lemma W_min i x : T i -> In x (W i) -> i <= x.
Proof.
  intros Ti Hx. pose proof (T_inc i Ti) as H. rewrite (W_eq i (T_valid i Ti)) in H, Hx.
  destruct Hx as [->|Hx]; [lia|]. pose proof (inc_cons_lt _ _ H x Hx). lia.
Qed.

Lemma W_lt i x : T i -> In x (W i) -> x <> i -> i < x.
Proof. intros Ti Hx Hne. pose proof (W_min i x Ti Hx). lia. Qed.

(** the pieces of [W p]: attributes, then the subtrees of the children in turn *)
Lemma T_pieces p : T p ->
  inc (attrs p) /\ inc (flat_map W (xch p)) /\
  (forall a y, In a (attrs p) -> In y (flat_map W (xch p)) -> a < y).
Proof.
  intros Tp. pose proof (T_inc p Tp) as H. rewrite (W_eq p (T_valid p Tp)) in H.
  inversion H as [|p' l' H' _]; subst. apply inc_app in H'. exact H'.
Qed.

Lemma attrs_inc p : T p -> inc (attrs p).
Proof. intros Tp. apply (T_pieces p Tp). Qed.

Lemma attr_before_child p a c y : T p -> In a (attrs p) -> In c (xch p) -> In y (W c) -> a < y.
Proof.
  intros Tp Ha Hc Hy. destruct (T_pieces p Tp) as [_ [_ H]]. apply (H a y Ha). apply in_flat_map. exists c. split; assumption.
Qed.

Lemma siblings_ordered p l1 c1 l2 c2 x y : T p -> xch p = l1 ++ c1 :: l2 -> In c2 l2 ->
  In x (W c1) -> In y (W c2) -> x < y.
Proof.
  intros Tp E Hc2 Hx Hy. destruct (T_pieces p Tp) as [_ [H _]]. rewrite E, flat_map_app in H. cbn [flat_map] in H.
  apply inc_app in H. destruct H as [_ [H _]]. apply inc_app in H. destruct H as [_ [_ H]].
  apply (H x y Hx). apply in_flat_map. exists c2. split; assumption.
Qed.

Lemma xch_inc p : T p -> inc (xch p).
Proof.
  intros Tp. assert (Hgen : forall l, (forall c, In c l -> In c (xch p)) -> inc (flat_map W l) -> inc l).
  { induction l as [|c t IH]; intros Hsub H; [constructor|]. cbn [flat_map] in H. apply inc_app in H.
    destruct H as [_ [Ht Hct]]. constructor; [apply IH; [intros d Hd; apply Hsub; right; exact Hd|exact Ht]|].
    apply Forall_forall. intros d Hd. apply Hct.
    - apply W_self. apply (xch_valid p c (T_valid p Tp)). apply Hsub. left. reflexivity.
    - apply in_flat_map. exists d. split; [exact Hd|]. apply W_self. apply (xch_valid p d (T_valid p Tp)). apply Hsub. right. exact Hd. }
  apply Hgen; [intros c Hc; exact Hc|]. apply (T_pieces p Tp).
Qed.

(** ** kinds of tree nodes, parents *)
Lemma xch_kind p c : valid doc p -> In c (xch p) ->
  kind doc c <> KAttribute /\ kind doc c <> KDocument /\ kind doc c <> KDocumentType /\
  sibling_nav_kind (kind doc c) = true /\ parent_node doc c = Some p /\ (kind doc p = KDocument \/ kind doc p = KElement).
Proof.
  intros Vp Hc. pose proof (xchildren_incl doc p c Hc) as Hc'.
  destruct (sh_child_kind doc Hshape p c Vp Hc') as [H1 H2].
  split; [exact H1|]. split; [exact H2|]. split.
  - unfold xchildren in Hc. destruct (kind doc p); try (destruct Hc; fail); apply filter_In in Hc; destruct Hc as [_ Hc];
      intros E; rewrite E in Hc; discriminate.
  - split; [apply (sh_child_nav doc Hshape p c Vp Hc')|]. split; [apply (sh_child_parent doc Hshape p c Vp Hc')|].
    unfold xchildren in Hc. destruct (kind doc p); try (destruct Hc; fail); [right|left]; reflexivity.
Qed.

Definition nonattr (x : N) : bool := negb (nkind_eqb (kind doc x) KAttribute).

Lemma nonattr_true x : nonattr x = true <-> kind doc x <> KAttribute.
Proof.
  unfold nonattr. split.
  - intros H E. rewrite E in H. discriminate.
  - intros H. destruct (nkind_eqb (kind doc x) KAttribute) eqn:E; [apply nkind_eqb_true in E; contradiction|reflexivity].
Qed.

(** every tree node except the root has its parent in the tree *)
Lemma W_parent : forall r, valid doc r -> forall x, In x (W r) -> x = r \/
  exists p, In p (W r) /\ (In x (xch p) \/ In x (attrs p)).
Proof.
  apply (tree_ind (fun r => forall x, In x (W r) -> x = r \/ exists p, In p (W r) /\ (In x (xch p) \/ In x (attrs p)))).
  intros r Vr IH x Hx. apply (W_in r x Vr) in Hx. destruct Hx as [->|[Hx|[c [Hc Hx]]]].
  - left. reflexivity.
  - right. exists r. split; [apply W_self; exact Vr|right; exact Hx].
  - right. destruct (IH c Hc x Hx) as [->|[p [Hp Hxp]]].
    + exists r. split; [apply W_self; exact Vr|left; exact Hc].
    + exists p. split; [|exact Hxp]. apply (W_in r p Vr). right. right. exists c. split; assumption.
Qed.

Lemma T_parent i : T i -> i <> doc_root ->
  exists p, T p /\ parent_node doc i = Some p /\ (In i (xch p) \/ In i (attrs p)).
Proof.
  intros Ti Hne. destruct (W_parent doc_root (wf_root doc Hwf) i Ti) as [E|[p [Tp Hp]]]; [contradiction|].
  exists p. split; [exact Tp|]. split; [|exact Hp]. destruct Hp as [Hp|Hp].
  - apply (xch_kind p i (T_valid p Tp) Hp).
  - apply (sh_attr_parent doc Hshape p i (T_valid p Tp) Hp).
Qed.

Lemma root_no_parent : parent_node doc doc_root = None.
Proof.
  destruct (parent_node doc doc_root) as [p|] eqn:E; [|reflexivity].
  destruct (wf_parent doc Hwf doc_root p (wf_root doc Hwf) E) as [_ H]. unfold doc_root in H. lia.
Qed.

Lemma T_parent_T i p : T i -> parent_node doc i = Some p -> T p /\ (In i (xch p) \/ In i (attrs p)).
Proof.
  intros Ti Ep. destruct (N.eq_dec i doc_root) as [->|Hne]; [rewrite root_no_parent in Ep; discriminate|].
  destruct (T_parent i Ti Hne) as [q [Tq [Eq Hq]]]. rewrite Ep in Eq. inversion Eq; subst q. split; assumption.
Qed.

Lemma T_kind i : T i ->
  (i = doc_root /\ kind doc i = KDocument) \/
  (kind doc i = KAttribute /\ xch i = [] /\ attrs i = [] /\ exists p, T p /\ In i (attrs p)) \/
  (kind doc i <> KAttribute /\ kind doc i <> KDocument /\ sibling_nav_kind (kind doc i) = true /\ exists p, T p /\ In i (xch p)).
Proof.
  intros Ti. destruct (N.eq_dec i doc_root) as [->|Hne]; [left; split; [reflexivity|apply (sh_root_kind doc Hshape)]|].
  right. destruct (T_parent i Ti Hne) as [p [Tp [_ [Hp|Hp]]]].
  - right. destruct (xch_kind p i (T_valid p Tp) Hp) as [H1 [H2 [_ [H4 _]]]].
    split; [exact H1|]. split; [exact H2|]. split; [exact H4|]. exists p. split; assumption.
  - left. destruct (attr_leaf i p (T_valid p Tp) Hp) as [_ [E1 E2]].
    split; [apply (sh_attr_kind doc Hshape p i (T_valid p Tp) Hp)|]. split; [exact E1|]. split; [exact E2|].
    exists p. split; assumption.
Qed.

Lemma T_good i : T i -> good doc i.
Proof.
  intros Ti. split; [apply T_valid; exact Ti|].
  destruct (T_kind i Ti) as [[_ E]|[[E _]|[_ [_ [E _]]]]]; intros F; rewrite F in E; discriminate.
Qed.

Lemma T_doc_is_root i : T i -> kind doc i = KDocument -> i = doc_root.
Proof.
  intros Ti E. destruct (T_kind i Ti) as [[E1 _]|[[E1 _]|[_ [E1 _]]]]; [exact E1| |contradiction].
  rewrite E in E1. discriminate.
Qed.

(** ** descendants *)
Notation D := (desc doc).

Lemma desc_fuel_irrel f1 : forall f2 i, valid doc i ->
  (length doc - N.to_nat i < f1)%nat -> (length doc - N.to_nat i < f2)%nat -> desc_fuel doc f1 i = desc_fuel doc f2 i.
Proof.
  induction f1 as [|f1 IH]; intros f2 i Vi H1 H2; [lia|]. destruct f2 as [|f2]; [lia|]. cbn [desc_fuel].
  apply flat_map_ext_in'. intros c Hc. destruct (xch_valid i c Vi Hc) as [Vc Hic].
  unfold valid in Vc. f_equal. apply IH; [exact Vc|lia|lia].
Qed.

Lemma D_eq i : valid doc i -> D i = flat_map (fun c => c :: D c) (xch i).
Proof.
  intros Vi. unfold desc at 1. unfold fuel0. cbn [desc_fuel]. apply flat_map_ext_in'. intros c Hc.
  destruct (xch_valid i c Vi Hc) as [Vc Hic]. unfold desc, fuel0. unfold valid in Vc. f_equal. apply desc_fuel_irrel; [exact Vc|lia|lia].
Qed.

(** the descendants are the rows of the subtree that are not attributes, the node excepted *)
Lemma D_filter : forall i, valid doc i ->
  filter nonattr (W i) = (if nonattr i then [i] else []) ++ D i.
Proof.
  apply (tree_ind (fun i => filter nonattr (W i) = (if nonattr i then [i] else []) ++ D i)).
  intros i Vi IH. rewrite (W_eq i Vi), (D_eq i Vi). rewrite filter_cons_app, filter_app, filter_flat_map.
  rewrite (filter_none (A:=node) nonattr (attrs i)).
  2:{ intros a Ha. unfold nonattr. rewrite (sh_attr_kind doc Hshape i a Vi Ha). reflexivity. }
  cbn [app].
  f_equal. apply flat_map_ext_in'. intros c Hc. cbv beta. etransitivity; [exact (IH c Hc)|].
  assert (Hn : nonattr c = true) by (apply nonattr_true; apply (xch_kind i c Vi Hc)). rewrite Hn. reflexivity.
Qed.

Lemma D_in_W i x : valid doc i -> In x (D i) -> In x (W i) /\ kind doc x <> KAttribute.
Proof.
  intros Vi Hx. assert (H : In x (filter nonattr (W i))) by (rewrite (D_filter i Vi); apply in_or_app; right; exact Hx).
  apply filter_In in H. destruct H as [H1 H2]. split; [exact H1|apply nonattr_true; exact H2].
Qed.

Lemma W_nonattr i x : valid doc i -> In x (W i) -> kind doc x <> KAttribute -> x = i \/ In x (D i).
Proof.
  intros Vi Hx Hk. assert (H : In x (filter nonattr (W i))) by (apply filter_In; split; [exact Hx|apply nonattr_true; exact Hk]).
  rewrite (D_filter i Vi) in H. apply in_app_or in H. destruct H as [H|H]; [|right; exact H].
  left. destruct (nonattr i); [destruct H as [H|[]]; symmetry; exact H|destruct H].
Qed.

Lemma D_inc i : T i -> inc (D i).
Proof.
  intros Ti. pose proof (inc_filter nonattr (W i) (T_inc i Ti)) as H.
  rewrite (D_filter i (T_valid i Ti)) in H. apply inc_app in H. apply H.
Qed.

Lemma D_gt i x : T i -> In x (D i) -> i < x.
Proof.
  intros Ti Hx. destruct (D_in_W i x (T_valid i Ti) Hx) as [Hw _].
  pose proof (T_inc i Ti) as H. rewrite (W_eq i (T_valid i Ti)) in H.
  assert (Hne : x <> i).
  { intros ->. pose proof (inc_filter nonattr (W i) (T_inc i Ti)) as H2. rewrite (D_filter i (T_valid i Ti)) in H2.
    destruct (nonattr i) eqn:En.
    - cbn [app] in H2. pose proof (inc_cons_lt _ _ H2 i Hx). lia.
    - destruct (D_in_W i i (T_valid i Ti) Hx) as [_ Hk]. apply nonattr_true in Hk. rewrite Hk in En. discriminate. }
  apply W_lt; assumption.
Qed.

Lemma D_T i x : T i -> In x (D i) -> T x.
Proof. intros Ti Hx. apply (T_sub i x Ti). apply (D_in_W i x (T_valid i Ti) Hx). Qed.

Lemma D_self_inc i : T i -> inc (i :: D i).
Proof.
  intros Ti. constructor; [apply D_inc; exact Ti|]. apply Forall_forall. intros x Hx. apply D_gt; assumption.
Qed.

(** descendant-or-self lists of a list of children: the non-attribute rows of their subtrees *)
Lemma das_filter p l : valid doc p -> (forall c, In c l -> In c (xch p)) ->
  flat_map (fun c => c :: D c) l = filter nonattr (flat_map W l).
Proof.
  intros Vp Hl. rewrite filter_flat_map. apply flat_map_ext_in'. intros c Hc.
  destruct (xch_valid p c Vp (Hl c Hc)) as [Vc _]. rewrite (D_filter c Vc).
  assert (Hn : nonattr c = true) by (apply nonattr_true; apply (xch_kind p c Vp (Hl c Hc))). rewrite Hn. reflexivity.
Qed.

End Tree.
