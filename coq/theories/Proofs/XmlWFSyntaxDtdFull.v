(** * C02, rungs 2 and 3 for documents whose declared internal general entities are SIMPLE
    (Proofs/XmlWFSyntaxEntRec.v: Chars other than `&` `<`, and references to other general entities;
    no `]]>`): the conditional theorem including WFC No Recursion through nested references.

    The element / attribute / subset lemmas are those of Proofs/XmlWFSyntaxDtdCheck.v, stated once
    more over the two facts about a resolved reference ([Hattr], [Hcont]) instead of over plain entities. *)
From Coq Require Import List NArith Arith Lia Bool.
From XmlRs Require Import Base.CPred Spec.XmlChars Model.Peg Gen.XmlcharGen Gen.GrammarXmlGen Model.ParseActions Model.Info Model.Display
     Proofs.XmlcharProofs Proofs.PegTermination Proofs.PegLemmas Proofs.PegInv Proofs.Expansion Proofs.PipelineTotal
     Proofs.DisplayLex Proofs.ActionLemmas Proofs.DisplayElem Proofs.DisplayDoc Proofs.DisplayDtd
     Proofs.ParseInv Proofs.ParseInvElem Proofs.ParseInvBuild Proofs.ParseInvDtd Proofs.ParseInvDoc
     Proofs.XmlWFSyntaxLex Proofs.XmlWFSyntaxElem Proofs.XmlWFSyntaxDoc Proofs.XmlWFSyntaxCheck
     Proofs.XmlWFSyntaxDtd Proofs.XmlWFSyntaxDtdElem Proofs.XmlWFSyntaxDtdDoc Proofs.XmlWFSyntaxDtdCheck Proofs.XmlWFSyntaxEntRec.
From XmlRs Require Spec.XmlWF.
Import ListNotations.
Local Open Scope N_scope.

Section Elems.
Variable ents : list Info.entity.
Variable ext : bool.
Variable en : W.env.
Variable f : nat.
Notation F := (Datatypes.S (Datatypes.S f)).
Hypothesis Hattr : forall nm e, resolve_ref ents ext true nm = IOk e -> W.av_ok F en [] [W.AvEnt nm] = None.
Hypothesis Hcont : forall nm e, resolve_ref ents ext false nm = IOk e ->
  exists x', W.expand F en [] (W.XEntRef nm) = inr x' /\ forall f', W.tree_ok f' en x' = None.

Lemma s_av_ok_lits (s : str) : W.av_ok F en [] (map W.AvLit s) = None.
Proof. cbn [W.av_ok]. apply allc_map_ok. reflexivity. Qed.
Lemma s_av_ok_app (a b : list W.avpiece) : W.av_ok F en [] a = None -> W.av_ok F en [] b = None -> W.av_ok F en [] (a ++ b) = None.
Proof. cbn [W.av_ok]. apply allc_app. Qed.
Lemma s_av_ok_char n : W.isChar n = true -> W.av_ok F en [] [W.AvChar n] = None.
Proof. intros H. cbn [W.av_ok W.allc fold_right]. rewrite H. reflexivity. Qed.

Lemma s_build_avalues_ok (l : list att_value) : forall vs, (exists q, av_ok q false l) \/ (exists q, av_ok q true l) ->
  build_avalues ents ext l = IOk vs -> W.av_ok F en [] (x_av l) = None.
Proof.
  induction l as [|v l IH]; intros vs Hok H; [reflexivity|]. cbn [build_avalues] in H.
  apply ibind_ok in H. destruct H as [o [Ho H]]. apply ibind_ok in H. destruct H as [r [Hr _]].
  change (x_av (v :: l)) with (x_avpiece v ++ x_av l). apply s_av_ok_app.
  - destruct v as [[num rd|n]|s]; cbn [build_avalue x_avpiece x_ref W.piece_of_ref] in *.
    + apply ibind_ok in Ho. destruct Ho as [c [Hc _]].
      assert (reference_ok (RefChar num rd)) as Hrf by (destruct Hok as [[q Hq]|[q Hq]]; cbn [av_ok] in Hq; tauto).
      destruct (char_from_spec _ _ _ Hrf Hc) as [E Hch]. destruct rd; cbn [radix_n] in E; rewrite E; apply s_av_ok_char; exact Hch.
    + apply ibind_ok in Ho. destruct Ho as [e [He _]]. eapply Hattr. exact He.
    + apply s_av_ok_lits.
  - apply (IH r); [|exact Hr]. destruct Hok as [[q Hq]|[q Hq]]; destruct v as [x|s]; cbn [av_ok] in Hq.
    + left. exists q. tauto.
    + right. exists q. tauto.
    + left. exists q. tauto.
    + right. exists q. tauto.
Qed.

Lemma s_attrs_values_ok (l : list attribute) : forall before r, build_attrs_from ents ext before l = IOk r ->
  Forall p_attribute_ok' l -> W.allc (fun a : str * list W.avpiece => W.av_ok F en [] (snd a)) (map x_att l) = None.
Proof.
  induction l as [|a l IH]; intros before r H Hl; [reflexivity|]. cbn [build_attrs_from] in H.
  destruct (existsb (fun v => att_name_eqb (at_name v) (at_name a)) before); [discriminate|].
  apply ibind_ok in H. destruct H as [x [Hx H]]. apply ibind_ok in H. destruct H as [r' [H _]].
  inversion Hl as [|? ? Ha Hl']. subst. cbn [map]. apply allc_cons; [|eapply IH; eassumption].
  cbn [x_att snd]. unfold build_attr in Hx. destruct (attribute_name (at_name a)) as [lo pr].
  apply ibind_ok in Hx. destruct Hx as [vs [Hvs _]]. destruct Ha as [[_ [q [_ Hq]]] _].
  eapply s_build_avalues_ok; [left; exists q; exact Hq|exact Hvs].
Qed.

Lemma s_expand_elem nm atts et kids : W.expand F en [] (W.XElem nm atts et kids) =
  match W.mapM (W.expand F en []) kids with inl r => inl r | inr kids' => inr (W.XElem nm atts et kids') end.
Proof. reflexivity. Qed.

Lemma s_text_check (o : option str) :
  W.mapM (W.expand F en []) (x_text o) = inr (x_text o) /\ W.allc (W.tree_ok F en) (x_text o) = None.
Proof.
  destruct o as [t|]; [|split; reflexivity]. cbn [x_text]. split.
  - apply mapM_id. intros x Hx. apply in_map_iff in Hx. destruct Hx as [c [<- _]]. reflexivity.
  - apply allc_map_ok. reflexivity.
Qed.

Definition s_elem_checked (e : element) : Prop :=
  p_element_ok e -> forall el, build_element ents ext e = IOk el ->
  exists x', W.expand F en [] (x_elem e) = inr x' /\ W.tree_ok F en x' = None.

Lemma s_cells_check (cells : list cell) : cells_all s_elem_checked cells -> cells_ok p_element_ok cells ->
  forall ch, build_cells (build_element ents ext) ents ext cells = IOk ch ->
  exists kids', W.mapM (W.expand F en []) (x_cells x_elem cells) = inr kids' /\ W.allc (W.tree_ok F en) kids' = None.
Proof.
  induction 1 as [|[c tl] l Hc _ IH]; intros Hok ch Hb.
  - exists []. split; reflexivity.
  - cbn [cells_ok] in Hok. destruct Hok as [Hc_ok [_ Hl_ok]]. cbn [build_cells] in Hb.
    apply ibind_ok in Hb. destruct Hb as [it [Hit Hb]]. apply ibind_ok in Hb. destruct Hb as [r [Hr _]].
    destruct (IH Hl_ok r Hr) as [kl [Ekl Okl]]. destruct (s_text_check tl) as [Et Ot].
    assert (exists x', W.expand F en [] (x_contents x_elem c) = inr x' /\ W.tree_ok F en x' = None) as [x' [Ex Ox]].
    { cbn [fst] in Hc. destruct c as [e'|[num rd|n]|s|p|s]; cbn [build_child x_contents contents_ok] in *.
      - exact (Hc Hc_ok it Hit).
      - apply ibind_ok in Hit. destruct Hit as [c0 [Hc0 _]]. destruct (char_from_spec _ _ _ Hc_ok Hc0) as [E Hch].
        unfold x_refitem. destruct rd; cbn [x_ref radix_n] in *; rewrite E; eexists; (split; [reflexivity|]); cbn [W.tree_ok]; rewrite Hch; reflexivity.
      - apply ibind_ok in Hit. destruct Hit as [e0 [He0 _]].
        destruct (Hcont n e0 He0) as [x0 [E1 E2]]. unfold x_refitem. cbn [x_ref]. eauto.
      - eexists. split; reflexivity.
      - eexists. split; reflexivity.
      - eexists. split; reflexivity. }
    cbn [x_cells]. exists (x' :: x_text tl ++ kl). split.
    + cbn [W.mapM]. rewrite Ex. rewrite (mapM_app _ _ _ _ _ Et Ekl). reflexivity.
    + apply allc_cons; [exact Ox|]. apply allc_app; assumption.
Qed.

Theorem s_element_checked : forall e, s_elem_checked e.
Proof.
  apply element_ind2.
  - intros n a [Hq [Ha _]] el Hb. cbn [build_element] in Hb. apply ibind_ok in Hb. destruct Hb as [attrs' [Hat _]].
    cbn [x_elem]. rewrite s_expand_elem. cbn [W.mapM]. eexists. split; [reflexivity|].
    cbn [W.tree_ok]. unfold build_attrs in Hat.
    destruct (build_attrs_nodup ents ext a [] attrs' Hat) as [Hnd _]; [constructor| |].
    { revert Ha. apply Forall_impl. intros x [[H1 _] H2]. split; assumption. }
    rewrite map_map. change (map (fun x => fst (x_att x)) a) with (map att_nm a). rewrite Hnd.
    rewrite (s_attrs_values_ok a [] attrs' Hat Ha). reflexivity.
  - intros n a h cells Hcells [Hq [Ha [Hh Hcs]]] el Hb. cbn [build_element] in Hb.
    apply ibind_ok in Hb. destruct Hb as [attrs' [Hat Hb]]. apply ibind_ok in Hb. destruct Hb as [ch [Hch _]].
    destruct (s_cells_check cells Hcells Hcs ch Hch) as [kl [Ekl Okl]]. destruct (s_text_check h) as [Et Ot].
    cbn [x_elem]. rewrite s_expand_elem. rewrite (mapM_app _ _ _ _ _ Et Ekl). eexists. split; [reflexivity|].
    cbn [W.tree_ok]. rewrite Wstr_eqb_refl. unfold build_attrs in Hat.
    destruct (build_attrs_nodup ents ext a [] attrs' Hat) as [Hnd _]; [constructor| |].
    { revert Ha. apply Forall_impl. intros x [[H1 _] H2]. split; assumption. }
    rewrite map_map. change (map (fun x => fst (x_att x)) a) with (map att_nm a). rewrite Hnd.
    rewrite (s_attrs_values_ok a [] attrs' Hat Ha). cbn [W.guard W.andc]. apply allc_app; assumption.
Qed.
End Elems.

(** ** the internal subset, in order *)
Lemma s_defaults_ok ext f acc sp (defs : list att_def) : forall r,
  sp_rel sp acc -> forallb simple_ent acc = true -> (forall e0, In e0 acc -> en_values e0 = None -> en_system e0 <> None) ->
  (length acc <= f)%nat -> Forall p_att_def_ok defs -> build_attdefs acc ext defs = IOk r ->
  W.allc (fun '(_, _, df) => match df with
            | W.ADValue _ v => W.av_ok (Datatypes.S (Datatypes.S f)) {| W.e_ents := W.with_predefined sp; W.e_must_declare := negb ext |} [] v
            | _ => W.ok end) (map x_attdef defs) = None.
Proof.
  induction defs as [|d defs IH]; intros r Hsp Hpl Hsys Hlen Hok Hb; [reflexivity|]. cbn [build_attdefs] in Hb.
  apply ibind_ok in Hb. destruct Hb as [x [Hx Hb]]. apply ibind_ok in Hb. destruct Hb as [r' [Hr' _]].
  inversion Hok as [|? ? Hd Hok']. subst. cbn [map]. apply allc_cons; [|eapply IH; eassumption].
  unfold x_attdef. unfold build_attdef in Hx. destruct (match ad_name d with DanAttr q => qname_parts q | DanNamespace a => attribute_name a end) as [lo pr].
  apply ibind_ok in Hx. destruct Hx as [dv [Hdv _]]. destruct Hd as [_ [_ Hdf]].
  destruct (ad_value d) as [| |fx vs]; cbn [x_attdefault]; try reflexivity.
  apply ibind_ok in Hdv. destruct Hdv as [vs' [Hvs _]]. cbn [p_att_default_ok] in Hdf. destruct Hdf as [_ [q [_ Hq]]].
  eapply (s_build_avalues_ok acc ext _ f); [|left; exists q; exact Hq|exact Hvs].
  intros nm e He. eapply (ref_attr_ok_s acc ext _ (env_rel_att sp acc ext Hsp) Hpl Hsys f nm e Hlen He).
Qed.

Lemma s_subset_checked ext f (l : list int_subset) : forall acc sp r,
  build_subset false ext acc l = IOk r -> ok_subset l = true -> Forall is_ok l ->
  forallb simple_ent (acc ++ gents l) = true -> (forall e0, In e0 acc -> en_values e0 = None -> en_system e0 <> None) ->
  (length (acc ++ gents l) <= f)%nat ->
  sp_rel sp acc -> W.subset_ok (Datatypes.S (Datatypes.S f)) (negb ext) sp (x_subset l) = None.
Proof.
  induction l as [|x l IH]; intros acc sp r Hb Hok Hinv Hpl Hsys Hlen Hsp; [reflexivity|].
  cbn [ok_subset forallb] in Hok. apply andb_prop in Hok. destruct Hok as [Hokx Hokl]. inversion Hinv as [|? ? Hx Hinv']. subst.
  change (x_subset (x :: l)) with (x_subset_item x ++ x_subset l). cbn [build_subset] in Hb.
  destruct x as [[d|d|[n d|n d]|d|p|s]|n|s]; cbn [ok_subset_item ok_markup] in Hokx; try discriminate Hokx; try discriminate Hb;
    cbn [x_subset_item x_markup app gents flat_map] in *.
  - cbn [W.subset_ok]. eapply IH; eassumption.
  - apply ibind_ok in Hb. destruct Hb as [a [Ha Hb]]. apply ibind_ok in Hb. destruct Hb as [r' [Hr' _]].
    unfold x_attlist. cbn [W.subset_ok]. unfold build_attlist in Ha. apply ibind_ok in Ha. destruct Ha as [atts [Hatts _]].
    cbn [is_ok markup_ok] in Hx. destruct Hx as [_ Hdefs].
    rewrite (s_defaults_ok ext f acc sp (da_defs d) atts Hsp); try assumption.
    + cbn [W.andc]. eapply IH; eassumption.
    + rewrite forallb_app in Hpl. apply andb_prop in Hpl. tauto.
    + rewrite app_length in Hlen. lia.
  - apply ibind_ok in Hb. destruct Hb as [[] [Hc Hb]]. apply ibind_ok in Hb. destruct Hb as [r' [Hr' _]].
    cbn [W.subset_ok]. apply andb_prop in Hokx. destruct Hokx as [Hn Hd].
    assert (match x_entdef d with W.EdValue v => W.allc (fun p => match p with W.AvChar n0 => W.guard (W.isChar n0) W.RBadCharRef | _ => W.ok end) v | _ => W.ok end = None) as ->.
    { cbn [is_ok markup_ok] in Hx. destruct Hx as [_ [_ Hdef]]. destruct d as [lv|xid nd]; cbn [x_entdef]; [|reflexivity].
      cbn [p_entity_def_ok] in Hdef. destruct Hdef as [q [_ Hq]]. eapply ev_charrefs_ok; [exact Hq|exact Hc]. }
    cbn [W.andc].
    rewrite (entity_of_def_build n d) by (destruct d as [lv|? ?]; [|exact I]; cbn [d04_entdef] in Hd; apply andb_prop in Hd; tauto).
    assert (en_name (build_entity n d) = n) as En by (destruct d; reflexivity).
    pose proof (sp_rel_step sp acc (build_entity n d) Hsp) as Hstep. rewrite En in Hstep.
    eapply (IH (acc ++ [build_entity n d])); try eassumption.
    + rewrite <- app_assoc. exact Hpl.
    + intros e0 Hin. apply in_app_or in Hin. destruct Hin as [Hin|[<-|[]]]; [apply Hsys; exact Hin|].
      apply (gents_sys [IsMarkup (MkEntity (DeGeneral n d))]). left. reflexivity.
    + rewrite <- app_assoc. exact Hlen.
  - apply ibind_ok in Hb. destruct Hb as [r' [Hr' _]]. unfold x_notation. destruct (dn_id d); cbn [W.subset_ok]; eapply IH; eassumption.
  - apply ibind_ok in Hb. destruct Hb as [r' [Hr' _]]. cbn [W.subset_ok]. eapply IH; eassumption.
  - cbn [W.subset_ok]. eapply IH; eassumption.
  - eapply IH; eassumption.
Qed.

(** ** the document *)
Definition simple_doc (pd : pdoc) : bool := forallb simple_ent (gents (doc_subset pd)).

Lemma ent_fuel_bound (xd : W.xdoc) : exists f0, W.ent_fuel xd = Datatypes.S (Datatypes.S f0) /\
  (length (W.entities_of (match W.x_doctype xd with Some dt => W.dt_subset dt | None => [] end)) <= f0)%nat.
Proof.
  unfold W.ent_fuel, W.doc_env. cbn [W.e_ents]. unfold W.with_predefined. rewrite app_length. cbn [map length W.predefined].
  rewrite Nat.add_comm. cbn [Nat.add]. eexists. split; [reflexivity|]. lia.
Qed.

Theorem check_doc_simple (pd : pdoc) (d : document) :
  p_doc_ok pd -> ok_doc pd = true -> simple_doc pd = true -> build_document pd = IOk d ->
  exists root, W.check_doc (x_doc pd) = inr root.
Proof.
  intros [Hpro [Hel _]] Hok Hplain Hb. unfold build_document, build_document_gen in Hb.
  set (sa := match pr_declaration_xml (d_prolog pd) with Some x => dx_standalone x | None => None end) in *.
  destruct (ent_fuel_bound (x_doc pd)) as [f0 [Ef Hf0]].
  unfold W.check_doc. rewrite Ef.
  destruct (pr_declaration_doc (d_prolog pd)) as [dd|] eqn:Hdd.
  - apply ibind_ok in Hb. destruct Hb as [dt [Hdt Hb]]. apply ibind_ok in Hdt. destruct Hdt as [x [Hx Hdt]]. injection Hdt as <-.
    apply ibind_ok in Hb. destruct Hb as [el [Hbe _]].
    unfold build_doctype in Hx. apply ibind_ok in Hx. destruct Hx as [ch [Hch Hx]]. injection Hx as <-.
    cbn [dt_system] in Hbe. unfold dt_entities in Hbe. cbn [dt_children] in Hbe. rewrite (build_subset_entities _ _ _ _ Hch) in Hbe.
    set (ext0 := external_subset sa (match dd_external_id dd with Some x => Some (fst (external_id_parts x)) | None => None end)) in *.
    unfold ok_doc in Hok. rewrite Hdd in Hok.
    apply andb_prop in Hok. destruct Hok as [Hok _]. apply andb_prop in Hok. destruct Hok as [Hok _].
    apply andb_prop in Hok. destruct Hok as [Hok _]. apply andb_prop in Hok. destruct Hok as [_ Hoks].
    unfold simple_doc, doc_subset in Hplain. rewrite Hdd in Hplain.
    destruct Hpro as [_ [_ [Hdoc _]]]. rewrite Hdd in Hdoc. destruct Hdoc as [_ [_ Hinv]].
    assert (W.e_must_declare (W.doc_env (x_doc pd)) = negb ext0) as Hmust.
    { unfold W.doc_env, x_doc. cbn [W.x_doctype W.x_decl W.e_must_declare]. rewrite Hdd. cbn [option_map x_doctype W.dt_extid].
      subst ext0 sa. unfold external_subset. destruct (pr_declaration_xml (d_prolog pd)) as [xd|]; cbn [option_map x_xmldecl W.xd_standalone];
        [destruct (dx_standalone xd) as [[|]|]|]; destruct (dd_external_id dd); reflexivity. }
    assert (W.e_ents (W.doc_env (x_doc pd)) = W.with_predefined (tbl (gents (dd_internal_subset dd)))) as Hents.
    { unfold W.doc_env, x_doc. cbn [W.x_doctype W.e_ents]. rewrite Hdd. cbn [option_map x_doctype W.dt_subset]. rewrite (entities_of_subset _ Hoks). reflexivity. }
    assert (env_rel (W.doc_env (x_doc pd)) (gents (dd_internal_subset dd)) ext0) as Hrel.
    { split; [|exact Hmust]. intros nm. rewrite Hents. apply assoc_with_predefined. }
    assert (match W.x_doctype (x_doc pd) with Some dt0 => W.dt_subset dt0 | None => [] end = x_subset (dd_internal_subset dd)) as Hsub.
    { unfold x_doc. cbn [W.x_doctype]. rewrite Hdd. reflexivity. }
    rewrite Hsub in *. rewrite Hmust. rewrite (entities_of_subset _ Hoks) in Hf0. unfold tbl in Hf0. rewrite map_length in Hf0.
    rewrite (s_subset_checked ext0 f0 (dd_internal_subset dd) [] [] ch Hch Hoks Hinv Hplain); [|intros e0 []|exact Hf0|intros k; reflexivity].
    destruct (s_element_checked (gents (dd_internal_subset dd)) ext0 (W.doc_env (x_doc pd)) f0) with (e := d_element pd) (el := el) as [x' [Ex Ox]].
    + intros nm e He. exact (ref_attr_ok_s _ ext0 _ Hrel Hplain (gents_sys _) f0 nm e Hf0 He).
    + intros nm e He. exact (ref_content_ok_s _ ext0 _ Hrel Hplain f0 nm e Hf0 He).
    + exact Hel.
    + exact Hbe.
    + exists x'. change (W.x_root (x_doc pd)) with (x_elem (d_element pd)). rewrite Ex, Ox. reflexivity.
  - cbn [ibind] in Hb. apply ibind_ok in Hb. destruct Hb as [el [Hbe _]].
    unfold external_subset in Hbe. cbn [is_some] in Hbe. rewrite andb_false_r in Hbe.
    assert (env_rel (W.doc_env (x_doc pd)) [] false) as Hrel.
    { split; [intros nm; unfold W.doc_env, x_doc; cbn [W.x_doctype W.e_ents]; rewrite Hdd; reflexivity|].
      unfold W.doc_env, x_doc. cbn [W.x_doctype W.e_must_declare]. rewrite Hdd. reflexivity. }
    assert (match W.x_doctype (x_doc pd) with Some dt0 => W.dt_subset dt0 | None => [] end = []) as Hsub.
    { unfold x_doc. cbn [W.x_doctype]. rewrite Hdd. reflexivity. }
    rewrite Hsub. cbn [W.subset_ok].
    destruct (s_element_checked [] false (W.doc_env (x_doc pd)) f0) with (e := d_element pd) (el := el) as [x' [Ex Ox]].
    + intros nm e He. exact (ref_attr_ok_s [] false _ Hrel eq_refl (fun e0 (H : In e0 []) => match H with end) f0 nm e (Nat.le_0_l _) He).
    + intros nm e He. exact (ref_content_ok_s [] false _ Hrel eq_refl f0 nm e (Nat.le_0_l _) He).
    + exact Hel.
    + exact Hbe.
    + exists x'. change (W.x_root (x_doc pd)) with (x_elem (d_element pd)). rewrite Ex, Ox. reflexivity.
Qed.

(** ** at the entry point [from_raw] *)
Definition simple_entities (s : str) : bool :=
  match ParseActions.parse_document s with POk (pd, _) => simple_doc pd | _ => false end.

Lemma unsupported_false (pd : pdoc) : ok_doc pd = true -> W.unsupported (x_doc pd) = false.
Proof.
  intros Hok. unfold W.unsupported, x_doc. cbn [W.x_doctype]. destruct (pr_declaration_doc (d_prolog pd)) as [dd|] eqn:Hdd; [|reflexivity].
  cbn [option_map x_doctype W.dt_subset]. unfold ok_doc in Hok. rewrite Hdd in Hok.
  apply andb_prop in Hok. destruct Hok as [Hok _]. apply andb_prop in Hok. destruct Hok as [Hok _].
  apply andb_prop in Hok. destruct Hok as [Hok _]. apply andb_prop in Hok. destruct Hok as [_ Hoks].
  clear - Hoks. induction (dd_internal_subset dd) as [|x l IH]; [reflexivity|]. cbn [ok_subset forallb] in Hoks. apply andb_prop in Hoks. destruct Hoks as [Hx Hl].
  change (x_subset (x :: l)) with (x_subset_item x ++ x_subset l). unfold W.has_peref. rewrite existsb_app. fold (W.has_peref (x_subset l)). rewrite (IH Hl), orb_false_r.
  destruct x as [[d0|d0|[n d0|n d0]|d0|p|s0]|n|s0]; try reflexivity; try discriminate Hx. cbn [x_subset_item x_markup]. unfold x_notation. destruct (dn_id d0); reflexivity.
Qed.

Theorem accepted_wf10_simple (s : str) (d : document) :
  from_raw s = OOk ([], d) -> KnownD04_doc s = false -> simple_entities s = true -> W.wf_xml10 s = true.
Proof.
  intros H Hk Hpl. destruct (accepted_syntax s d H Hk) as [pd [Hp [Hb Hsyn]]].
  unfold KnownD04_doc in Hk. unfold simple_entities in Hpl. rewrite Hp in Hk, Hpl. apply negb_false_iff in Hk.
  pose proof (build_document_ok pd d Hb Hk) as Hok.
  destruct (check_doc_simple pd d (parse_document_inv _ _ _ Hp) Hok Hpl Hb) as [root Hc].
  unfold W.wf_xml10, W.verdict10. rewrite Hsyn, (unsupported_false pd Hok), Hc. reflexivity.
Qed.

Theorem accepted_wf_simple (s : str) (d : document) :
  from_raw s = OOk ([], d) -> KnownD04_doc s = false -> simple_entities s = true -> KnownNS s = false -> W.wf s = true.
Proof.
  intros H Hk Hpl Hns. pose proof (accepted_wf10_simple s d H Hk Hpl) as H10. unfold KnownNS in Hns. rewrite H10 in Hns.
  cbn [andb] in Hns. apply negb_false_iff in Hns. exact Hns.
Qed.

(** non-vacuity: nested references, used in content, in an attribute value and in a default value:
    <!DOCTYPE r [<!ENTITY b "z&#65;"><!ENTITY a "x&b;y&lt;"><!ATTLIST r k CDATA "&a;">]><r k="&a;">&a;&b;</r> *)
Definition ex_nested : str :=
  [60;33;68;79;67;84;89;80;69;32;114;32;91;60;33;69;78;84;73;84;89;32;98;32;34;122;38;35;54;53;59;34;62;60;33;69;78;84;73;84;89;32;97;32;34;120;38;98;59;121;38;108;116;59;34;62;60;33;65;84;84;76;73;83;84;32;114;32;107;32;67;68;65;84;65;32;34;38;97;59;34;62;93;62;60;114;32;107;61;34;38;97;59;34;62;38;97;59;38;98;59;60;47;114;62].

Example accepted_wf_simple_nonvacuous :
  (exists d, from_raw ex_nested = OOk ([], d)) /\ KnownD04_doc ex_nested = false /\ simple_entities ex_nested = true
  /\ plain_entities ex_nested = false /\ KnownNS ex_nested = false.
Proof. split; [eexists; vm_compute; reflexivity|]. repeat split; vm_compute; reflexivity. Qed.
