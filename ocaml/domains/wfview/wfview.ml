(* wfview: `<mode> <document>` (mode v | d, document = code points) -> the line of
   harness/src/domains/wfdoc.rs computed by the extracted model:
     Model.Info.from_raw            = xml_dom::XmlDocument::from_raw
     Model.DomView.dom_dump false/true = the dump through the DOM accessors, raw / merged-text view
     Model.DomView.show_dump        = the printer of the dump format (extracted as well)
   `accept` | `accept R <raw dump> M <merged dump>` | `rest:<n>` | `err:parse` | `err:info`.
   Formatting only: every decision is taken by extracted Coq functions. *)
let () = register "wfview" (fun words ->
  match words with
  | [mode; doc] when mode = "v" || mode = "d" ->
    let s = dec doc in
    (match from_raw s with
     | OOk (rest, d) ->
       if rest <> [] then Printf.sprintf "rest:%d" (List.length rest)
       else if mode = "v" then "accept"
       else Printf.sprintf "accept R %s M %s" (ascii (show_dump (dom_dump false d))) (ascii (show_dump (dom_dump true d)))
     | OParseErr -> "err:parse"
     | OInfoErr _ ->
       (* wfdoc.rs names the error by running the two stages again: a non-empty rest is reported first *)
       (match parse_document s with
        | POk (_, rest) when rest <> [] -> Printf.sprintf "rest:%d" (List.length rest)
        | _ -> "err:info")
     | OPanic _ -> "panic"
     | OModel -> "model")
  | _ -> "badinput")
