(** C12 -- The DOM stays a tree: navigation views agree after any edit history.

    "After any sequence of DOM operations on a document, whether they succeeded or failed, the
    navigational views agree: every node listed in a parent's child_nodes reports that parent as
    parent_node; first_child, last_child, previous_sibling and next_sibling match the child list;
    no node occurs twice or beneath itself; a removed node has no parent; and the document has at
    most one document element and one document type."

    Model: Model/Store.v + Model/DomOps.v (the repaired code of branch agent-dom), tied to the
    crates by the [dom] correspondence domain.  [step] covers every DOM Level 1 mutator on every
    receiver kind with arbitrary arguments (self, ancestors, detached nodes, nodes of another
    document, ids that do not exist) and arbitrary string facts; [run w ops] folds it over a
    history, failed and panicking calls included.  This file only names the theorems. *)
From Coq Require Import List NArith Bool.
From XmlRs Require Import Base.CPred Model.Store Model.StoreCheck Model.DomOps
  Proofs.DomTree Proofs.DomOpsInv Proofs.DomNav Proofs.DomCheck Proofs.DomExample Proofs.DomC12.
Import ListNotations.
Open Scope N_scope.

Theorem C12_nav_agree : forall s, TreeInv s -> NavAgree s.
Proof. exact nav_agree. Qed.

Theorem C12_tree_inv_step : forall w o, WInv w -> WInv (fst (step w o)).
Proof. exact tree_inv_step. Qed.

Theorem C12_tree_inv_reachable : forall init ops, WInv init -> WInv (run init ops).
Proof. exact tree_inv_reachable. Qed.

Theorem C12_navigation_agrees_reachable :
  forall init ops k s, WInv init -> doc_at (run init ops) k = Some s -> NavAgree s.
Proof. exact navigation_agrees_reachable. Qed.

Theorem C12_tree_inv_checkable : forall l nx root decl, tree_inv_b l nx root = true -> TreeInv (store_of_list l nx decl root).
Proof. exact tree_inv_checkable. Qed.

Print Assumptions C12_nav_agree.
Print Assumptions C12_tree_inv_step.
Print Assumptions C12_tree_inv_reachable.
Print Assumptions C12_navigation_agrees_reachable.
Print Assumptions C12_tree_inv_checkable.
