(** * C08 -- equivalent XPath spellings evaluate identically; precedence per grammar.  (under construction) *)
From Coq Require Import List NArith.
From XmlRs Require Import Base.CPred Model.Peg Gen.GrammarXPathGen Proofs.XPathParseProds.
