(** * C03: entity expansion ([attr_value_from_name] = XmlUnexpandedEntityReference::value) terminates.

    - [expand_total]: the repaired code (ed2c470: a name already on the expansion path is an
      error) needs at most [length tbl + 7] nested calls, for EVERY entity table -- cyclic or not;
    - [expand_pinned_terminates]: the code before the repair terminates on every table that has a
      rank function ([wf_table]: no entity refers to itself directly or indirectly);
    - [expand_pinned_diverges]: without that hypothesis it does not: on the table
      [e -> "&e;"] it exhausts every amount of fuel (the Rust recursion overflows the stack, D09). *)
From Coq Require Import List NArith Bool Lia.
From XmlRs Require Import Base.CPred Model.Peg Model.ParseActions Model.Info.
Import ListNotations.

Definition noof {A} (x : ires A) : Prop := x <> IOof.

Lemma noof_bind {A B} (x : ires A) (f : A -> ires B) :
  noof x -> (forall a, x = IOk a -> noof (f a)) -> noof (ibind x f).
Proof.
  unfold noof. intros Hx Hf. destruct x as [a|e|s|]; cbn [ibind]; try discriminate.
  - apply Hf. reflexivity.
  - contradiction.
Qed.

Lemma str_eqb_eq a : forall b, str_eqb a b = true <-> a = b.
Proof.
  induction a as [|x a IH]; intros [|y b]; cbn [str_eqb]; split; intros H; try discriminate; try reflexivity.
  - apply andb_prop in H. destruct H as [H1 H2]. apply N.eqb_eq in H1. apply IH in H2. congruence.
  - injection H as -> ->. rewrite N.eqb_refl. cbn. apply IH. reflexivity.
Qed.

Lemma str_eqb_refl a : str_eqb a a = true.
Proof. apply str_eqb_eq. reflexivity. Qed.

Lemma char_from_noof num r : noof (char_from num r).
Proof.
  unfold char_from, noof. destruct (parse_u32 r num); [|discriminate].
  destruct (is_scalar n && eval XmlcharGen.is_char n); discriminate.
Qed.

Lemma lookup_entity2_noof ents n : noof (lookup_entity2 ents n).
Proof.
  unfold lookup_entity2, noof. destruct (find _ ents); [discriminate|].
  destruct (predefined n); discriminate.
Qed.

Lemma lookup_entity_noof ents n : noof (lookup_entity ents n).
Proof. unfold lookup_entity. apply noof_bind; [apply lookup_entity2_noof|intros; discriminate]. Qed.

Definition values_of (e : entity) : list ent_value := match en_values e with Some l => l | None => [] end.

Lemma expand_values_noof rec pp ia vs :
  (forall n, In (XvEntity n) vs -> noof (rec n)) -> noof (expand_values rec pp ia vs).
Proof.
  induction vs as [|v vs IH]; intros H; cbn [expand_values]; [discriminate|].
  apply noof_bind.
  - destruct v; cbn [expand_value].
    + apply noof_bind; [apply char_from_noof|intros; discriminate].
    + apply H. left. reflexivity.
    + destruct pp; discriminate.
    + discriminate.
  - intros a _. apply noof_bind; [|intros; discriminate].
    apply IH. intros n Hn. apply H. right. exact Hn.
Qed.

(** ** the repaired code: every table *)
Definition predefined_names : list str :=
  [[108;116]; [103;116]; [97;109;112]; [97;112;111;115]; [113;117;111;116]].

Definition universe (ents : list entity) : list str := map en_name ents ++ predefined_names.

Lemma predefined_in name e : predefined name = Some e -> In name predefined_names.
Proof.
  unfold predefined, predefined_names.
  repeat match goal with
         | |- context [str_eqb name ?l] =>
           let E := fresh "E" in destruct (str_eqb name l) eqn:E;
           [apply str_eqb_eq in E; subst name; intros _; cbn; tauto|]
         end.
  discriminate.
Qed.

Lemma lookup_in_universe ents name e : lookup_entity ents name = IOk e -> In name (universe ents).
Proof.
  unfold lookup_entity, lookup_entity2, universe. intros H. apply in_or_app.
  destruct (find (fun e0 => str_eqb (en_name e0) name) ents) as [e0|] eqn:F.
  - apply find_some in F. destruct F as [Hin Heq]. apply str_eqb_eq in Heq. subst name.
    left. apply in_map. exact Hin.
  - destruct (predefined name) as [e0|] eqn:P; [|discriminate].
    right. eapply predefined_in. exact P.
Qed.

Lemma existsb_str_false name path : existsb (str_eqb name) path = false -> ~ In name path.
Proof.
  intros H Hin. assert (existsb (str_eqb name) path = true) as E.
  { apply existsb_exists. exists name. split; [exact Hin|apply str_eqb_refl]. }
  congruence.
Qed.

Lemma expand_checked_noof pp ia ents : forall fuel path name,
  NoDup path -> incl path (universe ents) -> (length (universe ents) + 2 <= fuel + length path)%nat ->
  noof (expand_gen true pp ia fuel ents path name).
Proof.
  induction fuel as [|f IH]; intros path name Hnd Hincl Hlen.
  - exfalso. pose proof (NoDup_incl_length Hnd Hincl). lia.
  - cbn [expand_gen andb].
    destruct (existsb (str_eqb name) path) eqn:E; [discriminate|].
    apply noof_bind; [apply lookup_entity_noof|]. intros e He.
    apply expand_values_noof. intros n _. apply IH.
    + constructor; [apply existsb_str_false; exact E|exact Hnd].
    + intros x [<-|Hx]; [eapply lookup_in_universe; exact He|apply Hincl; exact Hx].
    + cbn [length]. lia.
Qed.

Theorem expand_attr_total ents name : expand_attr ents name <> IOof.
Proof.
  unfold expand_attr, expand_fuel. apply expand_checked_noof.
  - constructor.
  - intros x [].
  - unfold universe. rewrite app_length, map_length. cbn [predefined_names length]. lia.
Qed.

Theorem expand_total ents name : expand ents name <> IOof.
Proof.
  unfold expand, expand_fuel. apply expand_checked_noof.
  - constructor.
  - intros x [].
  - unfold universe. rewrite app_length, map_length. cbn [predefined_names length]. lia.
Qed.

(** ** the code before the repair: tables without recursion *)
Definition wf_table (tbl : list entity) : Prop :=
  exists rank : str -> nat,
    forall name e, lookup_entity tbl name = IOk e ->
                   forall n, In (XvEntity n) (values_of e) -> (rank n < rank name)%nat.

Lemma expand_unchecked_noof pp ia tbl rank :
  (forall name e, lookup_entity tbl name = IOk e -> forall n, In (XvEntity n) (values_of e) -> (rank n < rank name)%nat) ->
  forall fuel path name, (rank name < fuel)%nat -> noof (expand_gen false pp ia fuel tbl path name).
Proof.
  intros Hr. induction fuel as [|f IH]; intros path name Hlt; [lia|].
  cbn [expand_gen andb].
  apply noof_bind; [apply lookup_entity_noof|]. intros e He.
  apply expand_values_noof. intros n Hn. apply IH.
  specialize (Hr name e He n Hn). lia.
Qed.

Theorem expand_pinned_terminates tbl : wf_table tbl ->
  forall name, exists fuel, forall fuel', (fuel <= fuel')%nat -> expand_pinned fuel' tbl name <> IOof.
Proof.
  intros [rank Hr] name. exists (S (rank name)). intros fuel' Hle.
  unfold expand_pinned. eapply expand_unchecked_noof; [exact Hr|lia].
Qed.

(** ** ... and it needs the hypothesis *)
Definition self_ref_table : list entity := [Entity [101] (Some [XvEntity [101]]) None None None].

Theorem expand_pinned_diverges : forall fuel, expand_pinned fuel self_ref_table [101] = IOof.
Proof.
  unfold expand_pinned. intros fuel. generalize (@nil str).
  induction fuel as [|f IH]; intros pth; [reflexivity|].
  cbn [expand_gen andb]. change (lookup_entity self_ref_table [101]) with (IOk (Entity [101] (Some [XvEntity [101]]) None None None)).
  cbn [ibind en_values expand_values expand_value]. rewrite IH. reflexivity.
Qed.

Lemma self_ref_not_wf : ~ wf_table self_ref_table.
Proof.
  intros [rank H].
  specialize (H [101] (Entity [101] (Some [XvEntity [101]]) None None None) eq_refl [101]).
  cbn in H. specialize (H (or_introl eq_refl)). lia.
Qed.

(** the same table is harmless for the repaired code: the recursion is reported *)
Example expand_self_ref : expand self_ref_table [101] = IErr (InvalidData [38;101;59]).
Proof. reflexivity. Qed.

(** a non-trivial table satisfying [wf_table]: e -> "x&f;", f -> "y" *)
Example wf_table_example :
  wf_table [Entity [101] (Some [XvText [120]; XvEntity [102]]) None None None;
            Entity [102] (Some [XvText [121]]) None None None].
Proof.
  exists (fun n => if str_eqb n [101] then 1%nat else 0%nat).
  intros name e H n Hn. unfold lookup_entity, lookup_entity2 in H. cbn [find en_name] in H.
  destruct (str_eqb [101] name) eqn:E1.
  - apply str_eqb_eq in E1. subst name. cbn in H. injection H as <-. cbn in Hn.
    destruct Hn as [Hn|[Hn|[]]]; [discriminate|]. injection Hn as <-. cbn. lia.
  - destruct (str_eqb [102] name) eqn:E2.
    + cbn in H. injection H as <-. cbn in Hn. destruct Hn as [Hn|[]]. discriminate.
    + cbn [ibind] in H. destruct (predefined name) as [e0|] eqn:P; [|discriminate].
      cbn in H. injection H as <-.
      unfold predefined in P.
      repeat match type of P with
             | (if ?b then _ else _) = _ => destruct b; [injection P as <-; cbn in Hn; destruct Hn as [Hn|[]]; discriminate|]
             end.
      discriminate.
Qed.
