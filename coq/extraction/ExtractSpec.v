(** Extraction of the specification side only (Spec/ and Base/: nothing generated from
    /repo), so that the failing-input search still has its oracle when a change to /repo
    breaks the generated model. *)
From Coq Require Import Extraction ExtrOcamlBasic.
From XmlRs Require Import Base.CPred Spec.XmlChars Spec.CharsSpecObs.

Extraction Language OCaml.
Extraction "../ocaml/gen/spec.ml" CharsSpecObs.spec_obs.
