(* attr: one abstract case per line, words:
     e:<name>:<pieces>                      <!ENTITY name "pieces">
     l:<element>:<def>|<def>...             <!ATTLIST element def...>,  def = <attr>,<TYPE>,<I|R|D|F>,<pieces>
     x:<element>:<attr>,<pieces>|...        the start-tag of the document element
   names are code points joined by '.', pieces are joined by '+': t<cps> c<number> r<name>; '-' = none.
   Output: identical to harness/src/domains/attr.rs. *)
let nsattr_name (s : string) : n list =
  if s = "" || s = "-" then [] else List.map (fun x -> n_of_int (int_of_string x)) (String.split_on_char '.' s)
let nsattr_piece (s : string) : piece =
  let rest = String.sub s 1 (String.length s - 1) in
  match s.[0] with
  | 't' -> Text (nsattr_name rest)
  | 'c' -> CharRef (n_of_int (int_of_string rest))
  | 'r' -> EntRef (nsattr_name rest)
  | _ -> failwith "piece"
let nsattr_pieces (s : string) : piece list =
  if s = "-" || s = "" then [] else List.map nsattr_piece (String.split_on_char '+' s)
let nsattr_type (s : string) : atttype =
  match s with
  | "CDATA" -> TCdata | "ID" -> TId | "IDREF" -> TIdref | "IDREFS" -> TIdrefs | "ENTITY" -> TEntity
  | "ENTITIES" -> TEntities | "NMTOKEN" -> TNmtoken | "NMTOKENS" -> TNmtokens | "NOTATION" -> TNotation
  | "ENUM" -> TEnum | _ -> failwith "type"
let nsattr_type_name (t : atttype option) : string =
  match t with
  | None -> "NONE"
  | Some TCdata -> "CDATA" | Some TId -> "ID" | Some TIdref -> "IDREF" | Some TIdrefs -> "IDREFS"
  | Some TEntity -> "ENTITY" | Some TEntities -> "ENTITIES" | Some TNmtoken -> "NMTOKEN"
  | Some TNmtokens -> "NMTOKENS" | Some TNotation -> "NOTATION" | Some TEnum -> "ENUM"
let nsattr_list (s : string) : string list = if s = "" then [] else String.split_on_char '|' s
let nsattr_def (s : string) : attdef =
  match String.split_on_char ',' s with
  | [a; ty; k; ps] ->
    let dflt = match k with
      | "I" -> Implied | "R" -> Required
      | "D" -> Default (false, nsattr_pieces ps) | "F" -> Default (true, nsattr_pieces ps)
      | _ -> failwith "kind" in
    { ad_name = nsattr_name a; ad_type = nsattr_type ty; ad_default = dflt }
  | _ -> failwith "def"
(* -> (dtd, element name, written attributes) *)
let nsattr_case (words : string list) =
  let dtd = ref [] and el = ref [] and written = ref [] in
  List.iter (fun w ->
      match String.split_on_char ':' w with
      | ["e"; n; ps] -> dtd := DEntity (nsattr_name n, nsattr_pieces ps) :: !dtd
      | ["l"; e; defs] -> dtd := DAttlist (nsattr_name e, List.map nsattr_def (nsattr_list defs)) :: !dtd
      | ["x"; e; attrs] ->
        el := nsattr_name e;
        written := List.map (fun a -> match String.split_on_char ',' a with
            | [n; ps] -> (nsattr_name n, nsattr_pieces ps) | _ -> failwith "attr") (nsattr_list attrs)
      | _ -> failwith "word") words;
  (List.rev !dtd, !el, !written)
let nsattr_rows (rows : (n list * str ares * bool * bool * atttype option) list) : string =
  let bad = List.exists (fun (_, v, _, _, _) -> match v with Ok _ -> false | _ -> true) rows in
  let rec_ = List.exists (fun (_, v, _, _, _) -> match v with Recursion -> true | _ -> false) rows in
  if rec_ then "overflow" else if bad then "err"
  else begin
    let rows = List.map (fun (nm, v, i, d, t) ->
        let v = match v with Ok s -> s | _ -> [] in
        (ascii nm, Printf.sprintf "%s/%s/%d/%d/%s" (enc nm) (enc v) (if i then 1 else 0) (if d then 1 else 0) (nsattr_type_name t))) rows in
    let rows = List.sort compare rows in
    String.concat " " ("ok" :: List.map snd rows)
  end
let () = register "attr" (fun words ->
    try
      let (dtd, el, written) = nsattr_case words in
      match model_attrs dtd el written with
      | Ok l -> nsattr_rows (List.map (fun a -> (a.ma_name, a.ma_value, a.ma_ispec, a.ma_dspec, a.ma_type)) l)
      | Recursion -> "overflow"
      | _ -> "err"
    with Failure m -> "badinput " ^ m)
