(** * Spec-level theorems about [render] (C01): the lexical rung of
      render_wf : forall d c, valid d = true -> ok_choices d c = true -> wf (render d c) = true.
    Proved here, closed, for every oracle [c] and every continuation [rest]:
    comments, processing instructions and character references as rendered by Spec/Infoset.v are
    read back by the recognisers of Spec/XmlWF.v, with the content they were rendered from. *)
From Coq Require Import List NArith Arith Lia Bool Setoid.
From XmlRs Require Import Base.CPred Spec.XmlChars Spec.XmlWF Spec.Infoset.
Import ListNotations.
Local Open Scope nat_scope.

(** ** strings *)
Lemma strip_app p r : strip p (p ++ r) = Some r.
Proof. induction p as [|x p IH]; cbn [strip app]; [reflexivity|]. now rewrite N.eqb_refl. Qed.

Lemma span_all_stop (f : char -> bool) a x b : forallb f a = true -> f x = false -> span f (a ++ x :: b) = (a, x :: b).
Proof.
  induction a as [|c a IH]; cbn [forallb app span]; intros Ha Hx.
  - now rewrite Hx.
  - apply andb_true_iff in Ha. destruct Ha as [-> Ha]. now rewrite (IH Ha Hx).
Qed.

Lemma span_all_nil (f : char -> bool) a : forallb f a = true -> span f a = (a, []).
Proof.
  induction a as [|c a IH]; cbn [forallb span]; [reflexivity|]. intros Ha.
  apply andb_true_iff in Ha. destruct Ha as [-> Ha]. now rewrite (IH Ha).
Qed.

(** ** [15] comments *)
Lemma has_sub_cons pat c t : has_sub pat (c :: t) = false -> has_sub pat t = false.
Proof. cbn [has_sub]. intros H. apply orb_false_iff in H. tauto. Qed.

Lemma comment_body_render : forall n s, length s <= n ->
  all_chars s = true -> has_sub [c_dash; c_dash] s = false ->
  (match rev s with c :: _ => N.eqb c c_dash | [] => false end) = false ->
  forall rest, p_comment_body (s ++ s_comment_close ++ rest) = Some (s, rest).
Proof.
  induction n as [|n IH]; intros s Hl Hc Hd He rest.
  - destruct s; [|cbn in Hl; lia]. reflexivity.
  - destruct s as [|c t]; [reflexivity|].
    cbn [all_chars forallb] in Hc. apply andb_true_iff in Hc. destruct Hc as [Hcc Hct].
    cbn [app p_comment_body]. destruct (N.eqb_spec c c_dash) as [->|Hne].
    + (* a dash: the next character exists and is no dash *)
      destruct t as [|c2 t2].
      { cbn [rev app] in He. unfold c_dash in He. cbn in He. discriminate. }
      cbn [app]. assert (H2 : N.eqb c2 c_dash = false).
      { cbn [has_sub] in Hd. apply orb_false_iff in Hd. destruct Hd as [Hd _]. unfold starts in Hd. cbn [strip] in Hd.
        unfold c_dash in *. rewrite N.eqb_refl in Hd.
        destruct (N.eqb 45 c2) eqn:E; [discriminate|]. rewrite N.eqb_sym. exact E. }
      rewrite H2. cbn [forallb] in Hct. apply andb_true_iff in Hct. destruct Hct as [Hc2 Hct]. fold (isChar c2). rewrite Hc2.
      rewrite (IH t2); [reflexivity|cbn [length] in Hl; lia|exact Hct| |].
      * apply has_sub_cons in Hd. now apply has_sub_cons in Hd.
      * cbn [rev] in He. destruct (rev t2) as [|z zs] eqn:Er; [reflexivity|].
        rewrite <- !app_assoc in He. cbn [app] in He. exact He.
    + fold (isChar c). rewrite Hcc. rewrite (IH t); [reflexivity|cbn [length] in Hl; lia|exact Hct| |].
      * now apply has_sub_cons in Hd.
      * cbn [rev] in He. destruct (rev t) as [|z zs] eqn:Er; [reflexivity|]. cbn [app] in He. exact He.
Qed.

Theorem render_comment_wf : forall s rest, comment_ok s = true ->
  spec_comment (render_comment s ++ rest) = Some rest.
Proof.
  intros s rest H. unfold comment_ok in H.
  apply andb_true_iff in H. destruct H as [H He]. apply andb_true_iff in H. destruct H as [H Hd].
  apply andb_true_iff in H. destruct H as [Hc _].
  apply negb_true_iff in Hd, He.
  unfold spec_comment, render_comment. rewrite <- app_assoc, strip_app. cbn [bind].
  rewrite <- app_assoc. rewrite (comment_body_render (length s) s (le_n _) Hc Hd He rest). reflexivity.
Qed.

(** ** [5] Name followed by something that does not continue it *)
Definition stops_name (r : str) : Prop := match r with [] => True | x :: _ => eval spec_NameChar x = false end.

Lemma p_Name_app t r : is_Name t = true -> stops_name r -> p_Name (t ++ r) = Some (t, r).
Proof.
  unfold is_Name, p_Name. destruct t as [|c t]; [discriminate|]. intros H Hr.
  apply andb_true_iff in H. destruct H as [Hc Ht]. cbn [app]. rewrite Hc.
  destruct r as [|x r].
  - rewrite app_nil_r. now rewrite (span_all_nil _ t Ht).
  - now rewrite (span_all_stop _ t x r Ht Hr).
Qed.

(** ** white space runs *)
Lemma ws_char_cases k : ws_char k = c_sp \/ ws_char k = c_tab \/ ws_char k = c_lf \/ ws_char k = c_cr.
Proof.
  unfold ws_char. destruct (N.modulo k 4) as [|p]; [auto|].
  destruct p as [p|p|]; [auto| |auto]. destruct p as [p|p|]; auto.
Qed.

Lemma ws_char_S k : isS (ws_char k) = true.
Proof. destruct (ws_char_cases k) as [-> | [-> | [-> | ->]]]; reflexivity. Qed.

Lemma ws_run_S cnt k : forallb isS (ws_run cnt k) = true.
Proof. revert k; induction cnt as [|n IH]; intros k; cbn [ws_run forallb]; [reflexivity|]. now rewrite ws_char_S, IH. Qed.

Lemma isS_cases c : isS c = true -> c = 32%N \/ c = 9%N \/ c = 13%N \/ c = 10%N.
Proof.
  unfold isS, XmlChars.spec_S. cbn [eval existsb]. unfold in_range. cbn [fst snd]. intros H.
  repeat rewrite orb_true_iff in H. repeat rewrite andb_true_iff in H.
  repeat rewrite N.leb_le in H. repeat rewrite N.ltb_lt in H. lia.
Qed.

Lemma isS_not_namechar c : isS c = true -> eval spec_NameChar c = false.
Proof. intros H. destruct (isS_cases c H) as [-> | [-> | [-> | ->]]]; reflexivity. Qed.

Lemma p_S_run a r : a <> [] -> forallb isS a = true -> match r with [] => True | x :: _ => isS x = false end ->
  p_S (a ++ r) = Some r.
Proof.
  intros Hne Ha Hr. unfold p_S. destruct r as [|x r].
  - rewrite app_nil_r, (span_all_nil _ a Ha). destruct a; [now elim Hne|reflexivity].
  - rewrite (span_all_stop _ a x r Ha Hr). destruct a; [now elim Hne|reflexivity].
Qed.

(** ** scanning to "?>" *)
Lemma scan_to_eq d s : scan_to d s =
  match strip d s with
  | Some r => Some ([], r)
  | None => match s with
            | c :: t => if isChar c then bind (scan_to d t) (fun '(a, r) => Some (c :: a, r)) else None
            | [] => None
            end
  end.
Proof. destruct s; reflexivity. Qed.

Lemma scan_to_pi_close x rest : all_chars x = true -> has_sub s_pi_close x = false ->
  scan_to s_pi_close (x ++ s_pi_close ++ rest) = Some (x, rest).
Proof.
  induction x as [|c t IH]; intros Hc Hs.
  - cbn [app]. rewrite scan_to_eq, strip_app. reflexivity.
  - cbn [all_chars forallb] in Hc. apply andb_true_iff in Hc. destruct Hc as [Hcc Hct].
    cbn [app]. rewrite scan_to_eq.
    assert (Hn : strip s_pi_close (c :: t ++ s_pi_close ++ rest) = None).
    { cbn [has_sub] in Hs. apply orb_false_iff in Hs. destruct Hs as [Hs _]. unfold starts in Hs.
      unfold s_pi_close in *. cbn [strip] in *. destruct (N.eqb 63 c); [|reflexivity].
      destruct t as [|c2 t2]; cbn [app strip] in *; [reflexivity|].
      destruct (N.eqb 62 c2); [discriminate|reflexivity]. }
    rewrite Hn. rewrite Hcc. rewrite (IH Hct (has_sub_cons _ _ _ Hs)). reflexivity.
Qed.

(** ** [16] processing instructions *)
Theorem render_pi_wf : forall c p t d rest, pi_ok t d = true ->
  spec_pi (render_pi c p t d ++ rest) = Some rest.
Proof.
  intros c p t d rest H. unfold pi_ok in H.
  apply andb_true_iff in H. destruct H as [H Hd]. apply andb_true_iff in H. destruct H as [Ht _].
  unfold is_PITarget in Ht. apply andb_true_iff in Ht. destruct Ht as [Hn Hx]. apply negb_true_iff in Hx.
  unfold spec_pi, render_pi. rewrite <- app_assoc, strip_app. cbn [bind]. unfold p_pi_body.
  destruct d as [x|].
  - (* data *)
    apply andb_true_iff in Hd. destruct Hd as [Hd Hh]. apply andb_true_iff in Hd. destruct Hd as [Hd Hp].
    apply andb_true_iff in Hd. destruct Hd as [Hc _]. apply negb_true_iff in Hp.
    rewrite <- !app_assoc.
    assert (Hrun : S1 c p <> [] /\ forallb isS (S1 c p) = true).
    { unfold S1. split; [cbn [ws_run]; discriminate|apply ws_run_S]. }
    destruct Hrun as [Hne Hall].
    assert (Hhead : exists w ws, S1 c p = w :: ws /\ isS w = true).
    { destruct (S1 c p) as [|w ws]; [now elim Hne|]. cbn [forallb] in Hall. apply andb_true_iff in Hall. exists w, ws. tauto. }
    destruct Hhead as (w & ws & Ew & Hw).
    assert (En : p_Name (t ++ S1 c p ++ x ++ s_pi_close ++ rest) = Some (t, S1 c p ++ x ++ s_pi_close ++ rest)).
    { apply p_Name_app; [exact Hn|]. rewrite Ew. cbn [app stops_name]. now apply isS_not_namechar. }
    unfold str in *. rewrite En.
    cbn [bind]. rewrite Hx.
    assert (Hst : strip s_pi_close (S1 c p ++ x ++ s_pi_close ++ rest) = None).
    { rewrite Ew. cbn [app]. unfold s_pi_close. cbn [strip]. destruct (isS_cases w Hw) as [-> | [-> | [-> | ->]]]; reflexivity. }
    rewrite Hst.
    rewrite (p_S_run (S1 c p) (x ++ s_pi_close ++ rest) Hne Hall).
    + cbn [bind]. rewrite (scan_to_pi_close x rest Hc Hp). reflexivity.
    + destruct x as [|y x]; [reflexivity|]. cbn [app]. now apply negb_true_iff in Hh.
  - rewrite <- !app_assoc. cbn [app].
    assert (En : p_Name (t ++ s_pi_close ++ rest) = Some (t, s_pi_close ++ rest)).
    { apply p_Name_app; [exact Hn|]. reflexivity. }
    unfold str in *. rewrite En. cbn [bind]. rewrite Hx. rewrite strip_app. reflexivity.
Qed.

(** ** [66] character references: the digits written by [char_ref] are read back as the same number *)
Local Open Scope N_scope.

Lemma number_from (base : N) l : forall a0,
  fold_left (fun a d => a * base + hexval d) l a0 = a0 * base ^ (N.of_nat (length l)) + number base l.
Proof.
  unfold number. induction l as [|x l IH]; intros a0.
  - cbn [fold_left length]. change (N.of_nat 0) with 0. rewrite N.pow_0_r. lia.
  - cbn [fold_left length]. rewrite IH. rewrite (IH (0 * base + hexval x)).
    rewrite Nat2N.inj_succ, N.pow_succ_r'. lia.
Qed.

Lemma number_cons base x l : number base (x :: l) = hexval x * base ^ (N.of_nat (length l)) + number base l.
Proof. unfold number at 1. cbn [fold_left]. rewrite number_from. lia. Qed.

Definition digit_char (upper : bool) (d : N) : char := if d <? 10 then 48 + d else (if upper then 55 else 87) + d.

Lemma hexval_digit_char upper d : d < 16 -> hexval (digit_char upper d) = d.
Proof.
  intros H. unfold digit_char, hexval, isDigit. destruct (N.ltb_spec d 10).
  - replace ((48 <=? 48 + d) && (48 + d <=? 57))%bool with true; [lia|].
    symmetry. apply andb_true_iff. split; apply N.leb_le; lia.
  - destruct upper.
    + replace ((48 <=? 55 + d) && (55 + d <=? 57))%bool with false
        by (symmetry; apply andb_false_iff; right; apply N.leb_gt; lia).
      replace (55 + d <=? 70) with true by (symmetry; apply N.leb_le; lia). lia.
    + replace ((48 <=? 87 + d) && (87 + d <=? 57))%bool with false
        by (symmetry; apply andb_false_iff; right; apply N.leb_gt; lia).
      replace (87 + d <=? 70) with false by (symmetry; apply N.leb_gt; lia). lia.
Qed.

Lemma digits_of_eq f base upper n acc : digits_of (S f) base upper n acc =
  (if n / base =? 0 then digit_char upper (n mod base) :: acc
   else digits_of f base upper (n / base) (digit_char upper (n mod base) :: acc)).
Proof. reflexivity. Qed.

Lemma digits_of_number base upper : 1 < base -> base <= 16 -> forall f n acc, n < base ^ (N.of_nat f) ->
  number base (digits_of f base upper n acc) = n * base ^ (N.of_nat (length acc)) + number base acc.
Proof.
  intros Hb1 Hb16. induction f as [|f IH]; intros n acc Hn.
  - change (N.of_nat 0) with 0 in Hn. rewrite N.pow_0_r in Hn. assert (n = 0) by lia. subst n. cbn [digits_of]. lia.
  - rewrite digits_of_eq. pose proof (N.div_mod' n base) as Hdm.
    assert (Hm : n mod base < base) by (apply N.mod_lt; lia).
    destruct (N.eqb_spec (n / base) 0) as [Hq|Hq].
    + rewrite number_cons, hexval_digit_char by lia. rewrite Hq in Hdm. lia.
    + rewrite IH.
      * cbn [length]. rewrite number_cons, hexval_digit_char by lia.
        rewrite Nat2N.inj_succ, N.pow_succ_r'. rewrite Hdm at 3. lia.
      * rewrite Nat2N.inj_succ, N.pow_succ_r' in Hn. apply N.div_lt_upper_bound; lia.
Qed.

Lemma digit_char_class base upper d (cls : char -> bool) :
  d < base -> (base = 10 /\ cls = isDigit) \/ (base = 16 /\ cls = isHex) -> cls (digit_char upper d) = true.
Proof.
  intros Hd [[-> ->]|[-> ->]]; unfold digit_char, isHex, isDigit.
  - replace (d <? 10) with true by (symmetry; apply N.ltb_lt; lia).
    apply andb_true_iff; split; apply N.leb_le; lia.
  - destruct (N.ltb_spec d 10).
    + apply orb_true_iff; left. apply orb_true_iff; left. apply andb_true_iff; split; apply N.leb_le; lia.
    + destruct upper.
      * apply orb_true_iff; left. apply orb_true_iff; right. apply andb_true_iff; split; apply N.leb_le; lia.
      * apply orb_true_iff; right. apply andb_true_iff; split; apply N.leb_le; lia.
Qed.

Lemma digits_of_class base upper cls : 1 < base -> (base = 10 /\ cls = isDigit) \/ (base = 16 /\ cls = isHex) ->
  forall f n acc, forallb cls acc = true -> forallb cls (digits_of f base upper n acc) = true.
Proof.
  intros Hb Hc. induction f as [|f IH]; intros n acc Ha; [exact Ha|].
  rewrite digits_of_eq.
  assert (Hd : cls (digit_char upper (n mod base)) = true) by (apply (digit_char_class base); [apply N.mod_lt; lia|exact Hc]).
  destruct (n / base =? 0); [|apply IH]; cbn [forallb]; now rewrite Hd, Ha.
Qed.

Lemma digits_of_nonempty f base upper n acc : digits_of (S f) base upper n acc <> [].
Proof.
  revert n acc; induction f as [|f IH]; intros n acc; rewrite digits_of_eq; destruct (n / base =? 0); try discriminate.
  apply IH.
Qed.

Lemma number_zeros base k l : number base (repeat 48 k ++ l) = number base l.
Proof.
  induction k as [|k IH]; cbn [repeat app]; [reflexivity|].
  rewrite number_cons, IH. change (hexval 48) with 0. lia.
Qed.

Lemma forallb_repeat (f : char -> bool) x k : f x = true -> forallb f (repeat x k) = true.
Proof. intros H. induction k; cbn [repeat forallb]; [reflexivity|]. now rewrite H. Qed.

Lemma p_digits_semi_render base cls ds rest : ds <> [] -> forallb cls ds = true -> cls c_semi = false ->
  p_digits_semi base cls (ds ++ c_semi :: rest) = Some (RChar (number base ds), rest).
Proof.
  intros Hne Hc Hs. unfold p_digits_semi. pose proof (span_all_stop cls ds c_semi rest Hc Hs) as E.
  destruct (span cls (ds ++ c_semi :: rest)) as [a b] eqn:Es.
  assert (Hab : (a, b) = (ds, c_semi :: rest)) by (rewrite <- Es; exact E).
  injection Hab as -> ->. destruct ds; [now elim Hne|]. now rewrite N.eqb_refl.
Qed.

(** the reference is read back as the character it was written for; [tl] drops the ampersand *)
Theorem char_ref_roundtrip : forall k ch rest, ch < 100000000 ->
  p_ref (tl (char_ref k ch) ++ rest) = Some (RChar ch, rest).
Proof.
  intros k ch rest Hch. unfold char_ref. set (z := N.to_nat ((k / 4) mod 4)).
  destruct (k mod 2 =? 0).
  - (* decimal *)
    cbn [app tl]. unfold p_ref. change (c_hash =? c_hash) with true. cbv iota.
    set (ds := digits_of 8 10 false ch []).
    assert (Hcls : forallb isDigit (repeat 48 z ++ ds) = true).
    { rewrite forallb_app. apply andb_true_iff. split; [apply forallb_repeat; reflexivity|].
      apply (digits_of_class 10 false isDigit); [lia|auto|reflexivity]. }
    assert (Hne : repeat 48 z ++ ds <> []).
    { intros H. apply app_eq_nil in H. destruct H as [_ H]. now apply (digits_of_nonempty 7 10 false ch []) in H. }
    assert (Hnum : number 10 (repeat 48 z ++ ds) = ch).
    { rewrite number_zeros. unfold ds. rewrite (digits_of_number 10 false) by (try lia; exact Hch). cbn [length]. cbn. lia. }
    assert (Er : (repeat 48 z ++ ds ++ [c_semi]) ++ rest = (repeat 48 z ++ ds) ++ c_semi :: rest)
      by (rewrite <- !app_assoc; reflexivity).
    unfold str, char in *. rewrite Er.
    destruct (repeat 48 z ++ ds) as [|x u] eqn:E; [now elim Hne|]. cbn [app].
    assert (Hx : x =? c_x = false).
    { cbn [forallb] in Hcls. apply andb_true_iff in Hcls. destruct Hcls as [Hx _]. unfold isDigit in Hx.
      apply andb_true_iff in Hx. destruct Hx as [_ Hx]. apply N.leb_le in Hx. apply N.eqb_neq. unfold c_x. lia. }
    rewrite Hx. change (x :: u ++ c_semi :: rest) with ((x :: u) ++ c_semi :: rest).
    rewrite (p_digits_semi_render 10 isDigit (x :: u) rest) by (try discriminate; try reflexivity; exact Hcls).
    now rewrite Hnum.
  - (* hexadecimal *)
    cbn [app tl]. unfold p_ref. change (c_hash =? c_hash) with true. cbv iota. change (c_x =? c_x) with true. cbv iota.
    set (ds := digits_of 8 16 ((k / 2) mod 2 =? 1) ch []).
    assert (Hcls : forallb isHex (repeat 48 z ++ ds) = true).
    { rewrite forallb_app. apply andb_true_iff. split; [apply forallb_repeat; reflexivity|].
      apply (digits_of_class 16 _ isHex); [lia|auto|reflexivity]. }
    assert (Hne : repeat 48 z ++ ds <> []).
    { intros H. apply app_eq_nil in H. destruct H as [_ H]. now apply (digits_of_nonempty 7 16 _ ch []) in H. }
    assert (Hnum : number 16 (repeat 48 z ++ ds) = ch).
    { rewrite number_zeros. unfold ds. rewrite (digits_of_number 16) by (try lia; cbn; lia). cbn [length]. cbn. lia. }
    assert (Er : (repeat 48 z ++ ds ++ [c_semi]) ++ rest = (repeat 48 z ++ ds) ++ c_semi :: rest)
      by (rewrite <- !app_assoc; reflexivity).
    unfold str, char in *. rewrite Er.
    rewrite (p_digits_semi_render 16 isHex _ rest Hne Hcls eq_refl). now rewrite Hnum.
Qed.

Local Close Scope N_scope.
Local Open Scope nat_scope.

(** ** [10] attribute-value literals: [att_literal] is read back by [p_AttValue] as the same
    sequence of characters and references, whatever the oracle chose *)
Lemma isChar_bound ch : isChar ch = true -> (ch < 100000000)%N.
Proof.
  unfold isChar, spec_Char. cbn [eval existsb]. unfold in_range. cbn [fst snd]. intros H.
  repeat rewrite orb_true_iff in H. repeat rewrite andb_true_iff in H.
  repeat rewrite N.leb_le in H. repeat rewrite N.ltb_lt in H. lia.
Qed.

(** how one abstract item may come back *)
Inductive piece_of : aitem -> list avpiece -> Prop :=
| PoRef nm : piece_of (IRef nm) [AvEnt nm]
| PoText s ps : Forall2 (fun ch pc => pc = AvLit ch \/ pc = AvChar ch \/ (exists nm, predef_name ch = Some nm /\ pc = AvEnt nm)) s ps ->
                piece_of (IText s) ps.

Definition quote (q : char) : Prop := q = c_quot \/ q = c_apos.

Lemma predef_name_Name ch nm : predef_name ch = Some nm -> is_Name nm = true.
Proof.
  unfold predef_name. repeat (destruct (N.eqb ch _); [intros H; injection H as <-; reflexivity|]). discriminate.
Qed.

Lemma p_ref_entity nm T : is_Name nm = true -> p_ref (nm ++ c_semi :: T) = Some (REnt nm, T).
Proof.
  intros Hn. unfold p_ref. destruct nm as [|x nm]; [discriminate|]. cbn [app].
  assert (Hx : N.eqb x c_hash = false).
  { unfold is_Name in Hn. apply andb_true_iff in Hn. destruct Hn as [Hx _].
    destruct (N.eqb_spec x c_hash) as [->|]; [discriminate|reflexivity]. }
  rewrite Hx. change (x :: nm ++ c_semi :: T) with ((x :: nm) ++ c_semi :: T).
  assert (En : p_Name ((x :: nm) ++ c_semi :: T) = Some (x :: nm, c_semi :: T)) by (apply p_Name_app; [exact Hn|reflexivity]).
  unfold str, char in *. rewrite En. now rewrite N.eqb_refl.
Qed.

(** one rendered character and the piece it is read back as *)
Definition lit_piece (q : char) (k : N) (ch : char) : avpiece :=
  let esc := att_must_escape q ch in
  match N.modulo k 4 with
  | 0%N | 1%N => if esc then AvChar ch else AvLit ch
  | 2%N => match predef_name ch with
           | Some nm => AvEnt nm
           | None => if esc then AvChar ch else AvLit ch end
  | _ => AvChar ch
  end.

Definition rel_char (ch : char) (pc : avpiece) : Prop :=
  pc = AvLit ch \/ pc = AvChar ch \/ (exists nm, predef_name ch = Some nm /\ pc = AvEnt nm).

Lemma lit_piece_rel q k ch : rel_char ch (lit_piece q k ch).
Proof.
  unfold lit_piece, rel_char. destruct (N.modulo k 4) as [|m].
  - destruct (att_must_escape q ch); auto.
  - destruct m as [m|m|]; [auto| |destruct (att_must_escape q ch); auto].
    destruct m as [m|m|]; auto. destruct (predef_name ch) as [nm|] eqn:E; [right; right; eauto|].
    destruct (att_must_escape q ch); auto.
Qed.

Lemma lit_char_step q k ch T fuel : quote q -> isChar ch = true ->
  p_pieces (S fuel) (Some q) c_lt (lit_char k (att_must_escape q ch) true ch ++ T) =
  bind (p_pieces fuel (Some q) c_lt T) (fun '(ps, rest) => Some (lit_piece q k ch :: ps, rest)).
Proof.
  intros Hq Hc.
  assert (Hq38 : N.eqb c_amp q = false) by (destruct Hq; subst q; reflexivity).
  assert (Hlit : att_must_escape q ch = false ->
    p_pieces (S fuel) (Some q) c_lt ([ch] ++ T) = bind (p_pieces fuel (Some q) c_lt T) (fun '(ps, rest) => Some (AvLit ch :: ps, rest))).
  { intros He. unfold att_must_escape in He. repeat (apply orb_false_iff in He; destruct He as [He ?]).
    cbn [app p_pieces]. rewrite H2, He, H3, Hc. destruct (p_pieces fuel (Some q) c_lt T) as [[ps rest]|]; reflexivity. }
  assert (Href : forall k', p_pieces (S fuel) (Some q) c_lt (char_ref k' ch ++ T) =
    bind (p_pieces fuel (Some q) c_lt T) (fun '(ps, rest) => Some (AvChar ch :: ps, rest))).
  { intros k'. pose proof (char_ref_roundtrip k' ch T (isChar_bound ch Hc)) as Hr.
    assert (Hs : exists t, char_ref k' ch = c_amp :: t) by (unfold char_ref; destruct (N.eqb (N.modulo k' 2) 0); eexists; reflexivity).
    destruct Hs as [t Et]. rewrite Et in *. cbn [tl app] in *. cbn [p_pieces]. rewrite Hq38.
    change (N.eqb c_amp c_lt) with false. rewrite N.eqb_refl. cbv iota. unfold str, char in *. rewrite Hr. cbn [bind piece_of_ref].
    destruct (p_pieces fuel (Some q) c_lt T) as [[ps rest]|]; reflexivity. }
  assert (Hent : forall nm, predef_name ch = Some nm ->
    p_pieces (S fuel) (Some q) c_lt (entity_ref nm ++ T) = bind (p_pieces fuel (Some q) c_lt T) (fun '(ps, rest) => Some (AvEnt nm :: ps, rest))).
  { intros nm Hn. unfold entity_ref. cbn [app p_pieces]. rewrite Hq38.
    change (N.eqb c_amp c_lt) with false. rewrite N.eqb_refl. cbv iota.
    rewrite <- app_assoc. cbn [app]. pose proof (p_ref_entity nm T (predef_name_Name _ _ Hn)) as Hr.
    unfold str, char in *. rewrite Hr. cbn [bind piece_of_ref].
    destruct (p_pieces fuel (Some q) c_lt T) as [[ps rest]|]; reflexivity. }
  unfold lit_char, lit_piece. destruct (N.modulo k 4) as [|m].
  - destruct (att_must_escape q ch) eqn:Ee; [apply Href|now apply Hlit].
  - destruct m as [m|m|].
    + apply Href.
    + destruct m as [m|m|]; try apply Href.
      destruct (predef_name ch) as [nm|] eqn:En; [now apply Hent|].
      destruct (att_must_escape q ch) eqn:Ee; [apply Href|now apply Hlit].
    + destruct (att_must_escape q ch) eqn:Ee; [apply Href|now apply Hlit].
Qed.

Fixpoint lit_pieces (q : char) (c : choices) (p : list N) (i : N) (s : str) : list avpiece :=
  match s with
  | [] => []
  | ch :: t => lit_piece q (c (i :: p)) ch :: lit_pieces q c p (i + 1) t
  end.

Lemma lit_pieces_rel q c p : forall s i, Forall2 rel_char s (lit_pieces q c p i s).
Proof. induction s as [|ch s IH]; intros i; cbn [lit_pieces]; constructor; [apply lit_piece_rel|apply IH]. Qed.

Lemma lit_chars_read q c p : quote q -> forall s i T fuel, all_chars s = true ->
  p_pieces (length s + fuel) (Some q) c_lt (lit_chars c p (att_must_escape q) true i s ++ T) =
  bind (p_pieces fuel (Some q) c_lt T) (fun '(ps', rest) => Some (lit_pieces q c p i s ++ ps', rest)).
Proof.
  intros Hq. induction s as [|ch s IH]; intros i T fuel Hc.
  - cbn [lit_chars lit_pieces app length Nat.add]. destruct (p_pieces fuel (Some q) c_lt T) as [[ps rest]|]; reflexivity.
  - cbn [all_chars forallb] in Hc. apply andb_true_iff in Hc. destruct Hc as [Hch Hcs].
    cbn [lit_chars lit_pieces length Nat.add]. rewrite <- app_assoc.
    rewrite (lit_char_step q (c (i :: p)) ch _ (length s + fuel) Hq Hch).
    rewrite (IH (i + 1)%N T fuel Hcs).
    destruct (p_pieces fuel (Some q) c_lt T) as [[ps rest]|]; reflexivity.
Qed.

(** items: text and references *)
Fixpoint items_pieces (q : char) (c : choices) (p : list N) (i : N) (l : list aitem) : list avpiece :=
  match l with
  | [] => []
  | IText s :: t => lit_pieces q c (i :: p) 0 s ++ items_pieces q c p (i + 1) t
  | IRef nm :: t => AvEnt nm :: items_pieces q c p (i + 1) t
  end.

Fixpoint items_size (l : list aitem) : nat :=
  match l with [] => 0 | IText s :: t => length s + items_size t | IRef _ :: t => S (items_size t) end.

Lemma lit_items_read q c p : quote q -> forall l i T fuel, items_ok l = true ->
  p_pieces (items_size l + fuel) (Some q) c_lt (lit_items c p (att_must_escape q) true i l ++ T) =
  bind (p_pieces fuel (Some q) c_lt T) (fun '(ps', rest) => Some (items_pieces q c p i l ++ ps', rest)).
Proof.
  intros Hq. assert (Hq38 : N.eqb c_amp q = false) by (destruct Hq; subst q; reflexivity).
  induction l as [|it l IH]; intros i T fuel Hok.
  - cbn [lit_items items_pieces items_size app Nat.add]. destruct (p_pieces fuel (Some q) c_lt T) as [[ps rest]|]; reflexivity.
  - cbn [items_ok forallb] in Hok. apply andb_true_iff in Hok. destruct Hok as [Hit Hl].
    destruct it as [s|nm]; cbn [lit_items items_pieces items_size].
    + rewrite <- !app_assoc. rewrite <- Nat.add_assoc. rewrite (lit_chars_read q c (i :: p) Hq s 0%N _ _ Hit).
      rewrite (IH (i + 1)%N T fuel Hl). destruct (p_pieces fuel (Some q) c_lt T) as [[ps rest]|]; cbn [bind]; [now rewrite app_assoc|reflexivity].
    + unfold entity_ref. cbn [app Nat.add p_pieces]. rewrite Hq38.
      change (N.eqb c_amp c_lt) with false. rewrite N.eqb_refl. cbv iota.
      rewrite <- !app_assoc. cbn [app].
      assert (Hn : is_Name nm = true) by (unfold is_NCName in Hit; apply andb_true_iff in Hit; tauto).
      pose proof (p_ref_entity nm (lit_items c p (att_must_escape q) true (i + 1) l ++ T) Hn) as Hr.
      unfold str, char in *. rewrite Hr. cbn [bind piece_of_ref].
      rewrite (IH (i + 1)%N T fuel Hl). destruct (p_pieces fuel (Some q) c_lt T) as [[ps rest]|]; reflexivity.
Qed.

(** the whole literal *)
Theorem att_literal_reads_back : forall c p v rest, items_ok v = true ->
  exists q, quote q /\
    p_AttValue (S (items_size v)) (att_literal c p v ++ rest) = Some (items_pieces q c (1%N :: p) 0 v, rest).
Proof.
  intros c p v rest Hok. unfold att_literal.
  set (q := if (c (0%N :: p) mod 2 =? 0)%N then c_quot else c_apos).
  assert (Hq : quote q) by (unfold q, quote; destruct (N.eqb _ _); auto).
  exists q. split; [exact Hq|]. cbn [app]. unfold p_AttValue.
  assert (Hiq : isQuote q = true) by (destruct Hq as [-> | ->]; reflexivity). rewrite Hiq.
  rewrite <- app_assoc. cbn [app].
  replace (S (items_size v)) with (items_size v + 1) by lia.
  etransitivity; [exact (lit_items_read q c (1%N :: p) Hq v 0%N (q :: rest) 1 Hok)|].
  cbn [p_pieces]. rewrite N.eqb_refl. cbn [bind]. now rewrite app_nil_r.
Qed.

(** ** the value read back does not depend on the oracle: it is the value of the canonical pieces *)
Definition std_predef (en : env) : Prop :=
  forall nm t, In (nm, t) predefined -> assoc nm (e_ents en) = Some (EInternal t).

Lemma predef_value f en ch nm : std_predef en -> predef_name ch = Some nm ->
  av_value (S (S f)) en [AvEnt nm] = [ch].
Proof.
  intros Hs Hn. unfold predef_name in Hn.
  assert (Hcases : (ch = c_lt /\ nm = s_lt) \/ (ch = c_gt /\ nm = s_gt) \/ (ch = c_amp /\ nm = s_amp)
                   \/ (ch = c_apos /\ nm = s_apos) \/ (ch = c_quot /\ nm = s_quot)).
  { destruct (N.eqb_spec ch c_lt); [injection Hn as <-; auto|].
    destruct (N.eqb_spec ch c_gt); [injection Hn as <-; auto|].
    destruct (N.eqb_spec ch c_amp); [injection Hn as <-; auto|].
    destruct (N.eqb_spec ch c_apos); [injection Hn as <-; auto 6|].
    destruct (N.eqb_spec ch c_quot); [injection Hn as <-; auto 6|discriminate]. }
  cbn [av_value flat_map]. rewrite app_nil_r.
  destruct Hcases as [[-> ->]|[[-> ->]|[[-> ->]|[[-> ->]|[-> ->]]]]].
  - rewrite (Hs s_lt [38;35;54;48;59]%N) by (cbn; auto). reflexivity.
  - rewrite (Hs s_gt [62]%N) by (cbn; auto). reflexivity.
  - rewrite (Hs s_amp [38;35;51;56;59]%N) by (cbn; auto). reflexivity.
  - rewrite (Hs s_apos [39]%N) by (cbn; auto 6). reflexivity.
  - rewrite (Hs s_quot [34]%N) by (cbn; auto 6). reflexivity.
Qed.

Lemma av_value_app f en a b : av_value f en (a ++ b) = av_value f en a ++ av_value f en b.
Proof. destruct f; [reflexivity|]. cbn [av_value]. apply flat_map_app. Qed.

Lemma av_value_cons f en x l : av_value f en (x :: l) = av_value f en [x] ++ av_value f en l.
Proof. apply (av_value_app f en [x] l). Qed.

Definition canon_piece (ch : char) : avpiece := if (isS ch && negb (N.eqb ch c_sp))%bool then AvChar ch else AvLit ch.

Lemma lit_piece_value f en q k ch : quote q -> std_predef en ->
  av_value (S (S f)) en [lit_piece q k ch] = av_value (S (S f)) en [canon_piece ch].
Proof.
  intros Hq Hs.
  assert (Hcanon : av_value (S (S f)) en [canon_piece ch] = if isS ch then (if N.eqb ch c_sp then [c_sp] else [ch]) else [ch]).
  { unfold canon_piece. cbn [av_value flat_map]. destruct (isS ch) eqn:E; cbn [andb negb].
    - destruct (N.eqb ch c_sp); cbn [negb]; [now rewrite E|reflexivity].
    - now rewrite E. }
  assert (Hchar : av_value (S (S f)) en [AvChar ch] = av_value (S (S f)) en [canon_piece ch]).
  { rewrite Hcanon. cbn [av_value flat_map app]. destruct (isS ch); [|reflexivity].
    destruct (N.eqb_spec ch c_sp) as [->|]; reflexivity. }
  assert (Hlit : att_must_escape q ch = false -> av_value (S (S f)) en [AvLit ch] = av_value (S (S f)) en [canon_piece ch]).
  { intros He. rewrite Hcanon. cbn [av_value flat_map app]. destruct (isS ch) eqn:E; [|reflexivity].
    destruct (N.eqb_spec ch c_sp) as [->|Hne]; [reflexivity|]. exfalso.
    unfold att_must_escape in He. repeat (apply orb_false_iff in He; destruct He as [He ?]).
    destruct (isS_cases ch E) as [-> | [-> | [-> | ->]]]; try discriminate; now elim Hne. }
  unfold lit_piece. destruct (N.modulo k 4) as [|m].
  - destruct (att_must_escape q ch) eqn:Ee; auto.
  - destruct m as [m|m|]; [exact Hchar| |destruct (att_must_escape q ch) eqn:Ee; auto].
    destruct m as [m|m|]; try exact Hchar.
    destruct (predef_name ch) as [nm|] eqn:En; [|destruct (att_must_escape q ch) eqn:Ee; auto].
    rewrite (predef_value f en ch nm Hs En). rewrite Hcanon.
    assert (HnS : isS ch = false).
    { unfold predef_name in En.
      repeat (match type of En with (if ?b then _ else _) = _ => destruct b eqn:?E; [apply N.eqb_eq in E; subst ch; reflexivity|clear E] end).
      discriminate. }
    now rewrite HnS.
Qed.

Lemma lit_pieces_value f en q c p : quote q -> std_predef en -> forall s i,
  av_value (S (S f)) en (lit_pieces q c p i s) = av_value (S (S f)) en (map canon_piece s).
Proof.
  intros Hq Hs. induction s as [|ch s IH]; intros i; [reflexivity|].
  cbn [lit_pieces map]. rewrite av_value_cons, (av_value_cons _ _ (canon_piece ch)).
  now rewrite (lit_piece_value f en q _ ch Hq Hs), IH.
Qed.

Lemma att_pieces_cons_text s l : att_pieces (IText s :: l) = map canon_piece s ++ att_pieces l.
Proof. reflexivity. Qed.

Theorem att_value_choice_independent : forall f en q c p v i, quote q -> std_predef en ->
  av_value (S (S f)) en (items_pieces q c p i v) = av_value (S (S f)) en (att_pieces v).
Proof.
  intros f en q c p v i Hq Hs. revert i. induction v as [|it v IH]; intros i; [reflexivity|].
  destruct it as [s|nm]; cbn [items_pieces].
  - rewrite att_pieces_cons_text, !av_value_app, (lit_pieces_value f en q c (i :: p) Hq Hs s 0%N). now rewrite IH.
  - change (att_pieces (IRef nm :: v)) with ([AvEnt nm] ++ att_pieces v).
    change (AvEnt nm :: items_pieces q c p (i + 1) v) with ([AvEnt nm] ++ items_pieces q c p (i + 1) v).
    rewrite !av_value_app. f_equal. apply IH.
Qed.
(** ** [43] character data: [text_chars] is read back by [p_content] as items whose characters are the
    abstract text, whatever mixture of literal characters, character references, predefined entity
    references and CDATA sections the oracle chose *)
Definition text_esc (prev ch : char) : bool :=
  (N.eqb ch c_lt || N.eqb ch c_amp || N.eqb ch c_cr || (N.eqb ch c_gt && N.eqb prev c_rbr))%bool.

(** the rendering of one step: a unit followed by the rendering of the rest *)
Inductive unit_of (prev ch : char) : str -> Prop :=
| ULit : text_esc prev ch = false -> unit_of prev ch [ch]
| URef k : unit_of prev ch (char_ref k ch)
| UEnt nm : predef_name ch = Some nm -> unit_of prev ch (entity_ref nm)
| UEmptyLit : text_esc prev ch = false -> unit_of prev ch (s_cdata_open ++ s_cdata_close ++ [ch])
| UEmptyRef k : unit_of prev ch (s_cdata_open ++ s_cdata_close ++ char_ref k ch).

Inductive step_shape (f : nat) (c : choices) (p : list N) (i : N) (prev : char) (ch : char) (t : str) : str -> Prop :=
| SOne u : unit_of prev ch u -> step_shape f c p i prev ch t (u ++ text_chars f c p (i + 1) ch t)
| SRun run rest : ch :: t = run ++ rest -> run <> [] -> existsb (N.eqb c_rbr) run = false -> existsb (N.eqb c_cr) run = false ->
    step_shape f c p i prev ch t (s_cdata_open ++ run ++ s_cdata_close ++ text_chars f c p (i + N.of_nat (length run)) (last run ch) rest).

Lemma take_run_spec n s a b : take_run n s = (a, b) -> s = a ++ b /\ existsb (N.eqb c_rbr) a = false.
Proof.
  revert s a b; induction n as [|n IH]; intros s a b; cbn [take_run].
  - intros H; injection H as <- <-. auto.
  - destruct s as [|ch t]; [intros H; injection H as <- <-; auto|].
    destruct (N.eqb ch c_rbr) eqn:E; [intros H; injection H as <- <-; auto|].
    destruct (take_run n t) as [a' b'] eqn:E'. intros H; injection H as <- <-.
    destruct (IH _ _ _ E') as [-> Hn]. split; [reflexivity|]. cbn [existsb]. rewrite (N.eqb_sym c_rbr ch), E. exact Hn.
Qed.

Lemma text_step f c p i prev ch t : step_shape f c p i prev ch t (text_chars (S f) c p i prev (ch :: t)).
Proof.
  cbn [text_chars]. fold (text_esc prev ch).
  set (k := c (i :: p)).
  assert (Hlit : step_shape f c p i prev ch t ((if text_esc prev ch then char_ref (k / 8) ch else [ch]) ++ text_chars f c p (i + 1) ch t)).
  { apply SOne. destruct (text_esc prev ch) eqn:E; [apply URef|now apply ULit]. }
  assert (Hrf : step_shape f c p i prev ch t (char_ref (k / 8) ch ++ text_chars f c p (i + 1) ch t)).
  { apply SOne. apply URef. }
  assert (Hdefault : step_shape f c p i prev ch t
    (match take_run (S (N.to_nat ((k / 8) mod 4))) (ch :: t) with
     | ([], _) => char_ref (k / 8) ch ++ text_chars f c p (i + 1) ch t
     | ((c0 :: l) as run, rest) =>
       if existsb (N.eqb c_cr) run then char_ref (k / 8) ch ++ text_chars f c p (i + 1) ch t
       else s_cdata_open ++ run ++ s_cdata_close ++ text_chars f c p (i + N.of_nat (length run)) (last run ch) rest
     end)).
  { destruct (take_run (S (N.to_nat ((k / 8) mod 4))) (ch :: t)) as [[|c0 l] rest] eqn:E; [exact Hrf|].
    destruct (existsb (N.eqb c_cr) (c0 :: l)) eqn:Ecr; [exact Hrf|].
    destruct (take_run_spec _ _ _ _ E) as [Hs Hn]. apply SRun; [exact Hs|discriminate|exact Hn|exact Ecr]. }
  destruct (N.modulo k 8) as [|m]; [exact Hlit|].
  destruct m as [[m|m|]|[m|m|]|]; try exact Hlit; try exact Hrf; try exact Hdefault.
  - (* 5, or 13.. *) destruct m; try exact Hdefault.
    apply SOne. destruct (text_esc prev ch) eqn:E; [apply UEmptyRef|now apply UEmptyLit].
  - (* 4 *) destruct m; try exact Hdefault.
    apply SOne. destruct (predef_name ch) as [nm|] eqn:En; [now apply UEnt|].
    destruct (text_esc prev ch) eqn:E; [apply URef|now apply ULit].
Qed.

Definition follow_ok (T : str) : Prop := match T with [] => True | x :: _ => x = c_lt \/ x = c_amp end.

Lemma unit_head prev ch u : unit_of prev ch u ->
  exists x r, u = x :: r /\ ((x = ch /\ text_esc prev ch = false /\ r = []) \/ x = c_amp \/ x = c_lt).
Proof.
  intros [H|k|nm H|H|k].
  - exists ch, []. auto.
  - unfold char_ref. destruct (N.eqb (N.modulo k 2) 0); eexists; eexists; split; try reflexivity; auto.
  - exists c_amp, (nm ++ [c_semi]). auto.
  - eexists; eexists; split; [reflexivity|auto].
  - eexists; eexists; split; [reflexivity|auto].
Qed.

Lemma starts_cons x y r l : starts (x :: l) (y :: r) = (N.eqb x y && starts l r)%bool.
Proof. unfold starts. cbn [strip]. destruct (N.eqb x y); [|reflexivity]. reflexivity. Qed.

Lemma starts_nil_r x l : starts (x :: l) [] = false.
Proof. reflexivity. Qed.

Lemma follow_not_gt T : follow_ok T -> starts [c_gt] T = false.
Proof. destruct T as [|x T]; [reflexivity|]. cbn [follow_ok]. intros [-> | ->]; reflexivity. Qed.

Lemma follow_not_rbr T : follow_ok T -> starts [c_rbr; c_gt] T = false.
Proof. destruct T as [|x T]; [reflexivity|]. cbn [follow_ok]. intros [-> | ->]; reflexivity. Qed.

Lemma text_chars_nil f c p i prev : text_chars f c p i prev [] = [].
Proof. destruct f; reflexivity. Qed.

Lemma esc_gt_after_rbr : text_esc c_rbr c_gt = true.
Proof. reflexivity. Qed.

(** after "]" the rendering never continues with ">" *)
Lemma no_gt_start f c p i s T : follow_ok T -> starts [c_gt] (text_chars f c p i c_rbr s ++ T) = false.
Proof.
  intros HT. destruct f as [|f]; [cbn [text_chars app]; now apply follow_not_gt|].
  destruct s as [|ch t]; [cbn [text_chars app]; now apply follow_not_gt|].
  destruct (text_step f c p i c_rbr ch t) as [u Hu|run rest Hs Hne _ _].
  - destruct (unit_head _ _ _ Hu) as (x & r & -> & Hx). cbn [app]. rewrite starts_cons.
    destruct Hx as [(-> & He & _)|[-> | ->]]; try reflexivity.
    destruct (N.eqb_spec c_gt ch) as [<-|]; [|reflexivity]. rewrite esc_gt_after_rbr in He. discriminate.
  - reflexivity.
Qed.

(** the rendering never starts with "]>" *)
Lemma no_rbr_gt_start f c p i prev s T : follow_ok T -> starts [c_rbr; c_gt] (text_chars f c p i prev s ++ T) = false.
Proof.
  intros HT. destruct f as [|f]; [cbn [text_chars app]; now apply follow_not_rbr|].
  destruct s as [|ch t]; [cbn [text_chars app]; now apply follow_not_rbr|].
  destruct (text_step f c p i prev ch t) as [u Hu|run rest Hs Hne _ _].
  - destruct (unit_head _ _ _ Hu) as (x & r & -> & Hx). cbn [app]. rewrite starts_cons.
    destruct Hx as [(-> & He & ->)|[-> | ->]]; try reflexivity.
    destruct (N.eqb_spec c_rbr ch) as [<-|]; [|reflexivity]. cbn [andb app].
    now apply no_gt_start.
  - reflexivity.
Qed.

(** ** one step of [p_content] *)
Lemma pc_char fuel ch X : isChar ch = true -> N.eqb ch c_lt = false -> N.eqb ch c_amp = false ->
  starts s_cdata_close (ch :: X) = false ->
  p_content (S fuel) (ch :: X) = bind (p_content fuel X) (fun '(l, r) => Some (XChar ch :: l, r)).
Proof.
  intros Hc Hl Ha Hs. cbn [p_content]. rewrite Hl, Ha, Hc, Hs. cbn [andb negb].
  destruct (p_content fuel X) as [[l r]|]; reflexivity.
Qed.

Lemma pc_ref fuel t rf X : p_ref t = Some (rf, X) ->
  p_content (S fuel) (c_amp :: t) =
  bind (p_content fuel X) (fun '(l, r) => Some ((match rf with RChar n => XCharRef n | REnt nm => XEntRef nm end) :: l, r)).
Proof.
  intros H. cbn [p_content]. change (N.eqb c_amp c_lt) with false. rewrite N.eqb_refl. cbv iota.
  rewrite H. cbn [bind]. destruct (p_content fuel X) as [[l r]|]; reflexivity.
Qed.

Lemma pc_cdata fuel Y b X : scan_to s_cdata_close Y = Some (b, X) ->
  p_content (S fuel) (s_cdata_open ++ Y) = bind (p_content fuel X) (fun '(l, r) => Some (XCData b :: l, r)).
Proof.
  intros H. unfold s_cdata_open. cbn [app p_content]. change (N.eqb 60 c_lt) with true. cbv iota.
  change (starts s_etag_open (60%N :: 33%N :: 91%N :: 67%N :: 68%N :: 65%N :: 84%N :: 65%N :: 91%N :: Y)) with false. cbv iota.
  change (strip s_comment_open (60%N :: 33%N :: 91%N :: 67%N :: 68%N :: 65%N :: 84%N :: 65%N :: 91%N :: Y)) with (@None str).
  change (strip s_cdata_open (60%N :: 33%N :: 91%N :: 67%N :: 68%N :: 65%N :: 84%N :: 65%N :: 91%N :: Y)) with (Some Y).
  cbv iota. rewrite H. cbn [bind]. destruct (p_content fuel X) as [[l r]|]; reflexivity.
Qed.

Lemma scan_to_cdata run X : all_chars run = true -> existsb (N.eqb c_rbr) run = false ->
  scan_to s_cdata_close (run ++ s_cdata_close ++ X) = Some (run, X).
Proof.
  induction run as [|ch t IH]; intros Hc Hn.
  - cbn [app]. rewrite scan_to_eq, strip_app. reflexivity.
  - cbn [all_chars forallb] in Hc. apply andb_true_iff in Hc. destruct Hc as [Hcc Hct].
    cbn [existsb] in Hn. apply orb_false_iff in Hn. destruct Hn as [Hn1 Hn2].
    cbn [app]. rewrite scan_to_eq. unfold s_cdata_close at 1. cbn [strip]. fold c_rbr. rewrite Hn1.
    rewrite Hcc, (IH Hct Hn2). reflexivity.
Qed.

(** the characters of text-like items (a predefined entity reference stands for its character) *)
Definition predef_char (nm : str) : str :=
  if str_eqb nm s_lt then [c_lt] else if str_eqb nm s_gt then [c_gt] else if str_eqb nm s_amp then [c_amp]
  else if str_eqb nm s_apos then [c_apos] else if str_eqb nm s_quot then [c_quot] else [].

Fixpoint chars_of (l : list xcontent) : str :=
  match l with
  | [] => []
  | XChar ch :: t => ch :: chars_of t
  | XCData s :: t => s ++ chars_of t
  | XCharRef n :: t => n :: chars_of t
  | XEntRef nm :: t => predef_char nm ++ chars_of t
  | _ :: t => chars_of t
  end.

Lemma predef_char_name ch nm : predef_name ch = Some nm -> predef_char nm = [ch].
Proof.
  unfold predef_name.
  repeat (match goal with |- (if ?b then _ else _) = _ -> _ => destruct b eqn:?E; [apply N.eqb_eq in E; subst ch; intros H; injection H as <-; reflexivity|clear E] end).
  discriminate.
Qed.

Lemma esc_false prev ch : text_esc prev ch = false -> N.eqb ch c_lt = false /\ N.eqb ch c_amp = false.
Proof. unfold text_esc. intros H. repeat (apply orb_false_iff in H; destruct H as [H ?]). auto. Qed.

Lemma lit_starts f c p i ch t T : follow_ok T ->
  starts s_cdata_close (ch :: text_chars f c p (i + 1) ch t ++ T) = false.
Proof.
  intros HT. unfold s_cdata_close. rewrite starts_cons. fold c_rbr.
  destruct (N.eqb_spec c_rbr ch) as [<-|]; [|reflexivity]. cbn [andb].
  change [93%N; 62%N] with [c_rbr; c_gt]. now apply no_rbr_gt_start.
Qed.

Theorem text_reads_back : forall c p f i prev s, all_chars s = true -> length s <= f ->
  exists items n, chars_of items = s /\
    forall fuel T, follow_ok T ->
      p_content (n + fuel) (text_chars f c p i prev s ++ T) =
      bind (p_content fuel T) (fun '(l, r) => Some (items ++ l, r)).
Proof.
  intros c p. induction f as [|f IH]; intros i prev s Hc Hl.
  - destruct s; [|cbn in Hl; lia]. exists [], 0. split; [reflexivity|]. intros fuel T _. cbn [text_chars app Nat.add].
    destruct (p_content fuel T) as [[l r]|]; reflexivity.
  - destruct s as [|ch t].
    { exists [], 0. split; [reflexivity|]. intros fuel T _. cbn [text_chars app Nat.add].
      destruct (p_content fuel T) as [[l r]|]; reflexivity. }
    cbn [all_chars forallb] in Hc. apply andb_true_iff in Hc. destruct Hc as [Hch Hct]. cbn [length] in Hl.
    destruct (text_step f c p i prev ch t) as [u Hu|run rest Hs Hne Hnr Hncr].
    + (* a single character in one of five forms *)
      destruct (IH (i + 1)%N ch t Hct ltac:(lia)) as (items & n & Hitems & Hrun).
      assert (Hlitc : forall fuel T, follow_ok T -> text_esc prev ch = false ->
                p_content (S (n + fuel)) (ch :: text_chars f c p (i + 1) ch t ++ T) =
                bind (p_content fuel T) (fun '(l, r) => Some ((XChar ch :: items) ++ l, r))).
      { intros fuel T HT He. destruct (esc_false _ _ He) as [H1 H2].
        rewrite (pc_char _ ch _ Hch H1 H2 (lit_starts f c p i ch t T HT)). rewrite (Hrun fuel T HT).
        destruct (p_content fuel T) as [[l r]|]; reflexivity. }
      assert (Hrefc : forall k fuel T, follow_ok T ->
                p_content (S (n + fuel)) (char_ref k ch ++ text_chars f c p (i + 1) ch t ++ T) =
                bind (p_content fuel T) (fun '(l, r) => Some ((XCharRef ch :: items) ++ l, r))).
      { intros k fuel T HT. pose proof (char_ref_roundtrip k ch (text_chars f c p (i + 1) ch t ++ T) (isChar_bound ch Hch)) as Hr.
        assert (Hs : exists tl', char_ref k ch = c_amp :: tl') by (unfold char_ref; destruct (N.eqb (N.modulo k 2) 0); eexists; reflexivity).
        destruct Hs as [tl' Et]. rewrite Et in *. cbn [tl app] in *.
        rewrite (pc_ref _ _ _ _ Hr). rewrite (Hrun fuel T HT). destruct (p_content fuel T) as [[l r]|]; reflexivity. }
      inversion Hu as [He|k|nm Hn|He|k]; subst u.
      * exists (XChar ch :: items), (S n). split; [cbn [chars_of]; now rewrite Hitems|].
        intros fuel T HT. cbn [app Nat.add]. now apply Hlitc.
      * exists (XCharRef ch :: items), (S n). split; [cbn [chars_of]; now rewrite Hitems|].
        intros fuel T HT. cbn [Nat.add]. rewrite <- app_assoc. now apply Hrefc.
      * exists (XEntRef nm :: items), (S n). split; [cbn [chars_of]; now rewrite (predef_char_name _ _ Hn), Hitems|].
        intros fuel T HT. cbn [Nat.add]. unfold entity_ref. rewrite <- !app_assoc. cbn [app]. rewrite <- !app_assoc. cbn [app].
        pose proof (p_ref_entity nm (text_chars f c p (i + 1) ch t ++ T) (predef_name_Name _ _ Hn)) as Hr.
        rewrite (pc_ref _ _ _ _ Hr). rewrite (Hrun fuel T HT). destruct (p_content fuel T) as [[l r]|]; reflexivity.
      * exists (XCData [] :: XChar ch :: items), (S (S n)). split; [cbn [chars_of app]; now rewrite Hitems|].
        intros fuel T HT. cbn [Nat.add]. rewrite <- !app_assoc.
        rewrite (pc_cdata _ _ [] ([ch] ++ text_chars f c p (i + 1) ch t ++ T))
          by (rewrite scan_to_eq, strip_app; reflexivity).
        cbn [app]. rewrite (Hlitc fuel T HT He). destruct (p_content fuel T) as [[l r]|]; reflexivity.
      * exists (XCData [] :: XCharRef ch :: items), (S (S n)). split; [cbn [chars_of app]; now rewrite Hitems|].
        intros fuel T HT. cbn [Nat.add]. rewrite <- !app_assoc.
        rewrite (pc_cdata _ _ [] (char_ref k ch ++ text_chars f c p (i + 1) ch t ++ T))
          by (rewrite scan_to_eq, strip_app; reflexivity).
        rewrite (Hrefc k fuel T HT). destruct (p_content fuel T) as [[l r]|]; reflexivity.
    + (* a CDATA section around a run *)
      assert (Hall : all_chars (run ++ rest) = true) by (rewrite <- Hs; cbn [all_chars forallb]; now rewrite Hch).
      unfold all_chars in Hall. rewrite forallb_app in Hall. apply andb_true_iff in Hall. destruct Hall as [Har Hrest].
      assert (Hlen : length rest <= f).
      { assert (length (ch :: t) = length (run ++ rest)) by now rewrite Hs. rewrite app_length in H. cbn [length] in H.
        destruct run; [now elim Hne|cbn [length] in H; lia]. }
      destruct (IH (i + N.of_nat (length run))%N (last run ch) rest Hrest Hlen) as (items & n & Hitems & Hrun).
      exists (XCData run :: items), (S n). split; [cbn [chars_of]; now rewrite Hitems|].
      intros fuel T HT. cbn [Nat.add]. rewrite <- !app_assoc.
      rewrite (pc_cdata _ _ run (text_chars f c p (i + N.of_nat (length run)) (last run ch) rest ++ T))
        by (apply scan_to_cdata; assumption).
      rewrite (Hrun fuel T HT). destruct (p_content fuel T) as [[l r]|]; reflexivity.
Qed.
(** ** [40] [44] tags: the rendered attribute list is read back by [p_atts] *)
Lemma skipS_run a r : forallb isS a = true -> match r with [] => True | x :: _ => isS x = false end ->
  skipS (a ++ r) = r.
Proof.
  intros Ha Hr. unfold skipS. destruct r as [|x r].
  - rewrite app_nil_r, (span_all_nil _ a Ha). reflexivity.
  - rewrite (span_all_stop _ a x r Ha Hr). reflexivity.
Qed.

Lemma S0_S c p : forallb isS (S0 c p) = true.
Proof. apply ws_run_S. Qed.
Lemma S1_S c p : forallb isS (S1 c p) = true.
Proof. apply ws_run_S. Qed.
Lemma S1_ne c p : S1 c p <> [].
Proof. unfold S1. cbn [ws_run]. discriminate. Qed.

Lemma name_head nm : is_Name nm = true -> exists x t, nm = x :: t /\ eval spec_NameStartChar x = true.
Proof. unfold is_Name. destruct nm as [|x t]; [discriminate|]. intros H. apply andb_true_iff in H. exists x, t. tauto. Qed.

Lemma nsc_facts x : eval spec_NameStartChar x = true ->
  isS x = false /\ N.eqb x c_gt = false /\ N.eqb x c_slash = false /\ N.eqb x c_eq = false.
Proof.
  intros H. repeat split.
  - destruct (isS x) eqn:E; [|reflexivity]. destruct (isS_cases x E) as [-> | [-> | [-> | ->]]]; discriminate.
  - destruct (N.eqb_spec x c_gt) as [->|]; [discriminate|reflexivity].
  - destruct (N.eqb_spec x c_slash) as [->|]; [discriminate|reflexivity].
  - destruct (N.eqb_spec x c_eq) as [->|]; [discriminate|reflexivity].
Qed.

Lemma att_literal_head c p v : exists q t, att_literal c p v = q :: t /\ isQuote q = true.
Proof. unfold att_literal. destruct (N.eqb _ _); eexists; eexists; split; reflexivity. Qed.

Lemma isQuote_not_S q : isQuote q = true -> isS q = false.
Proof. unfold isQuote. intros H. apply orb_true_iff in H. destruct H as [H|H]; apply N.eqb_eq in H; subst q; reflexivity. Qed.

(** [25] Eq as rendered *)
Lemma p_Eq_render c p r : match r with [] => True | x :: _ => isS x = false end -> p_Eq (Eq_ c p ++ r) = Some r.
Proof.
  intros Hr. unfold Eq_, p_Eq. rewrite <- app_assoc. cbn [app].
  assert (E1 : skipS (S0 c (0%N :: p) ++ c_eq :: S0 c (1%N :: p) ++ r) = c_eq :: S0 c (1%N :: p) ++ r)
    by (apply skipS_run; [apply S0_S|reflexivity]).
  assert (E2 : skipS (S0 c (1%N :: p) ++ r) = r) by (apply skipS_run; [apply S0_S|exact Hr]).
  unfold str, char in *. rewrite E1. rewrite N.eqb_refl. now rewrite E2.
Qed.

(** general fuel for a literal *)
Lemma att_literal_reads_back_fuel c p v : items_ok v = true ->
  exists q, quote q /\ forall rest extra,
    p_AttValue (S (items_size v) + extra) (att_literal c p v ++ rest) = Some (items_pieces q c (1%N :: p) 0 v, rest).
Proof.
  intros Hok. unfold att_literal.
  set (q := if (c (0%N :: p) mod 2 =? 0)%N then c_quot else c_apos).
  assert (Hq : quote q) by (unfold q, quote; destruct (N.eqb _ _); auto).
  exists q. split; [exact Hq|]. intros rest extra. cbn [app]. unfold p_AttValue.
  assert (Hiq : isQuote q = true) by (destruct Hq as [-> | ->]; reflexivity). rewrite Hiq.
  rewrite <- app_assoc. cbn [app].
  replace (S (items_size v) + extra) with (items_size v + S extra) by lia.
  etransitivity; [exact (lit_items_read q c (1%N :: p) Hq v 0%N (q :: rest) (S extra) Hok)|].
  cbn [p_pieces]. rewrite N.eqb_refl. cbn [bind]. now rewrite app_nil_r.
Qed.

Definition att_ok (a : str * list aitem) : bool := is_Name (fst a) && items_ok (snd a).

Definition render_att (c : choices) (p : list N) (ia : nat * (str * list aitem)) : str :=
  let q := N.of_nat (fst ia) :: 1%N :: p in
  S1 c (0%N :: q) ++ fst (snd ia) ++ Eq_ c (1%N :: q) ++ att_literal c (2%N :: q) (snd (snd ia)).

Fixpoint atts_size (l : list (nat * (str * list aitem))) : nat :=
  match l with [] => 1 | ia :: t => S (S (items_size (snd (snd ia)))) + atts_size t end.

(** [closing] is ">" or "/>" *)
Lemma p_atts_render c p : forall l,
  forallb (fun ia => att_ok (snd ia)) l = true ->
  exists parsed, map fst parsed = map (fun ia => fst (snd ia)) l /\
    forall closing e rest extra,
    (closing = [c_gt] /\ e = false) \/ (closing = s_empty_close /\ e = true) ->
    p_atts (atts_size l + extra) (flat_map (render_att c p) l ++ S0 c (2%N :: p) ++ closing ++ rest) = Some (parsed, e, rest).
Proof.
  induction l as [|ia l IH]; intros Hok.
  - exists []. split; [reflexivity|]. intros closing e rest extra Hcl. cbn [flat_map app atts_size Nat.add p_atts].
    rewrite (skipS_run (S0 c (2%N :: p)) (closing ++ rest) (S0_S _ _))
      by (destruct Hcl as [[-> _]|[-> _]]; reflexivity).
    destruct Hcl as [[-> ->]|[-> ->]]; reflexivity.
  - cbn [forallb] in Hok. apply andb_true_iff in Hok. destruct Hok as [Ha Hl].
    unfold att_ok in Ha. apply andb_true_iff in Ha. destruct Ha as [Hn Hv].
    destruct ia as [k [nm v]]. cbn [fst snd] in *.
    pose proof Hn as Hname. destruct (name_head nm Hname) as (x & t & -> & Hx).
    destruct (nsc_facts x Hx) as (HxS & Hxgt & Hxsl & Hxeq).
    set (q := N.of_nat k :: 1%N :: p).
    destruct (IH Hl) as (parsed & Hp1 & Hp2).
    destruct (att_literal_head c (2%N :: q) v) as (qc & lt & Elit & Hqc).
    destruct (att_literal_reads_back_fuel c (2%N :: q) v Hv) as (q' & Hq' & Hval).
    exists (((x :: t), items_pieces q' c (1%N :: 2%N :: q) 0 v) :: parsed). split; [cbn [map fst]; now rewrite Hp1|].
    intros closing e rest extra Hcl.
    specialize (Hp2 closing e rest (extra + S (items_size v)) Hcl).
    set (R := flat_map (render_att c p) l ++ S0 c (2%N :: p) ++ closing ++ rest) in *.
    specialize (Hval R (atts_size l + extra)).
    cbn [flat_map atts_size]. unfold render_att at 1. cbn [fst snd]. fold q.
    rewrite <- !app_assoc. fold R.
    replace (S (S (items_size v)) + atts_size l + extra) with (S (S (items_size v) + (atts_size l + extra))) by lia.
    cbn [p_atts].
    assert (Hskip : skipS (S1 c (0%N :: q) ++ (x :: t) ++ Eq_ c (1%N :: q) ++ att_literal c (2%N :: q) v ++ R)
                    = (x :: t) ++ Eq_ c (1%N :: q) ++ att_literal c (2%N :: q) v ++ R)
      by (apply skipS_run; [apply S1_S|exact HxS]).
    assert (HpS : exists r', p_S (S1 c (0%N :: q) ++ (x :: t) ++ Eq_ c (1%N :: q) ++ att_literal c (2%N :: q) v ++ R) = Some r').
    { eexists. apply (p_S_run (S1 c (0%N :: q))); [apply S1_ne|apply S1_S|exact HxS]. }
    destruct HpS as [r' HpS].
    assert (En : p_Name ((x :: t) ++ Eq_ c (1%N :: q) ++ att_literal c (2%N :: q) v ++ R)
                 = Some (x :: t, Eq_ c (1%N :: q) ++ att_literal c (2%N :: q) v ++ R)).
    { apply p_Name_app; [exact Hname|]. unfold Eq_. rewrite <- app_assoc.
      destruct (S0 c (0%N :: 1%N :: q)) as [|w ws] eqn:Ew; cbn [app stops_name]; [reflexivity|].
      apply isS_not_namechar. pose proof (S0_S c (0%N :: 1%N :: q)) as HS. rewrite Ew in HS. cbn [forallb] in HS.
      apply andb_true_iff in HS. tauto. }
    assert (HEq : p_Eq (Eq_ c (1%N :: q) ++ att_literal c (2%N :: q) v ++ R) = Some (att_literal c (2%N :: q) v ++ R)).
    { apply p_Eq_render. rewrite Elit. cbn [app]. now apply isQuote_not_S. }
    assert (Hfuel : S (items_size v) + (atts_size l + extra) = atts_size l + (extra + S (items_size v))) by lia.
    cbn [app] in *. unfold str, char in *. rewrite Hskip. rewrite Hxgt, Hxsl. rewrite HpS. rewrite En. cbn [bind].
    rewrite HEq. cbn [bind]. rewrite Hval. cbn [bind]. rewrite Hfuel, Hp2. reflexivity.
Qed.

(** ** [16] PI body with its content, [15] comment body: steps of [p_content] *)
Lemma pi_body_render c p t d rest : pi_ok t d = true ->
  p_pi_body (t ++ match d with None => [] | Some x => S1 c p ++ x end ++ s_pi_close ++ rest) = Some (t, d, rest).
Proof.
  intros H. unfold pi_ok in H.
  apply andb_true_iff in H. destruct H as [H Hd]. apply andb_true_iff in H. destruct H as [Ht _].
  unfold is_PITarget in Ht. apply andb_true_iff in Ht. destruct Ht as [Hn Hx]. apply negb_true_iff in Hx.
  unfold p_pi_body. destruct d as [x|].
  - apply andb_true_iff in Hd. destruct Hd as [Hd Hh]. apply andb_true_iff in Hd. destruct Hd as [Hd Hp].
    apply andb_true_iff in Hd. destruct Hd as [Hc _]. apply negb_true_iff in Hp.
    rewrite <- !app_assoc.
    pose proof (S1_ne c p) as Hne. pose proof (S1_S c p) as Hall.
    assert (Hhead : exists w ws, S1 c p = w :: ws /\ isS w = true).
    { destruct (S1 c p) as [|w ws]; [now elim Hne|]. cbn [forallb] in Hall. apply andb_true_iff in Hall. exists w, ws. tauto. }
    destruct Hhead as (w & ws & Ew & Hw).
    assert (En : p_Name (t ++ S1 c p ++ x ++ s_pi_close ++ rest) = Some (t, S1 c p ++ x ++ s_pi_close ++ rest)).
    { apply p_Name_app; [exact Hn|]. rewrite Ew. cbn [app stops_name]. now apply isS_not_namechar. }
    assert (Hst : strip s_pi_close (S1 c p ++ x ++ s_pi_close ++ rest) = None).
    { rewrite Ew. cbn [app]. unfold s_pi_close. cbn [strip]. destruct (isS_cases w Hw) as [-> | [-> | [-> | ->]]]; reflexivity. }
    assert (HS : p_S (S1 c p ++ x ++ s_pi_close ++ rest) = Some (x ++ s_pi_close ++ rest)).
    { apply p_S_run; [exact Hne|exact Hall|]. destruct x as [|y x]; [reflexivity|]. cbn [app]. now apply negb_true_iff in Hh. }
    pose proof (scan_to_pi_close x rest Hc Hp) as Hsc.
    unfold str, char in *. rewrite En. cbn [bind]. rewrite Hx, Hst, HS. cbn [bind].
    rewrite Hsc. reflexivity.
  - cbn [app].
    assert (En : p_Name (t ++ s_pi_close ++ rest) = Some (t, s_pi_close ++ rest)).
    { apply p_Name_app; [exact Hn|]. reflexivity. }
    unfold str, char in *. rewrite En. cbn [bind]. rewrite Hx. rewrite strip_app. reflexivity.
Qed.

Lemma pc_comment fuel s X : comment_ok s = true ->
  p_content (S fuel) (render_comment s ++ X) = bind (p_content fuel X) (fun '(l, r) => Some (XComment s :: l, r)).
Proof.
  intros H. unfold comment_ok in H.
  apply andb_true_iff in H. destruct H as [H He]. apply andb_true_iff in H. destruct H as [H Hd].
  apply andb_true_iff in H. destruct H as [Hc _]. apply negb_true_iff in Hd, He.
  pose proof (comment_body_render (length s) s (le_n _) Hc Hd He X) as Hb.
  unfold render_comment. rewrite <- !app_assoc. unfold s_comment_open. cbn [app p_content].
  change (N.eqb 60 c_lt) with true. cbv iota.
  change (starts s_etag_open (60%N :: 33%N :: 45%N :: 45%N :: s ++ s_comment_close ++ X)) with false. cbv iota.
  change (strip s_comment_open (60%N :: 33%N :: 45%N :: 45%N :: s ++ s_comment_close ++ X)) with (Some (s ++ s_comment_close ++ X)).
  cbv iota. unfold str, char in *. rewrite Hb. cbn [bind]. destruct (p_content fuel X) as [[l r]|]; reflexivity.
Qed.

Lemma pc_pi fuel c p t d X : pi_ok t d = true ->
  p_content (S fuel) (render_pi c p t d ++ X) = bind (p_content fuel X) (fun '(l, r) => Some (XPI t d :: l, r)).
Proof.
  intros H. pose proof (pi_body_render c p t d X H) as Hb.
  unfold render_pi. rewrite <- !app_assoc. unfold s_pi_open. cbn [app p_content].
  change (N.eqb 60 c_lt) with true. cbv iota.
  set (Y := t ++ match d with None => [] | Some x => S1 c p ++ x end ++ s_pi_close ++ X) in *.
  change (starts s_etag_open (60%N :: 63%N :: Y)) with false. cbv iota.
  change (strip s_comment_open (60%N :: 63%N :: Y)) with (@None str).
  change (strip s_cdata_open (60%N :: 63%N :: Y)) with (@None str).
  change (strip s_pi_open (60%N :: 63%N :: Y)) with (Some Y).
  cbv iota. unfold str, char in *. rewrite Hb. cbn [bind]. destruct (p_content fuel X) as [[l r]|]; reflexivity.
Qed.

Lemma pc_entref fuel nm X : is_Name nm = true ->
  p_content (S fuel) (entity_ref nm ++ X) = bind (p_content fuel X) (fun '(l, r) => Some (XEntRef nm :: l, r)).
Proof.
  intros H. unfold entity_ref. cbn [app]. rewrite <- app_assoc. cbn [app].
  exact (pc_ref fuel _ _ _ (p_ref_entity nm X H)).
Qed.

(** ** [39] [43] elements and content *)
Fixpoint syn_ok (x : anode) : bool :=
  match x with
  | AText s => all_chars s
  | ARef nm => is_Name nm
  | AComment s => comment_ok s
  | API t d => pi_ok t d
  | AElem nm atts kids => is_Name nm && forallb att_ok atts && forallb syn_ok kids && no_adjacent_text kids
  end.

Fixpoint render_kids (c : choices) (p : list N) (i : N) (l : list anode) : str :=
  match l with [] => [] | y :: t => render_node c (i :: 5%N :: p) y ++ render_kids c p (i + 1) t end.

Definition render_open (c : choices) (p : list N) (nm : str) (atts : list (str * list aitem)) : str :=
  c_lt :: nm ++ flat_map (render_att c p) (permute c (0%N :: p) 0 (combine (seq 0 (length atts)) atts) []) ++ S0 c (2%N :: p).

Lemma kids_fix c p : forall l i,
  (fix go (i : N) (l : list anode) : str :=
     match l with [] => [] | y :: t => render_node c (i :: 5%N :: p) y ++ go (i + 1)%N t end) i l = render_kids c p i l.
Proof. induction l as [|y t IH]; intros i; [reflexivity|]. cbn [render_kids]. now rewrite <- IH. Qed.

Lemma render_node_elem c p nm atts kids : render_node c p (AElem nm atts kids) =
  match kids with
  | [] => if (c (3%N :: p) mod 2 =? 0)%N then render_open c p nm atts ++ s_empty_close
          else render_open c p nm atts ++ [c_gt] ++ s_etag_open ++ nm ++ S0 c (4%N :: p) ++ [c_gt]
  | _ => render_open c p nm atts ++ [c_gt] ++ render_kids c p 0 kids ++ s_etag_open ++ nm ++ S0 c (4%N :: p) ++ [c_gt]
  end.
Proof.
  cbn [render_node]. destruct kids as [|y t]; [reflexivity|].
  rewrite <- (kids_fix c p (y :: t) 0%N). reflexivity.
Qed.

(** permutations keep the attribute conditions *)
Lemma forallb_insert_at {A} (P : A -> bool) n x l : forallb P (insert_at n x l) = (P x && forallb P l)%bool.
Proof.
  revert l; induction n as [|n IH]; intros l; [reflexivity|]. destruct l as [|y t]; cbn [insert_at forallb].
  - reflexivity.
  - rewrite IH. destruct (P x), (P y); reflexivity.
Qed.

Lemma forallb_permute {A} (P : A -> bool) c p : forall l i acc,
  forallb P (permute c p i l acc) = (forallb P l && forallb P acc)%bool.
Proof.
  induction l as [|x t IH]; intros i acc; cbn [permute forallb]; [reflexivity|].
  rewrite IH, forallb_insert_at. destruct (P x), (forallb P t), (forallb P acc); reflexivity.
Qed.

Lemma forallb_combine_snd {A B} (P : B -> bool) : forall (s : list A) (l : list B),
  forallb P l = true -> forallb (fun ia => P (snd ia)) (combine s l) = true.
Proof.
  induction s as [|a s IH]; intros l H; [reflexivity|]. destruct l as [|b l]; [reflexivity|].
  cbn [combine forallb fst snd] in *. apply andb_true_iff in H. destruct H as [-> H]. now apply IH.
Qed.

Lemma nsc_facts2 x : eval spec_NameStartChar x = true ->
  N.eqb x c_bang = false /\ N.eqb x c_qm = false /\ N.eqb x c_slash = false.
Proof.
  intros H. repeat split.
  - destruct (N.eqb_spec x c_bang) as [->|]; [discriminate|reflexivity].
  - destruct (N.eqb_spec x c_qm) as [->|]; [discriminate|reflexivity].
  - destruct (N.eqb_spec x c_slash) as [->|]; [discriminate|reflexivity].
Qed.

(** the tag, read by [p_tag]: [closing] is ">" or "/>" *)
Lemma p_tag_render c p nm atts :
  is_Name nm = true -> forallb att_ok atts = true ->
  exists parsed, forall closing e rest extra,
    (closing = [c_gt] /\ e = false) \/ (closing = s_empty_close /\ e = true) ->
    p_tag (atts_size (permute c (0%N :: p) 0 (combine (seq 0 (length atts)) atts) []) + extra)
          (tl (render_open c p nm atts) ++ closing ++ rest) = Some (nm, parsed, e, rest).
Proof.
  intros Hn Ha. unfold render_open. cbn [tl].
  set (atts' := permute c (0%N :: p) 0 (combine (seq 0 (length atts)) atts) []).
  assert (Ha' : forallb (fun ia => att_ok (snd ia)) atts' = true).
  { unfold atts'. rewrite forallb_permute. cbn [forallb]. rewrite andb_true_r. now apply forallb_combine_snd. }
  destruct (p_atts_render c p atts' Ha') as (parsed & _ & Hp).
  exists parsed. intros closing e rest extra Hcl. specialize (Hp closing e rest extra Hcl).
  unfold p_tag. rewrite <- !app_assoc.
  assert (En : p_Name (nm ++ flat_map (render_att c p) atts' ++ S0 c (2%N :: p) ++ closing ++ rest)
               = Some (nm, flat_map (render_att c p) atts' ++ S0 c (2%N :: p) ++ closing ++ rest)).
  { apply p_Name_app; [exact Hn|].
    destruct atts' as [|ia l].
    - cbn [flat_map app]. destruct (S0 c (2%N :: p)) as [|w ws] eqn:Ew.
      + cbn [app]. destruct Hcl as [[-> _]|[-> _]]; reflexivity.
      + cbn [app stops_name]. apply isS_not_namechar. pose proof (S0_S c (2%N :: p)) as HS. rewrite Ew in HS.
        cbn [forallb] in HS. apply andb_true_iff in HS. tauto.
    - cbn [flat_map]. unfold render_att at 1. rewrite <- !app_assoc.
      destruct (S1 c (0%N :: N.of_nat (fst ia) :: 1%N :: p)) as [|w ws] eqn:Ew; [now elim (S1_ne c (0%N :: N.of_nat (fst ia) :: 1%N :: p))|].
      cbn [app stops_name]. apply isS_not_namechar. pose proof (S1_S c (0%N :: N.of_nat (fst ia) :: 1%N :: p)) as HS. rewrite Ew in HS.
      cbn [forallb] in HS. apply andb_true_iff in HS. tauto. }
  unfold str, char in *. rewrite En. cbn [bind]. rewrite Hp. reflexivity.
Qed.

Lemma pc_elem f x t Y item r : eval spec_NameStartChar x = true ->
  p_element_with (p_content f) f ((x :: t) ++ Y) = Some (item, r) ->
  p_content (S f) (c_lt :: (x :: t) ++ Y) = bind (p_content f r) (fun '(l, rest) => Some (item :: l, rest)).
Proof.
  intros Hx He. destruct (nsc_facts2 x Hx) as (Hb & Hq & Hs).
  cbn [app p_content]. rewrite N.eqb_refl. cbv iota.
  assert (H1 : starts s_etag_open (c_lt :: x :: t ++ Y) = false).
  { unfold starts, s_etag_open. cbn [strip]. change (N.eqb 60 c_lt) with true. cbv iota. rewrite (N.eqb_sym 47 x). fold c_slash. now rewrite Hs. }
  assert (H2 : strip s_comment_open (c_lt :: x :: t ++ Y) = None).
  { unfold s_comment_open. cbn [strip]. change (N.eqb 60 c_lt) with true. cbv iota. rewrite (N.eqb_sym 33 x). fold c_bang. now rewrite Hb. }
  assert (H3 : strip s_cdata_open (c_lt :: x :: t ++ Y) = None).
  { unfold s_cdata_open. cbn [strip]. change (N.eqb 60 c_lt) with true. cbv iota. rewrite (N.eqb_sym 33 x). fold c_bang. now rewrite Hb. }
  assert (H4 : strip s_pi_open (c_lt :: x :: t ++ Y) = None).
  { unfold s_pi_open. cbn [strip]. change (N.eqb 60 c_lt) with true. cbv iota. rewrite (N.eqb_sym 63 x). fold c_qm. now rewrite Hq. }
  cbn [app] in He. unfold str, char in *. rewrite H1, H2, H3, H4, He. cbn [bind]. reflexivity.
Qed.

Lemma p_etag_render c p nm T : is_Name nm = true -> p_etag (nm ++ S0 c p ++ [c_gt] ++ T) = Some (nm, T).
Proof.
  intros Hn. unfold p_etag.
  assert (En : p_Name (nm ++ S0 c p ++ [c_gt] ++ T) = Some (nm, S0 c p ++ [c_gt] ++ T)).
  { apply p_Name_app; [exact Hn|]. destruct (S0 c p) as [|w ws] eqn:Ew; [reflexivity|].
    cbn [app stops_name]. apply isS_not_namechar. pose proof (S0_S c p) as HS. rewrite Ew in HS. cbn [forallb] in HS.
    apply andb_true_iff in HS. tauto. }
  assert (Es : skipS (S0 c p ++ [c_gt] ++ T) = [c_gt] ++ T) by (apply skipS_run; [apply S0_S|reflexivity]).
  unfold str, char in *. rewrite En. cbn [bind]. rewrite Es. cbn [app]. now rewrite N.eqb_refl.
Qed.

Lemma pc_etag_stop fuel Y : p_content (S fuel) (s_etag_open ++ Y) = Some ([], s_etag_open ++ Y).
Proof. reflexivity. Qed.

Lemma render_head c p y : match y with AText _ => False | _ => True end ->
  exists h r, render_node c p y = h :: r /\ (h = c_lt \/ h = c_amp).
Proof.
  destruct y as [s|nm|s|t d|nm atts kids]; intros H; try now elim H.
  - exists c_amp, (nm ++ [c_semi]). auto.
  - eexists; eexists; split; [reflexivity|auto].
  - eexists; eexists; split; [reflexivity|auto].
  - rewrite render_node_elem. unfold render_open.
    destruct kids; [destruct (N.eqb _ _)|]; eexists; eexists; (split; [reflexivity|auto]).
Qed.

Lemma follow_of_head h r : h = c_lt \/ h = c_amp -> follow_ok (h :: r).
Proof. intros H; exact H. Qed.

(** induction on abstract nodes with the children *)
Lemma anode_ind2 (P : anode -> Prop) :
  (forall s, P (AText s)) -> (forall nm, P (ARef nm)) -> (forall s, P (AComment s)) -> (forall t d, P (API t d)) ->
  (forall nm atts kids, Forall P kids -> P (AElem nm atts kids)) -> forall x, P x.
Proof.
  intros H1 H2 H3 H4 H5. fix F 1. intros [s|nm|s|t d|nm atts kids]; [apply H1|apply H2|apply H3|apply H4|].
  apply H5. induction kids as [|y l IH]; constructor; [apply F|exact IH].
Qed.

Definition parses (c : choices) (p : list N) (x : anode) : Prop :=
  exists items n m, forall fuel T, match x with AText _ => follow_ok T | _ => True end ->
    p_content (n + fuel) (render_node c p x ++ T) =
    bind (p_content (m + fuel) T) (fun '(l, r) => Some (items ++ l, r)).

Lemma kids_parse c p : forall kids, Forall (fun y => syn_ok y = true -> forall c p, parses c p y) kids ->
  forallb syn_ok kids = true -> no_adjacent_text kids = true -> forall i,
  exists items n m, forall fuel T, follow_ok T ->
    p_content (n + fuel) (render_kids c p i kids ++ T) =
    bind (p_content (m + fuel) T) (fun '(l, r) => Some (items ++ l, r)).
Proof.
  induction kids as [|y t IH]; intros HF Hok Hadj i.
  - exists [], 0, 0. intros fuel T _. cbn [render_kids app Nat.add]. destruct (p_content fuel T) as [[l r]|]; reflexivity.
  - inversion HF as [|y' t' Hy Ht]; subst. cbn [forallb] in Hok. apply andb_true_iff in Hok. destruct Hok as [Hoy Hot].
    assert (Hadj_t : no_adjacent_text t = true).
    { destruct y; cbn [no_adjacent_text] in Hadj; try exact Hadj. destruct t as [|z t']; [reflexivity|]. destruct z; try exact Hadj; discriminate. }
    destruct (IH Ht Hot Hadj_t (i + 1)%N) as (its & nt & mt & Ht').
    destruct (Hy Hoy c (i :: 5%N :: p)) as (iy & ny & my & Hy').
    exists (iy ++ its), (ny + nt), (mt + my). intros fuel T HT. cbn [render_kids]. rewrite <- app_assoc.
    replace (ny + nt + fuel) with (ny + (nt + fuel)) by lia.
    rewrite Hy'.
    + replace (my + (nt + fuel)) with (nt + (my + fuel)) by lia. rewrite (Ht' (my + fuel) T HT).
      replace (mt + (my + fuel)) with (mt + my + fuel) by lia.
      destruct (p_content (mt + my + fuel) T) as [[l r]|]; cbn [bind]; [now rewrite app_assoc|reflexivity].
    + destruct y as [s| | | |]; try exact I.
      destruct t as [|z t']; [cbn [render_kids app]; exact HT|].
      assert (Hz : match z with AText _ => False | _ => True end) by (destruct z; try exact I; discriminate).
      destruct (render_head c ((i + 1)%N :: 5%N :: p) z Hz) as (h & r & Eh & Hh).
      cbn [render_kids]. rewrite Eh. cbn [app]. exact Hh.
Qed.

Theorem node_parses : forall x, syn_ok x = true -> forall c p, parses c p x.
Proof.
  induction x as [s|nm|s|t d|nm atts kids IHk] using anode_ind2; intros Hok c p; unfold parses; cbn [syn_ok] in Hok.
  - (* character data *)
    destruct (text_reads_back c p (S (length s)) 0%N c_rbr s Hok ltac:(lia)) as (items & n & _ & Hrun).
    exists items, n, 0. intros fuel T HT. cbn [render_node Nat.add]. now apply Hrun.
  - exists [XEntRef nm], 1, 0. intros fuel T _. cbn [render_node Nat.add app]. now apply pc_entref.
  - exists [XComment s], 1, 0. intros fuel T _. cbn [render_node Nat.add app]. now apply pc_comment.
  - exists [XPI t d], 1, 0. intros fuel T _. cbn [render_node Nat.add app]. now apply pc_pi.
  - (* element *)
    apply andb_true_iff in Hok. destruct Hok as [Hok Hadj]. apply andb_true_iff in Hok. destruct Hok as [Hok Hkids].
    apply andb_true_iff in Hok. destruct Hok as [Hn Hatts].
    destruct (name_head nm Hn) as (x & t & -> & Hx).
    set (A := atts_size (permute c (0%N :: p) 0 (combine (seq 0 (length atts)) atts) [])).
    destruct (kids_parse c p kids IHk Hkids Hadj 0%N) as (kitems & nk & mk & Hk).
    destruct (p_tag_render c p (x :: t) atts Hn Hatts) as (parsed & Htag). fold A in Htag.
    rewrite render_node_elem.
    set (after := flat_map (render_att c p) (permute c (0%N :: p) 0 (combine (seq 0 (length atts)) atts) []) ++ S0 c (2%N :: p)).
    assert (Hopen : forall Z, render_open c p (x :: t) atts ++ Z = c_lt :: (x :: t) ++ (after ++ Z)).
    { intros Z. unfold render_open, after. cbn [app]. now rewrite <- !app_assoc. }
    assert (Htl : forall Z, tl (render_open c p (x :: t) atts) ++ Z = (x :: t) ++ (after ++ Z)).
    { intros Z. unfold render_open, after. cbn [tl app]. now rewrite <- !app_assoc. }
    (* the start/end pair around some content K whose parse is known *)
    assert (Hpair : forall K items' n' m', 
              (forall fuel T, follow_ok T -> p_content (n' + fuel) (K ++ T) = bind (p_content (m' + fuel) T) (fun '(l, r) => Some (items' ++ l, r))) ->
              forall fuel T,
              p_content (S (A + n' + S fuel)) ((render_open c p (x :: t) atts ++ [c_gt] ++ K ++ s_etag_open ++ (x :: t) ++ S0 c (4%N :: p) ++ [c_gt]) ++ T) =
              bind (p_content (A + n' + S fuel) T) (fun '(l, r) => Some ([XElem (x :: t) parsed (Some (x :: t)) items'] ++ l, r))).
    { intros K items' n' m' HK fuel T. rewrite <- !app_assoc. rewrite Hopen.
      rewrite (pc_elem (A + n' + S fuel) x t _ (XElem (x :: t) parsed (Some (x :: t)) items') T Hx).
      - destruct (p_content (A + n' + S fuel) T) as [[l r]|]; reflexivity.
      - unfold p_element_with. rewrite <- Htl.
        pose proof (Htag [c_gt] false (K ++ s_etag_open ++ (x :: t) ++ S0 c (4%N :: p) ++ [c_gt] ++ T) (n' + S fuel) (or_introl (conj eq_refl eq_refl))) as Ht.
        replace (A + (n' + S fuel)) with (A + n' + S fuel) in Ht by lia.
        pose proof (HK (A + S fuel) (s_etag_open ++ (x :: t) ++ S0 c (4%N :: p) ++ [c_gt] ++ T) (or_introl eq_refl)) as Hk2.
        replace (n' + (A + S fuel)) with (A + n' + S fuel) in Hk2 by lia.
        replace (m' + (A + S fuel)) with (S (m' + A + fuel)) in Hk2 by lia. rewrite pc_etag_stop in Hk2. cbn [bind] in Hk2. rewrite app_nil_r in Hk2.
        pose proof (p_etag_render c (4%N :: p) (x :: t) T Hn) as Het.
        pose proof (strip_app s_etag_open ((x :: t) ++ S0 c (4%N :: p) ++ [c_gt] ++ T)) as Hst.
        unfold str, char in *. rewrite Ht. cbn [bind]. rewrite Hk2. cbn [bind]. rewrite Hst. cbn [bind]. rewrite Het. reflexivity. }
    destruct kids as [|k0 kids'].
    + destruct (N.eqb (N.modulo (c (3%N :: p)) 2) 0).
      * (* empty-element tag *)
        exists [XElem (x :: t) parsed None []], (S A), A. intros fuel T _. rewrite <- !app_assoc. rewrite Hopen.
        rewrite (pc_elem (A + fuel) x t _ (XElem (x :: t) parsed None []) T Hx).
        -- destruct (p_content (A + fuel) T) as [[l r]|]; reflexivity.
        -- unfold p_element_with. rewrite <- Htl.
           pose proof (Htag s_empty_close true T fuel (or_intror (conj eq_refl eq_refl))) as Ht.
           unfold str, char in *. rewrite Ht. reflexivity.
      * (* start tag immediately followed by the end tag *)
        exists [XElem (x :: t) parsed (Some (x :: t)) []], (S (A + 0 + 1)), (A + 0 + 1). intros fuel T _.
        replace (S (A + 0 + 1) + fuel) with (S (A + 0 + S fuel)) by lia. replace (A + 0 + 1 + fuel) with (A + 0 + S fuel) by lia.
        apply (Hpair [] [] 0 0). intros fuel' T' _. cbn [app Nat.add]. destruct (p_content fuel' T') as [[l r]|]; reflexivity.
    + exists [XElem (x :: t) parsed (Some (x :: t)) kitems], (S (A + nk + 1)), (A + nk + 1). intros fuel T _.
      replace (S (A + nk + 1) + fuel) with (S (A + nk + S fuel)) by lia. replace (A + nk + 1 + fuel) with (A + nk + S fuel) by lia.
      apply (Hpair (render_kids c p 0 (k0 :: kids')) kitems nk mk). exact Hk.
Qed.

(** ** the lexical conditions of [valid] imply the ones used above *)
Lemma split_colon_app nm : forall p l, split_colon nm = Some (p, l) -> nm = p ++ colon :: l.
Proof.
  induction nm as [|ch t IH]; intros p l E; cbn [split_colon] in E; [discriminate|].
  destruct (N.eqb_spec ch colon) as [->|Hc]; [injection E as <- <-; reflexivity|].
  destruct (split_colon t) as [[p' l']|]; [|discriminate]. injection E as <- <-. cbn [app]. f_equal. now apply IH.
Qed.

Lemma forallb_app_true {A} (f : A -> bool) a b : forallb f a = true -> forallb f b = true -> forallb f (a ++ b) = true.
Proof. intros Ha Hb. induction a as [|x a IH]; [exact Hb|]. cbn [forallb app] in *. apply andb_true_iff in Ha. destruct Ha as [-> Ha]. now apply IH. Qed.

Lemma NCName_Name nm : is_NCName nm = true -> is_Name nm = true.
Proof. unfold is_NCName. intros H. apply andb_true_iff in H. tauto. Qed.

Lemma nsc_nc x : eval spec_NameStartChar x = true -> eval spec_NameChar x = true.
Proof. intros H. unfold spec_NameChar. cbn [eval]. now rewrite H. Qed.

Lemma QName_Name nm : is_QName nm = true -> is_Name nm = true.
Proof.
  unfold is_QName. destruct (split_colon nm) as [[p l]|] eqn:E; [|apply NCName_Name].
  intros H. apply andb_true_iff in H. destruct H as [Hp Hl].
  apply NCName_Name in Hp. apply NCName_Name in Hl. apply split_colon_app in E. subst nm.
  unfold is_Name in *. destruct p as [|x p]; [discriminate|]. destruct l as [|y l]; [discriminate|].
  apply andb_true_iff in Hp. destruct Hp as [Hx Hp]. apply andb_true_iff in Hl. destruct Hl as [Hy Hl].
  cbn [app]. apply andb_true_iff. split; [exact Hx|].
  apply forallb_app_true; [exact Hp|]. cbn [forallb]. apply andb_true_iff. split; [reflexivity|].
  apply andb_true_iff. split; [now apply nsc_nc|exact Hl].
Qed.

Lemma node_ok_syn : forall x, node_ok x = true -> syn_ok x = true.
Proof.
  induction x as [s|nm|s|t d|nm atts kids IHk] using anode_ind2; cbn [node_ok syn_ok]; intros H; try exact H.
  - now apply NCName_Name.
  - apply andb_true_iff in H. destruct H as [H Hadj]. apply andb_true_iff in H. destruct H as [H Hk].
    apply andb_true_iff in H. destruct H as [Hn Ha].
    apply andb_true_iff. split; [|exact Hadj]. apply andb_true_iff. split.
    + apply andb_true_iff. split; [now apply QName_Name|].
      rewrite forallb_forall in *. intros a Hin. specialize (Ha a Hin). unfold att_ok.
      apply andb_true_iff in Ha. destruct Ha as [Ha1 Ha2]. apply andb_true_iff. split; [now apply QName_Name|exact Ha2].
    + rewrite forallb_forall in *. rewrite Forall_forall in IHk. intros y Hin. apply IHk; [exact Hin|now apply Hk].
Qed.

(** every node that passes the lexical conditions of [valid] is read back by [p_content], for every oracle *)
Corollary valid_node_parses : forall x, node_ok x = true -> forall c p, parses c p x.
Proof. intros x H. apply node_parses, node_ok_syn, H. Qed.
