(** * The read-only document view the XPath evaluator sees (dom/src/lib.rs through the
    traits Node, AsExpandedName, AsStringValue, and XmlNode::order).

    A document is a flat table of nodes; a node is its index in the table.  The harness
    (harness/src/domains/xpath.rs, [Table]) builds the table from the real DOM by a pre-order
    walk from the document node -- node, in-scope namespace nodes, attributes, children (in
    the DOM view of the case: raw, or merged text as xq/xe use) -- so the index of a node is
    also its rank in an independent document-order walk.  Every field is an observation of
    the real node:

    - [n_kind]      the [XmlNode] variant
    - [n_id]        [XmlNode::id()] (0 for default attributes and the implicit xml namespace)
    - [n_key]       [XmlNode::order()]: the key the evaluator sorts and de-duplicates by.  It is
                    reported exactly, so equal keys and zero keys of the pinned tree (processing
                    instructions D18, default attributes and namespace nodes D19) are representable
    - [n_parent]    [parent_node()] ([None] for the document and namespace nodes); for an attribute,
                    whose [parent_node()] is [None] by DOM Level 1, its owner element
                    ([XmlAttr::owner_element()], what the evaluator uses as the parent; [None] for a
                    DTD-default attribute)
    - [n_children]  [child_nodes()]
    - [n_attrs]     [attributes()] (empty when [None])
    - [n_nss]       [in_scope_namespace()] of an element ([None] when it failed); namespace nodes
                    inherited from an ancestor are the ancestor's nodes (same index)
    - [n_name]      [as_expanded_name()]: (local part, prefix, namespace URI) as the dom reports
                    them (prefix ["xmlns"] for unprefixed elements and attributes, ...)
    - [n_data]      [as_string_value()] of a leaf, attribute, namespace node; [DataComputed] for
                    elements and the document, whose string-value the model computes from the
                    children as [AsStringValue for XmlElement] does.

    The sibling navigation of the dom (look the node up among the children of its parent by
    [id()]; it was by order key on the pinned tree, defect D21, repaired) is modelled as it is.
    No proofs in this file. *)
From Coq Require Import List NArith Bool.
From XmlRs Require Import Base.CPred.
Import ListNotations.
Open Scope N_scope.

Inductive nkind :=
| KElement | KAttribute | KText | KCData | KEntityReference | KEntity | KPI | KComment
| KDocument | KDocumentType | KDocumentFragment | KNotation | KNamespace | KExpandedText.

Definition nkind_eqb (a b : nkind) : bool :=
  match a, b with
  | KElement, KElement | KAttribute, KAttribute | KText, KText | KCData, KCData
  | KEntityReference, KEntityReference | KEntity, KEntity | KPI, KPI | KComment, KComment
  | KDocument, KDocument | KDocumentType, KDocumentType | KDocumentFragment, KDocumentFragment
  | KNotation, KNotation | KNamespace, KNamespace | KExpandedText, KExpandedText => true
  | _, _ => false
  end.

Inductive xname :=
| XNameNone                                             (* Ok(None) *)
| XNameErr                                              (* Err(_) *)
| XName (local : str) (prefix uri : option str).        (* Ok(Some((local, prefix, uri))) *)

Inductive xdata :=
| DataErr                                               (* as_string_value() failed *)
| DataComputed                                          (* element, document: from the children *)
| DataStr (s : str).

Record xnode := mk_xnode {
  n_kind : nkind;
  n_id : N;
  n_key : N;
  n_parent : option N;
  n_children : list N;
  n_attrs : list N;
  n_nss : option (list N);
  n_name : xname;
  n_data : xdata }.

Definition xdoc := list xnode.
Definition node := N.

(** what an index outside the table answers (never happens for a well-formed table) *)
Definition dummy_node : xnode :=
  mk_xnode KNotation 0 0 None [] [] (Some []) XNameNone (DataStr []).

Definition getd (doc : xdoc) (i : node) : xnode := nth (N.to_nat i) doc dummy_node.

Definition kind (doc : xdoc) (i : node) : nkind := n_kind (getd doc i).
Definition key (doc : xdoc) (i : node) : N := n_key (getd doc i).
Definition parent_node (doc : xdoc) (i : node) : option node := n_parent (getd doc i).
Definition child_nodes (doc : xdoc) (i : node) : list node := n_children (getd doc i).
Definition attributes (doc : xdoc) (i : node) : list node := n_attrs (getd doc i).
Definition name_of (doc : xdoc) (i : node) : xname := n_name (getd doc i).

(** the document node is the first row *)
Definition doc_root : node := 0.

(** ** results *)
Inductive xerr :=
| XErrDom
| XErrInvalidType
| XErrInvalidArgumentCount (s : str)
| XErrNotFoundFunction (s : str)
| XErrNotFoundNamespace (s : str)
| XErrNotFoundVariable (s : str).

(** [Panic]: the Rust code unwinds ([unwrap] on [None]/[Err], [unimplemented!]).
    [OutOfFuel]: a navigation loop did not end within the fuel (a hang of the real code when
    the fuel is the one [Proofs/XPathNav.v] shows sufficient). *)
Inductive res (A : Type) :=
| Ok (a : A) | Err (e : xerr) | Panic | OutOfFuel.
Arguments Ok {A} a.
Arguments Err {A} e.
Arguments Panic {A}.
Arguments OutOfFuel {A}.

Definition bind {A B} (r : res A) (f : A -> res B) : res B :=
  match r with
  | Ok a => f a
  | Err e => Err e
  | Panic => Panic
  | OutOfFuel => OutOfFuel
  end.

(** the default fuel of every navigation loop: more than the number of rows *)
Definition nav_fuel (doc : xdoc) : nat := S (length doc).

(** ** sibling navigation (dom [previous_sibling] / [next_sibling])

    [self.parent_node().and_then(|parent| parent.next_sibling_child(self))] for elements, text,
    CDATA, references, PIs, comments, the doctype and merged text; [None] for the document,
    attributes, namespace nodes (entities, notations and fragments are never reached by the
    evaluator).  [next_sibling_child]: the parent must be an element, attribute, reference,
    entity, document or fragment; then
    [children.iter().skip_while(|v| v.id() != node.id()).nth(1)]. *)
Definition sibling_nav_kind (k : nkind) : bool :=
  match k with
  | KElement | KText | KCData | KEntityReference | KPI | KComment | KDocumentType
  | KExpandedText => true
  | _ => false
  end.

Definition has_child_list (k : nkind) : bool :=
  match k with
  | KElement | KAttribute | KEntityReference | KEntity | KDocument | KDocumentFragment => true
  | _ => false
  end.

Definition nid (doc : xdoc) (i : node) : N := n_id (getd doc i).

Fixpoint skip_while_id (doc : xdoc) (k : N) (l : list node) : list node :=
  match l with
  | [] => []
  | x :: t => if nid doc x =? k then l else skip_while_id doc k t
  end.

Definition nth1 (l : list node) : option node :=
  match l with _ :: y :: _ => Some y | _ => None end.

Definition sibling_child (doc : xdoc) (rev_order : bool) (p i : node) : option node :=
  if has_child_list (kind doc p) then
    let l := child_nodes doc p in
    nth1 (skip_while_id doc (nid doc i) (if rev_order then rev l else l))
  else None.

Definition next_sibling (doc : xdoc) (i : node) : option node :=
  if sibling_nav_kind (kind doc i) then
    match parent_node doc i with
    | Some p => sibling_child doc false p i
    | None => None
    end
  else None.

Definition previous_sibling (doc : xdoc) (i : node) : option node :=
  if sibling_nav_kind (kind doc i) then
    match parent_node doc i with
    | Some p => sibling_child doc true p i
    | None => None
    end
  else None.

(** [owner_document()]: [None] for the document itself and for namespace nodes *)
Definition owner_document (doc : xdoc) (i : node) : option node :=
  match kind doc i with
  | KDocument | KNamespace => None
  | _ => Some doc_root
  end.

(** ** string-values (AsStringValue)

    element: concatenation over [children()] of the values of CDATA, element, merged text and
    text children; document: the value of its first element child ([root_element()?], a Dom
    error when there is none); every other kind: the reported data.  Depth-fuelled. *)
Fixpoint concat_res (l : list (res str)) : res str :=
  match l with
  | [] => Ok []
  | r :: t => bind r (fun a => bind (concat_res t) (fun b => Ok (a ++ b)))
  end.

Definition data_res (d : xdata) : res str :=
  match d with
  | DataStr s => Ok s
  | DataErr => Err XErrDom
  | DataComputed => Ok []      (* not used for elements / documents *)
  end.

Fixpoint string_value_fuel (fuel : nat) (doc : xdoc) (i : node) : res str :=
  match fuel with
  | O => OutOfFuel
  | S f =>
      match kind doc i with
      | KElement =>
          concat_res (map (fun c =>
            match kind doc c with
            | KCData | KElement | KExpandedText | KText => string_value_fuel f doc c
            | _ => Ok []
            end) (child_nodes doc i))
      | KDocument | KDocumentFragment =>
          match find (fun c => nkind_eqb (kind doc c) KElement) (child_nodes doc i) with
          | Some e => string_value_fuel f doc e
          | None => Err XErrDom
          end
      | KEntityReference | KEntity | KDocumentType | KNotation => Ok []
      | _ => data_res (n_data (getd doc i))
      end
  end.

Definition string_value (doc : xdoc) (i : node) : res str :=
  string_value_fuel (nav_fuel doc) doc i.
