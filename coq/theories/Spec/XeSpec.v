(** * What `xe` and `xq` must do (C17), on abstract documents in the merged-text view.

    A document is a tree of [xn]; elements, attributes and the document node carry an
    identifier (their rank in a pre-order walk) so that "the selected nodes" is a list of
    identifiers.  [replace_spec] replaces the children of exactly the selected element /
    attribute / document nodes by the parsed replacement and copies every other item:
    it is a structural recursion that does not descend below a replaced node, so the frame
    property (everything outside the selected subtrees is unchanged) is visible in the
    definition and stated as [rs_frame_*] in Proofs/XeProofs.v. *)
From Coq Require Import List NArith Bool Arith.
From XmlRs Require Import Base.CPred.
Import ListNotations.
Local Open Scope nat_scope.

Inductive xn :=
| E (id : nat) (name : str) (attrs : list (nat * str * str)) (children : list xn)
| T (s : str)                  (* character data: text, CDATA, expanded references, merged *)
| Cm (s : str)
| P (target data : str)
| Rf (name : str)              (* reference that the merged view keeps as a node *)
| D (s : str)                  (* document type declaration, opaque *)
| X (s : str).

Record xdoc := { did : nat; dchildren : list xn }.

(** replacement fragment: children of <e>VALUE</e> in the raw view *)
Inductive fnode :=
| FT (s : str) | FCd (s : str) | FC (s : str) | FP (target data : str) | FR (name : str)
| FE (name : str) (attrs : list (str * str)) (children : list fnode)
| FX.

Definition predefined (name : str) : option N :=
  match name with
  | [97; 109; 112]%N => Some 38%N              (* amp *)
  | [108; 116]%N => Some 60%N                  (* lt *)
  | [103; 116]%N => Some 62%N                  (* gt *)
  | [97; 112; 111; 115]%N => Some 39%N         (* apos *)
  | [113; 117; 111; 116]%N => Some 34%N        (* quot *)
  | _ => None
  end.

(** adjacent character data is one node in the merged view; empty character data is no node *)
Fixpoint merge_text (l : list xn) : list xn :=
  match l with
  | [] => []
  | T a :: rest =>
      match merge_text rest with
      | T b :: rest' => T (a ++ b) :: rest'
      | rest' => match a with [] => rest' | _ => T a :: rest' end
      end
  | x :: rest => x :: merge_text rest
  end.

(** the tree a parsed replacement denotes (fresh nodes get identifier 0: they are never selected) *)
Fixpoint conv (f : fnode) : xn :=
  match f with
  | FT s | FCd s => T s
  | FC s => Cm s
  | FP t d => P t d
  | FR name => match predefined name with Some c => T [c] | None => Rf name end
  | FE name attrs ch => E 0 name (map (fun a => (0, fst a, snd a)) attrs) (merge_text (map conv ch))
  | FX => X []
  end.

Definition conv_children (frag : list fnode) : list xn := merge_text (map conv frag).

(** text-only replacement (what an attribute can hold: DOM Level 1 allows Text and
    EntityReference children of an Attr, not CDATA sections, so a CDATA section in the
    replacement of an attribute is refused) *)
Fixpoint frag_text (frag : list fnode) : option str :=
  match frag with
  | [] => Some []
  | FT s :: r => option_map (app s) (frag_text r)
  | FR name :: r => match predefined name with
                    | Some c => option_map (cons c) (frag_text r)
                    | None => None
                    end
  | _ => None
  end.

Definition memb (i : nat) (sel : list nat) : bool := existsb (Nat.eqb i) sel.

(** [None]: the replacement cannot stand at a selected position (e.g. an element inside an
    attribute value): the tool must refuse *)
Definition rs_attrs (sel : list nat) (frag : list fnode) (attrs : list (nat * str * str))
  : option (list (nat * str * str)) :=
  fold_right (fun a acc =>
      match acc with
      | None => None
      | Some l =>
        let '(i, n, v) := a in
        if memb i sel then
          match frag_text frag with Some s => Some ((i, n, s) :: l) | None => None end
        else Some ((i, n, v) :: l)
      end) (Some []) attrs.

Fixpoint rs (sel : list nat) (frag : list fnode) (n : xn) : option xn :=
  match n with
  | E i name attrs ch =>
      match rs_attrs sel frag attrs with
      | None => None
      | Some attrs' =>
        if memb i sel then Some (E i name attrs' (conv_children frag))
        else
          match (fix go (l : list xn) : option (list xn) :=
                   match l with
                   | [] => Some []
                   | c :: r => match rs sel frag c, go r with
                               | Some c', Some r' => Some (c' :: r')
                               | _, _ => None
                               end
                   end) ch with
          | Some ch' => Some (E i name attrs' ch')
          | None => None
          end
      end
  | other => Some other
  end.

Definition is_elem (n : xn) : bool := match n with E _ _ _ _ => true | _ => false end.

(** children allowed directly under the document node: comments, PIs and exactly one element
    (the output must be a well-formed document) *)
Definition doc_children_ok (l : list xn) : bool :=
  forallb (fun n => match n with E _ _ _ _ | Cm _ | P _ _ => true | _ => false end) l
  && Nat.eqb (length (filter is_elem l)) 1.

Definition replace_spec (sel : list nat) (frag : list fnode) (d : xdoc) : option xdoc :=
  if memb (did d) sel then
    let ch := conv_children frag in
    if doc_children_ok ch then Some {| did := did d; dchildren := ch |} else None
  else
    match (fix go (l : list xn) : option (list xn) :=
             match l with
             | [] => Some []
             | c :: r => match rs sel frag c, go r with
                         | Some c', Some r' => Some (c' :: r')
                         | _, _ => None
                         end
             end) (dchildren d) with
    | Some ch => Some {| did := did d; dchildren := ch |}
    | None => None
    end.

(** xq: the serialisations of the selected nodes, one per line, in the order given (which C07
    proves to be document order) *)
Definition xq_spec (lines : list str) : str := concat (map (fun l => l ++ [10%N]) lines).
