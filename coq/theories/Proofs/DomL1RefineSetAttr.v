(** * C13: refinement rung "set_attribute(name, value)"

    DOM Level 1: "If an attribute with that name is already present in the element, its value is
    changed to be that of the value [given].  [Otherwise] a new attribute [is added]";
    INVALID_CHARACTER_ERR for a name that is no name; a value that cannot be written as an
    attribute value literal is refused (reading R4).

    The implementation calls [create_attribute] first, whatever happens next.  When the attribute
    is present, or when the value is refused, the node it built stays behind: no parent, no
    children, no element refers to it and no handle to it was ever given out ([Garbage],
    Proofs/DomL1Atomic.v).  The abstraction [abs] keeps one table entry per identifier handed out,
    so the theorem is stated from [set_attribute_pre]: the world in which that node has been
    allocated ([Garbage w pre], and [pre = w] when the new attribute is needed and accepted).  The
    outcome is the specification's outcome for the world as it was ([abs w]); the resulting state
    is the specification's state computed from [abs pre].

    Hypotheses about the facts of the two strings: [attr_name_agrees] (the name parses as an
    attribute name iff it is a QName, and then prefix and local part spell the string),
    [value_facts_agree] (Proofs/DomL1RefineValue.v). *)
From Coq Require Import List NArith Bool Lia PeanoNat.
From XmlRs Require Import Base.CPred Base.NList Spec.XmlChars Model.Store Model.PrintableCheck Model.DomOps Proofs.DomBase Proofs.DomTree
  Proofs.DomOpsInv Proofs.DomPrintable Proofs.DomL1Abs Proofs.DomL1Atomic Proofs.DomL1Refine Proofs.DomL1RefineInsert
  Proofs.DomL1RefineAttr Proofs.DomL1RefineValue Proofs.DomL1Frame.
From XmlRs Require Spec.DomCharData Spec.DomL1.
Import ListNotations.
Open Scope N_scope.

(** ** names *)
Definition qn (p : option str) (l : str) : str := match p with Some x => x ++ [58] ++ l | None => l end.

Lemma is_QName_qn p l : qname_ok p l = true -> is_QName (qn p l) = true.
Proof.
  unfold qname_ok, qn, is_QName. intros H. apply andb_true_iff in H. destruct H as [P L].
  destruct p as [x|].
  - cbn [app]. rewrite (split_colon_prefix x l (ncname_no_colon x P)). rewrite P, L. reflexivity.
  - rewrite (split_colon_none l (ncname_no_colon l L)). exact L.
Qed.

(** the name string and its facts *)
Definition name_agrees (facts : option (option str * str)) (s : str) : Prop :=
  match facts with
  | Some (p, l) => qn p l = s /\ qname_ok p l = true
  | None => is_QName s = false
  end.

Definition attr_name_agrees (n : name_info) : Prop := name_agrees (n_attr n) (n_str n).

Lemma find_hd_filter {A} (f : A -> bool) : forall l, find f l = hd_error (filter f l).
Proof. induction l as [|a l IH]; cbn [find filter]; [reflexivity|]. destruct (f a); [reflexivity | exact IH]. Qed.

(** the lookups of the two sides find the same attribute *)
Lemma attribute_q_named s e eit p l : TreeInv s -> Printable s -> get s e = Some eit -> qname_ok p l = true ->
  attribute_q s e p l = hd_error (DomL1.attrs_named (abs_store s) e (qn p l)).
Proof.
  intros T P He Hq. unfold attribute_q, attrs_of, DomL1.attrs_named, DomL1.attrs. rewrite He, (node_abs s e T), He.
  cbn [option_map abs_item DomL1.n_attrs].
  pose (ait := new_item KAt p l [] false None).
  change (qn p l) with (abs_name ait).
  rewrite <- (select_same s e eit ait T P He Hq eq_refl). rewrite <- find_hd_filter.
  apply find_ext_in. intros a Ha. destruct (attr_live_kind s e eit a T He Ha) as [x [Hx Kx]].
  unfold has_kind. rewrite Hx, Kx. reflexivity.
Qed.

Lemma attribute_q_create s it e eit p l : TreeInv s -> get s e = Some eit ->
  attribute_q (snd (create s it)) e p l = attribute_q s e p l.
Proof.
  intros T He. destruct (create_spec s it) as [_ [_ [_ [_ Ho]]]].
  assert (Hne : e <> next s) by (intros E; rewrite E in He; rewrite (fresh_none s T) in He; discriminate).
  unfold attribute_q, attrs_of. rewrite Ho by exact Hne. rewrite He. apply find_ext_in. intros a Ha.
  destruct (attr_live_kind s e eit a T He Ha) as [x [Hx _]].
  assert (Hna : a <> next s) by (intros E; rewrite E in Hx; rewrite (fresh_none s T) in Hx; discriminate).
  unfold has_kind, qname_is. rewrite Ho by exact Hna. reflexivity.
Qed.

(** ** what the specification does, in terms of the receiver's store *)
Lemma spec_set_attribute w (r : nref) s rit p l v :
  WInv w -> doc_at w (fst r) = Some s -> get s (snd r) = Some rit -> ikind rit = KEl -> qname_ok p l = true ->
  DomL1.set_attribute (abs w) r (qn p l) v =
    match DomL1.attrs_named (abs_store s) (snd r) (qn p l) with
    | x :: _ => match DomL1.set_attr_value (abs_store s) x v with
                | Some d1 => (DomL1.set_doc (abs w) (fst r) d1, DomL1.ADone DomL1.AUnit)
                | None => DomL1.refuse (abs w)
                end
    | [] => match DomL1.set_attr_value (abs_store (snd (create s (new_item KAt p l [] false None)))) (next s) v with
            | Some d2 => (DomL1.set_doc (abs w) (fst r) (DomL1.add_attr d2 (snd r) (next s)), DomL1.ADone DomL1.AUnit)
            | None => DomL1.refuse (abs w)
            end
    end.
Proof.
  intros Hw D Hr Kr Hq. unfold DomL1.set_attribute. rewrite doc_of_abs. change (@fst N N r) with (@fst N id r).
  rewrite D. cbn [option_map]. rewrite (aget_abs w r s Hw D). change (@snd N N r) with (@snd N id r). rewrite Hr. cbn [option_map].
  change (DomL1.n_type (abs_item rit)) with (abs_type (ikind rit)). rewrite Kr. cbn [abs_type].
  unfold DomL1.is_attr_name. rewrite (is_QName_qn p l Hq). cbn [negb].
  destruct (DomL1.attrs_named (abs_store s) (snd r) (qn p l)) as [|x tl]; [|reflexivity].
  change (DomL1.fresh_node DomL1.TAttr (qn p l) []) with (abs_item (new_item KAt p l [] false None)).
  rewrite (abs_create s _ (bounded_of_inv s (doc_at_P TreeInv w _ s Hw D))). reflexivity.
Qed.

(** ** small facts *)
Lemma ents_ok_create s it : EntsOK s -> ients it = [] -> EntsOK (snd (create s it)).
Proof.
  intros E H i x G. destruct (create_spec s it) as [_ [_ [_ [Hg Ho]]]].
  destruct (N.eq_dec i (next s)) as [->|Hne].
  - rewrite Hg in G. inversion G; subst x. rewrite H. intros n [].
  - rewrite Ho in G by exact Hne. exact (E i x G).
Qed.

Lemma aset_nth_same {A} (l : list A) : forall n x, nth_error l n = Some x -> DomL1.set_nth n x l = l.
Proof.
  induction l as [|y t IH]; intros [|n] x H; cbn in *; try discriminate.
  - inversion H; reflexivity.
  - f_equal. apply IH. exact H.
Qed.

Lemma upd_node_same d e f : (forall n, DomL1.node d e = Some n -> f n = n) -> DomL1.upd_node d e f = d.
Proof.
  intros H. unfold DomL1.upd_node. destruct (DomL1.node d e) as [n|] eqn:E; [|reflexivity].
  rewrite (H n eq_refl). unfold DomL1.set_node. unfold DomL1.node in E.
  destruct (nth_error (DomL1.d_nodes d) (N.to_nat e)) as [[m|]|] eqn:Nx; try discriminate. inversion E; subst m.
  rewrite (aset_nth_same _ _ _ Nx). destruct d; reflexivity.
Qed.

Lemma drop_attrs_nil d e : DomL1.drop_attrs d e [] = d.
Proof.
  unfold DomL1.drop_attrs. cbn [fold_left]. apply upd_node_same. intros n _.
  rewrite filter_all_true by (intros; reflexivity). destruct n; reflexivity.
Qed.

Lemma hd_error_some {A} (l : list A) x : hd_error l = Some x -> exists t, l = x :: t.
Proof. destruct l as [|y t]; cbn; [discriminate|]. intros H. inversion H; subst. exists t. reflexivity. Qed.

Lemma hd_error_none {A} (l : list A) : hd_error l = None -> l = [].
Proof. destruct l; [reflexivity | discriminate]. Qed.

(** ** the world in which the implementation has built the attribute node it may not need *)
Definition set_attribute_pre (w : world) (r : nref) (name : name_info) (value : data_info) : world :=
  match doc_at w (fst r), n_attr name with
  | Some s, Some (p, l) =>
    if has_kind s KEl (snd r) then
      let s1 := snd (create s (new_item KAt p l [] false None)) in
      match attribute_q s1 (snd r) p l with
      | Some _ => set_doc w (fst r) s1
      | None => if snd (set_values s1 (next s) value) then w else set_doc w (fst r) s1
      end
    else w
  | _, _ => w
  end.

Theorem set_attribute_refines w (r : nref) name value :
  WInv w -> WPrintable w -> WEnts w -> attr_name_agrees name -> value_facts_agree value ->
  let pre := set_attribute_pre w r name value in
  let o := SetAttribute r name value in
  let ao := DomL1.ASetAttribute r (n_str name) (d_str value) in
  Garbage w pre
  /\ abs (fst (step w o)) = fst (DomL1.dom_step (abs pre) ao)
  /\ outcome_class (snd (step w o)) = snd (DomL1.dom_step (abs pre) ao)
  /\ snd (DomL1.dom_step (abs pre) ao) = snd (DomL1.dom_step (abs w) ao).
Proof.
  intros Hw Hp He Fn Fv. cbn zeta. cbn [step DomL1.dom_step]. unfold set_attribute_pre, on_element, on_node.
  destruct (doc_at w (fst r)) as [s|] eqn:D.
  2:{ split; [left; reflexivity|]. unfold DomL1.set_attribute. rewrite doc_of_abs. change (@fst N N r) with (@fst N id r). rewrite D.
      repeat split. }
  pose proof (doc_at_P TreeInv w _ s Hw D) as T. pose proof (doc_at_P Printable w _ s Hp D) as P.
  pose proof (doc_at_P EntsOK w _ s He D) as E.
  unfold kind_of, has_kind. destruct (get s (snd r)) as [rit|] eqn:Hr; cbn [option_map].
  2:{ assert (G : DomL1.set_attribute (abs w) r (n_str name) (d_str value) = (abs w, DomL1.ANotOffered)).
      { unfold DomL1.set_attribute. rewrite doc_of_abs. change (@fst N N r) with (@fst N id r). rewrite D. cbn [option_map].
        rewrite (aget_abs w r s Hw D). change (@snd N N r) with (@snd N id r). rewrite Hr. reflexivity. }
      destruct (n_attr name) as [[p l]|]; (split; [left; reflexivity|]); rewrite G; repeat split. }
  destruct (kind_eqb_spec (ikind rit) KEl) as [Kr|Kr].
  2:{ assert (G : DomL1.set_attribute (abs w) r (n_str name) (d_str value) = (abs w, DomL1.ANotOffered)).
      { unfold DomL1.set_attribute. rewrite doc_of_abs. change (@fst N N r) with (@fst N id r). rewrite D. cbn [option_map].
        rewrite (aget_abs w r s Hw D). change (@snd N N r) with (@snd N id r). rewrite Hr. cbn [option_map].
        change (DomL1.n_type (abs_item rit)) with (abs_type (ikind rit)). destruct (ikind rit); try reflexivity. contradiction. }
      assert (Pre : match n_attr name with Some (_, _) | _ => w end = w) by (destruct (n_attr name) as [[p l]|]; reflexivity).
      rewrite Pre, G. split; [left; reflexivity|].
      destruct (ikind rit); try contradiction; cbn [fst snd]; rewrite (set_doc_same w (fst r) s D); repeat split. }
  rewrite Kr. cbn [kind_eqb].
  unfold attr_name_agrees, name_agrees in Fn.
  destruct (n_attr name) as [[p l]|] eqn:Na.
  2:{ (* not a name *)
      split; [left; reflexivity|]. cbn [fst snd]. rewrite (set_doc_same w (fst r) s D).
      assert (G : DomL1.set_attribute (abs w) r (n_str name) (d_str value) = DomL1.raise (abs w) DomCharData.InvalidCharacterErr).
      { unfold DomL1.set_attribute. rewrite doc_of_abs. change (@fst N N r) with (@fst N id r). rewrite D. cbn [option_map].
        rewrite (aget_abs w r s Hw D). change (@snd N N r) with (@snd N id r). rewrite Hr. cbn [option_map].
        change (DomL1.n_type (abs_item rit)) with (abs_type (ikind rit)). rewrite Kr. cbn [abs_type].
        unfold DomL1.is_attr_name. rewrite Fn. reflexivity. }
      rewrite G. repeat split. }
  destruct Fn as [Fq Hq]. rewrite <- Fq.
  set (it0 := new_item KAt p l [] false None). set (s1 := snd (create s it0)).
  rewrite (create_eta s it0). fold s1. cbv beta iota zeta.
  destruct (create_spec s it0) as [_ [Hn1 [_ [Hg1 Ho1]]]]. fold s1 in Hn1, Hg1, Ho1.
  assert (T1 : TreeInv s1) by (apply create_tree_inv; try reflexivity; [exact T | discriminate]).
  assert (P1 : Printable s1) by (apply printable_create; [exact P | exact Hq]).
  assert (E1 : EntsOK s1) by (apply ents_ok_create; [exact E | reflexivity]).
  assert (Hrne : snd r <> next s) by (intros X; rewrite X in Hr; rewrite (fresh_none s T) in Hr; discriminate).
  assert (Hr1 : get s1 (snd r) = Some rit) by (rewrite Ho1 by exact Hrne; exact Hr).
  pose proof (attribute_q_create s it0 (snd r) rit p l T Hr) as AQ. fold s1 in AQ.
  pose proof (attribute_q_named s1 (snd r) rit p l T1 P1 Hr1 Hq) as N1.
  pose proof (attribute_q_named s (snd r) rit p l T P Hr Hq) as N0.
  assert (K01 : keeps_decl s s1) by (apply keeps_decl_create; exact T).
  assert (VK : forall v, value_ok (abs_store s1) v = value_ok (abs_store s) v)
    by (intros v; apply value_ok_keeps; assumption).
  set (w1 := set_doc w (fst r) s1).
  assert (Hw1 : WInv w1) by (apply set_doc_P; assumption).
  assert (D1 : doc_at w1 (fst r) = Some s1) by (apply (doc_at_set_doc _ _ _ _ D)).
  assert (A1 : abs w1 = DomL1.set_doc (abs w) (fst r) (abs_store s1)) by apply abs_set_doc.
  assert (G1 : Garbage w w1) by (right; exists (fst r), s, it0; repeat split; exact D).
  pose proof (spec_set_attribute w r s rit p l (d_str value) Hw D Hr Kr Hq) as S0.
  pose proof (spec_set_attribute w1 r s1 rit p l (d_str value) Hw1 D1 Hr1 Kr Hq) as S1.
  destruct (attribute_q s1 (snd r) p l) as [x|] eqn:AQ1.
  - (* the attribute is present: its value is changed *)
    fold w1. symmetry in N1, N0, AQ. rewrite AQ in N0.
    destruct (hd_error_some _ _ N1) as [tl1 L1]. destruct (hd_error_some _ _ N0) as [tl0 L0].
    rewrite L1 in S1. rewrite L0 in S0.
    assert (Kx : has_kind s1 KAt x = true).
    { unfold attribute_q in AQ1. apply find_some in AQ1. destruct AQ1 as [_ Hx]. apply andb_true_iff in Hx. tauto. }
    pose proof (set_values_refines s1 x value T1 E1 Kx Fv) as SV.
    pose proof (set_attr_value_some (abs_store s1) x (d_str value)) as V1.
    pose proof (set_attr_value_some (abs_store s) x (d_str value)) as V0. rewrite <- VK, <- V1 in V0.
    split; [exact G1|].
    destruct (DomL1.set_attr_value (abs_store s1) x (d_str value)) as [d1|] eqn:SA.
    + destruct SV as [s2 [SV1 SV2]]. rewrite SV1. cbn [fst snd]. rewrite S1, S0.
      destruct (DomL1.set_attr_value (abs_store s) x (d_str value)); [|discriminate]. cbn [fst snd].
      split; [|split; reflexivity]. rewrite abs_set_doc, A1, aset_doc_twice, SV2. reflexivity.
    + rewrite SV. cbn [fst snd]. rewrite S1, S0.
      destruct (DomL1.set_attr_value (abs_store s) x (d_str value)); [discriminate|]. cbn [fst snd]. repeat split.
  - (* no such attribute *)
    symmetry in N1, N0, AQ. rewrite AQ in N0. apply hd_error_none in N1. apply hd_error_none in N0.
    rewrite N1 in S1. rewrite N0 in S0. fold it0 s1 in S0.
    assert (Ka : has_kind s1 KAt (next s) = true) by (unfold has_kind; rewrite Hg1; reflexivity).
    pose proof (set_values_refines s1 (next s) value T1 E1 Ka Fv) as SV.
    destruct (DomL1.set_attr_value (abs_store s1) (next s) (d_str value)) as [d1|] eqn:SA.
    + (* the value is accepted: the new node becomes the attribute *)
      destruct SV as [s2 [SV1 SV2]]. rewrite SV1. cbn [fst snd].
      split; [left; reflexivity|]. rewrite S0. cbn [fst snd].
      assert (T2 : TreeInv s2) by (pose proof (set_values_inv s1 (next s) value T1 Ka) as X; rewrite SV1 in X; exact X).
      pose proof (fr_set_values s1 (next s) value) as F. rewrite SV1 in F. cbn [fst] in F.
      destruct (F (bounded_of_inv s1 T1)) as [B2 [Fw _]].
      assert (Hp2 : parent_of s2 (next s) = None).
      { eapply (set_values_fresh_parent s1 (next s) value s2); [lia | | | exact SV1].
        - unfold parent_of. rewrite Hg1. reflexivity.
        - unfold children_of. rewrite Hg1. reflexivity. }
      destruct (Fw (next s) it0 Hg1) as [ait [Ha2 [Ka2 [Pa2 [La2 _]]]]].
      destruct (Fw (snd r) rit Hr1) as [rit2 [Hr2 [Kr2 [_ [_ [_ At2]]]]]].
      assert (Hk2 : has_kind s2 KEl (snd r) = true) by (unfold has_kind; rewrite Hr2, Kr2, Kr; reflexivity).
      unfold dom_set_attribute_node. cbn [fst snd]. rewrite N.eqb_refl. cbn [negb]. rewrite Hp2, Ha2, Ka2, Hk2, Pa2, La2.
      change (ikind it0) with KAt. change (iprefix it0) with p. change (ilocal it0) with l. cbn [kind_eqb andb].
      assert (Hsel : filter (qname_is s2 p l) (iattrs rit2) = []).
      { rewrite At2. apply filter_none. intros a Ha.
        destruct (attr_live_kind s (snd r) rit a T Hr Ha) as [xit [Hx Kx]].
        assert (Hna : a <> next s) by (intros X; rewrite X in Hx; rewrite (fresh_none s T) in Hx; discriminate).
        assert (Hx1 : get s1 a = Some xit) by (rewrite Ho1 by exact Hna; exact Hx).
        destruct (Fw a xit Hx1) as [xit2 [Hx2 [_ [Px2 [Lx2 _]]]]].
        unfold attribute_q, attrs_of in AQ1. rewrite Hr1 in AQ1.
        pose proof (find_none _ _ AQ1 a Ha) as Q. cbn beta in Q. unfold has_kind, qname_is in Q. rewrite Hx1, Kx in Q. cbn [kind_eqb andb] in Q.
        unfold qname_is. rewrite Hx2, Px2, Lx2. exact Q. }
      destruct (abs_remove_attrs s2 (snd r) rit2 (qname_is s2 p l) [] T2 Hr2 (eq_sym Hsel)) as [R1 R2].
      fold (remove_attribute_q s2 (snd r) p l) in R1, R2.
      pose proof (remove_attribute_q_inv s2 (snd r) p l T2) as T3.
      destruct (remove_attribute_q s2 (snd r) p l) as [s3 old]. cbn [fst snd] in *. subst old.
      rewrite drop_attrs_nil in R1.
      split; [|split; reflexivity].
      rewrite abs_set_doc. f_equal. rewrite (abs_append_attribute s3 (snd r) (next s) (bounded_of_inv _ T3)). rewrite R1, SV2. reflexivity.
    + (* the value is refused: the new node stays behind *)
      rewrite SV. cbn [fst snd]. fold w1. split; [exact G1|]. rewrite S1, S0.
      set (s1' := snd (create s1 (new_item KAt p l [] false None))).
      assert (T1' : TreeInv s1') by (apply create_tree_inv; try reflexivity; [exact T1 | discriminate]).
      assert (E1' : EntsOK s1') by (apply ents_ok_create; [exact E1 | reflexivity]).
      pose proof (set_attr_value_some (abs_store s1) (next s) (d_str value)) as V1. rewrite SA in V1.
      pose proof (set_attr_value_some (abs_store s1') (next s1) (d_str value)) as V1'.
      rewrite (value_ok_keeps s1 s1' (d_str value) T1 T1' E1 E1' (keeps_decl_create s1 it0 T1)), <- V1 in V1'.
      destruct (DomL1.set_attr_value (abs_store s1') (next s1) (d_str value)); [discriminate|]. cbn [fst snd]. repeat split.
Qed.

(** ** the cases in which nothing is left behind: the strict statement *)
Definition KnownSetAttrGarbage (w : world) (r : nref) (name : name_info) (value : data_info) : bool :=
  match doc_at w (fst r), n_attr name with
  | Some s, Some (p, l) =>
    has_kind s KEl (snd r)
    && (let s1 := snd (create s (new_item KAt p l [] false None)) in
        match attribute_q s1 (snd r) p l with
        | Some _ => true
        | None => negb (snd (set_values s1 (next s) value))
        end)
  | _, _ => false
  end.

Lemma set_attribute_pre_same w r name value : KnownSetAttrGarbage w r name value = false -> set_attribute_pre w r name value = w.
Proof.
  unfold KnownSetAttrGarbage, set_attribute_pre. destruct (doc_at w (fst r)) as [s|]; [|reflexivity].
  destruct (n_attr name) as [[p l]|]; [|reflexivity]. destruct (has_kind s KEl (snd r)); [|reflexivity]. cbn [andb]. cbv zeta.
  destruct (attribute_q _ (snd r) p l); [discriminate|]. destruct (snd (set_values _ (next s) value)); [reflexivity | discriminate].
Qed.

Theorem step_refines_partial_set_attribute_strict : forall w (r : nref) name value,
  WInv w -> WPrintable w -> WEnts w -> attr_name_agrees name -> value_facts_agree value ->
  KnownSetAttrGarbage w r name value = false ->
  refines_on w (SetAttribute r name value) (DomL1.ASetAttribute r (n_str name) (d_str value)).
Proof.
  intros w r name value Hw Hp He Fn Fv Hk.
  destruct (set_attribute_refines w r name value Hw Hp He Fn Fv) as [_ [H1 [H2 _]]]. cbn zeta in H1, H2.
  rewrite (set_attribute_pre_same w r name value Hk) in H1, H2. split; assumption.
Qed.
