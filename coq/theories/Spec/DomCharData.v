(** * DOM Level 1 [CharacterData], [Text], [Comment], [CDATASection] on lists of characters.

    Transcribed from "Document Object Model (DOM) Level 1 Specification", section 1.2,
    interfaces CharacterData and Text.  A string is a [list N] of code points, so every
    offset and count below is a number of *characters* by construction (property C16 reads
    DOM's "characters" as Unicode characters).  Offsets and counts are DOM's [unsigned long]:
    any [N].  Independent of /repo. *)
From Coq Require Import List NArith Bool.
From XmlRs Require Import Base.CPred Base.NList Spec.XmlChars.
Import ListNotations.
Open Scope N_scope.

(** ** Vocabulary *)

(** the node kinds that carry character data.  [KExpanded] is a Text node reached through a
    read-only interface (only [data], [length], [substringData] are offered) *)
Inductive kind := KText | KComment | KCData | KExpanded.

(** ExceptionCode of DOM Level 1 *)
Inductive exc :=
| IndexSizeErr | DomStringSizeErr | HierarchyRequestErr | WrongDocumentErr | InvalidCharacterErr
| NoDataAllowedErr | NoModificationAllowedErr | NotFoundErr | NotSupportedErr | InuseAttributeErr.

(** one call of the interface *)
Inductive call :=
| Length
| Substring (offset count : N)
| Append (arg : str)
| Insert (offset : N) (arg : str)
| Delete (offset count : N)
| Replace (offset count : N) (arg : str)
| SetData (arg : str)
| Split (offset : N).

(** the part of the document a call can see or change: the data of the node and the data of
    the siblings that follow it (in document order) *)
Record cdstate := St { data : str; following : list str }.

Inductive value :=
| VUnit
| VNum (n : N)
| VStr (s : str)
| VNode (d : str) (next_sibling_of_receiver : bool).   (* the node returned by splitText *)

Inductive outcome :=
| Done (v : value) (st : cdstate)
| Raised (e : exc) (st : cdstate)        (* an exception leaves the document as it was *)
| NotOffered (st : cdstate).             (* the interface of this kind has no such method *)

Definition state_of (o : outcome) : cdstate :=
  match o with Done _ st | Raised _ st | NotOffered st => st end.

(** ** CharacterData *)

(** [length]: "The number of characters that are available through data" *)
Definition dom_length (s : str) : N := len s.

(** [substringData(offset, count)]: "INDEX_SIZE_ERR: Raised if the specified offset is
    negative or greater than the number of characters in data";  "If the sum of offset and
    count exceeds the length, then all characters to the end of the data are returned." *)
Definition dom_substring (s : str) (offset count : N) : option str :=
  if len s <? offset then None
  else if len s <? offset + count then Some (drop offset s)
  else Some (take count (drop offset s)).

(** [appendData(arg)]: "Append the string to the end of the character data of the node." *)
Definition dom_append (s arg : str) : str := s ++ arg.

(** [insertData(offset, arg)]: "Insert a string at the specified character offset." *)
Definition dom_insert (s : str) (offset : N) (arg : str) : option str :=
  if len s <? offset then None
  else Some (take offset s ++ arg ++ drop offset s).

(** [deleteData(offset, count)]: "If the sum of offset and count exceeds length then all
    characters from offset to the end of the data are deleted." *)
Definition dom_delete (s : str) (offset count : N) : option str :=
  if len s <? offset then None
  else if len s <? offset + count then Some (take offset s)
  else Some (take offset s ++ drop (offset + count) s).

(** [replaceData(offset, count, arg)]: "If the sum of offset and count exceeds length, then
    all characters to the end of the data are replaced (i.e., the effect is the same as a
    remove method call with the same range, followed by an append method invocation)." *)
Definition dom_replace (s : str) (offset count : N) (arg : str) : option str :=
  if len s <? offset then None
  else if len s <? offset + count then Some (take offset s ++ arg)
  else Some (take offset s ++ arg ++ drop (offset + count) s).

(** [splitText(offset)]: "Breaks this Text node into two Text nodes at the specified
    offset, keeping both in the tree as siblings.  This node then only contains all the
    content up to the offset point.  And a new Text node, which is inserted as the next
    sibling of this node, contains all the content at and after the offset point." *)
Definition dom_split (s : str) (offset : N) : option (str * str) :=
  if len s <? offset then None
  else Some (take offset s, drop offset s).

(** which methods each kind offers *)
Definition is_mutator (c : call) : bool :=
  match c with Length | Substring _ _ => false | _ => true end.

Definition offered (k : kind) (c : call) : bool :=
  match k, c with
  | KExpanded, _ => negb (is_mutator c)
  | KComment, Split _ => false            (* Comment is a CharacterData, not a Text *)
  | _, _ => true
  end.

Definition set_data_of (st : cdstate) (d : str) : cdstate := St d (following st).

Definition lift (st : cdstate) (r : option str) : outcome :=
  match r with
  | Some d => Done VUnit (set_data_of st d)
  | None => Raised IndexSizeErr st
  end.

Definition dom_call (k : kind) (st : cdstate) (c : call) : outcome :=
  if negb (offered k c) then NotOffered st else
  let s := data st in
  match c with
  | Length => Done (VNum (dom_length s)) st
  | Substring off cnt =>
      match dom_substring s off cnt with
      | Some r => Done (VStr r) st
      | None => Raised IndexSizeErr st
      end
  | Append arg => Done VUnit (set_data_of st (dom_append s arg))
  | Insert off arg => lift st (dom_insert s off arg)
  | Delete off cnt => lift st (dom_delete s off cnt)
  | Replace off cnt arg => lift st (dom_replace s off cnt arg)
  | SetData arg => Done VUnit (set_data_of st arg)
  | Split off =>
      match dom_split s off with
      | Some (a, b) => Done (VNode b true) (St a (b :: following st))
      | None => Raised IndexSizeErr st
      end
  end.

(** a history of calls on one node: every observation, in order *)
Fixpoint dom_run (k : kind) (st : cdstate) (cs : list call) : list outcome :=
  match cs with
  | [] => []
  | c :: cs' => let o := dom_call k st c in o :: dom_run k (state_of o) cs'
  end.

(** ** What a node kind can hold (XML 1.0 5th ed.)

    DOM Level 1 does not say what happens when a mutator would leave the node with a string
    that cannot be the content of such a node in any XML document.  C16 is claimed for calls whose
    result can ([call_storable] below): *)

Definition isChar (c : N) : bool := eval spec_Char c.

Fixpoint starts_with (p s : str) : bool :=
  match p, s with
  | [], _ => true
  | _ :: _, [] => false
  | a :: p', b :: s' => (a =? b) && starts_with p' s'
  end.

Fixpoint contains (p s : str) : bool :=
  starts_with p s || match s with [] => false | _ :: s' => contains p s' end.

Definition cdend : str := [93; 93; 62].        (* "]]>" *)

(** [14] CharData ::= [^<&]* - ([^<&]* ']]>' [^<&]* ), over [2] Char *)
Definition storable_text (s : str) : bool :=
  forallb (fun c => isChar c && negb (c =? 60) && negb (c =? 38)) s && negb (contains cdend s).

(** [15] Comment ::= '<!--' ((Char - '-') | ('-' (Char - '-')))* '-->' *)
Fixpoint storable_comment (s : str) : bool :=
  match s with
  | [] => true
  | c :: s' =>
      if c =? 45 then
        match s' with
        | [] => false
        | d :: s'' => isChar d && negb (d =? 45) && storable_comment s''
        end
      else isChar c && storable_comment s'
  end.

(** [20] CData ::= (Char* - (Char* ']]>' Char* )) *)
Definition storable_cdata (s : str) : bool :=
  forallb isChar s && negb (contains cdend s).

Definition storable (k : kind) (s : str) : bool :=
  match k with
  | KText | KExpanded => storable_text s
  | KComment => storable_comment s
  | KCData => storable_cdata s
  end.

Definition arg_of (c : call) : str :=
  match c with
  | Append a | Insert _ a | Replace _ _ a | SetData a => a
  | _ => []
  end.

(** the calls that write the data of the receiver *)
Definition writes_data (c : call) : bool :=
  match c with
  | Append _ | Insert _ _ | Delete _ _ | Replace _ _ _ | SetData _ => true
  | _ => false
  end.

(** the string the node would hold after the call can be the content of such a node.  (A
    harmless fragment can complete a forbidden sequence -- "]]" then ">" -- and a deletion can
    create one; what matters is the result.) *)
Definition call_storable (k : kind) (st : cdstate) (c : call) : bool :=
  if writes_data c
  then match dom_call k st c with
       | Done _ st' => storable k (data st')
       | _ => true
       end
  else true.

(** ** The oracle of the failing-input search: DOM Level 1 where it speaks, [None]
    (unspecified: nothing but "no crash" is required, and the history is not followed
    further) where the resulting data cannot be held by the node kind. *)
Definition spec_call (k : kind) (st : cdstate) (c : call) : option outcome :=
  if call_storable k st c then Some (dom_call k st c) else None.

Fixpoint spec_run (k : kind) (st : cdstate) (cs : list call) : list (option outcome) :=
  match cs with
  | [] => []
  | c :: cs' =>
      match spec_call k st c with
      | Some o => Some o :: spec_run k (state_of o) cs'
      | None => [None]
      end
  end.

(** the six-argument form used in the statement of C16 *)
Inductive opname := OLength | OSubstring | OAppend | OInsert | ODelete | OReplace | OSetData | OSplit.

Definition mk_call (op : opname) (off cnt : N) (arg : str) : call :=
  match op with
  | OLength => Length | OSubstring => Substring off cnt | OAppend => Append arg
  | OInsert => Insert off arg | ODelete => Delete off cnt | OReplace => Replace off cnt arg
  | OSetData => SetData arg | OSplit => Split off
  end.

Definition spec_cd (k : kind) (s : str) (op : opname) (off cnt : N) (arg : str) : outcome :=
  dom_call k (St s []) (mk_call op off cnt arg).

(** decoding of the `M-<k>` tokens of the case protocol (2^64-1-k) *)
Definition big_minus (k : N) : N := 18446744073709551615 - k.
