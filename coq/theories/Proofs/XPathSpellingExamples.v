(** * A concrete instance of [spelling_irrelevant_ok] (C08): two spellings of one tree on the
    document [<r><a k="1"><b/><a/></a></r>] (the table below, dumped from the real code by
    tools/xpath/dump2coq.py), and the witnesses of what the full statement would claim in excess. *)
From Coq Require Import List NArith Bool.
From XmlRs Require Import Base.CPred Spec.XPathSyntax.
From XmlRs Require Import Model.XPathAst Model.XDoc Model.XDocCheck Model.XPathEval.
From XmlRs Require Import Proofs.XPathParseMain Proofs.XPathCanon Proofs.XPathDocCheck
  Proofs.XPathAbsInv Proofs.XPathSpellingOrd Proofs.XPathSpellingLight Proofs.XPathSpellingMain.
Import ListNotations.
Local Open Scope N_scope.

(** dumped from the real code by tools/xpath/dump2coq.py *)
(* <r><a k="1"><b/><a/></a></r> *)
Definition c08_doc : xdoc :=
  [ mk_xnode KDocument 1 1 None [1] [] (Some []) XNameNone DataComputed;
    mk_xnode KElement 2 2 (Some 0) [3] [] (Some [2]) (XName [114] (Some [120;109;108;110;115]) (None)) DataComputed;
    mk_xnode KNamespace 0 0 None [] [] (Some []) (XName [120;109;108] (None) (None)) (DataStr [104;116;116;112;58;47;47;119;119;119;46;119;51;46;111;114;103;47;88;77;76;47;49;57;57;56;47;110;97;109;101;115;112;97;99;101]);
    mk_xnode KElement 3 3 (Some 1) [6;8] [5] (Some [4]) (XName [97] (Some [120;109;108;110;115]) (None)) DataComputed;
    mk_xnode KNamespace 0 0 None [] [] (Some []) (XName [120;109;108] (None) (None)) (DataStr [104;116;116;112;58;47;47;119;119;119;46;119;51;46;111;114;103;47;88;77;76;47;49;57;57;56;47;110;97;109;101;115;112;97;99;101]);
    mk_xnode KAttribute 4 4 (Some 3) [] [] (Some []) (XName [107] (Some [120;109;108;110;115]) (None)) (DataStr [49]);
    mk_xnode KElement 6 6 (Some 3) [] [] (Some [7]) (XName [98] (Some [120;109;108;110;115]) (None)) DataComputed;
    mk_xnode KNamespace 0 0 None [] [] (Some []) (XName [120;109;108] (None) (None)) (DataStr [104;116;116;112;58;47;47;119;119;119;46;119;51;46;111;114;103;47;88;77;76;47;49;57;57;56;47;110;97;109;101;115;112;97;99;101]);
    mk_xnode KElement 7 7 (Some 3) [] [] (Some [9]) (XName [97] (Some [120;109;108;110;115]) (None)) DataComputed;
    mk_xnode KNamespace 0 0 None [] [] (Some []) (XName [120;109;108] (None) (None)) (DataStr [104;116;116;112;58;47;47;119;119;119;46;119;51;46;111;114;103;47;88;77;76;47;49;57;57;56;47;110;97;109;101;115;112;97;99;101]) ].

Lemma c08_doc_inv : DocInv c08_doc.
Proof. apply XPathDocCheck.doc_inv_b_sound. vm_compute. reflexivity. Qed.


Definition ex_b : ntest := TName (QN None [98]).

(** [//b[1]/..] *)
Definition ex_short : xexpr :=
  XPath (SAbs SDSlash) (XStep AOmit ex_b [XPathSyntax.XNum [49]]) [(SSlash, XDotDot)].

(** [( /descendant-or-self::node()/child::b[position() = 1]/parent::node() )] *)
Definition ex_long : xexpr :=
  XParen (XPath (SAbs SSlash) (XStep (AFull XDescendantOrSelf) (TType KNode) [])
            [(SSlash, XStep (AFull XChild) ex_b [XBin BEq position_call (XPathSyntax.XNum [49])]);
             (SSlash, XStep (AFull XParent) (TType KNode) [])]).

Definition ex_sp1 : spelling := {| surface := ex_short; white := wdef |}.
Definition ex_sp2 : spelling :=
  {| surface := ex_long;
     white := W false [[32]; [9; 32]]
                [W false [[32]] [wdef; wdef; W false [[32]; [32]] [W false [[10]; [32]; []] [W false [[32]; [32]] []]]]] |}.

Example ex_spell1 : spell ex_short ex_sp1 = [47;47;98;91;49;93;47;46;46].
Proof. vm_compute. reflexivity. Qed.

Example ex_spell2_differs : spell ex_short ex_sp2 <> spell ex_short ex_sp1.
Proof. vm_compute. discriminate. Qed.

Example ex_hypotheses :
  ok_spelling ex_short ex_sp1 /\ ok_spelling ex_short ex_sp2 /\
  no_fname_case (surface ex_sp1) = true /\ no_fname_case (surface ex_sp2) = true /\
  DocInv c08_doc /\ xnons ex_short = true.
Proof.
  split; [repeat split; vm_compute; reflexivity|]. split; [repeat split; vm_compute; reflexivity|].
  split; [vm_compute; reflexivity|]. split; [vm_compute; reflexivity|]. split; [exact c08_doc_inv|]. vm_compute; reflexivity.
Qed.

Example ex_same_value : forall v,
  query_model c08_doc [] (spell ex_short ex_sp1) = QValue v <-> query_model c08_doc [] (spell ex_short ex_sp2) = QValue v.
Proof.
  destruct ex_hypotheses as (H1 & H2 & N1 & N2 & HD & HX).
  exact (spelling_irrelevant_ok_proof c08_doc [] ex_short ex_sp1 ex_sp2 H1 H2 N1 N2 HD HX).
Qed.

(** the value, computed: the outer element [a] (row 3), once *)
Example ex_value : query_model c08_doc [] (spell ex_short ex_sp1) = QValue (XNodes [3]).
Proof. vm_compute. reflexivity. Qed.

Example ex_value2 : query_model c08_doc [] (spell ex_short ex_sp2) = QValue (XNodes [3]).
Proof. apply ex_same_value. exact ex_value. Qed.

(** ** what the full statement would say and the code does not do *)

Definition nm (c : N) : ntest := TName (QN None [c]).
Definition call0 (f : str) : xexpr := XCall (QN None f) [].
Definition s_foo : str := [102;111;111].
Definition s_bar : str := [98;97;114].

(** [@k or foo()] *)
Definition ex_pred : xexpr := XBin BOr (XPath SRel (XStep AAt (nm 107) []) []) (call0 s_foo).

(** [//a[@k or foo()]/b[bar()]] *)
Definition ex_e1 : xexpr :=
  XPath (SAbs SDSlash) (XStep AOmit (nm 97) [ex_pred]) [(SSlash, XStep AOmit (nm 98) [call0 s_bar])].
(** [/descendant-or-self::node()/a[@k or foo()]/b[bar()]] *)
Definition ex_e2 : xexpr :=
  XPath (SAbs SSlash) dos_step [(SSlash, XStep AOmit (nm 97) [ex_pred]); (SSlash, XStep AOmit (nm 98) [call0 s_bar])].

Definition sp_of (a : xexpr) : spelling := {| surface := a; white := wdef |}.

(** both fail, with different errors: [//] runs the rest of the path start node by start node *)
Example ex_error_order :
  ok_spelling ex_e1 (sp_of ex_e1) /\ ok_spelling ex_e1 (sp_of ex_e2) /\
  no_fname_case ex_e1 = true /\ no_fname_case ex_e2 = true /\ xnons ex_e1 = true /\
  query_model c08_doc [] (spell ex_e1 (sp_of ex_e1)) = QError (XErrNotFoundFunction s_bar) /\
  query_model c08_doc [] (spell ex_e1 (sp_of ex_e2)) = QError (XErrNotFoundFunction s_foo).
Proof.
  split; [repeat split; vm_compute; reflexivity|]. split; [repeat split; vm_compute; reflexivity|].
  repeat split; vm_compute; reflexivity.
Qed.

(** [/*/*[1]] and [/*/*[position() = 1]] *)
Definition ex_n1 : xexpr :=
  XPath (SAbs SSlash) (XStep AOmit TAny []) [(SSlash, XStep AOmit TAny [XPathSyntax.XNum [49]])].
Definition ex_n2 : xexpr :=
  XPath (SAbs SSlash) (XStep AOmit TAny []) [(SSlash, XStep AOmit TAny [XBin BEq position_call (XPathSyntax.XNum [49])])].
Definition ex_default_ns : list (option str * str) := [(None, [117])].

(** with a default namespace in the context (an extension: [Context::add_ns(None, ..)]) the call of
    [position()] used to be an unknown function (defect D63: [/*/*[position() = 1]] was the error
    NotFoundFunction(position) where [/*/*[1]] had a value); repaired in 9d405ca: an unprefixed
    function name is in no namespace, and the two spellings agree under every binding list *)
Example ex_default_namespace :
  ok_spelling ex_n1 (sp_of ex_n1) /\ ok_spelling ex_n1 (sp_of ex_n2) /\
  no_fname_case ex_n1 = true /\ no_fname_case ex_n2 = true /\ lnorm ex_n1 = lnorm ex_n2 /\
  query_model c08_doc ex_default_ns (spell ex_n1 (sp_of ex_n1)) = QValue (XNodes [3]) /\
  query_model c08_doc ex_default_ns (spell ex_n1 (sp_of ex_n2)) = QValue (XNodes [3]).
Proof.
  split; [repeat split; vm_compute; reflexivity|]. split; [repeat split; vm_compute; reflexivity|].
  repeat split; vm_compute; reflexivity.
Qed.

Example ex_default_namespace_same :
  query_model c08_doc ex_default_ns (spell ex_n1 (sp_of ex_n1)) = query_model c08_doc ex_default_ns (spell ex_n1 (sp_of ex_n2)).
Proof.
  destruct ex_default_namespace as (H1 & H2 & N1 & N2 & E & _).
  exact (spelling_irrelevant_light_proof c08_doc ex_default_ns ex_n1 (sp_of ex_n1) (sp_of ex_n2) H1 H2 N1 N2 E).
Qed.

(** the full statement of C08 (equal results, errors included) does not hold for the model *)
Theorem error_order_refuted_proof : exists doc bind a sp1 sp2,
  ok_spelling a sp1 /\ ok_spelling a sp2 /\
  no_fname_case (surface sp1) = true /\ no_fname_case (surface sp2) = true /\
  DocInv doc /\ xnons a = true /\
  query_model doc bind (spell a sp1) <> query_model doc bind (spell a sp2).
Proof.
  destruct ex_error_order as (H1 & H2 & N1 & N2 & HX & Q1 & Q2).
  exists c08_doc, [], ex_e1, (sp_of ex_e1), (sp_of ex_e2).
  repeat (split; [first [assumption|exact c08_doc_inv|reflexivity]|]). rewrite Q1, Q2. discriminate.
Qed.

(** ** an instance of [spelling_irrelevant_light]: the namespace axis, an error *)

(** [//namespace::*[1][$v]/..] and [( //namespace::*[position() = 1][($v)]/parent::node() )] *)
Definition ex_l1 : xexpr :=
  XPath (SAbs SDSlash) (XStep (AFull XNamespace) TAny [XPathSyntax.XNum [49]; XVar (QN None [118])]) [(SSlash, XDotDot)].
Definition ex_l2 : xexpr :=
  XParen (XPath (SAbs SDSlash) (XStep (AFull XNamespace) TAny [XBin BEq position_call (XPathSyntax.XNum [49]); XParen (XVar (QN None [118]))])
    [(SSlash, XStep (AFull XParent) (TType KNode) [])]).

Example ex_light_hypotheses :
  ok_spelling ex_l1 (sp_of ex_l1) /\ ok_spelling ex_l1 (sp_of ex_l2) /\
  no_fname_case ex_l1 = true /\ no_fname_case ex_l2 = true /\ lnorm ex_l1 = lnorm ex_l2 /\ xnons ex_l1 = false.
Proof.
  split; [repeat split; vm_compute; reflexivity|]. split; [repeat split; vm_compute; reflexivity|].
  repeat split; vm_compute; reflexivity.
Qed.

Example ex_light_same : query_model c08_doc [] (spell ex_l1 (sp_of ex_l1)) = query_model c08_doc [] (spell ex_l1 (sp_of ex_l2)).
Proof.
  destruct ex_light_hypotheses as (H1 & H2 & N1 & N2 & E & _).
  exact (spelling_irrelevant_light_proof c08_doc [] ex_l1 (sp_of ex_l1) (sp_of ex_l2) H1 H2 N1 N2 E).
Qed.

Example ex_light_value : query_model c08_doc [] (spell ex_l1 (sp_of ex_l1)) = QError (XErrNotFoundVariable [118]).
Proof. vm_compute. reflexivity. Qed.

(** ** an instance of [spelling_irrelevant_ord]: DTD-default attributes (order key 0, finding D19) and the
    namespace axis under [//] *)
(* <!DOCTYPE r [<!ATTLIST a d CDATA "v">]><r><a><a/></a></r> *)
Definition c08_dtd_doc : xdoc :=
  [ mk_xnode KDocument 1 1 None [1;2] [] (Some []) XNameNone DataComputed;
    mk_xnode KDocumentType 2 2 (Some 0) [] [] (Some []) XNameNone (DataStr []);
    mk_xnode KElement 5 4 (Some 0) [4] [] (Some [3]) (XName [114] (Some [120;109;108;110;115]) (None)) DataComputed;
    mk_xnode KNamespace 0 0 None [] [] (Some []) (XName [120;109;108] (None) (None)) (DataStr [104;116;116;112;58;47;47;119;119;119;46;119;51;46;111;114;103;47;88;77;76;47;49;57;57;56;47;110;97;109;101;115;112;97;99;101]);
    mk_xnode KElement 6 5 (Some 2) [7] [6] (Some [5]) (XName [97] (Some [120;109;108;110;115]) (None)) DataComputed;
    mk_xnode KNamespace 0 0 None [] [] (Some []) (XName [120;109;108] (None) (None)) (DataStr [104;116;116;112;58;47;47;119;119;119;46;119;51;46;111;114;103;47;88;77;76;47;49;57;57;56;47;110;97;109;101;115;112;97;99;101]);
    mk_xnode KAttribute 0 0 (Some 4) [] [] (Some []) (XName [100] (Some [120;109;108;110;115]) (None)) (DataStr [118]);
    mk_xnode KElement 7 6 (Some 4) [] [9] (Some [8]) (XName [97] (Some [120;109;108;110;115]) (None)) DataComputed;
    mk_xnode KNamespace 0 0 None [] [] (Some []) (XName [120;109;108] (None) (None)) (DataStr [104;116;116;112;58;47;47;119;119;119;46;119;51;46;111;114;103;47;88;77;76;47;49;57;57;56;47;110;97;109;101;115;112;97;99;101]);
    mk_xnode KAttribute 0 0 (Some 7) [] [] (Some []) (XName [100] (Some [120;109;108;110;115]) (None)) (DataStr [118]) ].

Lemma c08_dtd_doc_ord : DocOrd c08_dtd_doc /\ doc_inv_b c08_dtd_doc = false.
Proof. split; [apply doc_ord_b_sound; vm_compute; reflexivity|vm_compute; reflexivity]. Qed.

(** [//a//@d | //a//namespace::*] and the same with [/descendant-or-self::node()/] and the named axes *)
Definition ex_o1 : xexpr :=
  XBin BUnion
    (XPath (SAbs SDSlash) (XStep AOmit (nm 97) []) [(SDSlash, XStep AAt (nm 100) [])])
    (XPath (SAbs SDSlash) (XStep AOmit (nm 97) []) [(SDSlash, XStep (AFull XNamespace) TAny [])]).
Definition ex_o2 : xexpr :=
  XBin BUnion
    (XPath (SAbs SSlash) dos_step [(SSlash, XStep (AFull XChild) (nm 97) []); (SSlash, dos_step); (SSlash, XStep (AFull XAttribute) (nm 100) [])])
    (XPath (SAbs SSlash) dos_step [(SSlash, XStep (AFull XChild) (nm 97) []); (SSlash, dos_step); (SSlash, XStep (AFull XNamespace) TAny [])]).

Example ex_ord_hypotheses :
  ok_spelling ex_o1 (sp_of ex_o1) /\ ok_spelling ex_o1 (sp_of ex_o2) /\
  no_fname_case ex_o1 = true /\ no_fname_case ex_o2 = true /\ xnons ex_o1 = false.
Proof.
  split; [repeat split; vm_compute; reflexivity|]. split; [repeat split; vm_compute; reflexivity|].
  repeat split; vm_compute; reflexivity.
Qed.

Example ex_ord_same : forall v,
  query_model c08_dtd_doc [] (spell ex_o1 (sp_of ex_o1)) = QValue v <-> query_model c08_dtd_doc [] (spell ex_o1 (sp_of ex_o2)) = QValue v.
Proof.
  destruct ex_ord_hypotheses as (H1 & H2 & N1 & N2 & _).
  exact (spelling_irrelevant_ord_proof c08_dtd_doc [] ex_o1 (sp_of ex_o1) (sp_of ex_o2) H1 H2 N1 N2 (proj1 c08_dtd_doc_ord)).
Qed.

(** the value: the first of the nodes with key 0 (D19 conflates them) *)
Example ex_ord_value : query_model c08_dtd_doc [] (spell ex_o1 (sp_of ex_o1)) = QValue (XNodes [6]).
Proof. vm_compute. reflexivity. Qed.
