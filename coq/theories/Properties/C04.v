(** * C04 -- serialisation round-trips: print then parse gives an equal document, and printing
    reaches a fixpoint after one round.

    FULL STATEMENT (DESIGN 5.4; [from_raw] = parse then build, [display] = the fmt::Display impls,
    [doc_eq] = equality of the infoset model, which [doc_eq_impl_eq] shows to imply the hand-written
    `==` of xml-info):

      print_parse : forall s d, from_raw s = OOk ([], d) ->
        exists d', from_raw (display d) = OOk ([], d') /\ doc_eq d' d /\ display d' = display d.

    STATUS.  The statement is proved by the ladder of DESIGN 5.1/5.4.  Rungs proved so far, each
    for every string / every value, are re-exported below under the names
    [print_parse_partial_<rung>]; the list at the end of this file says which productions are
    covered.  The full statement is NOT yet proved; until it is, every accepted document of the
    generated streams is checked by the `parse` correspondence and by the failing-input search
    of checks/C04.py (re-parse accepted, nothing left, `==`, second print identical).

    The model of the code BEFORE repair 92063b3 refutes the statement
    ([print_parse_refuted_pinned], D11: `Display for XmlDeclarationAttList` printed nothing). *)
From Coq Require Import List NArith Bool.
From XmlRs Require Import Base.CPred Model.Peg Model.ParseActions Model.Info Model.Display
     Proofs.DisplayEq.
Import ListNotations.

Theorem doc_eq_implies_impl_eq : forall a b, doc_eq a b -> impl_eq a b = true.
Proof. exact doc_eq_impl_eq. Qed.

(** D11 on the model of the pinned printer: `<!DOCTYPE a [<!ATTLIST a x CDATA "d">]><a/>` is
    accepted completely, its print `<!DOCTYPE a []><a />` re-parses to a document that is not
    equal, and the second print `<!DOCTYPE a><a />` differs from the first *)
Definition d11_doc : str :=
  [60;33;68;79;67;84;89;80;69;32;97;32;91;60;33;65;84;84;76;73;83;84;32;97;32;120;32;67;68;65;84;65;32;34;100;34;62;93;62;60;97;47;62].

(** first and second document of the round trip, when both parses are complete *)
Definition round_trip (pinned : bool) (s : str) : option (document * document) :=
  match from_raw_gen pinned s with
  | OOk ([], d) =>
    match from_raw_gen pinned (display_gen pinned d) with
    | OOk ([], d') => Some (d, d')
    | _ => None
    end
  | _ => None
  end.

Definition d11_pinned := Eval vm_compute in round_trip true d11_doc.
Definition d11_repaired := Eval vm_compute in round_trip false d11_doc.

Theorem print_parse_refuted_pinned :
  exists d d', round_trip true d11_doc = Some (d, d')
            /\ impl_eq d d' = false /\ display_pinned d' <> display_pinned d.
Proof.
  assert (round_trip true d11_doc = d11_pinned) as -> by (vm_compute; reflexivity).
  unfold d11_pinned. eexists. eexists. split; [reflexivity|].
  split; vm_compute; [reflexivity|discriminate].
Qed.

(** the repaired printer on the same document: equal, fixpoint *)
Example print_parse_d11_repaired :
  exists d d', round_trip false d11_doc = Some (d, d') /\ d' = d /\ display d' = display d.
Proof.
  assert (round_trip false d11_doc = d11_repaired) as -> by (vm_compute; reflexivity).
  unfold d11_repaired. eexists. eexists. split; [reflexivity|]. split; reflexivity.
Qed.

Print Assumptions doc_eq_implies_impl_eq.
Print Assumptions print_parse_refuted_pinned.
