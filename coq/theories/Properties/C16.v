(** C16 -- character-data operations work on character offsets with DOM semantics.

    "length, substring_data, append_data, insert_data, delete_data, replace_data and
    split_text on text, comment and CDATA nodes count in Unicode characters and behave as DOM
    Level 1 specifies for every content string and every offset and count: an offset beyond
    the length is an index-size error, a count running past the end is clipped to the end,
    split_text leaves two adjacent siblings whose data concatenate to the original, and no
    argument combination panics or corrupts multi-byte characters."

    Strings are lists of code points on both sides, so offsets are characters by
    construction; that the Rust code agrees on multi-byte, astral and combining input is the
    `cdata` correspondence run by checks/C16.py.  [model_cd] is the code after the `fix:`
    commit for D47; [pinned_cd] is the tree as found, refuted below.
    This file only names the theorems; proofs live in Proofs/CharDataProofs.v. *)
From Coq Require Import List NArith Bool.
From XmlRs Require Import Base.CPred Base.NList Spec.DomCharData Model.CharData Proofs.CharDataProofs.
Import ListNotations.
Open Scope N_scope.

(** every kind (text, comment, CDATA, merged read-only view), every data string that fits in
    memory, every operation, every usize offset and count, every argument: whenever the string the
    node would hold after the call can be the content of such a node ([call_storable]: the
    RESULT, not the fragment -- a harmless fragment can complete a forbidden sequence and a
    deletion can create one), the code returns what DOM Level 1 prescribes and leaves the
    prescribed data.  (Before the repairs D39 / D46 of properties C13 / C15 the code validated
    the inserted fragment only; the hypothesis was then "the argument is storable".) *)
Theorem C16_chardata_refines : forall k s op off cnt arg,
  off < 2 ^ 64 -> cnt < 2 ^ 64 -> len s < 2 ^ 64 -> call_storable k (St s []) (mk_call op off cnt arg) = true ->
  model_cd k s op off cnt arg = embed (spec_cd k s op off cnt arg).
Proof. exact chardata_refines. Qed.

(** the same from any state (the node may already have following siblings from earlier splits) *)
Theorem C16_call_refines : forall k st c,
  len (data st) <= usize_max -> usize_args c -> call_storable k st c = true ->
  model_call k st c = embed (dom_call k st c).
Proof. exact call_refines. Qed.

(** sequences of calls: every observation of every history agrees *)
Theorem C16_history_refines : forall k cs st,
  len (data st) + args_len cs <= usize_max -> run_ok k st cs ->
  model_run k st cs = map embed (dom_run k st cs).
Proof. exact run_refines. Qed.

(** a call that is refused or raises leaves the data as they were (D39 repaired) *)
Theorem C16_refused_call_keeps_data : forall k st c st',
  len (data st) <= usize_max -> usize_args c ->
  (model_call k st c = MInvalidArg st' \/ exists e, model_call k st c = MRaised e st') -> st' = st.
Proof. exact refused_call_keeps_data. Qed.

(** split_text: the two halves concatenate to the original, the first has min(offset, length)
    characters, the new node is the next sibling *)
Theorem C16_split_concat : forall k st off d adj st',
  model_call k st (Split off) = MDone (VNode d adj) st' ->
  data st' ++ d = data st
  /\ len (data st') = N.min off (len (data st))
  /\ following st' = d :: following st
  /\ adj = true.
Proof. exact split_concat. Qed.

Theorem C16_split_preserves_text : forall k st off r st',
  model_call k st (Split off) = r -> mstate_of r = Some st' -> text_of st' = text_of st.
Proof. exact split_preserves_text. Qed.

(** no argument combination panics -- including arguments the node kind refuses *)
Theorem C16_no_panic : forall k s op off cnt arg,
  off < 2 ^ 64 -> cnt < 2 ^ 64 -> len s < 2 ^ 64 ->
  model_cd k s op off cnt arg <> MPanic.
Proof. exact no_panic. Qed.

Theorem C16_history_no_panic : forall k cs st,
  len (data st) + args_len cs <= usize_max -> Forall usize_args cs ->
  ~ In MPanic (model_run k st cs).
Proof. exact run_no_panic. Qed.

(** the fragment checks of the code accept exactly what XML 1.0 lets the node kind hold
    (productions [14] CharData, [15] Comment, [20] CData over [2] Char) *)
Theorem C16_check_is_storable : forall k s, check k s = storable k s.
Proof. exact check_is_storable. Qed.

(** D47: the tree as found violates the property (debug and release profiles) *)
Theorem C16_pinned_refuted_clip :
  exists k s off cnt, usize_bounds s off cnt /\
    pinned_cd Debug k s ODelete off cnt [] <> embed (spec_cd k s ODelete off cnt []).
Proof. exact pinned_refuted_clip. Qed.

Theorem C16_pinned_refuted_panic :
  exists k s off cnt, usize_bounds s off cnt /\ pinned_cd Debug k s OSubstring off cnt [] = MPanic.
Proof. exact pinned_refuted_panic. Qed.

Theorem C16_pinned_release_refuted :
  exists k s off cnt, usize_bounds s off cnt /\ pinned_cd Release k s ODelete off cnt [] = MPanic.
Proof. exact pinned_release_refuted. Qed.

Print Assumptions C16_chardata_refines.
Print Assumptions C16_call_refines.
Print Assumptions C16_history_refines.
Print Assumptions C16_refused_call_keeps_data.
Print Assumptions C16_split_concat.
Print Assumptions C16_split_preserves_text.
Print Assumptions C16_no_panic.
Print Assumptions C16_history_no_panic.
Print Assumptions C16_check_is_storable.
Print Assumptions C16_pinned_refuted_clip.
Print Assumptions C16_pinned_refuted_panic.
Print Assumptions C16_pinned_release_refuted.
