(** * The converse direction, part 3: XML declaration, Misc, prolog and document, for documents
    WITHOUT a document type declaration.

    [conv_document_nodoctype]: a document the grammar of Spec/XmlWF.v reads, without DOCTYPE, whose
    element and attribute names are QNames and whose end tags match ([xok] on the root), is accepted
    by the production `document` of the regenerated grammar -- [ParseActions.parse_document s = POk (pd, [])] --
    and the typed document translates back to the specification's tree.  Together with
    [parse_document_syntax_nodoctype] (Proofs/XmlWFSyntaxDoc.v) this says that on such documents the two
    grammars accept the same strings and build corresponding trees.

    Where the specification says "no" (no XML declaration here; no further Misc), the PEG must FAIL
    there: those facts come from the other direction (a successful run would be read by the
    specification) and the termination theorem ([fails_of_no_succ]). *)
From Coq Require Import List NArith Arith Lia Bool.
From XmlRs Require Import Base.CPred Spec.XmlChars Model.Peg Gen.XmlcharGen Gen.GrammarXmlGen Model.ParseActions Model.Info Model.Display
     Proofs.XmlcharProofs Proofs.PegTermination Proofs.GrammarTermination Proofs.PegLemmas Proofs.PegInv Proofs.Expansion
     Proofs.DisplayLex Proofs.ActionLemmas Proofs.DisplayElem Proofs.DisplayRun Proofs.DisplayDoc Proofs.ParseInv Proofs.ParseInvElem
     Proofs.XmlWFSyntaxLex Proofs.XmlWFSyntaxElem Proofs.XmlWFSyntaxDoc Proofs.XmlWFSyntaxConvLex Proofs.XmlWFSyntaxConvElem.
From XmlRs Require Spec.XmlWF.
Import ListNotations.
Local Open Scope N_scope.

(** ** a non-terminal that has no successful derivation on [s] fails on [s] *)
Lemma fails_of_no_succ n (s : str) : (forall t r, ~ S (NT n) s t r) -> F (NT n) s.
Proof.
  intros H. pose proof (xml_grammar_terminates n s) as Ht. unfold run in Ht.
  destruct (denote G_xml (fuel_bound G_xml_R s) (NT n) s) as [[t r]| |] eqn:E.
  - exfalso. apply (H t r). apply (den_S _ _ _ _ _ E). reflexivity.
  - exists (fuel_bound G_xml_R s). intros f Hf. rewrite (denote_mono G_xml _ _ _ ltac:(rewrite E; discriminate) f Hf). exact E.
  - contradiction.
Qed.

(** ** [23] XMLDecl *)
Lemma pseudo_inv kw (s r : str) : W.p_pseudo kw s = Some r ->
  exists t, P (Seq (Chars1 ws) (Seq (Tag kw) (NT nt_eq))) s t r.
Proof.
  unfold W.p_pseudo. destruct (W.p_S s) as [r0|] eqn:Es; [|discriminate]. cbn [W.bind]. rewrite Wstrip_same.
  destruct (prefix kw r0) as [r1|] eqn:Ep; [|discriminate]. cbn [W.bind]. intros He.
  destruct (conv_ws1 _ _ Es) as [a Pa]. apply prefix_decomp in Ep. subst r0. destruct (conv_eq _ _ He) as [te Pe].
  eexists. eapply parses_seq; [exact Pa|]. eapply parses_seq; [apply parses_tag|exact Pe].
Qed.

Lemma quoted_by_inv {A} (p : str -> option (A * str)) (s : str) a r : W.p_quoted_by p s = Some (a, r) ->
  exists q t, (q = 34 \/ q = 39) /\ s = q :: t /\ p t = Some (a, q :: r).
Proof.
  unfold W.p_quoted_by. destruct s as [|q t]; [discriminate|]. destruct (W.isQuote q) eqn:Eq; [|discriminate].
  destruct (p t) as [[a' r']|] eqn:Ep; [|discriminate]. cbn [W.bind]. destruct r' as [|c r'']; [discriminate|].
  destruct (N.eqb_spec c q) as [->|]; [|discriminate]. intros H. injection H as <- <-.
  exists q, t. split; [|split; [reflexivity|exact Ep]].
  unfold W.isQuote in Eq. apply orb_prop in Eq. destruct Eq as [E|E]; apply N.eqb_eq in E; [left|right]; exact E.
Qed.

(** a literal between quotes: the apostrophe alternative comes first in the grammar *)
Lemma quoted_parses (e : pexpr) (q : N) (t x r : str) tx : q = 34 \/ q = 39 -> P e t tx (q :: r) ->
  P (Alt (SeqR (Tag [39]) (SeqL e (Tag [39]))) (SeqR (Tag [34]) (SeqL e (Tag [34])))) (q :: t) tx r.
Proof.
  intros [->| ->] Pe.
  - apply parses_alt_r; [apply fails_seqr_l; apply fails_tag; reflexivity|].
    eapply parses_seqr; [apply (parses_tag G_xml [34] t)|]. eapply parses_seql; [exact Pe|apply (parses_tag G_xml [34] r)].
  - apply parses_alt_l. eapply parses_seqr; [apply (parses_tag G_xml [39] t)|]. eapply parses_seql; [exact Pe|apply (parses_tag G_xml [39] r)].
Qed.

Lemma version_num_inv (s v r : str) : W.p_VersionNum s = Some (v, r) -> P (NT nt_version_num) s (TStr v) r.
Proof.
  unfold W.p_VersionNum. rewrite Wstrip_same. destruct (prefix W.s_one_dot s) as [r0|] eqn:Ep; [|discriminate]. cbn [W.bind].
  destruct (W.span W.isDigit r0) as [ds r'] eqn:Es. destruct (Wspan_inv _ _ _ _ Es) as [-> [Hd Hr]]. destruct ds as [|d ds]; [discriminate|].
  intros H. injection H as <- <-. apply prefix_decomp in Ep. subst s. rewrite app_assoc.
  apply parses_version_num.
  - exists (d :: ds). split; [reflexivity|]. split; [discriminate|]. apply (forallb_ext' W.isDigit); [intros c; symmetry; apply digit_class|exact Hd].
  - eapply stops_ext; [|exact Hr]. intros c. symmetry. apply digit_class.
Qed.

Lemma enc_name_inv (s e r : str) : W.p_EncName s = Some (e, r) -> P (NT nt_enc_name) s (TStr e) r.
Proof.
  unfold W.p_EncName. destruct s as [|c t]; [discriminate|]. destruct (eval spec_EncNameStart c) eqn:Ec; [|discriminate].
  destruct (W.span (eval spec_EncNameChar) t) as [a b] eqn:Es. destruct (Wspan_inv _ _ _ _ Es) as [-> [Ha Hb]].
  intros H. injection H as <- <-. change (c :: a ++ b) with ((c :: a) ++ b). apply parses_enc_name.
  - split; [exact Ec|]. apply (forallb_ext' (eval spec_EncNameChar)); [intros c0; symmetry; apply is_enc_name_equiv|exact Ha].
  - eapply stops_ext; [|exact Hb]. intros c0. symmetry. apply is_enc_name_equiv.
Qed.

Lemma fails_eq_of (s : str) : W.p_Eq s = None -> F (NT nt_eq) s.
Proof.
  unfold W.p_Eq. intros H. destruct (conv_ws0 s) as [a Pa]. apply fails_nt. rewrite body_eq. eapply fails_seqr_r; [exact Pa|].
  apply fails_seql_l. apply fails_tag. destruct (W.skipS s) as [|c t]; [reflexivity|]. cbn [prefix].
  destruct (N.eqb_spec c W.c_eq) as [->|Hne]; [discriminate|]. destruct (N.eqb_spec 61 c) as [<-|]; [contradiction|reflexivity].
Qed.

Lemma fails_pseudo kw (s : str) : W.p_pseudo kw s = None -> F (Seq (Chars1 ws) (Seq (Tag kw) (NT nt_eq))) s.
Proof.
  unfold W.p_pseudo. destruct (W.p_S s) as [r0|] eqn:Es; cbn [W.bind].
  - destruct (conv_ws1 _ _ Es) as [a Pa]. rewrite Wstrip_same. destruct (prefix kw r0) as [r1|] eqn:Ep; cbn [W.bind].
    + intros He. apply prefix_decomp in Ep. subst r0. eapply fails_seq_r; [exact Pa|]. eapply fails_seq_r; [apply parses_tag|]. apply fails_eq_of. exact He.
    + intros _. eapply fails_seq_r; [exact Pa|]. apply fails_seq_l. apply fails_tag. exact Ep.
  - intros _. apply fails_seq_l. apply fails_chars1. unfold W.p_S in Es. destruct (W.span W.isS s) as [a b] eqn:E.
    destruct (Wspan_inv _ _ _ _ E) as [-> [Ha Hb]]. destruct a; [exact Hb|discriminate].
Qed.

Lemma yesno_inv (t : str) b q r : (q = 34 \/ q = 39) -> W.p_yesno t = Some (b, q :: r) ->
  t = (if b then W.s_yes else W.s_no) ++ q :: r.
Proof.
  intros Hq. unfold W.p_yesno. destruct (W.strip W.s_yes t) as [r0|] eqn:E1.
  - intros H. injection H as <- <-. rewrite Wstrip_same in E1. apply prefix_decomp. exact E1.
  - destruct (W.strip W.s_no t) as [r0|] eqn:E2; cbn [W.bind]; intros H; [|discriminate H]. injection H as <- <-.
    rewrite Wstrip_same in E2. apply prefix_decomp. exact E2.
Qed.

Lemma conv_xml_decl (s' : str) xd r : W.p_xmldecl s' = Some (xd, r) ->
  exists x, yields (NT nt_xml_decl) (W.s_xmldecl_open ++ s') (VDeclXml x) r /\ x_xmldecl x = xd.
Proof.
  unfold W.p_xmldecl. destruct (W.p_pseudo W.s_version s') as [r0|] eqn:Ev; [|discriminate]. cbn [W.bind].
  destruct (W.p_quoted_by W.p_VersionNum r0) as [[v r1]|] eqn:Eq; [|discriminate]. cbn [W.bind].
  destruct (pseudo_inv _ _ _ Ev) as [tv Pv]. destruct (quoted_by_inv _ _ _ _ Eq) as [q [t [Hq [-> Hvn]]]]. apply version_num_inv in Hvn.
  assert (P (NT nt_version_info) s' (TStr v) r1) as Pvi.
  { apply parses_nt. rewrite body_version_info. eapply parses_seqr; [exact Pv|]. apply (quoted_parses _ q t v r1 _ Hq Hvn). }
  (* encoding *)
  assert (forall renc (enc : option str), 
            match W.p_pseudo W.s_encoding r1 with
            | Some r' => W.bind (W.p_quoted_by W.p_EncName r') (fun '(e, r'') => Some (Some e, r''))
            | None => Some (None, r1) end = Some (enc, renc) ->
            yields (Opt (NT nt_encoding_decl)) r1 (match enc with Some e => VSome (VStr e) | None => VNone end) renc) as Henc.
  { intros renc enc H. destruct (W.p_pseudo W.s_encoding r1) as [r'|] eqn:Ee.
    - destruct (W.p_quoted_by W.p_EncName r') as [[e r'']|] eqn:Eqe; [|discriminate H]. cbn [W.bind] in H. injection H as <- <-.
      destruct (pseudo_inv _ _ _ Ee) as [te Pe]. destruct (quoted_by_inv _ _ _ _ Eqe) as [q' [t' [Hq' [-> Hen]]]]. apply enc_name_inv in Hen.
      apply yields_opt_some. apply yields_str. apply parses_nt. rewrite body_encoding_decl. eapply parses_seqr; [exact Pe|].
      apply (quoted_parses _ q' t' e r'' _ Hq' Hen).
    - injection H as <- <-. apply yields_opt_none. apply fails_nt. rewrite body_encoding_decl. apply fails_seqr_l. apply fails_pseudo. exact Ee. }
  match goal with |- W.bind ?X _ = _ -> _ => destruct X as [[enc r2]|] eqn:Eenc; [|discriminate] end. cbn [W.bind].
  specialize (Henc r2 enc eq_refl).
  (* standalone *)
  assert (forall rsa (sa : option bool),
            match W.p_pseudo W.s_standalone r2 with
            | Some r' => W.bind (W.p_quoted_by W.p_yesno r') (fun '(b, r'') => Some (Some b, r''))
            | None => Some (None, r2) end = Some (sa, rsa) ->
            yields (Opt (NT nt_sd_decl)) r2 (match sa with Some b => VSome (VBool b) | None => VNone end) rsa) as Hsa.
  { intros rsa sa H. destruct (W.p_pseudo W.s_standalone r2) as [r'|] eqn:Ee.
    - destruct (W.p_quoted_by W.p_yesno r') as [[b r'']|] eqn:Eqe; [|discriminate H]. cbn [W.bind] in H. injection H as <- <-.
      destruct (pseudo_inv _ _ _ Ee) as [te Pe]. destruct (quoted_by_inv _ _ _ _ Eqe) as [q' [t' [Hq' [-> Hyn]]]].
      apply (yesno_inv _ _ _ _ Hq') in Hyn. subst t'.
      apply yields_opt_some. apply yields_nt. rewrite body_sd_decl.
      apply (yields_map' (VStr (if b then W.s_yes else W.s_no))); [destruct b; reflexivity|].
      eapply yields_seqr; [exact Pe|]. apply yields_str.
      destruct b, Hq' as [->| ->]; unfold W.s_yes, W.s_no; cbn [app].
      + apply parses_alt_r; [apply fails_seqr_l; apply fails_tag; reflexivity|]. apply parses_alt_l. eapply parses_seqr; [tag|]. eapply parses_seql; tag.
      + apply parses_alt_l. eapply parses_seqr; [tag|]. eapply parses_seql; tag.
      + apply parses_alt_r; [apply fails_seqr_l; apply fails_tag; reflexivity|].
        apply parses_alt_r; [eapply fails_seqr_r; [tag|]; apply fails_seql_l; apply fails_tag; reflexivity|].
        apply parses_alt_r; [apply fails_seqr_l; apply fails_tag; reflexivity|]. eapply parses_seqr; [tag|]. eapply parses_seql; tag.
      + apply parses_alt_r; [eapply fails_seqr_r; [tag|]; apply fails_seql_l; apply fails_tag; reflexivity|].
        apply parses_alt_r; [apply fails_seqr_l; apply fails_tag; reflexivity|]. apply parses_alt_l. eapply parses_seqr; [tag|]. eapply parses_seql; tag.
    - injection H as <- <-. apply yields_opt_none. apply fails_nt. rewrite body_sd_decl. apply fails_map. apply fails_seqr_l. apply fails_pseudo. exact Ee. }
  match goal with |- W.bind ?X _ = _ -> _ => destruct X as [[sa r3]|] eqn:Esa; [|discriminate] end. cbn [W.bind].
  specialize (Hsa r3 sa eq_refl).
  rewrite Wstrip_same. destruct (prefix W.s_pi_close (W.skipS r3)) as [r4|] eqn:Ec; [|discriminate]. cbn [W.bind]. intros H. injection H as <- <-.
  destruct (conv_ws0 r3) as [a Pa]. apply prefix_decomp in Ec.
  exists (DeclXml v enc sa). split; [|reflexivity].
  apply yields_nt. rewrite body_xml_decl.
  apply (yields_map' (VPair (VStr v) (VPair (match enc with Some e => VSome (VStr e) | None => VNone end) (match sa with Some b => VSome (VBool b) | None => VNone end)))).
  { destruct enc, sa; reflexivity. }
  eapply yields_seqr; [apply parses_tag|]. eapply yields_seql.
  - eapply yields_seq; [apply yields_str; exact Pvi|]. eapply yields_seq; [exact Henc|exact Hsa].
  - eapply parses_seq; [exact Pa|]. rewrite Ec. apply (parses_tag G_xml [63;62] r4).
Qed.

(** ** [27] Misc *)
Lemma conv_miscs : forall fuel (s : str) l r, W.p_miscs fuel s = (l, r) -> misc_stop r ->
  exists ms, many_yields (NT nt_misc) s (map VMisc ms) r /\ x_miscs ms = l /\ forallb d04_misc ms = true.
Proof.
  induction fuel as [|f IH]; intros s l r H Hst.
  - cbn [W.p_miscs] in H. injection H as <- <-. exists []. split; [apply my_stop; apply fails_misc; exact Hst|split; reflexivity].
  - cbn [W.p_miscs] in H. destruct (W.p_S s) as [r0|] eqn:Es.
    + destruct (IH _ _ _ H Hst) as [ms [Hm [Hx Hd]]]. destruct (p_S_inv _ _ Es) as [a [Hne [Ha [Hr ->]]]].
      exists (MiWhitespace a :: ms). split; [|split; [exact Hx|exact Hd]]. cbn [map]. eapply my_step; [| |exact Hm].
      * apply yields_nt. rewrite body_misc. apply yields_alt_r; [apply fails_map; apply fails_comment; destruct a as [|c a]; [contradiction|]; cbn [forallb] in Ha; apply andb_prop in Ha; destruct Ha as [Hc _]; cbn [app prefix]; destruct (N.eqb_spec 60 c) as [<-|]; [vm_compute in Hc; discriminate|reflexivity]|].
        apply yields_alt_r; [apply fails_map; apply fails_pi; destruct a as [|c a]; [contradiction|]; cbn [forallb] in Ha; apply andb_prop in Ha; destruct Ha as [Hc _]; cbn [app prefix]; destruct (N.eqb_spec 60 c) as [<-|]; [vm_compute in Hc; discriminate|reflexivity]|].
        apply (yields_map' (VStr a)); [reflexivity|]. apply yields_str. apply parses_chars1; assumption.
      * rewrite app_length. destruct a; [contradiction|cbn [length]; lia].
    + destruct (W.strip W.s_comment_open s) as [r0|] eqn:E1.
      * rewrite Wstrip_same in E1. apply prefix_decomp in E1. destruct (W.p_comment_body r0) as [[b r1]|] eqn:Eb.
        -- destruct (W.p_miscs f r1) as [l' rest] eqn:Em. injection H as <- <-. destruct (IH _ _ _ Em Hst) as [ms [Hm [Hx Hd]]].
           exists (MiComment b :: ms). split; [|split; [cbn [x_miscs flat_map x_misc app]; fold (x_miscs ms); rewrite Hx; reflexivity|exact Hd]].
           cbn [map]. eapply my_step; [| |exact Hm].
           ++ rewrite E1. apply yields_nt. rewrite body_misc. apply yields_alt_l. apply (yields_map' (VComment b)); [reflexivity|]. apply conv_comment. exact Eb.
           ++ destruct (comment_body_inv _ _ _ _ (le_n _) Eb) as [-> _]. rewrite E1. cbn [app length]. rewrite !app_length. cbn [length]. lia.
        -- exfalso. injection H as _ <-. destruct Hst as [Hc _]. rewrite E1 in Hc. discriminate Hc.
      * destruct (W.strip W.s_pi_open s) as [r0|] eqn:E2.
        -- rewrite Wstrip_same in E2. pose proof E2 as E2'. apply prefix_decomp in E2. destruct (W.p_pi_body r0) as [[[tg dd] r1]|] eqn:Eb.
           ++ destruct (W.p_miscs f r1) as [l' rest] eqn:Em. injection H as <- <-. destruct (IH _ _ _ Em Hst) as [ms [Hm [Hx Hd]]].
              destruct (conv_pi _ _ _ _ Eb) as [Y Hnm].
              exists (MiPI (PI tg dd) :: ms). split; [|split; [cbn [x_miscs flat_map x_misc app]; fold (x_miscs ms); rewrite Hx; reflexivity|cbn [forallb d04_misc]; unfold d04_pi; cbn [pi_target]; rewrite Hnm; exact Hd]].
              cbn [map]. eapply my_step; [| |exact Hm].
              ** rewrite E2. apply yields_nt. rewrite body_misc. apply yields_alt_r; [apply fails_map; apply fails_comment; reflexivity|].
                 apply yields_alt_l. apply (yields_map' (VPI (PI tg dd))); [reflexivity|exact Y].
              ** pose proof (yields_length (NT nt_pi) _ _ _ eq_refl Y) as Hl. rewrite E2. 
                 destruct Y as [ty [[f0 Hy] _]]. specialize (Hy f0 (le_n _)). pose proof (den_S _ _ _ _ _ Hy eq_refl) as HS. apply pi_lt in HS. exact HS.
           ++ exfalso. injection H as _ <-. destruct Hst as [_ [Hc _]]. rewrite E2 in Hc. discriminate Hc.
        -- injection H as <- <-. exists []. split; [apply my_stop; apply fails_misc; exact Hst|split; reflexivity].
Qed.

(** ** the document without a DOCTYPE *)
Theorem conv_document_nodoctype (s : str) (xd : W.xdoc) : W.parse_document s = Some xd -> W.x_doctype xd = None ->
  xok (W.x_root xd) = true ->
  exists pd, ParseActions.parse_document s = POk (pd, []) /\ x_doc_nodt pd = xd /\ pr_declaration_doc (d_prolog pd) = None
             /\ d04_doc_nodt pd = true /\ p_element_ok (d_element pd).
Proof.
  unfold W.parse_document. set (fuel := Datatypes.S (length s)).
  intros H Hnd Hok.
  (* the XML declaration *)
  assert (exists (xo : option decl_xml) r0,
            match W.strip W.s_xmldecl_open s with
            | Some r => match W.p_xmldecl r with Some (d, r') => Some (Some d, r') | None => Some (None, s) end
            | None => Some (None, s) end = Some (option_map x_xmldecl xo, r0) /\
            yields (Opt (NT nt_xml_decl)) s (match xo with Some x => VSome (VDeclXml x) | None => VNone end) r0) as [xo [r0 [Ex Yx]]].
  { destruct (W.strip W.s_xmldecl_open s) as [r|] eqn:E1.
    - rewrite Wstrip_same in E1. pose proof E1 as E1'. apply prefix_decomp in E1. destruct (W.p_xmldecl r) as [[d r']|] eqn:E2.
      + destruct (conv_xml_decl _ _ _ E2) as [x [Y Xx]]. exists (Some x), r'. split; [cbn [option_map]; rewrite Xx; reflexivity|]. rewrite E1. apply yields_opt_some. exact Y.
      + exists None, s. split; [reflexivity|]. apply yields_opt_none. apply fails_of_no_succ. intros t r1 HS.
        apply syn_xml_decl in HS. destruct HS as [x [s' [_ [Es Hp]]]]. rewrite E1 in Es. apply app_inv_head in Es. subst s'. congruence.
    - exists None, s. split; [reflexivity|]. apply yields_opt_none. apply fails_xml_decl_tag. rewrite <- Wstrip_same. exact E1. }
  rewrite Ex in H. cbn [W.bind] in H.
  destruct (W.p_miscs fuel r0) as [m1 r1] eqn:Em1.
  destruct (W.strip W.s_doctype r1) as [rd|] eqn:Ed.
  { exfalso. destruct (W.p_doctype fuel rd) as [[d r']|]; [|discriminate H]. cbn [W.bind] in H. destruct (W.p_miscs fuel r') as [m r'']. cbn [W.bind] in H.
    destruct (W.p_element fuel r'') as [[root r3]|]; [|discriminate H]. cbn [W.bind] in H. destruct (W.p_miscs fuel r3) as [m3 r4]. destruct r4; [|discriminate H].
    injection H as <-. discriminate Hnd. }
  cbn [W.bind] in H. destruct (W.p_element fuel r1) as [[root r3]|] eqn:Ee; [|discriminate H]. cbn [W.bind] in H.
  destruct (W.p_miscs fuel r3) as [m3 r4] eqn:Em3. destruct r4 as [|c4 r4]; [|discriminate H]. injection H as <-. cbn [W.x_root] in Hok.
  destruct (conv_element _ _ _ _ Ee Hok) as [e [Ye [Xe [De Oe]]]].
  assert (misc_stop r1 /\ prefix [60;33;68;79;67;84;89;80;69] r1 = None) as [Hstop1 Hnodt].
  { destruct Ye as [te [[f0 Hy] _]]. specialize (Hy f0 (le_n _)). pose proof (den_S _ _ _ _ _ Hy eq_refl) as HS.
    destruct (element_start _ _ _ HS) as [c [s0 [-> Hc]]]. destruct (start_tests c s0 Hc) as [H1 [_ H3]]. split; [exact H1|rewrite <- Wstrip_same; exact H3]. }
  destruct (conv_miscs _ _ _ _ Em1 Hstop1) as [ms1 [Hm1 [Xm1 Dm1]]].
  destruct (conv_miscs _ _ _ _ Em3 misc_stop_nil) as [ms3 [Hm3 [Xm3 Dm3]]].
  exists (Document (Prolog xo ms1 None []) e ms3). split; [|split; [|split; [reflexivity|split; [|exact Oe]]]].
  - unfold ParseActions.parse_document. eapply (parse_with_yields _ _ _ (VDocument (Document (Prolog xo ms1 None []) e ms3))); [|reflexivity]. apply yields_nt. rewrite body_document.
    eapply yields_map'; [apply al_document|]. eapply yields_seq.
    + apply yields_nt. rewrite body_prolog. eapply yields_map'; [apply (al_prolog_none xo ms1)|].
      eapply yields_seq; [exact Yx|]. eapply yields_seq; [apply yields_many0; exact Hm1|].
      apply yields_opt_none. apply fails_seq_l. apply fails_doctype_tag. exact Hnodt.
    + eapply yields_seq; [exact Ye|]. apply yields_many0. exact Hm3.
  - unfold x_doc_nodt. cbn [d_prolog pr_declaration_xml pr_heads d_element d_miscs]. rewrite Xm1, Xe, Xm3. reflexivity.
  - unfold d04_doc_nodt. cbn [d_prolog pr_heads d_element d_miscs]. rewrite Dm1, De, Dm3. reflexivity.
Qed.
