"""Shared machinery of the checks (see DESIGN.md section 2.2).

Every check: regenerate Gen/*.v from /repo, rebuild the Coq closure of its property file,
read `Print Assumptions`, rebuild harness + extracted model, run the correspondence and the
failing-input search, match failures against known_findings.json, write the evidence."""
import fcntl, hashlib, json, os, random, re, subprocess, sys, time

VERIF = os.path.dirname(os.path.dirname(os.path.abspath(__file__)))
REPO = os.environ.get('VERIF_REPO', '/repo')
COQ = os.path.join(VERIF, 'coq')
WORK = os.path.join(VERIF, 'work')
REPLAYS = os.path.join(VERIF, 'replays')
EVIDENCE = os.path.join(VERIF, 'evidence')
HARNESS = os.environ.get('VERIF_HARNESS', os.path.join(VERIF, 'harness'))
OCAML = os.path.join(VERIF, 'ocaml')
NPROC = os.cpu_count() or 4

ENV = dict(os.environ)
ENV.update({'CARGO_NET_OFFLINE': 'true', 'CARGO_TERM_COLOR': 'never', 'RUST_BACKTRACE': '0'})

AXIOM_ALLOW = {
    # standard-library axioms that may appear (Flocq / Reals only); everything else must be closed
    'ClassicalDedekindReals.sig_forall_dec', 'ClassicalDedekindReals.sig_not_dec',
    'FunctionalExtensionality.functional_extensionality_dep', 'Classical_Prop.classic',
}

FORBIDDEN = re.compile(r'\b(Admitted|admit|Axiom|Axioms|Parameter|Parameters|Conjecture|Abort All)\b|Unset Guard|bypass_check|type-in-type|Unset Positivity|Unset Universe|Admit Obligations|impredicative-set')

def log(*a):
    print(*a, flush=True)

def sh(cmd, cwd=None, timeout=None, input=None, env=None):
    t0 = time.time()
    try:
        p = subprocess.run(cmd, cwd=cwd, timeout=timeout, input=input, env=env or ENV,
                           stdout=subprocess.PIPE, stderr=subprocess.STDOUT, shell=isinstance(cmd, str))
        return p.returncode, p.stdout.decode('utf-8', 'replace'), time.time() - t0
    except subprocess.TimeoutExpired as e:
        out = (e.stdout or b'').decode('utf-8', 'replace')
        return 124, out + '\n[timeout after %ss]' % timeout, time.time() - t0

def _limits():
    """resource limits of every harness / driver process: a regression that makes a traversal blow
    up must end that process (reported as a crash), not the machine"""
    import resource
    gb = int(os.environ.get('VERIF_MEM_GB', '6'))
    try:
        resource.setrlimit(resource.RLIMIT_AS, (gb << 30, gb << 30))
    except Exception:
        pass

class Lock:
    """serialises use of the shared build directories"""
    def __enter__(self):
        os.makedirs(WORK, exist_ok=True)
        self.f = open(os.path.join(WORK, 'lock'), 'w')
        fcntl.flock(self.f, fcntl.LOCK_EX)
        return self
    def __exit__(self, *a):
        fcntl.flock(self.f, fcntl.LOCK_UN)
        self.f.close()

# ------------------------------------------------------------------ translators
TRANSLATORS = {
    'T1': ['python3', os.path.join(VERIF, 'tools/rs2v/xmlchar.py')],
    'T2': ['python3', os.path.join(VERIF, 'tools/rs2v/grammar.py')],
    'T3': ['python3', os.path.join(VERIF, 'tools/rs2v/functable.py')],
    'T4': ['python3', os.path.join(VERIF, 'tools/rs2v/panicsites.py')],
}

def regen(which=None):
    """run the translators; returns {name: (ok, message)}"""
    res = {}
    for name, cmd in TRANSLATORS.items():
        if which is not None and name not in which:
            continue
        if not os.path.exists(cmd[1]):
            continue
        rc, out, _ = sh(cmd + [REPO], timeout=120)
        res[name] = (rc == 0, out.strip())
    return res

# ------------------------------------------------------------------ Coq
def ensure_makefile():
    sh(['python3', os.path.join(VERIF, 'bin/mkcoqproject')], timeout=60)
    mk = os.path.join(COQ, 'Makefile')
    cp = os.path.join(COQ, '_CoqProject')
    if not os.path.exists(mk) or os.path.getmtime(mk) < os.path.getmtime(cp):
        sh(['coq_makefile', '-f', '_CoqProject', '-o', 'Makefile'], cwd=COQ, timeout=60)

def coq_make(targets, timeout=900, clean=False):
    """full .vo build of the given targets; returns (ok, output, seconds)"""
    ensure_makefile()
    if clean:
        for t in targets:
            closure = coq_closure(t[:-1] if t.endswith('.vo') else t)
            for f in closure:
                for ext in ('o', 'os', 'ok'):
                    try: os.remove(os.path.join(COQ, f + ext))
                    except OSError: pass
    rc, out, dt = sh(['make', '-j%d' % NPROC] + targets, cwd=COQ, timeout=timeout)
    return rc == 0, out, dt

REQ = re.compile(r'From\s+XmlRs\s+Require\s+(?:Import|Export)?\s*([^.]*(?:\.[A-Za-z_][^.\s]*)*)\s*\.\s', re.S)

def coq_closure(vfile):
    """transitive XmlRs dependencies of theories/.../X.v (paths relative to coq/), via coqdep"""
    seen, todo = [], [vfile]
    while todo:
        f = todo.pop()
        if f in seen: continue
        seen.append(f)
        try:
            src = open(os.path.join(COQ, f)).read()
        except OSError:
            continue
        src = re.sub(r'\(\*.*?\*\)', ' ', src, flags=re.S)
        for m in re.finditer(r'From\s+XmlRs\s+Require\s+(?:Import\s+|Export\s+)?(.*?)\.(?=\s)', src, re.S):
            for mod in m.group(1).split():
                path = 'theories/' + mod.replace('.', '/') + '.v'
                if path not in seen: todo.append(path)
    return seen

OBL = re.compile(r'^\s*(?:Local\s+|Global\s+|#\[[^\]]*\]\s*)?(Theorem|Lemma|Corollary|Example|Fact|Proposition|Remark)\s+([A-Za-z_][A-Za-z0-9_\']*)', re.M)

def obligations(vfile):
    """named proof obligations (statement names) in the hand-written closure of a property file"""
    out = []
    for f in coq_closure(vfile):
        try:
            src = open(os.path.join(COQ, f)).read()
        except OSError:
            continue
        for m in OBL.finditer(src):
            line = src.count('\n', 0, m.start()) + 1
            out.append((f, m.group(2), line))
    return out

ERR = re.compile(r'File "\./?([^"]+)", line (\d+), characters [\d-]+:\s*\n(Error:.*?)(?=\nmake|\nFile |\Z)', re.S)

def coq_errors(out):
    return [(m.group(1), int(m.group(2)), ' '.join(m.group(3).split())[:400]) for m in ERR.finditer(out)]

def discharged(obls, errors, make_ok):
    """obligations whose file compiled, or that precede the first error of their file"""
    if make_ok:
        return list(obls), []
    bad = {}
    for f, line, msg in errors:
        bad[f] = min(line, bad.get(f, 10 ** 9))
    done, failed = [], []
    closure_bad = set(bad)
    for f, name, line in obls:
        vo = os.path.join(COQ, f + 'o')
        if f in bad:
            (done if line < bad[f] and not _statement_spans(f, line, bad[f]) else failed).append((f, name, line))
        elif os.path.exists(vo) and os.path.getmtime(vo) >= os.path.getmtime(os.path.join(COQ, f)):
            done.append((f, name, line))
        else:
            failed.append((f, name, line))
    return done, failed

def _statement_spans(f, start, errline):
    """True when the error line lies inside the proof that starts at `start`"""
    try:
        lines = open(os.path.join(COQ, f)).read().split('\n')
    except OSError:
        return True
    for i in range(start - 1, min(len(lines), errline)):
        if re.search(r'\b(Qed|Defined)\s*\.', lines[i]) and i + 1 < errline:
            return False
    return True

def forbidden_scan():
    """no Admitted/admit/Axiom/... anywhere in the development (comments are stripped first)"""
    hits = []
    for root, _, files in os.walk(COQ):
        for fn in files:
            if not fn.endswith('.v'): continue
            p = os.path.join(root, fn)
            src = open(p).read()
            src = strip_coq_comments(src)
            for m in FORBIDDEN.finditer(src):
                hits.append('%s:%d: %s' % (os.path.relpath(p, COQ), src.count('\n', 0, m.start()) + 1, m.group(0)))
    return hits

def strip_coq_comments(src):
    out, depth, i, n = [], 0, 0, len(src)
    in_str = False
    while i < n:
        if not in_str and src.startswith('(*', i):
            depth += 1; i += 2; continue
        if not in_str and depth and src.startswith('*)', i):
            depth -= 1; i += 2; continue
        c = src[i]
        if depth == 0:
            if c == '"': in_str = not in_str
            out.append(c)
        elif c == '\n':
            out.append(c)
        i += 1
    return ''.join(out)

def assumptions(prop):
    """Print Assumptions of every Theorem of Properties/<prop>.v -> {theorem: [axioms]}"""
    vfile = os.path.join(COQ, 'theories/Properties/%s.v' % prop)
    src = strip_coq_comments(open(vfile).read())
    names = [m.group(2) for m in OBL.finditer(src) if m.group(1) == 'Theorem']
    os.makedirs(WORK, exist_ok=True)
    q = os.path.join(WORK, 'Assm_%s.v' % prop)
    with open(q, 'w') as f:
        f.write('From XmlRs Require Import Properties.%s.\n' % prop)
        for n in names:
            f.write('Goal True. idtac "@@ %s". exact I. Qed.\nPrint Assumptions %s.\n' % (n, n))
    rc, out, _ = sh(['coqc', '-noglob', '-Q', os.path.join(COQ, 'theories'), 'XmlRs', q], cwd=WORK, timeout=600)
    res = {}
    if rc != 0:
        return None, out
    cur = None
    for line in out.split('\n'):
        if line.startswith('@@ '):
            cur = line[3:].strip(); res[cur] = []
        elif cur is not None:
            m = re.match(r'^([A-Za-z_][\w.\']*)\s*:', line)
            if m and not line.startswith('Closed under') and not line.startswith('Axioms'):
                res[cur].append(m.group(1))
    for ext in ('vo', 'vos', 'vok', 'glob'):
        try: os.remove(os.path.join(WORK, 'Assm_%s.%s' % (prop, ext)))
        except OSError: pass
    return res, out

def coq_eval(imports, exprs, timeout=300):
    """evaluate closed Gallina terms with vm_compute; returns the raw output chunks"""
    os.makedirs(WORK, exist_ok=True)
    tag = 'Q%d_%d' % (os.getpid(), int(time.time() * 1000) % 100000)
    q = os.path.join(WORK, tag + '.v')
    with open(q, 'w') as f:
        f.write(imports + '\n')
        for i, e in enumerate(exprs):
            f.write('Goal True. idtac "@@ %d". exact I. Qed.\nEval vm_compute in (%s).\n' % (i, e))
    rc, out, _ = sh(['coqc', '-noglob', '-Q', os.path.join(COQ, 'theories'), 'XmlRs', q], cwd=WORK, timeout=timeout)
    for ext in ('v', 'vo', 'vos', 'vok', 'glob'):
        try: os.remove(os.path.join(WORK, tag + '.' + ext))
        except OSError: pass
    chunks = re.split(r'@@ \d+\n', out)[1:]
    return rc == 0, [' '.join(c.split()) for c in chunks], out

# ------------------------------------------------------------------ harness / model binaries
def cargo_build(release=False, timeout=1200):
    lockfile = os.path.join(HARNESS, 'Cargo.lock')
    cmd = ['cargo', 'build', '--offline'] + (['--release'] if release else [])
    rc, out, dt = sh(cmd, cwd=HARNESS, timeout=timeout)
    return rc == 0, out, dt

def rust_bin(release=False):
    return os.path.join(HARNESS, 'target', 'release' if release else 'debug', 'xh')

def ocaml_build(targets, timeout=900):
    """targets: ['model_<area>', 'spec_<area>', ...]"""
    rc, out, dt = sh(['sh', os.path.join(OCAML, 'build.sh')] + list(targets), cwd=OCAML, timeout=timeout)
    return rc == 0, out, dt

def model_bin(area):
    return os.path.join(OCAML, '_build', 'model_' + area)

def spec_bin(area):
    return os.path.join(OCAML, '_build', 'spec_' + area)

def run_bin(binary, args, cases=None, timeout=600, shards=1):
    """feed `cases` (list of lines) to `binary args`, return the output lines"""
    if cases is None:
        rc, out, _ = sh([binary] + args, timeout=timeout)
        return rc, out.split('\n')[:-1] if out.endswith('\n') else out.split('\n')
    if shards <= 1 or len(cases) < 4 * shards:
        data = ('\n'.join(cases) + '\n').encode('utf-8')
        try:
            p = subprocess.run([binary] + args, input=data, stdout=subprocess.PIPE, stderr=subprocess.PIPE, timeout=timeout, env=ENV, preexec_fn=_limits)
            lines = p.stdout.decode('utf-8', 'replace').split('\n')
            if lines and lines[-1] == '': lines.pop()
            return p.returncode, lines
        except subprocess.TimeoutExpired:
            return 124, []
    # sharded
    procs = []
    n = len(cases)
    step = (n + shards - 1) // shards
    outs = []
    for k in range(0, n, step):
        chunk = cases[k:k + step]
        p = subprocess.Popen([binary] + args, stdin=subprocess.PIPE, stdout=subprocess.PIPE, stderr=subprocess.DEVNULL, env=ENV, preexec_fn=_limits)
        procs.append((p, chunk))
    import threading
    results = [None] * len(procs)
    def work(i, p, chunk):
        try:
            o, _ = p.communicate(('\n'.join(chunk) + '\n').encode('utf-8'), timeout=timeout)
            lines = o.decode('utf-8', 'replace').split('\n')
            if lines and lines[-1] == '': lines.pop()
            results[i] = (p.returncode, lines)
        except subprocess.TimeoutExpired:
            p.kill(); results[i] = (124, [])
    ths = [threading.Thread(target=work, args=(i, p, c)) for i, (p, c) in enumerate(procs)]
    for t in ths: t.start()
    for t in ths: t.join()
    rc = 0; lines = []
    for (r, l), (_, chunk) in zip(results, procs):
        if r != 0: rc = r
        if len(l) < len(chunk):
            l = l + ['crash'] * (len(chunk) - len(l))
        lines += l
    return rc, lines

def run_isolated(binary, args, case, timeout=10, stack_kb=65536):
    """one case in its own process with time and stack limits -> (class, output line)"""
    cmd = 'ulimit -s %d; exec "$0" "$@"' % stack_kb
    try:
        p = subprocess.run(['sh', '-c', cmd, binary] + args, input=(case + '\n').encode(), stdout=subprocess.PIPE,
                           stderr=subprocess.PIPE, timeout=timeout, env=ENV)
    except subprocess.TimeoutExpired:
        return 'hang', ''
    out = p.stdout.decode('utf-8', 'replace').strip()
    if p.returncode < 0 or p.returncode >= 128:
        return 'abort', out
    return 'ok', out

# ------------------------------------------------------------------ strings
def enc(s):
    return ','.join(str(ord(c)) for c in s) if s else '-'

def dec(s):
    return '' if s == '-' else ''.join(chr(int(x)) for x in s.split(','))

# ------------------------------------------------------------------ findings, evidence, verdict
def known_findings(prop):
    p = os.path.join(VERIF, 'known_findings.json')
    try:
        data = json.load(open(p))
    except OSError:
        return []
    return [e for e in data.get('entries', []) if e.get('property') == prop and e.get('kind') == 'finding']

def git_head(path):
    rc, out, _ = sh(['git', '-C', path, 'rev-parse', '--short', 'HEAD'])
    return out.strip() if rc == 0 else '?'

def repo_tree_hash():
    """hash of the Rust sources of /repo's working tree (tracked or not)"""
    h = hashlib.sha256()
    for root, dirs, files in os.walk(REPO):
        dirs[:] = sorted(d for d in dirs if d not in ('target', '.git'))
        for fn in sorted(files):
            if fn.endswith(('.rs', '.toml', '.lock')):
                p = os.path.join(root, fn)
                h.update(os.path.relpath(p, REPO).encode()); h.update(open(p, 'rb').read())
    return h.hexdigest()[:16]

class Run:
    """state of one check run: collects obligations, cases, failures, and writes the evidence"""
    def __init__(self, prop, tier, seed):
        self.prop, self.tier, self.seed = prop, tier, seed
        self.t0 = time.time()
        self.obligations = 0
        self.discharged = 0
        self.failed_obligations = []     # (file, name, line) or strings
        self.tie_breaks = []             # strings: translator / correspondence failures
        self.failing_inputs = []         # dicts {what, input, ...}: property violated on the implementation
        self.known_hits = {}             # finding id -> count
        self.evaluations = 0
        self.nontrivial = set()
        self.samples = []
        self.hist = {}
        self.axioms = {}
        self.notes = []
        self.trusted = []
        self.checker_cmd = ''
        self.extra = {}
        self.rng = random.Random(seed)
    def count(self, key, n=1):
        self.hist[key] = self.hist.get(key, 0) + n
    def sample(self, s, limit=12):
        if len(self.samples) < limit:
            self.samples.append(s)
    def write_replay(self, name, obj):
        os.makedirs(REPLAYS, exist_ok=True)
        p = os.path.join(REPLAYS, '%s_%s.json' % (self.prop, name))
        with open(p, 'w') as f:
            json.dump(obj, f, indent=1, ensure_ascii=False)
        return p
    def finish(self, level='proof', rule='', assumptions=None):
        """decide, print KNOWN-FINDING / VIOLATION lines, write evidence, return exit code"""
        violations = 0
        for fid, (what, n) in sorted(self.known_hits.items()):
            log('KNOWN-FINDING: property=%s %s [%s, %d case(s)]' % (self.prop, what, fid, n))
        seen = set()
        for k, fi in enumerate(self.failing_inputs):
            key = fi.get('class', fi.get('what', ''))
            if key in seen and k >= 5:
                continue
            seen.add(key)
            p = self.write_replay('fail%d' % k, fi)
            log('VIOLATION property=%s replay=%s' % (self.prop, p))
            violations += 1
        if not self.failing_inputs and (self.failed_obligations or self.tie_breaks):
            p = self.write_replay('unproved', {
                'property': self.prop,
                'failed_obligations': ['%s: %s (line %s)' % tuple(o) if isinstance(o, tuple) else o for o in self.failed_obligations],
                'tie_breaks': self.tie_breaks,
                'note': 'the property is no longer shown to hold; the search found no concrete failing input'})
            for o in self.failed_obligations[:4]:
                log('note: unproved: %s' % (('%s: %s (line %s)' % tuple(o)) if isinstance(o, tuple) else str(o)[:300]))
            for t in self.tie_breaks[:4]:
                log('note: tie broken: %s' % str(t)[:400])
            log('VIOLATION property=%s replay=%s no-failing-input-found' % (self.prop, p))
            violations += 1
        cov = {
            'obligations': self.obligations,
            'discharged': self.discharged,
            'checker_cmd': self.checker_cmd,
            'trusted_base': self.trusted,
            'evaluations': self.evaluations,
            'distinct_nontrivial': len(self.nontrivial),
            'rule': rule,
            'samples': self.samples[:12] or ['(no cases run)'],
            'histogram': self.hist,
            'axioms': self.axioms,
            'failed_obligations': [('%s: %s' % (o[0], o[1])) if isinstance(o, tuple) else o for o in self.failed_obligations],
            'tie_breaks': self.tie_breaks,
            'known_findings_hit': {k: v[1] for k, v in self.known_hits.items()},
            'repo_head': git_head(REPO), 'repo_tree': repo_tree_hash(), 'verif_head': git_head(VERIF),
            'notes': self.notes,
        }
        cov.update(self.extra)
        # keep the keys the evidence schema types in the types it wants
        if 'exhaustive' in cov and not isinstance(cov['exhaustive'], bool):
            cov['exhaustive_scope'] = cov['exhaustive']; cov['exhaustive'] = bool(cov['exhaustive'])
        for k in ('states', 'transitions', 'traces_validated_against_impl', 'programs', 'disagreements_checked', 'evaluations', 'distinct_nontrivial', 'obligations', 'discharged'):
            if k in cov and not isinstance(cov[k], int):
                try: cov[k] = int(cov[k])
                except Exception: cov[k + '_note'] = str(cov.pop(k))
        if not isinstance(cov.get('samples'), list) or not cov['samples']:
            cov['samples'] = ['(no cases run)']
        LEVELS = ('exploration', 'fault_enumeration', 'model_checking', 'proof', 'translation_validation', 'other')
        if level not in LEVELS:
            cov['level_detail'] = level
            level = next((l for l in LEVELS if level.startswith(l)), 'other')
        ev = {
            'property_id': self.prop, 'tier': self.tier, 'seed': self.seed, 'level': level,
            'coverage': cov,
            'assumptions': assumptions or [],
            'wall_s': round(time.time() - self.t0, 2),
            'violations': violations,
        }
        os.makedirs(EVIDENCE, exist_ok=True)
        with open(os.path.join(EVIDENCE, '%s.json' % self.prop), 'w') as f:
            json.dump(ev, f, indent=1, ensure_ascii=False)
        log('%s %s: obligations %d/%d, cases %d (%d distinct non-trivial), %d violation(s), %.1fs'
            % (self.prop, self.tier, self.discharged, self.obligations, self.evaluations, len(self.nontrivial), violations, time.time() - self.t0))
        return 1 if violations else 0

def proof_step(run, prop, translators, timeout=900, extra_targets=()):
    """regenerate, build the closure of Properties/<prop>.vo, collect obligations and axioms.
    Returns (True when every obligation is discharged and the axioms are allowed, make output)."""
    with Lock():
        tr = regen(translators)
        for name, (ok, msg) in tr.items():
            if not ok:
                run.tie_breaks.append('translator %s: %s' % (name, msg.split('\n')[-1]))
        vfile = 'theories/Properties/%s.v' % prop
        obls = obligations(vfile)
        run.obligations = len(obls)
        ok, out, dt = coq_make([vfile + 'o'] + list(extra_targets), timeout=timeout, clean=(run.tier == 'thorough' and os.environ.get('VERIF_NO_CLEAN') is None))
        errs = coq_errors(out)
        done, failed = discharged(obls, errs, ok)
        run.discharged = len(done)
        run.failed_obligations = failed
        if not ok and not failed:
            run.failed_obligations = ['build of %so failed: %s' % (vfile, (errs[0][2] if errs else out[-300:]))]
        for f, line, msg in errs:
            run.notes.append('coq error %s:%d %s' % (f, line, msg))
        run.checker_cmd = 'make -C coq -j%d %so  (coqc 8.16.1, full .vo build)' % (NPROC, vfile)
        hits = forbidden_scan()
        if hits:
            run.failed_obligations.append('forbidden construct in development: ' + '; '.join(hits[:5]))
        if ok:
            ax, raw = assumptions(prop)
            if ax is None:
                run.failed_obligations.append('Print Assumptions failed: ' + raw[-300:])
            else:
                run.axioms = ax
                for th, l in ax.items():
                    for a in l:
                        if a not in AXIOM_ALLOW:
                            run.failed_obligations.append('theorem %s depends on axiom %s' % (th, a))
            if run.tier == 'thorough':
                rc, o, dt2 = sh(['coqchk', '-silent', '-o', '-Q', 'theories', 'XmlRs', 'XmlRs.Properties.%s' % prop], cwd=COQ, timeout=1800)
                run.extra['coqchk'] = ' '.join(o.split())[-600:]
                if rc != 0:
                    run.failed_obligations.append('coqchk failed: ' + o[-300:])
        return ok and not run.failed_obligations and not run.tie_breaks, out

def build_binaries(run, model_areas=(), spec_areas=(), release=False):
    """harness against /repo's working tree; extraction + driver for the given areas.
    Returns (harness ok, {area: ok} for models, {area: ok} for specs)."""
    with Lock():
        regen()      # other runs may have regenerated Gen/ from another tree since proof_step
        ok1, out1, _ = cargo_build(release)
        if not ok1:
            run.tie_breaks.append('harness build failed: ' + out1[-400:])
        ensure_makefile()
        mok, sok = {}, {}
        for kind, areas, res in (('model', model_areas, mok), ('spec', spec_areas, sok)):
            for a in areas:
                okx, outx, _ = coq_make(['extraction/Extract_%s_%s.vo' % (kind, a)], timeout=900)
                if okx:
                    okx, outx, _ = ocaml_build(['%s_%s' % (kind, a)])
                res[a] = okx
                if not okx:
                    run.tie_breaks.append('%s driver for area %s does not build: %s' % (kind, a, ' '.join(outx.split())[-300:]))
    return ok1, mok, sok

def parse_args(argv):
    import argparse
    ap = argparse.ArgumentParser()
    ap.add_argument('prop')
    ap.add_argument('--tier', default=os.environ.get('VERIF_TIER', 'quick'))
    ap.add_argument('--replay', default=None)
    ap.add_argument('--seed', type=int, default=int(os.environ.get('VERIF_SEED', '20260923')))
    return ap.parse_args(argv)
