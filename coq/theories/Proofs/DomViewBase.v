(** * C01, the DOM view: list-level facts used by the proofs about [Model.DomView].

    - [mr]: [merge_raw] with the pending run returned (so that it distributes over [++]);
    - [item_tokens2] / [items_tokens2]: the tokens of a specification tree in the merged-text view of the
      IMPLEMENTATION: as [Spec.Infoset.item_tokens], but a maximal run of character data that has at least one
      item gives a text token even when its characters are none (listed finding WF14); [tokens2_drop]: dropping
      the empty text tokens gives [item_tokens]; hence the two coincide when there is no empty text token;
    - rows: [row_sort] (the order of Rust's sort of (String, String) pairs) coincides with the specification's
      [sort_by fst] when the names are distinct;
    - strings: [normalize_ws], [split_filter_join] against the specification's functions. *)
From Coq Require Import List NArith Arith Lia Bool Permutation Sorting.Sorted.
From XmlRs Require Import Base.CPred Spec.XmlChars Model.Peg Model.ParseActions Model.Info Model.DomView
  Proofs.XmlWFSyntaxLex.
From XmlRs Require Spec.XmlWF Spec.Infoset Proofs.XmlWFSyntaxRenderTokens Proofs.XmlWFSyntaxConvCheck Proofs.Expansion Proofs.XmlWFRender.
Import ListNotations.
Local Open Scope N_scope.

Module RT := Proofs.XmlWFSyntaxRenderTokens.
Module CV := Proofs.XmlWFSyntaxConvCheck.
Notation token := Infoset.token.
Notation TText := Infoset.TText.

(** ** [merge_raw] with the pending run as a result *)
Definition ostr (a : option str) : str := match a with Some s => s | None => [] end.
Definition fl (a : option str) : list token := match a with Some (c :: s) => [TText (c :: s)] | _ => [] end.
Definition add (a : option str) (s : str) : option str := Some (ostr a ++ s).

Fixpoint mr (l : list dtoken) (acc : option str) : list token * option str :=
  match l with
  | [] => ([], acc)
  | KTok (Infoset.TText s) :: t => mr t (add acc s)
  | KCData s :: t => mr t (add acc s)
  | KCharRef s :: t => mr t (add acc s)
  | KRef n (Some v) :: t => mr t (add acc v)
  | x :: t => let (o, a) := mr t None in (fl acc ++ plain_token x :: o, a)
  end.

Lemma merge_raw_mr l : forall acc, merge_raw l acc = fst (mr l acc) ++ fl (snd (mr l acc)).
Proof.
  induction l as [|x l IH]; intros acc.
  - cbn [merge_raw mr fst snd app]. destruct acc as [[|c s]|]; reflexivity.
  - assert (Hadd : forall s, Some (match acc with Some a => a ++ s | None => s end) = add acc s)
      by (intros s; destruct acc; reflexivity).
    
    destruct x as [t|s|s|n [v|]|n|]; cbn [merge_raw mr].
    + destruct t; try (rewrite IH; destruct (mr l None) as [o a]; cbn [fst snd plain_token]; rewrite <- app_assoc; reflexivity).
      rewrite Hadd. apply IH.
    + rewrite Hadd. apply IH.
    + rewrite Hadd. apply IH.
    + rewrite Hadd. apply IH.
    + rewrite IH. destruct (mr l None) as [o a]. cbn [fst snd plain_token]. rewrite <- app_assoc. reflexivity.
    + rewrite IH. destruct (mr l None) as [o a]. cbn [fst snd plain_token]. rewrite <- app_assoc. reflexivity.
    + rewrite IH. destruct (mr l None) as [o a]. cbn [fst snd plain_token]. rewrite <- app_assoc. reflexivity.
Qed.

Lemma mr_app l1 : forall l2 acc, mr (l1 ++ l2) acc =
  let (o1, a1) := mr l1 acc in let (o2, a2) := mr l2 a1 in (o1 ++ o2, a2).
Proof.
  induction l1 as [|x l1 IH]; intros l2 acc.
  - cbn [app mr]. destruct (mr l2 acc); reflexivity.
  - destruct x as [t|s|s|n [v|]|n|]; cbn [app mr]; try apply IH;
      try (rewrite IH; destruct (mr l1 None) as [o1 a1]; destruct (mr l2 a1) as [o2 a2]; rewrite <- app_assoc; reflexivity).
    destruct t; try apply IH;
      (rewrite IH; destruct (mr l1 None) as [o1 a1]; destruct (mr l2 a1) as [o2 a2]; rewrite <- app_assoc; reflexivity).
Qed.

(** a token that is no character data *)
Definition is_mark (x : dtoken) : bool :=
  match x with
  | KTok (Infoset.TText _) | KCData _ | KCharRef _ | KRef _ (Some _) => false
  | _ => true
  end.
Lemma mr_mark x t acc : is_mark x = true -> mr (x :: t) acc = let (o, a) := mr t None in (fl acc ++ plain_token x :: o, a).
Proof. destruct x as [u|s|s|n [v|]|n|]; try discriminate; try reflexivity. destruct u; try discriminate; reflexivity. Qed.

Lemma mr_marks (l : list dtoken) : forallb is_mark l = true -> mr l None = (map plain_token l, None).
Proof.
  induction l as [|x l IH]; intros H; [reflexivity|]. cbn [forallb] in H. apply andb_true_iff in H. destruct H as [Hx Hl].
  rewrite (mr_mark x l None Hx), (IH Hl). reflexivity.
Qed.

(** the specification keeps the pending run reversed *)
Lemma flush_fl (a : option str) : Infoset.flush (rev (ostr a)) = fl a.
Proof.
  destruct a as [[|c s]|]; try reflexivity. unfold Infoset.flush, fl, ostr.
  destruct (rev (c :: s)) eqn:E; [apply (f_equal (@rev _)) in E; rewrite rev_involutive in E; discriminate|].
  rewrite <- E, rev_involutive. reflexivity.
Qed.

Lemma ostr_add a s : rev (ostr (add a s)) = rev s ++ rev (ostr a).
Proof. unfold add, ostr at 1. apply rev_app_distr. Qed.

(** ** the merged-text view of a specification tree as the implementation has it *)
Definition fl2 (st : bool) (acc : str) : list token := if st then [TText (rev acc)] else [].

Section Tok2.
Variable fuel : nat.
Variable en : W.env.
Variable sub : list W.decl.

Fixpoint item_tokens2 (x : W.xcontent) (st : bool) (acc : str) : list token * (bool * str) :=
  match x with
  | W.XChar c => ([], (true, c :: acc))
  | W.XCData s => ([], (true, rev s ++ acc))
  | W.XCharRef n => ([], (true, n :: acc))
  | W.XEntRef nm => (fl2 st acc ++ [Infoset.TUnexp nm], (false, []))
  | W.XComment s => (fl2 st acc ++ [Infoset.TComment s], (false, []))
  | W.XPI t d => (fl2 st acc ++ [Infoset.TPI t (Infoset.opt_str d)], (false, []))
  | W.XExp _ items =>
    let (o, sa) := (fix go (l : list W.xcontent) (st : bool) (acc : str) : list token * (bool * str) :=
                      match l with
                      | [] => ([], (st, acc))
                      | y :: t => let (o1, s1) := item_tokens2 y st acc in
                                  let (o2, s2) := go t (fst s1) (snd s1) in (o1 ++ o2, s2)
                      end) items st acc in
    (o, (true, snd sa))
  | W.XElem nm atts _ kids =>
    let (o, sa) := (fix go (l : list W.xcontent) (st : bool) (acc : str) : list token * (bool * str) :=
                      match l with
                      | [] => ([], (st, acc))
                      | y :: t => let (o1, s1) := item_tokens2 y st acc in
                                  let (o2, s2) := go t (fst s1) (snd s1) in (o1 ++ o2, s2)
                      end) kids false [] in
    (fl2 st acc ++ Infoset.TElem nm :: Infoset.attr_tokens fuel en sub nm atts ++ o ++ fl2 (fst sa) (snd sa) ++ [Infoset.TEndElem],
     (false, []))
  end.

Fixpoint items_tokens2 (l : list W.xcontent) (st : bool) (acc : str) : list token * (bool * str) :=
  match l with
  | [] => ([], (st, acc))
  | y :: t => let (o1, s1) := item_tokens2 y st acc in
              let (o2, s2) := items_tokens2 t (fst s1) (snd s1) in (o1 ++ o2, s2)
  end.

Lemma go_tokens2 : forall l st acc,
  (fix go (l : list W.xcontent) (st : bool) (acc : str) : list token * (bool * str) :=
     match l with
     | [] => ([], (st, acc))
     | y :: t => let (o1, s1) := item_tokens2 y st acc in
                 let (o2, s2) := go t (fst s1) (snd s1) in (o1 ++ o2, s2)
     end) l st acc = items_tokens2 l st acc.
Proof.
  induction l as [|y l IH]; intros st acc; [reflexivity|]. cbn [items_tokens2].
  match goal with |- ?L = _ => let L' := eval cbv beta iota fix in L in change L with L' end.
  destruct (item_tokens2 y st acc) as [o1 s1]. rewrite IH. reflexivity.
Qed.

Lemma item_tokens2_exp nm items st acc : item_tokens2 (W.XExp nm items) st acc =
  let (o, sa) := items_tokens2 items st acc in (o, (true, snd sa)).
Proof.
  exact (f_equal (fun z : list token * (bool * str) => let (o, sa) := z in (o, (true, snd sa))) (go_tokens2 items st acc)).
Qed.

Lemma item_tokens2_elem nm atts et kids st acc : item_tokens2 (W.XElem nm atts et kids) st acc =
  let (o, sa) := items_tokens2 kids false [] in
  (fl2 st acc ++ Infoset.TElem nm :: Infoset.attr_tokens fuel en sub nm atts ++ o ++ fl2 (fst sa) (snd sa) ++ [Infoset.TEndElem], (false, [])).
Proof.
  exact (f_equal (fun z : list token * (bool * str) => let (o, sa) := z in
                    (fl2 st acc ++ Infoset.TElem nm :: Infoset.attr_tokens fuel en sub nm atts ++ o ++ fl2 (fst sa) (snd sa) ++ [Infoset.TEndElem], (false, @nil char)))
                 (go_tokens2 kids false [])).
Qed.

Lemma items_tokens2_app : forall a b st acc, items_tokens2 (a ++ b) st acc =
  let (o1, s1) := items_tokens2 a st acc in let (o2, s2) := items_tokens2 b (fst s1) (snd s1) in (o1 ++ o2, s2).
Proof.
  induction a as [|y a IH]; intros b st acc.
  - cbn [app items_tokens2 fst snd]. destruct (items_tokens2 b st acc); reflexivity.
  - cbn [app items_tokens2]. destruct (item_tokens2 y st acc) as [o1 s1]. rewrite IH.
    destruct (items_tokens2 a (fst s1) (snd s1)) as [o2 s2]. destruct (items_tokens2 b (fst s2) (snd s2)) as [o3 s3]. now rewrite app_assoc.
Qed.
(** the specification's tokens of a list of items (as [RT.items_tokens], for any fuel) *)
Fixpoint items_tokens (l : list W.xcontent) (acc : str) : list token * str :=
  match l with
  | [] => ([], acc)
  | y :: t => let (o1, a1) := Infoset.item_tokens fuel en sub y acc in let (o2, a2) := items_tokens t a1 in (o1 ++ o2, a2)
  end.

Lemma go_tokens : forall l acc,
  (fix go (l : list W.xcontent) (acc : str) : list token * str :=
     match l with
     | [] => ([], acc)
     | y :: t => let (o1, a1) := Infoset.item_tokens fuel en sub y acc in let (o2, a2) := go t a1 in (o1 ++ o2, a2)
     end) l acc = items_tokens l acc.
Proof.
  induction l as [|y l IH]; intros acc; [reflexivity|]. cbn [items_tokens].
  match goal with |- ?L = _ => let L' := eval cbv beta iota fix in L in change L with L' end.
  destruct (Infoset.item_tokens fuel en sub y acc) as [o1 a1]. rewrite IH. reflexivity.
Qed.

Lemma item_tokens_exp nm items acc : Infoset.item_tokens fuel en sub (W.XExp nm items) acc = items_tokens items acc.
Proof. exact (go_tokens items acc). Qed.

Lemma item_tokens_elem nm atts et kids acc : Infoset.item_tokens fuel en sub (W.XElem nm atts et kids) acc =
  let (o, a) := items_tokens kids [] in
  (Infoset.flush acc ++ Infoset.TElem nm :: Infoset.attr_tokens fuel en sub nm atts ++ o ++ Infoset.flush a ++ [Infoset.TEndElem], []).
Proof.
  exact (f_equal (fun z : list token * str => let (o, a) := z in
                    (Infoset.flush acc ++ Infoset.TElem nm :: Infoset.attr_tokens fuel en sub nm atts ++ o ++ Infoset.flush a ++ [Infoset.TEndElem], @nil char))
                 (go_tokens kids [])).
Qed.

Lemma items_tokens_app : forall a b acc, items_tokens (a ++ b) acc =
  let (o1, a1) := items_tokens a acc in let (o2, a2) := items_tokens b a1 in (o1 ++ o2, a2).
Proof.
  induction a as [|y a IH]; intros b acc.
  - cbn [app items_tokens]. destruct (items_tokens b acc); reflexivity.
  - cbn [app items_tokens]. destruct (Infoset.item_tokens fuel en sub y acc) as [o1 a1]. rewrite IH.
    destruct (items_tokens a a1) as [o2 a2]. destruct (items_tokens b a2) as [o3 a3]. now rewrite app_assoc.
Qed.
End Tok2.

(** ** dropping the empty text tokens of the implementation's merged view gives the specification's tokens *)
Definition nonempty_text (t : token) : bool := match t with Infoset.TText [] => false | _ => true end.
Definition drop_empty (l : list token) : list token := filter nonempty_text l.

Lemma drop_empty_id (l : list token) : forallb nonempty_text l = true -> drop_empty l = l.
Proof.
  induction l as [|x l IH]; intros H; [reflexivity|]. cbn [forallb] in H. apply andb_true_iff in H. destruct H as [Hx Hl].
  cbn [drop_empty filter]. rewrite Hx. fold (drop_empty l). now rewrite IH.
Qed.

Lemma drop_empty_app a b : drop_empty (a ++ b) = drop_empty a ++ drop_empty b.
Proof. apply filter_app. Qed.

Definition inv2 (st : bool) (acc : str) : Prop := st = false -> acc = [].

Lemma drop_fl2 st acc : inv2 st acc -> drop_empty (fl2 st acc) = Infoset.flush acc.
Proof.
  intros H. destruct st; cbn [fl2].
  - destruct acc as [|c acc]; [reflexivity|]. cbn [drop_empty filter Infoset.flush].
    destruct (rev (c :: acc)) eqn:E; [apply (f_equal (@rev _)) in E; rewrite rev_involutive in E; discriminate|]. reflexivity.
  - rewrite (H eq_refl). reflexivity.
Qed.

Section Drop.
Variable fuel : nat.
Variable en : W.env.
Variable sub : list W.decl.

Lemma attr_tokens_nonempty nm atts : forallb nonempty_text (Infoset.attr_tokens fuel en sub nm atts) = true.
Proof.
  unfold Infoset.attr_tokens. cbv zeta. apply forallb_forall. intros t Ht.
  apply in_map_iff in Ht. destruct Ht as [[k t'] [<- Hin]].
  match type of Hin with In _ (Infoset.sort_by _ ?L) => pose proof (RT.sort_perm fst L) as Hp end.
  apply (Permutation_in _ Hp) in Hin. apply in_app_or in Hin. destruct Hin as [Hin|Hin]; apply in_map_iff in Hin; destruct Hin as [[a v] [E _]];
    injection E as _ <-; reflexivity.
Qed.

Definition drops (x : W.xcontent) : Prop := forall st acc, inv2 st acc ->
  fst (Infoset.item_tokens fuel en sub x acc) = drop_empty (fst (item_tokens2 fuel en sub x st acc))
  /\ snd (Infoset.item_tokens fuel en sub x acc) = snd (snd (item_tokens2 fuel en sub x st acc))
  /\ inv2 (fst (snd (item_tokens2 fuel en sub x st acc))) (snd (snd (item_tokens2 fuel en sub x st acc))).

Lemma drops_list (l : list W.xcontent) : Forall drops l -> forall st acc, inv2 st acc ->
  fst (items_tokens fuel en sub l acc) = drop_empty (fst (items_tokens2 fuel en sub l st acc))
  /\ snd (items_tokens fuel en sub l acc) = snd (snd (items_tokens2 fuel en sub l st acc))
  /\ inv2 (fst (snd (items_tokens2 fuel en sub l st acc))) (snd (snd (items_tokens2 fuel en sub l st acc))).
Proof.
  induction 1 as [|y l Hy _ IH]; intros st acc Hi.
  - cbn [items_tokens items_tokens2 fst snd]. auto.
  - cbn [items_tokens items_tokens2]. destruct (Hy st acc Hi) as (E1 & E2 & E3).
    destruct (Infoset.item_tokens fuel en sub y acc) as [o1 a1]. destruct (item_tokens2 fuel en sub y st acc) as [p1 [s1 b1]].
    cbn [fst snd] in *. subst a1. destruct (IH s1 b1 E3) as (F1 & F2 & F3).
    destruct (items_tokens fuel en sub l b1) as [o2 a2]. destruct (items_tokens2 fuel en sub l s1 b1) as [p2 [s2 b2]].
    cbn [fst snd] in *. rewrite drop_empty_app, E1, F1. auto.
Qed.

Theorem tokens2_drop : forall x, drops x.
Proof.
  apply CV.xcontent_ind2. intros x Hk. destruct x as [c|s|n|nm|s|tg dt|nm atts et kids|nm items]; intros st acc Hi.
  - cbn [Infoset.item_tokens item_tokens2 fst snd drop_empty filter]. repeat split. intros E; discriminate E.
  - cbn [Infoset.item_tokens item_tokens2 fst snd drop_empty filter]. repeat split. intros E; discriminate E.
  - cbn [Infoset.item_tokens item_tokens2 fst snd drop_empty filter]. repeat split. intros E; discriminate E.
  - cbn [Infoset.item_tokens item_tokens2 fst snd]. rewrite drop_empty_app, (drop_fl2 st acc Hi). repeat split.
  - cbn [Infoset.item_tokens item_tokens2 fst snd]. rewrite drop_empty_app, (drop_fl2 st acc Hi). repeat split.
  - cbn [Infoset.item_tokens item_tokens2 fst snd]. rewrite drop_empty_app, (drop_fl2 st acc Hi). repeat split.
  - rewrite item_tokens_elem, item_tokens2_elem. destruct (drops_list kids Hk false [] (fun _ => eq_refl)) as (E1 & E2 & E3).
    destruct (items_tokens fuel en sub kids []) as [o a]. destruct (items_tokens2 fuel en sub kids false []) as [p [s1 b]].
    cbn [fst snd] in *. subst a. split; [|split; [reflexivity|intros _; reflexivity]].
    rewrite drop_empty_app, (drop_fl2 st acc Hi). f_equal. cbn [drop_empty filter nonempty_text]. fold (drop_empty (Infoset.attr_tokens fuel en sub nm atts ++ p ++ fl2 s1 b ++ [Infoset.TEndElem])).
    f_equal. rewrite !drop_empty_app, (drop_empty_id _ (attr_tokens_nonempty nm atts)), <- E1, (drop_fl2 s1 b E3). reflexivity.
  - rewrite item_tokens_exp, item_tokens2_exp. destruct (drops_list items Hk st acc Hi) as (E1 & E2 & E3).
    destruct (items_tokens fuel en sub items acc) as [o a]. destruct (items_tokens2 fuel en sub items st acc) as [p [s1 b]].
    cbn [fst snd] in *. split; [exact E1|]. split; [exact E2|]. intros E; discriminate E.
Qed.

(** when the implementation's merged view of the tree has no empty text node, it is the specification's *)
Corollary tokens2_same x : forallb nonempty_text (fst (item_tokens2 fuel en sub x false [])) = true ->
  fst (item_tokens2 fuel en sub x false []) = fst (Infoset.item_tokens fuel en sub x []).
Proof.
  intros H. destruct (tokens2_drop x false [] (fun _ => eq_refl)) as (E & _). rewrite E. symmetry. apply drop_empty_id. exact H.
Qed.
End Drop.

(** ** rows: Rust's sort of (String, String) pairs is the specification's sort by name when names are distinct *)
Lemma lex_ltb_spec : forall a b, lex_ltb a b = Infoset.str_ltb a b.
Proof. intros a b. reflexivity. Qed.

Lemma row_ltb_neq (x y : row) : fst x <> fst y -> row_ltb x y = Infoset.str_ltb (fst x) (fst y).
Proof.
  intros H. unfold row_ltb. rewrite lex_ltb_spec. destruct (str_eqb (fst x) (fst y)) eqn:E.
  - apply Proofs.Expansion.str_eqb_eq in E. contradiction.
  - cbn [andb]. apply orb_false_r.
Qed.

Lemma row_insert_spec (x : row) (l : list row) : ~ In (fst x) (map fst l) -> row_insert x l = Infoset.insert_by fst x l.
Proof.
  induction l as [|y l IH]; intros H; [reflexivity|]. cbn [row_insert Infoset.insert_by].
  rewrite row_ltb_neq by (intros E; apply H; left; symmetry; exact E).
  destruct (Infoset.str_ltb (fst x) (fst y)); [reflexivity|]. f_equal. apply IH. intros Hin. apply H. right. exact Hin.
Qed.

Lemma row_sort_spec (l : list row) : NoDup (map fst l) -> row_sort l = Infoset.sort_by fst l.
Proof.
  induction l as [|x l IH]; intros H; [reflexivity|]. inversion H as [|? ? Hx Hl]; subst.
  cbn [row_sort Infoset.sort_by fold_right]. fold (row_sort l). fold (Infoset.sort_by fst l). rewrite (IH Hl).
  apply row_insert_spec. intros Hin. apply Hx.
  eapply Permutation_in; [|exact Hin]. apply Permutation_map. apply RT.sort_perm.
Qed.

Definition lift_row (p : str * token) : row := (fst p, KTok (snd p)).

Lemma insert_lift x l : Infoset.insert_by fst (lift_row x) (map lift_row l) = map lift_row (Infoset.insert_by fst x l).
Proof.
  induction l as [|y l IH]; [reflexivity|]. cbn [map Infoset.insert_by]. cbn [lift_row fst].
  destruct (Infoset.str_ltb (fst x) (fst y)); [reflexivity|]. cbn [map]. f_equal. exact IH.
Qed.

Lemma sort_lift l : Infoset.sort_by fst (map lift_row l) = map lift_row (Infoset.sort_by fst l).
Proof.
  induction l as [|x l IH]; [reflexivity|]. cbn [map Infoset.sort_by fold_right].
  fold (Infoset.sort_by fst l). fold (Infoset.sort_by fst (map lift_row l)). rewrite IH. apply insert_lift.
Qed.

(** the rows of the model are a permutation of the lifted rows of the specification: same sorted tokens *)
Theorem rows_sorted (rows : list row) (L : list (str * token)) :
  Permutation rows (map lift_row L) -> NoDup (map fst L) ->
  map snd (row_sort rows) = map KTok (map snd (Infoset.sort_by fst L)).
Proof.
  intros Hp Hnd.
  assert (Hk : map fst (map lift_row L) = map fst L) by (rewrite map_map; reflexivity).
  assert (Hnd' : NoDup (map fst rows)).
  { eapply Permutation_NoDup; [apply Permutation_map; symmetry; exact Hp|]. rewrite Hk. exact Hnd. }
  rewrite (row_sort_spec rows Hnd'). rewrite (RT.sort_by_perm fst rows (map lift_row L) Hp Hnd'). rewrite sort_lift.
  rewrite !map_map. reflexivity.
Qed.

(** ** strings *)
Lemma isS_eqb c : W.isS c = (N.eqb c 13 || N.eqb c 10 || N.eqb c 9) || N.eqb c 32.
Proof.
  destruct (N.eqb_spec c 13) as [->|H1]; [reflexivity|]. destruct (N.eqb_spec c 10) as [->|H2]; [reflexivity|].
  destruct (N.eqb_spec c 9) as [->|H3]; [reflexivity|]. destruct (N.eqb_spec c 32) as [->|H4]; [reflexivity|].
  destruct (W.isS c) eqn:E; [|reflexivity]. apply Proofs.XmlWFRender.isS_cases in E. destruct E as [E|[E|[E|E]]]; contradiction.
Qed.

Lemma normalize_ws_spec (s : str) : normalize_ws s = flat_map (fun c => if W.isS c then [W.c_sp] else [c]) s.
Proof.
  induction s as [|c s IH]; [reflexivity|]. cbn [normalize_ws map flat_map]. fold (normalize_ws s). rewrite IH. rewrite isS_eqb.
  destruct (N.eqb c 13 || N.eqb c 10 || N.eqb c 9); [reflexivity|]. cbn [orb]. destruct (N.eqb_spec c 32) as [->|]; reflexivity.
Qed.

Lemma split_words_spec : forall s cur, split_words s cur = Infoset.words s cur.
Proof. intros s cur. reflexivity. Qed.

Lemma join_sp_spec : forall l, join_sp_str l = Infoset.join_sp l.
Proof. intros l. reflexivity. Qed.

Lemma split_filter_join_spec (s : str) : split_filter_join s = Infoset.tok_norm s.
Proof. unfold split_filter_join, Infoset.tok_norm. now rewrite split_words_spec, join_sp_spec. Qed.

(** ** the information set of a document in the implementation's merged view (as [Infoset.doc_tokens], with
    [item_tokens2] for the element tree: the empty text nodes of WF14 included) *)
Definition doc_tokens2 (d : W.xdoc) (root : W.xcontent) : Infoset.infoset :=
  let subset := match W.x_doctype d with Some dt => W.dt_subset dt | None => [] end in
  (match W.x_decl d with
   | Some xd => Infoset.TDoc (Some (W.xd_version xd)) (W.xd_encoding xd) (W.xd_standalone xd)
   | None => Infoset.TDoc None None None end)
  :: flat_map Infoset.misc_token (W.x_misc1 d)
  ++ (match W.x_doctype d with Some dt => Infoset.doctype_tokens dt | None => [] end)
  ++ flat_map Infoset.misc_token (W.x_misc2 d)
  ++ fst (item_tokens2 (W.ent_fuel d) (W.doc_env d) subset root false [])
  ++ flat_map Infoset.misc_token (W.x_misc3 d).

Lemma misc_tokens_nonempty (l : list W.xcontent) : forallb nonempty_text (flat_map Infoset.misc_token l) = true.
Proof.
  induction l as [|x l IH]; [reflexivity|]. cbn [flat_map]. rewrite forallb_app, IH, andb_true_r. destruct x; reflexivity.
Qed.

Lemma sorted_tokens_nonempty (l : list (str * token)) : forallb (fun p => nonempty_text (snd p)) l = true ->
  forallb nonempty_text (map snd (Infoset.sort_by fst l)) = true.
Proof.
  intros H. apply forallb_forall. intros t Ht. apply in_map_iff in Ht. destruct Ht as [p [<- Hp]].
  apply (Permutation_in _ (RT.sort_perm fst l)) in Hp. rewrite forallb_forall in H. exact (H p Hp).
Qed.

Lemma doctype_tokens_nonempty (dt : W.doctype) : forallb nonempty_text (Infoset.doctype_tokens dt) = true.
Proof.
  unfold Infoset.doctype_tokens. cbv zeta. cbn [forallb nonempty_text andb]. rewrite !forallb_app. repeat (apply andb_true_iff; split).
  - apply sorted_tokens_nonempty. apply forallb_forall. intros p Hp. apply in_flat_map in Hp. destruct Hp as [d [_ Hp]].
    repeat match type of Hp with In _ (match ?x with _ => _ end) => destruct x end; try (destruct Hp as [<-|[]]; reflexivity); destruct Hp.
  - apply sorted_tokens_nonempty. apply forallb_forall. intros p Hp. apply in_flat_map in Hp. destruct Hp as [d [_ Hp]].
    repeat match type of Hp with In _ (match ?x with _ => _ end) => destruct x end; try (destruct Hp as [<-|[]]; reflexivity); destruct Hp.
  - apply forallb_forall. intros p Hp. apply in_flat_map in Hp. destruct Hp as [d [_ Hp]].
    repeat match type of Hp with In _ (match ?x with _ => _ end) => destruct x end; try (destruct Hp as [<-|[]]; reflexivity); destruct Hp.
  - reflexivity.
  - reflexivity.
Qed.

Theorem doc_tokens2_drop (d : W.xdoc) (root : W.xcontent) : drop_empty (doc_tokens2 d root) = Infoset.doc_tokens d root.
Proof.
  unfold doc_tokens2, Infoset.doc_tokens. cbv zeta. cbn [drop_empty filter].
  assert (E0 : nonempty_text (match W.x_decl d with
                              | Some xd => Infoset.TDoc (Some (W.xd_version xd)) (W.xd_encoding xd) (W.xd_standalone xd)
                              | None => Infoset.TDoc None None None end) = true) by (destruct (W.x_decl d); reflexivity).
  rewrite E0. f_equal. fold (drop_empty). rewrite !drop_empty_app.
  rewrite !(drop_empty_id _ (misc_tokens_nonempty _)).
  assert (E1 : drop_empty (match W.x_doctype d with Some dt => Infoset.doctype_tokens dt | None => [] end)
               = match W.x_doctype d with Some dt => Infoset.doctype_tokens dt | None => [] end).
  { destruct (W.x_doctype d) as [dt|]; [|reflexivity]. apply drop_empty_id. apply doctype_tokens_nonempty. }
  rewrite E1. destruct (tokens2_drop (W.ent_fuel d) (W.doc_env d) (match W.x_doctype d with Some dt => W.dt_subset dt | None => [] end) root false [] (fun _ => eq_refl)) as (E & _).
  now rewrite E.
Qed.

Corollary doc_tokens2_same (d : W.xdoc) (root : W.xcontent) : forallb nonempty_text (doc_tokens2 d root) = true ->
  doc_tokens2 d root = Infoset.doc_tokens d root.
Proof. intros H. rewrite <- doc_tokens2_drop. symmetry. apply drop_empty_id. exact H. Qed.
