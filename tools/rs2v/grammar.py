#!/usr/bin/env python3
"""T2: the nom grammars of xml-rs -> deep-embedded PEGs (Model/Peg.v pexpr).

  G_xml   = nom/src/lib.rs + parser/src/lib.rs       -> Gen/GrammarXmlGen.v
  G_xpath = nom/src/lib.rs + xpath/src/expr/mod.rs   -> Gen/GrammarXPathGen.v
Both files start with the character-run parsers of nom/src/xmlchar.rs (char_except0, ...).

Function bodies understood (anything else: exit 2 with `T2-ERROR: file:line: ...`):
  COMB(input)                    where COMB is built from
    alt((..)) tuple((..)) map(c, F) opt(c) recognize(c) many0(c) many1(c)
    delimited(a,b,c) preceded(a,b) terminated(a,b) separated_list0(s,c) separated_list1(s,c)
    tag("..") char('c') take_till(|c| c == 'x')
    multispace0 multispace1 alpha1 digit0 digit1 hex_digit1
    xmlchar::NAME("..") xmlchar::NAME   (the character-run parsers of xmlchar.rs)
    helper::take_until(c, "..") helper::take_except(c, "..")
    NAME                          (another production of the grammar: a non-terminal)
  input.split_at_position_complete(|i| !PRED(i.as_char()))
  input.split_at_position1_complete(|i| !PRED(i.as_char()), ErrorKind::Fail)
`map`'s second argument is kept as an opaque label (its normalised token text).
Also emits the termination certificate (nullable table, ranks) which Coq CHECKS (cert_okb)."""
import sys, os, json, hashlib, re
sys.path.insert(0, os.path.dirname(__file__))
from rustlex import lex, strip_test_modules, functions, Tok
from xmlchar import write_if_changed, translate as xmlchar_translate, evaluator

class TError(Exception):
    pass

BUILTIN_CHARS = {
    'multispace0': ('Chars0', 'ws'), 'multispace1': ('Chars1', 'ws'),
    'alpha1': ('Chars1', 'alpha'), 'digit0': ('Chars0', 'digit'), 'digit1': ('Chars1', 'digit'),
    'hex_digit1': ('Chars1', 'hex'),
}
# closures accepted as second argument of `verify`: text -> (path of the left operand, path of the
# right operand in the parse tree of the first argument, (regex on the translated first argument,
# {production: regex on its translated body})) -- the shapes make sure the paths mean what the
# closure says (s.name is the first component under Element::from; e is the end tag's qname)
VERIFY_CLOSURES = {
    '| ( s , _ , e ) | s . name == * e':
        ('[Fst;InMap;Fst]', '[Snd;Snd]',
         (r'^\(Seq \(NT nt_stag\) \(Seq \(NT nt_content\) \(NT nt_etag\)\)\)$',
          {'stag': r'^\(Map L_model_Element_from \(SeqR \(Tag \[60\]\) \(SeqL \(Seq \(NT nt_qname\) ',
           'etag': r'^\(SeqR \(Tag \[60;47\]\) \(SeqL \(NT nt_qname\) '})),
}

CLASSES = {
    'ws': '(InR [(32,32);(9,9);(13,13);(10,10)])',
    'alpha': '(InR [(65,90);(97,122)])',
    'digit': '(InR [(48,57)])',
    'hex': '(InR [(48,57);(65,70);(97,102)])',
}

# ---------------------------------------------------------------- a tiny Rust expression reader
class X:
    """expression tree: ('path', [ids]) ('call', f, [args]) ('method', recv, name, [args]) ('tuple', [..])
       ('str', codepoints) ('char', cp) ('closure', tokens) ('other', tokens)"""
    pass

class Reader:
    def __init__(self, toks, path, fname):
        self.t, self.i, self.path, self.fname = toks, 0, path, fname
    def peek(self, k=0):
        return self.t[self.i + k].text if self.i + k < len(self.t) else None
    def tok(self):
        return self.t[self.i]
    def err(self, msg):
        line = self.t[min(self.i, len(self.t) - 1)].line if self.t else 0
        raise TError('%s:%d: in fn %s: %s' % (self.path, line, self.fname, msg))
    def eat(self, text):
        if self.peek() != text:
            self.err('expected %r, found %r' % (text, self.peek()))
        self.i += 1
    def skip_balanced_until_comma_or_close(self):
        """returns the tokens of one argument that we do not interpret (a closure or path)"""
        start = self.i
        depth = 0
        while self.i < len(self.t):
            x = self.peek()
            if x in '([{':
                depth += 1
            elif x in ')]}':
                if depth == 0: break
                depth -= 1
            elif x == ',' and depth == 0:
                break
            self.i += 1
        return self.t[start:self.i]
    def args(self):
        self.eat('(')
        out = []
        while self.peek() != ')':
            out.append(self.expr())
            if self.peek() == ',':
                self.i += 1
        self.eat(')')
        return out
    def expr(self):
        p = self.peek()
        tk = self.tok()
        if p == '|' or p == 'move' or p == '||':
            return ('closure', self.skip_balanced_until_comma_or_close())
        if p == '(':
            items = self.args()
            e = ('tuple', items)
        elif tk.kind == 'str':
            self.i += 1; e = ('str', tk.val)
        elif tk.kind == 'char':
            self.i += 1; e = ('char', tk.val)
        elif tk.kind == 'id':
            ids = [p]; self.i += 1
            while self.peek() == '::':
                if self.peek(1) == '<':   # turbofish: skip
                    self.i += 2; depth = 1
                    while depth:
                        if self.peek() == '<': depth += 1
                        elif self.peek() == '>': depth -= 1
                        self.i += 1
                    continue
                self.i += 1
                ids.append(self.peek()); self.i += 1
            e = ('path', ids)
        else:
            self.err('construct outside the fragment: %r' % p)
        while True:
            if self.peek() == '(':
                e = ('call', e, self.args())
            elif self.peek() == '.' and self.t[self.i + 1].kind == 'id' and self.peek(2) == '(':
                name = self.peek(1); self.i += 2
                e = ('method', e, name, self.args())
            else:
                break
        return e

def label_text(e):
    def toks(e):
        k = e[0]
        if k == 'closure': return [t.text for t in e[1]]
        if k == 'path': return ['::'.join(e[1])]
        raise TError('map function is neither a path nor a closure')
    return ' '.join(toks(e))

def label_ident(text):
    if re.match(r'^[A-Za-z_][A-Za-z0-9_:]*$', text):
        return 'L_' + text.replace('::', '_')
    return 'L_closure_' + hashlib.sha1(text.encode()).hexdigest()[:8]

# ---------------------------------------------------------------- xmlchar.rs character-run parsers
def xmlchar_parsers(repo):
    path = os.path.join(repo, 'nom/src/xmlchar.rs')
    toks = strip_test_modules(lex(open(path, encoding='utf-8').read()))
    fns = {name: (header, body, line) for name, header, body, line in functions(toks)}
    out = {}    # name -> (kind, pred, has_except)
    def split_body(name, body, line):
        # input.split_at_position[1]_complete(|i| !PRED(i.as_char()[, except]) [, ErrorKind::X])
        r = Reader(body, path, name)
        e = r.expr()
        if r.i != len(body) or e[0] != 'method' or e[1] != ('path', ['input']):
            raise TError('%s:%d: %s: body outside the fragment' % (path, line, name))
        m = e[2]
        if m == 'split_at_position_complete': kind = 'Chars0'; nargs = 1
        elif m == 'split_at_position1_complete': kind = 'Chars1'; nargs = 2
        else: raise TError('%s:%d: %s: unknown method %s' % (path, line, name, m))
        if len(e[3]) != nargs or e[3][0][0] != 'closure':
            raise TError('%s:%d: %s: unexpected arguments' % (path, line, name))
        ct = [t.text for t in e[3][0][1]]
        # | i | ! [xmlchar ::] PRED ( i . as_char ( ) [, except] )
        j = 0
        if ct[:3] != ['|', 'i', '|'] or ct[3] != '!':
            raise TError('%s:%d: %s: closure outside the fragment: %s' % (path, line, name, ' '.join(ct)))
        rest = ct[4:]
        if rest[:2] == ['xmlchar', '::']: rest = rest[2:]
        pred = rest[0]
        tail = rest[1:]
        if tail == ['(', 'i', '.', 'as_char', '(', ')', ')']:
            has_ex = False
        elif tail == ['(', 'i', '.', 'as_char', '(', ')', ',', 'except', ')']:
            has_ex = True
        else:
            raise TError('%s:%d: %s: closure outside the fragment: %s' % (path, line, name, ' '.join(ct)))
        return kind, pred, has_ex
    for name, (header, body, line) in fns.items():
        if name.startswith('is_') or name.endswith('_priv'):
            continue
        bt = [t.text for t in body]
        # move |i| NAME_priv(i, except)
        if bt[:4] == ['move', '|', 'i', '|'] and bt[5:] == ['(', 'i', ',', 'except', ')']:
            priv = bt[4]
            if priv not in fns:
                raise TError('%s:%d: %s calls unknown %s' % (path, line, name, priv))
            kind, pred, has_ex = split_body(priv, fns[priv][1], fns[priv][2])
            if not has_ex:
                raise TError('%s:%d: %s: %s ignores its except list' % (path, line, name, priv))
            out[name] = (kind, pred, True)
        else:
            kind, pred, has_ex = split_body(name, body, line)
            if has_ex:
                raise TError('%s:%d: %s: stray except argument' % (path, line, name))
            out[name] = (kind, pred, False)
    return out

# ---------------------------------------------------------------- grammar files
class Grammar:
    def __init__(self, repo, files, gname, xc):
        self.repo, self.gname, self.xc = repo, gname, xc
        self.prods = []          # (name, file, line, header, body)
        for rel in files:
            path = os.path.join(repo, rel)
            toks = strip_test_modules(lex(open(path, encoding='utf-8').read()))
            for name, header, body, line in functions(toks):
                if name == 'verif_production' or self.nested(name, header, body, toks):
                    continue
                self.prods.append((name, rel, line, header, body))
        names = [p[0] for p in self.prods]
        dup = {n for n in names if names.count(n) > 1}
        if dup:
            raise TError('%s: duplicate production names %s' % (gname, sorted(dup)))
        self.index = {n: i for i, n in enumerate(names)}
        self.labels = {}         # text -> (ident, number)
        self.verify_shapes = []  # (where, {production: regex its translated body must match})
        self.slice_valued = {}
    def nested(self, name, header, body, toks):
        return name == 'run'     # helper nested in the verification hook
    def label(self, e):
        text = label_text(e)
        if text not in self.labels:
            self.labels[text] = (label_ident(text), len(self.labels) + 1)
        return self.labels[text][0]
    def tr(self, e, where):
        """expression tree -> Coq pexpr text"""
        def fail(msg):
            raise TError('%s: %s' % (where, msg))
        k = e[0]
        if k == 'path':
            ids = e[1]
            if len(ids) == 1:
                n = ids[0]
                if n in BUILTIN_CHARS:
                    kind, cls = BUILTIN_CHARS[n]
                    return '(%s %s)' % (kind, CLASSES[cls])
                if n in self.index:
                    return '(NT nt_%s)' % n
                fail('unknown parser %s' % n)
            if ids[0] == 'xmlchar' and len(ids) == 2 and ids[1] in self.xc and not self.xc[ids[1]][2]:
                return 'xc_%s' % ids[1]
            fail('unknown path %s' % '::'.join(ids))
        if k == 'call':
            f, args = e[1], e[2]
            if f[0] != 'path': fail('call of a non-path')
            ids = f[1]
            name = ids[-1]
            if len(ids) == 1:
                if name in ('alt', 'tuple'):
                    if len(args) != 1 or args[0][0] != 'tuple' or not args[0][1]:
                        fail('%s needs one tuple argument' % name)
                    items = [self.tr(a, where) for a in args[0][1]]
                    con = 'Alt' if name == 'alt' else 'Seq'
                    acc = items[-1]
                    for it in reversed(items[:-1]):
                        acc = '(%s %s %s)' % (con, it, acc)
                    return acc
                if name == 'map':
                    if len(args) != 2: fail('map needs two arguments')
                    return '(Map %s %s)' % (self.label(args[1]), self.tr(args[0], where))
                if name in ('opt', 'recognize', 'many0', 'many1'):
                    if len(args) != 1: fail('%s needs one argument' % name)
                    con = {'opt': 'Opt', 'recognize': 'Recognize', 'many0': 'Many0', 'many1': 'Many1'}[name]
                    return '(%s %s)' % (con, self.tr(args[0], where))
                if name == 'verify':
                    # verify(P, |..| a == b): only closures listed in VERIFY_CLOSURES, which name the
                    # two compared components by their position in P's parse tree
                    if len(args) != 2 or args[1][0] != 'closure': fail('verify needs (parser, closure)')
                    text = ' '.join(t.text for t in args[1][1])
                    if text not in VERIFY_CLOSURES:
                        fail('verify closure outside the fragment: %s' % text)
                    p1, p2, shape = VERIFY_CLOSURES[text]
                    inner = self.tr(args[0], where)
                    if not re.match(shape[0], inner):
                        fail('verify: parser argument has not the expected shape for this closure: %s' % inner)
                    self.verify_shapes.append((where, shape[1]))
                    return '(VerifyEq %s %s %s)' % (p1, p2, inner)
                if name == 'delimited':
                    if len(args) != 3: fail('delimited needs three arguments')
                    a, b, c = [self.tr(x, where) for x in args]
                    return '(SeqR %s (SeqL %s %s))' % (a, b, c)
                if name in ('preceded', 'terminated'):
                    if len(args) != 2: fail('%s needs two arguments' % name)
                    a, b = [self.tr(x, where) for x in args]
                    return '(%s %s %s)' % ('SeqR' if name == 'preceded' else 'SeqL', a, b)
                if name in ('separated_list0', 'separated_list1'):
                    if len(args) != 2: fail('%s needs two arguments' % name)
                    a, b = [self.tr(x, where) for x in args]
                    return '(%s %s %s)' % ('SepBy0' if name.endswith('0') else 'SepBy1', a, b)
                if name == 'tag':
                    if len(args) != 1 or args[0][0] != 'str': fail('tag needs a string literal')
                    return '(Tag [%s])' % ';'.join(str(c) for c in args[0][1])
                if name == 'char':
                    if len(args) != 1 or args[0][0] != 'char': fail('char needs a char literal')
                    return '(Tag [%d])' % args[0][1]
                if name == 'take_till':
                    if len(args) != 1 or args[0][0] != 'closure': fail('take_till needs a closure')
                    ct = args[0][1]
                    tt = [t.text for t in ct]
                    if len(ct) == 6 and tt[:5] == ['|', 'c', '|', 'c', '=='] and ct[5].kind == 'char':
                        return '(Chars0 (Not (InR [(%d,%d)])))' % (ct[5].val, ct[5].val)
                    fail('take_till closure outside the fragment: %s' % ' '.join(tt))
                fail('unknown combinator %s' % name)
            if ids[0] == 'xmlchar' and len(ids) == 2:
                if name in self.xc and self.xc[name][2]:
                    if len(args) != 1 or args[0][0] != 'str': fail('xmlchar::%s needs a string literal' % name)
                    return '(xc_%s [%s])' % (name, ';'.join(str(c) for c in args[0][1]))
                fail('unknown xmlchar parser %s' % name)
            if ids[0] == 'helper' and len(ids) == 2 and name in ('take_until', 'take_except'):
                if len(args) != 2 or args[1][0] != 'str': fail('helper::%s needs (parser, string literal)' % name)
                inner = args[0]
                if not self.is_slice_valued(inner):
                    fail('helper::%s applied to a parser whose output is not the recognised slice' % name)
                return '(%s %s [%s])' % ('TakeUntil' if name == 'take_until' else 'TakeExcept', self.tr(inner, where),
                                         ';'.join(str(c) for c in args[1][1]))
            fail('unknown call %s' % '::'.join(ids))
        fail('construct outside the fragment (%s)' % k)
    def is_slice_valued(self, e):
        """the parser's output is exactly the slice it consumed"""
        if e[0] == 'path':
            ids = e[1]
            if len(ids) == 1:
                if ids[0] in BUILTIN_CHARS: return True
                if ids[0] in self.index:
                    return self.prod_slice_valued(ids[0])
            if ids[0] == 'xmlchar': return True
            return False
        if e[0] == 'call' and e[1][0] == 'path':
            ids = e[1][1]
            if ids[0] == 'xmlchar': return True
            if ids == ['recognize']: return True
            if ids[0] == 'helper': return True
        return False
    def prod_slice_valued(self, name):
        if name in self.slice_valued: return self.slice_valued[name]
        self.slice_valued[name] = False
        p = self.prods[self.index[name]]
        try:
            e = self.body_expr(p)
            r = e is not None and (e == 'split' or self.is_slice_valued(e))
        except TError:
            r = False
        self.slice_valued[name] = r
        return r
    def body_expr(self, p):
        name, rel, line, header, body = p
        path = os.path.join(self.repo, rel)
        r = Reader(body, rel, name)
        e = r.expr()
        if r.i != len(body):
            r.err('trailing tokens after the parser expression')
        if e[0] == 'method' and e[1] == ('path', ['input']):
            return 'split'
        if e[0] == 'call' and e[2] == [('path', ['input'])]:
            return e[1]
        r.err('body is not of the form COMBINATOR(input)')
    def translate(self):
        bodies = []
        for p in self.prods:
            name, rel, line, header, body = p
            where = '%s:%d: in fn %s' % (rel, line, name)
            r = Reader(body, rel, name)
            e = r.expr()
            if r.i != len(body):
                r.err('trailing tokens after the parser expression')
            if e[0] == 'method' and e[1] == ('path', ['input']):
                m = e[2]
                if m == 'split_at_position_complete': kind, nargs = 'Chars0', 1
                elif m == 'split_at_position1_complete': kind, nargs = 'Chars1', 2
                else: raise TError('%s: unknown method %s' % (where, m))
                if len(e[3]) != nargs or e[3][0][0] != 'closure':
                    raise TError('%s: unexpected arguments' % where)
                ct = [t.text for t in e[3][0][1]]
                if ct[:4] != ['|', 'i', '|', '!']:
                    raise TError('%s: closure outside the fragment: %s' % (where, ' '.join(ct)))
                rest = ct[4:]
                if rest[:2] == ['xmlchar', '::']: rest = rest[2:]
                if rest[1:] != ['(', 'i', '.', 'as_char', '(', ')', ')'] or not rest[0].startswith('is_'):
                    raise TError('%s: closure outside the fragment: %s' % (where, ' '.join(ct)))
                bodies.append('(%s %s)' % (kind, rest[0]))
            elif e[0] == 'call' and e[2] == [('path', ['input'])]:
                bodies.append(self.tr(e[1], where))
            else:
                raise TError('%s: body is not of the form COMBINATOR(input)' % where)
        for where, shapes in self.verify_shapes:
            for prod, rx in shapes.items():
                if prod not in self.index or not re.match(rx, bodies[self.index[prod]]):
                    raise TError('%s: verify closure relies on the shape of production %s, which changed' % (where, prod))
        return bodies

# ---------------------------------------------------------------- certificate (untrusted; Coq checks it)
PEXPR_TOK = re.compile(r'\(|\)|\[[^\]]*\]|[A-Za-z_][A-Za-z0-9_]*')

def parse_pexpr(text):
    """Coq pexpr text -> nested lists, enough to compute enull / efirst"""
    toks = PEXPR_TOK.findall(text)
    pos = [0]
    def p():
        t = toks[pos[0]]
        if t == '(':
            pos[0] += 1
            items = []
            while toks[pos[0]] != ')':
                items.append(p())
            pos[0] += 1
            return items
        pos[0] += 1
        return t
    return p()

def certificate(names, bodies, xc):
    trees = [parse_pexpr(b) for b in bodies]
    idx = {('nt_' + n): i for i, n in enumerate(names)}
    nullb = [False] * len(names)
    def head(t):
        return t[0] if isinstance(t, list) else t
    def enull(t):
        if isinstance(t, str):
            if t.startswith('xc_'):
                return xc[t[3:]][0] == 'Chars0'
            raise TError('certificate: atom %s' % t)
        h = t[0]
        if h == 'Tag': return t[1] == '[]'
        if h == 'Chars0': return True
        if h == 'Chars1': return False
        if h.startswith('xc_'): return xc[h[3:]][0] == 'Chars0'
        if h in ('Seq', 'SeqL', 'SeqR'): return enull(t[1]) and enull(t[2])
        if h == 'Alt': return enull(t[1]) or enull(t[2])
        if h in ('Many0', 'Opt', 'SepBy0', 'TakeUntil'): return True
        if h == 'Many1': return enull(t[1])
        if h == 'SepBy1': return enull(t[2])
        if h == 'Recognize': return enull(t[1])
        if h == 'Map': return enull(t[2])
        if h == 'TakeExcept': return enull(t[1])
        if h == 'VerifyEq': return enull(t[3])
        if h == 'NT': return nullb[idx[t[1]]]
        raise TError('certificate: constructor %s' % h)
    def efirst(t):
        if isinstance(t, str): return []
        h = t[0]
        if h in ('Tag', 'Chars0', 'Chars1') or h.startswith('xc_'): return []
        if h in ('Seq', 'SeqL', 'SeqR'): return efirst(t[1]) + (efirst(t[2]) if enull(t[1]) else [])
        if h == 'Alt': return efirst(t[1]) + efirst(t[2])
        if h in ('Many0', 'Many1', 'Opt', 'Recognize', 'TakeUntil', 'TakeExcept'): return efirst(t[1])
        if h == 'Map': return efirst(t[2])
        if h == 'VerifyEq': return efirst(t[3])
        if h in ('SepBy0', 'SepBy1'): return efirst(t[2]) + (efirst(t[1]) if enull(t[2]) else [])
        if h == 'NT': return [idx[t[1]]]
        raise TError('certificate: constructor %s' % h)
    changed = True
    while changed:
        changed = False
        for i, t in enumerate(trees):
            if not nullb[i] and enull(t):
                nullb[i] = True; changed = True
    edges = [sorted(set(efirst(t))) for t in trees]
    rank = [None] * len(names)
    state = [0] * len(names)
    cyc = []
    def visit(n, stack):
        if state[n] == 2: return rank[n]
        if state[n] == 1:
            cyc.append([names[x] for x in stack[stack.index(n):]] + [names[n]])
            return 0
        state[n] = 1
        r = 0
        for m in edges[n]:
            r = max(r, visit(m, stack + [n]) + 1)
        state[n] = 2; rank[n] = r
        return r
    sys.setrecursionlimit(10000)
    for n in range(len(names)):
        visit(n, [])
    return nullb, rank, cyc

# ---------------------------------------------------------------- emission
def emit(gname, g, bodies, xc, srcs):
    names = [p[0] for p in g.prods]
    nullb, rank, cyc = certificate(names, bodies, xc)
    R = max(rank) if rank else 0
    L = ['(* GENERATED by tools/rs2v/grammar.py from %s -- do not edit *)' % ', '.join(srcs),
         'From Coq Require Import List NArith.',
         'From XmlRs Require Import Base.CPred Model.Peg Gen.XmlcharGen.',
         'Import ListNotations.',
         'Open Scope N_scope.', '',
         '(* character-run parsers of nom/src/xmlchar.rs *)']
    for n, (kind, pred, has_ex) in sorted(xc.items()):
        if has_ex:
            L.append('Definition xc_%s (ex : list N) : pexpr := %s (%s ex).' % (n, kind, pred))
        else:
            L.append('Definition xc_%s : pexpr := %s %s.' % (n, kind, pred))
    L.append('')
    L.append('(* non-terminals *)')
    for i, n in enumerate(names):
        L.append('Definition nt_%s : nat := %d%%nat.' % (n, i))
    L.append('')
    L.append('(* labels of the functions given to `map` (opaque; interpreted by Model/ParseActions*.v) *)')
    for text, (ident, num) in sorted(g.labels.items(), key=lambda kv: kv[1][1]):
        L.append('Definition %s : N := %d.  (* %s *)' % (ident, num, text.replace('*)', '* )').replace('(*', '( *')))
    L.append('')
    L.append('Definition %s : list pexpr := [' % gname)
    for i, (n, b) in enumerate(zip(names, bodies)):
        L.append('  (* %d %s *) %s%s' % (i, n, b, ';' if i + 1 < len(names) else ''))
    L.append('].')
    L.append('')
    L.append('Definition %s_names : list (list N) := [' % gname)
    L.append(';\n'.join('  [%s]' % ';'.join(str(ord(c)) for c in n) for n in names))
    L.append('].')
    L.append('')
    L.append('(* termination certificate: computed here, CHECKED in Coq by cert_okb (Proofs/PegTermination.v) *)')
    L.append('Definition %s_nulls : list bool := [%s].' % (gname, ';'.join('true' if b else 'false' for b in nullb)))
    L.append('Definition %s_ranks : list nat := [%s]%%nat.' % (gname, ';'.join(str(r) for r in rank)))
    L.append('Definition %s_R : nat := %d%%nat.' % (gname, R))
    if cyc:
        L.append('(* LEFT RECURSION found by the translator (the certificate check will fail): %s *)' % ' ; '.join(' -> '.join(c) for c in cyc))
    # sampled members of every character class, for the sentence generator (tools/gen/peggen.py)
    ev = evaluator(xmlchar_translate(os.path.join(g.repo, 'nom/src/xmlchar.rs')))
    POOL = [9, 10, 13, 32, 33, 34, 35, 37, 38, 39, 40, 41, 42, 43, 44, 45, 46, 47, 48, 49, 57, 58, 59, 60, 61, 62, 63, 64, 65, 70, 71,
            76, 77, 88, 90, 91, 93, 95, 97, 102, 103, 108, 109, 120, 122, 124, 0xB7, 0xC0, 0xD7, 0xE9, 0x300, 0x37E, 0x3B1, 0x203F, 0x2070,
            0x2EFF, 0x2FF0, 0x3042, 0xFFFD, 0xFFFE, 0x10000, 0x1F600, 0xEFFFF, 0xF0000, 0x10FFFF, 0, 1, 8, 11, 0x7F, 0x85]
    BUILT = {v: k for k, v in CLASSES.items()}
    RANGES = {'ws': [(32, 32), (9, 9), (13, 13), (10, 10)], 'alpha': [(65, 90), (97, 122)], 'digit': [(48, 57)], 'hex': [(48, 57), (65, 70), (97, 102)]}
    def members(pred_text):
        pred_text = pred_text.strip()
        m = re.match(r'^\(?(is_[a-z_0-9]+)(?: \[([0-9;]*)\])?\)?$', pred_text)
        if m:
            ex = tuple(int(x) for x in m.group(2).split(';')) if m.group(2) else ()
            return [c for c in POOL if ev(m.group(1), c, ex)]
        m = re.match(r'^\(Not \(InR \[\((\d+),\d+\)\]\)\)$', pred_text)
        if m:
            return [c for c in POOL if c != int(m.group(1))]
        if pred_text in BUILT:
            rs = RANGES[BUILT[pred_text]]
            return [c for c in POOL if any(lo <= c <= hi for lo, hi in rs)]
        raise TError('sentence generator: cannot sample class %s' % pred_text)
    def conv(t):
        if isinstance(t, str):
            if t.startswith('xc_'):
                kind, pred, _ = xc[t[3:]]
                return [kind, members(pred)]
            if t.startswith('['):
                if re.match(r'^\[[A-Za-z;]*\]$', t) and t != '[]':
                    return t          # a list of directions (VerifyEq paths)
                return [int(x) for x in t[1:-1].split(';')] if t != '[]' else []
            return t
        h = t[0]
        if isinstance(h, str) and h.startswith('xc_'):
            kind, pred, _ = xc[h[3:]]
            return [kind, members('%s %s' % (pred, t[1]))]
        if h in ('Chars0', 'Chars1'):
            return [h, members(unparse(t[1]))]
        return [conv(x) for x in t]
    def unparse(t):
        if isinstance(t, str): return t
        return '(' + ' '.join(unparse(x) for x in t) + ')'
    jt = {n: conv(parse_pexpr(b)) for n, b in zip(names, bodies)}
    info = {'trees': jt, 'names': names, 'labels': {ident: text for text, (ident, num) in g.labels.items()},
            'nullable': [n for n, b in zip(names, nullb) if b], 'left_recursion': cyc,
            'files': {p[0]: [p[1], p[2]] for p in g.prods}}
    return '\n'.join(L) + '\n', info

def main():
    repo = sys.argv[1] if len(sys.argv) > 1 else '/repo'
    outdir = sys.argv[2] if len(sys.argv) > 2 else os.path.join(os.path.dirname(__file__), '../../coq/theories/Gen')
    rc = 0
    try:
        xc = xmlchar_parsers(repo)
    except Exception as ex:
        print('T2-ERROR: %s' % ex); sys.exit(2)
    for gname, files, outname in (('G_xml', ['nom/src/lib.rs', 'parser/src/lib.rs'], 'GrammarXmlGen'),
                                  ('G_xpath', ['nom/src/lib.rs', 'xpath/src/expr/mod.rs'], 'GrammarXPathGen')):
        try:
            g = Grammar(repo, files, gname, xc)
            bodies = g.translate()
            text, info = emit(gname, g, bodies, xc, ['nom/src/xmlchar.rs'] + files)
            write_if_changed(os.path.join(outdir, outname + '.v'), text)
            write_if_changed(os.path.join(outdir, outname + '.json'), json.dumps(info, indent=1))
            print('T2 ok: %s %d productions, %d labels%s' % (gname, len(bodies), len(g.labels),
                  (', LEFT RECURSION ' + str(info['left_recursion'])) if info['left_recursion'] else ''))
        except Exception as ex:
            print('T2-ERROR: %s: %s' % (gname, ex))
            rc = 2
    sys.exit(rc)

if __name__ == '__main__':
    main()
