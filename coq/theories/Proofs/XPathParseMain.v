(** * The round trip through the XPath expression grammar, for every derivable tree (C08).

    [parse_spell_surface]: for every tree [a] that the grammar of the recommendation derives
    ([wfb a]), that contains no function name of the known-finding class C08-fname-case
    ([no_fname_case a]), and every choice of white space: the model of
    [xml_xpath::expr::parse] consumes [spell_surface a w] completely and returns an AST whose
    abstraction is [a] itself.  The proof is one induction on the size of [a]; for each tree the
    nine levels of the ladder are derived from the top (path expressions) down to [or]. *)
From Coq Require Import List NArith Arith Lia Bool.
From XmlRs Require Import Base.CPred Spec.XmlChars Spec.XPathSyntax Model.Peg Model.XPathAst
  Model.ParseActionsXPath Model.XPathAstAbs Gen.GrammarXPathGen
  Proofs.PegTermination Proofs.XPathParseBase Proofs.XPathParseProds Proofs.XPathParseLex Proofs.XPathParseAct
  Proofs.XPathParseFollow Proofs.XPathParseChains Proofs.XPathParseExpr Proofs.XPathParseSteps.
Import ListNotations.
Local Open Scope N_scope.

(** ** the trees covered: everything except the known finding *)
Fixpoint no_fname_case (a : xexpr) : bool :=
  match a with
  | XBin _ a b => no_fname_case a && no_fname_case b
  | XNeg a => no_fname_case a
  | XLit _ | XNum _ | XVar _ | XRoot => true
  | XCall f args => fname_case_ok f && forallb no_fname_case args
  | XParen a => no_fname_case a
  | XFilter p preds => no_fname_case p && forallb no_fname_case preds
  | XPath st first rest =>
      let sok := fun s : xstep => match s with XStep _ _ preds => forallb no_fname_case preds | _ => true end in
      match st with SFrom f _ => no_fname_case f | _ => true end
      && sok first && forallb (fun x : sep * xstep => let (_, s) := x in sok s) rest
  end.

(** the first rung: operators and primaries only *)
Fixpoint rung1 (a : xexpr) : bool :=
  match a with
  | XBin _ a b => rung1 a && rung1 b
  | XNeg a => rung1 a
  | XLit _ | XNum _ | XVar _ => true
  | XCall f args => fname_case_ok f && forallb rung1 args
  | XParen a => rung1 a
  | _ => false
  end.

Lemma forallb_impl {A} (f g : A -> bool) l : (forall x, In x l -> f x = true -> g x = true) ->
  forallb f l = true -> forallb g l = true.
Proof.
  induction l as [|x l IH]; [trivial|]. cbn [forallb]. intros H Hf. apply andb_true_iff in Hf. destruct Hf as [Hx Hl].
  rewrite (H x (or_introl eq_refl) Hx). apply IH; [|exact Hl]. intros y Hy. apply H. right. exact Hy.
Qed.

Lemma rung1_no_fname_case : forall a, rung1 a = true -> no_fname_case a = true.
Proof.
  fix IH 1. intros a. destruct a as [o a b|a|s|s|q|f args|a|p preds| |st first rest]; cbn [rung1 no_fname_case]; intros H; try discriminate; try reflexivity.
  - apply andb_true_iff in H. destruct H as [Ha Hb]. now rewrite (IH a Ha), (IH b Hb).
  - apply IH, H.
  - apply andb_true_iff in H. destruct H as [Hf Hargs]. rewrite Hf. cbn [andb].
    induction args as [|x args IHl]; [reflexivity|]. cbn [forallb] in *. apply andb_true_iff in Hargs.
    destruct Hargs as [Hx Hl]. rewrite (IH x Hx). apply IHl, Hl.
  - apply IH, H.
Qed.

(** ** size *)
Definition step_size (sz : xexpr -> nat) (s : xstep) : nat :=
  match s with XStep _ _ preds => S (list_sum (map sz preds)) | _ => 1%nat end.

Fixpoint size (a : xexpr) : nat :=
  match a with
  | XBin _ a b => S (size a + size b)
  | XNeg a => S (size a)
  | XCall _ args => S (list_sum (map size args))
  | XParen a => S (size a)
  | XFilter p preds => S (size p + list_sum (map size preds))
  | XPath st first rest =>
      S (match st with SFrom f _ => size f | _ => 0%nat end + step_size size first
         + list_sum (map (fun x : sep * xstep => let (_, s) := x in step_size size s) rest))
  | _ => 1%nat
  end.

Lemma size_in (x : xexpr) l : In x l -> (size x <= list_sum (map size l))%nat.
Proof.
  induction l as [|y l IH]; [intros []|].
  change (list_sum (map size (y :: l))) with (size y + list_sum (map size l))%nat.
  cbn [In]. intros [->|H]; [lia|]. specialize (IH H). lia.
Qed.

Lemma size_in_rest (y : sep * xstep) rest : In y rest ->
  (step_size size (snd y) <= list_sum (map (fun x : sep * xstep => let (_, s) := x in step_size size s) rest))%nat.
Proof.
  induction rest as [|[sp' s'] rest IH]; [intros []|].
  change (list_sum (map (fun x : sep * xstep => let (_, s) := x in step_size size s) ((sp', s') :: rest)))
    with (step_size size s' + list_sum (map (fun x : sep * xstep => let (_, s) := x in step_size size s) rest))%nat.
  cbn [In]. intros [<-|H]; [cbn [snd]; lia|]. specialize (IH H). lia.
Qed.

Lemma step_size_pred (s : xstep) ax t preds x : s = XStep ax t preds -> In x preds -> (size x < step_size size s)%nat.
Proof. intros -> Hx. cbn [step_size]. pose proof (size_in x preds Hx). lia. Qed.

(** ** the induction *)
Definition FirstOK (a : xexpr) : Prop := forall w, first_ok a (spell_surface a w).

Definition AllAt (a : xexpr) : Prop :=
  FirstOK a /\
  (is_primary a = true -> PrimOK a) /\
  (is_filter a = true -> FilterOK a) /\
  (level a = 8%nat -> Top8 a) /\
  ((7 <= level a)%nat -> Chain7 a /\ Top7 a) /\
  ((6 <= level a)%nat -> NegChain a /\ Top6 a) /\
  ((5 <= level a)%nat -> Chain5 a /\ Top5 a) /\
  ((4 <= level a)%nat -> Chain4 a /\ Top4 a) /\
  ((3 <= level a)%nat -> Chain3 a /\ Top3 a) /\
  ((2 <= level a)%nat -> Chain2 a /\ Top2 a) /\
  ((1 <= level a)%nat -> Chain1 a /\ Top1 a) /\
  (Chain0 a /\ Top0 a).

Lemma level_le8 a : (level a <= 8)%nat.
Proof. destruct a as [o| | | | | | | | |]; cbn [level]; try lia. destruct o; cbn; lia. Qed.

Lemma allat_first a : AllAt a -> FirstOK a.
Proof. intros H; apply H. Qed.
Lemma allat_top0 a : AllAt a -> Top0 a.
Proof. intros H. apply H. Qed.
Lemma allat_sub a : AllAt a -> SubOK a.
Proof. intros H. split; [apply allat_top0, H|apply allat_first, H]. Qed.

Lemma first_ok_of_hd (a : xexpr) (s : str) c r :
  s = c :: r -> is_ws c = false -> c <> 61 -> c <> 45 -> first_ok a s.
Proof. intros -> H1 H2 H3. cbn [first_ok]. auto. Qed.

Lemma step_start_first_ok (a : xexpr) (s : str) c r :
  s = c :: r -> (P1 c = true \/ c = 42 \/ c = 64 \/ c = 46) -> first_ok a s.
Proof.
  intros E Hc. apply (first_ok_of_hd a s c r E).
  - apply step_first_facts, Hc.
  - destruct Hc as [H|[ -> |[ -> | -> ]]]; try discriminate. apply (p1_facts c H).
  - destruct Hc as [H|[ -> |[ -> | -> ]]]; try discriminate. apply (p1_facts c H).
Qed.

Lemma all_at : forall N a, (size a < N)%nat -> wfb a = true -> no_fname_case a = true -> AllAt a.
Proof.
  induction N as [|N IH]; intros a Hs Hwf Hr; [lia|].
  (* operands of a binary operator *)
  assert (Hsub : forall o l r, a = XBin o l r ->
            AllAt l /\ AllAt r /\ (lvl o <= level l)%nat /\ (lvl o < level r)%nat).
  { intros o l r ->. cbn [wfb no_fname_case size] in *. rewrite !andb_true_iff in Hwf.
    destruct Hwf as [[[[Hl1 Hl2] _] Hwl] Hwr]. apply andb_true_iff in Hr. destruct Hr as [Hrl Hrr].
    apply Nat.leb_le in Hl1. apply Nat.ltb_lt in Hl2.
    split; [apply IH; [lia|assumption|assumption]|].
    split; [apply IH; [lia|assumption|assumption]|]. split; assumption. }
  (* sub-expressions in lists *)
  assert (Hlist : forall l, (list_sum (map size l) < size a)%nat -> forallb wfb l = true -> forallb no_fname_case l = true ->
                    forall x, In x l -> AllAt x).
  { intros l Hsz Hw Hn x Hx. rewrite forallb_forall in Hw, Hn.
    apply IH; [pose proof (size_in x l Hx); lia|apply Hw, Hx|apply Hn, Hx]. }
  (* steps *)
  assert (Hstep : forall s, (step_size size s < size a)%nat ->
            match s with XStep _ t preds => wf_ntest t && forallb wfb preds | _ => true end = true ->
            match s with XStep _ _ preds => forallb no_fname_case preds | _ => true end = true ->
            step_wf s).
  { intros s Hsz Hw Hn. destruct s as [ax t preds| |]; cbn [step_wf]; [|exact I|exact I].
    apply andb_true_iff in Hw. destruct Hw as [Ht Hp]. split; [exact Ht|].
    intros x Hx. apply allat_sub. apply (Hlist preds); try assumption. cbn [step_size] in Hsz. lia. }
  (* how the spelling starts *)
  assert (HF : FirstOK a).
  { intros w. destruct a as [o l r|a'|s|s|q|f args|a'|p preds| |st first rest]; cbn [spell_surface wfb no_fname_case size] in *.
    - destruct (Hsub o l r eq_refl) as (Al & _ & L1 & _). pose proof (allat_first l Al (kid w 0)) as Hl.
      rewrite spell_bin_eq. destruct (spell_surface l (kid w 0)) as [|c s]; [destruct Hl|]. cbn [app first_ok] in *.
      destruct Hl as (H1 & H2 & H3). repeat split; try assumption. intros H7. apply H3. cbn [level] in H7. lia.
    - cbn [app first_ok level]. repeat split; try discriminate. lia.
    - unfold spell_lit. cbn [first_ok]. unfold quote_of.
      destruct (wflag w && negb (mem 39 s)); [|destruct (mem 34 s)]; repeat split; discriminate.
    - destruct (number_hd s Hwf) as (c & r & -> & [Hd| ->]).
      + cbn [first_ok]. destruct (digit_facts c Hd) as (H1 & H2 & H3 & _). auto.
      + cbn [first_ok]. repeat split; discriminate.
    - cbn [app first_ok]. repeat split; discriminate.
    - rewrite andb_true_iff in Hwf. destruct Hwf as [Hf _]. unfold wf_fname in Hf.
      apply andb_true_iff in Hf. destruct Hf as [Hq _].
      destruct (qname_hd f Hq) as (c & r & -> & Hc). cbn [app first_ok].
      destruct (p1_facts c Hc) as (H1 & H2 & H3 & _). auto.
    - cbn [app first_ok]. repeat split; discriminate.
    - rewrite !andb_true_iff in Hwf. destruct Hwf as [[[Hprim Hwp] _] _]. apply andb_true_iff in Hr. destruct Hr as [Hrp _].
      assert (Ap : AllAt p) by (apply IH; [lia|assumption|assumption]).
      pose proof (allat_first p Ap (kid w 0)) as Hp.
      destruct (spell_surface p (kid w 0)) as [|c s]; [destruct Hp|]. cbn [app first_ok level] in *.
      destruct Hp as (H1 & H2 & H3). repeat split; try assumption. intros _. apply H3.
      destruct p; cbn in Hprim; try discriminate; cbn; lia.
    - cbn [first_ok]. repeat split; discriminate.
    - rewrite !andb_true_iff in Hwf. destruct Hwf as [[Hst Hfirst] Hrest].
      rewrite !andb_true_iff in Hr. destruct Hr as [[Hrst Hrfirst] Hrrest].
      assert (Hwf1 : step_wf first) by (apply Hstep; [lia|assumption|assumption]).
      destruct (step_first first (kid w 1) Hwf1) as (c & r & Ec & Hc).
      destruct st as [|sp|f sp].
      + cbn [app]. rewrite Ec. cbn [app]. eapply step_start_first_ok; [reflexivity|exact Hc].
      + destruct sp; cbn [sep_text app first_ok]; repeat split; discriminate.
      + apply andb_true_iff in Hst. destruct Hst as [Hff Hwff].
        assert (Af : AllAt f) by (apply IH; [lia|assumption|assumption]).
        pose proof (allat_first f Af (kid w 0)) as Hp. rewrite <- !app_assoc.
        destruct (spell_surface f (kid w 0)) as [|d s]; [destruct Hp|]. cbn [app first_ok level] in *.
        destruct Hp as (H1 & H2 & H3). repeat split; try assumption. intros _. apply H3.
        destruct f; cbn in Hff; try discriminate; cbn; lia. }
  (* primaries *)
  assert (HP : is_primary a = true -> PrimOK a).
  { intros Hp. destruct a as [o l r|a'|s|s|q|f args|a'|p preds| |st first rest]; cbn [is_primary wfb no_fname_case size] in *; try discriminate.
    - apply prim_lit, Hwf.
    - apply prim_num, Hwf.
    - apply prim_var, Hwf.
    - apply andb_true_iff in Hwf. destruct Hwf as [Hf Hargs]. apply andb_true_iff in Hr. destruct Hr as [Hc Hrargs].
      apply prim_call; try assumption. intros x Hx.
      assert (Ax : AllAt x) by (apply (Hlist args); try assumption; lia).
      split; [apply allat_top0, Ax|apply allat_first, Ax].
    - assert (Ax : AllAt a') by (apply IH; [lia|assumption|assumption]).
      apply prim_paren; [apply allat_first, Ax|apply allat_top0, Ax]. }
  (* filter expressions *)
  assert (HFi : is_filter a = true -> FilterOK a).
  { intros Hfi. destruct (is_primary a) eqn:Ep; [apply filter_of_primary, HP; reflexivity|].
    destruct a as [o l r|a'|s|s|q|f args|a'|p preds| |st first rest]; cbn [is_filter is_primary wfb no_fname_case size] in *; try discriminate.
    rewrite !andb_true_iff in Hwf. destruct Hwf as [[[Hprim Hwp] Hne] Hwpreds].
    apply andb_true_iff in Hr. destruct Hr as [Hrp Hrpreds].
    assert (Ap : AllAt p) by (apply IH; [lia|assumption|assumption]).
    apply filter_with_preds.
    - apply Ap, Hprim.
    - destruct preds; [discriminate|discriminate].
    - intros x Hx. apply allat_sub, (Hlist preds); try assumption. lia. }
  (* level 8 *)
  assert (H8 : level a = 8%nat -> Top8 a).
  { intros Hl. destruct (is_filter a) eqn:Efi; [apply top8_of_filter, HFi; reflexivity|].
    destruct a as [o l r|a'|s|s|q|f args|a'|p preds| |st first rest]; cbn [level is_filter wfb no_fname_case size] in *; try discriminate.
    - exfalso. destruct o; cbn in Hl; lia.
    - apply top8_root.
    - rewrite !andb_true_iff in Hwf. destruct Hwf as [[Hst Hfirst] Hrest].
      rewrite !andb_true_iff in Hr. destruct Hr as [[Hrst Hrfirst] Hrrest].
      apply top8_path.
      + destruct st as [|sp|f sp]; cbn [start_ok]; [exact I|exact I|].
        apply andb_true_iff in Hst. destruct Hst as [Hff Hwff].
        assert (Af : AllAt f) by (apply IH; [lia|assumption|assumption]). apply Af, Hff.
      + apply Hstep; [lia|assumption|assumption].
      + intros [sp s] Hin. cbn [snd]. rewrite forallb_forall in Hrest, Hrrest.
        pose proof (size_in_rest (sp, s) rest Hin) as Hsz. cbn [snd] in Hsz.
        apply Hstep; [lia|apply (Hrest (sp, s) Hin)|apply (Hrrest (sp, s) Hin)]. }
  assert (H7 : (7 <= level a)%nat -> Chain7 a /\ Top7 a).
  { apply level7; [exact Hwf| |intros; apply H8; pose proof (level_le8 a); lia].
    intros o l r E Ho. destruct (Hsub o l r E) as (Al & Ar & L1 & L2).
    split; [apply Al; lia|]. split; [|apply allat_first, Ar]. apply Ar. pose proof (level_le8 r). lia. }
  assert (H6 : (6 <= level a)%nat -> NegChain a /\ Top6 a).
  { intros Hl. assert (HC : NegChain a).
    { destruct (Nat.eq_dec (level a) 6) as [E6|N6].
      - destruct a as [o l r|a'|s|s|q|f args|a'|p preds| |st fs rs]; cbn [level] in E6; try discriminate.
        + exfalso. destruct o; cbn in E6; lia.
        + cbn [wfb no_fname_case size] in *. apply andb_true_iff in Hwf. destruct Hwf as [Hl6 Hwa]. apply Nat.leb_le in Hl6.
          assert (Hax : AllAt a') by (apply IH; [lia|assumption|assumption]).
          apply negchain_step; [apply allat_first, Hax|]. apply Hax. exact Hl6.
      - apply negchain_base; [lia|exact HF|apply H7; lia]. }
    split; [exact HC|apply top6_of_negchain, HC]. }
  assert (H5 : (5 <= level a)%nat -> Chain5 a /\ Top5 a).
  { apply level5; [exact Hwf| |intros; apply H6; assumption].
    intros o l r E Ho. destruct (Hsub o l r E) as (Al & Ar & L1 & L2).
    split; [apply Al; lia|]. split; [|apply allat_first, Ar]. apply Ar. lia. }
  assert (H4 : (4 <= level a)%nat -> Chain4 a /\ Top4 a).
  { apply level4; [exact Hwf| |intros; apply H5; assumption].
    intros o l r E Ho. destruct (Hsub o l r E) as (Al & Ar & L1 & L2).
    split; [apply Al; lia|]. split; [|apply allat_first, Ar]. apply Ar. lia. }
  assert (H3 : (3 <= level a)%nat -> Chain3 a /\ Top3 a).
  { apply level3; [exact Hwf| |intros; apply H4; assumption].
    intros o l r E Ho. destruct (Hsub o l r E) as (Al & Ar & L1 & L2).
    split; [apply Al; lia|]. split; [|apply allat_first, Ar]. apply Ar. lia. }
  assert (H2 : (2 <= level a)%nat -> Chain2 a /\ Top2 a).
  { apply level2; [exact Hwf| |intros; apply H3; assumption].
    intros o l r E Ho. destruct (Hsub o l r E) as (Al & Ar & L1 & L2).
    split; [apply Al; lia|]. split; [|apply allat_first, Ar]. apply Ar. lia. }
  assert (H1 : (1 <= level a)%nat -> Chain1 a /\ Top1 a).
  { apply level1; [exact Hwf| |intros; apply H2; assumption].
    intros o l r E Ho. destruct (Hsub o l r E) as (Al & Ar & L1 & L2).
    split; [apply Al; lia|]. split; [|apply allat_first, Ar]. apply Ar. lia. }
  assert (H0 : Chain0 a /\ Top0 a).
  { apply level0; [exact Hwf| |intros; apply H1; assumption|lia].
    intros o l r E Ho. destruct (Hsub o l r E) as (Al & Ar & L1 & L2).
    split; [apply Al|]. split; [|apply allat_first, Ar]. apply Ar. lia. }
  unfold AllAt. tauto.
Qed.

(** the termination certificate of the regenerated XPath grammar, checked by computation (the same
    check as Proofs/GrammarTermination.v, repeated here so that this file does not depend on the
    XML grammar) *)
Lemma G_xpath_cert_c08 : cert_okb G_xpath G_xpath_nulls G_xpath_ranks G_xpath_R = true.
Proof. vm_compute. reflexivity. Qed.

(** ** the round trip for [parse_expr] *)
Theorem parse_spell_surface_all a w :
  wfb a = true -> no_fname_case a = true -> ws_ok w = true ->
  exists e, parse_expr (spell_surface a w) = POk e [] /\ abs_or e = a.
Proof.
  intros Hwf Hr Hw. pose proof (all_at (S (size a)) a (Nat.lt_succ_diag_r _) Hwf Hr) as HA.
  destruct (allat_top0 a HA w [] Hw (follow_nil 0) (lex_follow_nil a)) as (t & e & HP & Ha & Hab).
  exists e. split; [|exact Hab]. unfold parse_expr, run_expr.
  rewrite app_nil_r in HP.
  assert (HP' : P (NT nt_expr) (spell_surface a w) t []) by (apply parses_nt; rewrite prod_expr; exact HP).
  rewrite (parses_run G_xpath G_xpath_nulls G_xpath_ranks G_xpath_R nt_expr _ _ _ G_xpath_cert_c08 HP').
  now rewrite Ha.
Qed.

Theorem parse_spell_surface_rung1 a w :
  wfb a = true -> rung1 a = true -> ws_ok w = true ->
  exists e, parse_expr (spell_surface a w) = POk e [] /\ abs_or e = a.
Proof.
  intros Hwf Hr Hw. apply parse_spell_surface_all; try assumption.
  apply rung1_no_fname_case, Hr.
Qed.
