(** * Deep embedding of the nom 7.1.3 combinators used by xml-rs, and their semantics.

    A grammar is a [list pexpr] indexed by non-terminal number; the translator T2
    (tools/rs2v/grammar.py) regenerates it from parser/src/lib.rs, nom/src/lib.rs,
    nom/src/xmlchar.rs and xpath/src/expr/mod.rs on every run.  [denote] is the meaning
    of each combinator as read from nom's source (multi/mod.rs, branch/mod.rs,
    sequence/mod.rs, bytes/complete.rs, character/complete.rs) and from
    nom/src/helper.rs; it is hand-written, part of the trusted base, and validated by
    the [prod] correspondence (every production, real parser vs this semantics).

    Facts of nom that matter and are reproduced here:
    - [alt] tries its alternatives in order and commits to the first success (PEG choice);
    - [many0]/[many1] stop at the first error of the body and FAIL when an iteration
      succeeds without consuming input (the "infinite loop check");
    - [separated_list0/1] fail when the separator succeeds without consuming, and when the
      element after a separator fails they return the input BEFORE that separator;
    - [opt] turns an error into [None];
    - [helper::take_until p pat] cuts the slice recognised by [p] at the first occurrence of
      [pat] and gives the remainder back to the input;
    - [helper::take_except p pat] rejects the slice recognised by [p] when
      [pat.compare_no_case(slice)] answers Ok (see [ci_reject]).
    Fuel is spent only when a non-terminal is entered; every other constructor is
    structural. *)
From Coq Require Import List NArith Arith Bool.
From XmlRs Require Import Base.CPred.
Import ListNotations.
Local Open Scope nat_scope.

Inductive res (A : Type) := Ok (a : A) | Fail | Oof.
Arguments Ok {A} a.
Arguments Fail {A}.
Arguments Oof {A}.

Inductive tree :=
| TStr (s : str)                 (* a recognised slice: tag, character runs, recognize *)
| TPair (a b : tree)             (* tuple *)
| TList (l : list tree)          (* many0, many1, separated_list *)
| TNone | TSome (t : tree)       (* opt *)
| TMap (label : N) (t : tree).   (* map(p, f): f is named by a label, interpreted elsewhere *)

(** positions inside a parse tree, for [verify] closures that compare two parsed components:
    first / second component of a tuple, or the argument of a [map] *)
Inductive dir := Fst | Snd | InMap.

Fixpoint tget (p : list dir) (t : tree) : option tree :=
  match p with
  | [] => Some t
  | d :: p' =>
    match d, t with
    | Fst, TPair a _ => tget p' a
    | Snd, TPair _ b => tget p' b
    | InMap, TMap _ a => tget p' a
    | _, _ => None
    end
  end.

Fixpoint str_eqb (a b : str) : bool :=
  match a, b with
  | [], [] => true
  | x :: a', y :: b' => N.eqb x y && str_eqb a' b'
  | _, _ => false
  end.

Fixpoint tree_eqb (a b : tree) : bool :=
  match a, b with
  | TStr x, TStr y => str_eqb x y
  | TPair a1 a2, TPair b1 b2 => tree_eqb a1 b1 && tree_eqb a2 b2
  | TList l1, TList l2 =>
      (fix go (l1 l2 : list tree) : bool :=
         match l1, l2 with
         | [], [] => true
         | x :: r1, y :: r2 => tree_eqb x y && go r1 r2
         | _, _ => false
         end) l1 l2
  | TNone, TNone => true
  | TSome x, TSome y => tree_eqb x y
  | TMap l1 x, TMap l2 y => N.eqb l1 l2 && tree_eqb x y
  | _, _ => false
  end.

Definition verify_eq (p1 p2 : list dir) (t : tree) : bool :=
  match tget p1 t, tget p2 t with
  | Some a, Some b => tree_eqb a b
  | _, _ => false
  end.

Inductive pexpr :=
| Tag (s : str)                           (* tag("..."), char('c') *)
| Chars0 (p : cpred)                      (* split_at_position_complete, take_till, multispace0, digit0 *)
| Chars1 (p : cpred)                      (* split_at_position1_complete, multispace1, alpha1, digit1, hex_digit1 *)
| Seq (a b : pexpr)                       (* tuple((a, b)) *)
| SeqL (a b : pexpr)                      (* terminated(a, b) *)
| SeqR (a b : pexpr)                      (* preceded(a, b) *)
| Alt (a b : pexpr)
| Many0 (e : pexpr) | Many1 (e : pexpr)
| Opt (e : pexpr)
| SepBy0 (sep e : pexpr) | SepBy1 (sep e : pexpr)
| Recognize (e : pexpr)
| Map (label : N) (e : pexpr)
| TakeUntil (e : pexpr) (pat : str)
| TakeExcept (e : pexpr) (pat : str)
| VerifyEq (p1 p2 : list dir) (e : pexpr)  (* verify(e, |t| t.p1 == t.p2): see [tget] *)
| NT (n : nat).

(** ** string helpers *)
Fixpoint prefix (a s : str) : option str :=
  match a, s with
  | [], _ => Some s
  | x :: a', y :: s' => if N.eqb x y then prefix a' s' else None
  | _, [] => None
  end.

Fixpoint span (f : char -> bool) (s : str) : str * str :=
  match s with
  | c :: s' => if f c then let (a, b) := span f s' in (c :: a, b) else ([], s)
  | [] => ([], [])
  end.

Definition consumed (s r : str) : str := firstn (length s - length r) s.

(** index of the first occurrence of [pat] in [v] (str::find) *)
Fixpoint find_sub (pat v : str) : option nat :=
  match prefix pat v with
  | Some _ => Some 0
  | None => match v with
            | [] => None
            | _ :: v' => match find_sub pat v' with Some i => Some (S i) | None => None end
            end
  end.

(** ASCII lower-casing (the patterns used are ASCII; [char::to_lowercase] agrees with
    this on every character that can compare equal to an ASCII letter except U+212A KELVIN
    SIGN and U+0130, which are covered by the correspondence stream) *)
Definition lower (c : N) : N := if N.leb 65%N c && N.leb c 90%N then N.add c 32%N else c.

(** [pat.compare_no_case(v) == CompareResult::Ok && pat.input_len() == v.input_len()]:  no
    position of [zip pat v] differs ignoring case, and the lengths agree (byte lengths in the
    Rust; equal to character lengths here because every matched character is ASCII) *)
Fixpoint ci_zip_eq (pat v : str) : bool :=
  match pat, v with
  | x :: p', y :: v' => N.eqb (lower x) (lower y) && ci_zip_eq p' v'
  | _, _ => true
  end.
Definition ci_reject (pat v : str) : bool := ci_zip_eq pat v && Nat.eqb (length v) (length pat).

(** ** loops *)
Fixpoint many_loop (k : nat) (p : str -> res (tree * str)) (s : str) (acc : list tree)
  : res (tree * str) :=
  match k with
  | O => Oof
  | S k' =>
    match p s with
    | Ok (t, r) => if Nat.ltb (length r) (length s) then many_loop k' p r (t :: acc) else Fail
    | Fail => Ok (TList (rev acc), s)
    | Oof => Oof
    end
  end.

Fixpoint sep_loop (k : nat) (sep p : str -> res (tree * str)) (s : str) (acc : list tree)
  : res (tree * str) :=
  match k with
  | O => Oof
  | S k' =>
    match sep s with
    | Fail => Ok (TList (rev acc), s)
    | Oof => Oof
    | Ok (_, r1) =>
      if Nat.ltb (length r1) (length s) then
        match p r1 with
        | Fail => Ok (TList (rev acc), s)
        | Oof => Oof
        | Ok (t, r2) => sep_loop k' sep p r2 (t :: acc)
        end
      else Fail
    end
  end.

Definition bind {A B} (x : res A) (f : A -> res B) : res B :=
  match x with Ok a => f a | Fail => Fail | Oof => Oof end.

Definition dummy : pexpr := Chars1 (InR []).   (* body of an undefined non-terminal: fails *)

Section Denote.
Variable G : list pexpr.
Definition body (n : nat) : pexpr := nth n G dummy.

Fixpoint denote (fuel : nat) : pexpr -> str -> res (tree * str) :=
  fix go (e : pexpr) (s : str) {struct e} : res (tree * str) :=
  match e with
  | Tag a => match prefix a s with Some r => Ok (TStr a, r) | None => Fail end
  | Chars0 p => let (a, b) := span (eval p) s in Ok (TStr a, b)
  | Chars1 p => match span (eval p) s with ([], _) => Fail | (a, b) => Ok (TStr a, b) end
  | Seq a b => bind (go a s) (fun x => bind (go b (snd x)) (fun y => Ok (TPair (fst x) (fst y), snd y)))
  | SeqL a b => bind (go a s) (fun x => bind (go b (snd x)) (fun y => Ok (fst x, snd y)))
  | SeqR a b => bind (go a s) (fun x => bind (go b (snd x)) (fun y => Ok (fst y, snd y)))
  | Alt a b => match go a s with Fail => go b s | x => x end
  | Many0 p => many_loop (S (length s)) (go p) s []
  | Many1 p => bind (go p s) (fun x => many_loop (S (length (snd x))) (go p) (snd x) [fst x])
  | Opt p => match go p s with Ok (t, r) => Ok (TSome t, r) | Fail => Ok (TNone, s) | Oof => Oof end
  | SepBy0 sep p =>
      match go p s with
      | Ok (t, r) => sep_loop (S (length r)) (go sep) (go p) r [t]
      | Fail => Ok (TList [], s)
      | Oof => Oof
      end
  | SepBy1 sep p => bind (go p s) (fun x => sep_loop (S (length (snd x))) (go sep) (go p) (snd x) [fst x])
  | Recognize p => bind (go p s) (fun x => Ok (TStr (consumed s (snd x)), snd x))
  | Map l p => bind (go p s) (fun x => Ok (TMap l (fst x), snd x))
  | TakeUntil p pat =>
      bind (go p s) (fun x =>
        let v := consumed s (snd x) in
        match find_sub pat v with
        | Some i => Ok (TStr (firstn i s), skipn i s)
        | None => Ok (TStr v, snd x)
        end)
  | TakeExcept p pat =>
      bind (go p s) (fun x =>
        let v := consumed s (snd x) in
        if ci_reject pat v then Fail else Ok (TStr v, snd x))
  | VerifyEq p1 p2 p => bind (go p s) (fun x => if verify_eq p1 p2 (fst x) then Ok x else Fail)
  | NT n => match fuel with O => Oof | S f => denote f (body n) s end
  end.

(** one-step unfolding, with [denote fuel] at the recursive positions (proofs use this and
    keep [denote] opaque) *)
Definition callnt (fuel : nat) (n : nat) (s : str) : res (tree * str) :=
  match fuel with O => Oof | S f => denote f (body n) s end.

Definition den1 (fuel : nat) (e : pexpr) (s : str) : res (tree * str) :=
  let go := denote fuel in
  match e with
  | Tag a => match prefix a s with Some r => Ok (TStr a, r) | None => Fail end
  | Chars0 p => let (a, b) := span (eval p) s in Ok (TStr a, b)
  | Chars1 p => match span (eval p) s with ([], _) => Fail | (a, b) => Ok (TStr a, b) end
  | Seq a b => bind (go a s) (fun x => bind (go b (snd x)) (fun y => Ok (TPair (fst x) (fst y), snd y)))
  | SeqL a b => bind (go a s) (fun x => bind (go b (snd x)) (fun y => Ok (fst x, snd y)))
  | SeqR a b => bind (go a s) (fun x => bind (go b (snd x)) (fun y => Ok (fst y, snd y)))
  | Alt a b => match go a s with Fail => go b s | x => x end
  | Many0 p => many_loop (S (length s)) (go p) s []
  | Many1 p => bind (go p s) (fun x => many_loop (S (length (snd x))) (go p) (snd x) [fst x])
  | Opt p => match go p s with Ok (t, r) => Ok (TSome t, r) | Fail => Ok (TNone, s) | Oof => Oof end
  | SepBy0 sep p =>
      match go p s with
      | Ok (t, r) => sep_loop (S (length r)) (go sep) (go p) r [t]
      | Fail => Ok (TList [], s)
      | Oof => Oof
      end
  | SepBy1 sep p => bind (go p s) (fun x => sep_loop (S (length (snd x))) (go sep) (go p) (snd x) [fst x])
  | Recognize p => bind (go p s) (fun x => Ok (TStr (consumed s (snd x)), snd x))
  | Map l p => bind (go p s) (fun x => Ok (TMap l (fst x), snd x))
  | TakeUntil p pat =>
      bind (go p s) (fun x =>
        let v := consumed s (snd x) in
        match find_sub pat v with
        | Some i => Ok (TStr (firstn i s), skipn i s)
        | None => Ok (TStr v, snd x)
        end)
  | TakeExcept p pat =>
      bind (go p s) (fun x =>
        let v := consumed s (snd x) in
        if ci_reject pat v then Fail else Ok (TStr v, snd x))
  | VerifyEq p1 p2 p => bind (go p s) (fun x => if verify_eq p1 p2 (fst x) then Ok x else Fail)
  | NT n => callnt fuel n s
  end.

(** ** termination certificate (checked, not trusted): [nullb n] over-approximates "non-terminal
    [n] can succeed without consuming", [rank] decreases along calls made at the same input
    position (no left recursion) *)
Variable nullb : nat -> bool.
Variable rank : nat -> nat.

Fixpoint enull (e : pexpr) : bool :=
  match e with
  | Tag a => match a with [] => true | _ => false end
  | Chars0 _ => true
  | Chars1 _ => false
  | Seq a b | SeqL a b | SeqR a b => enull a && enull b
  | Alt a b => enull a || enull b
  | Many0 _ => true
  | Many1 p => enull p
  | Opt _ => true
  | SepBy0 _ _ => true
  | SepBy1 _ p => enull p
  | Recognize p | Map _ p => enull p
  | TakeUntil _ _ => true
  | TakeExcept p _ => enull p
  | VerifyEq _ _ p => enull p
  | NT n => nullb n
  end.

Fixpoint efirst (e : pexpr) : list nat :=
  match e with
  | Tag _ | Chars0 _ | Chars1 _ => []
  | Seq a b | SeqL a b | SeqR a b => efirst a ++ (if enull a then efirst b else [])
  | Alt a b => efirst a ++ efirst b
  | Many0 p | Many1 p | Opt p | Recognize p | Map _ p | TakeUntil p _ | TakeExcept p _ | VerifyEq _ _ p => efirst p
  | SepBy0 sep p | SepBy1 sep p => efirst p ++ (if enull p then efirst sep else [])
  | NT n => [n]
  end.

End Denote.

Definition table_fn {A} (d : A) (l : list A) (n : nat) : A := nth n l d.

(** decidable certificate check for a concrete grammar (run by [vm_compute] on the generated one) *)
Definition cert_okb (G : list pexpr) (nulls : list bool) (ranks : list nat) (R : nat) : bool :=
  let nullb := table_fn false nulls in
  let rank := table_fn 0 ranks in
  Nat.leb (length ranks) (length G) &&
  forallb (fun n =>
      implb (enull nullb (nth n G dummy)) (nullb n)
      && forallb (fun m => Nat.ltb (rank m) (rank n)) (efirst nullb (nth n G dummy))
      && Nat.leb (rank n) R)
    (seq 0 (length G)).

(** the fuel that always suffices for a certified grammar: see Proofs/PegTermination.v *)
Definition fuel_bound (R : nat) (s : str) : nat := S (length s) * (S (S R)) + S R + 1.

Definition run (G : list pexpr) (R : nat) (n : nat) (s : str) : res (tree * str) :=
  denote G (fuel_bound R s) (NT n) s.
