(** * C13: refinement rung "split_text"

    DOM Level 1: "Breaks this Text node into two Text nodes at the specified offset, keeping both
    in the tree as siblings.  This node then only contains all the content up to the offset point.
    And a new Text node, which is inserted as the next sibling of this node, contains all the
    content at and after the offset point.  INDEX_SIZE_ERR: Raised if the specified offset is
    negative or greater than the number of characters in data."

    Under the tree invariant the model does exactly that on a Text / CDATASection that has a
    parent (the insertion after the receiver cannot be refused); on a node without parent Level 1
    is silent (reading R1), the model refuses and changes nothing. *)
From Coq Require Import List NArith Bool Lia PeanoNat.
From XmlRs Require Import Base.CPred Base.NList Model.Store Model.DomOps Proofs.DomBase Proofs.DomTree Proofs.DomAnc
  Proofs.DomOpsInv Proofs.DomL1Abs Proofs.DomL1Atomic Proofs.DomL1Refine Proofs.DomL1RefineInsert Proofs.DomL1RefineValue.
From XmlRs Require Spec.DomCharData Spec.DomL1.
Import ListNotations.
Open Scope N_scope.

(** ** the position of the new sibling *)
Lemma insert_after_spec (i n : N) : forall l ix, NoDup l -> index_of n l = Some ix ->
  match nth_error l (S ix) with
  | Some nx => match index_of nx l with Some m => insert_at m i l | None => l ++ [i] end
  | None => l ++ [i]
  end = DomL1.insert_after_id i n l.
Proof.
  induction l as [|y t IH]; intros ix Hnd Hix; [discriminate|].
  inversion Hnd as [|? ? Hy Ht]; subst. cbn [index_of] in Hix. cbn [DomL1.insert_after_id].
  destruct (N.eqb_spec y n) as [->|Hne].
  - inversion Hix; subst ix. cbn [nth_error]. destruct t as [|nx t']; [reflexivity|]. cbn [nth_error index_of].
    destruct (N.eqb_spec n nx) as [->|Hnn]; [exfalso; apply Hy; left; reflexivity|].
    rewrite N.eqb_refl. reflexivity.
  - destruct (index_of n t) as [ix'|] eqn:E; [|discriminate]. cbn in Hix. inversion Hix; subst ix.
    specialize (IH ix' Ht eq_refl). change (nth_error (y :: t) (S (S ix'))) with (nth_error t (S ix')). rewrite <- IH.
    destruct (nth_error t (S ix')) as [nx|] eqn:Nx; [|reflexivity].
    cbn [index_of]. destruct (N.eqb_spec y nx) as [->|Hyn]; [exfalso; apply Hy; eapply nth_error_In; exact Nx|].
    destruct (index_of nx t) as [m|]; reflexivity.
Qed.

(** ** creating a node whose parent is set at once *)
Lemma abs_store_ext s s' : next s' = next s -> sroot s' = sroot s -> (forall i, get s' i = get s i) -> abs_store s' = abs_store s.
Proof.
  intros Hn Hr Hg. unfold abs_store. rewrite Hn, Hr. f_equal. apply map_ext. intros i. rewrite Hg. reflexivity.
Qed.

Lemma abs_create_upd s it f : Bounded s ->
  abs_store (upd (snd (create s it)) (next s) f) = snd (DomL1.new_node (abs_store s) (abs_item (f it))).
Proof.
  intros B. rewrite (abs_create s (f it) B). cbn [snd]. apply abs_store_ext.
  - rewrite next_upd. reflexivity.
  - rewrite sroot_upd. reflexivity.
  - intros i. destruct (create_spec s it) as [_ [_ [_ [Hg Ho]]]]. destruct (create_spec s (f it)) as [_ [_ [_ [Hg' Ho']]]].
    rewrite get_upd. destruct (N.eqb_spec i (next s)) as [->|Hne].
    + rewrite Hg, Hg'. reflexivity.
    + rewrite Ho, Ho' by exact Hne. reflexivity.
Qed.

Lemma new_node_pair s nd : DomL1.new_node (abs_store s) nd = (next s, snd (DomL1.new_node (abs_store s) nd)).
Proof.
  unfold DomL1.new_node. cbn [snd]. f_equal. unfold abs_store. cbn [DomL1.d_nodes].
  rewrite len_length, map_length, seq_length. lia.
Qed.

Lemma offers_split_abs k : DomL1.offers_split (abs_type k) = match k with KTx | KCd => true | _ => false end.
Proof. destruct k; reflexivity. Qed.

Theorem step_refines_partial_split_text : forall w (r : nref) off,
  WInv w ->
  DomL1.conforms (abs w) (DomL1.ASplitText r off) (abs (fst (step w (SplitText r off)))) (outcome_class (snd (step w (SplitText r off)))).
Proof.
  intros w r off Hw. rewrite conforms_conf. cbn [step DomL1.dom_step]. unfold DomL1.split_text, on_node.
  rewrite doc_of_abs. change (@fst N N r) with (@fst N id r).
  destruct (doc_at w (fst r)) as [s|] eqn:D; cbn [option_map]; [|apply conf_exact; [discriminate | reflexivity | reflexivity]].
  pose proof (doc_at_P TreeInv w _ s Hw D) as T.
  rewrite (aget_abs w r s Hw D). unfold kind_of. change (@snd N N r) with (@snd N id r).
  destruct (get s (snd r)) as [rit|] eqn:Hr; cbn [option_map]; [|apply conf_exact; [discriminate | reflexivity | reflexivity]].
  change (DomL1.n_type (abs_item rit)) with (abs_type (ikind rit)). rewrite offers_split_abs.
  assert (Hkk : (ikind rit = KTx \/ ikind rit = KCd) \/ (match ikind rit with KTx | KCd => true | _ => false end = false
              /\ (let '(s1, o) := match ikind rit with KTx | KCd => split_text (fst r) s (snd r) (ikind rit) off | _ => (s, NotApplicable) end
                  in (set_doc w (fst r) s1, o)) = (w, NotApplicable))).
  { destruct (ikind rit); try (right; split; [reflexivity | rewrite (set_doc_same w (fst r) s D); reflexivity]); left; tauto. }
  destruct Hkk as [Hkk|[E1 E2]].
  2:{ rewrite E1, E2. apply conf_exact; [discriminate | reflexivity | reflexivity]. }
  assert (E1 : match ikind rit with KTx | KCd => true | _ => false end = true) by (destruct Hkk as [-> | ->]; reflexivity).
  assert (E2 : match ikind rit with KTx | KCd => split_text (fst r) s (snd r) (ikind rit) off | _ => (s, NotApplicable) end
               = split_text (fst r) s (snd r) (ikind rit) off) by (destruct Hkk as [-> | ->]; reflexivity).
  rewrite E1, E2. cbn [negb]. clear E1 E2.
  assert (Hv : DomL1.n_value (abs_item rit) = idata rit) by (unfold abs_item, abs_value; cbn; destruct Hkk as [-> | ->]; reflexivity).
  rewrite Hv. unfold split_text, DomCharData.dom_split. unfold data_of. rewrite Hr. rewrite mlen_len.
  destruct (N.ltb_spec (NList.len (idata rit)) off) as [Hoff|Hoff].
  { cbn [fst snd]. rewrite (set_doc_same w (fst r) s D). apply conf_exact; [discriminate | reflexivity | reflexivity]. }
  cbn [abs_item DomL1.n_parent]. unfold parent_of. rewrite Hr.
  destruct (iparent rit) as [p|] eqn:Hpar.
  2:{ (* no parent: Level 1 is silent, the model refuses *)
      cbn [fst snd]. rewrite (set_doc_same w (fst r) s D). unfold conf. cbn [fst snd]. split; [|left; reflexivity].
      destruct (ikind rit); discriminate. }
  (* the parent lists the receiver among its children and accepts the new node *)
  assert (Hl : lists s p (snd r)) by (apply (ti_par_lists s T); exists rit; split; assumption).
  destruct Hl as [pit [Hp [Hin|Hin]]].
  2:{ exfalso. destruct (ti_attr_kind s T p pit (snd r) rit Hp Hin Hr) as [_ K]. destruct Hkk as [K'|K']; congruence. }
  pose proof (ti_child_kind s T p pit (snd r) rit Hp Hin Hr) as Hok.
  unfold kind_of. rewrite Hp. cbn [option_map].
  assert (Hokb : match ikind rit, Some (p, ikind pit) with
                 | KTx, Some (_, KAt) | KTx, Some (_, KEl) | KCd, Some (_, KEl) => true
                 | _, _ => false
                 end = true).
  { destruct Hkk as [K|K]; rewrite K in *; destruct (ikind pit); try discriminate; reflexivity. }
  rewrite Hokb. clear Hokb.
  replace (N.min off (NList.len (idata rit))) with off by lia.
  rewrite firstn_take, skipn_drop.
  set (d1 := take off (idata rit)). set (d2 := drop off (idata rit)).
  set (s1 := set_str s (snd r) d1).
  set (it := new_item (ikind rit) None [] d2 false None).
  rewrite (create_eta s1 it). cbv beta iota zeta.
  assert (T1 : TreeInv s1) by (apply set_str_inv; exact T).
  assert (Hns : next s1 = next s) by apply next_upd.
  destruct (create_spec s1 it) as [_ [Hn2 [_ [Hg2 Ho2]]]].
  set (s2 := snd (create s1 it)) in *.
  assert (Hpn : p <> snd r) by (intros E; apply (not_self_listed s T p); exists pit; split; [exact Hp | left; rewrite <- E in Hin; exact Hin]).
  assert (Hp1 : get s1 p = Some pit) by (unfold s1, set_str; rewrite get_upd_other by exact Hpn; exact Hp).
  assert (Hpne : p <> next s1) by (intros E; pose proof (ti_bound s T p pit Hp); lia).
  assert (Hp2 : get s2 p = Some pit) by (rewrite Ho2 by exact Hpne; exact Hp1).
  assert (Hc2 : children_of s2 p = ichildren pit) by (unfold children_of; rewrite Hp2; reflexivity).
  (* the insertion is accepted *)
  assert (Hanc : ancestor s2 p (next s1) = false).
  { destruct (ancestor s2 p (next s1)) eqn:A; [|reflexivity]. exfalso.
    unfold ancestor in A. apply anc_fuel_sound in A.
    destruct (anc_has_parent s2 _ _ A) as [q [[qit [Hq Hqp]] _]].
    destruct (N.eq_dec q (next s1)) as [->|Hqn].
    - rewrite Hg2 in Hq. inversion Hq; subst. cbn in Hqp. discriminate.
    - rewrite Ho2 in Hq by exact Hqn.
      assert (par s1 q (next s1)) as Hpar1 by (exists qit; split; assumption).
      apply (ti_par_lists s1 T1) in Hpar1. destruct Hpar1 as [nit [Hnit _]].
      pose proof (ti_bound s1 T1 _ _ Hnit). lia. }
  assert (CI : check_insert s2 p (next s1) = None).
  { unfold check_insert, kind_of. rewrite Hp2, Hg2. cbn [option_map].
    assert (Hne : (next s1 =? p) = false) by (apply N.eqb_neq; intros E; apply Hpne; symmetry; exact E).
    rewrite Hne, Hanc. cbn [orb]. change (ikind it) with (ikind rit).
    destruct Hkk as [K|K]; rewrite K in *; destruct (ikind pit); try discriminate; reflexivity. }
  (* the final store, whichever way the insertion goes *)
  rewrite <- (abs_store_put_data s (snd r) rit d1 T Hr) by (unfold abs_value; cbn; destruct Hkk as [-> | ->]; reflexivity).
  fold s1. rewrite (new_node_pair s1). cbv beta iota zeta.
  assert (Hfin : forall ref,
            (match ref with Some nx => match index_of nx (ichildren pit) with Some m => insert_at m (next s1) (ichildren pit) | None => ichildren pit ++ [next s1] end
                          | None => ichildren pit ++ [next s1] end) = DomL1.insert_after_id (next s1) (snd r) (ichildren pit) ->
            abs_store (invalidate (link s2 p (next s1) ref))
            = DomL1.upd_node (snd (DomL1.new_node (abs_store s1)
                                                  (DomL1.set_parent (Some p) (DomL1.fresh_node (abs_type (ikind rit)) [] d2))))
                             p (fun pn => DomL1.set_children (DomL1.insert_after_id (next s1) (snd r) (DomL1.n_children pn)) pn)).
  { intros ref Href. rewrite abs_store_invalidate. unfold link.
    rewrite unlink_no_parent by (unfold parent_of; rewrite Hg2; reflexivity).
    assert (Hnode : DomL1.set_parent (Some p) (DomL1.fresh_node (abs_type (ikind rit)) [] d2) = abs_item (with_parent (Some p) it)).
    { unfold abs_item, abs_name, abs_value, it. cbn. destruct Hkk as [-> | ->]; reflexivity. }
    rewrite Hnode. rewrite <- (abs_create_upd s1 it (with_parent (Some p)) (bounded_of_inv s1 T1)). fold s2.
    apply abs_store_upd; [apply bounded_upd; apply bounded_create; apply bounded_of_inv; exact T1|].
    intros it0 Hit0. rewrite get_upd_other in Hit0 by exact Hpne. rewrite Hp2 in Hit0. inversion Hit0; subst it0.
    unfold abs_item, DomL1.set_children. cbn. f_equal. exact Href. }
  unfold info_insert_after. rewrite Hc2.
  destruct (index_of (snd r) (ichildren pit)) as [ix|] eqn:Ix.
  2:{ exfalso. clear - Hin Ix. induction (ichildren pit) as [|y t IH]; [destruct Hin|]. cbn [index_of] in Ix.
      destruct (N.eqb_spec y (snd r)) as [->|Hne]; [discriminate|]. destruct Hin as [E|Hin]; [contradiction|].
      destruct (index_of (snd r) t); [discriminate | apply IH; [exact Hin | reflexivity]]. }
  pose proof (insert_after_spec (next s1) (snd r) (ichildren pit) ix (ti_nodup_c s T p pit Hp) Ix) as IA.
  change (DomL1.n_children (abs_item rit)) with (ichildren rit).
  destruct (nth_error (ichildren pit) (S ix)) as [nx|] eqn:Nx.
  - unfold info_insert_before. rewrite Hc2.
    assert (M : mem nx (ichildren pit) = true) by (apply mem_spec; eapply nth_error_In; exact Nx).
    rewrite M, CI.
    assert (Hnx : (next s1 =? nx) = false).
    { apply N.eqb_neq. intros E. destruct (lists_live_child s T p nx) as [nit Hnit]; [exists pit; split; [exact Hp | left; apply mem_spec; exact M]|].
      pose proof (ti_bound s T _ _ Hnit). lia. }
    rewrite Hnx. cbn [fst snd].
    apply conf_exact; [discriminate | | rewrite Hns; reflexivity]. cbn [fst].
    rewrite abs_set_doc. f_equal. exact (Hfin (Some nx) IA).
  - unfold info_append. rewrite CI. cbn [fst snd].
    apply conf_exact; [discriminate | | rewrite Hns; reflexivity]. cbn [fst].
    rewrite abs_set_doc. f_equal. exact (Hfin None IA).
Qed.
