(** * From a structural similarity of two stores to a renaming of ids

    [simf f n1 n2]: down to depth [f] the items at [n1] (store [s1]) and [n2] (store [s2]) have the
    same kind, the same names and data (a document type item: the same kind) and pairwise similar
    attribute and child lists.  When the roots are similar to the depth of [s1], the simultaneous
    walk [pairs] of the two trees is a one-to-one table of ids, and reading it as a function
    (ids outside the table are sent above [next s2]) gives the renaming that
    Proofs/StoreIso.v asks for: [sim_iso]. *)
From Coq Require Import List NArith Bool Lia.
From XmlRs Require Import Base.CPred.
From XmlRs Require Import Model.Store
  Proofs.DomBase Proofs.DomTree Proofs.DomAnc Proofs.DomOrder Proofs.StoreIso.
Import ListNotations.
Open Scope N_scope.

(** ** the walk: node, attributes (stored order), children -- value items of attributes included *)
Definition listed (s : store) (n : id) : list id := attrs_of s n ++ children_of s n.

Fixpoint walk (f : nat) (s : store) (n : id) : list id :=
  match f with
  | O => []
  | S f' => n :: flat_map (walk f' s) (listed s n)
  end.

Section Walk.
  Variable s : store.
  Hypothesis T : TreeInv s.

  Lemma listed_par n c : In c (listed s n) -> par s c n.
  Proof.
    unfold listed, attrs_of, children_of. destruct (get s n) as [it|] eqn:G; [|intros []].
    intros H. apply (ti_lists_par s T). exists it. split; [exact G|]. apply in_app_or in H. tauto.
  Qed.

  Lemma par_listed n c : par s c n -> In c (listed s n).
  Proof.
    intros P. destruct (ti_par_lists s T c n P) as [it [G H]]. unfold listed, attrs_of, children_of. rewrite G.
    apply in_or_app. tauto.
  Qed.

  Lemma listed_nodup n : NoDup (listed s n).
  Proof.
    unfold listed, attrs_of, children_of. destruct (get s n) as [it|] eqn:G; [|constructor].
    apply nodup_app; [apply (ti_nodup_a s T n it G) | apply (ti_nodup_c s T n it G)|].
    intros x Ha Hc. eapply (child_attr_disjoint s T n it x G); eassumption.
  Qed.

  Lemma walk_in f : forall n x, In x (walk f s n) -> x = n \/ anc s x n.
  Proof.
    induction f as [|f IH]; intros n x H; [destruct H|]. cbn [walk] in H. destruct H as [<-|H]; [left; reflexivity|]. right.
    apply in_flat_map in H. destruct H as [c [Hc Hx]]. pose proof (listed_par n c Hc) as Hp.
    destruct (IH c x Hx) as [->|Ha]; [apply anc1; exact Hp | eapply anc_trans; [exact Ha | apply anc1; exact Hp]].
  Qed.

  Lemma walk_nodup f : forall n, NoDup (walk f s n).
  Proof.
    induction f as [|f IH]; intros n; [constructor|]. cbn [walk]. constructor.
    - intros H. apply in_flat_map in H. destruct H as [c [Hc Hx]]. pose proof (listed_par n c Hc) as Hp.
      destruct (walk_in f c n Hx) as [->|Ha].
      + apply (ti_acyclic s T c). apply anc1. exact Hp.
      + apply (ti_acyclic s T n). eapply anc_trans; [exact Ha | apply anc1; exact Hp].
    - apply nodup_flat_map; [apply listed_nodup | intros x _; apply IH|].
      intros c1 c2 z H1 H2 Hne Hz1 Hz2.
      pose proof (listed_par n c1 H1) as P1. pose proof (listed_par n c2 H2) as P2.
      assert (Hno : forall a b, par s a n -> par s b n -> a <> b -> ~ anc s a b).
      { intros a b Pa Pb Hab Hanc. destruct (anc_up s a n b Pa Hanc) as [->|H].
        - apply (ti_acyclic s T n). apply anc1. exact Pb.
        - apply (ti_acyclic s T n). eapply anc_trans; [exact H | apply anc1; exact Pb]. }
      destruct (walk_in f c1 z Hz1) as [E1|A1], (walk_in f c2 z Hz2) as [E2|A2].
      + apply Hne. congruence.
      + subst z. eapply (Hno c1 c2); eassumption.
      + subst z. eapply (Hno c2 c1); [exact P2 | exact P1 | intros E; apply Hne; symmetry; exact E | exact A1].
      + destruct (anc_linear s z c1 c2 A1 A2) as [E|[H|H]]; [contradiction | eapply (Hno c1 c2); eassumption|].
        eapply (Hno c2 c1); [exact P2 | exact P1 | intros E; apply Hne; symmetry; exact E | exact H].
  Qed.

  Lemma walk_complete n : forall f c a, ancn s n c a -> (n < f)%nat -> In c (walk f s a).
  Proof.
    induction n as [|n IH]; intros f c a H Hlt; [inversion H|].
    destruct f as [|f]; [lia|]. destruct (ancn_top s n c a H) as [q [Hq Hm]].
    cbn [walk]. right. apply in_flat_map. exists q. split; [apply par_listed; exact Hq|].
    destruct n as [|n].
    - subst q. destruct f as [|f]; [lia|]. left. reflexivity.
    - apply IH; [exact Hm | lia].
  Qed.

  Lemma walk_attached x : attached s x -> In x (walk (N.to_nat (next s)) s (sroot s)).
  Proof.
    intros [->|A].
    - destruct (ti_root s T) as [rit [Hr _]]. pose proof (ti_bound s T _ _ Hr).
      destruct (N.to_nat (next s)) as [|f] eqn:E; [lia|]. left. reflexivity.
    - destruct (anc_ancn s _ _ A) as [n Hn]. eapply walk_complete; [exact Hn | eapply ancn_strict; eassumption].
  Qed.
End Walk.

(** every descendant is closer than [fuel] *)
Definition deepw (s : store) (n : id) (fuel : nat) : Prop := forall d k, ancn s k d n -> (k < fuel)%nat.

Lemma deepw_child s n c fuel : deepw s n (S fuel) -> par s c n -> deepw s c fuel /\ (0 < fuel)%nat.
Proof.
  intros D P. split.
  - intros d k Hk. pose proof (D d (S k)) as X. assert (ancn s (S k) d n) as Y.
    { clear X. induction Hk as [c' p Hp | m c' p a Hp Hn IH]; [econstructor; [exact Hp | constructor; exact P]|].
      econstructor; [exact Hp | apply IH; exact P]. }
    specialize (X Y). lia.
  - specialize (D c 1%nat (ancn1 s c n P)). lia.
Qed.

(** ** similarity and the simultaneous walk *)
Section Sim.
Variables s1 s2 : store.
Hypothesis T1 : TreeInv s1.
Hypothesis T2 : TreeInv s2.
(** any further relation the caller wants to carry along the pairs *)
Variable R : id -> id -> Prop.

Definition local_sim (it1 it2 : item) : Prop :=
  ikind it2 = ikind it1
  /\ (uses_prefix (ikind it1) = true -> iprefix it2 = iprefix it1)
  /\ (uses_local (ikind it1) = true -> ilocal it2 = ilocal it1)
  /\ (uses_data (ikind it1) = true -> idata it2 = idata it1).

Fixpoint simf (f : nat) (n1 n2 : id) : Prop :=
  match f with
  | O => True
  | S f' =>
    exists it1 it2, get s1 n1 = Some it1 /\ get s2 n2 = Some it2 /\ local_sim it1 it2 /\ R n1 n2
                    /\ Forall2 (simf f') (iattrs it1) (iattrs it2) /\ Forall2 (simf f') (ichildren it1) (ichildren it2)
  end.

Definition flat_map2 {A B C} (g : A -> B -> list C) (l1 : list A) (l2 : list B) : list C :=
  flat_map (fun p => g (fst p) (snd p)) (combine l1 l2).

Fixpoint pairs (f : nat) (n1 n2 : id) : list (id * id) :=
  match f with
  | O => []
  | S f' => (n1, n2) :: flat_map2 (pairs f') (listed s1 n1) (listed s2 n2)
  end.

Lemma simf_listed f n1 n2 : simf (S f) n1 n2 -> Forall2 (simf f) (listed s1 n1) (listed s2 n2).
Proof.
  intros [it1 [it2 [G1 [G2 [_ [_ [A C]]]]]]]. unfold listed, attrs_of, children_of. rewrite G1, G2. apply Forall2_app; assumption.
Qed.

Lemma flat_map2_fst (g : id -> id -> list (id * id)) (h : id -> list id) l1 l2 (P : id -> id -> Prop) :
  Forall2 P l1 l2 -> (forall a b, P a b -> map fst (g a b) = h a) -> map fst (flat_map2 g l1 l2) = flat_map h l1.
Proof.
  intros H Hg. unfold flat_map2. induction H as [|a b l1 l2 Hab _ IH]; cbn [combine flat_map]; [reflexivity|].
  rewrite map_app, IH. cbn [fst snd]. rewrite (Hg a b Hab). reflexivity.
Qed.

Lemma flat_map2_snd (g : id -> id -> list (id * id)) (h : id -> list id) l1 l2 (P : id -> id -> Prop) :
  Forall2 P l1 l2 -> (forall a b, P a b -> map snd (g a b) = h b) -> map snd (flat_map2 g l1 l2) = flat_map h l2.
Proof.
  intros H Hg. unfold flat_map2. induction H as [|a b l1 l2 Hab _ IH]; cbn [combine flat_map]; [reflexivity|].
  rewrite map_app, IH. cbn [fst snd]. rewrite (Hg a b Hab). reflexivity.
Qed.

Lemma pairs_fst : forall f n1 n2, simf f n1 n2 -> map fst (pairs f n1 n2) = walk f s1 n1.
Proof.
  induction f as [|f IH]; intros n1 n2 Hs; [reflexivity|]. cbn [pairs walk map fst]. f_equal.
  apply (flat_map2_fst _ _ _ _ (simf f)); [apply simf_listed; exact Hs | intros a b Hab; apply IH; exact Hab].
Qed.

Lemma pairs_snd : forall f n1 n2, simf f n1 n2 -> map snd (pairs f n1 n2) = walk f s2 n2.
Proof.
  induction f as [|f IH]; intros n1 n2 Hs; [reflexivity|]. cbn [pairs walk map snd]. f_equal.
  apply (flat_map2_snd _ _ _ _ (simf f)); [apply simf_listed; exact Hs | intros a b Hab; apply IH; exact Hab].
Qed.

(** every pair of the table is similar at the level at which it was entered; its listed nodes are
    paired in the table as soon as fuel is left for them *)
Lemma in_flat_map2 {A B C} (g : A -> B -> list C) l1 l2 z :
  In z (flat_map2 g l1 l2) -> exists a b, In (a, b) (combine l1 l2) /\ In z (g a b).
Proof.
  unfold flat_map2. intros H. apply in_flat_map in H. destruct H as [[a b] [H1 H2]]. exists a, b. split; assumption.
Qed.

Lemma Forall2_combine {A B} (P : A -> B -> Prop) l1 l2 a b : Forall2 P l1 l2 -> In (a, b) (combine l1 l2) -> P a b.
Proof.
  intros H. induction H as [|x y l1 l2 Hxy _ IH]; cbn [combine]; [intros []|].
  intros [E|Hin]; [inversion E; subst; exact Hxy | apply IH; exact Hin].
Qed.

Definition pair_ok (P : list (id * id)) (a b : id) : Prop :=
  exists ita itb, get s1 a = Some ita /\ get s2 b = Some itb /\ local_sim ita itb /\ R a b
    /\ Forall2 (fun x y => In (x, y) P) (iattrs ita) (iattrs itb)
    /\ Forall2 (fun x y => In (x, y) P) (ichildren ita) (ichildren itb).

Lemma Forall2_impl {A B} (P Q : A -> B -> Prop) l1 l2 : (forall a b, In a l1 -> P a b -> Q a b) -> Forall2 P l1 l2 -> Forall2 Q l1 l2.
Proof.
  intros H F. induction F as [|a b l1 l2 Hab _ IH]; constructor.
  - apply H; [left; reflexivity | exact Hab].
  - apply IH. intros x y Hx. apply H. right. exact Hx.
Qed.

Lemma Forall2_in_combine {A B} (P : A -> B -> Prop) l1 l2 : Forall2 P l1 l2 -> Forall2 (fun x y => In (x, y) (combine l1 l2)) l1 l2.
Proof.
  intros F. induction F as [|a b l1 l2 _ _ IH]; cbn [combine]; constructor; [left; reflexivity|].
  eapply Forall2_impl; [|exact IH]. intros x y _ H. right. exact H.
Qed.

Lemma Forall2_len {A B} (P : A -> B -> Prop) l1 l2 : Forall2 P l1 l2 -> length l1 = length l2.
Proof. intros F. induction F; cbn [length]; congruence. Qed.

Lemma combine_app_len {A B} (a1 c1 : list A) (a2 c2 : list B) :
  length a1 = length a2 -> combine (a1 ++ c1) (a2 ++ c2) = combine a1 a2 ++ combine c1 c2.
Proof.
  revert a2. induction a1 as [|x a1 IH]; intros [|y a2] H; cbn in *; try discriminate; [reflexivity|].
  f_equal. apply IH. congruence.
Qed.

Lemma pairs_head f n1 n2 : (0 < f)%nat -> In (n1, n2) (pairs f n1 n2).
Proof. destruct f; [lia|]. intros _. left. reflexivity. Qed.

Lemma pairs_ok : forall f n1 n2, simf f n1 n2 -> deepw s1 n1 f ->
  forall a b, In (a, b) (pairs f n1 n2) -> pair_ok (pairs f n1 n2) a b.
Proof.
  induction f as [|f IH]; intros n1 n2 Hs D a b H; [destruct H|].
  pose proof Hs as [it1 [it2 [G1 [G2 [LS [HR [SA SC]]]]]]].
  pose proof (simf_listed f n1 n2 Hs) as SL.
  cbn [pairs] in H. destruct H as [E|H].
  - inversion E; subst a b. exists it1, it2. split; [exact G1|]. split; [exact G2|]. split; [exact LS|]. split; [exact HR|].
    assert (Hsub : forall x y, In x (listed s1 n1) -> In (x, y) (combine (listed s1 n1) (listed s2 n2)) -> In (x, y) (pairs (S f) n1 n2)).
    { intros x y Hx Hxy. cbn [pairs]. right. unfold flat_map2. apply in_flat_map. exists (x, y). split; [exact Hxy|]. cbn [fst snd].
      apply pairs_head. apply (deepw_child s1 n1 x f D). apply (listed_par s1 T1). exact Hx. }
    assert (EC : combine (listed s1 n1) (listed s2 n2)
                 = combine (iattrs it1) (iattrs it2) ++ combine (ichildren it1) (ichildren it2)).
    { unfold listed, attrs_of, children_of. rewrite G1, G2. apply combine_app_len. eapply Forall2_len. exact SA. }
    assert (EL : listed s1 n1 = iattrs it1 ++ ichildren it1) by (unfold listed, attrs_of, children_of; rewrite G1; reflexivity).
    split.
    + eapply Forall2_impl; [|apply (Forall2_in_combine _ _ _ SA)]. intros x y Hx Hxy.
      apply Hsub; [rewrite EL; apply in_or_app; left; exact Hx | rewrite EC; apply in_or_app; left; exact Hxy].
    + eapply Forall2_impl; [|apply (Forall2_in_combine _ _ _ SC)]. intros x y Hx Hxy.
      apply Hsub; [rewrite EL; apply in_or_app; right; exact Hx | rewrite EC; apply in_or_app; right; exact Hxy].
  - apply in_flat_map2 in H. destruct H as [c1 [c2 [Hc Hab]]].
    pose proof (Forall2_combine _ _ _ _ _ SL Hc) as Sc.
    assert (Hc1 : In c1 (listed s1 n1)) by (apply in_combine_l in Hc; exact Hc).
    destruct (deepw_child s1 n1 c1 f D (listed_par s1 T1 n1 c1 Hc1)) as [Dc _].
    destruct (IH c1 c2 Sc Dc a b Hab) as [ita [itb [Ga [Gb [LSab [Rab [FA FC]]]]]]].
    exists ita, itb. split; [exact Ga|]. split; [exact Gb|]. split; [exact LSab|]. split; [exact Rab|].
    assert (Hsub : forall x y, In (x, y) (pairs f c1 c2) -> In (x, y) (pairs (S f) n1 n2)).
    { intros x y Hxy. cbn [pairs]. right. unfold flat_map2. apply in_flat_map. exists (c1, c2). split; [exact Hc | exact Hxy]. }
    split; (eapply Forall2_impl; [|eassumption]); intros x y _ Hxy; apply Hsub; exact Hxy.
Qed.

(** ** the renaming *)
Definition fuel0 : nat := N.to_nat (next s1).
Definition table : list (id * id) := pairs fuel0 (sroot s1) (sroot s2).

Definition ren (x : id) : id :=
  match find (fun p => fst p =? x) table with
  | Some p => snd p
  | None => next s2 + x
  end.

Hypothesis HS : simf fuel0 (sroot s1) (sroot s2).

Lemma table_fst : map fst table = walk fuel0 s1 (sroot s1).
Proof. apply pairs_fst. exact HS. Qed.
Lemma table_snd : map snd table = walk fuel0 s2 (sroot s2).
Proof. apply pairs_snd. exact HS. Qed.

Lemma find_fst_nodup (l : list (id * id)) a b : NoDup (map fst l) -> In (a, b) l -> find (fun p => fst p =? a) l = Some (a, b).
Proof.
  induction l as [|[x y] l IH]; intros ND H; [destruct H|]. cbn [find fst]. cbn [map fst] in ND. inversion ND as [|? ? Hn ND']; subst.
  destruct H as [E|H].
  - inversion E; subst. rewrite N.eqb_refl. reflexivity.
  - destruct (N.eqb_spec x a) as [->|_]; [|apply IH; assumption].
    exfalso. apply Hn. apply in_map_iff. exists (a, b). split; [reflexivity | exact H].
Qed.

Lemma ren_pair a b : In (a, b) table -> ren a = b.
Proof.
  intros H. unfold ren. rewrite (find_fst_nodup table a b); [reflexivity| |exact H].
  rewrite table_fst. apply walk_nodup. exact T1.
Qed.

Lemma table_live b : In b (map snd table) -> b < next s2.
Proof.
  intros H. rewrite table_snd in H. destruct (walk_in s2 T2 _ _ _ H) as [->|A].
  - destruct (ti_root s2 T2) as [rit [Hr _]]. apply (ti_bound s2 T2 _ _ Hr).
  - inversion A as [c p [it [Hg _]] | c p a [it [Hg _]] _]; subst; apply (ti_bound s2 T2 _ _ Hg).
Qed.

Lemma ren_inj a b : ren a = ren b -> a = b.
Proof.
  unfold ren. destruct (find (fun p => fst p =? a) table) as [[xa ya]|] eqn:Fa, (find (fun p => fst p =? b) table) as [[xb yb]|] eqn:Fb; cbn [snd]; intros E.
  - apply find_some in Fa. apply find_some in Fb. destruct Fa as [Ia Ea], Fb as [Ib Eb]. cbn [fst] in *.
    apply N.eqb_eq in Ea. apply N.eqb_eq in Eb. subst xa xb yb.
    (* second components are pairwise different *)
    assert (ND : NoDup (map snd table)) by (rewrite table_snd; apply walk_nodup; exact T2).
    clear - ND Ia Ib. induction table as [|[x y] l IH]; [destruct Ia|]. cbn [map snd] in ND. inversion ND as [|? ? Hn ND']; subst.
    destruct Ia as [Ea|Ia], Ib as [Eb|Ib].
    + congruence.
    + inversion Ea; subst. exfalso. apply Hn. apply in_map_iff. exists (b, ya). split; [reflexivity | exact Ib].
    + inversion Eb; subst. exfalso. apply Hn. apply in_map_iff. exists (a, ya). split; [reflexivity | exact Ia].
    + apply IH; assumption.
  - apply find_some in Fa. destruct Fa as [Ia _]. assert (ya < next s2) by (apply table_live; apply in_map_iff; exists (xa, ya); split; [reflexivity | exact Ia]). lia.
  - apply find_some in Fb. destruct Fb as [Ib _]. assert (yb < next s2) by (apply table_live; apply in_map_iff; exists (xb, yb); split; [reflexivity | exact Ib]). lia.
  - lia.
Qed.

Lemma deep_root : deepw s1 (sroot s1) fuel0.
Proof. intros d k Hk. unfold fuel0. eapply ancn_strict; eassumption. Qed.

Lemma att_paired n : attached s1 n -> exists b, In (n, b) table.
Proof.
  intros A. pose proof (walk_attached s1 T1 n A) as H. fold fuel0 in H. rewrite <- table_fst in H.
  apply in_map_iff in H. destruct H as [[a b] [E H]]. cbn [fst] in E. subst a. exists b. exact H.
Qed.

Lemma Forall2_map_eq {A B} (g : A -> B) l1 l2 : Forall2 (fun x y => g x = y) l1 l2 -> l2 = map g l1.
Proof. intros F. induction F as [|a b l1 l2 E _ IH]; cbn [map]; [reflexivity|]. rewrite E, IH. reflexivity. Qed.

Theorem sim_iso :
  ren (sroot s1) = sroot s2
  /\ (forall n it1, attached s1 n -> get s1 n = Some it1 -> exists it2, get s2 (ren n) = Some it2 /\ item_sim ren it1 it2)
  /\ (forall a b, ren a = ren b -> a = b)
  /\ (forall n, attached s1 n -> R n (ren n)).
Proof.
  assert (Hpos : (0 < fuel0)%nat).
  { unfold fuel0. destruct (ti_root s1 T1) as [rit [Hr _]]. pose proof (ti_bound s1 T1 _ _ Hr). lia. }
  split; [apply ren_pair; apply pairs_head; exact Hpos|]. split; [|split; [exact ren_inj|]].
  2:{ intros n A. destruct (att_paired n A) as [b Hb].
      destruct (pairs_ok fuel0 _ _ HS deep_root n b Hb) as [ita [itb [_ [_ [_ [Rab _]]]]]]. rewrite (ren_pair n b Hb). exact Rab. }
  intros n it1 A G. destruct (att_paired n A) as [b Hb].
  destruct (pairs_ok fuel0 _ _ HS deep_root n b Hb) as [ita [itb [Ga [Gb [[LK LN] [_ [FA FC]]]]]]]. fold table in FA, FC.
  rewrite G in Ga. inversion Ga; subst ita. rewrite (ren_pair n b Hb). exists itb. split; [exact Gb|].
  split; [exact LK|]. split; [|split; [|exact LN]].
  - apply Forall2_map_eq. eapply Forall2_impl; [|exact FC]. intros x y _ H. apply ren_pair. exact H.
  - apply Forall2_map_eq. eapply Forall2_impl; [|exact FA]. intros x y _ H. apply ren_pair. exact H.
Qed.

End Sim.
