(** * The operator-chain productions of the XPath grammar, generically (C08).

    Two shapes occur in xpath/src/expr/mod.rs:
    - shape A (equality, relational, additive, multiplicative):
        [map(tuple((lower, many0(tuple((delimited(ws, map(alt(tags), Op::from), ws), lower))))), E::from)]
    - shape B (or, and, union): [map(separated_list1(tuple((ws, tag(op), ws)), lower), E::from)].
    For each shape: if the lower level parses every operand of a LEFT-NESTED chain of the
    abstract syntax and stops in front of the operators of this level, then this level parses
    the whole chain, and the value built by the [From] impl abstracts (by the left fold of
    [XPathAstAbs]) to the chain.  The seven instances are in Proofs/XPathParseExpr.v. *)
From Coq Require Import List NArith Arith Lia Bool.
From XmlRs Require Import Base.CPred Spec.XmlChars Spec.XPathSyntax Model.Peg Model.XPathAst
  Model.ParseActionsXPath Model.XPathAstAbs Gen.GrammarXPathGen
  Proofs.XPathParseBase Proofs.XPathParseProds Proofs.XPathParseLex Proofs.XPathParseAct
  Proofs.XPathParseFollow.
Import ListNotations.
Local Open Scope N_scope.

(** ** white-space trees *)
Lemma nth_forallb {A} (f : A -> bool) d l i : f d = true -> forallb f l = true -> f (nth i l d) = true.
Proof.
  intros Hd. revert i; induction l as [|x l IH]; intros [|i] H; cbn [nth]; try exact Hd;
  cbn [forallb] in H; apply andb_true_iff in H; destruct H as [Hx Hl]; [exact Hx|apply IH, Hl].
Qed.

Lemma ws_ok_gap w i : ws_ok w = true -> forallb is_ws (gap w i) = true.
Proof.
  destruct w as [f g k]. cbn [ws_ok gap]. intros H. apply andb_true_iff in H. destruct H as [H _].
  apply (nth_forallb (forallb is_ws)); [reflexivity|exact H].
Qed.

Lemma ws_ok_kid w i : ws_ok w = true -> ws_ok (kid w i) = true.
Proof.
  destruct w as [f g k]. cbn [kid]. intros H. cbn [ws_ok] in H. apply andb_true_iff in H. destruct H as [_ H].
  apply (nth_forallb ws_ok); [reflexivity|exact H].
Qed.

Lemma forallb_skipn {A} (f : A -> bool) l i : forallb f l = true -> forallb f (skipn i l) = true.
Proof.
  revert l; induction i as [|i IH]; intros l H; [exact H|]. destruct l as [|x l]; [reflexivity|].
  cbn [skipn]. cbn [forallb] in H. apply andb_true_iff in H. apply IH, H.
Qed.

Lemma ws_ok_kids_from w i : ws_ok w = true -> forallb ws_ok (kids_from w i) = true.
Proof.
  destruct w as [f g k]. cbn [kids_from]. intros H. cbn [ws_ok] in H. apply andb_true_iff in H.
  apply forallb_skipn, H.
Qed.

Lemma ws_ok_hd ws : forallb ws_ok ws = true -> ws_ok (hd wdef ws) = true.
Proof. destruct ws as [|w ws]; [reflexivity|]. cbn [forallb hd]. intros H. apply andb_true_iff in H. apply H. Qed.

Lemma ws_ok_tl ws : forallb ws_ok ws = true -> forallb ws_ok (tl ws) = true.
Proof. destruct ws as [|w ws]; [reflexivity|]. cbn [forallb tl]. intros H. apply andb_true_iff in H. apply H. Qed.

(** ** the generic statements *)
Definition TopG (nt : nat) {T : Type} (V : T -> val) (ab : T -> xexpr) (n : nat) (a : xexpr) : Prop :=
  forall w k, ws_ok w = true -> follow n k -> lex_follow a k ->
  exists t e, P (NT nt) (spell_surface a w ++ k) t k /\ act t = V e /\ ab e = a.

(** operator tokens *)
Lemma op_hd_not_ws o (x : str) : stops is_ws (binop_text o ++ x).
Proof. destruct o; reflexivity. Qed.

Lemma op_nonempty o : binop_text o <> [].
Proof. destruct o; discriminate. Qed.

Lemma follow_after_op o (g0 rest : str) :
  forallb is_ws g0 = true -> follow (S (lvl o)) (g0 ++ binop_text o ++ rest).
Proof.
  intros Hg. unfold follow, op_stop, path_stop. rewrite (drop_ws_app _ _ Hg), (drop_ws_stop _ (op_hd_not_ws o rest)).
  split; [|destruct o; split; reflexivity].
  intros o' Hl. destruct o, o'; cbn [lvl] in Hl; try lia; reflexivity.
Qed.

Lemma gap_before_ws b g : forallb is_ws g = true -> forallb is_ws (gap_before_nc b g) = true.
Proof. unfold gap_before_nc. destruct g; [destruct b; reflexivity|trivial]. Qed.

Lemma gap_after_ws g r : forallb is_ws g = true -> forallb is_ws (gap_after_name g r) = true.
Proof. unfold gap_after_name. destruct g; [destruct (starts_nc r); reflexivity|trivial]. Qed.

(** the gaps that [spell_bin] writes around the operator *)
Definition gapL (o : binop) (left_is_name : bool) (g0 : str) : str :=
  if name_op o || match o with BSub => true | _ => false end then gap_before_nc left_is_name g0 else g0.
Definition gapR (o : binop) (g1 sb : str) : str :=
  if name_op o then gap_after_name g1 sb else g1.

Lemma spell_bin_eq o b sa g0 g1 sb :
  spell_bin o b sa g0 g1 sb = sa ++ gapL o b g0 ++ binop_text o ++ gapR o g1 sb ++ sb.
Proof. reflexivity. Qed.

Lemma gapL_ws o b g : forallb is_ws g = true -> forallb is_ws (gapL o b g) = true.
Proof. unfold gapL. destruct (_ || _); [apply gap_before_ws|trivial]. Qed.

Lemma gapR_ws o g r : forallb is_ws g = true -> forallb is_ws (gapR o g r) = true.
Proof. unfold gapR. destruct (name_op o); [apply gap_after_ws|trivial]. Qed.

Lemma ws_hd_punct (g x : str) : g <> [] -> forallb is_ws g = true -> punct_hd (g ++ x).
Proof.
  destruct g as [|c g]; [contradiction|]. intros _ H. cbn [forallb] in H. apply andb_true_iff in H. destruct H as [H _].
  cbn [app punct_hd]. unfold is_ws in H. cbn [eval spec_S existsb] in H. unfold in_range in H. cbn [fst snd] in H.
  rewrite !orb_false_r in H.
  repeat (apply orb_true_iff in H; destruct H as [H|H]);
  apply andb_true_iff in H; destruct H as [H1 H2]; apply N.leb_le in H1; apply N.ltb_lt in H2;
  assert (E : c = 32 \/ c = 9 \/ c = 13 \/ c = 10) by lia; cbn [In]; intuition.
Qed.

(** the continuation after the left operand of [XBin o l r] cannot extend the last token of [l] *)
Lemma lex_follow_left o l (g0 rest : str) :
  forallb is_ws g0 = true ->
  negb (bad_after_root o && ends_root l) = true ->
  lex_follow l (gapL o (ends_name l) g0 ++ binop_text o ++ rest).
Proof.
  intros Hg Hroot. set (G := gapL o (ends_name l) g0).
  assert (HG : forallb is_ws G = true) by (apply gapL_ws, Hg).
  assert (Hdrop : drop_ws (G ++ binop_text o ++ rest) = binop_text o ++ rest)
    by (rewrite (drop_ws_app _ _ HG); apply drop_ws_stop, op_hd_not_ws).
  unfold lex_follow. rewrite Hdrop. split; [|split; [|split]].
  - intros Hn. split; [|destruct o; split; reflexivity].
    apply punct_name_stop. destruct G as [|c G'] eqn:EG.
    + unfold G, gapL in EG. rewrite Hn in EG.
      destruct o; cbn [name_op orb] in EG; try (destruct g0; discriminate); cbn; intuition.
    + apply ws_hd_punct; [discriminate|exact HG].
  - intros s _. destruct G as [|c G'] eqn:EG.
    + destruct o; split; cbn; try reflexivity; intros; reflexivity.
    + assert (Hp : punct_hd ((c :: G') ++ binop_text o ++ rest)) by (apply ws_hd_punct; [discriminate|exact HG]).
      apply name_stop_num_stop, punct_name_stop, Hp.
  - intros _. destruct G as [|c G'] eqn:EG.
    + destruct o; reflexivity.
    + assert (Hp : punct_hd ((c :: G') ++ binop_text o ++ rest)) by (apply ws_hd_punct; [discriminate|exact HG]).
      pose proof (punct_name_stop _ Hp) as Hs. pose proof (name_stop_num_stop [] _ Hs) as [H1 H2].
      cbn [app stops] in *. rewrite H1. specialize (H2 eq_refl). cbn [prefix] in H2.
      destruct (N.eqb_spec 46 c) as [<-|Hne]; [discriminate|]. rewrite N.eqb_sym. destruct (N.eqb_spec 46 c); [contradiction|reflexivity].
  - intros Hr. rewrite Hr, andb_true_r in Hroot. destruct o; cbn [bad_after_root negb] in Hroot; try discriminate; reflexivity.
Qed.

(** closing tokens *)
Lemma follow_closer n (g : str) c (rest : str) : forallb is_ws g = true -> In c [41; 93; 44] ->
  follow n (g ++ c :: rest).
Proof.
  intros Hg Hc. assert (Hs : stops is_ws (c :: rest)).
  { cbn [In] in Hc. cbn [stops]. destruct Hc as [<-|[<-|[<-|[]]]]; reflexivity. }
  unfold follow, op_stop, path_stop. rewrite (drop_ws_app _ _ Hg), (drop_ws_stop _ Hs).
  cbn [In] in Hc. split; [intros o _|split]; destruct Hc as [<-|[<-|[<-|[]]]]; try (destruct o); reflexivity.
Qed.

Lemma lex_follow_closer a (g : str) c (rest : str) : forallb is_ws g = true -> In c [41; 93; 44; 91; 47] ->
  lex_follow a (g ++ c :: rest).
Proof.
  intros Hg Hc. assert (Hs : stops is_ws (c :: rest)).
  { cbn [In] in Hc. cbn [stops]. destruct Hc as [<-|[<-|[<-|[<-|[<-|[]]]]]]; reflexivity. }
  assert (Hp : punct_hd (g ++ c :: rest)).
  { destruct g as [|x g]; [|apply ws_hd_punct; [discriminate|exact Hg]].
    cbn [app punct_hd In] in *. tauto. }
  pose proof (punct_name_stop _ Hp) as Hn.
  unfold lex_follow. rewrite (drop_ws_app _ _ Hg), (drop_ws_stop _ Hs). split; [|split; [|split]].
  - intros _. split; [exact Hn|]. cbn [In] in Hc. destruct Hc as [<-|[<-|[<-|[<-|[<-|[]]]]]]; split; reflexivity.
  - intros s _. apply name_stop_num_stop, Hn.
  - intros _. pose proof (name_stop_num_stop [] _ Hn) as [H1 H2]. specialize (H2 eq_refl).
    destruct (g ++ c :: rest) as [|y ys]; [exact I|]. cbn [stops] in *. rewrite H1. cbn [prefix] in H2.
    destruct (N.eqb_spec 46 y) as [<-|Hne]; [discriminate|]. rewrite N.eqb_sym. destruct (N.eqb_spec 46 y); [contradiction|reflexivity].
  - intros _. cbn [In] in Hc. destruct Hc as [<-|[<-|[<-|[<-|[<-|[]]]]]]; reflexivity.
Qed.

(** ** shape A *)
Definition opA (Lop : N) (alts : pexpr) : pexpr := SeqR WS (SeqL (Map Lop alts) WS).
Definition itemA (Lop : N) (alts : pexpr) (m : nat) : pexpr := Seq (opA Lop alts) (NT m).

Lemma P_itemA Lop alts m (g0 txt g1 s2 : str) t r :
  forallb is_ws g0 = true -> forallb is_ws g1 = true ->
  stops is_ws (txt ++ g1 ++ s2) -> stops is_ws s2 ->
  P alts (txt ++ g1 ++ s2) (TStr txt) (g1 ++ s2) ->
  P (NT m) s2 t r ->
  P (itemA Lop alts m) (g0 ++ txt ++ g1 ++ s2) (TPair (TMap Lop (TStr txt)) t) r.
Proof.
  intros H0 H1 Hs1 Hs2 Ha Hm. eapply parses_seq; [|exact Hm].
  eapply parses_seqr; [apply P_ws; assumption|].
  eapply parses_seql; [apply parses_map; exact Ha|]. apply P_ws; assumption.
Qed.

Lemma F_itemA Lop alts m k : F alts (drop_ws k) -> F (itemA Lop alts m) k.
Proof.
  intros H. apply fails_seq_1. eapply fails_seq_2; [apply P_ws_any|]. apply fails_seq_1, fails_map, H.
Qed.

(** ** shape B *)
Definition sepB (txt : str) : pexpr := Seq WS (Seq (Tag txt) WS).

Lemma P_sepB (txt g0 g1 s2 : str) :
  forallb is_ws g0 = true -> forallb is_ws g1 = true ->
  stops is_ws (txt ++ g1 ++ s2) -> stops is_ws s2 ->
  P (sepB txt) (g0 ++ txt ++ g1 ++ s2) (TPair (TStr g0) (TPair (TStr txt) (TStr g1))) s2.
Proof.
  intros H0 H1 Hs1 Hs2. eapply parses_seq; [apply P_ws; assumption|].
  eapply parses_seq; [apply parses_tag_app|]. apply P_ws; assumption.
Qed.

Lemma F_sepB txt k : prefix txt (drop_ws k) = None -> F (sepB txt) k.
Proof. intros H. eapply fails_seq_2; [apply P_ws_any|]. apply fails_seq_1, fails_tag, H. Qed.

Section ShapeA.
Variables (n ntn ntm : nat) (L Lop : N) (alts : pexpr).
Hypothesis Hbody : body G_xpath ntn = Map L (Seq (NT ntm) (Many0 (itemA Lop alts ntm))).
Variables (T0 TL TE TO : Type).
Variables (V0 : T0 -> val) (VE : TE -> val) (VO : TO -> val).
Variables (abs0 : T0 -> xexpr) (absE : TE -> xexpr) (absO : TO -> binop).
Variables (toL : list val -> option TL) (absL : xexpr -> TL -> xexpr) (nilL : TL)
          (snocL : TL -> TO -> T0 -> TL) (mkE : T0 -> TL -> TE).
Hypothesis HL : forall e0 vs, apply_label L (VPair (V0 e0) (VList vs)) = opt_val (toL vs) (fun l => VE (mkE e0 l)).
Hypothesis Hop : forall o, lvl o = n -> exists to, apply_label Lop (VStr (binop_text o)) = VO to /\ absO to = o.
Hypothesis HtoL_nil : toL [] = Some nilL.
Hypothesis HabsL_nil : forall acc, absL acc nilL = acc.
Hypothesis HtoL_snoc : forall vs l o e, toL vs = Some l -> toL (vs ++ [VPair (VO o) (V0 e)]) = Some (snocL l o e).
Hypothesis HabsL_snoc : forall l o e acc, absL acc (snocL l o e) = XBin (absO o) (absL acc l) (abs0 e).
Hypothesis HabsE : forall e0 l, absE (mkE e0 l) = absL (abs0 e0) l.
Hypothesis Hclean0 : forall e, clean (V0 e).
Hypothesis HcleanO : forall o, clean (VO o).
(** the alternatives of operator tags: each operator of the level is recognised when what follows
    is white space or the start of an operand; none when the continuation starts with no
    operator of the level *)
Hypothesis Halts : forall o (rest : str), lvl o = n -> prefix [61] rest = None ->
  P alts (binop_text o ++ rest) (TStr (binop_text o)) rest.
Hypothesis Hstop : forall k, op_stop n k -> F alts (drop_ws k).

Definition ChainA (a : xexpr) : Prop :=
  forall w k, ws_ok w = true -> follow (S n) k -> lex_follow a k ->
  exists t0 e0 k0 items vs l,
    P (NT ntm) (spell_surface a w ++ k) t0 k0 /\ steps G_xpath (itemA Lop alts ntm) k0 items k /\
    act t0 = V0 e0 /\ act (TList items) = VList vs /\ toL vs = Some l /\ absL (abs0 e0) l = a.

Lemma chainA_base a : TopG ntm V0 abs0 (S n) a -> ChainA a.
Proof.
  intros HT w k Hw Hf Hl. destruct (HT w k Hw Hf Hl) as (t & e & HP & Ha & Hab).
  exists t, e, k, [], [], nilL. repeat split; try assumption.
  - constructor.
  - now rewrite HabsL_nil.
Qed.

Lemma chainA_step o l r :
  lvl o = n -> negb (bad_after_root o && ends_root l) = true ->
  (forall w, first_ok r (spell_surface r w)) ->
  ChainA l -> TopG ntm V0 abs0 (S n) r -> ChainA (XBin o l r).
Proof.
  intros Ho Hroot Hfirst HCl HTr w k Hw Hf Hlex.
  cbn [spell_surface]. rewrite spell_bin_eq.
  set (sl := spell_surface l (kid w 0)). set (sr := spell_surface r (kid w 1)).
  set (G0 := gapL o (ends_name l) (gap w 0)). set (G1 := gapR o (gap w 1) sr).
  assert (HG0 : forallb is_ws G0 = true) by (apply gapL_ws, ws_ok_gap, Hw).
  assert (HG1 : forallb is_ws G1 = true) by (apply gapR_ws, ws_ok_gap, Hw).
  rewrite <- !app_assoc.
  (* the chain of l, in front of the operator *)
  destruct (HCl (kid w 0) (G0 ++ binop_text o ++ G1 ++ sr ++ k)) as (t0 & e0 & k0 & items & vs & ll & HP0 & Hst & Ha0 & Hai & HtL & HabL).
  { apply ws_ok_kid, Hw. }
  { rewrite <- Ho. apply follow_after_op, HG0. }
  { apply lex_follow_left; [apply ws_ok_gap, Hw|exact Hroot]. }
  (* the right operand *)
  destruct (HTr (kid w 1) k) as (tr & er & HPr & Har & Habr).
  { apply ws_ok_kid, Hw. }
  { exact Hf. }
  { exact Hlex. }
  fold sr in HPr.
  pose proof (Hfirst (kid w 1)) as Hfr. fold sr in Hfr.
  assert (Hsr : stops is_ws (sr ++ k)).
  { destruct sr as [|c sr']; [destruct Hfr|]. cbn [app stops]. apply Hfr. }
  assert (Heq : prefix [61] (G1 ++ sr ++ k) = None).
  { destruct G1 as [|c G1'].
    - destruct sr as [|c sr']; [destruct Hfr|]. cbn [app prefix]. destruct Hfr as (_ & Hne & _).
      destruct (N.eqb_spec 61 c) as [<-|]; [contradiction|reflexivity].
    - cbn [forallb] in HG1. apply andb_true_iff in HG1. destruct HG1 as [Hc _]. cbn [app prefix].
      destruct (N.eqb_spec 61 c) as [<-|]; [vm_compute in Hc; discriminate|reflexivity]. }
  destruct (Hop o Ho) as (to & Hto & Habo).
  exists t0, e0, k0, (items ++ [TPair (TMap Lop (TStr (binop_text o))) tr]), (vs ++ [VPair (VO to) (V0 er)]), (snocL ll to er).
  repeat split; try assumption.
  - eapply steps_app; [exact Hst|]. apply steps_one.
    + apply P_itemA; try assumption.
      * apply op_hd_not_ws.
      * apply Halts; assumption.
    + pose proof (parses_len _ _ _ _ _ HPr) as Hlen. rewrite !app_length in *.
      pose proof (op_nonempty o) as Hne. destruct (binop_text o); [contradiction|]. cbn [length]. lia.
  - apply act_list_snoc; [exact Hai| |].
    + apply act_pair; [cbn [act]; exact Hto|apply HcleanO|exact Har|apply Hclean0].
    + reflexivity.
  - apply HtoL_snoc, HtL.
  - rewrite HabsL_snoc, HabL, Habo, Habr. reflexivity.
Qed.

Lemma topA_of_chain a : ChainA a -> TopG ntn VE absE n a.
Proof.
  intros HC w k Hw Hf Hl.
  destruct (HC w k Hw (follow_mono _ _ _ (Nat.le_succ_diag_r n) Hf) Hl) as (t0 & e0 & k0 & items & vs & l & HP0 & Hst & Ha0 & Hai & HtL & HabL).
  exists (TMap L (TPair t0 (TList items))), (mkE e0 l). split; [|split].
  - apply parses_nt. rewrite Hbody. apply parses_map. eapply parses_seq; [exact HP0|].
    apply parses_many0; [exact Hst|]. apply F_itemA, Hstop, Hf.
  - cbn [act]. rewrite Ha0. pose proof (Hclean0 e0) as Hc. unfold clean in Hc. rewrite Hc.
    change (act (TList items)) with (act (TList items)). cbn [act] in Hai. rewrite Hai. cbn [poisoned].
    rewrite HL, HtL. reflexivity.
  - rewrite HabsE. exact HabL.
Qed.

(** one level of the ladder for a tree [a]: from the level above on the same tree, and the
    statements for the operands of [a] when [a] is an operator of this level *)
Hypothesis Hn68 : n <> 6%nat /\ n <> 8%nat.

Lemma levelA a :
  wfb a = true ->
  (forall o l r, a = XBin o l r -> lvl o = n ->
     ChainA l /\ TopG ntm V0 abs0 (S n) r /\ (forall w, first_ok r (spell_surface r w))) ->
  ((S n <= level a)%nat -> TopG ntm V0 abs0 (S n) a) ->
  (n <= level a)%nat -> ChainA a /\ TopG ntn VE absE n a.
Proof.
  intros Hwf Hsub Hup Hle.
  assert (HC : ChainA a).
  { destruct (Nat.eq_dec (level a) n) as [E|E].
    - destruct a; cbn [level] in E; try (exfalso; destruct Hn68; lia).
      destruct (Hsub _ _ _ eq_refl E) as (HCl & HTr & Hf).
      cbn [wfb] in Hwf. rewrite !andb_true_iff in Hwf. destruct Hwf as [[[[_ _] Hroot] _] _].
      apply chainA_step; assumption.
    - apply chainA_base, Hup. lia. }
  split; [exact HC|apply topA_of_chain, HC].
Qed.

End ShapeA.

Section ShapeB.
Variables (n ntn ntm : nat) (L : N) (op : binop).
Hypothesis Hlvl : lvl op = n.
Hypothesis Honly : forall o, lvl o = n -> o = op.
Hypothesis Hbody : body G_xpath ntn = Map L (SepBy1 (sepB (binop_text op)) (NT ntm)).
Variables (T0 TL TE : Type).
Variables (V0 : T0 -> val) (VE : TE -> val).
Variables (abs0 : T0 -> xexpr) (absE : TE -> xexpr).
Variables (toL : list val -> option TL) (absL : xexpr -> TL -> xexpr) (nilL : TL) (snocL : TL -> T0 -> TL).
(** the [From<Vec<_>>] impl: the vector is first :: rest *)
Variable (mkE : T0 -> TL -> TE).
Hypothesis HL : forall e0 vs, apply_label L (VList (V0 e0 :: vs)) = opt_val (toL vs) (fun l => VE (mkE e0 l)).
Hypothesis HtoL_nil : toL [] = Some nilL.
Hypothesis HabsL_nil : forall acc, absL acc nilL = acc.
Hypothesis HtoL_snoc : forall vs l e, toL vs = Some l -> toL (vs ++ [V0 e]) = Some (snocL l e).
Hypothesis HabsL_snoc : forall l e acc, absL acc (snocL l e) = XBin op (absL acc l) (abs0 e).
Hypothesis HabsE : forall e0 l, absE (mkE e0 l) = absL (abs0 e0) l.
Hypothesis Hclean0 : forall e, clean (V0 e).

Definition ChainB (a : xexpr) : Prop :=
  forall w k, ws_ok w = true -> follow (S n) k -> lex_follow a k ->
  exists t0 e0 k0 items vs l,
    P (NT ntm) (spell_surface a w ++ k) t0 k0 /\ ssteps G_xpath (sepB (binop_text op)) (NT ntm) k0 items k /\
    act t0 = V0 e0 /\ act (TList items) = VList vs /\ toL vs = Some l /\ absL (abs0 e0) l = a.

Lemma chainB_base a : TopG ntm V0 abs0 (S n) a -> ChainB a.
Proof.
  intros HT w k Hw Hf Hl. destruct (HT w k Hw Hf Hl) as (t & e & HP & Ha & Hab).
  exists t, e, k, [], [], nilL. repeat split; try assumption.
  - constructor.
  - now rewrite HabsL_nil.
Qed.

Lemma chainB_step o l r :
  lvl o = n -> negb (bad_after_root o && ends_root l) = true ->
  (forall w, first_ok r (spell_surface r w)) ->
  ChainB l -> TopG ntm V0 abs0 (S n) r -> ChainB (XBin o l r).
Proof.
  intros Ho Hroot Hfirst HCl HTr w k Hw Hf Hlex. pose proof (Honly o Ho) as ->.
  cbn [spell_surface]. rewrite spell_bin_eq.
  set (sl := spell_surface l (kid w 0)). set (sr := spell_surface r (kid w 1)).
  set (G0 := gapL op (ends_name l) (gap w 0)). set (G1 := gapR op (gap w 1) sr).
  assert (HG0 : forallb is_ws G0 = true) by (apply gapL_ws, ws_ok_gap, Hw).
  assert (HG1 : forallb is_ws G1 = true) by (apply gapR_ws, ws_ok_gap, Hw).
  rewrite <- !app_assoc.
  destruct (HCl (kid w 0) (G0 ++ binop_text op ++ G1 ++ sr ++ k)) as (t0 & e0 & k0 & items & vs & ll & HP0 & Hst & Ha0 & Hai & HtL & HabL).
  { apply ws_ok_kid, Hw. }
  { rewrite <- Hlvl. apply follow_after_op, HG0. }
  { apply lex_follow_left; [apply ws_ok_gap, Hw|exact Hroot]. }
  destruct (HTr (kid w 1) k) as (tr & er & HPr & Har & Habr).
  { apply ws_ok_kid, Hw. }
  { exact Hf. }
  { exact Hlex. }
  fold sr in HPr.
  pose proof (Hfirst (kid w 1)) as Hfr. fold sr in Hfr.
  assert (Hsr : stops is_ws (sr ++ k)).
  { destruct sr as [|c sr']; [destruct Hfr|]. cbn [app stops]. apply Hfr. }
  exists t0, e0, k0, (items ++ [tr]), (vs ++ [V0 er]), (snocL ll er).
  repeat split; try assumption.
  - eapply ssteps_app; [exact Hst|]. econstructor.
    + apply P_sepB; try assumption. apply op_hd_not_ws.
    + rewrite !app_length. pose proof (op_nonempty op) as Hne. destruct (binop_text op); [contradiction|]. cbn [length]. lia.
    + exact HPr.
    + constructor.
  - apply act_list_snoc; [exact Hai|exact Har|apply Hclean0].
  - apply HtoL_snoc, HtL.
  - rewrite HabsL_snoc, HabL, Habr. reflexivity.
Qed.

Lemma topB_of_chain a : ChainB a -> TopG ntn VE absE n a.
Proof.
  intros HC w k Hw Hf Hl.
  destruct (HC w k Hw (follow_mono _ _ _ (Nat.le_succ_diag_r n) Hf) Hl) as (t0 & e0 & k0 & items & vs & l & HP0 & Hst & Ha0 & Hai & HtL & HabL).
  exists (TMap L (TList (t0 :: items))), (mkE e0 l). split; [|split].
  - apply parses_nt. rewrite Hbody. apply parses_map. eapply parses_sepby1; [exact HP0|exact Hst|].
    left. apply F_sepB. apply (proj1 Hf). rewrite Hlvl. lia.
  - assert (Hact : act (TList (t0 :: items)) = VList (V0 e0 :: vs)) by (apply act_list_cons; [exact Ha0|apply Hclean0|exact Hai]).
    change (act (TMap L (TList (t0 :: items)))) with (apply_label L (act (TList (t0 :: items)))).
    rewrite Hact, HL, HtL. reflexivity.
  - rewrite HabsE. exact HabL.
Qed.

Hypothesis Hn68 : n <> 6%nat /\ n <> 8%nat.

Lemma levelB a :
  wfb a = true ->
  (forall o l r, a = XBin o l r -> lvl o = n ->
     ChainB l /\ TopG ntm V0 abs0 (S n) r /\ (forall w, first_ok r (spell_surface r w))) ->
  ((S n <= level a)%nat -> TopG ntm V0 abs0 (S n) a) ->
  (n <= level a)%nat -> ChainB a /\ TopG ntn VE absE n a.
Proof.
  intros Hwf Hsub Hup Hle.
  assert (HC : ChainB a).
  { destruct (Nat.eq_dec (level a) n) as [E|E].
    - destruct a; cbn [level] in E; try (exfalso; destruct Hn68; lia).
      destruct (Hsub _ _ _ eq_refl E) as (HCl & HTr & Hf).
      cbn [wfb] in Hwf. rewrite !andb_true_iff in Hwf. destruct Hwf as [[[[_ _] Hroot] _] _].
      apply chainB_step; assumption.
    - apply chainB_base, Hup. lia. }
  split; [exact HC|apply topB_of_chain, HC].
Qed.

End ShapeB.
