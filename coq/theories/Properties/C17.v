(** C17 -- xe rewrites exactly the selected nodes; xq prints exactly the selection.

    Full statement (DESIGN 5.17):
      xe_effect : xe_model doc sel frag = Done d' -> replace_spec (ids sel) frag doc = Some d'
                  for selections of elements, attributes and the document node alike;
      xe_frame  : items outside the selected subtrees are unchanged;
      xq_output : xq prints the serialisations of the selected nodes, in order, one per line;
      cli_total : neither tool crashes.
    Proved here, for all documents, selections and replacements: xe_effect for every selection
    of elements and attributes, any number, any order, nested or not
    ([C17_xe_effect_elements_attributes]) and for the document node as the selected node
    ([C17_xe_effect_document]); the frame property of the specification for every selection
    ([C17_xe_frame]); xq_output.  Partial: a node-set that contains the document node TOGETHER
    with other nodes is decided by the correspondence and the search only; cli_total is about
    process behaviour the model cannot exhibit (exit status, panic message on stderr: observed
    on the real binaries by the check). *)
From Coq Require Import List NArith Bool Arith.
From XmlRs Require Import Base.CPred Spec.XeSpec Model.Cli Proofs.XeProofs.
Import ListNotations.

Theorem C17_xe_effect_elements_partial :
  forall (d : xdoc) (ids : list nat) (frag : list fnode) (new : list xn),
  conv_list frag = Some (Some new) -> ~ In 0%nat ids -> did d = 0%nat ->
  Forall (attr_free ids) (dchildren d) -> existsb is_elem (dchildren d) = true ->
  exists d', xe_model d (map (fun i => (i, KElem)) ids) frag = Done d' /\ replace_spec ids frag d = Some d'.
Proof. exact xe_effect_elements. Qed.

Theorem C17_xe_effect_elements_attributes :
  forall (d : xdoc) (sel : list (nat * kind)) (frag : list fnode) (d' : xdoc),
  no_doc_other sel -> ~ In 0%nat (map fst sel) -> did d = 0%nat ->
  Forall (kinds_ok (rev (elems_of sel)) (rev (attrs_of sel))) (dchildren d) ->
  existsb is_elem (dchildren d) = true ->
  xe_model d sel frag = Done d' -> replace_spec (map fst sel) frag d = Some d'.
Proof. exact xe_effect_mixed. Qed.

Theorem C17_xe_effect_document :
  forall (d : xdoc) (frag : list fnode) (d' : xdoc),
  did d = 0%nat -> xe_model d [(0%nat, KDoc)] frag = Done d' -> replace_spec [0%nat] frag d = Some d'.
Proof. exact xe_effect_document. Qed.

Theorem C17_xe_frame : forall (S : list nat) (frag : list fnode) (n : xn), untouched S n -> rs S frag n = Some n.
Proof. exact rs_frame. Qed.

Theorem C17_xq_output : forall lines : list str, xq_model lines = xq_spec lines.
Proof. exact xq_output. Qed.

Print Assumptions C17_xe_effect_elements_partial.
Print Assumptions C17_xe_effect_elements_attributes.
Print Assumptions C17_xe_effect_document.
Print Assumptions C17_xe_frame.
Print Assumptions C17_xq_output.
