(** * Model of the item store of crate [info] (one [store] per Rust document)

    What is modelled (DESIGN.md 4.6, Appendix A, brought up to date with the [fix:] commits of
    branch agent-dom: D18 D20 D21 D41 D43 D45 D51 D52 D53 and the new DD1 (set_values), DD2 (doctype parent)):

    - an item per node with kind, qualified name, data, [parent_id], child list (value items for
      an attribute), attribute list in stored order, declared entities (doctype);
    - the id allocator [next] ([IdManager]);
    - the order vector [order] and its [dirty] flag ([DocumentOrder] after fix D45: an edit of the
      tree only marks the order stale, the keys are rebuilt by [init_order_recursive] from the
      document the next time a key is read).  The per-node cache [order_cache]/[order_version] is
      NOT modelled: every change of the vector other than [push] bumps [version], [push] only
      appends, so [HasContext::order] always equals the position in the vector -- the cache is
      unobservable.  Dead [Weak] entries of the vector only shift absolute positions; the tie
      compares ranks.
    - the registry [Context::id_map]: after fix D20 it refers to the nodes themselves, so
      [Context::node id] succeeds exactly when the node is alive.  The correspondence harness keeps
      a handle on every node it has seen, hence every item of the model is alive and the registry
      is the function [get].  (The [registered] flag of DESIGN 4.6 is gone with the defect.)

    Everything here is executable and total; loops driven by navigation take fuel [next s]
    (a parent chain or a tree depth cannot be longer than the number of ids handed out --
    proved in Proofs/DomTree.v under the tree invariant).  No proofs in this file. *)
From Coq Require Import List NArith Bool.
From XmlRs Require Import Base.CPred.
Import ListNotations.
Open Scope N_scope.

Definition id := N.

Inductive kind := KDoc | KEl | KAt | KTx | KCd | KCr | KEr | KPi | KCm | KDt | KFr.

Definition kind_eqb (a b : kind) : bool :=
  match a, b with
  | KDoc, KDoc | KEl, KEl | KAt, KAt | KTx, KTx | KCd, KCd | KCr, KCr | KEr, KEr
  | KPi, KPi | KCm, KCm | KDt, KDt | KFr, KFr => true
  | _, _ => false
  end.

Record item := mkItem {
  ikind : kind;
  iprefix : option str;   (* element / attribute prefix *)
  ilocal : str;           (* local name; PI target; name of a reference ("#65", "#x41", "amp"); doctype name *)
  idata : str;            (* text / comment / CDATA data; PI content; the character of a char reference; doctype text *)
  iflag : bool;           (* PI: [content] is [Some _] (prints "<?t c?>") rather than [None] ("<?t?>") *)
  iparent : option id;    (* parent_id (owner element for an attribute) *)
  ichildren : list id;    (* child list; value items of an attribute *)
  iattrs : list id;       (* attributes of an element, stored order (namespace declarations included) *)
  ients : list str        (* doctype: names of the declared general entities *)
}.

Record store := mkStore {
  items : id -> option item;
  next : id;              (* next id to hand out; every id in use is smaller *)
  sdecl : str;            (* XML declaration as printed *)
  sroot : id;             (* the document item *)
  order : list id;        (* DocumentOrder.order (live entries) *)
  dirty : bool            (* DocumentOrder.dirty *)
}.

Definition get (s : store) (i : id) : option item := items s i.

Definition set_items (s : store) (f : id -> option item) : store :=
  mkStore f (next s) (sdecl s) (sroot s) (order s) (dirty s).

(** replace the item at [i] (no effect on other ids) *)
Definition put (s : store) (i : id) (it : item) : store :=
  set_items s (fun j => if j =? i then Some it else items s j).

Definition upd (s : store) (i : id) (f : item -> item) : store :=
  match get s i with
  | Some it => put s i (f it)
  | None => s
  end.

Definition with_parent (p : option id) (it : item) : item :=
  mkItem (ikind it) (iprefix it) (ilocal it) (idata it) (iflag it) p (ichildren it) (iattrs it) (ients it).
Definition with_children (l : list id) (it : item) : item :=
  mkItem (ikind it) (iprefix it) (ilocal it) (idata it) (iflag it) (iparent it) l (iattrs it) (ients it).
Definition with_attrs (l : list id) (it : item) : item :=
  mkItem (ikind it) (iprefix it) (ilocal it) (idata it) (iflag it) (iparent it) (ichildren it) l (ients it).
Definition with_data (d : str) (fl : bool) (it : item) : item :=
  mkItem (ikind it) (iprefix it) (ilocal it) d fl (iparent it) (ichildren it) (iattrs it) (ients it).

Definition invalidate (s : store) : store :=
  mkStore (items s) (next s) (sdecl s) (sroot s) (order s) true.

(** [Context::next]: a fresh id *)
Definition alloc (s : store) : id * store :=
  (next s, mkStore (items s) (next s + 1) (sdecl s) (sroot s) (order s) (dirty s)).

Definition new_item (k : kind) (pfx : option str) (loc data : str) (fl : bool) (par : option id) : item :=
  mkItem k pfx loc data fl par [] [] [].

(** create a node: fresh id, no children, not in any list *)
Definition create (s : store) (it : item) : id * store :=
  let '(i, s1) := alloc s in (i, put s1 i it).

(** ** lists of ids *)
Definition mem (x : id) (l : list id) : bool := existsb (N.eqb x) l.

Fixpoint remove_first (x : id) (l : list id) : list id :=
  match l with
  | [] => []
  | y :: t => if y =? x then t else y :: remove_first x t
  end.

Fixpoint index_of (x : id) (l : list id) : option nat :=
  match l with
  | [] => None
  | y :: t => if y =? x then Some O else option_map S (index_of x t)
  end.

Fixpoint insert_at (n : nat) (x : id) (l : list id) : list id :=
  match n, l with
  | O, _ => x :: l
  | S m, y :: t => y :: insert_at m x t
  | S _, [] => [x]
  end.

Fixpoint str_eqb (a b : str) : bool :=
  match a, b with
  | [], [] => true
  | x :: a', y :: b' => (x =? y) && str_eqb a' b'
  | _, _ => false
  end.

Definition s_xmlns : str := [120; 109; 108; 110; 115].

(** [XmlAttribute::namespace]: prefix is "xmlns" or the local name is "xmlns" *)
Definition is_ns (it : item) : bool :=
  match iprefix it with
  | Some p => str_eqb p s_xmlns
  | None => false
  end || str_eqb (ilocal it) s_xmlns.

Definition kind_of (s : store) (i : id) : option kind := option_map ikind (get s i).
Definition has_kind (s : store) (k : kind) (i : id) : bool :=
  match get s i with Some it => kind_eqb (ikind it) k | None => false end.

Definition children_of (s : store) (i : id) : list id :=
  match get s i with Some it => ichildren it | None => [] end.
Definition attrs_of (s : store) (i : id) : list id :=
  match get s i with Some it => iattrs it | None => [] end.
Definition parent_of (s : store) (i : id) : option id :=
  match get s i with Some it => iparent it | None => None end.

Definition attr_is_ns (s : store) (a : id) : bool :=
  match get s a with Some it => is_ns it | None => false end.
(** [Element::namespace_attributes] and [attributes_specified] *)
Definition ns_attrs (s : store) (e : id) : list id := filter (attr_is_ns s) (attrs_of s e).
Definition plain_attrs (s : store) (e : id) : list id := filter (fun a => negb (attr_is_ns s a)) (attrs_of s e).

(** ** editing primitives of [info] *)

(** [HasParent::ancestor]: walk from the receiver's PARENT upwards *)
Fixpoint anc_fuel (fuel : nat) (s : store) (start : option id) (target : id) : bool :=
  match fuel with
  | O => false
  | S f =>
    match start with
    | None => false
    | Some p =>
      match get s p with
      | None => false
      | Some it => if p =? target then true else anc_fuel f s (iparent it) target
      end
    end
  end.
Definition ancestor (s : store) (recv target : id) : bool :=
  anc_fuel (N.to_nat (next s)) s (parent_of s recv) target.

(** kinds whose [delete_by_id] is called by [remove_from_parent] *)
Definition container (k : kind) : bool :=
  match k with KAt | KDoc | KEl => true | _ => false end.

(** [delete_by_id]: drop the first occurrence from the child list and clear the parent id *)
Definition delete_by_id (s : store) (p x : id) : store :=
  if mem x (children_of s p)
  then upd (upd s p (fun it => with_children (remove_first x (ichildren it)) it)) x (with_parent None)
  else s.

(** [XmlItem::remove_from_parent] *)
Definition unlink (s : store) (x : id) : store :=
  match parent_of s x with
  | Some p =>
    match get s p with
    | Some pit => if container (ikind pit) then delete_by_id s p x else s
    | None => s
    end
  | None => s
  end.

(** the part of [insert_by_id] after the checks: unlink, set parent, insert before [ref] or push *)
Definition link (s : store) (recv x : id) (ref : option id) : store :=
  let s1 := unlink s x in
  let s2 := upd s1 x (with_parent (Some recv)) in
  upd s2 recv (fun it =>
    with_children
      (match ref with
       | Some r => match index_of r (ichildren it) with
                   | Some n => insert_at n x (ichildren it)
                   | None => ichildren it ++ [x]       (* [unwrap] of [child_index]: not reachable, see DomOps *)
                   end
       | None => ichildren it ++ [x]
       end) it).

(** ** the order vector *)
Fixpoint pre_fuel (fuel : nat) (s : store) (n : id) : list id :=
  match fuel with
  | O => []
  | S f =>
    match get s n with
    | None => []
    | Some it =>
      n :: match ikind it with
           | KEl => flat_map (pre_fuel f s) (filter (attr_is_ns s) (iattrs it))
                    ++ flat_map (pre_fuel f s) (filter (fun a => negb (attr_is_ns s a)) (iattrs it))
                    ++ flat_map (pre_fuel f s) (ichildren it)
           | KAt | KDoc => flat_map (pre_fuel f s) (ichildren it)
           | _ => []
           end
    end
  end.

(** [init_order_recursive] from the document: element, namespace declarations, other attributes
    (each followed by its value items), children *)
Definition preorder (s : store) : list id := pre_fuel (N.to_nat (next s)) s (sroot s).

(** [Context::refresh_order] *)
Definition refresh (s : store) : store :=
  if dirty s then mkStore (items s) (next s) (sdecl s) (sroot s) (preorder s) false else s.

Fixpoint pos_in (x : id) (l : list id) (k : N) : N :=
  match l with
  | [] => 0
  | y :: t => if y =? x then k else pos_in x t (k + 1)
  end.

(** [HasContext::order]: 1-based position in the vector, 0 when absent *)
Definition key (s : store) (n : id) : N := pos_in n (order (refresh s)) 1.

(** ** what the DOM reports (computed the way crate [dom] computes it) *)

Definition textish (k : kind) : bool :=
  match k with KTx | KCd | KCr | KEr => true | _ => false end.

(** a child as seen through [child_nodes]: a node, or a merged text named by its first component *)
Inductive vnode := Plain (i : id) | Merged (i : id).
Definition vid (v : vnode) : id := match v with Plain i | Merged i => i end.

(** [HasChild for XmlElement] with [text_expanded]: maximal runs of text / CDATA / references
    become one [XmlExpandedText] *)
Fixpoint merge_run (s : store) (l : list id) (in_run : bool) : list vnode :=
  match l with
  | [] => []
  | x :: t =>
    match get s x with
    | Some it =>
      if textish (ikind it)
      then if in_run then merge_run s t true else Merged x :: merge_run s t true
      else Plain x :: merge_run s t false
    | None => Plain x :: merge_run s t false
    end
  end.

Definition child_view (s : store) (merged : bool) (n : id) : list vnode :=
  match get s n with
  | Some it =>
    match ikind it with
    | KEl => if merged then merge_run s (ichildren it) false else map Plain (ichildren it)
    | KAt | KDoc => map Plain (ichildren it)
    | _ => []
    end
  | None => []
  end.

(** [XmlDocument::document_declaration]: the first doctype child *)
Definition doc_decl (s : store) : option id :=
  find (has_kind s KDt) (children_of s (sroot s)).
(** [Document::document_element]: the first element child *)
Definition doc_element (s : store) : option id :=
  find (has_kind s KEl) (children_of s (sroot s)).

Definition parent_node (s : store) (n : id) : option id :=
  match get s n with
  | None => None
  | Some it =>
    match ikind it with
    | KEl | KCm | KPi | KTx | KCr | KEr =>
      match iparent it with
      | Some p => match get s p with Some _ => Some p | None => None end
      | None => None
      end
    | KCd =>
      match iparent it with
      | Some p => if has_kind s KEl p then Some p else None
      | None => None
      end
    | KDt => match doc_decl s with
             | Some d => if d =? n then Some (sroot s) else None
             | None => None
             end
    | KAt | KDoc | KFr => None
    end
  end.

Fixpoint skip_to (x : id) (l : list vnode) : list vnode :=
  match l with
  | [] => []
  | v :: t => if vid v =? x then l else skip_to x t
  end.

(** [next_sibling_child]: [iter().skip_while(id differs).nth(1)] *)
Definition after (x : id) (l : list vnode) : option vnode := nth_error (skip_to x l) 1.

Definition sibling_kind (k : kind) : bool :=
  match k with KAt | KDoc | KFr => false | _ => true end.

Definition next_sibling (s : store) (merged : bool) (n : id) : option vnode :=
  match get s n with
  | Some it =>
    if sibling_kind (ikind it)
    then match parent_node s n with
         | Some p => after n (child_view s merged p)
         | None => None
         end
    else None
  | None => None
  end.

Definition previous_sibling (s : store) (merged : bool) (n : id) : option vnode :=
  match get s n with
  | Some it =>
    if sibling_kind (ikind it)
    then match parent_node s n with
         | Some p => after n (rev (child_view s merged p))
         | None => None
         end
    else None
  | None => None
  end.

Definition first_child (s : store) (merged : bool) (n : id) : option vnode := hd_error (child_view s merged n).
Definition last_child (s : store) (merged : bool) (n : id) : option vnode := hd_error (rev (child_view s merged n)).

(** [Attribute::owner_element]: the parent id resolves to an element *)
Definition owner_element (s : store) (a : id) : option id :=
  match parent_of s a with Some p => if has_kind s KEl p then Some p else None | None => None end.

(** ** serialisation ([Display]) *)
Definition c_lt := 60. Definition c_gt := 62. Definition c_sp := 32. Definition c_sl := 47.
Definition c_eq := 61. Definition c_dq := 34. Definition c_sq := 39. Definition c_amp := 38.
Definition c_semi := 59. Definition c_colon := 58. Definition c_q := 63. Definition c_bang := 33.
Definition c_dash := 45. Definition c_lb := 91. Definition c_rb := 93.

Definition qname (it : item) : str :=
  match iprefix it with
  | Some p => p ++ [c_colon] ++ ilocal it
  | None => ilocal it
  end.

(** [quote_att_value] (fix a875701): single quotes when the value contains a double quote; when it
    contains both quotation marks, double quotes with every double quote written as the
    reference quot *)
Definition s_quot : str := [38; 113; 117; 111; 116; 59].
Definition escape (v : str) : str :=
  if existsb (N.eqb c_dq) v
  then if existsb (N.eqb c_sq) v
       then [c_dq] ++ flat_map (fun c => if c =? c_dq then s_quot else [c]) v ++ [c_dq]
       else [c_sq] ++ v ++ [c_sq]
  else [c_dq] ++ v ++ [c_dq].

Fixpoint show_fuel (fuel : nat) (s : store) (n : id) : str :=
  match fuel with
  | O => []
  | S f =>
    match get s n with
    | None => []
    | Some it =>
      match ikind it with
      | KDoc => sdecl s ++ flat_map (show_fuel f s) (ichildren it)
      | KFr => []
      | KEl =>
        [c_lt] ++ qname it
        ++ flat_map (fun a => c_sp :: show_fuel f s a) (iattrs it)
        ++ match ichildren it with
           | [] => [c_sp; c_sl; c_gt]
           | l => [c_gt] ++ flat_map (show_fuel f s) l ++ [c_lt; c_sl] ++ qname it ++ [c_gt]
           end
      | KAt => qname it ++ [c_eq] ++ escape (flat_map (show_fuel f s) (ichildren it))
      | KTx => idata it
      | KCd => [c_lt; c_bang; c_lb; 67; 68; 65; 84; 65; c_lb] ++ idata it ++ [c_rb; c_rb; c_gt]
      | KCm => [c_lt; c_bang; c_dash; c_dash] ++ idata it ++ [c_dash; c_dash; c_gt]
      | KPi => [c_lt; c_q] ++ ilocal it ++ (if iflag it then c_sp :: idata it else []) ++ [c_q; c_gt]
      | KCr | KEr => [c_amp] ++ ilocal it ++ [c_semi]
      | KDt => idata it
      end
    end
  end.

Definition show (s : store) (n : id) : str := show_fuel (N.to_nat (next s)) s n.
Definition show_doc (s : store) : str := show s (sroot s).

(** [Context::entity]: declared in the document's current doctype, or predefined.
    [ients] of the doctype item lists a declared general entity as [name] when a reference to it is
    accepted in an attribute value ([check_entity_ref]: parsed, internal, no [<], no recursion ...)
    and as [0 :: name] when it is declared but refused there (0 is not a name character). *)
Definition predefined : list str :=
  [[108; 116]; [103; 116]; [97; 109; 112]; [97; 112; 111; 115]; [113; 117; 111; 116]].
Definition decl_ents (s : store) : list str :=
  match doc_decl s with
  | Some d => match get s d with Some it => ients it | None => [] end
  | None => []
  end.
(** usable in an attribute value ([XmlAttributeValue::new]) *)
Definition entity_known (s : store) (name : str) : bool :=
  existsb (str_eqb name) (decl_ents s) || existsb (str_eqb name) predefined.
(** declared at all ([create_entity_reference]) *)
Definition entity_declared (s : store) (name : str) : bool :=
  entity_known s name || existsb (str_eqb (0 :: name)) (decl_ents s).
