(** * D10 on the model: the cost of parsing nested choice groups doubles with every level.

    [grp k] = `((((a|b)|b)|b)|b)` with [k] levels.  The content-particle production [cp] tries the
    sequence alternative first: it parses the whole inner group, then fails at the `|`, and the
    choice alternative parses the inner group again.  Hence at least [2^k] non-terminal calls for
    an input of [4k + 1] characters. *)
From Coq Require Import List NArith Arith Lia Bool.
From XmlRs Require Import Base.CPred Model.Peg Gen.XmlcharGen Gen.GrammarXmlGen Model.ParseActions
     Proofs.PegTermination Proofs.GrammarTermination Proofs.PegLemmas Proofs.PegCost Proofs.DisplayLex.
Import ListNotations.
Local Open Scope N_scope.

Definition quant : pexpr := Opt (Alt (Tag [63]) (Alt (Tag [42]) (Tag [43]))).
Definition comma_sep : pexpr := Seq (Chars0 ws) (Seq (Tag [44]) (Chars0 ws)).
Definition bar_sep' : pexpr := Seq (Chars0 ws) (Seq (Tag [124]) (Chars0 ws)).
Definition open_par : pexpr := Seq (Tag [40]) (Chars0 ws).
Definition close_par : pexpr := Seq (Chars0 ws) (Tag [41]).

Lemma body_cp : body G_xml nt_cp =
  Alt (Map L_closure_6f80cde5 (Seq (NT nt_seq) quant))
      (Alt (Map L_closure_d89bea1a (Seq (NT nt_choice) quant)) (Map L_closure_82e89c41 (Seq (NT nt_qname) quant))).
Proof. reflexivity. Qed.
Lemma body_seq : body G_xml nt_seq =
  Map L_closure_441e6bc9 (SeqR open_par (SeqL (Seq (NT nt_cp) (Many0 (SeqR comma_sep (NT nt_cp)))) close_par)).
Proof. reflexivity. Qed.
Lemma body_choice : body G_xml nt_choice =
  Map L_closure_441e6bc9 (SeqR open_par (SeqL (Seq (NT nt_cp) (Many1 (SeqR bar_sep' (NT nt_cp)))) close_par)).
Proof. reflexivity. Qed.
Lemma body_children : body G_xml nt_children =
  Alt (Map L_closure_6f80cde5 (Seq (NT nt_seq) quant)) (Map L_closure_d89bea1a (Seq (NT nt_choice) quant)).
Proof. reflexivity. Qed.

Fixpoint grp (k : nat) : str :=
  match k with O => [97] | S k' => 40 :: grp k' ++ [124;98;41] end.

Lemma grp_length k : length (grp k) = (4 * k + 1)%nat.
Proof. induction k as [|k IH]; [reflexivity|]. cbn [grp length]. rewrite app_length, IH. cbn [length]. lia. Qed.

(** what may follow a content particle here: `|`, `)` or `>` *)
Definition tail_ok (r : str) : Prop := exists c r', r = c :: r' /\ (c = 124 \/ c = 41 \/ c = 62).

Lemma tail_cases (r : str) (Q : Prop) : tail_ok r ->
  (forall r', r = 124 :: r' -> Q) -> (forall r', r = 41 :: r' -> Q) -> (forall r', r = 62 :: r' -> Q) -> Q.
Proof. intros [c [r' [-> [-> |[-> | ->]]]]] H1 H2 H3; eauto. Qed.

Lemma quant_none (r : str) : tail_ok r -> P quant r TNone r.
Proof.
  intros H. apply parses_opt_none. apply (tail_cases r _ H); intros r' ->; repeat apply fails_alt; apply fails_tag; reflexivity.
Qed.

Lemma grp_head k : exists c t, grp k = c :: t /\ (c = 40 \/ c = 97).
Proof. destruct k; cbn [grp]; eauto. Qed.

Lemma open_par_parses k (z : str) : P open_par (40 :: grp k ++ z) (TPair (TStr [40]) (TStr [])) (grp k ++ z).
Proof.
  unfold open_par. eapply parses_seq; [apply (parses_tag G_xml [40])|].
  apply parses_chars0_nil. destruct (grp_head k) as [c [t [-> [-> | ->]]]]; reflexivity.
Qed.

Lemma fails_no_par e (x : char) (z : str) : x <> 40 -> F (Map L_closure_441e6bc9 (SeqR open_par e)) (x :: z).
Proof.
  intros Hx. apply fails_map. apply fails_seqr_l. unfold open_par. apply fails_seq_l. apply fails_tag.
  cbn [prefix]. destruct (N.eqb_spec 40 x); [congruence|reflexivity].
Qed.

(** a one-letter name as a content particle *)
Lemma cp_name (x : char) (r : str) : x = 97 \/ x = 98 -> tail_ok r -> exists t, P (NT nt_cp) (x :: r) t r.
Proof.
  intros Hx Hr. eexists. apply parses_nt. rewrite body_cp.
  apply parses_alt_r.
  { apply fails_map. apply fails_seq_l. apply fails_nt. rewrite body_seq. apply fails_no_par. destruct Hx as [-> | ->]; discriminate. }
  apply parses_alt_r.
  { apply fails_map. apply fails_seq_l. apply fails_nt. rewrite body_choice. apply fails_no_par. destruct Hx as [-> | ->]; discriminate. }
  apply parses_map. eapply parses_seq; [|apply quant_none; exact Hr].
  apply (parses_qname (Unprefixed [x]) r).
  - destruct Hx as [-> | ->]; vm_compute; auto.
  - apply (tail_cases r _ Hr); intros r' ->; reflexivity.
Qed.

Lemma comma_item_fails (z : str) : F (SeqR comma_sep (NT nt_cp)) (124 :: z).
Proof.
  apply fails_seqr_l. unfold comma_sep. eapply fails_seq_r; [apply parses_chars0_nil; reflexivity|].
  apply fails_seq_l. apply fails_tag. reflexivity.
Qed.

Lemma bar_item_fails (z : str) : F (SeqR bar_sep' (NT nt_cp)) (41 :: z).
Proof.
  apply fails_seqr_l. unfold bar_sep'. eapply fails_seq_r; [apply parses_chars0_nil; reflexivity|].
  apply fails_seq_l. apply fails_tag. reflexivity.
Qed.

Lemma close_par_fails (z : str) : F close_par (124 :: z).
Proof. unfold close_par. eapply fails_seq_r; [apply parses_chars0_nil; reflexivity|]. apply fails_tag. reflexivity. Qed.

Lemma close_par_parses (z : str) : P close_par (41 :: z) (TPair (TStr []) (TStr [41])) z.
Proof. unfold close_par. eapply parses_seq; [apply parses_chars0_nil; reflexivity|apply (parses_tag G_xml [41])]. Qed.

Lemma tail_bar (z : str) : tail_ok (124 :: z).
Proof. exists 124, z. auto. Qed.
Lemma tail_par (z : str) : tail_ok (41 :: z).
Proof. exists 41, z. auto. Qed.

(** the sequence alternative fails on a choice group, after parsing its first particle *)
Lemma seq_fails_on_choice (g z : str) k : g = grp k -> (exists t, P (NT nt_cp) (g ++ 124 :: z) t (124 :: z)) ->
  F (NT nt_seq) (40 :: g ++ 124 :: z).
Proof.
  intros -> [t Ht]. apply fails_nt. rewrite body_seq. apply fails_map.
  eapply fails_seqr_r; [apply open_par_parses|].
  eapply fails_seql_r; [|apply close_par_fails].
  eapply parses_seq; [exact Ht|]. apply parses_many0. apply mp_stop. apply comma_item_fails.
Qed.

Lemma grp_app_S k (r : str) : grp (S k) ++ r = 40 :: grp k ++ 124 :: 98 :: 41 :: r.
Proof. cbn [grp app]. rewrite <- app_assoc. reflexivity. Qed.

Lemma choice_parses k (r : str) : (exists t, P (NT nt_cp) (grp k ++ 124 :: 98 :: 41 :: r) t (124 :: 98 :: 41 :: r)) ->
  exists t, P (NT nt_choice) (grp (S k) ++ r) t r.
Proof.
  intros [t Ht]. destruct (cp_name 98 (41 :: r) (or_intror eq_refl) (tail_par r)) as [tb Hb].
  eexists. rewrite grp_app_S. apply parses_nt. rewrite body_choice. apply parses_map.
  eapply parses_seqr; [apply open_par_parses|].
  eapply parses_seql; [|apply close_par_parses].
  eapply parses_seq; [exact Ht|].
  eapply parses_many1.
  - eapply parses_seqr; [|exact Hb]. unfold bar_sep'.
    eapply parses_seq; [apply parses_chars0_nil; reflexivity|].
    eapply parses_seq; [apply (parses_tag G_xml [124])|apply parses_chars0_nil; reflexivity].
  - apply mp_stop. apply bar_item_fails.
Qed.

Theorem cp_parses : forall k (r : str), tail_ok r -> exists t, P (NT nt_cp) (grp k ++ r) t r.
Proof.
  induction k as [|k IH]; intros r Hr.
  - apply cp_name; [left; reflexivity|exact Hr].
  - pose proof (IH (124 :: 98 :: 41 :: r) (tail_bar _)) as Hin.
    destruct (choice_parses k r Hin) as [tc Hc].
    eexists. apply parses_nt. rewrite body_cp.
    apply parses_alt_r.
    { apply fails_map. apply fails_seq_l. rewrite grp_app_S. apply (seq_fails_on_choice (grp k) _ k eq_refl Hin). }
    apply parses_alt_l. apply parses_map. eapply parses_seq; [exact Hc|apply quant_none; exact Hr].
Qed.

(** ** the lower bound *)
Notation lbx := (lb G_xml).

Lemma lb_in_group f (e : pexpr) k (z : str) n : (forall f', lbx f' (NT nt_cp) (grp k ++ z) n) ->
  lbx f (Map L_closure_441e6bc9 (SeqR open_par (SeqL (Seq (NT nt_cp) e) close_par))) (40 :: grp k ++ z) n.
Proof.
  intros H. apply lb_map. eapply lb_seqr_r; [apply open_par_parses|]. apply lb_seql_l. apply lb_seq_l. apply H.
Qed.

Theorem cp_cost : forall k f (r : str), tail_ok r -> lbx f (NT nt_cp) (grp k ++ r) (2 ^ k).
Proof.
  induction k as [|k IH]; intros f r Hr.
  - apply (lb_nt G_xml f nt_cp _ 0). intros f'. apply lb_zero.
  - pose proof (cp_parses k (124 :: 98 :: 41 :: r) (tail_bar _)) as Hin.
    apply (lb_weaken G_xml f _ _ (S (2 ^ k + 2 ^ k))); [cbn [Nat.pow]; lia|].
    apply lb_nt. intros f'. rewrite body_cp. rewrite grp_app_S.
    apply lb_alt_both.
    + apply fails_map. apply fails_seq_l. apply (seq_fails_on_choice (grp k) _ k eq_refl Hin).
    + apply lb_map. apply lb_seq_l. apply (lb_weaken G_xml f' _ _ (S (2 ^ k))); [lia|]. apply lb_nt. intros f''. rewrite body_seq.
      apply lb_in_group. intros f3. apply IH. apply tail_bar.
    + apply lb_alt_l. apply lb_map. apply lb_seq_l. apply (lb_weaken G_xml f' _ _ (S (2 ^ k))); [lia|]. apply lb_nt. intros f''. rewrite body_choice.
      apply lb_in_group. intros f3. apply IH. apply tail_bar.
Qed.

(** the content model of an element declaration: [children] on `((..(a|b)|b)..|b)>` *)
Theorem children_cost k f (r : str) : tail_ok r -> lbx f (NT nt_children) (grp (S k) ++ r) (2 ^ S k).
Proof.
  intros Hr. pose proof (cp_parses k (124 :: 98 :: 41 :: r) (tail_bar _)) as Hin.
  apply (lb_weaken G_xml f _ _ (S (2 ^ k + 2 ^ k))); [cbn [Nat.pow]; lia|].
  apply lb_nt. intros f'. rewrite body_children. rewrite grp_app_S.
  apply lb_alt_both.
  - apply fails_map. apply fails_seq_l. apply (seq_fails_on_choice (grp k) _ k eq_refl Hin).
  - apply lb_map. apply lb_seq_l. apply (lb_weaken G_xml f' _ _ (S (2 ^ k))); [lia|]. apply lb_nt. intros f''. rewrite body_seq.
    apply lb_in_group. intros f3. apply cp_cost. apply tail_bar.
  - apply lb_map. apply lb_seq_l. apply (lb_weaken G_xml f' _ _ (S (2 ^ k))); [lia|]. apply lb_nt. intros f''. rewrite body_choice.
    apply lb_in_group. intros f3. apply cp_cost. apply tail_bar.
Qed.

(** ** the whole document `<!DOCTYPE a [<!ELEMENT a ((..(a|b)|b)..|b)>]><a/>` at the fuel of [run] *)
From XmlRs Require Import Proofs.DisplayElem Proofs.DisplayDoc Proofs.DisplayDtd.

Lemma body_element_decl : body G_xml nt_element_decl =
  Map L_model_DeclarationElement_from (SeqR (Seq (Tag [60;33;69;76;69;77;69;78;84]) (Chars1 ws))
    (SeqL (Seq (NT nt_qname) (SeqR (Chars1 ws) (NT nt_content_spec))) (Seq (Chars0 ws) (Tag [62])))).
Proof. reflexivity. Qed.
Lemma body_content_spec : body G_xml nt_content_spec =
  Alt (Map L_closure_96065bcb (Tag [69;77;80;84;89])) (Alt (Map L_closure_eea513b6 (Tag [65;78;89]))
      (Alt (Map L_model_DeclarationContent_Mixed (NT nt_mixed)) (Map L_model_DeclarationContent_Children (NT nt_children)))).
Proof. reflexivity. Qed.
Lemma body_mixed : body G_xml nt_mixed =
  Alt (Map L_Some (SeqR (Seq (Tag [40]) (Seq (Chars0 ws) (Tag [35;80;67;68;65;84;65])))
                        (SeqL (Many0 (SeqR bar_sep' (NT nt_qname))) (Seq (Chars0 ws) (Tag [41;42])))))
      (Map L_closure_b4173c6c (Seq (Tag [40]) (Seq (Chars0 ws) (Seq (Tag [35;80;67;68;65;84;65]) (Seq (Chars0 ws) (Tag [41])))))).
Proof. reflexivity. Qed.

Lemma mixed_fails k (z : str) : F (NT nt_mixed) (grp (S k) ++ z).
Proof.
  apply fails_nt. rewrite body_mixed. cbn [grp app]. destruct (grp_head k) as [c [t [-> Hc]]]. cbn [app].
  assert (stops (eval ws) (c :: t ++ [124; 98; 41] ++ z)) as Hws by (destruct Hc as [-> | ->]; reflexivity).
  assert (prefix [35;80;67;68;65;84;65] (c :: t ++ [124; 98; 41] ++ z) = None) as Hp by (destruct Hc as [-> | ->]; reflexivity).
  rewrite <- app_assoc. apply fails_alt; apply fails_map.
  - apply fails_seqr_l. eapply fails_seq_r; [apply (parses_tag G_xml [40])|].
    eapply fails_seq_r; [apply parses_chars0_nil; exact Hws|]. apply fails_tag. exact Hp.
  - eapply fails_seq_r; [apply (parses_tag G_xml [40])|].
    eapply fails_seq_r; [apply parses_chars0_nil; exact Hws|]. apply fails_seq_l. apply fails_tag. exact Hp.
Qed.

Definition doc_post : str := [62;93;62;60;97;47;62].
Definition nested_doc (k : nat) : str :=
  [60;33;68;79;67;84;89;80;69;32;97;32;91;60;33;69;76;69;77;69;78;84;32;97;32] ++ grp (S k) ++ doc_post.

Lemma nested_doc_length k : length (nested_doc k) = (4 * k + 37)%nat.
Proof. unfold nested_doc. rewrite !app_length, grp_length. cbn [length doc_post]. lia. Qed.

Lemma content_spec_cost k f : lbx f (NT nt_content_spec) (grp (S k) ++ doc_post) (2 ^ S k).
Proof.
  apply (lb_weaken G_xml f _ _ (S (2 ^ S k))); [lia|]. apply lb_nt. intros f'. rewrite body_content_spec.
  assert (exists t, grp (S k) ++ doc_post = 40 :: t) as [t Et] by (cbn [grp app]; eauto).
  apply lb_alt_r; [apply fails_map; apply fails_tag; rewrite Et; reflexivity|].
  apply lb_alt_r; [apply fails_map; apply fails_tag; rewrite Et; reflexivity|].
  apply lb_alt_r; [apply fails_map; apply mixed_fails|].
  apply lb_map. apply children_cost. exists 62, [93;62;60;97;47;62]. auto.
Qed.

Ltac sp1 := apply (parses_chars1 G_xml ws [32]); [discriminate|reflexivity|exact eq_refl].

Lemma qname_a (r : str) : stops (eval is_name_char) r -> exists t, P (NT nt_qname) (97 :: r) t r.
Proof. intros Hr. eexists. apply (parses_qname (Unprefixed [97]) r); [vm_compute; auto|exact Hr]. Qed.

Lemma element_decl_cost k f :
  lbx f (NT nt_element_decl) ([60;33;69;76;69;77;69;78;84;32;97;32] ++ grp (S k) ++ doc_post) (2 ^ S k).
Proof.
  apply (lb_weaken G_xml f _ _ (S (2 ^ S k))); [lia|]. apply lb_nt. intros f'. rewrite body_element_decl.
  apply lb_map. eapply lb_seqr_r.
  { eapply parses_seq; [apply (parses_tag G_xml [60;33;69;76;69;77;69;78;84])|sp1]. }
  apply lb_seql_l.
  destruct (qname_a (32 :: grp (S k) ++ doc_post) eq_refl) as [tq Hq].
  eapply lb_seq_r; [exact Hq|]. eapply lb_seqr_r.
  { apply (parses_chars1 G_xml ws [32] (grp (S k) ++ doc_post)); [discriminate|reflexivity|reflexivity]. }
  apply content_spec_cost.
Qed.

Lemma int_subset_cost k f :
  lbx f (NT nt_int_subset) ([60;33;69;76;69;77;69;78;84;32;97;32] ++ grp (S k) ++ doc_post) (2 ^ S k).
Proof.
  apply (lb_weaken G_xml f _ _ (S (S (2 ^ S k)))); [lia|]. apply lb_nt. intros f'. rewrite body_int_subset.
  apply lb_many0_first. apply lb_alt_l. apply lb_map.
  apply lb_nt. intros f''. rewrite body_markup_decl. apply lb_alt_l. apply lb_map. apply element_decl_cost.
Qed.

Lemma doctype_cost k f : lbx f (NT nt_doctype_decl) (nested_doc k) (2 ^ S k).
Proof.
  apply (lb_weaken G_xml f _ _ (S (2 ^ S k))); [lia|]. apply lb_nt. intros f'. rewrite body_doctype_decl. unfold nested_doc.
  apply lb_map.
  destruct (qname_a (32 :: 91 :: [60;33;69;76;69;77;69;78;84;32;97;32] ++ grp (S k) ++ doc_post) eq_refl) as [tq Hq].
  eapply lb_seq_r.
  { eapply parses_seqr; [eapply parses_seq; [apply (parses_tag G_xml [60;33;68;79;67;84;89;80;69])|sp1]|exact Hq]. }
  eapply lb_seq_r.
  { eapply parses_seql.
    - apply parses_opt_none. eapply fails_seqr_r; [sp1|]. apply fails_external_id; reflexivity.
    - apply (parses_chars0 G_xml ws [32] (91 :: [60;33;69;76;69;77;69;78;84;32;97;32] ++ grp (S k) ++ doc_post)); reflexivity. }
  apply lb_seql_l. apply lb_opt. eapply lb_seqr_r; [apply (parses_tag G_xml [91])|].
  apply lb_seql_l. apply int_subset_cost.
Qed.

Theorem document_cost k f : lbx f (NT nt_document) (nested_doc k) (2 ^ S k).
Proof.
  apply (lb_weaken G_xml f _ _ (S (S (2 ^ S k)))); [lia|]. apply lb_nt. intros f'. rewrite body_document.
  apply lb_map. apply lb_seq_l. apply lb_nt. intros f''. rewrite body_prolog. apply lb_map.
  eapply lb_seq_r; [apply parses_opt_none; apply fails_xml_decl_tag; reflexivity|].
  eapply lb_seq_r; [apply parses_many0; apply mp_stop; apply fails_misc; repeat split|].
  apply lb_opt. apply lb_seq_l. apply doctype_cost.
Qed.

(** at the fuel [run] uses: the number of non-terminal calls on a document of [4k + 37]
    characters is at least [2^(k+1)] -- no polynomial bounds the cost of [parse_document] *)
Theorem run_cost_exponential k :
  (2 ^ S k <= cost G_xml (fuel_bound G_xml_R (nested_doc k)) (NT nt_document) (nested_doc k))%nat.
Proof. apply document_cost. exact (xml_grammar_terminates nt_document (nested_doc k)). Qed.

(** ** no polynomial bounds the cost *)
Local Open Scope nat_scope.

Lemma lin_below_pow a b : exists j, 4 <= j /\ a + j * b <= 2 ^ j.
Proof.
  set (m := a + 2 * b + 2). exists (2 * m). split; [unfold m; lia|].
  assert (m < 2 ^ m) as Hm by (apply Nat.pow_gt_lin_r; lia).
  replace (2 ^ (2 * m)) with (2 ^ m * 2 ^ m) by (rewrite <- Nat.pow_add_r; f_equal; lia).
  assert (m * m <= 2 ^ m * 2 ^ m) as H2 by (apply Nat.mul_le_mono; lia).
  assert (a + 2 * m * b <= m * m) as H3 by (unfold m; nia).
  lia.
Qed.

Lemma exp_beats_poly c d : exists k, c * (4 * k + 38) ^ d < 2 ^ S k.
Proof.
  destruct (lin_below_pow (c + 3 * d) d) as [j [Hj4 Hj]].
  exists (2 ^ j).
  assert (4 * 2 ^ j + 38 <= 2 ^ (j + 3)) as Hb.
  { rewrite Nat.pow_add_r. change (2 ^ 3) with 8. assert (16 <= 2 ^ j) by (change 16 with (2 ^ 4); apply Nat.pow_le_mono_r; lia). lia. }
  assert ((4 * 2 ^ j + 38) ^ d <= 2 ^ ((j + 3) * d)) as Hp.
  { rewrite Nat.pow_mul_r. apply Nat.pow_le_mono_l. exact Hb. }
  assert (c < 2 ^ c) as Hc by (apply Nat.pow_gt_lin_r; lia).
  assert (c * (4 * 2 ^ j + 38) ^ d < 2 ^ c * 2 ^ ((j + 3) * d)) as H1.
  { assert (0 < 2 ^ ((j + 3) * d)) by (apply Nat.neq_0_lt_0; apply Nat.pow_nonzero; lia).
    apply Nat.le_lt_trans with (c * 2 ^ ((j + 3) * d)); [apply Nat.mul_le_mono_l; exact Hp|].
    apply Nat.mul_lt_mono_pos_r; assumption. }
  rewrite <- Nat.pow_add_r in H1.
  apply Nat.lt_le_trans with (1 := H1). apply Nat.pow_le_mono_r; [lia|]. lia.
Qed.

Theorem run_cost_not_polynomial c d :
  exists s, c * (length s + 1) ^ d < cost G_xml (fuel_bound G_xml_R s) (NT nt_document) s.
Proof.
  destruct (exp_beats_poly c d) as [k Hk]. exists (nested_doc k). rewrite nested_doc_length.
  replace (4 * k + 37 + 1) with (4 * k + 38) by lia.
  eapply Nat.lt_le_trans; [exact Hk|apply run_cost_exponential].
Qed.
