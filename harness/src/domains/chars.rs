//! whole
//! Exhaustive sweep of the five public character predicates over all 1,114,112 scalar
//! values, reported as maximal runs of code points on which the predicate is true
//! (surrogates count as false: they are not `char`s).
use std::io::Write;
use xml_nom::xmlchar;

fn runs(name: &str, f: fn(char) -> bool, out: &mut dyn Write) {
    let mut start: Option<u32> = None;
    let mut n_true: u64 = 0;
    let mut n_all: u64 = 0;
    let mut line = format!("runs {}", name);
    for c in 0u32..=0x110000 {
        let v = match char::from_u32(c) {
            Some(ch) => {
                n_all += 1;
                f(ch)
            }
            None => false,
        };
        if v {
            n_true += 1;
        }
        match (v, start) {
            (true, None) => start = Some(c),
            (false, Some(s)) => {
                line.push_str(&format!(" {}-{}", s, c - 1));
                start = None;
            }
            _ => {}
        }
    }
    writeln!(out, "{}", line).unwrap();
    writeln!(out, "count {} {} {}", name, n_true, n_all).unwrap();
}

pub fn run(out: &mut dyn Write) {
    runs("is_char", xmlchar::is_char, out);
    runs("is_name_start_char", xmlchar::is_name_start_char, out);
    runs("is_name_char", xmlchar::is_name_char, out);
    runs("is_pubid_char", xmlchar::is_pubid_char, out);
    runs("is_enc_name", xmlchar::is_enc_name, out);
}
