(** * C01, the DTD rung of [render_wf], part 5: [render_wf] for documents with a document type
    declaration in which no declared entity has the name of a predefined one (the exclusion that the
    refutation [render_wf_refuted] of Properties/C01.v makes necessary). *)
From Coq Require Import List NArith Arith Lia Bool Permutation.
From XmlRs Require Import Base.CPred Spec.XmlChars Spec.XmlWF Spec.Infoset Proofs.XmlWFRender Proofs.XmlWFSyntaxRenderNode
  Proofs.XmlWFSyntaxRenderCheck Proofs.XmlWFSyntaxRenderDoc Proofs.XmlWFSyntaxRenderDtd Proofs.XmlWFSyntaxRenderDtdElem
  Proofs.XmlWFSyntaxRenderDtdDoc Proofs.XmlWFSyntaxRenderDtdCheck.
From XmlRs Require Proofs.XmlWFSyntaxCheck Proofs.XmlWFSyntaxConvCheck Proofs.XmlWFSyntaxConvDtdDoc Proofs.XmlWFSyntaxConvDtdCheck.
Import ListNotations.
Local Open Scope nat_scope.

(** ** the exclusion: no declared entity is named lt, gt, amp, apos or quot *)
Definition is_predef_b (nm : str) : bool := mem nm [s_lt; s_gt; s_amp; s_apos; s_quot].
Definition no_predef_decl (l : list adecl) : bool :=
  forallb (fun x => match x with ADEntity nm _ | ADExtEntity nm _ _ _ => negb (is_predef_b nm) | _ => true end) l.

(** ** the entities read back are the canonical ones *)
Lemma entities_read l l' : Forall2 decl_read l l' -> entities_of l' = entities_of (map to_decl l).
Proof.
  induction 1 as [|d d' l l' Hd _ IH]; [reflexivity|]. cbn [map]. unfold entities_of in *. cbn [flat_map]. rewrite IH. f_equal.
  destruct d as [nm v|nm pub sys nd|nm pub sys|el defs|nm spec|s|t x]; cbn [decl_read] in Hd; try (subst d'; reflexivity).
  - destruct Hd as (q & c & p & i & Hq & ->). cbn [to_decl entity_of_def]. now rewrite ent_items_pieces_repl.
  - destruct Hd as (dl & _ & ->). reflexivity.
Qed.

Lemma predef_assoc nm t : In (nm, t) predefined -> assoc nm (map (fun '(k, t) => (k, EInternal t)) predefined) = Some (EInternal t).
Proof. cbn [predefined In]. intros [H|[H|[H|[H|[H|[]]]]]]; injection H as <- <-; reflexivity. Qed.

Lemma assoc_none_notin {A} (k : str) (l : list (str * A)) : (forall x, In x l -> str_eqb k (fst x) = false) -> assoc k l = None.
Proof.
  induction l as [|[k' v] l IH]; intros H; [reflexivity|]. cbn [assoc]. pose proof (H (k', v) (or_introl eq_refl)) as E. cbn [fst] in E. rewrite E. apply IH. intros x Hx. apply H. now right.
Qed.

Lemma is_predef_b_true nm t : In (nm, t) predefined -> is_predef_b nm = true.
Proof. cbn [predefined In]. intros [H|[H|[H|[H|[H|[]]]]]]; injection H as <- <-; reflexivity. Qed.

Definition ents_clean (ents : list (str * entity)) : Prop := forall x, In x ents -> is_predef_b (fst x) = false.

Lemma std_of_clean ents must : ents_clean ents -> std_predef {| e_ents := with_predefined ents; e_must_declare := must |}.
Proof.
  intros Hc nm t Hin. cbn [e_ents]. unfold with_predefined. rewrite assoc_app. rewrite assoc_none_notin; [apply predef_assoc; exact Hin|].
  intros x Hx. destruct (str_eqb nm (fst x)) eqn:E; [|reflexivity]. apply str_eqb_true in E. specialize (Hc x Hx). rewrite <- E in Hc.
  rewrite (is_predef_b_true nm t Hin) in Hc. discriminate.
Qed.

Lemma entities_clean l : no_predef_decl l = true -> ents_clean (entities_of (map to_decl l)).
Proof.
  induction l as [|d l IH]; intros H x Hx; [destruct Hx|]. cbn [no_predef_decl forallb] in H. apply andb_true_iff in H. destruct H as [Hd Hl].
  cbn [map] in Hx. unfold entities_of in Hx. cbn [flat_map] in Hx. apply in_app_or in Hx. destruct Hx as [Hx|Hx]; [|exact (IH Hl x Hx)].
  destruct d; cbn [to_decl] in Hx; try destruct Hx as [<-|[]]; try destruct Hx; cbn [fst]; now apply negb_true_iff.
Qed.

(** ** [subset_ok] on the declarations read back *)
Definition canon_def (a : str * atttype * adefault) : str * atttype * attdefault :=
  let '(nm, ty, df) := a in
  (nm, ty, match df with DfRequired => ADRequired | DfImplied => ADImplied | DfValue f v => ADValue f (att_pieces v) end).

Lemma to_decl_attlist el defs : to_decl (ADAttlist el defs) = DAttlist el (map canon_def defs).
Proof. reflexivity. Qed.

Lemma defaults_av_read f' en (defs : list (str * atttype * adefault)) defs' : std_predef en -> forallb attdef_okb defs = true -> Forall2 attdef_read defs defs' ->
  allc (fun '(_, _, df) => match df with ADValue _ v => av_ok (S (S f')) en [] v | _ => ok end) (map canon_def defs) = None ->
  allc (fun '(_, _, df) => match df with ADValue _ v => av_ok (S (S f')) en [] v | _ => ok end) defs' = None.
Proof.
  intros Hstd Hok HF. induction HF as [|a a' defs defs' Ha _ IH]; intros H; [reflexivity|].
  cbn [forallb] in Hok. apply andb_true_iff in Hok. destruct Hok as [Hoa Hol].
  cbn [map] in H. apply V.allc_cons_inv in H. destruct H as [H1 H2]. apply C.allc_cons; [|exact (IH Hol H2)].
  destruct a as [[nm ty] df]. destruct a' as [[nm' ty'] df']. cbn [attdef_read] in Ha. destruct Ha as (-> & -> & Hd).
  cbn [attdef_okb] in Hoa. apply andb_true_iff in Hoa. destruct Hoa as [_ Hdf]. cbn [canon_def] in H1.
  destruct df as [| |fx v]; cbn [default_read] in Hd; try (subst df'; reflexivity).
  destruct Hd as (q & c & p & i & Hq & ->). cbn [default_ok] in Hdf. apply av_ok_read_g; assumption.
Qed.

Lemma ents_clean_add ents nm e : ents_clean ents -> is_predef_b nm = false ->
  ents_clean (if mem nm (map fst ents) then ents else ents ++ [(nm, e)]).
Proof.
  intros Hc Hn. destruct (mem nm (map fst ents)); [exact Hc|]. intros x Hx. apply in_app_or in Hx. destruct Hx as [Hx|[<-|[]]]; [exact (Hc x Hx)|exact Hn].
Qed.

Lemma subset_ok_read f' must : forall l l', Forall2 decl_read l l' -> forallb Infoset.decl_ok l = true -> no_predef_decl l = true ->
  forall ents, ents_clean ents -> subset_ok (S (S f')) must ents (map to_decl l) = None -> subset_ok (S (S f')) must ents l' = None.
Proof.
  induction 1 as [|d d' l l' Hd _ IH]; intros Hok Hnp ents Hc H; [reflexivity|].
  cbn [forallb] in Hok. apply andb_true_iff in Hok. destruct Hok as [Hod Hol].
  cbn [no_predef_decl forallb] in Hnp. apply andb_true_iff in Hnp. destruct Hnp as [Hnd Hnl]. fold (no_predef_decl l) in Hnl.
  cbn [map] in H.
  destruct d as [nm v|nm pub sys nd|nm pub sys|el defs|nm spec|s|t x]; cbn [decl_read] in Hd; try (subst d'; cbn [to_decl subset_ok] in *; apply IH; assumption).
  - destruct Hd as (q & c & p & i & Hq & ->). cbn [to_decl subset_ok] in *. apply V.andc_none in H. destruct H as [_ H].
    cbn [Infoset.decl_ok] in Hod. apply andb_true_iff in Hod. destruct Hod as [_ Hv].
    pose proof (ent_items_pieces_charrefs q c p v i Hv) as Hch. unfold charrefs_ok in Hch. rewrite Hch. cbn [andc].
    cbn [entity_of_def] in *. rewrite ent_items_pieces_repl. apply IH; [exact Hol|exact Hnl| |exact H].
    apply ents_clean_add; [exact Hc|now apply negb_true_iff].
  - subst d'. cbn [to_decl subset_ok] in *. apply V.andc_none in H. destruct H as [_ H]. cbn [andc]. apply IH; [exact Hol|exact Hnl| |exact H].
    apply ents_clean_add; [exact Hc|now apply negb_true_iff].
  - destruct Hd as (dl & HF & ->). rewrite to_decl_attlist in H. cbn [subset_ok] in *. apply V.andc_none in H. destruct H as [H1 H2].
    cbn [Infoset.decl_ok] in Hod. apply andb_true_iff in Hod. destruct Hod as [_ Hdefs]. rewrite decl_ok_attdefs in Hdefs.
    rewrite (defaults_av_read f' _ defs dl (std_of_clean ents must Hc) Hdefs HF H1). cbn [andc]. apply IH; assumption.
Qed.

(** ** [ns_decl], parameter-entity references *)
Lemma ns_decl_read l l' : Forall2 decl_read l l' -> allc ns_decl (map to_decl l) = None -> allc ns_decl l' = None.
Proof.
  induction 1 as [|d d' l l' Hd _ IH]; intros H; [reflexivity|]. cbn [map] in H. apply V.allc_cons_inv in H. destruct H as [H1 H2].
  apply C.allc_cons; [|exact (IH H2)].
  destruct d as [nm v|nm pub sys nd|nm pub sys|el defs|nm spec|s|t x]; cbn [decl_read] in Hd; try (subst d'; exact H1).
  - destruct Hd as (q & c & p & i & Hq & ->). exact H1.
  - destruct Hd as (dl & HF & ->). rewrite to_decl_attlist in H1. cbn [ns_decl] in *. apply V.guard_none in H1. apply andb_true_iff in H1. destruct H1 as [He Hn].
    rewrite He. cbn [andb].
    assert (E : forallb (fun '(a, _, _) => is_QName a) dl = forallb (fun '(a, _, _) => is_QName a) (map canon_def defs)).
    { clear Hn. induction HF as [|a a' defs dl Ha _ IHF]; [reflexivity|]. cbn [map forallb]. rewrite IHF. f_equal.
      destruct a as [[nm ty] df]. destruct a' as [[nm' ty'] df']. cbn [attdef_read] in Ha. destruct Ha as (-> & _). reflexivity. }
    rewrite E, Hn. reflexivity.
Qed.

Lemma no_peref_read l l' : Forall2 decl_read l l' -> has_peref l' = false.
Proof.
  induction 1 as [|d d' l l' Hd _ IH]; [reflexivity|]. unfold has_peref in *. cbn [existsb]. rewrite IH. rewrite orb_false_r.
  destruct d as [nm v|nm pub sys nd|nm pub sys|el defs|nm spec|s|t x]; cbn [decl_read] in Hd; try (subst d'; reflexivity).
  - destruct Hd as (q & c & p & i & Hq & ->). reflexivity.
  - destruct Hd as (dl & HF & ->). reflexivity.
Qed.

(** ** the defaulted attributes of the two subsets have the same normalized values *)
Section Defaults.
Variable f' : nat.
Variable en : env.
Hypothesis Hstd : std_predef en.

Definition Rdef (a0 a' : str * atttype * attdefault) : Prop :=
  fst a0 = fst a' /\
  match snd a0, snd a' with
  | ADValue _ v0, ADValue _ v' => av_value (S (S f')) en v0 = av_value (S (S f')) en v'
  | ADRequired, ADRequired | ADImplied, ADImplied => True
  | _, _ => False end.

Lemma Rdef_read defs defs' : Forall2 attdef_read defs defs' -> Forall2 Rdef (map canon_def defs) defs'.
Proof.
  induction 1 as [|a a' defs defs' Ha _ IH]; [constructor|]. cbn [map]. constructor; [|exact IH].
  destruct a as [[nm ty] df]. destruct a' as [[nm' ty'] df']. cbn [attdef_read] in Ha. destruct Ha as (-> & -> & Hd).
  unfold Rdef. cbn [canon_def fst snd]. split; [reflexivity|].
  destruct df as [| |fx v]; cbn [default_read] in Hd; try (subst df'; exact I).
  destruct Hd as (q & c & p & i & Hq & ->). symmetry. apply att_value_choice_independent; assumption.
Qed.

Definition sel (el : str) (d : decl) : list (str * atttype * attdefault) :=
  match d with DAttlist e defs => if str_eqb e el then defs else [] | _ => [] end.

Lemma sel_read el l l' : Forall2 decl_read l l' -> Forall2 Rdef (flat_map (sel el) (map to_decl l)) (flat_map (sel el) l').
Proof.
  induction 1 as [|d d' l l' Hd _ IH]; [constructor|]. cbn [map flat_map]. apply Forall2_app; [|exact IH].
  destruct d as [nm v|nm pub sys nd|nm pub sys|el0 defs|nm spec|s|t x]; cbn [decl_read] in Hd; try (subst d'; constructor).
  - destruct Hd as (q & c & p & i & Hq & ->). constructor.
  - destruct Hd as (dl & HF & ->). rewrite to_decl_attlist. cbn [sel]. destruct (str_eqb el0 el); [apply Rdef_read; exact HF|constructor].
Qed.

Definition stepd (acc : list (str * atttype * attdefault)) (a : str * atttype * attdefault) :=
  let '(nm, ty, df) := a in if mem nm (map (fun x => fst (fst x)) acc) then acc else acc ++ [(nm, ty, df)].

Lemma Rdef_names a0 a' : Forall2 Rdef a0 a' -> map (fun x => fst (fst x)) a0 = map (fun x => fst (fst x)) a'.
Proof. induction 1 as [|x y a0 a' [Hx _] _ IH]; [reflexivity|]. cbn [map]. now rewrite Hx, IH. Qed.

Lemma fold_R : forall l0 l', Forall2 Rdef l0 l' -> forall acc0 acc', Forall2 Rdef acc0 acc' ->
  Forall2 Rdef (fold_left stepd l0 acc0) (fold_left stepd l' acc').
Proof.
  induction 1 as [|x y l0 l' Hxy _ IH]; intros acc0 acc' Hacc; [exact Hacc|]. cbn [fold_left]. apply IH.
  destruct x as [[nm ty] df]. destruct y as [[nm' ty'] df']. pose proof Hxy as [Hn _]. cbn [fst] in Hn. injection Hn as <- <-.
  cbn [stepd]. rewrite (Rdef_names _ _ Hacc). destruct (mem nm _); [exact Hacc|]. apply Forall2_app; [exact Hacc|constructor; [exact Hxy|constructor]].
Qed.

Lemma attdefs_of_eq sub el : attdefs_of sub el = fold_left stepd (flat_map (sel el) sub) [].
Proof. reflexivity. Qed.

Lemma attdefs_R l l' el : Forall2 decl_read l l' -> Forall2 Rdef (attdefs_of (map to_decl l) el) (attdefs_of l' el).
Proof. intros H. rewrite !attdefs_of_eq. apply fold_R; [apply sel_read; exact H|constructor]. Qed.

Lemma defaulted_read l l' el (atts1 atts2 : list (str * list avpiece)) : Forall2 decl_read l l' ->
  (forall nm, mem nm (map fst atts1) = mem nm (map fst atts2)) ->
  map (nvalg f' en) (defaulted_atts (map to_decl l) el atts1) = map (nvalg f' en) (defaulted_atts l' el atts2).
Proof.
  intros H Hm. unfold defaulted_atts. pose proof (attdefs_R l l' el H) as HR.
  induction HR as [|x y D0 D' Hxy _ IH]; [reflexivity|]. cbn [flat_map]. rewrite !map_app, IH. f_equal.
  destruct x as [[nm ty] df]. destruct y as [[nm' ty'] df']. destruct Hxy as [Hn Hv]. cbn [fst snd] in Hn, Hv. injection Hn as <- <-.
  destruct df as [| |fx v], df' as [| |fx' v']; try reflexivity; try (exfalso; exact Hv).
  rewrite (Hm nm). destruct (mem nm (map fst atts2)); [reflexivity|]. cbn [map]. unfold nvalg. cbn [fst snd]. now rewrite Hv.
Qed.
End Defaults.

(** ** render_wf with a document type declaration *)
Module QC := XmlWFSyntaxConvDtdCheck.

Theorem render_wf_dtd (d : adoc) (c : choices) dt : valid d = true -> a_doctype d = Some dt ->
  no_predef_decl (opt_list (ad_subset dt)) = true ->
  wf (render d c) = true /\ QC.strict_cm (render d c) = true.
Proof.
  intros Hv Hdt Hnp. unfold valid in Hv. apply andb_true_iff in Hv. destruct Hv as [Hs Hv].
  destruct (check_doc (to_xdoc d)) as [r|root0] eqn:Ec; [discriminate|]. apply andb_true_iff in Hv. destruct Hv as [_ Hv].
  destruct (ns_doc (to_xdoc d) root0) as [r|] eqn:En; [discriminate|]. clear Hv.
  destruct (render_parse_dtd d c dt Hs Hdt) as (item & l' & Hrd & Hl' & Hq).
  pose proof (XmlWFSyntaxConvDtdDoc.q_parse_document_spec _ _ Hq) as Hp.
  split; [|unfold QC.strict_cm; rewrite Hq; reflexivity].
  destruct d as [ver enc sa m1 dt0 m2 root m3]. cbn [a_doctype a_root a_misc1 a_misc2 a_misc3] in *. subst dt0.
  pose proof Hs as Hs'. unfold shape_ok in Hs'. cbn [a_version a_encoding a_standalone a_misc1 a_misc2 a_misc3 a_root a_doctype] in Hs'.
  apply andb_true_iff in Hs'. destruct Hs' as [Hs' Hdtok]. apply andb_true_iff in Hs'. destruct Hs' as [_ Hroot].
  destruct root as [s|nm|s|t0 d0|nm atts kids]; try discriminate Hroot.
  pose proof (node_ok_syn _ Hroot) as Hsyn.
  assert (Hdecls : forallb Infoset.decl_ok (opt_list (ad_subset dt)) = true).
  { do 2 (apply andb_true_iff in Hdtok; destruct Hdtok as [Hdtok _]). apply andb_true_iff in Hdtok. tauto. }
  set (l := opt_list (ad_subset dt)) in *.
  set (xd0 := to_xdoc {| a_version := ver; a_encoding := enc; a_standalone := sa; a_misc1 := m1; a_doctype := Some dt; a_misc2 := m2; a_root := AElem nm atts kids; a_misc3 := m3 |}) in *.
  match type of Hp with _ = Some ?x => set (xd' := x) in * end.
  (* the environment *)
  assert (Eenv : doc_env xd' = doc_env xd0).
  { unfold doc_env, xd', xd0. cbn [to_xdoc x_doctype x_decl dt_subset dt_extid a_doctype a_version a_standalone]. fold l. rewrite (entities_read l l' Hl'). reflexivity. }
  assert (Efuel : ent_fuel xd' = ent_fuel xd0) by (unfold ent_fuel; now rewrite Eenv).
  assert (Esub0 : match x_doctype xd0 with Some dt1 => dt_subset dt1 | None => [] end = map to_decl l) by reflexivity.
  assert (Esub' : match x_doctype xd' with Some dt1 => dt_subset dt1 | None => [] end = l') by reflexivity.
  set (en := doc_env xd0) in *.
  assert (Een : en = {| e_ents := with_predefined (entities_of (map to_decl l)); e_must_declare := e_must_declare en |}) by reflexivity.
  assert (Hstd : std_predef en) by (rewrite Een; apply std_of_clean; apply entities_clean; exact Hnp).
  assert (Hf : exists f', ent_fuel xd0 = S (S f')).
  { unfold ent_fuel. fold en. rewrite Een. cbn [e_ents]. unfold with_predefined. rewrite app_length, map_length. cbn [predefined length].
    exists (length (entities_of (map to_decl l)) + 4). lia. }
  destruct Hf as [f' Hf].
  (* the canonical tree passes the checks *)
  unfold check_doc in Ec. cbv zeta in Ec. rewrite Esub0 in Ec. fold en in Ec. rewrite Hf in Ec.
  destruct (subset_ok (S (S f')) (e_must_declare en) [] (map to_decl l)) as [r|] eqn:Esok; [discriminate|].
  change (x_root xd0) with (XElem nm (canon_atts atts) (Some nm) (flat_map to_x kids)) in Ec.
  set (rootc := XElem nm (canon_atts atts) (Some nm) (flat_map to_x kids)) in *.
  destruct (expand (S (S f')) en [] rootc) as [r|root0'] eqn:Eexp; [discriminate|]. destruct (tree_ok (S (S f')) en root0') eqn:Etree; [discriminate|].
  injection Ec as <-.
  unfold ns_doc in En. cbv zeta in En. rewrite Esub0 in En. fold en in En. rewrite Hf in En.
  apply V.andc_none in En. destruct En as [Nname En]. apply V.andc_none in En. destruct En as [Ndecl En]. apply V.andc_none in En. destruct En as [Nmisc Nroot].
  pose proof (defaulted_read f' en Hstd l l') as Hdef.
  destruct (reads_checks_g f' en Hstd (map to_decl l) l' (fun el a1 a2 => Hdef el a1 a2 Hl') (AElem nm atts kids) Hsyn [item] Hrd [root0']) with (s0 := @nil (str * str)) (s' := @nil (str * str)) as (r' & E' & T' & N').
  { cbn [to_x mapM]. fold (canon_atts atts). fold rootc. rewrite Eexp. reflexivity. }
  { apply C.allc_cons; [exact Etree|reflexivity]. }
  { intros p. reflexivity. }
  { apply C.allc_cons; [exact Nroot|reflexivity]. }
  apply V.mapM_cons_inv in E'. destruct E' as (root' & ys & Er & Eys & ->). cbn [mapM] in Eys. injection Eys as <-.
  apply V.allc_cons_inv in T'. destruct T' as [T' _]. apply V.allc_cons_inv in N'. destruct N' as [N' _].
  (* the rendering *)
  unfold wf, verdict_ns. rewrite Hp. unfold unsupported. change (x_doctype xd') with (Some {| dt_name := ad_name dt; dt_extid := extid_of (ad_pub dt) (ad_sys dt); dt_subset := l' |}).
  cbn [dt_subset]. rewrite (no_peref_read l l' Hl').
  unfold check_doc. cbv zeta. rewrite Esub', Efuel, Eenv. fold en. rewrite Hf.
  rewrite (subset_ok_read f' (e_must_declare en) l l' Hl' Hdecls Hnp [] ltac:(intros x []) Esok).
  change (x_root xd') with item. rewrite Er, T'.
  unfold ns_doc. cbv zeta. rewrite Esub', Efuel, Eenv. fold en. rewrite Hf.
  change (x_doctype xd') with (Some {| dt_name := ad_name dt; dt_extid := extid_of (ad_pub dt) (ad_sys dt); dt_subset := l' |}). cbn [dt_name].
  change (match x_doctype xd0 with Some dt1 => guard (is_QName (dt_name dt1)) RNsName | None => ok end) with (guard (is_QName (ad_name dt)) RNsName) in Nname.
  rewrite Nname. cbn [andc]. rewrite (ns_decl_read l l' Hl' Ndecl). cbn [andc].
  change (x_misc1 xd' ++ x_misc2 xd' ++ x_misc3 xd') with (x_misc1 xd0 ++ x_misc2 xd0 ++ x_misc3 xd0).
  rewrite <- (allc_ext_in (ns_tree (S (S f')) en (map to_decl l) []) (ns_tree (S (S f')) en l' [])).
  2:{ apply Forall_forall. intros y _. apply (ns_tree_ext f' en (map to_decl l) l' (fun el a1 a2 => Hdef el a1 a2 Hl')). intros p. reflexivity. }
  rewrite Nmisc. cbn [andc]. rewrite N'. reflexivity.
Qed.

(** ** acceptance by the model of from_raw: the hypotheses of the converse hold for renderings *)
Definition no_cdend (l : list adecl) : bool :=
  forallb (fun x => match x with
                    | ADEntity _ v => match Peg.find_sub [93;93;62]%N (repl_text (ent_pieces v)) with None => true | Some _ => false end
                    | _ => true end) l.

Lemma ent_lit_pieces_simple q c p : forall s i, all_chars s = true -> contains c_lt s = false -> contains c_amp s = false ->
  forallb QC.spec_simple_piece (ent_lit_pieces q c p i s) = true.
Proof.
  induction s as [|ch s IH]; intros i Hc Hl Ha; [reflexivity|]. cbn [all_chars forallb] in Hc. apply andb_true_iff in Hc. destruct Hc as [Hch Hcs].
  cbn [contains existsb] in Hl, Ha. apply orb_false_iff in Hl. destruct Hl as [Hl1 Hl2]. apply orb_false_iff in Ha. destruct Ha as [Ha1 Ha2].
  cbn [ent_lit_pieces forallb]. rewrite (IH (i + 1)%N Hcs Hl2 Ha2). rewrite andb_true_r.
  assert (Hp : XmlWFSyntaxDtdCheck.plain_char ch = true).
  { unfold XmlWFSyntaxDtdCheck.plain_char. rewrite Hch. cbn [andb]. rewrite N.eqb_sym in Ha1. rewrite N.eqb_sym in Hl1. unfold c_amp in Ha1. unfold c_lt in Hl1. now rewrite Ha1, Hl1. }
  destruct (ent_piece_cases q (c (i :: p)) ch) as [-> | ->]; exact Hp.
Qed.

Lemma ent_items_pieces_simple q c p : forall v i, ent_items_ok v = true -> forallb QC.spec_simple_piece (ent_items_pieces q c p i v) = true.
Proof.
  induction v as [|it v IH]; intros i Hok; [reflexivity|]. cbn [ent_items_ok forallb] in Hok. apply andb_true_iff in Hok. destruct Hok as [Hit Hv].
  destruct it as [s|nm]; cbn [ent_items_pieces].
  - apply andb_true_iff in Hit. destruct Hit as [Hit Ha]. apply andb_true_iff in Hit. destruct Hit as [Hc Hl]. apply negb_true_iff in Ha, Hl.
    rewrite forallb_app. rewrite (ent_lit_pieces_simple q c (i :: p) s 0%N Hc Hl Ha). exact (IH (i + 1)%N Hv).
  - cbn [forallb QC.spec_simple_piece]. rewrite (NCName_Name _ Hit). exact (IH (i + 1)%N Hv).
Qed.

Lemma conv_hyps_read l l' : Forall2 decl_read l l' -> forallb Infoset.decl_ok l = true -> no_cdend l = true ->
  forallb QC.no_pe_decl l' = true /\ forallb QC.spec_simple_decl l' = true.
Proof.
  induction 1 as [|d d' l l' Hd _ IH]; intros Hok Hcd; [split; reflexivity|].
  cbn [forallb] in Hok. apply andb_true_iff in Hok. destruct Hok as [Hod Hol].
  cbn [no_cdend forallb] in Hcd. apply andb_true_iff in Hcd. destruct Hcd as [Hcd Hcl]. destruct (IH Hol Hcl) as [I1 I2].
  cbn [forallb]. rewrite I1, I2, !andb_true_r.
  destruct d as [nm v|nm pub sys nd|nm pub sys|el defs|nm spec|s|t x]; cbn [decl_read] in Hd; try (subst d'; split; reflexivity).
  - destruct Hd as (q & c & p & i & Hq & ->). split; [reflexivity|]. cbn [QC.spec_simple_decl].
    cbn [Infoset.decl_ok] in Hod. apply andb_true_iff in Hod. destruct Hod as [_ Hv].
    rewrite (ent_items_pieces_simple q c p v i Hv). cbn [andb]. rewrite ent_items_pieces_repl. exact Hcd.
  - destruct Hd as (dl & HF & ->). split; reflexivity.
Qed.

Theorem render_accepted_dtd (d : adoc) (c : choices) dt : valid d = true -> a_doctype d = Some dt ->
  no_predef_decl (opt_list (ad_subset dt)) = true -> no_cdend (opt_list (ad_subset dt)) = true ->
  e_must_declare (doc_env (to_xdoc d)) = true ->
  exists doc, Info.from_raw (render d c) = Info.OOk ([], doc).
Proof.
  intros Hv Hdt Hnp Hcd Hmust. destruct (render_wf_dtd d c dt Hv Hdt Hnp) as [Hwf Hstrict].
  apply (QC.wf_accepted (render d c) Hwf Hstrict).
  unfold valid in Hv. apply andb_true_iff in Hv. destruct Hv as [Hs _].
  destruct (render_parse_dtd d c dt Hs Hdt) as (item & l' & Hrd & Hl' & Hq).
  pose proof (XmlWFSyntaxConvDtdDoc.q_parse_document_spec _ _ Hq) as Hp.
  assert (Hdecls : forallb Infoset.decl_ok (opt_list (ad_subset dt)) = true).
  { unfold shape_ok in Hs. rewrite Hdt in Hs. apply andb_true_iff in Hs. destruct Hs as [_ Hs].
    do 2 (apply andb_true_iff in Hs; destruct Hs as [Hs _]). apply andb_true_iff in Hs. tauto. }
  destruct (conv_hyps_read _ _ Hl' Hdecls Hcd) as [H1 H2].
  unfold QC.conv_hyps. rewrite Hp. cbn [x_doctype dt_subset]. rewrite H1, H2, !andb_true_r.
  destruct d as [ver enc sa m1 dt0 m2 root m3]. cbn [a_doctype] in Hdt. subst dt0. exact Hmust.
Qed.
