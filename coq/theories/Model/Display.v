(** * The two serialisers of xml-info and the parse -> infoset -> print pipeline.

    - [display : document -> str]  = the [fmt::Display] impls (compact form; what [to_string()]
      of xml_dom::XmlDocument returns, xml-dom delegates to xml-info);
    - [pretty : document -> str]   = the [IndentedDisplay] impls (what [PrettyPrint::pretty]
      of xml_dom::XmlDocument writes);
    - [pipeline : str -> outcome pipe_obs] = from_raw; display; pretty; and the re-parse of both
      outputs (what the `parse` domain of the harness observes on the real crates).

    The model follows branch agent-pipeline, i.e. with repair 92063b3 ([Display for
    XmlDeclarationAttList] prints the declaration, D11); [display_pinned] is the printer of the
    pinned code, kept for the refutation in Properties/C04.v. *)
From Coq Require Import List NArith Bool.
From XmlRs Require Import Base.CPred Model.Peg Model.ParseActions Model.Info.
Import ListNotations.
Local Open Scope N_scope.

(** ASCII literals *)
Definition s_lt_q : str := [60;63].                      (* <? *)
Definition s_q_gt : str := [63;62].                      (* ?> *)
Definition s_amp_hash : str := [38;35].                  (* &# *)
Definition s_amp_hash_x : str := [38;35;120].            (* &#x *)
Definition s_cdata_open : str := [60;33;91;67;68;65;84;65;91].
Definition s_cdata_close : str := [93;93;62].
Definition s_comment_open : str := [60;33;45;45].
Definition s_comment_close : str := [45;45;62].
Definition s_public : str := [32;80;85;66;76;73;67;32].     (* " PUBLIC " *)
Definition s_system : str := [32;83;89;83;84;69;77;32].     (* " SYSTEM " *)
Definition s_ndata : str := [32;78;68;65;84;65;32].         (* " NDATA " *)
Definition s_entity_open : str := [60;33;69;78;84;73;84;89;32].          (* "<!ENTITY " *)
Definition s_notation_open : str := [60;33;78;79;84;65;84;73;79;78;32].  (* "<!NOTATION " *)
Definition s_attlist_open : str := [60;33;65;84;84;76;73;83;84;32].      (* "<!ATTLIST " *)
Definition s_doctype_open : str := [60;33;68;79;67;84;89;80;69;32].      (* "<!DOCTYPE " *)
Definition s_xmldecl_open : str := [60;63;120;109;108;32;118;101;114;115;105;111;110;61;34]. (* <?xml version=QUOTE *)
Definition s_encoding : str := [32;101;110;99;111;100;105;110;103;61;34].                   (* SP encoding=QUOTE *)
Definition s_standalone : str := [32;115;116;97;110;100;97;108;111;110;101;61;34].          (* SP standalone=QUOTE *)
Definition s_no : str := [110;111].
Definition s_empty_close : str := [32;47;62].            (* " />" *)
Definition s_etag_open : str := [60;47].                 (* "</" *)
Definition s_fixed : str := [35;70;73;88;69;68;32].      (* "#FIXED " *)
Definition s_required : str := [35;82;69;81;85;73;82;69;68].
Definition s_implied : str := [35;73;77;80;76;73;69;68].
Definition s_notation_paren : str := [78;79;84;65;84;73;79;78;32;40].    (* "NOTATION (" *)

(** fn escape: quote with APOS when the value contains QUOTE (34), else with QUOTE *)
Definition escape (v : str) : str :=
  if existsb (N.eqb 34) v then 39 :: v ++ [39] else 34 :: v ++ [34].

Definition d_name (prefix : option str) (local : str) : str :=
  match prefix with Some p => p ++ 58 :: local | None => local end.

Definition d_charref (num : str) (r : radix) : str :=
  match r with Dec => s_amp_hash ++ num ++ [59] | Hex => s_amp_hash_x ++ num ++ [59] end.

Definition d_entref (name : str) : str := 38 :: name ++ [59].

Definition d_avalue (v : avalue) : str :=
  match v with XaChar _ num r => d_charref num r | XaEntity e => d_entref (en_name e) | XaText s => s end.

Definition d_avalues (l : list avalue) : str := flat_map d_avalue l.

(** fn quote_att_value (07dd53f): a value holding both quotation marks is written between double
    quotes with every double quote as &quot;; otherwise [escape] *)
Definition s_quot : str := [38;113;117;111;116;59].
Definition quote_att_value (v : str) : str :=
  if existsb (N.eqb 34) v && existsb (N.eqb 39) v
  then 34 :: flat_map (fun c => if N.eqb c 34 then s_quot else [c]) v ++ [34]
  else escape v.

(** Display for XmlAttribute *)
Definition d_attr (a : attr) : str :=
  d_name (xa_prefix a) (xa_local a) ++ 61 :: quote_att_value (d_avalues (xa_values a)).

Definition d_pi (p : ppi) : str :=
  s_lt_q ++ pi_target p ++ match pi_value p with Some c => 32 :: c ++ s_q_gt | None => s_q_gt end.

Definition d_ent_value (v : ent_value) : str :=
  match v with
  | XvCharacter num r => d_charref num r
  | XvEntity n => d_entref n
  | XvParameter n => 37 :: n ++ [59]
  | XvText s => s
  end.

Definition d_external (pub sys : option str) : str :=
  match pub with
  | Some p => s_public ++ escape p ++ match sys with Some s => 32 :: escape s | None => [] end
  | None => match sys with Some s => s_system ++ escape s | None => [] end
  end.

(** Display for XmlEntity *)
Definition d_entity (e : entity) : str :=
  s_entity_open ++ en_name e
  ++ match en_public e, en_system e with
     | None, None => match en_values e with Some vs => 32 :: escape (flat_map d_ent_value vs) | None => [] end
     | p, s => d_external p s
     end
  ++ match en_notation e with Some n => s_ndata ++ n | None => [] end
  ++ [62].

Definition d_notation (n : notation) : str :=
  s_notation_open ++ no_name n ++ d_external (no_public n) (no_system n) ++ [62].

(** v.join("|") *)
Fixpoint join_bar (l : list str) : str :=
  match l with
  | [] => []
  | [x] => x
  | x :: l' => x ++ 124 :: join_bar l'
  end.

Definition d_att_type (t : att_type) : str :=
  match t with
  | AtCdata => [67;68;65;84;65]
  | AtEntities => [69;78;84;73;84;73;69;83]
  | AtEntity => [69;78;84;73;84;89]
  | AtId => [73;68]
  | AtIdRef => [73;68;82;69;70]
  | AtIdRefs => [73;68;82;69;70;83]
  | AtNmToken => [78;77;84;79;75;69;78]
  | AtNmTokens => [78;77;84;79;75;69;78;83]
  | AtNotation l => s_notation_paren ++ join_bar l ++ [41]
  | AtEnumeration l => 40 :: join_bar l ++ [41]
  end.

Definition d_adefault (d : adefault) : str :=
  match d with
  | XdRequired => s_required
  | XdImplied => s_implied
  | XdValue f vs => match f with Some _ => s_fixed | None => [] end ++ escape (d_avalues vs)
  end.

Definition d_attdef (d : attdef) : str :=
  d_name (xd_prefix d) (xd_local d) ++ 32 :: d_att_type (xd_ty d) ++ 32 :: d_adefault (xd_value d).

(** Display for XmlDeclarationAttList: after 92063b3; the pinned code printed nothing *)
Definition d_attlist (pinned : bool) (a : attlist) : str :=
  if pinned then [] else
  s_attlist_open ++ d_name (al_prefix a) (al_local a) ++ flat_map (fun d => 32 :: d_attdef d) (al_atts a) ++ [62].

Definition d_dtd_item (pinned : bool) (c : dtd_item) : str :=
  match c with
  | DtAttList a => d_attlist pinned a
  | DtEntity e => d_entity e
  | DtNotation n => d_notation n
  | DtPI p => d_pi p
  end.

Definition d_doctype (pinned : bool) (d : doctype) : str :=
  s_doctype_open ++ d_name (dt_prefix d) (dt_local d) ++ d_external (dt_public d) (dt_system d)
  ++ match dt_children d with
     | [] => []
     | ch => 32 :: 91 :: flat_map (d_dtd_item pinned) ch ++ [93]
     end
  ++ [62].

Fixpoint d_item (pinned : bool) (i : item) : str :=
  match i with
  | ItElement local prefix attrs children =>
    60 :: d_name prefix local ++ flat_map (fun a => 32 :: d_attr a) attrs
    ++ match children with
       | [] => s_empty_close
       | _ => 62 :: flat_map (d_item pinned) children ++ s_etag_open ++ d_name prefix local ++ [62]
       end
  | ItText s => s
  | ItCData s => s_cdata_open ++ s ++ s_cdata_close
  | ItCharRef _ num r => d_charref num r
  | ItComment s => s_comment_open ++ s ++ s_comment_close
  | ItPI p => d_pi p
  | ItUnexpanded e => d_entref (en_name e)
  | ItDocType d => d_doctype pinned d
  end.

Definition d_xmldecl (d : document) : str :=
  match doc_version d with
  | Some v =>
    s_xmldecl_open ++ v ++ [34]
    ++ match doc_encoding d with [] => [] | e => s_encoding ++ e ++ [34] end
    ++ match doc_standalone d with
       | Some sd => s_standalone ++ (if sd then s_yes else s_no) ++ [34]
       | None => []
       end
    ++ s_q_gt
  | None => []
  end.

Definition display_gen (pinned : bool) (d : document) : str :=
  d_xmldecl d ++ flat_map (d_item pinned) (doc_children d).
Definition display : document -> str := display_gen false.
Definition display_pinned : document -> str := display_gen true.

(** ** IndentedDisplay *)
Definition spaces (n : nat) : str := repeat 32 n.

(** the pinned XmlDeclarationAttList::indented wrote its (empty) Display without indentation *)
Definition p_dtd_item (pinned : bool) (indent : nat) (c : dtd_item) : str :=
  match c with
  | DtAttList a => if pinned then [] else spaces indent ++ d_attlist false a
  | _ => spaces indent ++ d_dtd_item pinned c
  end.

Definition p_doctype (pinned : bool) (indent : nat) (d : doctype) : str :=
  s_doctype_open ++ d_name (dt_prefix d) (dt_local d) ++ d_external (dt_public d) (dt_system d)
  ++ match dt_children d with
     | [] => []
     | ch => 10 :: 91 :: flat_map (fun c => 10 :: p_dtd_item pinned (indent + 4) c) ch ++ [10;93;10]
     end
  ++ [62].

Definition is_element (i : item) : bool := match i with ItElement _ _ _ _ => true | _ => false end.

Fixpoint p_item (pinned : bool) (indent : nat) (i : item) : str :=
  match i with
  | ItElement local prefix attrs children =>
    spaces indent ++ 60 :: d_name prefix local ++ flat_map (fun a => 32 :: d_attr a) attrs
    ++ match children with
       | [] => s_empty_close
       | _ =>
         62 :: flat_map (fun c => (if is_element c then [10] else []) ++ p_item pinned (indent + 4) c) children
         ++ (if existsb is_element children then 10 :: spaces indent else [])
         ++ s_etag_open ++ d_name prefix local ++ [62]
       end
  | ItComment _ | ItPI _ => spaces indent ++ d_item pinned i
  | ItDocType d => p_doctype pinned indent d
  | ItText _ | ItCData _ | ItCharRef _ _ _ | ItUnexpanded _ => d_item pinned i
  end.

Fixpoint p_children (pinned first : bool) (l : list item) : str :=
  match l with
  | [] => []
  | c :: l' => (if first then [] else [10]) ++ p_item pinned 0 c ++ p_children pinned false l'
  end.

Definition pretty_gen (pinned : bool) (d : document) : str :=
  d_xmldecl d ++ p_children pinned (match doc_version d with Some _ => false | None => true end) (doc_children d).
Definition pretty : document -> str := pretty_gen false.

(** ** the pipeline as the `parse` domain observes it *)
Inductive reparse :=
| RRejParse                               (* the printed text is rejected by the parser *)
| RRejInfo (e : ierror)                   (* ... by XmlDocument::new *)
| RPanic (site : panic_site)
| RModel
| ROk (rest : str) (equal fixpoint : bool).       (* rest, first == second, display second = the text *)

Definition reparse_of (pinned : bool) (first : document) (text : str) : reparse :=
  match from_raw_gen pinned text with
  | OOk (rest, d2) => ROk rest (impl_eq first d2) (str_eqb (display_gen pinned d2) text)
  | OParseErr => RRejParse
  | OInfoErr e => RRejInfo e
  | OPanic p => RPanic p
  | OModel => RModel
  end.

Record pipe_obs := PipeObs {
  po_rest : str; po_doc : document;
  po_ser : str; po_re : reparse;
  po_pretty : str; po_pp : reparse }.

Definition pipeline_gen (pinned : bool) (s : str) : outcome pipe_obs :=
  match from_raw_gen pinned s with
  | OOk (rest, d) =>
    let ser := display_gen pinned d in
    let pp := pretty_gen pinned d in
    let re := reparse_of pinned d ser in
    let rp := reparse_of pinned d pp in
    match re, rp with
    | RPanic p, _ | _, RPanic p => OPanic p
    | _, _ => OOk (PipeObs rest d ser re pp rp)
    end
  | OParseErr => OParseErr
  | OInfoErr e => OInfoErr e
  | OPanic p => OPanic p
  | OModel => OModel
  end.
Definition pipeline : str -> outcome pipe_obs := pipeline_gen false.
Definition pipeline_pinned : str -> outcome pipe_obs := pipeline_gen true.

(** the document part alone, as DESIGN 5.4 names it *)
Definition pipeline_parse (s : str) : outcome (str * document) := from_raw s.
