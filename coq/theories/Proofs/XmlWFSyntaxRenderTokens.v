(** * C01, [parse_render] on the side of the specification: the information set that Spec/Infoset.v reads
    from the rendering of a valid abstract document is [denote d], whatever the oracle (as long as the oracle
    puts no carriage return into white space: [infoset_of_string] normalizes line ends first). *)
From Coq Require Import List NArith Arith Lia Bool Permutation Sorting.Sorted.
From XmlRs Require Import Base.CPred Spec.XmlChars Spec.XmlWF Spec.Infoset Proofs.XmlWFRender Proofs.XmlWFSyntaxRenderNode
  Proofs.XmlWFSyntaxRenderCheck Proofs.XmlWFSyntaxRenderDoc Proofs.XmlWFSyntaxRenderDtd Proofs.XmlWFSyntaxRenderDtdElem
  Proofs.XmlWFSyntaxRenderDtdDoc Proofs.XmlWFSyntaxRenderDtdCheck Proofs.XmlWFSyntaxRenderDtdWf.
From XmlRs Require Proofs.XmlWFSyntaxCheck Proofs.XmlWFSyntaxConvCheck Proofs.XmlWFSyntaxConvDtdDoc.
Import ListNotations.
Local Open Scope nat_scope.

(** ** the order on names, insertion sort *)
Lemma ltb_irrefl (a : str) : str_ltb a a = false.
Proof. induction a as [|x a IH]; [reflexivity|]. cbn [str_ltb]. rewrite N.ltb_irrefl, N.eqb_refl, IH. reflexivity. Qed.

Lemma ltb_trans : forall a b c : str, str_ltb a b = true -> str_ltb b c = true -> str_ltb a c = true.
Proof.
  induction a as [|x a IH]; intros [|y b] [|z c] H1 H2; try discriminate; try reflexivity.
  cbn [str_ltb] in *. apply orb_true_iff in H1. apply orb_true_iff in H2. apply orb_true_iff.
  destruct H1 as [H1|H1], H2 as [H2|H2].
  - left. apply N.ltb_lt in H1, H2. apply N.ltb_lt. lia.
  - apply andb_true_iff in H2. destruct H2 as [E _]. apply N.eqb_eq in E. subst z. now left.
  - apply andb_true_iff in H1. destruct H1 as [E _]. apply N.eqb_eq in E. subst y. now left.
  - apply andb_true_iff in H1. destruct H1 as [E1 L1]. apply andb_true_iff in H2. destruct H2 as [E2 L2].
    apply N.eqb_eq in E1, E2. subst y z. right. rewrite N.eqb_refl. exact (IH b c L1 L2).
Qed.

Lemma ltb_total : forall a b : str, a <> b -> str_ltb a b = true \/ str_ltb b a = true.
Proof.
  induction a as [|x a IH]; intros [|y b] H; [now elim H|now left|now right|]. cbn [str_ltb].
  destruct (N.lt_trichotomy x y) as [L|[E|L]].
  - left. apply N.ltb_lt in L. now rewrite L.
  - subst y. rewrite N.ltb_irrefl, N.eqb_refl. cbn [orb andb]. apply IH. intros ->. now elim H.
  - right. apply N.ltb_lt in L. now rewrite L.
Qed.

Section SortU.
Context {A : Type} (key : A -> str).
Definition ltk (x y : A) : Prop := str_ltb (key x) (key y) = true.

Lemma insert_perm x l : Permutation (insert_by key x l) (x :: l).
Proof.
  induction l as [|y l IH]; [reflexivity|]. cbn [insert_by]. destruct (str_ltb (key x) (key y)); [reflexivity|].
  rewrite IH. apply perm_swap.
Qed.

Lemma sort_perm l : Permutation (sort_by key l) l.
Proof. induction l as [|x l IH]; [reflexivity|]. cbn [sort_by fold_right]. fold (sort_by key l). rewrite insert_perm. now constructor. Qed.

Lemma insert_sorted x l : StronglySorted ltk l -> (forall y, In y l -> key y <> key x) -> StronglySorted ltk (insert_by key x l).
Proof.
  induction 1 as [|y l Hs IH Hy]; intros Hne; [constructor; constructor|]. cbn [insert_by]. destruct (str_ltb (key x) (key y)) eqn:E.
  - constructor; [constructor; assumption|]. constructor; [exact E|]. rewrite Forall_forall in *. intros z Hz. unfold ltk in *. exact (ltb_trans _ _ _ E (Hy z Hz)).
  - assert (Hyx : ltk y x).
    { destruct (ltb_total (key y) (key x) (Hne y (or_introl eq_refl))) as [H|H]; [exact H|]. congruence. }
    constructor; [apply IH; intros z Hz; apply Hne; now right|]. rewrite Forall_forall in *. intros z Hz.
    apply (Permutation_in _ (insert_perm x l)) in Hz. destruct Hz as [<-|Hz]; [exact Hyx|exact (Hy z Hz)].
Qed.

Lemma sort_sorted l : NoDup (map key l) -> StronglySorted ltk (sort_by key l).
Proof.
  induction l as [|x l IH]; intros H; [constructor|]. cbn [map] in H. inversion H as [|? ? Hx Hl]; subst. cbn [sort_by fold_right]. fold (sort_by key l).
  apply insert_sorted; [exact (IH Hl)|]. intros y Hy E. apply Hx. rewrite <- E. apply in_map. exact (Permutation_in _ (sort_perm l) Hy).
Qed.

Lemma sorted_unique : forall l1 l2, StronglySorted ltk l1 -> StronglySorted ltk l2 -> Permutation l1 l2 -> l1 = l2.
Proof.
  induction l1 as [|x t1 IH]; intros l2 S1 S2 HP.
  - apply Permutation_nil in HP. now subst.
  - destruct l2 as [|y t2]; [apply Permutation_sym, Permutation_nil in HP; discriminate|].
    inversion S1 as [|? ? S1' H1]; subst. inversion S2 as [|? ? S2' H2]; subst. rewrite Forall_forall in H1, H2.
    assert (x = y).
    { assert (Hx : In x (y :: t2)) by (apply (Permutation_in _ HP); now left).
      assert (Hy : In y (x :: t1)) by (apply (Permutation_in _ (Permutation_sym HP)); now left).
      destruct Hx as [->|Hx]; [reflexivity|]. destruct Hy as [->|Hy]; [reflexivity|]. exfalso.
      pose proof (H2 x Hx) as L1. pose proof (H1 y Hy) as L2. unfold ltk in *. pose proof (ltb_trans _ _ _ L1 L2) as L. rewrite ltb_irrefl in L. discriminate. }
    subst y. f_equal. apply IH; [assumption|assumption|]. exact (Permutation_cons_inv HP).
Qed.

Lemma sort_by_perm l1 l2 : Permutation l1 l2 -> NoDup (map key l1) -> sort_by key l1 = sort_by key l2.
Proof.
  intros HP Hnd. apply sorted_unique.
  - apply sort_sorted. exact Hnd.
  - apply sort_sorted. eapply Permutation_NoDup; [apply Permutation_map; exact HP|exact Hnd].
  - rewrite sort_perm, sort_perm. exact HP.
Qed.
End SortU.

Ltac rw H := let E := fresh "E" in pose proof H as E; unfold str, char in *; rewrite E; clear E.

(** ** the tokens of a list of items *)
Section Tok.
Variable f' : nat.
Variable en : env.
Hypothesis Hstd : std_predef en.
Let f := S (S f').

Fixpoint items_tokens (sub : list decl) (l : list xcontent) (acc : str) : list token * str :=
  match l with
  | [] => ([], acc)
  | y :: t => let (o1, a1) := item_tokens f en sub y acc in let (o2, a2) := items_tokens sub t a1 in (o1 ++ o2, a2)
  end.

Lemma go_tokens sub : forall l acc,
  (fix go (l : list xcontent) (acc : str) : list token * str :=
     match l with
     | [] => ([], acc)
     | y :: t => let (o1, a1) := item_tokens f en sub y acc in let (o2, a2) := go t a1 in (o1 ++ o2, a2)
     end) l acc = items_tokens sub l acc.
Proof.
  induction l as [|y l IH]; intros acc; [reflexivity|]. cbn [items_tokens].
  match goal with |- ?L = _ => let L' := eval cbv beta iota fix in L in change L with L' end.
  destruct (item_tokens f en sub y acc) as [o1 a1]. rewrite IH. reflexivity.
Qed.

Lemma item_tokens_exp sub nm items acc : item_tokens f en sub (XExp nm items) acc = items_tokens sub items acc.
Proof. exact (go_tokens sub items acc). Qed.

Lemma item_tokens_elem sub nm atts et kids acc : item_tokens f en sub (XElem nm atts et kids) acc =
  let (o, a) := items_tokens sub kids [] in (flush acc ++ TElem nm :: attr_tokens f en sub nm atts ++ o ++ flush a ++ [TEndElem], []).
Proof.
  exact (f_equal (fun z : list token * str => let (o, a) := z in (flush acc ++ TElem nm :: attr_tokens f en sub nm atts ++ o ++ flush a ++ [TEndElem], @nil char))
                 (go_tokens sub kids [])).
Qed.

Lemma items_tokens_app sub : forall a b acc, items_tokens sub (a ++ b) acc =
  let (o1, a1) := items_tokens sub a acc in let (o2, a2) := items_tokens sub b a1 in (o1 ++ o2, a2).
Proof.
  induction a as [|y a IH]; intros b acc.
  - cbn [app items_tokens]. destruct (items_tokens sub b acc); reflexivity.
  - cbn [app items_tokens]. destruct (item_tokens f en sub y acc) as [o1 a1]. rewrite IH.
    destruct (items_tokens sub a a1) as [o2 a2]. destruct (items_tokens sub b a2) as [o3 a3]. now rewrite app_assoc.
Qed.

(** ** character data *)
Lemma predef_expand_tok nm ch : predef_name ch = Some nm ->
  exists its, expand f en [] (XEntRef nm) = inr (XExp nm its) /\ forall sub acc, items_tokens sub its acc = ([], ch :: acc).
Proof.
  intros Hn. unfold predef_name in Hn.
  assert (Hcases : (ch = c_lt /\ nm = s_lt) \/ (ch = c_gt /\ nm = s_gt) \/ (ch = c_amp /\ nm = s_amp)
                   \/ (ch = c_apos /\ nm = s_apos) \/ (ch = c_quot /\ nm = s_quot)).
  { destruct (N.eqb_spec ch c_lt); [injection Hn as <-; auto|].
    destruct (N.eqb_spec ch c_gt); [injection Hn as <-; auto|].
    destruct (N.eqb_spec ch c_amp); [injection Hn as <-; auto|].
    destruct (N.eqb_spec ch c_apos); [injection Hn as <-; auto 6|].
    destruct (N.eqb_spec ch c_quot); [injection Hn as <-; auto 6|discriminate]. }
  clear Hn. unfold f. generalize (S f') as g. intros g.
  destruct Hcases as [[-> ->]|[[-> ->]|[[-> ->]|[[-> ->]|[-> ->]]]]].
  - exists [XCharRef 60%N]. split; [|intros; reflexivity]. cbn [expand mem existsb].
    rewrite (Hstd s_lt [38;35;54;48;59]%N) by (cbn; auto). cbv beta iota. change (p_content _ _) with (Some ([XCharRef 60%N], @nil char)). cbv iota.
    cbn [mapM]. rewrite expand_leaf by exact I. reflexivity.
  - exists [XChar 62%N]. split; [|intros; reflexivity]. cbn [expand mem existsb].
    rewrite (Hstd s_gt [62]%N) by (cbn; auto). cbv beta iota. change (p_content _ _) with (Some ([XChar 62%N], @nil char)). cbv iota.
    cbn [mapM]. rewrite expand_leaf by exact I. reflexivity.
  - exists [XCharRef 38%N]. split; [|intros; reflexivity]. cbn [expand mem existsb].
    rewrite (Hstd s_amp [38;35;51;56;59]%N) by (cbn; auto). cbv beta iota. change (p_content _ _) with (Some ([XCharRef 38%N], @nil char)). cbv iota.
    cbn [mapM]. rewrite expand_leaf by exact I. reflexivity.
  - exists [XChar 39%N]. split; [|intros; reflexivity]. cbn [expand mem existsb].
    rewrite (Hstd s_apos [39]%N) by (cbn; auto 6). cbv beta iota. change (p_content _ _) with (Some ([XChar 39%N], @nil char)). cbv iota.
    cbn [mapM]. rewrite expand_leaf by exact I. reflexivity.
  - exists [XChar 34%N]. split; [|intros; reflexivity]. cbn [expand mem existsb].
    rewrite (Hstd s_quot [34]%N) by (cbn; auto 6). cbv beta iota. change (p_content _ _) with (Some ([XChar 34%N], @nil char)). cbv iota.
    cbn [mapM]. rewrite expand_leaf by exact I. reflexivity.
Qed.

Lemma text_tokens sub : forall items, Forall textlike items -> forall r' acc, mapM (expand f en []) items = inr r' ->
  items_tokens sub r' acc = ([], rev (chars_of items) ++ acc).
Proof.
  induction 1 as [|x items Hx _ IH]; intros r' acc Hm.
  - cbn [mapM] in Hm. injection Hm as <-. reflexivity.
  - apply V.mapM_cons_inv in Hm. destruct Hm as (y & ys & Ey & Eys & ->). cbn [items_tokens].
    destruct Hx as [ch|ch Hch|s|nm ch Hn].
    + rewrite expand_leaf in Ey by exact I. injection Ey as <-. cbn [item_tokens chars_of]. rw (IH ys (ch :: acc) Eys). cbn [rev app]. now rewrite <- app_assoc.
    + rewrite expand_leaf in Ey by exact I. injection Ey as <-. cbn [item_tokens chars_of]. rw (IH ys (ch :: acc) Eys). cbn [rev app]. now rewrite <- app_assoc.
    + rewrite expand_leaf in Ey by exact I. injection Ey as <-. cbn [item_tokens chars_of]. rw (IH ys (rev s ++ acc) Eys). cbn [app]. now rewrite rev_app_distr, <- app_assoc.
    + destruct (predef_expand_tok nm ch Hn) as (its & E1 & E2). rewrite E1 in Ey. injection Ey as <-. rewrite item_tokens_exp, E2.
      rw (IH ys (ch :: acc) Eys). cbn [chars_of app]. rewrite (predef_char_name _ _ Hn). cbn [app rev]. now rewrite <- app_assoc.
Qed.

Lemma canon_text_tokens sub (s : str) acc : items_tokens sub (map XChar s) acc = ([], rev s ++ acc).
Proof.
  revert acc. induction s as [|ch s IH]; intros acc; [reflexivity|]. cbn [map items_tokens item_tokens]. rewrite IH. cbn [rev app]. now rewrite <- app_assoc.
Qed.

Lemma canon_text_expand (s : str) : mapM (expand f en []) (map XChar s) = inr (map XChar s).
Proof. apply C.mapM_id. intros x Hx. apply in_map_iff in Hx. destruct Hx as [ch [<- _]]. apply expand_leaf. exact I. Qed.
End Tok.

(** ** attribute tokens *)
Lemma nodup_snoc {A} (l : list A) x : NoDup l -> ~ In x l -> NoDup (l ++ [x]).
Proof. intros H Hx. eapply Permutation_NoDup; [apply Permutation_cons_append|]. constructor; assumption. Qed.

Lemma nodup_app {A} (l1 l2 : list A) : NoDup l1 -> NoDup l2 -> (forall x, In x l1 -> ~ In x l2) -> NoDup (l1 ++ l2).
Proof.
  induction l1 as [|x l1 IH]; intros H1 H2 Hd; [exact H2|]. inversion H1 as [|? ? Hx H1']; subst. cbn [app]. constructor.
  - intros Hin. apply in_app_or in Hin. destruct Hin as [Hin|Hin]; [exact (Hx Hin)|]. exact (Hd x (or_introl eq_refl) Hin).
  - apply IH; [exact H1'|exact H2|]. intros y Hy. apply Hd. now right.
Qed.

Lemma stepd_nodup : forall l acc, NoDup (map (fun x : str * atttype * attdefault => fst (fst x)) acc) ->
  NoDup (map (fun x : str * atttype * attdefault => fst (fst x)) (fold_left stepd l acc)).
Proof.
  induction l as [|[[nm ty] df] l IH]; intros acc H; [exact H|]. cbn [fold_left]. apply IH. cbn [stepd].
  destruct (mem nm (map (fun x => fst (fst x)) acc)) eqn:E; [exact H|]. rewrite map_app. cbn [map fst]. apply nodup_snoc; [exact H|].
  intros Hin. apply mem_In in Hin. congruence.
Qed.

Lemma attdefs_nodup sub el : NoDup (map (fun x : str * atttype * attdefault => fst (fst x)) (attdefs_of sub el)).
Proof. rewrite attdefs_of_eq. apply stepd_nodup. constructor. Qed.

Lemma defaulted_names sub el (atts : list (str * list avpiece)) :
  NoDup (map fst (defaulted_atts sub el atts)) /\ forall x, In x (map fst (defaulted_atts sub el atts)) -> ~ In x (map fst atts).
Proof.
  unfold defaulted_atts. pose proof (attdefs_nodup sub el) as Hnd. induction (attdefs_of sub el) as [|[[nm ty] df] D IH]; [split; [constructor|intros x []]|].
  cbn [map fst] in Hnd. inversion Hnd as [|? ? Hx Hnd']; subst. destruct (IH Hnd') as [I1 I2]. cbn [flat_map]. rewrite map_app.
  assert (Hsub : forall x, In x (map fst (flat_map (fun '(nm0, _, df0) => match df0 with ADValue _ v => if mem nm0 (map fst atts) then [] else [(nm0, v)] | _ => [] end) D)) ->
                 In x (map (fun x : str * atttype * attdefault => fst (fst x)) D)).
  { clear. induction D as [|[[n t] d] D IHD]; intros x Hx; [destruct Hx|]. cbn [flat_map] in Hx. rewrite map_app in Hx. apply in_app_or in Hx. cbn [map fst].
    destruct Hx as [Hx|Hx]; [|right; exact (IHD x Hx)]. destruct d as [| |fx v]; try destruct Hx. destruct (mem n (map fst atts)); [destruct Hx|]. destruct Hx as [<-|[]]. now left. }
  destruct df as [| |fx v]; cbn [map app]; try (split; assumption).
  destruct (mem nm (map fst atts)) eqn:E; cbn [map app]; [split; assumption|]. split.
  - constructor; [|exact I1]. intros Hin. apply Hx. exact (Hsub nm Hin).
  - intros x [<-|Hin]; [|exact (I2 x Hin)]. intros Hin. apply mem_In in Hin. cbn [fst] in Hin. unfold str, char in *. congruence.
Qed.

Section TokTree.
Variable f' : nat.
Variable en : env.
Hypothesis Hstd : std_predef en.
Variables (l : list adecl) (l' : list decl).
Hypothesis Hl : Forall2 decl_read l l'.
Notation sub0 := (map to_decl l).
Notation nv := (nvalg f' en).

Definition ty_of (sub : list decl) (el a : str) : atttype :=
  match find (fun d : str * atttype * attdefault => str_eqb (fst (fst d)) a) (attdefs_of sub el) with Some (_, ty, _) => ty | None => ATCData end.

Lemma ty_of_R el a : ty_of sub0 el a = ty_of l' el a.
Proof.
  unfold ty_of. pose proof (attdefs_R f' en Hstd l l' el Hl) as HR. induction HR as [|x y D0 D' [Hxy _] _ IH]; [reflexivity|].
  cbn [find]. rewrite <- Hxy. destruct (str_eqb (fst (fst x)) a); [|exact IH]. destruct x as [[n t] d]. destruct y as [[n' t'] d']. cbn [fst] in Hxy. injection Hxy as <- <-. reflexivity.
Qed.

Definition hS (ty : str -> atttype) (a : str * str) : str * token := (fst a, TAttr true (fst a) (type_norm (ty (fst a)) (snd a))).
Definition hD (ty : str -> atttype) (a : str * str) : str * token := (fst a, TAttr false (fst a) (type_norm (ty (fst a)) (snd a))).

Lemma attr_tokens_nv sub el atts : attr_tokens (S (S f')) en sub el atts =
  map snd (sort_by fst (map (hS (ty_of sub el)) (map nv atts) ++ map (hD (ty_of sub el)) (map nv (defaulted_atts sub el atts)))).
Proof.
  unfold attr_tokens. cbv zeta. rewrite !map_map. f_equal. f_equal. f_equal; apply map_ext; intros [a v]; reflexivity.
Qed.

Lemma attr_tokens_same el atts : attr_tokens (S (S f')) en sub0 el atts = attr_tokens (S (S f')) en l' el atts.
Proof.
  rewrite !attr_tokens_nv. rewrite (defaulted_read f' en Hstd l l' el atts atts Hl (fun _ => eq_refl)).
  f_equal. f_equal. f_equal; apply map_ext; intros [a u]; unfold hS, hD; cbn [fst snd]; now rewrite ty_of_R.
Qed.

Lemma attr_tokens_read el atts parsed : atts_read atts parsed -> NoDup (map fst atts) ->
  attr_tokens (S (S f')) en l' el parsed = attr_tokens (S (S f')) en sub0 el (canon_atts atts).
Proof.
  intros Hrd Hnd. rewrite !attr_tokens_nv.
  assert (Hnames : Permutation (map fst parsed) (map fst (canon_atts atts))).
  { rewrite (atts_read_names atts parsed Hrd). unfold canon_atts. rewrite map_map. reflexivity. }
  rewrite (defaulted_read f' en Hstd l l' el (canon_atts atts) parsed Hl ltac:(intros k; apply mem_perm; symmetry; exact Hnames)).
  assert (E1 : map (hS (ty_of sub0 el)) (map nv (canon_atts atts)) = map (hS (ty_of l' el)) (map nv (canon_atts atts))).
  { apply map_ext. intros [a u]. unfold hS. cbn [fst snd]. now rewrite ty_of_R. }
  assert (E2 : map (hD (ty_of sub0 el)) (map nv (defaulted_atts l' el parsed)) = map (hD (ty_of l' el)) (map nv (defaulted_atts l' el parsed))).
  { apply map_ext. intros [a u]. unfold hD. cbn [fst snd]. now rewrite ty_of_R. }
  rewrite E1, E2. f_equal. apply sort_by_perm.
  - apply Permutation_app_tail. apply Permutation_map. apply atts_read_nvalg; [exact Hstd|exact Hrd].
  - rewrite map_app, !map_map. cbn [hS hD fst]. change (map (fun x => fst (nv x)) parsed) with (map fst parsed).
    change (map (fun x => fst (nv x)) (defaulted_atts l' el parsed)) with (map fst (defaulted_atts l' el parsed)).
    destruct (defaulted_names l' el parsed) as [D1 D2]. apply nodup_app; [|exact D1|].
    + eapply Permutation_NoDup; [symmetry; exact Hnames|]. unfold canon_atts. rewrite map_map. exact Hnd.
    + intros x Hx Hd. exact (D2 x Hd Hx).
Qed.
End TokTree.

(** ** the tokens of the tree read back *)
Section TokTree2.
Variable f' : nat.
Variable en : env.
Hypothesis Hstd : std_predef en.
Variables (l : list adecl) (l' : list decl).
Hypothesis Hl : Forall2 decl_read l l'.
Notation sub0 := (map to_decl l).
Notation f := (S (S f')).

Lemma tokens_ext : forall y acc, item_tokens f en sub0 y acc = item_tokens f en l' y acc.
Proof.
  apply (V.xcontent_ind2 (fun y => forall acc, item_tokens f en sub0 y acc = item_tokens f en l' y acc)).
  intros x Hk. destruct x as [c|s|n|nm|s|tg dt|nm atts et kids|nm items]; try (intros; reflexivity).
  - intros acc. rewrite !item_tokens_elem. rewrite (attr_tokens_same f' en Hstd l l' Hl).
    assert (E : forall a, items_tokens f' en sub0 kids a = items_tokens f' en l' kids a).
    { induction Hk as [|y kids Hy _ IH]; intros a; [reflexivity|]. cbn [items_tokens]. rewrite Hy. destruct (item_tokens f en l' y a) as [o1 a1]. now rewrite IH. }
    now rewrite E.
  - intros acc. rewrite !item_tokens_exp.
    revert acc. induction Hk as [|y items Hy _ IH]; intros a; [reflexivity|]. cbn [items_tokens]. rewrite Hy. destruct (item_tokens f en l' y a) as [o1 a1]. now rewrite IH.
Qed.

Lemma items_tokens_ext : forall r acc, items_tokens f' en sub0 r acc = items_tokens f' en l' r acc.
Proof. induction r as [|y r IH]; intros acc; [reflexivity|]. cbn [items_tokens]. rewrite tokens_ext. destruct (item_tokens f en l' y acc) as [o1 a1]. now rewrite IH. Qed.

Definition tokens_to (x : anode) : Prop :=
  forall items, reads x items -> forall r0 r', mapM (expand f en []) (to_x x) = inr r0 -> mapM (expand f en []) items = inr r' ->
  allc (tree_ok f en) r0 = None -> forall acc, items_tokens f' en l' r' acc = items_tokens f' en sub0 r0 acc.

Lemma kids_tokens kids : Forall (fun y => syn_ok y = true -> tokens_to y) kids -> forallb syn_ok kids = true ->
  forall kitems, reads_list kids kitems -> forall ck rk, mapM (expand f en []) (flat_map to_x kids) = inr ck -> mapM (expand f en []) kitems = inr rk ->
  allc (tree_ok f en) ck = None -> forall acc, items_tokens f' en l' rk acc = items_tokens f' en sub0 ck acc.
Proof.
  induction 1 as [|y t Hy _ IH]; intros Hok kitems Hr ck rk Hm Hm' Ht acc.
  - cbn [reads_list] in Hr. subst kitems. cbn [flat_map mapM] in Hm, Hm'. injection Hm as <-. injection Hm' as <-. reflexivity.
  - cbn [forallb] in Hok. apply andb_true_iff in Hok. destruct Hok as [Hoy Hot].
    cbn [reads_list] in Hr. destruct Hr as (iy & its & -> & Ry & Rt).
    cbn [flat_map] in Hm. apply V.mapM_app_inv in Hm. destruct Hm as (cy & ct & My & Mt & ->).
    apply V.mapM_app_inv in Hm'. destruct Hm' as (ry & rt & My' & Mt' & ->).
    apply V.allc_app_inv in Ht. destruct Ht as [Ty Tt].
    rewrite !items_tokens_app. rewrite (Hy Hoy iy Ry cy ry My My' Ty acc). destruct (items_tokens f' en sub0 cy acc) as [o1 a1].
    rewrite (IH Hot its Rt ct rt Mt Mt' Tt a1). reflexivity.
Qed.

Theorem reads_tokens : forall x, syn_ok x = true -> tokens_to x.
Proof.
  induction x as [s|nm|s|t d|nm atts kids IHk] using anode_ind2; intros Hok items Hr r0 r' Hm Hm' Ht acc; cbn [syn_ok] in Hok; cbn [to_x] in Hm.
  - destruct Hr as [Htl Hch]. rewrite canon_text_expand in Hm. injection Hm as <-. rewrite (text_tokens f' en Hstd l' items Htl r' acc Hm'), Hch.
    now rewrite canon_text_tokens.
  - cbn [reads] in Hr. subst items. rewrite Hm in Hm'. injection Hm' as <-. symmetry. apply items_tokens_ext.
  - cbn [reads] in Hr. subst items. rewrite Hm in Hm'. injection Hm' as <-. symmetry. apply items_tokens_ext.
  - cbn [reads] in Hr. subst items. rewrite Hm in Hm'. injection Hm' as <-. symmetry. apply items_tokens_ext.
  - apply andb_true_iff in Hok. destruct Hok as [Hok _]. apply andb_true_iff in Hok. destruct Hok as [Hok Hkids].
    apply reads_elem in Hr. destruct Hr as (parsed & et & kitems & -> & Hrd & Het & Rk).
    fold (canon_atts atts) in Hm.
    apply V.mapM_cons_inv in Hm. destruct Hm as (y & ys & Ey & Eys & ->). cbn [mapM] in Eys. injection Eys as <-.
    rewrite expand_elem_g in Ey. destruct (mapM (expand f en []) (flat_map to_x kids)) as [e|ck] eqn:Ek; [discriminate|]. injection Ey as <-.
    apply V.mapM_cons_inv in Hm'. destruct Hm' as (y' & ys' & Ey' & Eys' & ->). cbn [mapM] in Eys'. injection Eys' as <-.
    rewrite expand_elem_g in Ey'. destruct (mapM (expand f en []) kitems) as [e|rk] eqn:Ek'; [discriminate|]. injection Ey' as <-.
    apply V.allc_cons_inv in Ht. destruct Ht as [Ht _]. apply tree_ok_elem_g in Ht. destruct Ht as (_ & Hnd & _ & Tk).
    assert (HND : NoDup (map fst atts)).
    { apply nodup_names_NoDup. unfold canon_atts in Hnd. rewrite map_map in Hnd. exact Hnd. }
    cbn [items_tokens]. rewrite !item_tokens_elem. rewrite (attr_tokens_read f' en Hstd l l' Hl nm atts parsed Hrd HND).
    rewrite (kids_tokens kids IHk Hkids kitems Rk ck rk Ek Ek' Tk []). reflexivity.
Qed.
End TokTree2.

(** ** the tokens of the document type declaration *)
Definition R2 (d0 d' : decl) : Prop :=
  d' = d0 \/ (exists nm v0 v', d0 = DEntity nm (EdValue v0) /\ d' = DEntity nm (EdValue v')) \/ (exists el a b, d0 = DAttlist el a /\ d' = DAttlist el b).

Lemma R2_read l l' : Forall2 decl_read l l' -> Forall2 R2 (map to_decl l) l'.
Proof.
  induction 1 as [|d d' l l' Hd _ IH]; [constructor|]. cbn [map]. constructor; [|exact IH].
  destruct d as [nm v|nm pub sys nd|nm pub sys|el defs|nm spec|s|t x]; cbn [decl_read] in Hd; try (subst d'; left; reflexivity).
  - destruct Hd as (q & c & p & i & Hq & ->). right. left. cbn [to_decl]. eauto.
  - destruct Hd as (dl & HF & ->). right. right. cbn [to_decl]. eauto.
Qed.

Lemma flat_map_R2 {B} (g : decl -> list B) a b : (forall d0 d', R2 d0 d' -> g d0 = g d') -> Forall2 R2 a b -> flat_map g a = flat_map g b.
Proof. intros Hg. induction 1 as [|x y a b Hxy _ IH]; [reflexivity|]. cbn [flat_map]. now rewrite (Hg x y Hxy), IH. Qed.

Lemma filter_R2 (p : decl -> bool) a b : (forall d0 d', R2 d0 d' -> p d0 = p d') -> Forall2 R2 a b -> Forall2 R2 (filter p a) (filter p b).
Proof.
  intros Hp. induction 1 as [|x y a b Hxy _ IH]; [constructor|]. cbn [filter]. rewrite <- (Hp x y Hxy). destruct (p x); [constructor; assumption|exact IH].
Qed.

Lemma first_by_R2 (key : decl -> str) : (forall d0 d', R2 d0 d' -> key d0 = key d') -> forall a b, Forall2 R2 a b ->
  forall seen, Forall2 R2 (first_by key seen a) (first_by key seen b).
Proof.
  intros Hk a b. induction 1 as [|x y a b Hxy _ IH]; intros seen; [constructor|]. cbn [first_by]. rewrite <- (Hk x y Hxy).
  destruct (mem (key x) seen); [apply IH|constructor; [exact Hxy|apply IH]].
Qed.

Ltac r2 H := destruct H as [->|[(? & ? & ? & -> & ->)|(? & ? & ? & -> & ->)]]; reflexivity.

Lemma doctype_tokens_read l l' nm id : Forall2 decl_read l l' ->
  doctype_tokens {| dt_name := nm; dt_extid := id; dt_subset := l' |} = doctype_tokens {| dt_name := nm; dt_extid := id; dt_subset := map to_decl l |}.
Proof.
  intros Hl. pose proof (R2_read l l' Hl) as HR. unfold doctype_tokens. cbv zeta. cbn [dt_subset dt_name dt_extid]. f_equal.
  f_equal; [f_equal; f_equal; symmetry; apply flat_map_R2; [intros d0 d' H; r2 H|exact HR]|].
  f_equal; [f_equal; f_equal; symmetry; apply flat_map_R2; [intros d0 d' H; r2 H|]|].
  - apply first_by_R2; [intros d0 d' H; r2 H|]. apply filter_R2; [intros d0 d' H; r2 H|exact HR].
  - f_equal. symmetry. apply flat_map_R2; [intros d0 d' H; r2 H|exact HR].
Qed.

Lemma eol_nocr (s : str) : contains c_cr s = false -> eol s = s.
Proof.
  induction s as [|c s IH]; [reflexivity|]. unfold contains in *. cbn [existsb eol]. intros H. apply orb_false_iff in H. destruct H as [H1 H2].
  rewrite N.eqb_sym in H1. rewrite H1. now rewrite (IH H2).
Qed.

(** ** the information set of the rendering, with a document type declaration *)
Theorem render_infoset_dtd (d : adoc) (c : choices) dt : valid d = true -> a_doctype d = Some dt ->
  no_predef_decl (opt_list (ad_subset dt)) = true ->
  exists xd' root', parse_document (render d c) = Some xd' /\ unsupported xd' = false /\ check_doc xd' = inr root' /\
    doc_tokens xd' root' = denote d.
Proof.
  intros Hv Hdt Hnp. unfold valid in Hv. apply andb_true_iff in Hv. destruct Hv as [Hs Hv]. unfold denote.
  destruct (check_doc (to_xdoc d)) as [r|root0] eqn:Ec; [discriminate|]. apply andb_true_iff in Hv. destruct Hv as [_ Hv].
  destruct (ns_doc (to_xdoc d) root0) as [r|] eqn:En; [discriminate|]. clear Hv.
  destruct (render_parse_dtd d c dt Hs Hdt) as (item & l' & Hrd & Hl' & Hq).
  pose proof (XmlWFSyntaxConvDtdDoc.q_parse_document_spec _ _ Hq) as Hp.
  destruct d as [ver enc sa m1 dt0 m2 root m3]. cbn [a_doctype a_root a_misc1 a_misc2 a_misc3] in *. subst dt0.
  pose proof Hs as Hs'. unfold shape_ok in Hs'. cbn [a_version a_encoding a_standalone a_misc1 a_misc2 a_misc3 a_root a_doctype] in Hs'.
  apply andb_true_iff in Hs'. destruct Hs' as [Hs' Hdtok]. apply andb_true_iff in Hs'. destruct Hs' as [_ Hroot].
  destruct root as [s|nm|s|t0 d0|nm atts kids]; try discriminate Hroot.
  pose proof (node_ok_syn _ Hroot) as Hsyn.
  assert (Hdecls : forallb Infoset.decl_ok (opt_list (ad_subset dt)) = true).
  { do 2 (apply andb_true_iff in Hdtok; destruct Hdtok as [Hdtok _]). apply andb_true_iff in Hdtok. tauto. }
  set (l := opt_list (ad_subset dt)) in *.
  set (xd0 := to_xdoc {| a_version := ver; a_encoding := enc; a_standalone := sa; a_misc1 := m1; a_doctype := Some dt; a_misc2 := m2; a_root := AElem nm atts kids; a_misc3 := m3 |}) in *.
  match type of Hp with _ = Some ?x => set (xd' := x) in * end.
  assert (Eenv : doc_env xd' = doc_env xd0).
  { unfold doc_env, xd', xd0. cbn [to_xdoc x_doctype x_decl dt_subset dt_extid a_doctype a_version a_standalone]. fold l. rewrite (entities_read l l' Hl'). reflexivity. }
  assert (Efuel : ent_fuel xd' = ent_fuel xd0) by (unfold ent_fuel; now rewrite Eenv).
  assert (Esub0 : match x_doctype xd0 with Some dt1 => dt_subset dt1 | None => [] end = map to_decl l) by reflexivity.
  assert (Esub' : match x_doctype xd' with Some dt1 => dt_subset dt1 | None => [] end = l') by reflexivity.
  set (en := doc_env xd0) in *.
  assert (Een : en = {| e_ents := with_predefined (entities_of (map to_decl l)); e_must_declare := e_must_declare en |}) by reflexivity.
  assert (Hstd : std_predef en) by (rewrite Een; apply std_of_clean; apply entities_clean; exact Hnp).
  assert (Hf : exists f', ent_fuel xd0 = S (S f')).
  { unfold ent_fuel. fold en. rewrite Een. cbn [e_ents]. unfold with_predefined. rewrite app_length, map_length. cbn [predefined length].
    exists (length (entities_of (map to_decl l)) + 4). lia. }
  destruct Hf as [f' Hf].
  unfold check_doc in Ec. cbv zeta in Ec. rewrite Esub0 in Ec. fold en in Ec. rewrite Hf in Ec.
  destruct (subset_ok (S (S f')) (e_must_declare en) [] (map to_decl l)) as [r|] eqn:Esok; [discriminate|].
  change (x_root xd0) with (XElem nm (canon_atts atts) (Some nm) (flat_map to_x kids)) in Ec.
  set (rootc := XElem nm (canon_atts atts) (Some nm) (flat_map to_x kids)) in *.
  destruct (expand (S (S f')) en [] rootc) as [r|root0'] eqn:Eexp; [discriminate|]. destruct (tree_ok (S (S f')) en root0') eqn:Etree; [discriminate|].
  injection Ec as <-.
  unfold ns_doc in En. cbv zeta in En. rewrite Esub0 in En. fold en in En. rewrite Hf in En.
  apply V.andc_none in En. destruct En as [_ En]. apply V.andc_none in En. destruct En as [_ En]. apply V.andc_none in En. destruct En as [_ Nroot].
  pose proof (defaulted_read f' en Hstd l l') as Hdef.
  assert (Hm0 : mapM (expand (S (S f')) en []) (to_x (AElem nm atts kids)) = inr [root0']).
  { cbn [to_x mapM]. fold (canon_atts atts). fold rootc. rewrite Eexp. reflexivity. }
  assert (Ht0 : allc (tree_ok (S (S f')) en) [root0'] = None) by (apply C.allc_cons; [exact Etree|reflexivity]).
  destruct (reads_checks_g f' en Hstd (map to_decl l) l' (fun el a1 a2 => Hdef el a1 a2 Hl') (AElem nm atts kids) Hsyn [item] Hrd [root0'] Hm0 Ht0)
    with (s0 := @nil (str * str)) (s' := @nil (str * str)) as (r' & E' & T' & _).
  { intros p. reflexivity. }
  { apply C.allc_cons; [exact Nroot|reflexivity]. }
  pose proof (reads_tokens f' en Hstd l l' Hl' (AElem nm atts kids) Hsyn [item] Hrd [root0'] r' Hm0 E' Ht0 []) as Htok.
  apply V.mapM_cons_inv in E'. destruct E' as (root' & ys & Er & Eys & ->). cbn [mapM] in Eys. injection Eys as <-.
  apply V.allc_cons_inv in T'. destruct T' as [T' _].
  exists xd', root'. split; [exact Hp|]. split.
  { unfold unsupported. change (x_doctype xd') with (Some {| dt_name := ad_name dt; dt_extid := extid_of (ad_pub dt) (ad_sys dt); dt_subset := l' |}).
    cbn [dt_subset]. exact (no_peref_read l l' Hl'). }
  split.
  { unfold check_doc. cbv zeta. rewrite Esub', Efuel, Eenv. fold en. rewrite Hf.
    rewrite (subset_ok_read f' (e_must_declare en) l l' Hl' Hdecls Hnp [] ltac:(intros x []) Esok).
    change (x_root xd') with item. rewrite Er, T'. reflexivity. }
  unfold doc_tokens. cbv zeta. rewrite Esub', Esub0, Efuel, Eenv. fold en. rewrite Hf.
  change (x_decl xd') with (x_decl xd0). change (x_misc1 xd') with (x_misc1 xd0). change (x_misc2 xd') with (x_misc2 xd0). change (x_misc3 xd') with (x_misc3 xd0).
  change (x_doctype xd') with (Some {| dt_name := ad_name dt; dt_extid := extid_of (ad_pub dt) (ad_sys dt); dt_subset := l' |}).
  change (x_doctype xd0) with (Some {| dt_name := ad_name dt; dt_extid := extid_of (ad_pub dt) (ad_sys dt); dt_subset := map to_decl l |}).
  cbv beta iota. rewrite (doctype_tokens_read l l' _ _ Hl').
  cbn [items_tokens] in Htok. destruct (item_tokens (S (S f')) en l' root' []) as [o1 a1]. destruct (item_tokens (S (S f')) en (map to_decl l) root0' []) as [o2 a2].
  injection Htok as Ho _. rewrite !app_nil_r in Ho. cbn [fst]. now rewrite Ho.
Qed.

(** ** the information set of the rendering, without a document type declaration *)
Theorem render_infoset_nodoctype (d : adoc) (c : choices) : valid d = true -> a_doctype d = None ->
  exists xd' root', parse_document (render d c) = Some xd' /\ unsupported xd' = false /\ check_doc xd' = inr root' /\
    doc_tokens xd' root' = denote d.
Proof.
  intros Hv Hdt. unfold valid in Hv. apply andb_true_iff in Hv. destruct Hv as [Hs Hv]. unfold denote.
  destruct (check_doc (to_xdoc d)) as [r|root0] eqn:Ec; [discriminate|]. apply andb_true_iff in Hv. destruct Hv as [_ Hv].
  destruct (ns_doc (to_xdoc d) root0) as [r|] eqn:En; [discriminate|]. clear Hv.
  destruct (render_parse_nodoctype d c Hs Hdt) as (item & Hrd & Hp).
  destruct d as [ver enc sa m1 dt m2 root m3]. cbn [a_doctype a_root a_misc1 a_misc3] in *. subst dt.
  pose proof Hs as Hs'. unfold shape_ok in Hs'. cbn [a_version a_encoding a_standalone a_misc1 a_misc2 a_misc3 a_root a_doctype] in Hs'.
  apply andb_true_iff in Hs'. destruct Hs' as [Hs' Hm2]. apply andb_true_iff in Hs'. destruct Hs' as [_ Hroot].
  destruct m2 as [|? ?]; [|discriminate Hm2]. destruct root as [s|nm|s|t0 d0|nm atts kids]; try discriminate Hroot.
  pose proof (node_ok_syn _ Hroot) as Hsyn.
  unfold check_doc in Ec. unfold ns_doc in En. cbv zeta in Ec, En.
  cbn [to_xdoc x_doctype x_root x_misc1 x_misc2 x_misc3 a_doctype a_root a_misc1 a_misc2 a_misc3 subset_ok to_x flat_map] in Ec, En.
  change (doc_env _) with en0 in Ec, En. change (ent_fuel _) with 6 in Ec, En.
  fold (canon_atts atts) in Ec.
  set (rootc := XElem nm (canon_atts atts) (Some nm) (flat_map to_x kids)) in *.
  destruct (expand 6 en0 [] rootc) as [r|root0'] eqn:Eexp; [discriminate|]. destruct (tree_ok 6 en0 root0') eqn:Etree; [discriminate|].
  injection Ec as <-.
  apply V.andc_none in En. destruct En as [_ En]. apply V.andc_none in En. destruct En as [_ En]. apply V.andc_none in En. destruct En as [_ Nroot].
  assert (Hm0 : mapM (expand 6 en0 []) (to_x (AElem nm atts kids)) = inr [root0']).
  { cbn [to_x mapM]. fold (canon_atts atts). fold rootc. rewrite Eexp. reflexivity. }
  assert (Ht0 : allc (tree_ok 6 en0) [root0'] = None) by (apply C.allc_cons; [exact Etree|reflexivity]).
  destruct (reads_checks _ Hsyn [item] Hrd [root0'] Hm0 Ht0) with (s0 := @nil (str * str)) (s' := @nil (str * str)) as (r' & E' & T' & _).
  { intros p. reflexivity. }
  { apply C.allc_cons; [exact Nroot|reflexivity]. }
  pose proof (reads_tokens 4 en0 std_predef_en0 [] [] (Forall2_nil _) (AElem nm atts kids) Hsyn [item] Hrd [root0'] r' Hm0 E' Ht0 []) as Htok.
  apply V.mapM_cons_inv in E'. destruct E' as (root' & ys & Er & Eys & ->). cbn [mapM] in Eys. injection Eys as <-.
  apply V.allc_cons_inv in T'. destruct T' as [T' _].
  cbn [to_xdoc x_decl a_version a_encoding a_standalone] in Hp.
  eexists _, root'. split; [exact Hp|]. split; [reflexivity|]. split.
  { unfold check_doc. cbv zeta. cbn [x_doctype x_root subset_ok]. change (doc_env _) with en0. change (ent_fuel _) with 6. rewrite Er, T'. reflexivity. }
  unfold doc_tokens. cbv zeta. cbn [to_xdoc x_decl x_misc1 x_misc2 x_misc3 x_doctype a_doctype a_version a_encoding a_standalone a_misc1 a_misc2 a_misc3 flat_map app].
  change (doc_env _) with en0. change (ent_fuel _) with 6.
  cbn [items_tokens map] in Htok. destruct (item_tokens 6 en0 [] root' []) as [o1 a1]. destruct (item_tokens 6 en0 [] root0' []) as [o2 a2].
  injection Htok as Ho _. rewrite !app_nil_r in Ho. cbn [fst]. now rewrite Ho.
Qed.

(** ** [infoset_of_string] of a rendering without carriage returns *)
Theorem infoset_of_rendering (d : adoc) (c : choices) : valid d = true ->
  match a_doctype d with Some dt => no_predef_decl (opt_list (ad_subset dt)) | None => true end = true ->
  contains c_cr (render d c) = false ->
  infoset_of_string (render d c) = Some (denote d).
Proof.
  intros Hv Hn Hcr. unfold infoset_of_string. rewrite (eol_nocr _ Hcr).
  assert (H : exists xd' root', parse_document (render d c) = Some xd' /\ unsupported xd' = false /\ check_doc xd' = inr root' /\ doc_tokens xd' root' = denote d).
  { destruct (a_doctype d) as [dt|] eqn:Hdt; [exact (render_infoset_dtd d c dt Hv Hdt Hn)|exact (render_infoset_nodoctype d c Hv Hdt)]. }
  destruct H as (xd' & root' & Hp & Hu & Hc & Ht). rewrite Hp. cbn [bind]. rewrite Hu, Hc, Ht. reflexivity.
Qed.
