(** * C04, converse direction, complete: every document the pipeline accepts is [printable].

    [accepted_printable : from_raw s = OOk (r, d) -> printable d], from the inversions of
    Proofs/ParseInv*.v (what the parser returns) and the preservation lemmas of
    Proofs/ParseInvBuild*.v (what XmlDocument::new makes of it).  With
    [print_parse_printable] (Proofs/DisplayFull.v) this gives the round trip for EVERY accepted
    input: [print_parse_full]. *)
From Coq Require Import List NArith Arith Lia Bool.
From XmlRs Require Import Base.CPred Model.Peg Gen.XmlcharGen Gen.GrammarXmlGen Model.ParseActions Model.Info Model.Display
     Proofs.PegTermination Proofs.PegLemmas Proofs.PegInv Proofs.Expansion
     Proofs.DisplayLex Proofs.ActionLemmas Proofs.DisplayElem Proofs.DisplayDoc Proofs.DisplayDtd Proofs.DisplayEq Proofs.DisplayFull
     Proofs.ParseInv Proofs.ParseInvElem Proofs.ParseInvBuild Proofs.ParseInvDtd Proofs.ParseInvBuildDtd.
Import ListNotations.
Local Open Scope N_scope.

(** ** Misc *)
Definition p_misc_ok (m : misc) : Prop :=
  match m with MiComment c => comment_ok c | MiPI p => pi_ok p | MiWhitespace _ => True end.

Lemma inv_misc s t r : S (NT nt_misc) s t r -> exists m, eval_tree t = VMisc m /\ p_misc_ok m.
Proof.
  intros H. inv_nt H body_misc. repeat inv_alt; invs.
  - match goal with H : succ _ (NT nt_comment) _ _ _ |- _ => apply inv_comment in H; destruct H as [c [Ec Hc]] end.
    exists (MiComment c). split; [cbn [eval_tree]; rewrite Ec; reflexivity|exact Hc].
  - match goal with H : succ _ (NT nt_pi) _ _ _ |- _ => apply inv_pi in H; destruct H as [p [Ep Hp]] end.
    exists (MiPI p). split; [cbn [eval_tree]; rewrite Ep; reflexivity|exact Hp].
  - eexists (MiWhitespace _). split; [reflexivity|exact I].
Qed.

Lemma inv_miscs s ts r : SM (NT nt_misc) s ts r -> exists l, map eval_tree ts = map VMisc l /\ Forall p_misc_ok l.
Proof.
  intros H. remember (NT nt_misc) as e eqn:Ee. induction H as [e s|e s t r1 ts r Hs Hlt Hm IH]; subst e.
  - exists []. split; [reflexivity|constructor].
  - destruct (IH eq_refl) as [l [El Hl]]. apply inv_misc in Hs. destruct Hs as [m [Em Hm']].
    exists (m :: l). split; [cbn [map]; rewrite Em, El; reflexivity|constructor; assumption].
Qed.

Lemma misc_items_wf (l : list misc) : Forall p_misc_ok l -> Forall misc_wf (misc_items l).
Proof.
  induction 1 as [|m l Hm _ IH]; [constructor|]. unfold misc_items. cbn [flat_map]. fold (misc_items l).
  destruct m; cbn [p_misc_ok] in Hm; cbn [app]; [constructor; assumption|constructor; assumption|exact IH].
Qed.

(** ** the XML declaration *)
Lemma inv_version_info s t r : S (NT nt_version_info) s t r -> exists v : str, t = TStr v /\ version_ok v.
Proof.
  intros H. inv_nt H body_version_info. invs. inv_alt; invs;
    match goal with H : succ _ (NT nt_version_num) _ _ _ |- _ => inv_nt H body_version_num end; invs;
    match goal with H : ?c ++ ?r = ?x ++ ?y ++ ?r |- _ => assert (c = x ++ y) as Hc' by (apply (app_inv_tail r); rewrite <- app_assoc; exact H); subst c end;
    (eexists; split; [reflexivity|]; eexists; split; [reflexivity|split; assumption]).
Qed.

Lemma inv_encoding_decl s t r : S (NT nt_encoding_decl) s t r -> exists e : str, t = TStr e /\ enc_ok e.
Proof.
  intros H. inv_nt H body_encoding_decl. invs. inv_alt; invs;
    match goal with H : succ _ (NT nt_enc_name) _ _ _ |- _ => inv_nt H body_enc_name end; invs;
    match goal with H : ?c ++ ?r = ?x ++ ?y ++ ?r |- _ => assert (c = x ++ y) as Hc' by (apply (app_inv_tail r); rewrite <- app_assoc; exact H); subst c end;
    (eexists; split; [reflexivity|]);
    match goal with H : ?a <> [] |- enc_ok (?a ++ ?b) => destruct a as [|c0 a']; [contradiction|] end;
    cbn [app enc_ok];
    match goal with H : forallb (eval alpha) (_ :: _) = true |- _ => cbn [forallb] in H; apply andb_prop in H; destruct H as [Hc Ha] end;
    (split; [exact Hc|]); rewrite forallb_app; apply andb_true_intro; (split; [|assumption]);
    rewrite forallb_forall in *; intros x Hx; apply alpha_enc; apply Ha; exact Hx.
Qed.

Lemma inv_sd_decl s t r : S (NT nt_sd_decl) s t r -> exists b, eval_tree t = VBool b.
Proof.
  intros H. inv_nt H body_sd_decl. invs. repeat inv_alt; invs; (eexists; reflexivity).
Qed.

Definition p_decl_xml_ok (x : decl_xml) : Prop :=
  version_ok (dx_version x) /\ match dx_encoding x with Some e => enc_ok e | None => True end.

Lemma inv_xml_decl s t r : S (NT nt_xml_decl) s t r -> exists x, eval_tree t = VDeclXml x /\ p_decl_xml_ok x.
Proof.
  intros H. inv_nt H body_xml_decl. invs;
    match goal with H : succ _ (NT nt_version_info) _ _ _ |- _ => apply inv_version_info in H; destruct H as [v [-> Hv]] end;
    try match goal with H : succ _ (NT nt_encoding_decl) _ _ _ |- _ => apply inv_encoding_decl in H; destruct H as [en [-> Hen]] end;
    try match goal with H : succ _ (NT nt_sd_decl) _ _ _ |- _ => apply inv_sd_decl in H; destruct H as [b Eb] end;
    cbn [eval_tree]; try rewrite Eb;
    (eexists; split; [reflexivity|]; split; cbn [dx_version dx_encoding]; first [assumption|exact I]).
Qed.

(** ** prolog and document (conditional form, because of the document type declaration) *)
Definition p_prolog_ok (p : prolog) : Prop :=
  match pr_declaration_xml p with Some x => p_decl_xml_ok x | None => True end
  /\ Forall p_misc_ok (pr_heads p)
  /\ match pr_declaration_doc p with Some dd => p_decl_doc_ok dd | None => pr_tails p = [] end
  /\ Forall p_misc_ok (pr_tails p).

Lemma al_prolog_gen x hs t : apply_label L_model_Prolog_from (VPair x (VPair hs t)) =
  match as_opt as_decl_xml x, as_list as_misc hs, as_opt as_doc_tail t with
  | Some x', Some hs', Some t' =>
    VProlog (Prolog x' hs' (match t' with Some (d, _) => Some d | None => None end) (match t' with Some (_, ms) => ms | None => [] end))
  | _, _, _ => VBad
  end.
Proof. reflexivity. Qed.

Lemma inv_prolog s t r : S (NT nt_prolog) s t r -> forall p, eval_tree t = VProlog p -> p_prolog_ok p.
Proof.
  intros H p Hp. inv_nt H body_prolog. invs;
    try match goal with H : succ _ (NT nt_xml_decl) _ _ _ |- _ => apply inv_xml_decl in H; destruct H as [x [Ex Hx]] end;
    repeat match goal with H : succ_many _ (NT nt_misc) _ _ _ |- _ => apply inv_miscs in H; destruct H as [? [? ?]] end;
    cbn [eval_tree] in Hp; try rewrite Ex in Hp; rewrite al_prolog_gen in Hp;
    repeat match goal with E : map eval_tree _ = map VMisc _ |- _ => rewrite E in Hp; clear E end;
    cbn [as_opt as_decl_xml as_doc_tail] in Hp; rewrite ?as_list_map in Hp by reflexivity.
  all: try match type of Hp with context [eval_tree ?td] => destruct (eval_tree td) eqn:Etd; try discriminate Hp end.
  all: rewrite ?as_list_map in Hp by reflexivity; injection Hp as <-;
    unfold p_prolog_ok; cbn [pr_declaration_xml pr_heads pr_declaration_doc pr_tails];
    (split; [first [exact Hx|exact I]|split; [assumption|split; [first [eapply inv_doctype_decl; eassumption|reflexivity]|first [assumption|constructor]]]]).
Qed.

Definition p_doc_ok (pd : pdoc) : Prop :=
  p_prolog_ok (d_prolog pd) /\ p_element_ok (d_element pd) /\ Forall p_misc_ok (d_miscs pd).

Lemma inv_document s t r : S (NT nt_document) s t r -> forall pd, eval_tree t = VDocument pd -> p_doc_ok pd.
Proof.
  intros H pd Hd. inv_nt H body_document. invs.
  match goal with H : succ _ (NT nt_element) ?s0 _ _ |- _ => destruct (inv_element (length s0) s0 _ _ (le_n _) H) as [e [Ee He]] end.
  match goal with H : succ_many _ (NT nt_misc) _ _ _ |- _ => apply inv_miscs in H; destruct H as [ms [Ems Hms]] end.
  cbn [eval_tree] in Hd. rewrite Ee, Ems in Hd.
  match type of Hd with context [eval_tree ?tp] => destruct (eval_tree tp) eqn:Etp; try discriminate Hd end.
  rewrite al_document in Hd. injection Hd as <-. unfold p_doc_ok. cbn [d_prolog d_element d_miscs].
  split; [eapply inv_prolog; eassumption|split; assumption].
Qed.

(** ** what XmlDocument::new makes of it *)
Theorem document_built pd d : p_doc_ok pd -> build_document pd = IOk d -> printable d.
Proof.
  intros [[Hx [Hh [Hdd Ht]]] [He Hm]] H. unfold build_document, build_document_gen in H.
  apply ibind_ok in H. destruct H as [dt [Hdt H]]. apply ibind_ok in H. destruct H as [el [Hel H]]. injection H as <-.
  destruct (element_built _ _ _ el He Hel) as [Hroot Hwf].
  exists (Parts (misc_items (pr_heads (d_prolog pd))) dt (misc_items (pr_tails (d_prolog pd))) el (misc_items (d_miscs pd))).
  cbn [doc_children doc_encoding doc_standalone doc_version dp_pre dp_dt dp_mid dp_root dp_post].
  assert (dt = None -> pr_tails (d_prolog pd) = []) as Htails.
  { intros ->. destruct (pr_declaration_doc (d_prolog pd)) as [dd|]; [|exact Hdd].
    apply ibind_ok in Hdt. destruct Hdt as [x [_ Hdt]]. discriminate. }
  split; [|split; [|split; [|split; [|split; [|split; [|split; [|split]]]]]]].
  - unfold parts_children. cbn [dp_pre dp_dt dp_mid dp_root dp_post]. destruct dt as [x|].
    + cbn [app]. reflexivity.
    + rewrite (Htails eq_refl). reflexivity.
  - intros E. rewrite (Htails E). reflexivity.
  - apply misc_items_wf. exact Hh.
  - apply misc_items_wf. exact Ht.
  - apply misc_items_wf. exact Hm.
  - exact Hroot.
  - exact Hwf.
  - destruct (pr_declaration_xml (d_prolog pd)) as [x|]; [|split; reflexivity].
    destruct Hx as [Hv Hen]. split; [exact Hv|]. destruct (dx_encoding x); [right; exact Hen|left; reflexivity].
  - intros x ->. destruct (pr_declaration_doc (d_prolog pd)) as [dd|]; [|discriminate].
    apply ibind_ok in Hdt. destruct Hdt as [x' [Hb Hdt]]. injection Hdt as <-. eapply doctype_built; eassumption.
Qed.

Theorem accepted_printable (s r : str) (d : document) : from_raw s = OOk (r, d) -> printable d.
Proof.
  unfold from_raw, from_raw_gen. destruct (parse_document s) as [[pd rest]| | |] eqn:Ep; try discriminate.
  destruct (build_document_gen false pd) as [x| | |] eqn:Eb; try discriminate. intros H. injection H as <- <-.
  unfold parse_document, parse_with in Ep. destruct (run G_xml G_xml_R nt_document s) as [[t rest']| |] eqn:Er; try discriminate.
  destruct (eval_tree t) eqn:Et; try discriminate. injection Ep as <- <-.
  apply run_succ in Er. eapply document_built; [|exact Eb]. eapply inv_document; eassumption.
Qed.

(** ** C04 for every accepted input *)
Theorem print_parse_full (s : str) (d : document) : from_raw s = OOk ([], d) ->
  exists d', from_raw (display d) = OOk ([], d') /\ doc_eq d' d /\ display d' = display d.
Proof.
  intros H. exists d. split; [|split; reflexivity]. apply print_parse_printable. eapply accepted_printable. exact H.
Qed.
