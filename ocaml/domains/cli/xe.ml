(* cli model: `<doc dump> | <frag dump> | <kinds>` -> done:<dump> | refused | unmodelled *)
let () = register_line "xe" (fun line ->
  match String.split_on_char '|' line with
  | [d; f; kinds] ->
    (try
       let (doc, sel) = doc_of (parse_sx (String.trim d)) in
       let frag = frag_of (parse_sx (String.trim f)) in
       let sel = if String.contains kinds 'o' then (O, KOther) :: sel else sel in
       (match xe_model doc sel frag with
        | Done d' -> "done:" ^ show_doc d'
        | Refused -> "refused"
        | Unmodelled -> "unmodelled")
     with Failure m -> "badinput:" ^ m)
  | _ -> "badinput")
