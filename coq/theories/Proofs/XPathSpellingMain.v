(** * [query_model] and the evaluation half of C08.

    [query_model doc bind s] is xpath/src/lib.rs [query]: parse with the parser model
    ([ParseActionsXPath.parse_expr]), refuse unconsumed input, evaluate with the evaluator model
    ([XPathEval.query]) from the document node in a fresh context carrying the bindings [bind].

    [spelling_irrelevant_ok_proof]: see Properties/C08.v. *)
From Coq Require Import List NArith Bool.
From XmlRs Require Import Base.CPred Spec.XPathSyntax.
From XmlRs Require Import Model.XPathAst Model.XDoc Model.XPathEval Model.XPathAstAbs Model.ParseActionsXPath.
From XmlRs Require Import Proofs.XPathParseMain Proofs.XPathCanon Proofs.XPathAstShaped Proofs.XPathParseShaped
  Proofs.XPathAbsEval Proofs.XPathAbsInv Proofs.XPathSpelling Proofs.XPathSpellingOrd Proofs.XPathSpellingLight.
Import ListNotations.

Inductive qresult :=
| QValue (v : xvalue)            (* Ok(value) *)
| QError (e : xerr)              (* Err(..) of the evaluator *)
| QPanic                         (* the evaluator panics *)
| QOutOfFuel                     (* a navigation loop of the evaluator does not end *)
| QExprSyntax                    (* Err(ExprSyntax) *)
| QExprRemain (rest : str)       (* Err(ExprRemain) *)
| QParserPanic | QParserOof | QParserBad.   (* impossible: Properties/C08.v parse_expr_never_panics *)

Definition ctx_of (bind : list (option str * str)) : ctx := mk_ctx [] [] bind.

Definition query_model (doc : xdoc) (bind : list (option str * str)) (s : str) : qresult :=
  match parse_expr s with
  | POk e [] =>
      match fst (query doc e (ctx_of bind)) with
      | Ok v => QValue v
      | Err e => QError e
      | Panic => QPanic
      | OutOfFuel => QOutOfFuel
      end
  | POk e (c :: r) => QExprRemain (c :: r)
  | PErr => QExprSyntax
  | PPanic => QParserPanic
  | POof => QParserOof
  | PBad => QParserBad
  end.

(** a spelled tree evaluates as [xeval] of the tree *)
Lemma query_model_spelled doc bind (a : xexpr) (w : wtree) :
  wfb a = true -> no_fname_case a = true -> ws_ok w = true ->
  query_model doc bind (spell_surface a w) =
  match fst (xeval doc a doc_root (ctx_of bind)) with
  | Ok v => QValue v
  | Err e => QError e
  | Panic => QPanic
  | OutOfFuel => QOutOfFuel
  end.
Proof.
  intros Hwf Hn Hw. destruct (parse_spell_surface_all a w Hwf Hn Hw) as [e [Hp Ha]].
  unfold query_model. rewrite Hp. unfold query. rewrite (eval_abs doc e doc_root (ctx_of bind) (parse_shaped _ _ _ Hp)).
  rewrite Ha. reflexivity.
Qed.

Lemma query_model_value doc bind (a : xexpr) (w : wtree) v :
  wfb a = true -> no_fname_case a = true -> ws_ok w = true ->
  (query_model doc bind (spell_surface a w) = QValue v <-> exists c', xeval doc a doc_root (ctx_of bind) = (Ok v, c')).
Proof.
  intros Hwf Hn Hw. rewrite (query_model_spelled doc bind a w Hwf Hn Hw).
  destruct (xeval doc a doc_root (ctx_of bind)) as [[v'|e| |] c1]; cbn [fst]; split; try discriminate.
  - intros H. injection H as ->. eauto.
  - intros [c' H]. injection H as -> _. reflexivity.
  - intros [c' H]. discriminate.
  - intros [c' H]. discriminate.
  - intros [c' H]. discriminate.
Qed.

(** two spellings of one tree: the same value, or no value from either *)
Theorem spelling_irrelevant_ok_proof : forall doc bind a sp1 sp2,
  ok_spelling a sp1 -> ok_spelling a sp2 ->
  no_fname_case (surface sp1) = true -> no_fname_case (surface sp2) = true ->
  DocInv doc -> xnons a = true ->
  forall v, query_model doc bind (spell a sp1) = QValue v <-> query_model doc bind (spell a sp2) = QValue v.
Proof.
  intros doc bind a sp1 sp2 (W1 & E1 & S1) (W2 & E2 & S2) N1 N2 Hinv Hx v. unfold spell.
  rewrite (query_model_value doc bind _ _ v W1 N1 S1), (query_model_value doc bind _ _ v W2 N2 S2).
  assert (X1 : xnons (surface sp1) = true) by (rewrite <- xnons_norm, E1, xnons_norm; exact Hx).
  assert (X2 : xnons (surface sp2) = true) by (rewrite <- xnons_norm, E2, xnons_norm; exact Hx).
  pose proof (xeval_norm doc Hinv bind (surface sp1) X1 doc_root (good_root doc Hinv) (ctx_of bind) eq_refl v) as Q1.
  pose proof (xeval_norm doc Hinv bind (surface sp2) X2 doc_root (good_root doc Hinv) (ctx_of bind) eq_refl v) as Q2.
  unfold xequiv in E1, E2. rewrite E1 in Q1. rewrite E2 in Q2.
  split; intros [c' H]; exists c'; [apply Q2, Q1, H|apply Q1, Q2, H].
Qed.

(** in particular: one spelling is an error (of whatever kind) exactly when the other is *)
Corollary spelling_irrelevant_fails_proof : forall doc bind a sp1 sp2,
  ok_spelling a sp1 -> ok_spelling a sp2 ->
  no_fname_case (surface sp1) = true -> no_fname_case (surface sp2) = true ->
  DocInv doc -> xnons a = true ->
  ((forall v, query_model doc bind (spell a sp1) <> QValue v) <-> (forall v, query_model doc bind (spell a sp2) <> QValue v)).
Proof.
  intros doc bind a sp1 sp2 H1 H2 N1 N2 Hinv Hx.
  split; intros H v E; apply (H v); apply (spelling_irrelevant_ok_proof doc bind a sp1 sp2 H1 H2 N1 N2 Hinv Hx v); exact E.
Qed.

(** ** everything except [//]: equal results, errors included, on every document *)

(** white space between tokens (and the choice of the quote of a literal) is irrelevant: no hypothesis *)
Theorem white_space_irrelevant_proof : forall doc bind (a : xexpr) (w1 w2 : wtree),
  wfb a = true -> no_fname_case a = true -> ws_ok w1 = true -> ws_ok w2 = true ->
  query_model doc bind (spell_surface a w1) = query_model doc bind (spell_surface a w2).
Proof.
  intros doc bind a w1 w2 Hwf Hn H1 H2.
  rewrite (query_model_spelled doc bind a w1 Hwf Hn H1), (query_model_spelled doc bind a w2 Hwf Hn H2). reflexivity.
Qed.

(** parentheses, [@], the omitted axis, [.], [..], [n] against [position() = n], white space *)
Theorem spelling_irrelevant_light_proof : forall doc bind a sp1 sp2,
  ok_spelling a sp1 -> ok_spelling a sp2 ->
  no_fname_case (surface sp1) = true -> no_fname_case (surface sp2) = true ->
  lnorm (surface sp1) = lnorm (surface sp2) ->
  query_model doc bind (spell a sp1) = query_model doc bind (spell a sp2).
Proof.
  intros doc bind a sp1 sp2 (W1 & _ & S1) (W2 & _ & S2) N1 N2 E. unfold spell.
  rewrite (query_model_spelled doc bind _ _ W1 N1 S1), (query_model_spelled doc bind _ _ W2 N2 S2).
  rewrite (xeval_lnorm doc bind (surface sp1) doc_root (ctx_of bind) eq_refl).
  rewrite (xeval_lnorm doc bind (surface sp2) doc_root (ctx_of bind) eq_refl). rewrite E. reflexivity.
Qed.

(** ** the same statements for an arbitrary context, with the context that is left *)
Lemma parsed_spelled doc (a : xexpr) (w : wtree) e c :
  wfb a = true -> no_fname_case a = true -> ws_ok w = true -> parse_expr (spell_surface a w) = POk e [] ->
  query doc e c = xeval doc a doc_root c.
Proof.
  intros Hwf Hn Hw Hp. destruct (parse_spell_surface_all a w Hwf Hn Hw) as [e' [Hp' Ha]].
  rewrite Hp in Hp'. injection Hp' as <-. unfold query. rewrite (eval_abs doc e doc_root c (parse_shaped _ _ _ Hp)), Ha. reflexivity.
Qed.

Theorem spelling_irrelevant_context_proof : forall doc a sp1 sp2 e1 e2 c,
  ok_spelling a sp1 -> ok_spelling a sp2 ->
  no_fname_case (surface sp1) = true -> no_fname_case (surface sp2) = true ->
  parse_expr (spell a sp1) = POk e1 [] -> parse_expr (spell a sp2) = POk e2 [] ->
  DocInv doc -> xnons a = true ->
  forall v c', query doc e1 c = (Ok v, c') <-> query doc e2 c = (Ok v, c').
Proof.
  intros doc a sp1 sp2 e1 e2 c (W1 & E1 & S1) (W2 & E2 & S2) N1 N2 P1 P2 Hinv Hx v c'.
  rewrite (parsed_spelled doc _ _ e1 c W1 N1 S1 P1), (parsed_spelled doc _ _ e2 c W2 N2 S2 P2).
  assert (X1 : xnons (surface sp1) = true) by (rewrite <- xnons_norm, E1, xnons_norm; exact Hx).
  assert (X2 : xnons (surface sp2) = true) by (rewrite <- xnons_norm, E2, xnons_norm; exact Hx).
  pose proof (xeval_norm doc Hinv (c_ns c) (surface sp1) X1 doc_root (good_root doc Hinv) c eq_refl v c') as Q1.
  pose proof (xeval_norm doc Hinv (c_ns c) (surface sp2) X2 doc_root (good_root doc Hinv) c eq_refl v c') as Q2.
  unfold xequiv in E1, E2. rewrite E1 in Q1. rewrite E2 in Q2. rewrite Q1, Q2. reflexivity.
Qed.

Theorem spelling_irrelevant_light_context_proof : forall doc a sp1 sp2 e1 e2 c,
  ok_spelling a sp1 -> ok_spelling a sp2 ->
  no_fname_case (surface sp1) = true -> no_fname_case (surface sp2) = true ->
  parse_expr (spell a sp1) = POk e1 [] -> parse_expr (spell a sp2) = POk e2 [] ->
  lnorm (surface sp1) = lnorm (surface sp2) ->
  query doc e1 c = query doc e2 c.
Proof.
  intros doc a sp1 sp2 e1 e2 c (W1 & _ & S1) (W2 & _ & S2) N1 N2 P1 P2 E.
  rewrite (parsed_spelled doc _ _ e1 c W1 N1 S1 P1), (parsed_spelled doc _ _ e2 c W2 N2 S2 P2).
  rewrite (xeval_lnorm doc (c_ns c) (surface sp1) doc_root c eq_refl).
  rewrite (xeval_lnorm doc (c_ns c) (surface sp2) doc_root c eq_refl). rewrite E. reflexivity.
Qed.

(** ** all equivalences, every axis, documents with nodes of order key 0 *)
Theorem spelling_irrelevant_ord_proof : forall doc bind a sp1 sp2,
  ok_spelling a sp1 -> ok_spelling a sp2 ->
  no_fname_case (surface sp1) = true -> no_fname_case (surface sp2) = true ->
  DocOrd doc ->
  forall v, query_model doc bind (spell a sp1) = QValue v <-> query_model doc bind (spell a sp2) = QValue v.
Proof.
  intros doc bind a sp1 sp2 (W1 & E1 & S1) (W2 & E2 & S2) N1 N2 Hord v. unfold spell.
  rewrite (query_model_value doc bind _ _ v W1 N1 S1), (query_model_value doc bind _ _ v W2 N2 S2).
  pose proof (XPathNav.wf_root doc (ord_wf doc Hord)) as Vr.
  pose proof (xeval_norm_ord doc Hord bind (surface sp1) doc_root Vr (ctx_of bind) eq_refl v) as Q1.
  pose proof (xeval_norm_ord doc Hord bind (surface sp2) doc_root Vr (ctx_of bind) eq_refl v) as Q2.
  unfold xequiv in E1, E2. rewrite E1 in Q1. rewrite E2 in Q2.
  split; intros [c' H]; exists c'; [apply Q2, Q1, H|apply Q1, Q2, H].
Qed.

Theorem spelling_irrelevant_ord_context_proof : forall doc a sp1 sp2 e1 e2 c,
  ok_spelling a sp1 -> ok_spelling a sp2 ->
  no_fname_case (surface sp1) = true -> no_fname_case (surface sp2) = true ->
  parse_expr (spell a sp1) = POk e1 [] -> parse_expr (spell a sp2) = POk e2 [] ->
  DocOrd doc ->
  forall v c', query doc e1 c = (Ok v, c') <-> query doc e2 c = (Ok v, c').
Proof.
  intros doc a sp1 sp2 e1 e2 c (W1 & E1 & S1) (W2 & E2 & S2) N1 N2 P1 P2 Hord v c'.
  rewrite (parsed_spelled doc _ _ e1 c W1 N1 S1 P1), (parsed_spelled doc _ _ e2 c W2 N2 S2 P2).
  pose proof (XPathNav.wf_root doc (ord_wf doc Hord)) as Vr.
  pose proof (xeval_norm_ord doc Hord (c_ns c) (surface sp1) doc_root Vr c eq_refl v c') as Q1.
  pose proof (xeval_norm_ord doc Hord (c_ns c) (surface sp2) doc_root Vr c eq_refl v c') as Q2.
  unfold xequiv in E1, E2. rewrite E1 in Q1. rewrite E2 in Q2. rewrite Q1, Q2. reflexivity.
Qed.
