(** C14 -- Document order survives edits.

    "At every point of any edit history the document-order keys of the nodes attached to a document
    are non-zero, pairwise distinct and strictly increasing along a pre-order walk in which an
    element precedes its attributes and its attributes precede its children.  Consequently any
    XPath query evaluated on an edited document selects, orders and de-duplicates nodes exactly as
    the same query does on a fresh parse of that document's serialization."

    First sentence: proved below for the model of the repaired code ([order_inv_reachable]).
    [Walk s n l] (Proofs/DomOrder.v) is the specification of the walk: a node, then the walks of
    its namespace declarations, of its other attributes (an attribute is followed by its value
    items), then of its children.  [key s x] is what [HasContext::order] returns for [x].

    Second sentence: NOT proved in this development -- it needs the XPath evaluator model (C05,
    [eval_refines_spec] over arbitrary stores) and the print/parse round trip of edited stores
    (C15).  It is checked on the implementation by the [Q] operations of checks/C14.py (node-set
    queries on the edited document against a re-parse of its serialisation, compared as lists of
    pre-order ranks).  What this file contributes to it is the premise that evaluator needs: after
    any history, sorting and de-duplicating by key is sorting and de-duplicating by position in
    the pre-order walk ([oi_increasing], [oi_nonzero]), exactly as on a fresh parse. *)
From Coq Require Import List NArith Bool.
From XmlRs Require Import Base.CPred Model.Store Model.StoreCheck Model.DomOps
  Proofs.DomTree Proofs.DomOpsInv Proofs.DomOrder Proofs.DomOrderInv Proofs.DomCheck Proofs.DomExample Proofs.DomC14.
Import ListNotations.
Open Scope N_scope.

Theorem C14_order_inv_of_tree : forall s, TreeInv s -> OrderOK s -> OrderInv s.
Proof. exact order_inv_of_tree. Qed.

Theorem C14_good_step : forall w o, WGood w -> WGood (fst (step w o)).
Proof. exact good_step. Qed.

Theorem C14_order_inv_reachable :
  forall init ops k s, WGood init -> doc_at (run init ops) k = Some s -> OrderInv s.
Proof. exact order_inv_reachable. Qed.

Theorem C14_keys_after_any_history :
  forall init ops k s, WGood init -> doc_at (run init ops) k = Some s ->
    Walk s (sroot s) (preorder s)
    /\ (forall x, In x (preorder s) <-> attached s x)
    /\ (forall x, attached s x -> key s x <> 0)
    /\ (forall l1 x l2 y l3, preorder s = l1 ++ x :: l2 ++ y :: l3 -> key s x < key s y)
    /\ (forall x, ~ attached s x -> key s x = 0).
Proof. exact keys_after_any_history. Qed.

Theorem C14_walk_unique : forall s n l1 l2, Walk s n l1 -> Walk s n l2 -> l1 = l2.
Proof. exact walk_unique. Qed.

Print Assumptions C14_order_inv_of_tree.
Print Assumptions C14_good_step.
Print Assumptions C14_order_inv_reachable.
Print Assumptions C14_keys_after_any_history.
Print Assumptions C14_walk_unique.
