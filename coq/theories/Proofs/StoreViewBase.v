(** * List lemmas for the store view (C14 bridge): sublists, positions of row keys *)
From Coq Require Import List NArith Bool Lia.
From XmlRs Require Import Base.CPred Model.Store Model.StoreView.
Import ListNotations.
Open Scope N_scope.

(** ** sublists (subsequences) *)
Inductive Sub {A : Type} : list A -> list A -> Prop :=
| sub_nil l : Sub [] l
| sub_skip x l1 l2 : Sub l1 l2 -> Sub l1 (x :: l2)
| sub_take x l1 l2 : Sub l1 l2 -> Sub (x :: l1) (x :: l2).

Lemma Sub_refl {A} (l : list A) : Sub l l.
Proof. induction l as [|x t IH]; [apply sub_nil | apply sub_take; exact IH]. Qed.

Lemma Sub_app_l {A} (p l1 l2 : list A) : Sub l1 l2 -> Sub l1 (p ++ l2).
Proof. intros H. induction p as [|x t IH]; cbn [app]; [exact H | apply sub_skip; exact IH]. Qed.

Lemma Sub_app {A} (a a' b b' : list A) : Sub a a' -> Sub b b' -> Sub (a ++ b) (a' ++ b').
Proof.
  intros Ha Hb. induction Ha as [l | x l1 l2 _ IH | x l1 l2 _ IH]; cbn [app].
  - apply Sub_app_l. exact Hb.
  - apply sub_skip. exact IH.
  - apply sub_take. exact IH.
Qed.

Lemma Sub_in {A} (l1 l2 : list A) x : Sub l1 l2 -> In x l1 -> In x l2.
Proof.
  intros H. induction H as [l | y l1 l2 _ IH | y l1 l2 _ IH]; intros Hin.
  - destruct Hin.
  - right. apply IH. exact Hin.
  - destruct Hin as [->|Hin]; [left; reflexivity | right; apply IH; exact Hin].
Qed.

Lemma Sub_nodup {A} (l1 l2 : list A) : Sub l1 l2 -> NoDup l2 -> NoDup l1.
Proof.
  intros H. induction H as [l | y l1 l2 H IH | y l1 l2 H IH]; intros Hnd.
  - constructor.
  - inversion Hnd; subst. apply IH. assumption.
  - inversion Hnd as [|y' l' Hn Hnd']; subst. constructor; [|apply IH; exact Hnd'].
    intros Hin. apply Hn. eapply Sub_in; eassumption.
Qed.

Lemma Sub_nil_r {A} (l : list A) : Sub l [] -> l = [].
Proof. intros H. inversion H. reflexivity. Qed.

Lemma Sub_cons_inv {A} (x : A) l1 l2 : Sub (x :: l1) l2 -> exists p q, l2 = p ++ x :: q /\ Sub l1 q.
Proof.
  intros H. remember (x :: l1) as l eqn:E. revert x l1 E.
  induction H as [l | y l1' l2 H IH | y l1' l2 H IH]; intros x l1 E.
  - discriminate.
  - destruct (IH x l1 E) as [p [q [-> Hs]]]. exists (y :: p), q. split; [reflexivity | exact Hs].
  - inversion E; subst. exists [], l2. split; [reflexivity | exact H].
Qed.

Lemma Sub_app_inv {A} (a b : list A) : forall l, Sub (a ++ b) l -> exists p q, l = p ++ q /\ Sub a p /\ Sub b q.
Proof.
  induction a as [|x a IH]; intros l H; cbn [app] in H.
  - exists [], l. repeat split; [apply sub_nil | exact H].
  - apply Sub_cons_inv in H. destruct H as [p [q [-> Hs]]].
    destruct (IH q Hs) as [p' [q' [-> [Ha Hb]]]].
    exists (p ++ x :: p'), q'. rewrite <- app_assoc. cbn [app]. repeat split; [|exact Hb].
    apply Sub_app_l. apply sub_take. exact Ha.
Qed.

(** two elements in this order in a sublist are in this order in the list *)
Lemma Sub_two {A} (a b c : list A) x y l :
  Sub (a ++ x :: b ++ y :: c) l -> exists l1 l2 l3, l = l1 ++ x :: l2 ++ y :: l3.
Proof.
  intros H. apply Sub_app_inv in H. destruct H as [p [q [-> [_ H]]]].
  apply Sub_cons_inv in H. destruct H as [p1 [q1 [-> H]]].
  apply Sub_app_inv in H. destruct H as [p2 [q2 [-> [_ H]]]].
  apply Sub_cons_inv in H. destruct H as [p3 [q3 [-> _]]].
  exists (p ++ p1), (p2 ++ p3), q3. rewrite <- !app_assoc. reflexivity.
Qed.

Lemma Sub_flat_map {A B C} (h : A -> B) (g : A -> list C) (g' : B -> list C) (l : list A) (l' : list B) :
  Sub (map h l) l' -> (forall w, Sub (g w) (g' (h w))) -> Sub (flat_map g l) (flat_map g' l').
Proof.
  intros H Hg. remember (map h l) as m eqn:E. revert l E.
  induction H as [l0 | y l1 l2 H IH | y l1 l2 H IH]; intros l E.
  - destruct l; [|discriminate]. apply sub_nil.
  - cbn [flat_map]. apply Sub_app_l. apply IH. exact E.
  - destruct l as [|w t]; [discriminate|]. cbn [map] in E. inversion E; subst.
    cbn [flat_map]. apply Sub_app; [apply Hg | apply IH; reflexivity].
Qed.

Lemma Sub_filter {A} (f : A -> bool) (l : list A) : Sub (filter f l) l.
Proof.
  induction l as [|x t IH]; cbn [filter]; [apply sub_nil|].
  destruct (f x); [apply sub_take | apply sub_skip]; exact IH.
Qed.

(** ** equality tests on row keys *)
Lemma vnode_eqb_eq a b : vnode_eqb a b = true <-> a = b.
Proof.
  destruct a as [i|i], b as [j|j]; cbn [vnode_eqb]; try (split; [discriminate | intros E; inversion E]);
    rewrite N.eqb_eq; split; intros E; [subst; reflexivity | inversion E; reflexivity | subst; reflexivity | inversion E; reflexivity].
Qed.

Lemma vkey_eqb_eq a b : vkey_eqb a b = true <-> a = b.
Proof.
  destruct a as [v|i|i], b as [w|j|j]; cbn [vkey_eqb]; try (split; [discriminate | intros E; inversion E]).
  - rewrite vnode_eqb_eq. split; intros E; [subst; reflexivity | inversion E; reflexivity].
  - rewrite N.eqb_eq. split; intros E; [subst; reflexivity | inversion E; reflexivity].
  - rewrite N.eqb_eq. split; intros E; [subst; reflexivity | inversion E; reflexivity].
Qed.

Lemma vkey_eqb_refl a : vkey_eqb a a = true.
Proof. apply vkey_eqb_eq. reflexivity. Qed.

Lemma vkey_eqb_neq a b : a <> b -> vkey_eqb a b = false.
Proof. intros H. destruct (vkey_eqb a b) eqn:E; [|reflexivity]. apply vkey_eqb_eq in E. contradiction. Qed.

(** ** positions *)
Lemma idx_app k p q n : ~ In k p -> idx k (p ++ k :: q) n = n + N.of_nat (length p).
Proof.
  revert n. induction p as [|x t IH]; intros n Hn; cbn [app idx length].
  - rewrite vkey_eqb_refl. lia.
  - rewrite vkey_eqb_neq by (intros E; apply Hn; left; exact E).
    rewrite IH by (intros H; apply Hn; right; exact H). lia.
Qed.

Lemma idx_in k l n : In k l -> exists p q, l = p ++ k :: q /\ ~ In k p /\ idx k l n = n + N.of_nat (length p).
Proof.
  revert n. induction l as [|x t IH]; intros n Hin; [destruct Hin|].
  destruct (vkey_eqb x k) eqn:E.
  - apply vkey_eqb_eq in E. subst x. exists [], t. split; [reflexivity|]. split; [intros []|].
    cbn [idx length]. rewrite vkey_eqb_refl. lia.
  - destruct Hin as [->|Hin]; [rewrite vkey_eqb_refl in E; discriminate|].
    destruct (IH (n + 1) Hin) as [p [q [-> [Hn Hi]]]].
    exists (x :: p), q. split; [reflexivity|]. split.
    + intros [H|H]; [subst; rewrite vkey_eqb_refl in E; discriminate | contradiction].
    + cbn [idx app length]. rewrite E, Hi. lia.
Qed.

(** the node ids of the rows that stand for nodes *)
Definition nodes_of (l : list vkey) : list id :=
  flat_map (fun k => match k with KNode v => [vid v] | _ => [] end) l.

Lemma nodes_of_app a b : nodes_of (a ++ b) = nodes_of a ++ nodes_of b.
Proof. unfold nodes_of. apply flat_map_app. Qed.

Lemma nodes_of_in v l : In (KNode v) l -> In (vid v) (nodes_of l).
Proof. intros H. unfold nodes_of. apply in_flat_map. exists (KNode v). split; [exact H | left; reflexivity]. Qed.

Lemma nodes_of_in_inv x l : In x (nodes_of l) -> exists v, In (KNode v) l /\ vid v = x.
Proof.
  unfold nodes_of. intros H. apply in_flat_map in H. destruct H as [k [Hk Hx]].
  destruct k as [v|a|e]; [|destruct Hx|destruct Hx]. destruct Hx as [<-|[]]. exists v. split; [exact Hk | reflexivity].
Qed.

Lemma nodes_of_flat_map {A} (g : A -> list vkey) l :
  nodes_of (flat_map g l) = flat_map (fun w => nodes_of (g w)) l.
Proof.
  induction l as [|x t IH]; cbn [flat_map]; [reflexivity|]. rewrite nodes_of_app, IH. reflexivity.
Qed.

(** a node key occurs once when the node ids are pairwise distinct *)
Lemma node_key_unique (l : list vkey) v p q :
  NoDup (nodes_of l) -> l = p ++ KNode v :: q -> ~ In (KNode v) p /\ ~ In (KNode v) q.
Proof.
  intros Hnd ->. rewrite nodes_of_app in Hnd. cbn [nodes_of flat_map app] in Hnd.
  change (flat_map (fun k => match k with KNode v0 => [vid v0] | _ => [] end) q) with (nodes_of q) in Hnd.
  pose proof (NoDup_remove_2 _ _ _ Hnd) as Hn.
  split; intros Hin; apply Hn; apply in_or_app; [left | right]; apply nodes_of_in; exact Hin.
Qed.

Lemma node_key_vid_unique (l : list vkey) v w : NoDup (nodes_of l) -> In (KNode v) l -> In (KNode w) l -> vid v = vid w -> v = w.
Proof.
  intros Hnd Hv Hw E. apply in_split in Hv. destruct Hv as [p [q ->]].
  rewrite nodes_of_app in Hnd. cbn [nodes_of flat_map app] in Hnd.
  change (flat_map (fun k => match k with KNode v0 => [vid v0] | _ => [] end) q) with (nodes_of q) in Hnd.
  pose proof (NoDup_remove_2 _ _ _ Hnd) as Hn.
  apply in_app_or in Hw. destruct Hw as [Hw|[Hw|Hw]].
  - exfalso. apply Hn. apply in_or_app. left. rewrite E. apply nodes_of_in. exact Hw.
  - inversion Hw. reflexivity.
  - exfalso. apply Hn. apply in_or_app. right. rewrite E. apply nodes_of_in. exact Hw.
Qed.
