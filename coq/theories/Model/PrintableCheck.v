(** * The lexical invariant of stored strings as an executable check (property C15)

    [item_ok it]: the strings of the item can be written in the syntactic position of its node kind.
    [printable_b l]: every binding of a finite table satisfies it.  The model driver evaluates
    [printable_b] on the initial stores it builds from the implementation's dump (bit `pr=` of
    record 0), so the hypothesis of [printable_reachable] is checked for every case of the
    correspondence runs.  Definitions only; the theorems are in Proofs/DomPrintable.v. *)
From Coq Require Import List NArith Bool.
From XmlRs Require Import Base.CPred Spec.XmlChars Model.Store.
From XmlRs Require Model.CharData.
Import ListNotations.
Open Scope N_scope.

(** a Text: characters, no [<], no [&] *)
Definition text_lex (d : str) : bool :=
  forallb (fun c => CharData.is_xml_char c && negb (c =? 60) && negb (c =? 38)) d.

(** PI data: characters, no "?>" *)
Definition pi_ok (d : str) : bool :=
  forallb CharData.is_xml_char d && negb (CharData.has_sub [63; 62] d).

Definition qname_ok (p : option str) (l : str) : bool :=
  match p with Some x => is_NCName x | None => true end && is_NCName l.

Definition item_ok (it : item) : bool :=
  match ikind it with
  | KTx => text_lex (idata it)
  | KCm => CharData.check_comment (idata it)
  | KCd => CharData.check_cdata (idata it)
  | KPi => is_Name (ilocal it) && pi_ok (idata it)
  | KEl | KAt => qname_ok (iprefix it) (ilocal it)
  | KEr => is_Name (ilocal it)
  | _ => true
  end.

Definition printable_b (l : list (id * item)) : bool := forallb (fun b => item_ok (snd b)) l.
