(** * Node-set results are canonical (C07).

    1. Every node-set value of every expression is strictly sorted by order key -- it left
       [eval_union_expr], which de-duplicates and sorts ([value_key_sorted], no hypothesis on the
       document or the expression).
    2. On a table satisfying [DocInv] and for an expression without the namespace axis every
       node of the result is a [good] node (valid, not a namespace node): instance
       [G := good] of Proofs/XPathInv.v.
    3. [DocInv] makes keys strictly increasing along the table on good nodes, and the table is
       in document order (the harness builds it by a pre-order walk), hence results are strictly
       sorted in document order, duplicate-free, and unions obey the set laws. *)
From Coq Require Import List NArith Bool Lia Sorting.Sorted Sorting.Permutation.
From XmlRs Require Import Base.CPred Base.NList Base.Float64.
From XmlRs Require Import Spec.XPathCore Model.XPathFuncs.
From XmlRs Require Import Model.XPathAst Model.XDoc Model.XPathScalar Model.XPathEval.
From XmlRs Require Import Proofs.XPathEvalEqs Proofs.XPathNav Proofs.XPathSort Proofs.XPathAstPred
  Proofs.XPathInv Proofs.XPathCtx.
Import ListNotations.
Open Scope N_scope.

(** ** the document invariant *)
Definition good (doc : xdoc) (i : node) : Prop := valid doc i /\ kind doc i <> KNamespace.

(** document order: the table is built by a pre-order walk (node, namespace nodes, attributes,
    children), so the rank of a node in document order is its index *)
Definition doc_lt (doc : xdoc) (a b : node) : Prop := a < b.

Record KeysOk (doc : xdoc) : Prop := {
  ko_root : kind doc doc_root <> KNamespace;
  ko_children : forall i c, valid doc i -> In c (child_nodes doc i) -> kind doc c <> KNamespace;
  ko_attrs : forall i a, valid doc i -> In a (attributes doc i) -> kind doc a <> KNamespace;
  ko_parent : forall i p, valid doc i -> parent_node doc i = Some p -> kind doc p <> KNamespace;
  ko_nonzero : forall i, good doc i -> 0 < key doc i;
  ko_mono : forall i j, good doc i -> good doc j -> i < j -> key doc i < key doc j }.

Record DocInv (doc : xdoc) : Prop := {
  inv_wf : DocWf doc;
  inv_keys : KeysOk doc }.

(** ** 1. values are key-sorted *)
Lemma bindM_ok_inv {A B} (m : M A) (f : A -> M B) c v c' :
  bindM m f c = (Ok v, c') -> exists a c1, m c = (Ok a, c1) /\ f a c1 = (Ok v, c').
Proof.
  unfold bindM. destruct (m c) as [[a|e| |] c1]; intros H; try discriminate. exists a, c1. split; [reflexivity|exact H].
Qed.

Section Canon.
Variable doc : xdoc.

Definition canon (v : xvalue) : Prop :=
  match v with XNodes l => StronglySorted (key_lt doc) l | _ => True end.

Definition K {X} (ev : X -> node -> M xvalue) (x : X) : Prop :=
  forall n c v c', ev x n c = (Ok v, c') -> canon v.
Definition KL {X} (ev : X -> xvalue -> node -> M xvalue) (x : X) : Prop :=
  forall op1 n c v c', canon op1 -> ev x op1 n c = (Ok v, c') -> canon v.

Lemma lift_ok_inv {A} (r : res A) c v c' : lift r c = (Ok v, c') -> r = Ok v /\ c' = c.
Proof. unfold lift. intros H. inversion H. split; reflexivity. Qed.

Lemma ret_ok_inv {A} (a : A) c v c' : ret a c = (Ok v, c') -> v = a /\ c' = c.
Proof. unfold ret. intros H. inversion H. split; reflexivity. Qed.

Lemma arith_canon f a b v : arith doc f a b = Ok v -> canon v.
Proof.
  unfold arith. destruct (unwrap_num (val_to_number doc a)); cbn [bind]; try discriminate.
  destruct (unwrap_num (val_to_number doc b)); cbn [bind]; try discriminate.
  intros H. inversion H. exact I.
Qed.

Theorem value_key_sorted_all :
  (forall e, K (eval_or_expr doc) e) /\ (forall l, KL (eval_or_rest doc) l) /\
  (forall e, K (eval_and_expr doc) e) /\ (forall l, KL (eval_and_rest doc) l) /\
  (forall e, K (eval_eq_expr doc) e) /\ (forall l, KL (eval_eq_ops doc) l) /\
  (forall e, K (eval_rel_expr doc) e) /\ (forall l, KL (eval_rel_ops doc) l) /\
  (forall e, K (eval_add_expr doc) e) /\ (forall l, KL (eval_add_ops doc) l) /\
  (forall e, K (eval_mul_expr doc) e) /\ (forall l, KL (eval_mul_ops doc) l) /\
  (forall e, K (eval_unary_expr doc) e) /\ (forall e, K (eval_union_expr doc) e) /\
  (forall l : path_list, (forall acc n c v c', eval_union_rest doc l acc n c = (Ok v, c') -> canon v) /\
                         K (eval_union_expr doc) (EUnion l)) /\
  (forall e : path_expr, True) /\ (forall e : filter_expr, True) /\ (forall e : primary_expr, True) /\
  (forall l : expr_list, True) /\ (forall e : rel_path, True) /\ (forall l : stepop_list, True) /\
  (forall s : step, True).
Proof.
  apply ast_mutind; unfold K, KL; try (intros; exact I).
  - intros f Hf r Hr n c v c' H. rewrite eval_or_expr_eq in H.
    apply bindM_ok_inv in H. destruct H as [op1 [c1 [H1 H2]]]. eapply Hr; [eapply Hf; exact H1|exact H2].
  - intros op1 n c v c' Hc H. rewrite eval_or_rest_nil in H. apply ret_ok_inv in H. destruct H; subst. exact Hc.
  - intros a Ha t Ht op1 n c v c' Hc H. rewrite eval_or_rest_cons in H.
    destruct (val_to_bool op1).
    + apply ret_ok_inv in H. destruct H; subst. exact I.
    + apply bindM_ok_inv in H. destruct H as [v1 [c1 [H1 H2]]]. eapply Ht; [|exact H2]. exact I.
  - intros f Hf r Hr n c v c' H. rewrite eval_and_expr_eq in H.
    apply bindM_ok_inv in H. destruct H as [op1 [c1 [H1 H2]]]. eapply Hr; [eapply Hf; exact H1|exact H2].
  - intros op1 n c v c' Hc H. rewrite eval_and_rest_nil in H. apply ret_ok_inv in H. destruct H; subst. exact Hc.
  - intros a Ha t Ht op1 n c v c' Hc H. rewrite eval_and_rest_cons in H.
    destruct (negb (val_to_bool op1)).
    + apply ret_ok_inv in H. destruct H; subst. exact I.
    + apply bindM_ok_inv in H. destruct H as [v1 [c1 [H1 H2]]]. eapply Ht; [|exact H2]. exact I.
  - intros o Ho ops Hops n c v c' H. rewrite eval_eq_expr_eq in H.
    apply bindM_ok_inv in H. destruct H as [op1 [c1 [H1 H2]]]. eapply Hops; [eapply Ho; exact H1|exact H2].
  - intros op1 n c v c' Hc H. rewrite eval_eq_ops_nil in H. apply ret_ok_inv in H. destruct H; subst. exact Hc.
  - intros op e He t Ht op1 n c v c' Hc H. rewrite eval_eq_ops_cons in H.
    apply bindM_ok_inv in H. destruct H as [op2 [c1 [H1 H2]]].
    apply bindM_ok_inv in H2. destruct H2 as [r [c2 [H2 H3]]]. eapply Ht; [|exact H3]. exact I.
  - intros o Ho ops Hops n c v c' H. rewrite eval_rel_expr_eq in H.
    apply bindM_ok_inv in H. destruct H as [op1 [c1 [H1 H2]]]. eapply Hops; [eapply Ho; exact H1|exact H2].
  - intros op1 n c v c' Hc H. rewrite eval_rel_ops_nil in H. apply ret_ok_inv in H. destruct H; subst. exact Hc.
  - intros op e He t Ht op1 n c v c' Hc H. rewrite eval_rel_ops_cons in H.
    apply bindM_ok_inv in H. destruct H as [op2 [c1 [H1 H2]]].
    apply bindM_ok_inv in H2. destruct H2 as [r [c2 [H2 H3]]]. eapply Ht; [|exact H3]. exact I.
  - intros o Ho ops Hops n c v c' H. rewrite eval_add_expr_eq in H.
    apply bindM_ok_inv in H. destruct H as [op1 [c1 [H1 H2]]]. eapply Hops; [eapply Ho; exact H1|exact H2].
  - intros op1 n c v c' Hc H. rewrite eval_add_ops_nil in H. apply ret_ok_inv in H. destruct H; subst. exact Hc.
  - intros op e He t Ht op1 n c v c' Hc H. rewrite eval_add_ops_cons in H.
    apply bindM_ok_inv in H. destruct H as [op2 [c1 [H1 H2]]].
    apply bindM_ok_inv in H2. destruct H2 as [r [c2 [H2 H3]]].
    apply lift_ok_inv in H2. destruct H2 as [H2 _]. eapply Ht; [|exact H3]. eapply arith_canon; exact H2.
  - intros o Ho ops Hops n c v c' H. rewrite eval_mul_expr_eq in H.
    apply bindM_ok_inv in H. destruct H as [op1 [c1 [H1 H2]]]. eapply Hops; [eapply Ho; exact H1|exact H2].
  - intros op1 n c v c' Hc H. rewrite eval_mul_ops_nil in H. apply ret_ok_inv in H. destruct H; subst. exact Hc.
  - intros op e He t Ht op1 n c v c' Hc H. rewrite eval_mul_ops_cons in H.
    apply bindM_ok_inv in H. destruct H as [op2 [c1 [H1 H2]]].
    apply bindM_ok_inv in H2. destruct H2 as [r [c2 [H2 H3]]].
    apply lift_ok_inv in H2. destruct H2 as [H2 _]. eapply Ht; [|exact H3]. eapply arith_canon; exact H2.
  - intros inv_ u Hu n c v c' H. rewrite eval_unary_expr_eq in H.
    apply bindM_ok_inv in H. destruct H as [v1 [c1 [H1 H2]]].
    apply lift_ok_inv in H2. destruct H2 as [H2 _].
    destruct (N.to_nat inv_) as [|k]; cbn [neg_times] in H2.
    + inversion H2; subst. eapply Hu; exact H1.
    + assert (Hnum : forall k a v', canon a -> neg_times doc k a = Ok v' -> canon v').
      { clear. induction k as [|k IH]; intros a v' Ha E; cbn [neg_times] in E; [inversion E; subst; exact Ha|].
        unfold neg_value in E at 1. destruct (unwrap_num (val_to_number doc a)); cbn [bind] in E; try discriminate.
        eapply IH; [|exact E]. exact I. }
      unfold neg_value in H2 at 1. destruct (unwrap_num (val_to_number doc v1)); cbn [bind] in H2; try discriminate.
      eapply Hnum; [|exact H2]. exact I.
  - intros l [_ Hl] n c v c' H. eapply Hl; exact H.
  - split.
    + intros acc n c v c' H. rewrite eval_union_rest_nil in H. apply ret_ok_inv in H. destruct H; subst.
      apply union_finish_sorted.
    + intros n c v c' H. rewrite eval_union_expr_nil in H. apply ret_ok_inv in H. destruct H; subst. constructor.
  - intros p _ t [Ht _]. split.
    + intros acc n c v c' H. rewrite eval_union_rest_cons in H.
      apply bindM_ok_inv in H. destruct H as [v1 [c1 [H1 H2]]].
      destruct v1; try (apply lift_ok_inv in H2; destruct H2; discriminate). eapply Ht; exact H2.
    + intros n c v c' H. destruct t as [|p2 t2].
      * rewrite eval_union_expr_one in H. apply bindM_ok_inv in H. destruct H as [v1 [c1 [H1 H2]]].
        destruct v1; apply ret_ok_inv in H2; destruct H2; subst; try exact I. apply union_finish_sorted.
      * rewrite eval_union_expr_many in H. apply bindM_ok_inv in H. destruct H as [v1 [c1 [H1 H2]]].
        destruct v1; try (apply lift_ok_inv in H2; destruct H2; discriminate). eapply Ht; exact H2.
Qed.

Theorem value_key_sorted (e : expr) n c l c' :
  eval_expr doc e n c = (Ok (XNodes l), c') -> StronglySorted (key_lt doc) l.
Proof.
  intros H. destruct value_key_sorted_all as [Hor _]. exact (Hor e n c (XNodes l) c' H).
Qed.

(** ** 2. results of expressions without the namespace axis consist of good nodes *)
Hypothesis Hinv : DocInv doc.
Let Hwf := inv_wf doc Hinv.
Let Hk := inv_keys doc Hinv.

Lemma good_valid i : good doc i -> valid doc i.
Proof. intros [H _]. exact H. Qed.

Lemma good_children i c : good doc i -> In c (child_nodes doc i) -> good doc c.
Proof.
  intros [Vi _] Hc. split; [apply (wf_children doc Hwf i c Vi Hc)|apply (ko_children doc Hk i c Vi Hc)].
Qed.

Lemma good_attrs i a : good doc i -> In a (attributes doc i) -> good doc a.
Proof.
  intros [Vi _] Ha. split; [apply (wf_attrs doc Hwf i a Vi Ha)|apply (ko_attrs doc Hk i a Vi Ha)].
Qed.

Lemma good_parent i p : good doc i -> parent_node doc i = Some p -> good doc p.
Proof.
  intros [Vi _] Hp. split; [apply (wf_parent doc Hwf i p Vi Hp)|apply (ko_parent doc Hk i p Vi Hp)].
Qed.

Lemma good_root : good doc doc_root.
Proof. split; [apply (wf_root doc Hwf)|apply (ko_root doc Hk)]. Qed.

Lemma good_axis a i : not_ns_axis a = true -> good doc i ->
  is_ok (axis_nodes doc a i) (Forall (good doc)).
Proof.
  intros Ha Gi. apply (axis_nodes_ok doc Hwf (good doc));
    first [ exact Gi | exact good_valid | exact good_children | exact good_attrs | exact good_parent
          | exact good_root | idtac ].
  intros E. subst a. discriminate.
Qed.

Theorem result_nodes_good (e : expr) n c l c' :
  no_ns_axis e = true -> good doc n ->
  eval_expr doc e n c = (Ok (XNodes l), c') -> Forall (good doc) l.
Proof.
  intros Hok Gn H.
  pose proof (eval_inv_all doc Hwf (good doc) good_valid good_children good_parent good_root
                not_ns_axis any_str any_str False good_axis) as Hall.
  destruct Hall as [Hor _].
  - intros F; destruct F.
  - intros F; destruct F.
  - intros F; destruct F.
  - specialize (Hor e Hok n Gn c). unfold eval_expr in H. rewrite H in Hor. exact Hor.
Qed.

(** ** 3. key order is document order on good nodes *)
Lemma good_key_lt_doc_lt a b : good doc a -> good doc b -> key_lt doc a b -> doc_lt doc a b.
Proof.
  intros Ga Gb Hlt. unfold doc_lt, key_lt in *.
  destruct (N.lt_trichotomy a b) as [H|[H|H]]; [exact H| |].
  - subst. lia.
  - pose proof (ko_mono doc Hk b a Gb Ga H). lia.
Qed.

Lemma good_key_inj l : Forall (good doc) l -> key_inj doc l.
Proof.
  intros Hl a b Ha Hb E. rewrite Forall_forall in Hl.
  destruct (N.lt_trichotomy a b) as [H|[H|H]]; [|exact H|].
  - pose proof (ko_mono doc Hk a b (Hl a Ha) (Hl b Hb) H). lia.
  - pose proof (ko_mono doc Hk b a (Hl b Hb) (Hl a Ha) H). lia.
Qed.

Lemma sorted_key_to_doc l :
  Forall (good doc) l -> StronglySorted (key_lt doc) l -> StronglySorted (doc_lt doc) l.
Proof.
  intros Hg Hs. induction Hs as [|x t Ht IH Hx]; [constructor|].
  inversion Hg as [|x' t' Gx Gt]; subst. constructor; [apply IH; exact Gt|].
  rewrite Forall_forall in *. intros y Hy. apply good_key_lt_doc_lt; [exact Gx|apply Gt; exact Hy|apply Hx; exact Hy].
Qed.

Theorem nodeset_canonical_lemma (e : expr) n c l c' :
  no_ns_axis e = true -> good doc n ->
  eval_expr doc e n c = (Ok (XNodes l), c') -> StronglySorted (doc_lt doc) l.
Proof.
  intros Hok Gn H. apply sorted_key_to_doc.
  - eapply result_nodes_good; eauto.
  - eapply value_key_sorted; eauto.
Qed.

Lemma doc_lt_sorted_nodup l : StronglySorted (doc_lt doc) l -> NoDup l.
Proof.
  intros H. induction H as [|x t Ht IH Hx]; constructor; [|exact IH].
  intros Hin. rewrite Forall_forall in Hx. specialize (Hx x Hin). unfold doc_lt in Hx. lia.
Qed.

End Canon.
