(** * [normalize] is a history of existing operations (Model/DomNormalize.v)

    [normalize_is_history]: the world after [normalize_run] is [run w ops] for a list [ops] of
    [AppendData] / [RemoveChild] calls ([norm_op]); hence [run_n] over histories that contain
    [Normalize] calls is [run] over a plain history whose operations are either operations of the
    original history or [norm_op]s ([run_n_history]).  Every theorem stated for all plain histories
    therefore holds for histories with [normalize] calls; the liftings used by Properties/C12-C15
    are stated here. *)
From Coq Require Import List NArith Bool Lia.
From XmlRs Require Import Base.CPred Model.Store Model.DomOps Model.DomNormalize.
Import ListNotations.
Open Scope N_scope.

Definition norm_op (o : op) : Prop :=
  match o with
  | AppendData _ _ | RemoveChild _ _ => True
  | _ => False
  end.

Lemma run_app ops1 ops2 w : run w (ops1 ++ ops2) = run (run w ops1) ops2.
Proof. unfold run. apply fold_left_app. Qed.

Lemma run_nil w : run w [] = w.
Proof. reflexivity. Qed.

Lemma run_one w o : run w [o] = fst (step w o).
Proof. reflexivity. Qed.

(** the history of the loop, given histories of the recursive calls *)
Lemma norm_children_history (rec : world -> nref -> world) :
  (forall w r, exists ops, rec w r = run w ops /\ Forall norm_op ops) ->
  forall l w r prev, exists ops, norm_children rec w r prev l = run w ops /\ Forall norm_op ops.
Proof.
  intros Hrec. induction l as [|v t IH]; intros w r prev; cbn [norm_children].
  - exists []. split; [reflexivity | constructor].
  - destruct v as [c|c]; [|apply IH].
    destruct (kind_in w (fst r, c)) as [k|]; [|apply IH].
    destruct k; try apply IH.
    + (* element child *)
      destruct (Hrec w (fst r, c)) as [o1 [E1 F1]].
      destruct (IH (rec w (fst r, c)) r None) as [o2 [E2 F2]].
      exists (o1 ++ o2). split; [rewrite run_app, <- E1; exact E2 | apply Forall_app; split; assumption].
    + (* text child *)
      destruct prev as [p|]; [|apply IH].
      set (a := AppendData (fst r, p) (text_arg (data_in w (fst r, c)))).
      assert (Ha : norm_op a) by exact I.
      destruct (step w a) as [w1 oc] eqn:Es.
      assert (E1 : w1 = run w [a]) by (rewrite run_one, Es; reflexivity).
      destruct oc as [rt|e| |].
      * set (b := RemoveChild r (fst r, c)).
        destruct (IH (fst (step w1 b)) r (Some p)) as [o2 [E2 F2]].
        exists ([a; b] ++ o2). split.
        -- rewrite run_app. change (run w [a; b]) with (fst (step (fst (step w a)) b)). rewrite Es. exact E2.
        -- apply Forall_app. split; [repeat constructor | exact F2].
      * destruct (IH w1 r (Some c)) as [o2 [E2 F2]]. exists ([a] ++ o2).
        split; [rewrite run_app, <- E1; exact E2 | apply Forall_app; split; [repeat constructor | exact F2]].
      * destruct (IH w1 r (Some c)) as [o2 [E2 F2]]. exists ([a] ++ o2).
        split; [rewrite run_app, <- E1; exact E2 | apply Forall_app; split; [repeat constructor | exact F2]].
      * destruct (IH w1 r (Some c)) as [o2 [E2 F2]]. exists ([a] ++ o2).
        split; [rewrite run_app, <- E1; exact E2 | apply Forall_app; split; [repeat constructor | exact F2]].
Qed.

Theorem normalize_is_history merged : forall fuel w r,
  exists ops, normalize_run merged fuel w r = run w ops /\ Forall norm_op ops.
Proof.
  induction fuel as [|f IH]; intros w r; cbn [normalize_run].
  - exists []. split; [reflexivity | constructor].
  - destruct (doc_at w (fst r)) as [s|]; [|exists []; split; [reflexivity | constructor]].
    destruct (kind_of s (snd r)) as [k|]; [|exists []; split; [reflexivity | constructor]].
    destruct k; try (exists []; split; [reflexivity | constructor]).
    apply norm_children_history. exact IH.
Qed.

Lemma normalize_history merged w r :
  exists ops, fst (normalize merged w r) = run w ops /\ Forall norm_op ops.
Proof.
  unfold normalize. destruct (kind_in w r) as [k|]; [|exists []; split; [reflexivity | constructor]].
  destruct k; try (exists []; split; [reflexivity | constructor]).
  cbn [fst]. apply normalize_is_history.
Qed.

(** histories with [normalize] calls are plain histories *)
Theorem run_n_history : forall nops w,
  exists ops, run_n w nops = run w ops /\ Forall (fun o => norm_op o \/ In (Op o) nops) ops.
Proof.
  induction nops as [|o t IH]; intros w.
  - exists []. split; [reflexivity | constructor].
  - change (run_n w (o :: t)) with (run_n (fst (step_n w o)) t).
    destruct (IH (fst (step_n w o))) as [o2 [E2 F2]].
    assert (F2' : Forall (fun x => norm_op x \/ In (Op x) (o :: t)) o2).
    { eapply Forall_impl; [|exact F2]. intros x [H|H]; [left; exact H | right; right; exact H]. }
    destruct o as [o|m r]; cbn [step_n] in *.
    + exists ([o] ++ o2). split; [rewrite run_app; exact E2|].
      apply Forall_app. split; [|exact F2']. constructor; [right; left; reflexivity | constructor].
    + destruct (normalize_history m w r) as [o1 [E1 F1]].
      exists (o1 ++ o2). split; [rewrite run_app, <- E1; exact E2|].
      apply Forall_app. split; [|exact F2']. eapply Forall_impl; [|exact F1]. intros x H. left. exact H.
Qed.

(** ** liftings *)
Definition plain_ops (nops : list nop) : list op :=
  flat_map (fun o => match o with Op o => [o] | Normalize _ _ => [] end) nops.

Lemma in_plain_ops o nops : In (Op o) nops -> In o (plain_ops nops).
Proof.
  intros H. unfold plain_ops. apply in_flat_map. exists (Op o). split; [exact H | left; reflexivity].
Qed.

(** a world property kept by every plain history is kept by every history with [normalize] *)
Theorem run_n_invariant (P : world -> Prop) :
  (forall ops w, P w -> P (run w ops)) -> forall nops w, P w -> P (run_n w nops).
Proof.
  intros H nops w Hw. destruct (run_n_history nops w) as [ops [E _]]. rewrite E. apply H. exact Hw.
Qed.

(** the same with a condition [Q] on the operations that every [AppendData] / [RemoveChild] call meets *)
Theorem run_n_invariant_cond (P : world -> Prop) (Q : op -> Prop) :
  (forall o, norm_op o -> Q o) ->
  (forall ops w, P w -> Forall Q ops -> P (run w ops)) ->
  forall nops w, P w -> Forall Q (plain_ops nops) -> P (run_n w nops).
Proof.
  intros HQ H nops w Hw HF. destruct (run_n_history nops w) as [ops [E F]]. rewrite E. apply H; [exact Hw|].
  eapply Forall_impl; [|exact F]. intros o [Ho|Ho]; [apply HQ; exact Ho|].
  rewrite Forall_forall in HF. apply HF. apply in_plain_ops. exact Ho.
Qed.

(** [normalize] has no failure and no panic of its own *)
Lemma normalize_outcome merged w r :
  snd (normalize merged w r) = Ok RUnit \/ snd (normalize merged w r) = NotApplicable.
Proof.
  unfold normalize. destruct (kind_in w r) as [k|]; [|right; reflexivity].
  destruct k; try (right; reflexivity). left. reflexivity.
Qed.

Lemma normalize_applicable merged w r :
  snd (normalize merged w r) = Ok RUnit <-> kind_in w r = Some KEl.
Proof.
  unfold normalize. destruct (kind_in w r) as [k|]; [destruct k|]; cbn [snd]; split; intros H; try discriminate; reflexivity.
Qed.

(** the plain history of a history with [normalize] calls, with a condition on its operations *)
Theorem run_n_plain (Q : op -> Prop) :
  (forall o, norm_op o -> Q o) ->
  forall nops w, Forall Q (plain_ops nops) -> exists ops, run_n w nops = run w ops /\ Forall Q ops.
Proof.
  intros HQ nops w HF. destruct (run_n_history nops w) as [ops [E F]]. exists ops. split; [exact E|].
  eapply Forall_impl; [|exact F]. intros o [Ho|Ho]; [apply HQ; exact Ho|].
  rewrite Forall_forall in HF. apply HF. apply in_plain_ops. exact Ho.
Qed.
