(** * C04, rung 3 (second part): the document type declaration and the declarations the printer
    writes (ENTITY, NOTATION, ATTLIST, PI), print -> parse -> build. *)
From Coq Require Import List NArith Arith Lia Bool.
From XmlRs Require Import Base.CPred Model.Peg Gen.XmlcharGen Gen.GrammarXmlGen Model.ParseActions
     Model.Info Model.Display Proofs.PegTermination Proofs.PegLemmas Proofs.Expansion
     Proofs.DisplayLex Proofs.ActionLemmas Proofs.DisplayElem Proofs.DisplayDoc.
Import ListNotations.
Local Open Scope N_scope.

Ltac sp := apply (parses_chars1 G_xml ws [32]); [discriminate|reflexivity|exact eq_refl].

(** ** literals *)
Lemma body_system_literal : body G_xml nt_system_literal =
  Alt (SeqR (Tag [34]) (SeqL (xc_char_except0 [34]) (Tag [34]))) (SeqR (Tag [39]) (SeqL (xc_char_except0 [39]) (Tag [39]))).
Proof. reflexivity. Qed.
Lemma body_pubid_literal : body G_xml nt_pubid_literal =
  Alt (SeqR (Tag [34]) (SeqL (NT nt_multipubidchar0) (Tag [34]))) (SeqR (Tag [39]) (SeqL (xc_pubid_char_except0 [39]) (Tag [39]))).
Proof. reflexivity. Qed.
Lemma body_multipubidchar0 : body G_xml nt_multipubidchar0 = Chars0 is_pubid_char.
Proof. reflexivity. Qed.

Definition str_quote (s : str) : N := if existsb (N.eqb 34) s then 39 else 34.
Lemma escape_str_quote s : escape s = str_quote s :: s ++ [str_quote s].
Proof. unfold escape, str_quote. destruct (existsb (N.eqb 34) s); reflexivity. Qed.
Lemma str_quote_cases s : str_quote s = 34 \/ str_quote s = 39.
Proof. unfold str_quote. destruct (existsb (N.eqb 34) s); auto. Qed.

(** a system literal: Chars other than the quote the printer picks *)
Definition syslit_ok (s : str) : Prop := forallb (eval (is_char_except [str_quote s])) s = true.

Theorem system_literal_rt (s r : str) : syslit_ok s -> yields (NT nt_system_literal) (escape s ++ r) (VStr s) r.
Proof.
  intros Hs. unfold syslit_ok in Hs. rewrite escape_str_quote. norm_app. apply yields_nt. rewrite body_system_literal.
  apply yields_str. destruct (str_quote_cases s) as [E|E]; rewrite E in *.
  - apply parses_alt_l. eapply parses_seqr; [tag|].
    eapply parses_seql; [apply parses_chars0; [exact Hs|exact eq_refl]|tag].
  - apply parses_alt_r; [apply fails_seqr_l; apply fails_tag; reflexivity|]. eapply parses_seqr; [tag|].
    eapply parses_seql; [apply parses_chars0; [exact Hs|exact eq_refl]|tag].
Qed.

Definition pubid_ok (p : str) : Prop := forallb (eval is_pubid_char) p = true.

Lemma pubid_no_dquote (p : str) : pubid_ok p -> existsb (N.eqb 34) p = false.
Proof. intros H. eapply digits_no_quote; [|exact H]. reflexivity. Qed.

Theorem pubid_literal_rt (p r : str) : pubid_ok p -> yields (NT nt_pubid_literal) (escape p ++ r) (VStr p) r.
Proof.
  intros Hp. unfold escape. rewrite (pubid_no_dquote p Hp). norm_app. apply yields_nt. rewrite body_pubid_literal.
  apply yields_str. apply parses_alt_l. eapply parses_seqr; [tag|].
  eapply parses_seql; [apply parses_nt; rewrite body_multipubidchar0; apply parses_chars0; [exact Hp|exact eq_refl]|tag].
Qed.

(** ** ExternalID *)
Lemma body_external_id : body G_xml nt_external_id =
  Alt (Map L_model_ExternalId_from (SeqR (Seq (Tag [83;89;83;84;69;77]) (Chars1 ws)) (NT nt_system_literal)))
      (Map L_model_ExternalId_from (SeqR (Seq (Tag [80;85;66;76;73;67]) (Chars1 ws))
                                         (Seq (NT nt_pubid_literal) (SeqR (Chars1 ws) (NT nt_system_literal))))).
Proof. reflexivity. Qed.

(** (system, public) as xml-info keeps them; the printed form without its leading space *)
Definition ext_ok (sys pub : option str) : Prop :=
  match sys, pub with
  | Some s, Some p => syslit_ok s /\ pubid_ok p
  | Some s, None => syslit_ok s
  | None, _ => False
  end.
Definition ext_of (sys pub : option str) : external_id :=
  match sys, pub with
  | Some s, Some p => ExPublic p s
  | Some s, None => ExSystem s
  | None, _ => ExSystem []
  end.

Lemma escape_head_quote (s : str) : exists q t, escape s = q :: t /\ eval ws q = false.
Proof. unfold escape. destruct (existsb (N.eqb 34) s); eexists; eexists; split; reflexivity. Qed.

Theorem external_id_rt (sys pub : option str) (r : str) : ext_ok sys pub ->
  exists t, d_external pub sys = 32 :: t /\ yields (NT nt_external_id) (t ++ r) (VExternalId (ext_of sys pub)) r.
Proof.
  unfold ext_ok, d_external, ext_of, s_public, s_system. destruct sys as [s|]; [|intros []]. destruct pub as [p|].
  - intros [Hs Hp]. eexists. split; [reflexivity|]. norm_app. apply yields_nt. rewrite body_external_id.
    apply yields_alt_r; [apply fails_map; apply fails_seqr_l; apply fails_seq_l; apply fails_tag; reflexivity|].
    apply (yields_map' (VPair (VStr p) (VStr s))); [reflexivity|].
    eapply yields_seqr.
    + eapply parses_seq; [tag|]. apply (parses_chars1 G_xml ws [32]); [discriminate|reflexivity|].
      destruct (escape_head_quote p) as [q [t [-> Hq]]]. exact Hq.
    + eapply yields_seq; [apply pubid_literal_rt; exact Hp|].
      eapply yields_seqr; [|apply system_literal_rt; exact Hs].
      apply (parses_chars1 G_xml ws [32]); [discriminate|reflexivity|].
      destruct (escape_head_quote s) as [q [t [-> Hq]]]. exact Hq.
  - intros Hs. eexists. split; [reflexivity|]. norm_app. apply yields_nt. rewrite body_external_id.
    apply yields_alt_l. apply (yields_map' (VStr s)); [reflexivity|].
    eapply yields_seqr; [|apply system_literal_rt; exact Hs].
    eapply parses_seq; [tag|]. apply (parses_chars1 G_xml ws [32]); [discriminate|reflexivity|].
    destruct (escape_head_quote s) as [q [t [-> Hq]]]. exact Hq.
Qed.

Lemma external_id_parts_of sys pub : ext_ok sys pub ->
  Some (fst (external_id_parts (ext_of sys pub))) = sys /\ snd (external_id_parts (ext_of sys pub)) = pub.
Proof. destruct sys as [s|]; [|intros []]. destruct pub; intros _; split; reflexivity. Qed.

(** ** EntityValue *)
Definition ev_piece (q : N) : pexpr :=
  Alt (Map L_model_EntityValue_text (xc_char_except1 [37;38;q]))
      (Alt (Map L_model_EntityValue_pe_reference (NT nt_pe_reference)) (Map L_model_EntityValue_reference (NT nt_reference))).

Lemma body_entity_value : body G_xml nt_entity_value =
  Alt (SeqR (Tag [34]) (SeqL (Many0 (ev_piece 34)) (Tag [34]))) (SeqR (Tag [39]) (SeqL (Many0 (ev_piece 39)) (Tag [39]))).
Proof. reflexivity. Qed.
Lemma body_pe_reference : body G_xml nt_pe_reference = SeqR (Tag [37]) (SeqL (NT nt_name) (Tag [59])).
Proof. reflexivity. Qed.

Definition un_ev (v : ent_value) : entity_value :=
  match v with
  | XvCharacter num r => EvReference (RefChar num r)
  | XvEntity n => EvReference (RefEntity n)
  | XvParameter n => EvPeReference n
  | XvText s => EvText s
  end.

Lemma build_ent_value_un v : build_ent_value (un_ev v) = v.
Proof. destruct v; reflexivity. Qed.

Fixpoint ev_ok (q : N) (after_text : bool) (l : list ent_value) : Prop :=
  match l with
  | [] => True
  | XvText s :: l' => after_text = false /\ s <> [] /\ forallb (eval (is_char_except [37;38;q])) s = true /\ ev_ok q true l'
  | XvCharacter num r :: l' => reference_ok (RefChar num r) /\ ev_ok q false l'
  | XvEntity n :: l' => name_ok n /\ ev_ok q false l'
  | XvParameter _ :: _ => False
  end.

Definition d_evs (l : list ent_value) : str := flat_map d_ent_value l.

Lemma d_ent_value_ref v : match v with XvCharacter num r => d_ent_value v = d_reference (RefChar num r)
                                    | XvEntity n => d_ent_value v = d_reference (RefEntity n) | _ => True end.
Proof. destruct v as [num [|]|n|n|s]; reflexivity. Qed.

Lemma fails_pe_reference (s : str) : prefix [37] s = None -> F (NT nt_pe_reference) s.
Proof. intros H. apply fails_nt. rewrite body_pe_reference. apply fails_seqr_l. apply fails_tag. exact H. Qed.

Lemma stops_ev_next (q : N) (l : list ent_value) (r : str) : q = 34 \/ q = 39 -> ev_ok q true l ->
  stops (eval (is_char_except [37;38;q])) (d_evs l ++ q :: r).
Proof.
  intros Hq. destruct l as [|v l]; cbn [ev_ok d_evs flat_map app].
  - intros _. destruct Hq as [->| ->]; reflexivity.
  - destruct v as [num rd|n|n|s]; cbn [ev_ok]; try (intros []; fail).
    + intros _. destruct rd; cbn [d_ent_value d_charref app]; unfold s_amp_hash, s_amp_hash_x; cbn [app];
        destruct Hq as [->| ->]; reflexivity.
    + intros _. cbn [d_ent_value d_entref app]. destruct Hq as [->| ->]; reflexivity.
    + intros [H _]. discriminate.
Qed.

Lemma many_ev (q : N) (r : str) : q = 34 \/ q = 39 -> forall l b, ev_ok q b l ->
  many_yields (ev_piece q) (d_evs l ++ q :: r) (map VEntityValue (map un_ev l)) (q :: r).
Proof.
  intros Hq. induction l as [|v l IH]; intros b Hl.
  - cbn [d_evs flat_map app map]. apply my_stop. unfold ev_piece. repeat apply fails_alt; apply fails_map.
    + apply fails_chars1. destruct Hq as [->| ->]; reflexivity.
    + apply fails_pe_reference. destruct Hq as [->| ->]; reflexivity.
    + apply fails_reference_quote. exact Hq.
  - assert (forall x, reference_ok x -> ev_ok q false l ->
              many_yields (ev_piece q) (d_reference x ++ d_evs l ++ q :: r)
                          (VEntityValue (EvReference x) :: map VEntityValue (map un_ev l)) (q :: r)) as Href.
    { intros x Hx Hl'. eapply my_step; [| |apply (IH false Hl')].
      - unfold ev_piece. destruct (d_reference_head x) as [t Et]. apply yields_alt_r.
        + apply fails_map. apply fails_chars1. rewrite Et. cbn [app]. destruct Hq as [->| ->]; reflexivity.
        + apply yields_alt_r.
          * apply fails_map. apply fails_pe_reference. rewrite Et. reflexivity.
          * apply (yields_map' (VReference x)); [reflexivity|]. apply yields_reference. exact Hx.
      - rewrite (app_length (d_reference x)). pose proof (d_reference_length x). unfold str, char in *. lia. }
    destruct v as [num rd|n|n|s]; cbn [ev_ok] in Hl; cbn [d_evs flat_map map un_ev]; fold (d_evs l); rewrite <- app_assoc.
    + destruct Hl as [Hx Hl]. assert (d_ent_value (XvCharacter num rd) = d_reference (RefChar num rd)) as -> by (destruct rd; reflexivity).
      apply Href; assumption.
    + destruct Hl as [Hx Hl]. change (d_ent_value (XvEntity n)) with (d_reference (RefEntity n)). apply Href; assumption.
    + contradiction.
    + destruct Hl as [_ [Hne [Hs Hl]]]. cbn [d_ent_value]. eapply my_step; [| |apply (IH true Hl)].
      * unfold ev_piece. apply yields_alt_l. apply (yields_map' (VStr s)); [reflexivity|]. apply yields_str.
        apply parses_chars1; [exact Hne|exact Hs|apply stops_ev_next; assumption].
      * rewrite (app_length s). destruct s; [contradiction|cbn [length]; unfold str, char in *; lia].
Qed.

Theorem entity_value_rt (l : list ent_value) (r : str) : ev_ok (str_quote (d_evs l)) false l ->
  yields (NT nt_entity_value) (escape (d_evs l) ++ r) (VList (map VEntityValue (map un_ev l))) r.
Proof.
  intros Hl. rewrite escape_str_quote. norm_app. apply yields_nt. rewrite body_entity_value.
  pose proof (yields_many0 _ _ _ _ (many_ev _ r (str_quote_cases (d_evs l)) l false Hl)) as Hm.
  destruct (str_quote_cases (d_evs l)) as [E|E]; rewrite E in *.
  - apply yields_alt_l. eapply yields_seqr; [tag|]. eapply yields_seql; [exact Hm|tag].
  - apply yields_alt_r; [apply fails_seqr_l; apply fails_tag; reflexivity|].
    eapply yields_seqr; [tag|]. eapply yields_seql; [exact Hm|tag].
Qed.

(** ** general entity declarations *)
Lemma body_ge_decl : body G_xml nt_ge_decl =
  Map L_model_DeclarationGeneralEntity_from
    (Seq (SeqR (Seq (Tag [60;33;69;78;84;73;84;89]) (Chars1 ws)) (SeqL (NT nt_name) (Chars1 ws)))
         (SeqL (NT nt_entity_def) (Seq (Chars0 ws) (Tag [62])))).
Proof. reflexivity. Qed.
Lemma body_entity_def : body G_xml nt_entity_def =
  Alt (Map L_model_DeclarationEntityDef_from (NT nt_entity_value))
      (Map L_model_DeclarationEntityDef_from (Seq (NT nt_external_id) (Opt (NT nt_ndata_decl)))).
Proof. reflexivity. Qed.
Lemma body_ndata_decl : body G_xml nt_ndata_decl =
  SeqR (Seq (Chars1 ws) (Seq (Tag [78;68;65;84;65]) (Chars1 ws))) (NT nt_name).
Proof. reflexivity. Qed.
Lemma body_entity_decl : body G_xml nt_entity_decl =
  Alt (Map L_model_DeclarationEntity_from (NT nt_ge_decl)) (Map L_model_DeclarationEntity_from (NT nt_pe_decl)).
Proof. reflexivity. Qed.

Lemma al_entity_def_value (l : list entity_value) :
  apply_label L_model_DeclarationEntityDef_from (VList (map VEntityValue l)) = VEntityDef (EdValue l).
Proof.
  change (apply_label L_model_DeclarationEntityDef_from (VList (map VEntityValue l)))
    with (ret (fun x => VEntityDef (EdValue x)) (as_list as_entity_value (VList (map VEntityValue l)))).
  rewrite as_list_map by reflexivity. reflexivity.
Qed.

Definition entity_def_of (e : entity) : entity_def :=
  match en_values e with
  | Some vs => EdValue (map un_ev vs)
  | None => EdExternal (ext_of (en_system e) (en_public e)) (en_notation e)
  end.

(** the invariants of a declared general entity *)
Definition entity_wf (e : entity) : Prop :=
  name_ok (en_name e) /\ en_name e <> [] /\
  match en_values e with
  | Some vs => en_system e = None /\ en_public e = None /\ en_notation e = None
               /\ ev_ok (str_quote (d_evs vs)) false vs
               /\ Forall (fun v => match v with XvCharacter num r => exists c, char_from num r = IOk c | _ => True end) vs
  | None => ext_ok (en_system e) (en_public e) /\ match en_notation e with Some n => name_ok n | None => True end
  end.

Lemma name_ok_not_ws_head (n : str) : name_ok n -> n <> [] -> exists c t, n = c :: t /\ eval ws c = false.
Proof.
  destruct n as [|c t]; [contradiction|]. intros H _. exists c, t. split; [reflexivity|].
  apply name_char_not_ws. unfold name_ok in H. cbn [forallb] in H. apply andb_prop in H. tauto.
Qed.

Lemma stops_name_space : forall r : str, stops (eval is_name_char) (32 :: r).
Proof. reflexivity. Qed.

Lemma ev_ok_no_pe q l : forall b, ev_ok q b l -> Forall (fun v => match v with XvParameter _ => False | _ => True end) l.
Proof.
  induction l as [|v l IH]; intros b H; constructor.
  - destruct v; cbn [ev_ok] in H; try exact I. contradiction.
  - destruct v; cbn [ev_ok] in H; try contradiction; eapply IH; apply H.
Qed.

Lemma check_entity_values_un vs :
  Forall (fun v => match v with XvParameter _ => False | _ => True end) vs ->
  Forall (fun v => match v with XvCharacter num r => exists c, char_from num r = IOk c | _ => True end) vs ->
  check_entity_values (map un_ev vs) = IOk tt.
Proof.
  induction vs as [|v vs IH]; intros H1 H2; [reflexivity|].
  inversion H1 as [|? ? Hv1 Hr1]; inversion H2 as [|? ? Hv2 Hr2]; subst.
  destruct v as [num r|n|n|s]; cbn [map un_ev check_entity_values].
  - destruct Hv2 as [c Hc]. rewrite Hc. cbn [ibind]. apply IH; assumption.
  - apply IH; assumption.
  - contradiction.
  - apply IH; assumption.
Qed.

Definition s_ent_tail (e : entity) : str :=
  match en_notation e with Some n => s_ndata ++ n | None => [] end ++ [62].

Theorem ge_decl_rt (e : entity) (r : str) : entity_wf e ->
  yields (NT nt_ge_decl) (d_entity e ++ r) (VGeneralEntity (en_name e) (entity_def_of e)) r
  /\ build_entity (en_name e) (entity_def_of e) = e /\ check_entity_decl (entity_def_of e) = IOk tt.
Proof.
  destruct e as [name values sys pub nd]. unfold entity_wf, entity_def_of. cbn [en_name en_values en_system en_public en_notation].
  intros [Hn [Hne Hv]].
  assert (forall z : str, stops (eval ws) z ->
            P (SeqR (Seq (Tag [60;33;69;78;84;73;84;89]) (Chars1 ws)) (SeqL (NT nt_name) (Chars1 ws)))
              (s_entity_open ++ name ++ 32 :: z) (TStr name) z) as Hhead.
  { intros z Hz. unfold s_entity_open.
    change ([60;33;69;78;84;73;84;89;32] ++ name ++ 32 :: z) with ([60;33;69;78;84;73;84;89] ++ [32] ++ name ++ [32] ++ z).
    eapply parses_seqr.
    - eapply parses_seq; [apply parses_tag|]. apply parses_chars1; [discriminate|reflexivity|].
      destruct (name_ok_not_ws_head name Hn Hne) as [c [t [-> Hc]]]. exact Hc.
    - eapply parses_seql; [apply parses_name; [exact Hn|exact eq_refl]|].
      apply parses_chars1; [discriminate|reflexivity|exact Hz]. }
  destruct values as [vs|].
  - (* internal *) destruct Hv as [-> [-> [-> [Hev Hch]]]]. split; [|split].
    + apply yields_nt. rewrite body_ge_decl.
      apply (yields_map' (VPair (VStr name) (VEntityDef (EdValue (map un_ev vs))))); [reflexivity|].
      unfold d_entity. cbn [en_name en_values en_system en_public en_notation app]. fold (d_evs vs). rewrite <- !app_assoc. cbn [app].
      destruct (escape_head_quote (d_evs vs)) as [q [t [Eq Hq]]].
      eapply yields_seq; [apply yields_str; apply Hhead; rewrite <- app_assoc, Eq; exact Hq|].
      eapply yields_seql.
      { apply yields_nt. rewrite body_entity_def. apply yields_alt_l.
        eapply yields_map'; [apply al_entity_def_value|]. rewrite <- ?app_assoc. apply entity_value_rt. exact Hev. }
      eapply parses_seq; [apply parses_chars0_nil; exact eq_refl|apply (parses_tag G_xml [62] r)].
    + unfold build_entity. rewrite map_map. f_equal. f_equal. rewrite <- (map_id vs) at 2. apply map_ext. apply build_ent_value_un.
    + cbn [check_entity_decl]. apply check_entity_values_un; [eapply ev_ok_no_pe; exact Hev|exact Hch].
  - (* external *) destruct Hv as [Hx Hnd]. split; [|split; [|reflexivity]].
    + destruct (external_id_rt sys pub (match nd with Some n => s_ndata ++ n | None => [] end ++ 62 :: r) Hx) as [t [Et Hy]].
      apply yields_nt. rewrite body_ge_decl.
      apply (yields_map' (VPair (VStr name) (VEntityDef (EdExternal (ext_of sys pub) nd)))); [reflexivity|].
      assert (d_entity (Entity name None sys pub nd)
              = s_entity_open ++ name ++ d_external pub sys ++ match nd with Some n => s_ndata ++ n | None => [] end ++ [62]) as Ed.
      { unfold d_entity. cbn [en_name en_values en_system en_public en_notation]. destruct sys; [|destruct Hx]. destruct pub; reflexivity. }
      rewrite Ed, Et. norm_app.
      assert (exists c u, t = c :: u /\ eval ws c = false) as [c [u [Ec Hc]]].
      { unfold d_external, s_public, s_system in Et. destruct sys; [|destruct Hx]. destruct pub; injection Et as <-; eexists; eexists; split; reflexivity. }
      eapply yields_seq; [apply yields_str; apply Hhead; rewrite Ec; exact Hc|].
      eapply yields_seql.
      * apply yields_nt. rewrite body_entity_def. apply yields_alt_r.
        -- apply fails_map. apply fails_nt. rewrite body_entity_value. rewrite Ec.
           unfold d_external, s_public, s_system in Et. destruct sys; [|destruct Hx].
           destruct pub; injection Et as Et'; rewrite Ec in Et'; injection Et' as <- _;
             (apply fails_alt; apply fails_seqr_l; apply fails_tag; reflexivity).
        -- apply (yields_map' (VPair (VExternalId (ext_of sys pub)) (match nd with Some n => VSome (VStr n) | None => VNone end))).
           { destruct nd; reflexivity. }
           eapply yields_seq; [exact Hy|].
           destruct nd as [n|].
           ++ apply yields_opt_some. apply yields_str. apply parses_nt. rewrite body_ndata_decl. unfold s_ndata. norm_app.
              eapply parses_seqr.
              ** eapply parses_seq; [sp|]. eapply parses_seq; [tag|].
                 apply (parses_chars1 G_xml ws [32]); [discriminate|reflexivity|].
                 destruct n as [|c' n']; [exact eq_refl|]. cbn [app stops]. apply name_char_not_ws.
                 unfold name_ok in Hnd. cbn [forallb] in Hnd. apply andb_prop in Hnd. tauto.
              ** apply parses_name; [exact Hnd|exact eq_refl].
           ++ cbn [app]. apply yields_opt_none. apply fails_nt. rewrite body_ndata_decl. apply fails_seqr_l.
              apply fails_seq_l. apply fails_chars1. exact eq_refl.
      * eapply parses_seq; [apply parses_chars0_nil; exact eq_refl|apply (parses_tag G_xml [62] r)].
    + unfold build_entity. destruct (external_id_parts_of sys pub Hx) as [E1 E2]. rewrite E1, E2. reflexivity.
Qed.

(** ** notation declarations *)
Lemma body_notation_decl : body G_xml nt_notation_decl =
  Map L_model_DeclarationNotation_from
    (Seq (SeqR (Seq (Tag [60;33;78;79;84;65;84;73;79;78]) (Chars1 ws)) (NT nt_name))
         (SeqR (Chars1 ws) (SeqL (Alt (Map L_model_DeclarationNotationId_from (NT nt_external_id))
                                      (Map L_model_DeclarationNotationId_from (NT nt_public_id)))
                                 (Seq (Chars0 ws) (Tag [62]))))).
Proof. reflexivity. Qed.
Lemma body_public_id : body G_xml nt_public_id = SeqR (Seq (Tag [80;85;66;76;73;67]) (Chars1 ws)) (NT nt_pubid_literal).
Proof. reflexivity. Qed.

Definition notation_wf (n : notation) : Prop :=
  name_ok (no_name n) /\ no_name n <> [] /\
  match no_system n, no_public n with
  | Some s, p => ext_ok (Some s) p
  | None, Some p => pubid_ok p
  | None, None => False
  end.

Definition notation_id_of (n : notation) : notation_id :=
  match no_system n, no_public n with
  | Some s, p => NiExternal (ext_of (Some s) p)
  | None, Some p => NiPublic p
  | None, None => NiPublic []
  end.

Theorem notation_decl_rt (n : notation) (r : str) : notation_wf n ->
  yields (NT nt_notation_decl) (d_notation n ++ r) (VDeclNotation (DeclNotation (no_name n) (notation_id_of n))) r
  /\ build_notation (DeclNotation (no_name n) (notation_id_of n)) = n.
Proof.
  destruct n as [name sys pub]. unfold notation_wf, notation_id_of, d_notation. cbn [no_name no_system no_public].
  intros [Hn [Hne Hid]].
  assert (forall z : str, P (Seq (SeqR (Seq (Tag [60;33;78;79;84;65;84;73;79;78]) (Chars1 ws)) (NT nt_name)) (Chars1 ws))
                            (s_notation_open ++ name ++ 32 :: z) (TPair (TStr name) (TStr [32])) z -> True) as _ by auto.
  assert (forall z : str, stops (eval ws) z ->
            exists t, P (SeqR (Seq (Tag [60;33;78;79;84;65;84;73;79;78]) (Chars1 ws)) (NT nt_name))
                        (s_notation_open ++ name ++ 32 :: z) t (32 :: z) /\ t = TStr name) as Hhead.
  { intros z Hz. exists (TStr name). split; [|reflexivity]. unfold s_notation_open.
    change ([60;33;78;79;84;65;84;73;79;78;32] ++ name ++ 32 :: z) with ([60;33;78;79;84;65;84;73;79;78] ++ [32] ++ name ++ 32 :: z).
    eapply parses_seqr.
    - eapply parses_seq; [apply parses_tag|]. apply parses_chars1; [discriminate|reflexivity|].
      destruct (name_ok_not_ws_head name Hn Hne) as [c [t [-> Hc]]]. exact Hc.
    - apply parses_name; [exact Hn|exact eq_refl]. }
  destruct sys as [s|].
  - (* SYSTEM / PUBLIC with system literal *)
    destruct (external_id_rt (Some s) pub (62 :: r) Hid) as [t [Et Hy]]. split.
    + apply yields_nt. rewrite body_notation_decl.
      apply (yields_map' (VPair (VStr name) (VNotationId (NiExternal (ext_of (Some s) pub))))); [reflexivity|].
      rewrite Et. norm_app.
      assert (exists c u, t = c :: u /\ eval ws c = false) as [c [u [Ec Hc]]].
      { unfold d_external, s_public, s_system in Et. destruct pub; injection Et as <-; eexists; eexists; split; reflexivity. }
      destruct (Hhead (t ++ 62 :: r)) as [th [Hp ->]]; [rewrite Ec; exact Hc|].
      eapply yields_seq; [apply yields_str; exact Hp|].
      eapply yields_seqr; [apply (parses_chars1 G_xml ws [32]); [discriminate|reflexivity|rewrite Ec; exact Hc]|].
      eapply yields_seql.
      { apply yields_alt_l. apply (yields_map' (VExternalId (ext_of (Some s) pub))); [reflexivity|]. exact Hy. }
      eapply parses_seq; [apply parses_chars0_nil; exact eq_refl|apply (parses_tag G_xml [62] r)].
    + unfold build_notation. cbn [dn_id dn_name]. destruct pub; reflexivity.
  - destruct pub as [p|]; [|destruct Hid]. split; [|reflexivity].
    apply yields_nt. rewrite body_notation_decl.
    apply (yields_map' (VPair (VStr name) (VNotationId (NiPublic p)))); [reflexivity|].
    unfold d_external, s_public. norm_app.
    destruct (Hhead (80 :: 85 :: 66 :: 76 :: 73 :: 67 :: 32 :: escape p ++ 62 :: r) eq_refl) as [th [Hp ->]].
    eapply yields_seq; [apply yields_str; exact Hp|].
    eapply yields_seqr; [apply (parses_chars1 G_xml ws [32]); [discriminate|reflexivity|exact eq_refl]|].
    destruct (escape_head_quote p) as [q [t [Eq Hq]]].
    eapply yields_seql.
    { apply yields_alt_r.
      - apply fails_map. apply fails_nt. rewrite body_external_id. apply fails_alt.
        + apply fails_map. apply fails_seqr_l. apply fails_seq_l. apply fails_tag. reflexivity.
        + apply fails_map. eapply fails_seqr_r.
          * eapply parses_seq; [tag|]. apply (parses_chars1 G_xml ws [32]); [discriminate|reflexivity|rewrite Eq; exact Hq].
          * destruct (pubid_literal_rt p (62 :: r) Hid) as [tp [Hpp _]].
            eapply fails_seq_r; [exact Hpp|]. apply fails_seqr_l. apply fails_chars1. exact eq_refl.
      - apply (yields_map' (VStr p)); [reflexivity|]. apply yields_nt. rewrite body_public_id.
        eapply yields_seqr; [|apply pubid_literal_rt; exact Hid].
        eapply parses_seq; [tag|]. apply (parses_chars1 G_xml ws [32]); [discriminate|reflexivity|rewrite Eq; exact Hq]. }
    eapply parses_seq; [apply parses_chars0_nil; exact eq_refl|apply (parses_tag G_xml [62] r)].
Qed.

(** ** attribute-list declarations *)
Definition bar_sep : pexpr := Seq (Chars0 ws) (Seq (Tag [124]) (Chars0 ws)).

Lemma body_att_type : body G_xml nt_att_type =
  Alt (NT nt_enumerated_type) (Alt (Map L_closure_aad7a7dd (Tag [67;68;65;84;65])) (Alt (Map L_closure_13274102 (Tag [73;68;82;69;70;83]))
  (Alt (Map L_closure_37dcd20d (Tag [73;68;82;69;70])) (Alt (Map L_closure_965707e8 (Tag [73;68])) (Alt (Map L_closure_cb1d4c33 (Tag [69;78;84;73;84;73;69;83]))
  (Alt (Map L_closure_f8f5585b (Tag [69;78;84;73;84;89])) (Alt (Map L_closure_cf16e71f (Tag [78;77;84;79;75;69;78;83])) (Map L_closure_1e7e0608 (Tag [78;77;84;79;75;69;78]))))))))).
Proof. reflexivity. Qed.
Lemma body_enumerated_type : body G_xml nt_enumerated_type =
  Alt (Map L_model_DeclarationAttType_Notation (NT nt_notation_type)) (Map L_model_DeclarationAttType_Enumeration (NT nt_enumeration)).
Proof. reflexivity. Qed.
Lemma body_notation_type : body G_xml nt_notation_type =
  Map L_closure_441e6bc9 (SeqR (Seq (Tag [78;79;84;65;84;73;79;78]) (Seq (Chars1 ws) (Seq (Tag [40]) (Chars0 ws))))
    (SeqL (Seq (NT nt_name) (Many0 (SeqR bar_sep (NT nt_name)))) (Seq (Chars0 ws) (Tag [41])))).
Proof. reflexivity. Qed.
Lemma body_enumeration : body G_xml nt_enumeration =
  Map L_closure_441e6bc9 (SeqR (Seq (Tag [40]) (Chars0 ws))
    (SeqL (Seq (NT nt_nmtoken) (Many0 (SeqR bar_sep (NT nt_nmtoken)))) (Seq (Chars0 ws) (Tag [41])))).
Proof. reflexivity. Qed.
Lemma body_nmtoken : body G_xml nt_nmtoken = Chars1 is_name_char.
Proof. reflexivity. Qed.

Definition nmtoken_ok (x : str) : Prop := x <> [] /\ name_ok x.

Lemma parses_nmtoken (x z : str) : nmtoken_ok x -> stops (eval is_name_char) z -> P (NT nt_nmtoken) (x ++ z) (TStr x) z.
Proof. intros [Hne Hx] Hz. apply parses_nt. rewrite body_nmtoken. apply parses_chars1; assumption. Qed.

Lemma join_bar_cons (f : str) (l : list str) : join_bar (f :: l) = f ++ flat_map (fun x => 124 :: x) l.
Proof.
  revert f. induction l as [|y l IH]; intros f.
  - cbn [join_bar flat_map]. rewrite app_nil_r. reflexivity.
  - change (join_bar (f :: y :: l)) with (f ++ 124 :: join_bar (y :: l)). rewrite IH. reflexivity.
Qed.

Lemma stops_ws_name_or (x z : str) c : name_ok x -> z = c :: [] ++ z -> True.
Proof. auto. Qed.

(** `|x|y ... )` after the first item *)
Lemma bar_list_rt (it : pexpr) (okp : str -> Prop) :
  (forall x, okp x -> name_ok x) ->
  (forall x z, okp x -> stops (eval is_name_char) z -> P it (x ++ z) (TStr x) z) ->
  forall (l : list str) (z : str), Forall okp l ->
    many_yields (SeqR bar_sep it) (flat_map (fun x => 124 :: x) l ++ 41 :: z) (map VStr l) (41 :: z).
Proof.
  intros Hname Hit. induction l as [|x l IH]; intros z Hl.
  - cbn [flat_map app map]. apply my_stop. apply fails_seqr_l. unfold bar_sep.
    eapply fails_seq_r; [apply parses_chars0_nil; exact eq_refl|]. apply fails_seq_l. apply fails_tag. reflexivity.
  - inversion Hl as [|? ? Hx Hl']; subst. cbn [flat_map map]. norm_app.
    assert (stops (eval is_name_char) (flat_map (fun x => 124 :: x) l ++ 41 :: z)) as Hst.
    { destruct l; cbn [flat_map app]; exact eq_refl. }
    eapply my_step; [| |apply IH; exact Hl'].
    + eapply yields_seqr; [|apply yields_str; apply Hit; [exact Hx|exact Hst]].
      unfold bar_sep. eapply parses_seq; [apply parses_chars0_nil; exact eq_refl|].
      eapply parses_seq; [tag|]. apply parses_chars0_nil.
      pose proof (Hname x Hx) as Hn. destruct x as [|c x'].
      * cbn [app]. destruct l; cbn [flat_map app]; exact eq_refl.
      * cbn [app stops]. apply name_char_not_ws. unfold name_ok in Hn. cbn [forallb] in Hn. apply andb_prop in Hn. tauto.
    + cbn [length]. rewrite (app_length x). unfold str, char in *. lia.
Qed.

Definition att_type_wf (t : att_type) : Prop :=
  match t with
  | AtNotation l => l <> [] /\ Forall name_ok l
  | AtEnumeration l => l <> [] /\ Forall nmtoken_ok l
  | _ => True
  end.

Lemma al_441e (f : str) (l : list str) :
  apply_label L_closure_441e6bc9 (VPair (VStr f) (VList (map VStr l))) = VList (map VStr (f :: l)).
Proof. reflexivity. Qed.
Lemma al_notation_type (l : list str) : apply_label L_model_DeclarationAttType_Notation (VList (map VStr l)) = VAttType (AtNotation l).
Proof.
  change (apply_label L_model_DeclarationAttType_Notation (VList (map VStr l)))
    with (ret (fun x => VAttType (AtNotation x)) (as_list as_str (VList (map VStr l)))).
  rewrite as_list_map by reflexivity. reflexivity.
Qed.
Lemma al_enumeration_type (l : list str) : apply_label L_model_DeclarationAttType_Enumeration (VList (map VStr l)) = VAttType (AtEnumeration l).
Proof.
  change (apply_label L_model_DeclarationAttType_Enumeration (VList (map VStr l)))
    with (ret (fun x => VAttType (AtEnumeration x)) (as_list as_str (VList (map VStr l)))).
  rewrite as_list_map by reflexivity. reflexivity.
Qed.

Lemma fails_enumerated_type (s : str) : prefix [78;79;84;65;84;73;79;78] s = None -> prefix [40] s = None -> F (NT nt_enumerated_type) s.
Proof.
  intros H1 H2. apply fails_nt. rewrite body_enumerated_type. apply fails_alt; apply fails_map; apply fails_nt.
  - rewrite body_notation_type. apply fails_map. apply fails_seqr_l. apply fails_seq_l. apply fails_tag. exact H1.
  - rewrite body_enumeration. apply fails_map. apply fails_seqr_l. apply fails_seq_l. apply fails_tag. exact H2.
Qed.

Theorem att_type_rt (t : att_type) (r : str) : att_type_wf t ->
  yields (NT nt_att_type) (d_att_type t ++ 32 :: r) (VAttType t) (32 :: r).
Proof.
  intros Hw. apply yields_nt. rewrite body_att_type.
  destruct t as [| | | | | | | |l|l]; cbn [d_att_type att_type_wf] in *.
  1-8: apply yields_alt_r; [apply fails_enumerated_type; reflexivity|].
  - (* CDATA *) apply yields_alt_l. apply (yields_map' (VStr [67;68;65;84;65])); [reflexivity|]. apply yields_str. tag.
  - (* ENTITIES *) do 4 (apply yields_alt_r; [apply fails_map; apply fails_tag; reflexivity|]).
    apply yields_alt_l. apply (yields_map' (VStr [69;78;84;73;84;73;69;83])); [reflexivity|]. apply yields_str. tag.
  - (* ENTITY *) do 5 (apply yields_alt_r; [apply fails_map; apply fails_tag; reflexivity|]).
    apply yields_alt_l. apply (yields_map' (VStr [69;78;84;73;84;89])); [reflexivity|]. apply yields_str. tag.
  - (* ID *) do 3 (apply yields_alt_r; [apply fails_map; apply fails_tag; reflexivity|]).
    apply yields_alt_l. apply (yields_map' (VStr [73;68])); [reflexivity|]. apply yields_str. tag.
  - (* IDREF *) do 2 (apply yields_alt_r; [apply fails_map; apply fails_tag; reflexivity|]).
    apply yields_alt_l. apply (yields_map' (VStr [73;68;82;69;70])); [reflexivity|]. apply yields_str. tag.
  - (* IDREFS *) do 1 (apply yields_alt_r; [apply fails_map; apply fails_tag; reflexivity|]).
    apply yields_alt_l. apply (yields_map' (VStr [73;68;82;69;70;83])); [reflexivity|]. apply yields_str. tag.
  - (* NMTOKEN *) do 7 (apply yields_alt_r; [apply fails_map; apply fails_tag; reflexivity|]).
    apply (yields_map' (VStr [78;77;84;79;75;69;78])); [reflexivity|]. apply yields_str. tag.
  - (* NMTOKENS *) do 6 (apply yields_alt_r; [apply fails_map; apply fails_tag; reflexivity|]).
    apply yields_alt_l. apply (yields_map' (VStr [78;77;84;79;75;69;78;83])); [reflexivity|]. apply yields_str. tag.
  - (* NOTATION (a|b) *) destruct Hw as [Hne Hl]. destruct l as [|f l]; [contradiction|]. inversion Hl as [|? ? Hf Hl']; subst.
    apply yields_alt_l. apply yields_nt. rewrite body_enumerated_type. apply yields_alt_l.
    eapply yields_map'; [apply al_notation_type|]. apply yields_nt. rewrite body_notation_type.
    eapply yields_map'; [apply al_441e|]. unfold s_notation_paren. rewrite join_bar_cons. norm_app.
    eapply yields_seqr.
    { eapply parses_seq; [tag|]. eapply parses_seq; [sp|]. eapply parses_seq; [tag|].
      apply parses_chars0_nil. destruct f as [|c f']; [destruct l; cbn [flat_map app]; exact eq_refl|].
      cbn [app stops]. apply name_char_not_ws. unfold name_ok in Hf. cbn [forallb] in Hf. apply andb_prop in Hf. tauto. }
    eapply yields_seql.
    { eapply yields_seq.
      - apply yields_str. apply parses_name; [exact Hf|]. destruct l; cbn [flat_map app]; exact eq_refl.
      - apply yields_many0. apply (bar_list_rt (NT nt_name) name_ok); [auto|intros; apply parses_name; assumption|exact Hl']. }
    eapply parses_seq; [apply parses_chars0_nil; exact eq_refl|tag].
  - (* (a|b) *) destruct Hw as [Hne Hl]. destruct l as [|f l]; [contradiction|]. inversion Hl as [|? ? Hf Hl']; subst.
    apply yields_alt_l. apply yields_nt. rewrite body_enumerated_type. apply yields_alt_r.
    { apply fails_map. apply fails_nt. rewrite body_notation_type. apply fails_map. apply fails_seqr_l. apply fails_seq_l.
      apply fails_tag. reflexivity. }
    eapply yields_map'; [apply al_enumeration_type|]. apply yields_nt. rewrite body_enumeration.
    eapply yields_map'; [apply al_441e|]. rewrite join_bar_cons. norm_app.
    eapply yields_seqr.
    { eapply parses_seq; [tag|]. apply parses_chars0_nil. destruct Hf as [Hfn Hf]. destruct f as [|c f']; [contradiction|].
      cbn [app stops]. apply name_char_not_ws. unfold name_ok in Hf. cbn [forallb] in Hf. apply andb_prop in Hf. tauto. }
    eapply yields_seql.
    { eapply yields_seq.
      - apply yields_str. apply parses_nmtoken; [exact Hf|]. destruct l; cbn [flat_map app]; exact eq_refl.
      - apply yields_many0. apply (bar_list_rt (NT nt_nmtoken) nmtoken_ok); [intros x [_ H]; exact H|intros; apply parses_nmtoken; assumption|exact Hl']. }
    eapply parses_seq; [apply parses_chars0_nil; exact eq_refl|tag].
Qed.

Lemma body_default_decl : body G_xml nt_default_decl =
  Alt (Map L_closure_813e2abc (Tag [35;82;69;81;85;73;82;69;68])) (Alt (Map L_closure_9e9af08f (Tag [35;73;77;80;76;73;69;68]))
      (Map L_closure_891fe81b (Seq (Opt (SeqL (Tag [35;70;73;88;69;68]) (Chars1 ws))) (NT nt_att_value)))).
Proof. reflexivity. Qed.
Lemma body_att_def : body G_xml nt_att_def =
  Map L_model_DeclarationAttDef_from
    (Seq (SeqR (Chars1 ws) (Alt (Map L_model_DeclarationAttName_Attr (NT nt_qname)) (Map L_model_DeclarationAttName_Namsspace (NT nt_ns_att_name))))
         (Seq (SeqR (Chars1 ws) (NT nt_att_type)) (SeqR (Chars1 ws) (NT nt_default_decl)))).
Proof. reflexivity. Qed.
Lemma body_attlist_decl : body G_xml nt_attlist_decl =
  Map L_model_DeclarationAtt_from (SeqR (Seq (Tag [60;33;65;84;84;76;73;83;84]) (Chars1 ws))
    (SeqL (Seq (NT nt_qname) (Many0 (NT nt_att_def))) (Seq (Chars0 ws) (Tag [62])))).
Proof. reflexivity. Qed.

Definition s_fixed_tag : str := [35;70;73;88;69;68].

Section AttList.
Variable acc : list entity.
Variable ext : bool.

Definition adefault_wf (d : adefault) : Prop :=
  match d with
  | XdValue f vs => (f = None \/ f = Some s_fixed_tag) /\ values_wf acc ext vs
  | _ => True
  end.

Definition un_adefault (d : adefault) : att_default :=
  match d with
  | XdRequired => AdRequired
  | XdImplied => AdImplied
  | XdValue f vs => AdValue f (map un_avalue vs)
  end.

Lemma al_default_value f (l : list att_value) :
  apply_label L_closure_891fe81b (VPair (match f with Some x => VSome (VStr x) | None => VNone end) (VList (map VAttValue l)))
  = VAttDefault (AdValue f l).
Proof.
  change (apply_label L_closure_891fe81b (VPair (match f with Some x => VSome (VStr x) | None => VNone end) (VList (map VAttValue l))))
    with (match as_opt as_str (match f with Some x => VSome (VStr x) | None => VNone end), as_list as_attvalue (VList (map VAttValue l)) with
          | Some f', Some a' => VAttDefault (AdValue f' a') | _, _ => VBad end).
  rewrite as_list_map by reflexivity. destruct f; reflexivity.
Qed.

(** [t]: what follows an attribute definition: the next one (a space) or the end of the declaration *)
Definition def_tail (t : str) : Prop := (exists u, t = 32 :: u) \/ (exists u, t = 62 :: u).

Theorem default_decl_rt (d : adefault) (t : str) : adefault_wf d ->
  yields (NT nt_default_decl) (d_adefault d ++ t) (VAttDefault (un_adefault d)) t
  /\ match d with XdValue f vs => build_avalues acc ext (map un_avalue vs) = IOk vs | _ => True end.
Proof.
  intros Hw. destruct d as [| |f vs]; cbn [d_adefault un_adefault adefault_wf] in *.
  - split; [|exact I]. apply yields_nt. rewrite body_default_decl. apply yields_alt_l.
    apply (yields_map' (VStr s_required)); [reflexivity|]. apply yields_str. apply parses_tag.
  - split; [|exact I]. apply yields_nt. rewrite body_default_decl.
    apply yields_alt_r; [apply fails_map; apply fails_tag; reflexivity|]. apply yields_alt_l.
    apply (yields_map' (VStr s_implied)); [reflexivity|]. apply yields_str. apply parses_tag.
  - destruct Hw as [Hf Hv]. destruct (att_value_rt acc ext vs t Hv) as [Hy Hb]. split; [|exact Hb].
    destruct Hv as [Hadj Hall]. rewrite (quote_att_value_escape acc ext vs Hall) in Hy.
    destruct (escape_head_quote (d_avalues vs)) as [q [u [Eq Hq]]].
    assert (q = 34 \/ q = 39) as Hq2.
    { unfold escape in Eq. destruct (existsb (N.eqb 34) (d_avalues vs)); injection Eq as <- _; auto. }
    apply yields_nt. rewrite body_default_decl.
    destruct Hf as [-> | ->].
    + cbn [app]. rewrite Eq in *.
      apply yields_alt_r; [apply fails_map; apply fails_tag; destruct Hq2 as [-> | ->]; reflexivity|].
      apply yields_alt_r; [apply fails_map; apply fails_tag; destruct Hq2 as [-> | ->]; reflexivity|].
      eapply yields_map'; [apply (al_default_value None)|].
      eapply yields_seq; [|exact Hy]. apply yields_opt_none. apply fails_seql_l. apply fails_tag.
      destruct Hq2 as [-> | ->]; reflexivity.
    + unfold s_fixed. norm_app.
      apply yields_alt_r; [apply fails_map; apply fails_tag; reflexivity|].
      apply yields_alt_r; [apply fails_map; apply fails_tag; reflexivity|].
      eapply yields_map'; [apply (al_default_value (Some s_fixed_tag))|].
      eapply yields_seq; [|exact Hy]. apply yields_opt_some. apply yields_str.
      eapply parses_seql; [tag|]. apply (parses_chars1 G_xml ws [32]); [discriminate|reflexivity|]. rewrite Eq. exact Hq.
Qed.

Definition attdef_wf (d : attdef) : Prop :=
  qname_ok (mk_qname (xd_prefix d) (xd_local d)) /\ att_type_wf (xd_ty d) /\ adefault_wf (xd_value d).

Definition un_attdef (d : attdef) : att_def :=
  AttDef (DanAttr (mk_qname (xd_prefix d) (xd_local d))) (xd_ty d) (un_adefault (xd_value d)).

Lemma d_adefault_head (d : adefault) : adefault_wf d -> exists c u, d_adefault d = c :: u /\ eval ws c = false.
Proof.
  destruct d as [| |f vs]; cbn [d_adefault]; intros Hw.
  - eexists. eexists. split; reflexivity.
  - eexists. eexists. split; reflexivity.
  - destruct f; [eexists; eexists; split; reflexivity|]. cbn [app]. apply escape_head_quote.
Qed.

Lemma d_att_type_head (t : att_type) : exists c u, d_att_type t = c :: u /\ eval ws c = false.
Proof. destruct t; cbn [d_att_type]; eexists; eexists; split; reflexivity. Qed.

Theorem att_def_rt (d : attdef) (t : str) : attdef_wf d -> def_tail t ->
  yields (NT nt_att_def) (32 :: d_attdef d ++ t) (VAttDef (un_attdef d)) t
  /\ build_attdef acc ext (un_attdef d) = IOk d.
Proof.
  intros [Hq [Ht Hd]] Htail. destruct (default_decl_rt (xd_value d) t Hd) as [Hyd Hbd]. split.
  - apply yields_nt. rewrite body_att_def. apply (yields_map' (VPair (VDeclAttName (DanAttr (mk_qname (xd_prefix d) (xd_local d))))
                                                  (VPair (VAttType (xd_ty d)) (VAttDefault (un_adefault (xd_value d)))))); [reflexivity|].
    unfold d_attdef. rewrite d_name_qname. norm_app.
    destruct (qname_head _ Hq) as [c [u [Ec Hc]]].
    eapply yields_seq.
    + eapply yields_seqr; [apply (parses_chars1 G_xml ws [32]); [discriminate|reflexivity|]; rewrite Ec; cbn [app stops]; apply name_start_not_ws; exact Hc|].
      apply yields_alt_l. apply (yields_map' (VQName (mk_qname (xd_prefix d) (xd_local d)))); [reflexivity|].
      exists (tree_qname (mk_qname (xd_prefix d) (xd_local d))). split; [|apply eval_tree_qname].
      apply parses_qname; [exact Hq|exact eq_refl].
    + destruct (d_att_type_head (xd_ty d)) as [c1 [u1 [E1 H1]]]. destruct (d_adefault_head _ Hd) as [c2 [u2 [E2 H2]]].
      eapply yields_seq.
      * eapply yields_seqr; [apply (parses_chars1 G_xml ws [32]); [discriminate|reflexivity|rewrite E1; exact H1]|].
        apply att_type_rt. exact Ht.
      * eapply yields_seqr; [apply (parses_chars1 G_xml ws [32]); [discriminate|reflexivity|rewrite E2; exact H2]|]. exact Hyd.
  - unfold build_attdef, un_attdef. cbn [ad_name ad_ty ad_value]. rewrite qname_parts_mk.
    destruct d as [local prefix ty dv]. cbn [xd_local xd_prefix xd_ty xd_value] in *.
    destruct dv as [| |f vs]; cbn [un_adefault ibind]; try reflexivity. rewrite Hbd. reflexivity.
Qed.

Definition attlist_wf (a : attlist) : Prop :=
  qname_ok (mk_qname (al_prefix a) (al_local a)) /\ Forall attdef_wf (al_atts a).

Definition un_attlist (a : attlist) : decl_att :=
  DeclAtt (mk_qname (al_prefix a) (al_local a)) (map un_attdef (al_atts a)).

Definition d_attdefs (l : list attdef) : str := flat_map (fun d => 32 :: d_attdef d) l.

Lemma attdefs_many (r : str) : forall l, Forall attdef_wf l ->
  many_yields (NT nt_att_def) (d_attdefs l ++ 62 :: r) (map VAttDef (map un_attdef l)) (62 :: r)
  /\ build_attdefs acc ext (map un_attdef l) = IOk l.
Proof.
  induction 1 as [|d l Hd _ [IHy IHb]]; cbn [d_attdefs flat_map map].
  - split; [|reflexivity]. apply my_stop. apply fails_nt. rewrite body_att_def. apply fails_map. apply fails_seq_l.
    apply fails_seqr_l. apply fails_chars1. exact eq_refl.
  - fold (d_attdefs l). norm_app.
    assert (def_tail (d_attdefs l ++ 62 :: r)) as Htail.
    { destruct l; cbn [d_attdefs flat_map app]; [right|left]; eexists; reflexivity. }
    destruct (att_def_rt d _ Hd Htail) as [Hy Hb]. split.
    + eapply my_step; [exact Hy| |exact IHy]. cbn [length]. rewrite (app_length (d_attdef d)). unfold str, char in *. lia.
    + cbn [build_attdefs]. rewrite Hb. cbn [ibind]. rewrite IHb. reflexivity.
Qed.

Lemma al_decl_att n (l : list att_def) :
  apply_label L_model_DeclarationAtt_from (VPair (VQName n) (VList (map VAttDef l))) = VDeclAtt (DeclAtt n l).
Proof.
  change (apply_label L_model_DeclarationAtt_from (VPair (VQName n) (VList (map VAttDef l))))
    with (ret (fun d' => VDeclAtt (DeclAtt n d')) (as_list as_att_def (VList (map VAttDef l)))).
  rewrite as_list_map by reflexivity. reflexivity.
Qed.

Theorem attlist_decl_rt (a : attlist) (r : str) : attlist_wf a ->
  yields (NT nt_attlist_decl) (d_attlist false a ++ r) (VDeclAtt (un_attlist a)) r
  /\ build_attlist acc ext (un_attlist a) = IOk a.
Proof.
  intros [Hq Hl]. destruct (attdefs_many r (al_atts a) Hl) as [Hm Hb]. split.
  - apply yields_nt. rewrite body_attlist_decl. eapply yields_map'; [apply al_decl_att|].
    unfold d_attlist, s_attlist_open. rewrite d_name_qname. fold (d_attdefs (al_atts a)). norm_app.
    destruct (qname_head _ Hq) as [c [u [Ec Hc]]].
    eapply yields_seqr.
    { eapply parses_seq; [tag|]. apply (parses_chars1 G_xml ws [32]); [discriminate|reflexivity|].
      rewrite Ec. cbn [app stops]. apply name_start_not_ws. exact Hc. }
    eapply yields_seql.
    { eapply yields_seq.
      - exists (tree_qname (mk_qname (al_prefix a) (al_local a))). split; [|apply eval_tree_qname].
        apply parses_qname; [exact Hq|]. destruct (al_atts a); cbn [d_attdefs flat_map app]; exact eq_refl.
      - apply yields_many0. exact Hm. }
    eapply parses_seq; [apply parses_chars0_nil; exact eq_refl|tag].
  - unfold build_attlist, un_attlist. cbn [da_defs da_name]. rewrite Hb. cbn [ibind]. rewrite qname_parts_mk. destruct a; reflexivity.
Qed.

End AttList.

(** ** the internal subset and the document type declaration *)
Lemma body_markup_decl : body G_xml nt_markup_decl =
  Alt (Map L_model_DeclarationMarkup_element (NT nt_element_decl)) (Alt (Map L_model_DeclarationMarkup_attributes (NT nt_attlist_decl))
  (Alt (Map L_model_DeclarationMarkup_from (NT nt_entity_decl)) (Alt (Map L_model_DeclarationMarkup_from (NT nt_notation_decl))
  (Alt (Map L_model_DeclarationMarkup_from (NT nt_pi)) (Map L_model_DeclarationMarkup_from (NT nt_comment)))))).
Proof. reflexivity. Qed.
Lemma body_int_subset : body G_xml nt_int_subset =
  Many0 (Alt (Map L_model_InternalSubset_from (NT nt_markup_decl)) (NT nt_decl_sep)).
Proof. reflexivity. Qed.
Lemma body_decl_sep : body G_xml nt_decl_sep =
  Alt (Map L_model_InternalSubset_from (NT nt_pe_reference)) (Map L_model_InternalSubset_Whitespace (Chars1 ws)).
Proof. reflexivity. Qed.
Lemma body_doctype_decl : body G_xml nt_doctype_decl =
  Map L_model_DeclarationDoc_from (Seq (SeqR (Seq (Tag [60;33;68;79;67;84;89;80;69]) (Chars1 ws)) (NT nt_qname))
    (Seq (SeqL (Opt (SeqR (Chars1 ws) (NT nt_external_id))) (Chars0 ws))
         (SeqL (Opt (SeqR (Tag [91]) (SeqL (NT nt_int_subset) (Seq (Tag [93]) (Chars0 ws))))) (Tag [62])))).
Proof. reflexivity. Qed.

Definition subset_item : pexpr := Alt (Map L_model_InternalSubset_from (NT nt_markup_decl)) (NT nt_decl_sep).

Lemma fails_element_decl (s : str) : prefix [60;33;69;76;69;77;69;78;84] s = None -> F (NT nt_element_decl) s.
Proof.
  intros H. apply fails_nt.
  change (body G_xml nt_element_decl) with
    (Map L_model_DeclarationElement_from (SeqR (Seq (Tag [60;33;69;76;69;77;69;78;84]) (Chars1 ws))
       (SeqL (Seq (NT nt_qname) (SeqR (Chars1 ws) (NT nt_content_spec))) (Seq (Chars0 ws) (Tag [62]))))).
  apply fails_map. apply fails_seqr_l. apply fails_seq_l. apply fails_tag. exact H.
Qed.
Lemma fails_attlist_decl (s : str) : prefix [60;33;65;84;84;76;73;83;84] s = None -> F (NT nt_attlist_decl) s.
Proof. intros H. apply fails_nt. rewrite body_attlist_decl. apply fails_map. apply fails_seqr_l. apply fails_seq_l. apply fails_tag. exact H. Qed.
Lemma fails_entity_decl (s : str) : prefix [60;33;69;78;84;73;84;89] s = None -> F (NT nt_entity_decl) s.
Proof.
  intros H. apply fails_nt. rewrite body_entity_decl. apply fails_alt; apply fails_map; apply fails_nt.
  - rewrite body_ge_decl. apply fails_map. apply fails_seq_l. apply fails_seqr_l. apply fails_seq_l. apply fails_tag. exact H.
  - change (body G_xml nt_pe_decl) with
      (Map L_model_DeclarationParameterEntity_from
         (Seq (SeqR (Seq (Tag [60;33;69;78;84;73;84;89]) (Seq (Chars1 ws) (Seq (Tag [37]) (Chars1 ws)))) (SeqL (NT nt_name) (Chars1 ws)))
              (SeqL (NT nt_pe_def) (Seq (Chars0 ws) (Tag [62]))))).
    apply fails_map. apply fails_seq_l. apply fails_seqr_l. apply fails_seq_l. apply fails_tag. exact H.
Qed.
Lemma fails_notation_decl (s : str) : prefix [60;33;78;79;84;65;84;73;79;78] s = None -> F (NT nt_notation_decl) s.
Proof. intros H. apply fails_nt. rewrite body_notation_decl. apply fails_map. apply fails_seq_l. apply fails_seqr_l. apply fails_seq_l. apply fails_tag. exact H. Qed.

(** at `]` the internal subset ends *)
Lemma subset_item_fails_end (r : str) : F subset_item (93 :: r).
Proof.
  unfold subset_item. apply fails_alt.
  - apply fails_map. apply fails_nt. rewrite body_markup_decl. repeat apply fails_alt; apply fails_map.
    + apply fails_element_decl. reflexivity.
    + apply fails_attlist_decl. reflexivity.
    + apply fails_entity_decl. reflexivity.
    + apply fails_notation_decl. reflexivity.
    + apply fails_pi. reflexivity.
    + apply fails_comment. reflexivity.
  - apply fails_nt. rewrite body_decl_sep. apply fails_alt; apply fails_map.
    + apply fails_pe_reference. reflexivity.
    + apply fails_chars1. exact eq_refl.
Qed.

Definition un_dtd_item (c : dtd_item) : int_subset :=
  match c with
  | DtAttList a => IsMarkup (MkAttributes (un_attlist a))
  | DtEntity e => IsMarkup (MkEntity (DeGeneral (en_name e) (entity_def_of e)))
  | DtNotation n => IsMarkup (MkNotation (DeclNotation (no_name n) (notation_id_of n)))
  | DtPI p => IsMarkup (MkPI p)
  end.

(** the invariants of the children of a document type declaration; [acc] = the general entities
    declared so far *)
Fixpoint dtd_wf (ext : bool) (acc : list entity) (l : list dtd_item) : Prop :=
  match l with
  | [] => True
  | DtAttList a :: l' => attlist_wf acc ext a /\ dtd_wf ext acc l'
  | DtEntity e :: l' => entity_wf e /\ dtd_wf ext (acc ++ [e]) l'
  | DtNotation n :: l' => notation_wf n /\ dtd_wf ext acc l'
  | DtPI p :: l' => pi_ok p /\ dtd_wf ext acc l'
  end.

Lemma dtd_item_rt (ext : bool) (acc : list entity) (c : dtd_item) (r : str) :
  match c with
  | DtAttList a => attlist_wf acc ext a | DtEntity e => entity_wf e | DtNotation n => notation_wf n | DtPI p => pi_ok p
  end ->
  yields subset_item (d_dtd_item false c ++ r) (VIntSubset (un_dtd_item c)) r
  /\ (0 < length (d_dtd_item false c))%nat.
Proof.
  intros Hc. unfold subset_item. destruct c as [a|e|n|p]; cbn [d_dtd_item un_dtd_item].
  - destruct (attlist_decl_rt acc ext a r Hc) as [Hy _]. split; [|unfold d_attlist, s_attlist_open; cbn [app length]; lia].
    apply yields_alt_l. apply (yields_map' (VMarkup (MkAttributes (un_attlist a)))); [reflexivity|].
    apply yields_nt. rewrite body_markup_decl.
    apply yields_alt_r; [apply fails_map; apply fails_element_decl; unfold d_attlist, s_attlist_open; norm_app; reflexivity|].
    apply yields_alt_l. apply (yields_map' (VDeclAtt (un_attlist a))); [reflexivity|]. exact Hy.
  - destruct (ge_decl_rt e r Hc) as [Hy _]. split; [|unfold d_entity, s_entity_open; cbn [app length]; lia].
    apply yields_alt_l. apply (yields_map' (VMarkup (MkEntity (DeGeneral (en_name e) (entity_def_of e))))); [reflexivity|].
    apply yields_nt. rewrite body_markup_decl.
    apply yields_alt_r; [apply fails_map; apply fails_element_decl; unfold d_entity, s_entity_open; norm_app; reflexivity|].
    apply yields_alt_r; [apply fails_map; apply fails_attlist_decl; unfold d_entity, s_entity_open; norm_app; reflexivity|].
    apply yields_alt_l. apply (yields_map' (VDeclEntity (DeGeneral (en_name e) (entity_def_of e)))); [reflexivity|].
    apply yields_nt. rewrite body_entity_decl. apply yields_alt_l.
    apply (yields_map' (VGeneralEntity (en_name e) (entity_def_of e))); [reflexivity|]. exact Hy.
  - destruct (notation_decl_rt n r Hc) as [Hy _]. split; [|unfold d_notation, s_notation_open; cbn [app length]; lia].
    apply yields_alt_l. apply (yields_map' (VMarkup (MkNotation (DeclNotation (no_name n) (notation_id_of n))))); [reflexivity|].
    apply yields_nt. rewrite body_markup_decl.
    apply yields_alt_r; [apply fails_map; apply fails_element_decl; unfold d_notation, s_notation_open; norm_app; reflexivity|].
    apply yields_alt_r; [apply fails_map; apply fails_attlist_decl; unfold d_notation, s_notation_open; norm_app; reflexivity|].
    apply yields_alt_r; [apply fails_map; apply fails_entity_decl; unfold d_notation, s_notation_open; norm_app; reflexivity|].
    apply yields_alt_l. apply (yields_map' (VDeclNotation (DeclNotation (no_name n) (notation_id_of n)))); [reflexivity|]. exact Hy.
  - pose proof (yields_pi p r Hc) as Hy. rewrite d_pi_eq. split; [|unfold d_ppi; cbn [app length]; lia].
    unfold d_ppi in *. rewrite <- !app_assoc in *. cbn [app] in *.
    apply yields_alt_l. apply (yields_map' (VMarkup (MkPI p))); [reflexivity|].
    apply yields_nt. rewrite body_markup_decl.
    apply yields_alt_r; [apply fails_map; apply fails_element_decl; reflexivity|].
    apply yields_alt_r; [apply fails_map; apply fails_attlist_decl; reflexivity|].
    apply yields_alt_r; [apply fails_map; apply fails_entity_decl; reflexivity|].
    apply yields_alt_r; [apply fails_map; apply fails_notation_decl; reflexivity|].
    apply yields_alt_l. apply (yields_map' (VPI p)); [reflexivity|]. exact Hy.
Qed.

Definition d_dtd (l : list dtd_item) : str := flat_map (d_dtd_item false) l.

Lemma subset_many (ext : bool) (r : str) : forall l acc, dtd_wf ext acc l ->
  many_yields subset_item (d_dtd l ++ 93 :: r) (map VIntSubset (map un_dtd_item l)) (93 :: r)
  /\ build_subset false ext acc (map un_dtd_item l) = IOk l.
Proof.
  induction l as [|c l IH]; intros acc Hw; cbn [d_dtd flat_map map].
  - split; [|reflexivity]. apply my_stop. apply subset_item_fails_end.
  - fold (d_dtd l). rewrite <- app_assoc.
    assert (match c with
            | DtAttList a => attlist_wf acc ext a | DtEntity e => entity_wf e | DtNotation n => notation_wf n | DtPI p => pi_ok p
            end /\ dtd_wf ext (match c with DtEntity e => acc ++ [e] | _ => acc end) l) as [Hc Hl].
    { destruct c; cbn [dtd_wf] in Hw; exact Hw. }
    destruct (dtd_item_rt ext acc c (d_dtd l ++ 93 :: r) Hc) as [Hy Hlen].
    destruct (IH _ Hl) as [IHy IHb]. split.
    + eapply my_step; [exact Hy| |exact IHy]. rewrite (app_length (d_dtd_item false c)). unfold str, char in *. lia.
    + destruct c as [a|e|n|p]; cbn [un_dtd_item build_subset].
      * destruct (attlist_decl_rt acc ext a [] Hc) as [_ Hb]. rewrite Hb. cbn [ibind]. rewrite IHb. reflexivity.
      * destruct (ge_decl_rt e [] Hc) as [_ [Hbe Hce]]. rewrite Hce. cbn [ibind]. rewrite Hbe. rewrite IHb. reflexivity.
      * destruct (notation_decl_rt n [] Hc) as [_ Hbn]. rewrite IHb. cbn [ibind]. rewrite Hbn. reflexivity.
      * rewrite IHb. reflexivity.
Qed.

Definition doctype_wf (sa : option bool) (dt : doctype) : Prop :=
  qname_ok (mk_qname (dt_prefix dt) (dt_local dt))
  /\ match dt_system dt, dt_public dt with
     | None, None => True
     | s, p => ext_ok s p
     end
  /\ dtd_wf (external_subset sa (dt_system dt)) [] (dt_children dt).

Definition un_doctype (dt : doctype) : decl_doc :=
  DeclDoc (mk_qname (dt_prefix dt) (dt_local dt))
          (match dt_system dt, dt_public dt with None, None => None | s, p => Some (ext_of s p) end)
          (map un_dtd_item (dt_children dt)).

Lemma al_decl_doc n x (l : list int_subset) (some : bool) :
  apply_label L_model_DeclarationDoc_from
    (VPair (VQName n) (VPair (match x with Some e => VSome (VExternalId e) | None => VNone end)
                             (if some then VSome (VList (map VIntSubset l)) else VNone)))
  = VDeclDoc (DeclDoc n x (if some then l else [])).
Proof.
  change (apply_label L_model_DeclarationDoc_from
    (VPair (VQName n) (VPair (match x with Some e => VSome (VExternalId e) | None => VNone end)
                             (if some then VSome (VList (map VIntSubset l)) else VNone))))
    with (match as_opt as_external_id (match x with Some e => VSome (VExternalId e) | None => VNone end),
                as_opt (as_list as_int_subset) (if some then VSome (VList (map VIntSubset l)) else VNone) with
          | Some x', Some s' => VDeclDoc (DeclDoc n x' (match s' with Some i => i | None => [] end))
          | _, _ => VBad end).
  destruct some.
  - cbn [as_opt]. rewrite as_list_map by reflexivity. destruct x; reflexivity.
  - destruct x; reflexivity.
Qed.

Definition dt_S2 : pexpr := SeqL (Opt (SeqR (Chars1 ws) (NT nt_external_id))) (Chars0 ws).
Definition dt_S3 : pexpr := SeqL (Opt (SeqR (Tag [91]) (SeqL (NT nt_int_subset) (Seq (Tag [93]) (Chars0 ws))))) (Tag [62]).

Lemma fails_external_id (s : str) : prefix [83;89;83;84;69;77] s = None -> prefix [80;85;66;76;73;67] s = None -> F (NT nt_external_id) s.
Proof.
  intros H1 H2. apply fails_nt. rewrite body_external_id. apply fails_alt; apply fails_map; apply fails_seqr_l; apply fails_seq_l;
    apply fails_tag; assumption.
Qed.

(** the printed internal subset: ` [...]` or nothing *)
Definition d_subset (l : list dtd_item) : str := match l with [] => [] | ch => 32 :: 91 :: d_dtd ch ++ [93] end.
Definition v_subset (l : list dtd_item) : val :=
  match l with [] => VNone | ch => VSome (VList (map VIntSubset (map un_dtd_item ch))) end.

Lemma subset_rt (ext : bool) (l : list dtd_item) (r : str) : dtd_wf ext [] l ->
  exists sp rest : str, d_subset l ++ 62 :: r = sp ++ rest /\ forallb (eval ws) sp = true /\ stops (eval ws) rest
                        /\ yields dt_S3 rest (v_subset l) r.
Proof.
  intros Hw. destruct l as [|c0 l0].
  - exists [], (62 :: r). split; [reflexivity|]. split; [reflexivity|]. split; [exact eq_refl|].
    unfold dt_S3. cbn [v_subset]. eapply yields_seql; [apply yields_opt_none; apply fails_seqr_l; apply fails_tag; reflexivity|tag].
  - destruct (subset_many ext (62 :: r) (c0 :: l0) [] Hw) as [Hm _].
    exists [32], (91 :: d_dtd (c0 :: l0) ++ 93 :: 62 :: r). split; [unfold d_subset; norm_app; reflexivity|].
    split; [reflexivity|]. split; [exact eq_refl|].
    unfold dt_S3. cbn [v_subset]. eapply yields_seql; [|apply (parses_tag G_xml [62] r)].
    apply yields_opt_some. eapply yields_seqr; [tag|].
    eapply yields_seql; [apply yields_nt; rewrite body_int_subset; apply yields_many0; exact Hm|].
    eapply parses_seq; [tag|apply parses_chars0_nil; exact eq_refl].
Qed.

Theorem doctype_round_trip (sa : option bool) (dt : doctype) : doctype_wf sa dt -> doctype_rt sa dt.
Proof.
  intros [Hq [Hx Hd]] r.
  set (ext := external_subset sa (dt_system dt)) in *.
  set (xo := match dt_system dt, dt_public dt with None, None => None | s, p => Some (ext_of s p) end).
  exists (un_doctype dt). split.
  - apply yields_nt. rewrite body_doctype_decl. fold dt_S2. fold dt_S3.
    apply (yields_map' (VPair (VQName (mk_qname (dt_prefix dt) (dt_local dt)))
                              (VPair (match xo with Some e => VSome (VExternalId e) | None => VNone end) (v_subset (dt_children dt))))).
    { pose proof (al_decl_doc (mk_qname (dt_prefix dt) (dt_local dt)) xo (map un_dtd_item (dt_children dt))
                              (match dt_children dt with [] => false | _ => true end)) as H.
      unfold un_doctype. fold xo. unfold v_subset. destruct (dt_children dt); exact H. }
    unfold d_doctype, s_doctype_open. rewrite d_name_qname.
    assert (match dt_children dt with [] => [] | ch => 32 :: 91 :: flat_map (d_dtd_item false) ch ++ [93] end = d_subset (dt_children dt)) as ->
      by (destruct (dt_children dt); reflexivity).
    norm_app.
    destruct (qname_head _ Hq) as [c [u [Ec Hc]]].
    destruct (subset_rt ext (dt_children dt) r Hd) as [sp [rest [Esub [Hsp [Hrest Hy3]]]]].
    eapply yields_seq.
    + exists (tree_qname (mk_qname (dt_prefix dt) (dt_local dt))). split; [|apply eval_tree_qname].
      eapply parses_seqr.
      * eapply parses_seq; [tag|]. apply (parses_chars1 G_xml ws [32]); [discriminate|reflexivity|].
        rewrite Ec. cbn [app stops]. apply name_start_not_ws. exact Hc.
      * apply parses_qname; [exact Hq|].
        unfold d_external, s_public, s_system. destruct (dt_public dt); [exact eq_refl|]. destruct (dt_system dt); [exact eq_refl|].
        cbn [app]. unfold d_subset. destruct (dt_children dt); exact eq_refl.
    + destruct (dt_system dt) as [s|] eqn:Es.
      * (* external identifier present *)
        assert (ext_ok (Some s) (dt_public dt)) as Hx' by (destruct (dt_public dt); exact Hx).
        destruct (external_id_rt (Some s) (dt_public dt) (d_subset (dt_children dt) ++ 62 :: r) Hx') as [t [Et Hy]].
        assert (xo = Some (ext_of (Some s) (dt_public dt))) as -> by (unfold xo; destruct (dt_public dt); reflexivity).
        rewrite Et. norm_app.
        assert (exists c1 u1, t = c1 :: u1 /\ eval ws c1 = false) as [c1 [u1 [E1 H1]]].
        { unfold d_external, s_public, s_system in Et. destruct (dt_public dt); injection Et as <-; eexists; eexists; split; reflexivity. }
        eapply yields_seq; [|exact Hy3].
        unfold dt_S2. eapply yields_seql.
        { apply yields_opt_some. eapply yields_seqr; [|exact Hy].
          apply (parses_chars1 G_xml ws [32]); [discriminate|reflexivity|]. rewrite E1. exact H1. }
        unfold str, char in *. rewrite Esub. apply parses_chars0; assumption.
      * (* no external identifier *)
        assert (dt_public dt = None) as Ep.
        { destruct (dt_public dt); [cbn in Hx; destruct Hx|reflexivity]. }
        assert (xo = None) as -> by (unfold xo; rewrite Ep; reflexivity).
        unfold d_external. rewrite Ep. cbn [app].
        eapply yields_seq; [|exact Hy3].
        unfold dt_S2. eapply yields_seql.
        { apply yields_opt_none. unfold str, char in *. rewrite Esub. destruct sp as [|c1 sp'].
          - apply fails_seqr_l. apply fails_chars1. exact Hrest.
          - eapply fails_seqr_r; [apply parses_chars1; [discriminate|exact Hsp|exact Hrest]|].
            (* the only non-empty case is the space before `[` *)
            unfold d_subset in Esub. destruct (dt_children dt) as [|c0 l0].
            + cbn [app] in Esub. injection Esub as Ec1 _. subst c1. cbn in Hsp. discriminate.
            + cbn [app] in Esub. injection Esub as <- Esub. destruct sp' as [|c2 sp''].
              * cbn [app] in Esub. rewrite <- Esub. apply fails_external_id; reflexivity.
              * cbn [app] in Esub. injection Esub as <- _. cbn in Hsp. discriminate. }
        unfold str, char in *. rewrite Esub. apply parses_chars0; assumption.
  - (* build *)
    unfold build_doctype, un_doctype. cbn [dd_internal_subset dd_external_id dd_name].
    assert ((match (match dt_system dt, dt_public dt with None, None => None | s, p => Some (ext_of s p) end) with
             | Some x => Some (fst (external_id_parts x)) | None => None end) = dt_system dt
            /\ (match (match dt_system dt, dt_public dt with None, None => None | s, p => Some (ext_of s p) end) with
                | Some x => snd (external_id_parts x) | None => None end) = dt_public dt) as [E1 E2].
    { destruct (dt_system dt) as [s|] eqn:Es; destruct (dt_public dt) as [p|] eqn:Ep; cbn; auto. cbn in Hx. destruct Hx. }
    rewrite E1. fold ext. destruct (subset_many ext [] (dt_children dt) [] Hd) as [_ Hb]. rewrite Hb. cbn [ibind].
    rewrite E2, qname_parts_mk. destruct dt; reflexivity.
Qed.
