(** * C13: refinement rung "replace_child", every receiver -- the Document included

    On the Document the model is [insert_before] followed by [remove_child] like everywhere else
    (trait default), so its cardinality test counts the node that the call itself takes out: the
    finding class C13-DOC-MOVE.  Outside it -- [KnownDocMove] (the new child is an Element /
    DocumentType that already is a child of the Document) and [KnownDocSwap] (the new child and
    the child to replace are both Element / DocumentType) -- the two agree: comments and
    processing instructions are replaced freely, an Element enters exactly when the Document has
    none, a DocumentType exactly when it has neither (reading R5). *)
From Coq Require Import List NArith Bool Lia PeanoNat.
From XmlRs Require Import Base.CPred Base.NList Model.Store Model.DomOps Proofs.DomBase Proofs.DomTree Proofs.DomAnc
  Proofs.DomOpsInv Proofs.DomL1Abs Proofs.DomL1Atomic Proofs.DomL1NoPanic Proofs.DomL1Refine Proofs.DomL1RefineInsert.
From XmlRs Require Spec.DomCharData Spec.DomL1.
Import ListNotations.
Open Scope N_scope.

Definition KnownDocSwap (w : world) (r n o : nref) : bool :=
  match doc_at w (fst r) with
  | Some s =>
    match get s (snd r), get s (snd n), get s (snd o) with
    | Some rit, Some nit, Some oit =>
      kind_eqb (ikind rit) KDoc && (fst n =? fst r) && (fst o =? fst r)
      && (kind_eqb (ikind nit) KEl || kind_eqb (ikind nit) KDt) && (kind_eqb (ikind oit) KEl || kind_eqb (ikind oit) KDt)
    | _, _, _ => false
    end
  | None => false
  end.

Lemma existsb_ext_in {A} (f g : A -> bool) : forall l, (forall x, In x l -> f x = g x) -> existsb f l = existsb g l.
Proof.
  induction l as [|a l IH]; intros H; cbn [existsb]; [reflexivity|].
  rewrite (H a (or_introl eq_refl)). f_equal. apply IH. intros x Hx. apply H. right. exact Hx.
Qed.

Lemma others_gen s r rit T K except :
  TreeInv s -> get s r = Some rit -> (forall c, DomL1.has_type (abs_store s) T c = has_kind s K c) ->
  (forall c, In c (ichildren rit) -> has_kind s K c = true -> ~ In c except) ->
  DomL1.others_of_type (abs_store s) r T except = existsb (has_kind s K) (ichildren rit).
Proof.
  intros Tr Hr HT Hex. unfold DomL1.others_of_type, DomL1.children. rewrite (node_abs s r Tr), Hr. cbn [option_map abs_item DomL1.n_children].
  apply existsb_ext_in. intros c Hc. rewrite HT. destruct (has_kind s K c) eqn:E; [|reflexivity]. cbn [andb].
  assert (M : DomL1.memN c except = false).
  { destruct (DomL1.memN c except) eqn:X; [|reflexivity]. exfalso. apply (Hex c Hc E). apply mem_spec. exact X. }
  rewrite M. reflexivity.
Qed.

Lemma existsb_find {A} (f : A -> bool) l : existsb f l = match find f l with Some _ => true | None => false end.
Proof. induction l as [|a l IH]; cbn [existsb find]; [reflexivity|]. destruct (f a); [reflexivity | exact IH]. Qed.

(** [hierarchy_ok] with the two nodes that leave, against [check_insert] *)
Lemma hierarchy_ok_replace s r x o rit xit oit :
  TreeInv s -> get s r = Some rit -> get s x = Some xit -> get s o = Some oit -> ikind xit <> KDoc ->
  (ikind rit = KDoc -> ikind xit = KEl \/ ikind xit = KDt -> ~ In x (ichildren rit) /\ ikind oit <> KEl /\ ikind oit <> KDt) ->
  DomL1.hierarchy_ok (abs_store s) r x (abs_type (ikind rit)) (abs_type (ikind xit)) (@cons N x (@cons N o (@nil N)))
  = match check_insert s r x with None => true | Some _ => false end.
Proof.
  intros T Hr Hx Ho Hxd HX.
  destruct (kind_eqb_spec (ikind rit) KDoc) as [Kr|Kr].
  2:{ assert (Hrk : abs_type (ikind rit) <> DomL1.TDocument) by (destruct (ikind rit); try discriminate; contradiction).
      rewrite (hierarchy_ok_leaving _ _ _ _ _ [x; o] (@cons N x (@nil N)) Hrk).
      apply (hierarchy_ok_abs s r x rit xit T Hr Hx Hxd). intros K. contradiction. }
  specialize (HX Kr).
  unfold DomL1.hierarchy_ok, check_insert, kind_of. rewrite Hr, Hx. cbn [option_map].
  rewrite (self_or_ancestor_abs s r x rit T Hr). rewrite Kr.
  assert (Hroot : r = sroot s) by (eapply (ti_doc_root s T); eassumption).
  assert (Hne : (x =? r) = false).
  { apply N.eqb_neq. intros ->. rewrite Hr in Hx. inversion Hx; subst. congruence. }
  rewrite Hne. subst r. rewrite (ancestor_of_root s x T). cbn [orb negb andb abs_type].
  unfold DomL1.cardinality_ok, doc_element, doc_decl, children_of. rewrite Hr.
  assert (Oel : ikind xit = KEl \/ ikind xit = KDt ->
                DomL1.others_of_type (abs_store s) (sroot s) DomL1.TElement (@cons N x (@cons N o (@nil N))) = existsb (has_kind s KEl) (ichildren rit)).
  { intros K. destruct (HX K) as [H1 [H2 _]]. apply (others_gen s (sroot s) rit DomL1.TElement KEl [x; o] T Hr (fun c => has_type_el s c T)).
    intros c Hc Kc [E|[E|[]]]; subst c; [contradiction|]. unfold has_kind in Kc. rewrite Ho in Kc.
    destruct (kind_eqb_spec (ikind oit) KEl); [contradiction | discriminate]. }
  assert (Odt : ikind xit = KEl \/ ikind xit = KDt ->
                DomL1.others_of_type (abs_store s) (sroot s) DomL1.TDoctype (@cons N x (@cons N o (@nil N))) = existsb (has_kind s KDt) (ichildren rit)).
  { intros K. destruct (HX K) as [H1 [_ H2]]. apply (others_gen s (sroot s) rit DomL1.TDoctype KDt [x; o] T Hr (fun c => has_type_dt s c T)).
    intros c Hc Kc [E|[E|[]]]; subst c; [contradiction|]. unfold has_kind in Kc. rewrite Ho in Kc.
    destruct (kind_eqb_spec (ikind oit) KDt); [contradiction | discriminate]. }
  destruct (ikind xit) eqn:Kx; cbn [abs_type DomL1.child_allowed andb]; try reflexivity; try congruence.
  - rewrite (Oel (or_introl eq_refl)), existsb_find. destruct (find (has_kind s KEl) (ichildren rit)); reflexivity.
  - rewrite (Oel (or_intror eq_refl)), (Odt (or_intror eq_refl)), !existsb_find.
    destruct (find (has_kind s KDt) (ichildren rit)), (find (has_kind s KEl) (ichildren rit)); reflexivity.
Qed.

Theorem step_refines_partial_replace_any : forall w (r n o : nref),
  WInv w -> KnownDocMove w r n = false -> KnownDocSwap w r n o = false ->
  DomL1.conforms (abs w) (DomL1.AReplaceChild r n o) (abs (fst (step w (ReplaceChild r n o))))
                 (outcome_class (snd (step w (ReplaceChild r n o)))).
Proof.
  intros w r n o Hw Hkm Hks. rewrite conforms_conf. cbn [step DomL1.dom_step]. unfold DomL1.replace_child.
  unfold kind_in in *. rewrite doc_of_abs. change (@fst N N r) with (@fst N id r).
  destruct (doc_at w (fst r)) as [s|] eqn:D; cbn [option_map]; [|apply conf_exact; [discriminate | reflexivity | reflexivity]].
  pose proof (doc_at_P TreeInv w _ s Hw D) as T.
  rewrite (aget_abs w r s Hw D). unfold kind_of in *.
  destruct (get s (snd r)) as [rit|] eqn:Hr; cbn [option_map] in *; [|apply conf_exact; [discriminate | reflexivity | reflexivity]].
  change (DomL1.n_type (abs_item rit)) with (abs_type (ikind rit)). rewrite node_mut_abs, container_abs.
  destruct (node_mut (ikind rit)) eqn:Hnm; cbn [negb].
  2:{ destruct (DomL1.aget (abs w) n), (DomL1.aget (abs w) o); apply conf_exact; try discriminate; reflexivity. }
  destruct (exists_in w n) eqn:En; cbn [andb].
  2:{ rewrite (exists_in_false_aget w n Hw En). apply conf_exact; [discriminate | reflexivity | reflexivity]. }
  destruct (exists_in_true_aget w n Hw En) as [sn [nit [Dn [Gn An]]]]. rewrite An.
  destruct (exists_in w o) eqn:Eo.
  2:{ rewrite (exists_in_false_aget w o Hw Eo). apply conf_exact; [discriminate | reflexivity | reflexivity]. }
  destruct (exists_in_true_aget w o Hw Eo) as [so [oit [Do [Go Ao]]]]. rewrite Ao.
  change (DomL1.n_type (abs_item nit)) with (abs_type (ikind nit)).
  unfold dom_insert_before, kind_in. rewrite D. unfold kind_of. rewrite Hr. cbn [option_map].
  destruct (container (ikind rit)) eqn:Hc; cbn [negb].
  2:{ apply conf_exact; [discriminate | reflexivity | reflexivity]. }
  rewrite (wrong_doc_abs w r n Hw En). destruct (wrong_doc w r n) eqn:Wn.
  { apply conf_exact; [discriminate | reflexivity | reflexivity]. }
  rewrite (wrong_doc_abs w r o Hw Eo). destruct (wrong_doc w r o) eqn:Wo.
  { apply conf_exact; [discriminate | reflexivity | reflexivity]. }
  assert (Hn : fst n = fst r /\ ikind nit <> KDoc).
  { unfold wrong_doc, kind_in in Wn. rewrite Dn in Wn. unfold kind_of in Wn. rewrite Gn in Wn. cbn [option_map] in Wn.
    destruct (ikind nit); try discriminate; (split; [apply negb_false_iff in Wn; apply N.eqb_eq in Wn; exact Wn | discriminate]). }
  assert (Ho : fst o = fst r /\ ikind oit <> KDoc).
  { unfold wrong_doc, kind_in in Wo. rewrite Do in Wo. unfold kind_of in Wo. rewrite Go in Wo. cbn [option_map] in Wo.
    destruct (ikind oit); try discriminate; (split; [apply negb_false_iff in Wo; apply N.eqb_eq in Wo; exact Wo | discriminate]). }
  destruct Hn as [Hfn Hnd]. destruct Ho as [Hfo Hod].
  rewrite Hfn in Dn. rewrite D in Dn. inversion Dn; subst sn. clear Dn.
  rewrite Hfo in Do. rewrite D in Do. inversion Do; subst so. clear Do.
  cbn [abs_item DomL1.n_children]. rewrite memN_mem. unfold info_insert_before, children_of. rewrite Hr.
  change (@snd N N r) with (@snd N id r). change (@snd N N n) with (@snd N id n). change (@snd N N o) with (@snd N id o).
  change (@fst N N r) with (@fst N id r).
  destruct (mem (snd o) (ichildren rit)) eqn:M; cbn [negb].
  2:{ apply conf_exact; [discriminate | reflexivity | reflexivity]. }
  assert (HX : ikind rit = KDoc -> ikind nit = KEl \/ ikind nit = KDt ->
               ~ In (snd n) (ichildren rit) /\ ikind oit <> KEl /\ ikind oit <> KDt).
  { intros K1 K2. unfold KnownDocMove in Hkm. unfold KnownDocSwap in Hks. rewrite D, Hr, Gn in Hkm. rewrite D, Hr, Gn, Go in Hks.
    rewrite K1, Hfn, N.eqb_refl in Hkm. rewrite K1, Hfn, Hfo, !N.eqb_refl in Hks. cbn [kind_eqb andb] in Hkm, Hks.
    assert (K2b : kind_eqb (ikind nit) KEl || kind_eqb (ikind nit) KDt = true) by (destruct K2 as [K2|K2]; rewrite K2; reflexivity).
    rewrite K2b in Hkm, Hks. cbn [andb] in Hks. rewrite andb_true_r in Hkm.
    split; [apply mem_false; exact Hkm|]. apply orb_false_iff in Hks. destruct Hks as [Q1 Q2].
    split; intros E; rewrite E in *; discriminate. }
  rewrite (hierarchy_ok_replace s (snd r) (snd n) (snd o) rit nit oit T Hr Gn Go Hnd HX).
  destruct (check_insert s (snd r) (snd n)) as [er|] eqn:CI; cbn [negb].
  { destruct er; [exfalso; exact (check_insert_not_oof _ _ _ CI) | |]; apply conf_exact; try discriminate; reflexivity. }
  apply mem_spec in M.
  destruct (snd n =? snd o) eqn:E.
  - (* replaceChild(x, x): the model removes x; that is the state the specification offers *)
    cbn [fst snd]. unfold dom_remove_child, kind_in. rewrite (set_doc_same w (fst r) s D), D. unfold kind_of. rewrite Hr. cbn [option_map].
    rewrite Hc, Wo. unfold info_delete, children_of. rewrite Hr.
    assert (M1 : mem (snd o) (ichildren rit) = true) by (apply mem_spec; exact M). rewrite M1.
    unfold conf. cbn [fst snd]. split; [discriminate|]. right.
    rewrite abs_set_doc. f_equal. rewrite abs_store_invalidate. apply (abs_delete_by_id s (snd r) (snd o) rit T Hr M).
  - (* the general case *)
    cbn [fst snd].
    destruct (check_insert_kind s (snd r) (snd n) nit Gn CI) as [Hka _].
    set (s1 := invalidate (link s (snd r) (snd n) (Some (snd o)))).
    assert (T1 : TreeInv s1) by (apply invalidate_inv; apply link_checked_inv; assumption).
    assert (Hne : snd o <> snd n) by (apply N.eqb_neq in E; congruence).
    assert (Hrn : snd r <> snd n) by (intros Er; apply (check_insert_ne _ _ _ CI); symmetry; exact Er).
    assert (Hin1 : In (snd o) (children_of s1 (snd r))).
    { change (children_of s1 (snd r)) with (children_of (link s (snd r) (snd n) (Some (snd o))) (snd r)).
      apply children_of_link_keeps; [unfold children_of; rewrite Hr; exact M | exact Hne | exact Hrn]. }
    assert (Hk1 : forall y, kind_of s1 y = kind_of s y).
    { intros y. change (kind_of s1 y) with (kind_of (link s (snd r) (snd n) (Some (snd o))) y). apply kind_of_link. }
    unfold dom_remove_child, kind_in. rewrite (doc_at_set_doc _ _ _ _ D).
    pose proof (Hk1 (snd r)) as Kr. unfold kind_of in Kr. rewrite Hr in Kr.
    destruct (get s1 (snd r)) as [rit1|] eqn:Hr1; [|discriminate]. cbn [option_map] in Kr. inversion Kr as [Kr1].
    unfold kind_of. rewrite Hr1. cbn [option_map]. rewrite Kr1, Hc.
    assert (W1 : wrong_doc (set_doc w (fst r) s1) r o = false).
    { unfold wrong_doc, kind_in in *. rewrite Hfo in *. rewrite (doc_at_set_doc _ _ _ _ D). rewrite D in Wo. rewrite Hk1. exact Wo. }
    rewrite W1. unfold info_delete.
    assert (M1 : mem (snd o) (children_of s1 (snd r)) = true) by (apply mem_spec; exact Hin1). rewrite M1.
    apply conf_exact; [discriminate | | reflexivity]. cbn [fst].
    rewrite !abs_set_doc, aset_doc_twice. f_equal. rewrite abs_store_invalidate.
    unfold children_of in Hin1. rewrite Hr1 in Hin1.
    rewrite (abs_delete_by_id s1 (snd r) (snd o) rit1 T1 Hr1 Hin1). f_equal.
    unfold s1. rewrite abs_store_invalidate. apply (abs_link s (snd r) (snd n) (Some (snd o)) rit nit T Hr Gn Hka).
Qed.
