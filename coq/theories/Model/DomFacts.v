(** * The string facts of the DOM operations, computed by the MODEL of the parser

    Model/DomOps.v takes the string-level facts of every string argument ([name_info],
    [data_info]) as parameters, because the real code computes them by calling the parser on
    markup built around the argument:
    - [XmlElement::empty] (info/src/lib.rs): [xml_parser::element("<{name} />")], all consumed, and
      [is_qname(name)] = [xml_nom::qname(name)] all consumed;
    - [XmlAttribute::empty]: [xml_parser::attribute("{name}=''")], all consumed, and [is_qname];
    - [XmlProcessingInstruction::empty]: [xml_parser::pi("<?{target}?>")], all consumed, the
      target read back is the argument and there is no value;
    - [XmlProcessingInstruction::set_content]: [xml_parser::pi("<?{target} {content}?>")], all
      consumed; the value read back is stored;
    - [create_entity_reference] (dom/src/lib.rs, after repair D64 = 37c72ae):
      [xml_parser::reference("&{name};")], all consumed, and the result is a reference to a general
      entity whose name is the argument;
    - [XmlAttribute::set_values]: [xml_parser::attribute("{local}={escape(value)}")], all consumed,
      where [escape] chooses the apostrophe as delimiter when the value holds a quotation mark;
      the value items are the parsed pieces, a character reference is resolved by
      [char_from_char10/16] (Model/Info.v [char_from]).
    harness/src/domains/dom.rs [digest] computes the same facts with the same calls of the REAL
    parser (with the fixed names [t] and [a] for the PI target and the attribute) and hands them to
    the model driver.  Here they are computed by the model of the parser: [Peg.run] on the
    grammar [G_xml] regenerated from parser/src/lib.rs and nom/src/lib.rs, read into the typed
    parse model by Model/ParseActions.v ([parse_element], [parse_attribute], [parse_pi], ...).
    [facts_of_name] / [facts_of_data] follow [digest] line by line; the two are compared on every run of
    bin/check C13 / C15 (extraction roots coq/extraction/model_roots/domfacts.txt, driver
    ocaml/domains/domfacts/domfacts.ml, checks/dom13.py facts_tie: hand-picked, generator and random strings).

    Computable definitions only; the theorems are in Proofs/DomFacts*.v. *)
From Coq Require Import List NArith Bool.
From XmlRs Require Import Base.CPred Model.Peg Gen.GrammarXmlGen Model.ParseActions.
From XmlRs Require Model.Info Model.Store Model.DomOps.
Import ListNotations.
Local Open Scope N_scope.

(** the two public parsers that Model/ParseActions.v does not name *)
Definition parse_qname : str -> pres (qname * str) := parse_with nt_qname as_qname.          (* xml_nom::qname *)
Definition parse_reference : str -> pres (reference * str) :=                                  (* xml_parser::reference *)
  parse_with nt_reference (fun v => match v with VReference r => Some r | _ => None end).

(** [Ok(("", t))]: the parser succeeded and consumed everything *)
Definition whole {A} (r : pres (A * str)) : option A :=
  match r with POk (a, []) => Some a | _ => None end.

(** info's [is_qname] *)
Definition is_qname (s : str) : bool := match whole (parse_qname s) with Some _ => true | None => false end.

(** prefix and local part, in the order of [name_info] *)
Definition swap_parts (x : str * option str) : option str * str := (snd x, fst x).

(** ** names *)
Definition elem_fact (s : str) : option (option str * str) :=
  match whole (parse_element ([60] ++ s ++ [32; 47; 62])) with            (* "<s />" *)
  | Some e => if is_qname s then Some (swap_parts (Info.qname_parts (e_name e))) else None
  | None => None
  end.

Definition attr_fact (s : str) : option (option str * str) :=
  match whole (parse_attribute (s ++ [61; 39; 39])) with                  (* "s=''" *)
  | Some a => if is_qname s then Some (swap_parts (Info.attribute_name (at_name a))) else None
  | None => None
  end.

Definition pi_fact (s : str) : option str :=
  match whole (parse_pi ([60; 63] ++ s ++ [63; 62])) with                 (* "<?s?>" *)
  | Some p => match pi_value p with
              | None => if Peg.str_eqb (pi_target p) s then Some (pi_target p) else None
              | Some _ => None
              end
  | None => None
  end.

Definition ref_fact (s : str) : bool :=
  match whole (parse_reference ([38] ++ s ++ [59])) with                  (* "&s;" *)
  | Some (RefEntity v) => Peg.str_eqb v s
  | _ => false
  end.

Definition facts_of_name (s : str) : DomOps.name_info :=
  DomOps.mkName s (elem_fact s) (attr_fact s) (pi_fact s) (ref_fact s).

(** ** data *)
Definition text_fact (s : str) : bool :=
  match whole (parse_content s) with Some (_, []) => true | _ => false end.

Definition comment_fact (s : str) : bool :=
  match whole (parse_comment ([60; 33; 45; 45] ++ s ++ [45; 45; 62])) with Some _ => true | None => false end.

Definition cdata_fact (s : str) : bool :=
  match whole (parse_cdsect ([60; 33; 91; 67; 68; 65; 84; 65; 91] ++ s ++ [93; 93; 62])) with Some _ => true | None => false end.

Definition pi_data_fact (s : str) : option (option str) :=
  match whole (parse_pi ([60; 63; 116; 32] ++ s ++ [63; 62])) with        (* "<?t s?>" *)
  | Some p => Some (pi_value p)
  | None => None
  end.

(** info's [escape] *)
Definition quoted (s : str) : str :=
  if existsb (N.eqb 34) s then [39] ++ s ++ [39] else [34] ++ s ++ [34].

(** the name a character reference node gets: "#65" / "#x41" *)
Definition charref_name (num : str) (r : radix) : str :=
  match r with Dec => 35 :: num | Hex => 35 :: 120 :: num end.

Definition vitem_of (v : att_value) : DomOps.vitem :=
  match v with
  | AvText x => DomOps.VText x
  | AvReference (RefChar num r) =>
    DomOps.VChar (charref_name num r) (match Info.char_from num r with Info.IOk c => Some [c] | _ => None end)
  | AvReference (RefEntity n) => DomOps.VEnt n
  end.

Definition value_fact (s : str) : option (list DomOps.vitem) :=
  match whole (parse_attribute ([97; 61] ++ quoted s)) with               (* "a=" quoted *)
  | Some a => Some (map vitem_of (at_value a))
  | None => None
  end.

Definition facts_of_data (s : str) : DomOps.data_info :=
  DomOps.mkData s (text_fact s) (comment_fact s) (cdata_fact s) (pi_data_fact s) (value_fact s).

(** ** an operation with the facts of its string arguments recomputed by the model of the parser
    (the strings themselves, [n_str] / [d_str], are kept) *)
Definition name_mf (n : DomOps.name_info) : DomOps.name_info := facts_of_name (DomOps.n_str n).
Definition data_mf (d : DomOps.data_info) : DomOps.data_info := facts_of_data (DomOps.d_str d).

Definition with_model_facts (o : DomOps.op) : DomOps.op :=
  match o with
  | DomOps.SetAttribute r n v => DomOps.SetAttribute r (name_mf n) (data_mf v)
  | DomOps.CreateElement d n => DomOps.CreateElement d (name_mf n)
  | DomOps.CreateAttribute d n => DomOps.CreateAttribute d (name_mf n)
  | DomOps.CreateTextNode d v => DomOps.CreateTextNode d (data_mf v)
  | DomOps.CreateComment d v => DomOps.CreateComment d (data_mf v)
  | DomOps.CreateCDataSection d v => DomOps.CreateCDataSection d (data_mf v)
  | DomOps.CreateProcessingInstruction d t v => DomOps.CreateProcessingInstruction d (name_mf t) (data_mf v)
  | DomOps.CreateEntityReference d n => DomOps.CreateEntityReference d (name_mf n)
  | DomOps.SetNodeValue r v => DomOps.SetNodeValue r (data_mf v)
  | DomOps.SetData r v => DomOps.SetData r (data_mf v)
  | DomOps.AppendData r v => DomOps.AppendData r (data_mf v)
  | DomOps.InsertData r off v => DomOps.InsertData r off (data_mf v)
  | DomOps.ReplaceData r off cnt v => DomOps.ReplaceData r off cnt (data_mf v)
  | DomOps.PISetData r v => DomOps.PISetData r (data_mf v)
  | _ => o
  end.
