(** * The functional specification of [normalize] (Model/DomNormalize.v) on worlds with the tree invariant

    From Proofs/DomNormalizeStore.v (the model is [ns] on the store of the receiver's document),
    DomNormalizeSteps.v (sequences of merges of adjacent Text children) and DomNormalizeLoop.v ([ns_spec]):
    fuel adequacy, locality, the blocks of every node and the serialisation are unchanged, the normal form,
    idempotence. *)
From Coq Require Import List NArith Bool Lia.
From XmlRs Require Import Base.CPred Model.Store Model.DomOps Model.DomNormalize
  Proofs.DomBase Proofs.DomTree Proofs.DomOpsInv Proofs.DomL1Atomic Proofs.DomNormalizeFrame Proofs.DomNormalizeStore
  Proofs.DomNormalizeSteps Proofs.DomNormalizeLoop.
Import ListNotations.
Open Scope N_scope.

Definition norm_store (s : store) (i : id) : store := ns (N.to_nat (next s)) s i.

Lemma ns_not_element f s i : kind_of s i <> Some KEl -> ns f s i = s.
Proof.
  intros K. destruct f as [|f]; [reflexivity|]. cbn [ns]. destruct (kind_of s i) as [k|]; [|reflexivity].
  destruct k; try reflexivity. contradiction.
Qed.

Lemma normalize_run_no_doc merged f w r : doc_at w (fst r) = None -> normalize_run merged f w r = w.
Proof. intros D. destruct f as [|f]; [reflexivity|]. cbn [normalize_run]. rewrite D. reflexivity. Qed.

Lemma MS_el (D : id -> Prop) s s' : MS D s s' -> MS (fun e => D e /\ kind_of s e = Some KEl) s s'.
Proof.
  intros M. induction M as [s | s s1 e p c d1 t M IH De Ke Hl Kp Kc V]; [apply MS_refl|].
  eapply MS_step; try eassumption. split; [exact De|]. rewrite <- (MS_kind _ _ _ e M). exact Ke.
Qed.

(** ** the world after the call *)
Theorem normalize_result : forall merged w r s, WInv w -> doc_at w (fst r) = Some s ->
  exists s', fst (normalize merged w r) = set_doc w (fst r) s'
    /\ MS (cdesc s (snd r)) s s'
    /\ (merged = false -> forall e, cdesc s (snd r) e -> kind_of s e = Some KEl -> kind_of s (snd r) = Some KEl ->
          quiet s' None (children_of s' e) = true).
Proof.
  intros merged w [k i] s Hw D. cbn [fst snd] in *.
  pose proof (doc_at_P TreeInv w k s Hw D) as T.
  assert (Triv : fst (normalize merged w (k, i)) = w -> kind_of s i <> Some KEl \/ merged = true ->
    exists s', fst (normalize merged w (k, i)) = set_doc w k s' /\ MS (cdesc s i) s s'
      /\ (merged = false -> forall e, cdesc s i e -> kind_of s e = Some KEl -> kind_of s i = Some KEl ->
            quiet s' None (children_of s' e) = true)).
  { intros E H. exists s. split; [rewrite E; symmetry; apply set_doc_same; exact D|]. split; [apply MS_refl|].
    intros Em e _ _ Ki. destruct H as [H|H]; [contradiction | congruence]. }
  assert (NotEl : kind_of s i <> Some KEl -> fst (normalize merged w (k, i)) = w).
  { intros Ne. unfold normalize, kind_in. cbn [fst snd]. rewrite D.
    destruct (kind_of s i) as [kd|]; [|reflexivity]. destruct kd; try reflexivity. contradiction. }
  assert (IsEl : kind_of s i = Some KEl ->
            fst (normalize merged w (k, i)) = normalize_run merged (N.to_nat (next s)) w (k, i)).
  { intros K. unfold normalize, kind_in, normalize_fuel. cbn [fst snd]. rewrite D, K. reflexivity. }
  destruct (kind_of s i) as [kd|] eqn:K.
  2:{ apply Triv; [apply NotEl; discriminate | left; discriminate]. }
  destruct kd; try (apply Triv; [apply NotEl; discriminate | left; discriminate]).
  destruct merged.
  - apply Triv; [|right; reflexivity]. rewrite (IsEl eq_refl). apply normalize_run_merged.
  - rewrite (IsEl eq_refl). rewrite (normalize_run_store _ w k i s D).
    destruct (kind_of_get _ _ _ K) as [it [G _]].
    destruct (ns_spec (N.to_nat (next s)) s i T K (hgt_next s i it T G)) as [M [Q _]].
    exists (ns (N.to_nat (next s)) s i). split; [reflexivity|]. split; [exact M|].
    intros _ e He Ke _. exact (Q e He Ke).
Qed.

Lemma nth_error_set_nth_other {A} (x : A) : forall n m l, n <> m -> nth_error (set_nth n x l) m = nth_error l m.
Proof.
  induction n as [|n IH]; intros [|m] [|y t] H; cbn; try reflexivity; try contradiction.
  apply IH. intros E. apply H. f_equal. exact E.
Qed.

Lemma doc_at_set_doc_other w k s k' : k' <> k -> doc_at (set_doc w k s) k' = doc_at w k'.
Proof.
  intros H. unfold doc_at, set_doc. cbn [docs]. apply nth_error_set_nth_other. intros E. apply H. apply N2Nat.inj. symmetry. exact E.
Qed.

(** what the receiver's document is afterwards *)
Lemma normalize_doc merged w r s s' : WInv w -> doc_at w (fst r) = Some s ->
  doc_at (fst (normalize merged w r)) (fst r) = Some s' ->
  MS (cdesc s (snd r)) s s'
  /\ (merged = false -> kind_of s (snd r) = Some KEl -> forall e, cdesc s (snd r) e -> kind_of s e = Some KEl ->
        quiet s' None (children_of s' e) = true).
Proof.
  intros Hw D D'. destruct (normalize_result merged w r s Hw D) as [s0 [E [M Q]]].
  rewrite E in D'. rewrite (doc_at_set_doc w (fst r) s0 s D) in D'. inversion D'; subst s0.
  split; [exact M|]. intros Em Ki e He Ke. exact (Q Em e He Ke Ki).
Qed.

(** ** fuel adequacy: [next] of the document is enough, more fuel changes nothing *)
Theorem normalize_fuel_adequate : forall merged w r f, WInv w ->
  (normalize_fuel w r <= f)%nat -> normalize_run merged f w r = normalize_run merged (normalize_fuel w r) w r.
Proof.
  intros merged w [k i] f Hw Hf. destruct merged; [rewrite !normalize_run_merged; reflexivity|].
  unfold normalize_fuel in *. cbn [fst] in *.
  destruct (doc_at w k) as [s|] eqn:D; [|rewrite !normalize_run_no_doc by exact D; reflexivity].
  rewrite !(normalize_run_store _ w k i s D). f_equal.
  pose proof (doc_at_P TreeInv w k s Hw D) as T.
  destruct (kind_of s i) as [kd|] eqn:K.
  2:{ rewrite !ns_not_element by (rewrite K; discriminate). reflexivity. }
  assert (El : kd = KEl \/ kd <> KEl) by (destruct kd; try (right; discriminate); left; reflexivity).
  destruct El as [->|Ne]; [|rewrite !ns_not_element by (rewrite K; congruence); reflexivity].
  destruct (kind_of_get _ _ _ K) as [it [G _]].
  destruct (ns_spec (N.to_nat (next s)) s i T K (hgt_next s i it T G)) as [_ [_ F]]. apply F. exact Hf.
Qed.

(** the merged-text view has no Text child: [normalize] changes nothing there *)
Theorem normalize_merged_view : forall w r, fst (normalize true w r) = w.
Proof.
  intros w r. unfold normalize. destruct (kind_in w r) as [k|]; [|reflexivity]. destruct k; try reflexivity.
  cbn [fst]. apply normalize_run_merged.
Qed.

(** ** (i) locality: nothing outside the subtree underneath the receiver changes, no other document changes *)
Theorem normalize_local : forall merged w r s, WInv w -> doc_at w (fst r) = Some s ->
  (forall k, k <> fst r -> doc_at (fst (normalize merged w r)) k = doc_at w k)
  /\ exists s', doc_at (fst (normalize merged w r)) (fst r) = Some s'
       /\ forall i, ~ cdesc s (snd r) i -> get s' i = get s i.
Proof.
  intros merged w r s Hw D. destruct (normalize_result merged w r s Hw D) as [s' [E [M _]]].
  pose proof (doc_at_P TreeInv w _ s Hw D) as T. split.
  - intros k Hk. rewrite E. apply doc_at_set_doc_other. exact Hk.
  - exists s'. split; [rewrite E; eapply doc_at_set_doc; exact D|].
    intros i Hi. apply (MS_frame _ s s' (MS_el _ _ _ M) T).
    + intros [H _]. exact (Hi H).
    + intros e [He Ke] Hin. apply Hi. eapply cdesc_last; eassumption.
Qed.

(** ** (ii) what the children of every node say is unchanged *)
Theorem normalize_blocks : forall merged w r s s', WInv w -> doc_at w (fst r) = Some s ->
  doc_at (fst (normalize merged w r)) (fst r) = Some s' ->
  forall e, blocks s' (children_of s' e) = blocks s (children_of s e).
Proof.
  intros merged w r s s' Hw D D'. destruct (normalize_doc merged w r s s' Hw D D') as [M _].
  apply (MS_blocks _ s s' M). exact (doc_at_P TreeInv w _ s Hw D).
Qed.

(** hence the serialisation of every node that is no Text node, and of the document *)
Theorem normalize_show : forall merged w r s s', WInv w -> doc_at w (fst r) = Some s ->
  doc_at (fst (normalize merged w r)) (fst r) = Some s' ->
  (forall n, has_kind s KTx n = false -> show s' n = show s n) /\ show_doc s' = show_doc s.
Proof.
  intros merged w r s s' Hw D D'. destruct (normalize_doc merged w r s s' Hw D D') as [M _].
  pose proof (doc_at_P TreeInv w _ s Hw D) as T.
  pose proof (MS_NF _ _ _ M) as F. pose proof (MS_blocks _ s s' M T) as B.
  assert (Hn : next s' = next s) by (destruct F as [H _]; exact H).
  assert (S1 : forall n, has_kind s KTx n = false -> show s' n = show s n).
  { intros n Kn. unfold show. rewrite Hn. apply (show_blocks s s' T F B). exact Kn. }
  split; [exact S1|]. unfold show_doc. destruct F as [_ [Hr _]]. rewrite Hr. apply S1.
  destruct (ti_root s T) as [rit [G K]]. unfold has_kind. rewrite G, K. reflexivity.
Qed.

(** ** (iii) the normal form (raw view) *)
Theorem normalize_normal_form : forall w r s s', WInv w -> doc_at w (fst r) = Some s ->
  kind_of s (snd r) = Some KEl -> doc_at (fst (normalize false w r)) (fst r) = Some s' ->
  forall e, cdesc s (snd r) e -> kind_of s e = Some KEl ->
    quiet s' None (children_of s' e) = true
    /\ forall pre x y post, children_of s' e = pre ++ x :: y :: post ->
         has_kind s' KTx x = true -> has_kind s' KTx y = true ->
         valid_str KTx (data_of s' x ++ data_of s' y) = false.
Proof.
  intros w r s s' Hw D Ki D' e He Ke. destruct (normalize_doc false w r s s' Hw D D') as [_ Q].
  pose proof (Q eq_refl Ki e He Ke) as Qe. split; [exact Qe|].
  intros pre x y post Hl Kx Ky. rewrite Hl in Qe. exact (quiet_adjacent s' x y post pre None Qe Kx Ky).
Qed.

(** ** (iv) idempotence *)
Theorem normalize_idempotent : forall merged w r, WInv w ->
  normalize merged (fst (normalize merged w r)) r = (fst (normalize merged w r), snd (normalize merged w r)).
Proof.
  intros merged w r Hw.
  destruct merged.
  { rewrite normalize_merged_view. destruct (normalize true w r) as [w1 o] eqn:E.
    pose proof (normalize_merged_view w r) as H. rewrite E in H. cbn [fst] in H. subst w1. reflexivity. }
  destruct (kind_in w r) as [kd|] eqn:K.
  2:{ unfold normalize. rewrite K. cbn [fst snd]. rewrite K. reflexivity. }
  assert (El : kd = KEl \/ kd <> KEl) by (destruct kd; try (right; discriminate); left; reflexivity).
  destruct El as [->|Ne].
  2:{ assert (E : normalize false w r = (w, NotApplicable)) by (unfold normalize; rewrite K; destruct kd; try reflexivity; contradiction).
      rewrite E. cbn [fst snd]. exact E. }
  destruct (kind_in_inv _ _ _ K) as [s [D Ks]].
  destruct (normalize_result false w r s Hw D) as [s' [E [M Q]]].
  pose proof (doc_at_P TreeInv w _ s Hw D) as T.
  assert (O : snd (normalize false w r) = Ok RUnit) by (unfold normalize; rewrite K; reflexivity).
  rewrite O, E.
  assert (D1 : doc_at (set_doc w (fst r) s') (fst r) = Some s') by (eapply doc_at_set_doc; exact D).
  assert (K1 : kind_of s' (snd r) = Some KEl) by (rewrite (MS_kind _ _ _ (snd r) M); exact Ks).
  unfold normalize at 1. unfold kind_in. rewrite D1, K1. f_equal.
  unfold normalize_fuel. rewrite D1. destruct r as [k i]. cbn [fst snd] in *.
  rewrite (normalize_run_store _ _ k i s' D1). rewrite set_doc_twice.
  rewrite ns_quiet_noop; [reflexivity|].
  intros e He Ke. apply (Q eq_refl e).
  - eapply cdesc_mono; [eapply MS_NF; exact M | exact He].
  - rewrite <- (MS_kind _ _ _ e M). exact Ke.
  - exact Ks.
Qed.

(** ** the hypotheses are satisfiable: the example of Proofs/DomNormalizeC12.v
    ([<r><a x="1">t</a><b/></r>] after a split and two appended Text nodes: [a] = [""; "t"; "]]"; ">"]).
    The receiver [r] (id 2) is an element, the element [a] (id 3) is nested in its subtree and is not in normal
    form; after [normalize] its children are [6; 10] and that pair is a refused one ("t]]" in front of ">"). *)
From XmlRs Require Import Proofs.DomExample Proofs.DomC12 Proofs.DomNormalizeC12.

Example nz_spec_example :
  WInv nz_before /\ doc_at nz_before 0 = Some (store0 nz_before)
  /\ kind_of (store0 nz_before) 2 = Some KEl
  /\ cdesc (store0 nz_before) 2 3 /\ kind_of (store0 nz_before) 3 = Some KEl
  /\ quiet (store0 nz_before) None (children_of (store0 nz_before) 3) = false
  /\ children_of (store0 (fst (normalize false nz_before (0, 2)))) 3 = [6; 10]
  /\ valid_str KTx (data_of (store0 (fst (normalize false nz_before (0, 2)))) 6
                    ++ data_of (store0 (fst (normalize false nz_before (0, 2)))) 10) = false.
Proof.
  split; [apply tree_inv_reachable_with_normalize; exact ex_world_inv|].
  split; [vm_compute; reflexivity|]. split; [vm_compute; reflexivity|].
  split.
  { eapply cd_step; [vm_compute; reflexivity | | apply cd_self].
    assert (E : children_of (store0 nz_before) 2 = [3; 7]) by (vm_compute; reflexivity). rewrite E. left. reflexivity. }
  split; [vm_compute; reflexivity|]. split; [vm_compute; reflexivity|].
  split; vm_compute; reflexivity.
Qed.

Example nz_show_example :
  show_doc (store0 (fst (normalize false nz_before (0, 2)))) = show_doc (store0 nz_before)
  /\ children_of (store0 (fst (normalize false nz_before (0, 2)))) 3 <> children_of (store0 nz_before) 3.
Proof.
  split.
  - destruct nz_spec_example as [Hw [D _]].
    assert (D' : doc_at (fst (normalize false nz_before (0, 2))) 0 = Some (store0 (fst (normalize false nz_before (0, 2)))))
      by (vm_compute; reflexivity).
    exact (proj2 (normalize_show false nz_before (0, 2) _ _ Hw D D')).
  - assert (E1 : children_of (store0 (fst (normalize false nz_before (0, 2)))) 3 = [6; 10]) by (vm_compute; reflexivity).
    assert (E2 : children_of (store0 nz_before) 3 = [6; 8; 9; 10]) by (vm_compute; reflexivity).
    rewrite E1, E2. discriminate.
Qed.
