(** * Model of the DOM Level 1 mutators of crate [dom] (on top of Model/Store.v)

    [step : world -> op -> world * outcome] for every mutator on every receiver kind.  A [world] is
    the list of the documents of a case (each Rust document has its own id allocator, order vector
    and registry); a node is named by [(document index, id)], so that self, ancestors, detached
    nodes and nodes of another document are all expressible -- and so are ids that do not exist
    ([NotApplicable], nothing happens).  The correspondence driver (ocaml/domains/dom/dom.ml) keeps
    the table of live handles and translates handle indices to these pairs.

    String-level behaviour (is this a name? does this text parse as character data? which value
    items does this attribute value denote?) is NOT modelled here: every string argument travels
    with the facts the implementation derives from it ([name_info], [data_info]), computed by the
    harness with the public functions of crate [xml_parser].  The tree and order theorems hold
    for arbitrary such facts.  Character offsets are modelled ([usize] = [N]; counts are clipped).

    The model follows the repaired code (branch agent-dom, then the C13 / C15 repairs of branch
    agent-c13c15: atomic [replace_data] (D39), character data edits validate the RESULTING string
    (D46) -- for which the validity checks of Model/CharData.v are used on the strings themselves --
    [set_named_item] no longer removes first (D40), attributes are replaced / removed by qualified
    name and by identity (D43), [set_attribute] changes the value of the attribute that is present).
    No proofs in this file. *)
From Coq Require Import List NArith Bool.
From XmlRs Require Import Base.CPred Model.Store.
From XmlRs Require Model.CharData.
Import ListNotations.
Open Scope N_scope.

Definition nref := (N * id)%type.

Record world := mkWorld { docs : list store }.

Definition doc_at (w : world) (k : N) : option store := nth_error (docs w) (N.to_nat k).

Fixpoint set_nth {A} (n : nat) (x : A) (l : list A) : list A :=
  match n, l with
  | O, _ :: t => x :: t
  | S m, y :: t => y :: set_nth m x t
  | _, [] => []
  end.

Definition set_doc (w : world) (k : N) (s : store) : world := mkWorld (set_nth (N.to_nat k) s (docs w)).

(** ** facts about string arguments (see the header) *)
Inductive vitem :=
| VText (t : str)                        (* AttributeValue::Text *)
| VChar (name : str) (ch : option str)   (* character reference "#65" / "#x41" and its character, if it is one *)
| VEnt (name : str).                     (* entity reference *)

Record name_info := mkName {
  n_str : str;
  n_elem : option (option str * str);    (* "<s />" is an element: its prefix and local name *)
  n_attr : option (option str * str);    (* "s=''" is an attribute: prefix and local name as stored by info *)
  n_pi : option str;                     (* "<?s?>" is a processing instruction: its target *)
  n_ref : bool                           (* "&s;" is a reference *)
}.

Record data_info := mkData {
  d_str : str;
  d_text : bool;                         (* XmlText::insert accepts it *)
  d_comment : bool;                      (* XmlComment::insert accepts it *)
  d_cdata : bool;                        (* XmlCData::insert accepts it *)
  d_pi : option (option str);            (* "<?t s?>" is a PI: the content it stores *)
  d_attr : option (list vitem)           (* "a=escape(s)" is an attribute: its value items *)
}.

(** ** outcomes *)
Inductive exc :=
| IndexSizeErr | HierarchyRequestErr | WrongDocumentErr | InvalidCharacterErr | NoDataAllowedErr
| NotFoundErr | InuseAttributeErr
| InfoErr.    (* [Error::Info _]: an error of crate info that dom passes on unmapped *)

Inductive ret := RUnit | RNone | RNode (n : nref).

Inductive outcome :=
| Ok (r : ret)
| Failed (e : exc)
| Panicked
| NotApplicable.    (* the receiver / an argument does not exist or has no such method *)

Inductive ierr := OufOfIndex | InvalidHierarchy | InvalidType.

(** ** info: checks and insertion *)
Definition check_insert (s : store) (recv v : id) : option ierr :=
  match kind_of s recv, kind_of s v with
  | Some KDoc, Some kv =>
    match kv with
    | KCm | KPi => None
    | KDt => match doc_decl s, doc_element s with
             | None, None => None
             | _, _ => Some InvalidType
             end
    | KEl => match doc_element s with None => None | Some _ => Some InvalidType end
    | _ => Some InvalidType
    end
  | Some KEl, Some kv =>
    if (v =? recv) || ancestor s recv v then Some InvalidHierarchy
    else match kv with
         | KCd | KCr | KCm | KEl | KPi | KTx | KEr => None
         | _ => Some InvalidType
         end
  | Some KAt, Some kv =>
    if (v =? recv) || ancestor s recv v then Some InvalidHierarchy
    else match kv with
         | KCr | KTx | KEr => None
         | _ => Some InvalidType
         end
  | _, _ => Some InvalidType
  end.

(** [HasChildren::append] *)
Definition info_append (s : store) (recv v : id) : store * option ierr :=
  match check_insert s recv v with
  | Some e => (s, Some e)
  | None => (invalidate (link s recv v None), None)
  end.

(** [HasChildren::insert_before] *)
Definition info_insert_before (s : store) (recv v ref : id) : store * option ierr :=
  if mem ref (children_of s recv)
  then match check_insert s recv v with
       | Some e => (s, Some e)
       | None => if v =? ref then (s, None) else (invalidate (link s recv v (Some ref)), None)
       end
  else (s, Some OufOfIndex).

(** [HasChildren::insert_after] *)
Definition info_insert_after (s : store) (recv v ref : id) : store * option ierr :=
  match index_of ref (children_of s recv) with
  | None => (s, Some OufOfIndex)
  | Some i => match nth_error (children_of s recv) (S i) with
              | Some nx => info_insert_before s recv v nx
              | None => info_append s recv v
              end
  end.

(** [HasChildren::delete] *)
Definition info_delete (s : store) (recv x : id) : store * bool :=
  if mem x (children_of s recv) then (invalidate (delete_by_id s recv x), true) else (s, false).

(** ** info: attributes *)
Definition local_is (s : store) (name : str) (a : id) : bool :=
  match get s a with Some it => str_eqb (ilocal it) name | None => false end.

(** the common part of [XmlElement::remove_attribute] and [remove_attribute_qname]: every selected
    attribute is dropped and loses its owner; the first one is returned *)
Definition remove_attrs (s : store) (e : id) (sel : id -> bool) : store * option id :=
  let removed := filter sel (attrs_of s e) in
  let kept := filter (fun a => negb (sel a)) (attrs_of s e) in
  let s1 := upd s e (with_attrs kept) in
  let s2 := fold_left (fun acc a => upd acc a (with_parent None)) removed s1 in
  (invalidate s2, hd_error removed).

(** [XmlElement::remove_attribute]: selects by local name, whatever the prefix *)
Definition remove_attribute (s : store) (e : id) (name : str) : store * option id :=
  remove_attrs s e (local_is s name).

Definition opt_str_eqb (a b : option str) : bool :=
  match a, b with
  | Some x, Some y => str_eqb x y
  | None, None => true
  | _, _ => false
  end.

Definition qname_is (s : store) (pfx : option str) (name : str) (a : id) : bool :=
  match get s a with Some it => opt_str_eqb (iprefix it) pfx && str_eqb (ilocal it) name | None => false end.

(** [XmlElement::remove_attribute_qname]: selects by prefix and local name *)
Definition remove_attribute_q (s : store) (e : id) (pfx : option str) (name : str) : store * option id :=
  remove_attrs s e (qname_is s pfx name).

(** [XmlElement::attribute_qname]: the specified attribute (namespace declarations included) with
    that qualified name *)
Definition attribute_q (s : store) (e : id) (pfx : option str) (name : str) : option id :=
  find (fun a => has_kind s KAt a && qname_is s pfx name a) (attrs_of s e).

(** [XmlElement::append_attribute] *)
Definition append_attribute (s : store) (e a : id) : store :=
  let s1 := upd s a (with_parent (Some e)) in
  invalidate (upd s1 e (fun it => with_attrs (iattrs it ++ [a]) it)).

(** [Element::get_attribute_node]: first specified non-namespace attribute with that local name *)
Definition get_attribute_node (s : store) (e : id) (name : str) : option id :=
  find (local_is s name) (plain_attrs s e).

(** [XmlAttribute::set_values], first half: the old value items lose their parent (fix DD1) and
    the list is emptied *)
Definition detach_values (s : store) (a : id) : store :=
  fold_left (fun acc x => upd acc x (with_parent None)) (children_of s a) (upd s a (with_children [])).

(** second half: one new value item per parsed piece, appended in order; [None] when a reference
    cannot be resolved.  (The code builds all items first, on a throw-away attribute, and extends
    the list at the end; nothing can be observed in between, and on failure nothing was changed.) *)
Fixpoint add_values (s : store) (a : id) (l : list vitem) : option store :=
  match l with
  | [] => Some s
  | v :: t =>
    match v with
    | VText [] => add_values s a t
    | VText tx =>
      let '(i, s1) := create s (new_item KTx None [] tx false None) in add_values (link s1 a i None) a t
    | VChar name (Some ch) =>
      let '(i, s1) := create s (new_item KCr None name ch false None) in add_values (link s1 a i None) a t
    | VChar _ None => None
    | VEnt name =>
      if entity_known s name
      then let '(i, s1) := create s (new_item KEr None name [] false None) in add_values (link s1 a i None) a t
      else None
    end
  end.

Definition set_values (s : store) (a : id) (d : data_info) : store * bool :=
  match d_attr d with
  | None => (s, false)
  | Some l =>
    match add_values (detach_values s a) a l with
    | Some s1 => (invalidate s1, true)
    | None => (s, false)
    end
  end.

(** ** character data *)
Definition two64 : N := 18446744073709551616.
Definition len (d : str) : N := N.of_nat (length d).

Definition splice (d : str) (off : N) (x : str) : str :=
  let k := N.to_nat (N.min off (len d)) in firstn k d ++ x ++ skipn k d.

(** [delete_char_range] *)
Definition cut (d : str) (off cnt : N) : str :=
  let st := N.min off (len d) in
  let en := N.min (st + cnt) (len d) in
  firstn (N.to_nat st) d ++ skipn (N.to_nat en) d.

(** the checks of [XmlText::check], [XmlComment::check], [XmlCData::check] (Model/CharData.v), applied
    to the string the node would hold AFTER the edit (fix D46) *)
Definition valid_str (k : kind) (d : str) : bool :=
  match k with
  | KTx => CharData.check_text d
  | KCm => CharData.check_comment d
  | KCd => CharData.check_cdata d
  | _ => false
  end.

(** what the harness reports about the fragment (kept for the factories' digests; the edits below
    no longer depend on it) *)
Definition valid_for (k : kind) (d : data_info) : bool :=
  match k with KTx => d_text d | KCm => d_comment d | KCd => d_cdata d | _ => false end.

Definition set_str (s : store) (n : id) (d : str) : store := upd s n (fun it => with_data d (iflag it) it).

Definition data_of (s : store) (n : id) : str := match get s n with Some it => idata it | None => [] end.

(** [replace_char_range] + commit: the one editing primitive (fix D39: nothing is deleted when the
    result is refused) *)
Definition edit_data (s : store) (n : id) (k : kind) (off cnt : N) (x : str) : store * outcome :=
  if len (data_of s n) <? off then (s, Failed IndexSizeErr)
  else let r := splice (cut (data_of s n) off cnt) off x in
       if valid_str k r then (set_str s n r, Ok RUnit) else (s, Failed InfoErr).

Definition insert_data (s : store) (n : id) (k : kind) (off : N) (d : data_info) : store * outcome :=
  edit_data s n k off 0 (d_str d).

(** after the CharacterData fix of main (7ec0908): the count is clipped, [offset + count] saturates *)
Definition delete_data (s : store) (n : id) (off cnt : N) : store * outcome :=
  match kind_of s n with
  | Some k => edit_data s n k off cnt []
  | None => (s, NotApplicable)
  end.

Definition replace_data (s : store) (n : id) (k : kind) (off cnt : N) (d : data_info) : store * outcome :=
  edit_data s n k off cnt (d_str d).

Definition chardata (k : kind) : bool := match k with KTx | KCm | KCd => true | _ => false end.

(** ** DOM wrappers *)
Definition exists_in (w : world) (n : nref) : bool :=
  match doc_at w (fst n) with
  | Some s => match get s (snd n) with Some _ => true | None => false end
  | None => false
  end.

Definition kind_in (w : world) (n : nref) : option kind :=
  match doc_at w (fst n) with Some s => kind_of s (snd n) | None => None end.

(** [owner_document] of the argument differs from the receiver's document (identity, fix D41);
    a document node has no owner document *)
Definition wrong_doc (w : world) (r a : nref) : bool :=
  match kind_in w a with
  | Some KDoc => true
  | _ => negb (fst a =? fst r)
  end.

Definition node_mut (k : kind) : bool :=
  match k with KDoc | KEl | KAt | KTx | KCd | KPi | KCm => true | _ => false end.

Definition dom_insert_before (w : world) (r n : nref) (ref : option nref) : world * outcome :=
  match doc_at w (fst r), kind_in w r with
  | Some s, Some k =>
    if container k then
      if wrong_doc w r n then (w, Failed WrongDocumentErr)
      else match ref with
           | Some f =>
             if wrong_doc w r f then (w, Failed WrongDocumentErr)
             else match info_insert_before s (snd r) (snd n) (snd f) with
                  | (s1, None) => (set_doc w (fst r) s1, Ok (RNode n))
                  | (_, Some OufOfIndex) => (w, Failed NotFoundErr)
                  | (_, Some _) => (w, Failed HierarchyRequestErr)
                  end
           | None =>
             match info_append s (snd r) (snd n) with
             | (s1, None) => (set_doc w (fst r) s1, Ok (RNode n))
             | (_, Some _) => (w, Failed HierarchyRequestErr)
             end
           end
    else (w, Failed HierarchyRequestErr)
  | _, _ => (w, NotApplicable)
  end.

Definition dom_remove_child (w : world) (r o : nref) : world * outcome :=
  match doc_at w (fst r), kind_in w r with
  | Some s, Some k =>
    if container k then
      if wrong_doc w r o then (w, Failed WrongDocumentErr)
      else match info_delete s (snd r) (snd o) with
           | (s1, true) => (set_doc w (fst r) s1, Ok (RNode o))
           | (_, false) => (w, Failed NotFoundErr)
           end
    else (w, Failed HierarchyRequestErr)
  | _, _ => (w, NotApplicable)
  end.

(** [ElementMut::set_attribute_node] on element [e] of document [k] *)
Definition dom_set_attribute_node (w : world) (k : N) (s : store) (e : id) (a : nref) : store * outcome :=
  if negb (fst a =? k) then (s, Failed WrongDocumentErr)
  else match parent_of s (snd a) with
       | Some _ => (s, Failed InuseAttributeErr)
       | None =>
         match get s (snd a) with
         | Some ait =>
           (* typed in Rust: the receiver is an element, the argument an attribute *)
           if kind_eqb (ikind ait) KAt && has_kind s KEl e then
             let '(s1, old) := remove_attribute_q s e (iprefix ait) (ilocal ait) in
             (append_attribute s1 e (snd a),
              Ok (match old with Some o => RNode (k, o) | None => RNone end))
           else (s, NotApplicable)
         | None => (s, NotApplicable)
         end
       end.

Definition attr_local (w : world) (a : nref) : option str :=
  match doc_at w (fst a) with
  | Some s => match get s (snd a) with
              | Some it => match ikind it with KAt => Some (ilocal it) | _ => None end
              | None => None
              end
  | None => None
  end.

Definition attr_q (w : world) (a : nref) : option (option str * str) :=
  match doc_at w (fst a) with
  | Some s => match get s (snd a) with
              | Some it => match ikind it with KAt => Some (iprefix it, ilocal it) | _ => None end
              | None => None
              end
  | None => None
  end.

(** ** operations *)
Inductive op :=
| AppendChild (r n : nref)
| InsertBefore (r n f : nref)
| ReplaceChild (r n o : nref)
| RemoveChild (r o : nref)
| SetAttribute (r : nref) (name : name_info) (value : data_info)
| SetAttributeNode (r a : nref)
| RemoveAttribute (r : nref) (name : str)
| RemoveAttributeNode (r a : nref)
| SetNamedItem (r a : nref)
| RemoveNamedItem (r : nref) (name : str)
| CreateElement (d : nref) (name : name_info)
| CreateAttribute (d : nref) (name : name_info)
| CreateTextNode (d : nref) (data : data_info)
| CreateComment (d : nref) (data : data_info)
| CreateCDataSection (d : nref) (data : data_info)
| CreateProcessingInstruction (d : nref) (target : name_info) (data : data_info)
| CreateEntityReference (d : nref) (name : name_info)
| CreateDocumentFragment (d : nref)
| SetNodeValue (r : nref) (v : data_info)
| SetData (r : nref) (v : data_info)
| AppendData (r : nref) (v : data_info)
| InsertData (r : nref) (off : N) (v : data_info)
| DeleteData (r : nref) (off cnt : N)
| ReplaceData (r : nref) (off cnt : N) (v : data_info)
| SplitText (r : nref) (off : N)
| PISetData (r : nref) (v : data_info)
| Query (d : nref).     (* XPath query: reads only *)

(** run [f] on the store and the kind of an existing receiver *)
Definition on_node (w : world) (r : nref) (f : store -> kind -> store * outcome) : world * outcome :=
  match doc_at w (fst r) with
  | Some s =>
    match kind_of s (snd r) with
    | Some k => let '(s1, o) := f s k in (set_doc w (fst r) s1, o)
    | None => (w, NotApplicable)
    end
  | None => (w, NotApplicable)
  end.

Definition on_element (w : world) (r : nref) (f : store -> store * outcome) : world * outcome :=
  on_node w r (fun s k => match k with KEl => f s | _ => (s, NotApplicable) end).

Definition on_document (w : world) (d : nref) (f : store -> store * outcome) : world * outcome :=
  on_node w d (fun s k => match k with KDoc => f s | _ => (s, NotApplicable) end).

Definition factory (k : N) (s : store) (it : item) : store * outcome :=
  let '(i, s1) := create s it in (s1, Ok (RNode (k, i))).

Definition pi_set (s : store) (n : id) (d : data_info) : store * outcome :=
  match d_pi d with
  | Some (Some c) => (upd s n (with_data c true), Ok RUnit)
  | Some None => (upd s n (with_data [] false), Ok RUnit)
  | None => (s, Failed InfoErr)
  end.

Definition split_text (k : N) (s : store) (n : id) (kd : kind) (off : N) : store * outcome :=
  let d := data_of s n in
  if len d <? off then (s, Failed IndexSizeErr)
  else
    let par := match parent_of s n with
               | Some p => match kind_of s p with Some kp => Some (p, kp) | None => None end
               | None => None
               end in
    let ok := match kd, par with
              | KTx, Some (_, KAt) | KTx, Some (_, KEl) | KCd, Some (_, KEl) => true
              | _, _ => false
              end in
    match par with
    | Some (p, _) =>
      if ok then
        let at_ := N.to_nat (N.min off (len d)) in
        let s1 := set_str s n (firstn at_ d) in
        (* the code creates the tail with the parent id already set; it is linked right away *)
        let '(i, s2) := create s1 (new_item kd None [] (skipn at_ d) false None) in
        match info_insert_after s2 p i n with
        | (s3, None) => (s3, Ok (RNode (k, i)))
        | (s3, Some OufOfIndex) =>
          match info_append s3 p i with
          | (s4, None) => (s4, Ok (RNode (k, i)))
          | (s4, Some _) => (s4, Failed InfoErr)
          end
        | (s3, Some _) => (s3, Failed InfoErr)
        end
      else (s, Failed (match kd with KCd => InfoErr | _ => HierarchyRequestErr end))
    | None => (s, Failed (match kd with KCd => InfoErr | _ => HierarchyRequestErr end))
    end.

Definition step (w : world) (o : op) : world * outcome :=
  match o with
  | AppendChild r n =>
    match kind_in w r with
    | Some k => if node_mut k then if exists_in w n then dom_insert_before w r n None else (w, NotApplicable)
                else (w, NotApplicable)
    | None => (w, NotApplicable)
    end
  | InsertBefore r n f =>
    match kind_in w r with
    | Some k => if node_mut k then if exists_in w n && exists_in w f then dom_insert_before w r n (Some f) else (w, NotApplicable)
                else (w, NotApplicable)
    | None => (w, NotApplicable)
    end
  | ReplaceChild r n o =>
    match kind_in w r with
    | Some k => if node_mut k then
                  if exists_in w n && exists_in w o then
                    match dom_insert_before w r n (Some o) with
                    | (w1, Ok _) => dom_remove_child w1 r o
                    | res => res
                    end
                  else (w, NotApplicable)
                else (w, NotApplicable)
    | None => (w, NotApplicable)
    end
  | RemoveChild r o =>
    match kind_in w r with
    | Some k => if node_mut k then if exists_in w o then dom_remove_child w r o else (w, NotApplicable)
                else (w, NotApplicable)
    | None => (w, NotApplicable)
    end
  | SetAttribute r name value =>
    on_element w r (fun s =>
      match n_attr name with
      | None => (s, Failed InvalidCharacterErr)
      | Some (p, l) =>
        (* [create_attribute] comes first: an id is consumed even when the attribute is present *)
        let '(a, s1) := create s (new_item KAt p l [] false None) in
        match attribute_q s1 (snd r) p l with
        | Some present =>
          (* "its value is changed to be that of the value parameter" *)
          match set_values s1 present value with
          | (s2, true) => (s2, Ok RUnit)
          | (s2, false) => (s2, Failed InfoErr)
          end
        | None =>
          match set_values s1 a value with
          | (s2, true) =>
            match dom_set_attribute_node w (fst r) s2 (snd r) (fst r, a) with
            | (s3, Ok _) => (s3, Ok RUnit)
            | res => res
            end
          | (s2, false) => (s2, Failed InfoErr)
          end
        end
      end)
  | SetAttributeNode r a =>
    match attr_local w a with
    | Some _ => on_element w r (fun s => dom_set_attribute_node w (fst r) s (snd r) a)
    | None => (w, NotApplicable)
    end
  | RemoveAttribute r name =>
    on_element w r (fun s => (fst (remove_attribute s (snd r) name), Ok RUnit))
  | RemoveAttributeNode r a =>
    match attr_q w a with
    | Some (p, l) =>
      on_element w r (fun s =>
        (* the attribute of that qualified name must be [a] itself ([Rc::ptr_eq]) *)
        match attribute_q s (snd r) p l with
        | Some f => if (f =? snd a) && (fst a =? fst r)
                    then (fst (remove_attribute_q s (snd r) p l), Ok (RNode a))
                    else (s, Failed NotFoundErr)
        | None => (s, Failed NotFoundErr)
        end)
    | None => (w, NotApplicable)
    end
  | SetNamedItem r a =>
    (* [set_named_item] = [add] = [set_attribute_node] (fix D40) *)
    match attr_local w a with
    | Some _ => on_element w r (fun s => dom_set_attribute_node w (fst r) s (snd r) a)
    | None => (w, NotApplicable)
    end
  | RemoveNamedItem r name =>
    on_element w r (fun s =>
      match get_attribute_node s (snd r) name with
      | Some f => (fst (remove_attribute s (snd r) name), Ok (RNode (fst r, f)))
      | None => (s, Failed NotFoundErr)
      end)
  | CreateElement d name =>
    on_document w d (fun s =>
      match n_elem name with
      | Some (p, l) => factory (fst d) s (new_item KEl p l [] false None)
      | None => (s, Failed InvalidCharacterErr)
      end)
  | CreateAttribute d name =>
    on_document w d (fun s =>
      match n_attr name with
      | Some (p, l) => factory (fst d) s (new_item KAt p l [] false None)
      | None => (s, Failed InvalidCharacterErr)
      end)
  | CreateTextNode d data =>
    on_document w d (fun s =>
      if valid_str KTx (d_str data) then factory (fst d) s (new_item KTx None [] (d_str data) false None) else (s, Panicked))
  | CreateComment d data =>
    on_document w d (fun s =>
      if valid_str KCm (d_str data) then factory (fst d) s (new_item KCm None [] (d_str data) false None) else (s, Panicked))
  | CreateCDataSection d data =>
    on_document w d (fun s =>
      if valid_str KCd (d_str data) then factory (fst d) s (new_item KCd None [] (d_str data) false None) else (s, Panicked))
  | CreateProcessingInstruction d target data =>
    on_document w d (fun s =>
      match n_pi target, d_pi data with
      | Some t, Some (Some c) => factory (fst d) s (new_item KPi None t c true None)
      | Some t, Some None => factory (fst d) s (new_item KPi None t [] false None)
      | _, _ => (s, Failed InvalidCharacterErr)
      end)
  | CreateEntityReference d name =>
    on_document w d (fun s =>
      if n_ref name
      then if entity_declared s (n_str name)
           then factory (fst d) s (new_item KEr None (n_str name) [] false None)
           else (s, Failed InfoErr)
      else (s, Failed InvalidCharacterErr))
  | CreateDocumentFragment d =>
    on_document w d (fun s => factory (fst d) s (new_item KFr None [] [] false None))
  | SetNodeValue r v =>
    on_node w r (fun s k =>
      match k with
      | KDoc | KEl => (s, Failed NoDataAllowedErr)
      | KAt => match set_values s (snd r) v with
               | (s1, true) => (s1, Ok RUnit)
               | (s1, false) => (s1, Failed InfoErr)
               end
      | KTx | KCm | KCd => replace_data s (snd r) k 0 (len (data_of s (snd r))) v
      | KPi => pi_set s (snd r) v
      | _ => (s, NotApplicable)
      end)
  | SetData r v =>
    on_node w r (fun s k =>
      if chardata k then replace_data s (snd r) k 0 (len (data_of s (snd r))) v else (s, NotApplicable))
  | AppendData r v =>
    on_node w r (fun s k =>
      if chardata k then insert_data s (snd r) k (len (data_of s (snd r))) v else (s, NotApplicable))
  | InsertData r off v =>
    on_node w r (fun s k => if chardata k then insert_data s (snd r) k off v else (s, NotApplicable))
  | DeleteData r off cnt =>
    on_node w r (fun s k => if chardata k then delete_data s (snd r) off cnt else (s, NotApplicable))
  | ReplaceData r off cnt v =>
    on_node w r (fun s k => if chardata k then replace_data s (snd r) k off cnt v else (s, NotApplicable))
  | SplitText r off =>
    on_node w r (fun s k =>
      match k with
      | KTx | KCd => split_text (fst r) s (snd r) k off
      | _ => (s, NotApplicable)
      end)
  | PISetData r v =>
    on_node w r (fun s k => match k with KPi => pi_set s (snd r) v | _ => (s, NotApplicable) end)
  | Query d => (w, Ok RUnit)
  end.

Definition run (w : world) (ops : list op) : world := fold_left (fun a o => fst (step a o)) ops w.
