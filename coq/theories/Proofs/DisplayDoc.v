(** * C04, rung 3 (first part): XML declaration, Misc, prolog and document around the root element.

    The document type declaration enters through the hypothesis [doctype_rt] (proved for the
    declarations the printer writes in Proofs/DisplayDtd.v when that file exists; until then the
    theorem [document_round_trip] is unconditional for documents without a DOCTYPE). *)
From Coq Require Import List NArith Arith Lia Bool.
From XmlRs Require Import Base.CPred Model.Peg Gen.XmlcharGen Gen.GrammarXmlGen Model.ParseActions
     Model.Info Model.Display Proofs.PegTermination Proofs.GrammarTermination Proofs.PegLemmas Proofs.Expansion
     Proofs.DisplayLex Proofs.ActionLemmas Proofs.DisplayElem Proofs.DisplayRun.
Import ListNotations.
Local Open Scope N_scope.

Ltac norm_str := norm_app.

(** ** XML declaration *)
Definition alpha : cpred := InR [(65,90);(97,122)].

Lemma body_xml_decl : body G_xml nt_xml_decl =
  Map L_model_DeclarationXml_from (SeqR (Tag [60;63;120;109;108])
    (SeqL (Seq (NT nt_version_info) (Seq (Opt (NT nt_encoding_decl)) (Opt (NT nt_sd_decl)))) (Seq (Chars0 ws) (Tag [63;62])))).
Proof. reflexivity. Qed.
Lemma body_version_info : body G_xml nt_version_info =
  SeqR (Seq (Chars1 ws) (Seq (Tag [118;101;114;115;105;111;110]) (NT nt_eq)))
       (Alt (SeqR (Tag [39]) (SeqL (NT nt_version_num) (Tag [39]))) (SeqR (Tag [34]) (SeqL (NT nt_version_num) (Tag [34])))).
Proof. reflexivity. Qed.
Lemma body_version_num : body G_xml nt_version_num = Recognize (Seq (Tag [49;46]) (Chars1 dec_digits)).
Proof. reflexivity. Qed.
Lemma body_encoding_decl : body G_xml nt_encoding_decl =
  SeqR (Seq (Chars1 ws) (Seq (Tag [101;110;99;111;100;105;110;103]) (NT nt_eq)))
       (Alt (SeqR (Tag [39]) (SeqL (NT nt_enc_name) (Tag [39]))) (SeqR (Tag [34]) (SeqL (NT nt_enc_name) (Tag [34])))).
Proof. reflexivity. Qed.
Lemma body_enc_name : body G_xml nt_enc_name = Recognize (Seq (Chars1 alpha) (Chars0 is_enc_name)).
Proof. reflexivity. Qed.
Lemma body_sd_decl : body G_xml nt_sd_decl =
  Map L_closure_e66119a0 (SeqR (Seq (Chars1 ws) (Seq (Tag [115;116;97;110;100;97;108;111;110;101]) (NT nt_eq)))
    (Alt (SeqR (Tag [39]) (SeqL (Tag [121;101;115]) (Tag [39]))) (Alt (SeqR (Tag [34]) (SeqL (Tag [121;101;115]) (Tag [34])))
    (Alt (SeqR (Tag [39]) (SeqL (Tag [110;111]) (Tag [39]))) (SeqR (Tag [34]) (SeqL (Tag [110;111]) (Tag [34]))))))).
Proof. reflexivity. Qed.

Definition version_ok (v : str) : Prop :=
  exists ds : str, v = 49 :: 46 :: ds /\ ds <> [] /\ forallb (eval dec_digits) ds = true.

Definition enc_ok (e : str) : Prop :=
  match e with c :: e' => eval alpha c = true /\ forallb (eval is_enc_name) e' = true | [] => False end.

Lemma alpha_enc c : eval alpha c = true -> eval is_enc_name c = true.
Proof.
  unfold alpha, is_enc_name. cbn [eval existsb]. intros H. apply orb_prop in H. destruct H as [H|H].
  - rewrite H. rewrite !orb_true_r. reflexivity.
  - apply orb_prop in H. destruct H as [H|H]; [|discriminate]. rewrite H. reflexivity.
Qed.

Lemma parses_version_num (v r : str) : version_ok v -> stops (eval dec_digits) r -> P (NT nt_version_num) (v ++ r) (TStr v) r.
Proof.
  intros [ds [-> [Hne Hd]]] Hr. apply parses_nt. rewrite body_version_num.
  apply parses_recognize with (t := TPair (TStr [49;46]) (TStr ds)). cbn [app].
  eapply parses_seq; [tag|]. apply parses_chars1; assumption.
Qed.

Lemma parses_enc_name (e r : str) : enc_ok e -> stops (eval is_enc_name) r -> P (NT nt_enc_name) (e ++ r) (TStr e) r.
Proof.
  destruct e as [|c e']; [intros []|]. intros [Hc He] Hr. apply parses_nt. rewrite body_enc_name.
  destruct (span_split (eval alpha) e') as [a1 [a2 [-> [H1 H2]]]].
  apply parses_recognize with (t := TPair (TStr (c :: a1)) (TStr a2)).
  replace ((c :: a1 ++ a2) ++ r) with ((c :: a1) ++ a2 ++ r) by (cbn [app]; rewrite app_assoc; reflexivity).
  eapply parses_seq.
  - apply parses_chars1; [discriminate|apply andb_true_intro; split; [exact Hc|exact H1]|].
    apply stops_app; [|intros _; exact H2]. eapply stops_weaken; [apply alpha_enc|exact Hr].
  - apply parses_chars0; [|exact Hr]. eapply forallb_app_r. exact He.
Qed.

(** the three pseudo-attributes as the printer writes them *)
Definition d_enc_part (enc : str) : str := match enc with [] => [] | e => s_encoding ++ e ++ [34] end.
Definition d_sa_part (sa : option bool) : str :=
  match sa with Some sd => s_standalone ++ (if sd then s_yes else s_no) ++ [34] | None => [] end.
Definition v_enc (enc : str) : val := match enc with [] => VNone | e => VSome (VStr e) end.
Definition v_sa (sa : option bool) : val := match sa with Some b => VSome (VBool b) | None => VNone end.

Lemma sa_part_rt (sa : option bool) (r : str) :
  yields (Opt (NT nt_sd_decl)) (d_sa_part sa ++ s_q_gt ++ r) (v_sa sa) (s_q_gt ++ r).
Proof.
  destruct sa as [[|]|]; unfold d_sa_part, v_sa, s_standalone, s_yes, s_no, s_q_gt; norm_str.
  - apply yields_opt_some. apply yields_nt. rewrite body_sd_decl. apply (yields_map' (VStr [121;101;115])); [reflexivity|].
    eapply yields_seqr.
    + eapply parses_seq; [apply (parses_chars1 G_xml ws [32]); [discriminate|reflexivity|reflexivity]|].
      eapply parses_seq; [tag|apply parses_eq; reflexivity].
    + apply yields_alt_r; [apply fails_seqr_l; apply fails_tag; reflexivity|].
      apply yields_alt_l. apply yields_str. eapply parses_seqr; [tag|]. eapply parses_seql; tag.
  - apply yields_opt_some. apply yields_nt. rewrite body_sd_decl. apply (yields_map' (VStr [110;111])); [reflexivity|].
    eapply yields_seqr.
    + eapply parses_seq; [apply (parses_chars1 G_xml ws [32]); [discriminate|reflexivity|reflexivity]|].
      eapply parses_seq; [tag|apply parses_eq; reflexivity].
    + apply yields_alt_r; [apply fails_seqr_l; apply fails_tag; reflexivity|].
      apply yields_alt_r; [eapply fails_seqr_r; [tag|]; apply fails_seql_l; apply fails_tag; reflexivity|].
      apply yields_alt_r; [apply fails_seqr_l; apply fails_tag; reflexivity|].
      apply yields_str. eapply parses_seqr; [tag|]. eapply parses_seql; tag.
  - apply yields_opt_none. apply fails_nt. rewrite body_sd_decl. apply fails_map. apply fails_seqr_l.
    apply fails_seq_l. apply fails_chars1. reflexivity.
Qed.

Lemma fails_encoding_decl_sa (sa : option bool) (r : str) : F (NT nt_encoding_decl) (d_sa_part sa ++ s_q_gt ++ r).
Proof.
  apply fails_nt. rewrite body_encoding_decl. apply fails_seqr_l.
  destruct sa as [[|]|]; unfold d_sa_part, s_standalone, s_yes, s_no, s_q_gt; norm_str.
  - eapply fails_seq_r; [apply (parses_chars1 G_xml ws [32]); [discriminate|reflexivity|reflexivity]|].
    apply fails_seq_l. apply fails_tag. reflexivity.
  - eapply fails_seq_r; [apply (parses_chars1 G_xml ws [32]); [discriminate|reflexivity|reflexivity]|].
    apply fails_seq_l. apply fails_tag. reflexivity.
  - apply fails_seq_l. apply fails_chars1. reflexivity.
Qed.

Lemma enc_part_rt (enc : str) (r1 : str) : enc = [] \/ enc_ok enc -> F (NT nt_encoding_decl) r1 ->
  yields (Opt (NT nt_encoding_decl)) (d_enc_part enc ++ r1) (v_enc enc) r1.
Proof.
  intros He Hf. destruct enc as [|c e'].
  - cbn [d_enc_part v_enc app]. apply yields_opt_none. exact Hf.
  - destruct He as [He|He]; [discriminate|]. unfold d_enc_part, v_enc, s_encoding. norm_str.
    apply yields_opt_some. apply yields_nt. rewrite body_encoding_decl.
    eapply yields_seqr.
    + eapply parses_seq; [apply (parses_chars1 G_xml ws [32]); [discriminate|reflexivity|reflexivity]|].
      eapply parses_seq; [tag|apply parses_eq; reflexivity].
    + apply yields_alt_r; [apply fails_seqr_l; apply fails_tag; reflexivity|].
      apply yields_str. eapply parses_seqr; [tag|].
      eapply parses_seql; [apply (parses_enc_name (c :: e') (34 :: r1)); [exact He|exact eq_refl]|tag].
Qed.

Theorem xml_decl_rt (v enc : str) (sa : option bool) (r : str) : version_ok v -> enc = [] \/ enc_ok enc ->
  yields (NT nt_xml_decl) (s_xmldecl_open ++ v ++ [34] ++ d_enc_part enc ++ d_sa_part sa ++ s_q_gt ++ r)
         (VDeclXml (DeclXml v (match enc with [] => None | e => Some e end) sa)) r.
Proof.
  intros Hv He. apply yields_nt. rewrite body_xml_decl.
  apply (yields_map' (VPair (VStr v) (VPair (v_enc enc) (v_sa sa)))).
  { destruct enc, sa; reflexivity. }
  unfold s_xmldecl_open. norm_str. eapply yields_seqr; [tag|].
  eapply yields_seql.
  { eapply yields_seq.
    - apply yields_str. apply parses_nt. rewrite body_version_info. eapply parses_seqr.
      + eapply parses_seq; [apply (parses_chars1 G_xml ws [32]); [discriminate|reflexivity|reflexivity]|].
        eapply parses_seq; [tag|apply parses_eq; reflexivity].
      + apply parses_alt_r; [apply fails_seqr_l; apply fails_tag; reflexivity|].
        eapply parses_seqr; [tag|]. eapply parses_seql; [apply parses_version_num; [exact Hv|exact eq_refl]|tag].
    - eapply yields_seq; [apply enc_part_rt; [exact He|apply fails_encoding_decl_sa]|apply sa_part_rt]. }
  unfold s_q_gt. eapply parses_seq; [apply parses_chars0_nil; exact eq_refl|tag].
Qed.

(** ** Misc *)
Lemma body_misc : body G_xml nt_misc =
  Alt (Map L_model_Misc_from (NT nt_comment)) (Alt (Map L_model_Misc_from (NT nt_pi)) (Map L_model_Misc_from (Chars1 ws))).
Proof. reflexivity. Qed.

Definition misc_wf (i : item) : Prop :=
  match i with ItComment s => comment_ok s | ItPI p => pi_ok p | _ => False end.

Definition un_misc (i : item) : misc :=
  match i with ItComment s => MiComment s | ItPI p => MiPI p | _ => MiWhitespace [] end.

Lemma misc_items_un (l : list item) : Forall misc_wf l -> misc_items (map un_misc l) = l.
Proof.
  induction 1 as [|i l Hi _ IH]; [reflexivity|]. cbn [map misc_items flat_map]. fold (misc_items (map un_misc l)).
  rewrite IH. destruct i; cbn [misc_wf] in Hi; try contradiction; reflexivity.
Qed.

(** nothing of Misc starts at [t] *)
Definition misc_stop (t : str) : Prop :=
  prefix [60;33;45;45] t = None /\ prefix [60;63] t = None /\ stops (eval ws) t.

Lemma fails_misc (t : str) : misc_stop t -> F (NT nt_misc) t.
Proof.
  intros [H1 [H2 H3]]. apply fails_nt. rewrite body_misc. repeat apply fails_alt; apply fails_map.
  - apply fails_comment. exact H1.
  - apply fails_pi. exact H2.
  - apply fails_chars1. exact H3.
Qed.

Lemma misc_item_rt (i : item) (r : str) : misc_wf i -> yields (NT nt_misc) (d_item false i ++ r) (VMisc (un_misc i)) r.
Proof.
  intros Hi. apply yields_nt. rewrite body_misc. destruct i; cbn [misc_wf] in Hi; try contradiction; cbn [d_item un_misc].
  - apply yields_alt_l. apply (yields_map' (VComment s)); [reflexivity|].
    unfold s_comment_open, s_comment_close. rewrite <- !app_assoc. apply yields_comment. exact Hi.
  - rewrite d_pi_eq. pose proof (yields_pi p r Hi) as Hy. unfold d_ppi in *. rewrite <- !app_assoc in *. cbn [app] in *.
    apply yields_alt_r; [apply fails_map; apply fails_comment; reflexivity|].
    apply yields_alt_l. apply (yields_map' (VPI p)); [reflexivity|]. exact Hy.
Qed.

Lemma misc_item_length (i : item) : misc_wf i -> (0 < length (d_item false i))%nat.
Proof.
  destruct i; cbn [misc_wf d_item]; try contradiction; intros _.
  - unfold s_comment_open. cbn [app length]. lia.
  - unfold d_pi, s_lt_q. cbn [app length]. lia.
Qed.

Lemma miscs_many (t : str) : misc_stop t -> forall l, Forall misc_wf l ->
  many_yields (NT nt_misc) (d_children l ++ t) (map VMisc (map un_misc l)) t.
Proof.
  intros Ht. induction 1 as [|i l Hi _ IH]; cbn [d_children flat_map map app].
  - apply my_stop. apply fails_misc. exact Ht.
  - fold (d_children l). rewrite <- app_assoc. eapply my_step; [apply misc_item_rt; exact Hi| |exact IH].
    pose proof (misc_item_length i Hi). rewrite (app_length (d_item false i)). unfold str, char in *. lia.
Qed.

(** ** the XML declaration does not match anything else the printer puts first *)
Lemma name_char_not_ws c : eval is_name_char c = true -> eval ws c = false.
Proof.
  intros H. destruct (eval ws c) eqn:E; [|reflexivity]. exfalso.
  destruct (ws_cases c E) as [->|[->|[->| ->]]]; vm_compute in H; discriminate.
Qed.

Lemma fails_xml_decl_tag (s : str) : prefix [60;63;120;109;108] s = None -> F (NT nt_xml_decl) s.
Proof. intros H. apply fails_nt. rewrite body_xml_decl. apply fails_map. apply fails_seqr_l. apply fails_tag. exact H. Qed.

Lemma fails_xml_decl_no_ws (s : str) : stops (eval ws) s -> F (NT nt_xml_decl) ([60;63;120;109;108] ++ s).
Proof.
  intros H. apply fails_nt. rewrite body_xml_decl. apply fails_map. eapply fails_seqr_r; [apply parses_tag|].
  apply fails_seql_l. apply fails_seq_l. apply fails_nt. rewrite body_version_info. apply fails_seqr_l.
  apply fails_seq_l. apply fails_chars1. exact H.
Qed.

Lemma fails_xml_decl_pi (p : ppi) (r : str) : pi_ok p -> F (NT nt_xml_decl) (d_ppi p ++ r).
Proof.
  destruct p as [t v]. unfold pi_ok, d_ppi. cbn [pi_target pi_value]. intros [[Hn Hx] _].
  assert (exists c (X' : str), (t ++ match v with Some d => 32 :: d ++ [63;62] | None => [63;62] end) ++ r = t ++ c :: X'
                               /\ (c = 32 \/ c = 63)) as [c [X' [HX Hc]]].
  { destruct v; norm_app; eauto. }
  norm_app. rewrite <- app_assoc in HX. rewrite HX. clear HX.
  destruct t as [|a [|b [|d t']]]; cbn [app].
  - apply fails_xml_decl_tag. cbn [prefix]. destruct Hc as [-> | ->]; reflexivity.
  - apply fails_xml_decl_tag. cbn [prefix]. destruct (120 =? a); [|reflexivity]. destruct Hc as [-> | ->]; reflexivity.
  - apply fails_xml_decl_tag. cbn [prefix]. destruct (120 =? a); [|reflexivity]. destruct (109 =? b); [|reflexivity].
    destruct Hc as [-> | ->]; reflexivity.
  - destruct (N.eqb_spec 120 a) as [<-|Ha]; [|apply fails_xml_decl_tag; cbn [prefix]; destruct (N.eqb_spec 120 a); [contradiction|reflexivity]].
    destruct (N.eqb_spec 109 b) as [<-|Hb]; [|apply fails_xml_decl_tag; cbn [prefix]; destruct (N.eqb_spec 109 b); [contradiction|reflexivity]].
    destruct (N.eqb_spec 108 d) as [<-|Hd]; [|apply fails_xml_decl_tag; cbn [prefix]; destruct (N.eqb_spec 108 d); [contradiction|reflexivity]].
    destruct t' as [|e t''].
    + exfalso. vm_compute in Hx. discriminate.
    + change (60 :: 63 :: 120 :: 109 :: 108 :: (e :: t'') ++ c :: X') with ([60;63;120;109;108] ++ e :: t'' ++ c :: X').
      apply fails_xml_decl_no_ws. cbn [stops]. apply name_char_not_ws.
      unfold name_ok in Hn. cbn [forallb] in Hn. do 3 (apply andb_prop in Hn; destruct Hn as [_ Hn]).
      apply andb_prop in Hn. tauto.
Qed.
