(** * C13: [step_refines] for operations whose string facts are computed by the model of the parser

    [step_refines_model_facts] / [step_refines_reachable_model_facts]: Proofs/DomL1RefineAll.v
    without the hypotheses [op_facts_agree] (the call) and [op_facts_ok] (the history): the
    facts are [facts_of_name] / [facts_of_data] of the string arguments ([model_facts]) and the
    calls stay outside [KnownFacts] (D04 through the DOM factories and attribute values; the
    unchecked rest of create_entity_reference).  What remains assumed between these theorems and the code
    is that the implementation's parser computes what its model computes: the [prod] / [parse]
    correspondences (every production, real parser against [Peg.run] on the regenerated grammar and
    Model/ParseActions.v) and the [dom] correspondence (the facts printed by the harness are the
    arguments of the model driver). *)
From Coq Require Import List NArith Bool.
From XmlRs Require Import Base.CPred Model.Store Model.DomOps Proofs.DomTree Proofs.DomOpsInv Proofs.DomPrintable
  Proofs.DomL1Abs Proofs.DomL1RefineInv Proofs.DomL1RefineNames Proofs.DomL1RefineAll Model.DomFacts Proofs.DomFactsAgree.
From XmlRs Require Spec.DomL1.
Import ListNotations.
Open Scope N_scope.

Theorem step_refines_model_facts : forall w o ao,
  WInv2 w -> WPrintable w -> model_facts o -> KnownFacts o = false -> Known13 w o = false -> abs_op o = Some ao ->
  conforms_from w o ao.
Proof. intros w o ao H2 Hp M K. apply step_refines_all; try assumption. apply model_facts_agree; assumption. Qed.

Theorem step_refines_reachable_model_facts : forall init ops o ao,
  WInv2 init -> WPrintable init -> Forall model_facts ops -> forallb (fun x => negb (KnownFacts x)) ops = true ->
  model_facts o -> KnownFacts o = false -> Known13 (run init ops) o = false -> abs_op o = Some ao ->
  conforms_from (run init ops) o ao.
Proof.
  intros init ops o ao H2 Hp Mh Kh M K. apply step_refines_model_facts; try assumption.
  - apply run_inv2. exact H2.
  - apply printable_reachable_model_facts; assumption.
Qed.

(** every operation becomes one with model facts by recomputing them from its strings; the
    specification's operation and the exclusions only depend on the strings *)
Lemma with_model_facts_model o : model_facts (with_model_facts o).
Proof. unfold model_facts. destruct o; reflexivity. Qed.

Lemma with_model_facts_abs o : abs_op (with_model_facts o) = abs_op o.
Proof. destruct o; reflexivity. Qed.

Lemma with_model_facts_known o : KnownFacts (with_model_facts o) = KnownFacts o.
Proof. destruct o; reflexivity. Qed.

Theorem step_refines_strings : forall w o ao,
  WInv2 w -> WPrintable w -> KnownFacts o = false -> Known13 w (with_model_facts o) = false -> abs_op o = Some ao ->
  conforms_from w (with_model_facts o) ao.
Proof.
  intros w o ao H2 Hp K K13 Ha. apply step_refines_model_facts; try assumption.
  - apply with_model_facts_model.
  - rewrite with_model_facts_known. exact K.
  - rewrite with_model_facts_abs. exact Ha.
Qed.

Lemma map_model_facts l : Forall model_facts (map with_model_facts l).
Proof. induction l as [|o l IH]; cbn [map]; constructor; [apply with_model_facts_model | exact IH]. Qed.

(** string arguments, before the facts are computed *)
Definition sname (s : str) : name_info := mkName s None None None false.
Definition sdata (s : str) : data_info := mkData s false false false None None.

(** histories given by their strings: the facts of every call are recomputed *)
Lemma known_map ops : forallb (fun x => negb (KnownFacts x)) (map with_model_facts ops) = forallb (fun x => negb (KnownFacts x)) ops.
Proof. induction ops as [|o ops IH]; cbn [map forallb]; [reflexivity|]. rewrite with_model_facts_known, IH. reflexivity. Qed.

Theorem step_refines_reachable_strings : forall init ops o ao,
  WInv2 init -> WPrintable init -> forallb (fun x => negb (KnownFacts x)) ops = true -> KnownFacts o = false ->
  Known13 (run init (map with_model_facts ops)) (with_model_facts o) = false -> abs_op o = Some ao ->
  conforms_from (run init (map with_model_facts ops)) (with_model_facts o) ao.
Proof.
  intros init ops o ao H2 Hp Kh K K13 Ha. apply step_refines_reachable_model_facts; try assumption.
  - apply map_model_facts.
  - rewrite known_map. exact Kh.
  - apply with_model_facts_model.
  - rewrite with_model_facts_known. exact K.
  - rewrite with_model_facts_abs. exact Ha.
Qed.

Theorem printable_reachable_strings : forall ops w,
  WPrintable w -> forallb (fun x => negb (KnownFacts x)) ops = true -> WPrintable (run w (map with_model_facts ops)).
Proof.
  intros ops w Hw K. apply printable_reachable_model_facts; [exact Hw | apply map_model_facts | rewrite known_map; exact K].
Qed.
