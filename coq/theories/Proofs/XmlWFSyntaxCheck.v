(** * C02, rung 3 (well-formedness constraints) for documents WITHOUT a document type declaration.

    The checks XmlDocument::new performs (Model/Info.v [build_document]: unique attribute names,
    legal characters, entity references resolved against the declared + predefined entities) and
    the check nom's `verify` performs in the production `element` (end tag = start tag) imply the
    constraints of Spec/XmlWF.v [check_doc] on the parse tree the specification builds ([x_doc_nodt]):
    Element Type Match, Unique Att Spec, No < in Attribute Values, Legal Character, Entity Declared
    (without a DOCTYPE only amp lt gt apos quot are declared). *)
From Coq Require Import List NArith Arith Lia Bool.
From XmlRs Require Import Base.CPred Spec.XmlChars Model.Peg Gen.XmlcharGen Gen.GrammarXmlGen Model.ParseActions Model.Info Model.Display
     Proofs.XmlcharProofs Proofs.PegTermination Proofs.PegLemmas Proofs.PegInv Proofs.Expansion Proofs.PipelineTotal
     Proofs.DisplayLex Proofs.ActionLemmas Proofs.DisplayElem Proofs.DisplayDoc Proofs.ParseInv Proofs.ParseInvElem Proofs.ParseInvBuild
     Proofs.XmlWFSyntaxLex Proofs.XmlWFSyntaxElem Proofs.XmlWFSyntaxDoc.
From XmlRs Require Spec.XmlWF.
Import ListNotations.
Local Open Scope N_scope.

(** the environment of a document without DOCTYPE: the five predefined entities, all references
    must be declared *)
Definition en0 : W.env := {| W.e_ents := W.with_predefined []; W.e_must_declare := true |}.

(** ** strings *)
Lemma Wstr_eqb_refl (a : str) : W.str_eqb a a = true.
Proof. induction a as [|x a IH]; [reflexivity|]. cbn. rewrite N.eqb_refl. exact IH. Qed.

Lemma Wstr_eqb_eq (a : str) : forall b, W.str_eqb a b = true -> a = b.
Proof.
  induction a as [|x a IH]; intros [|y b] H; try discriminate H; [reflexivity|].
  cbn in H. apply andb_prop in H. destruct H as [H1 H2]. apply N.eqb_eq in H1. subst y. f_equal. apply IH. exact H2.
Qed.

Lemma Wstr_eqb_neq (a b : str) : a <> b -> W.str_eqb a b = false.
Proof. intros H. destruct (W.str_eqb a b) eqn:E; [|reflexivity]. apply Wstr_eqb_eq in E. contradiction. Qed.

(** ** checks are conjunctions *)
Lemma allc_app {A} (g : A -> W.chk) (a b : list A) : W.allc g a = None -> W.allc g b = None -> W.allc g (a ++ b) = None.
Proof.
  intros Ha Hb. unfold W.allc in *. rewrite fold_right_app, Hb. exact Ha.
Qed.

Lemma allc_cons {A} (g : A -> W.chk) (x : A) (l : list A) : g x = None -> W.allc g l = None -> W.allc g (x :: l) = None.
Proof. intros Hx Hl. unfold W.allc in *. cbn [fold_right]. rewrite Hl, Hx. reflexivity. Qed.

Lemma allc_map_ok {A B} (g : B -> W.chk) (h : A -> B) (l : list A) : (forall x, g (h x) = None) -> W.allc g (map h l) = None.
Proof. intros H. induction l as [|x l IH]; [reflexivity|]. cbn [map]. apply allc_cons; [apply H|exact IH]. Qed.

Lemma mapM_app {A B} (g : A -> W.reason + B) (a b : list A) a' b' :
  W.mapM g a = inr a' -> W.mapM g b = inr b' -> W.mapM g (a ++ b) = inr (a' ++ b').
Proof.
  revert a'. induction a as [|x a IH]; intros a' Ha Hb; cbn [W.mapM app] in *.
  - injection Ha as <-. exact Hb.
  - destruct (g x) as [r|y]; [discriminate|]. destruct (W.mapM g a) as [r|ys]; [discriminate|]. injection Ha as <-.
    rewrite (IH ys eq_refl Hb). reflexivity.
Qed.

Lemma mapM_id {A} (g : A -> W.reason + A) (l : list A) : (forall x, In x l -> g x = inr x) -> W.mapM g l = inr l.
Proof.
  induction l as [|x l IH]; intros H; cbn [W.mapM]; [reflexivity|]. rewrite (H x (or_introl eq_refl)).
  rewrite IH by (intros y Hy; apply H; right; exact Hy). reflexivity.
Qed.

(** ** the predefined entities *)
Definition is_predef (n : str) : Prop :=
  n = [108;116] \/ n = [103;116] \/ n = [97;109;112] \/ n = [97;112;111;115] \/ n = [113;117;111;116].

Lemma predefined_cases name e : Info.predefined name = Some e -> is_predef name.
Proof.
  unfold Info.predefined, is_predef. intros H.
  repeat match type of H with (if str_eqb ?a ?b then _ else _) = _ => destruct (str_eqb a b) eqn:E; [apply str_eqb_eq in E; tauto|clear E] end.
  discriminate.
Qed.

Lemma resolve_nodoctype a name e : resolve_ref [] false a name = IOk e -> is_predef name.
Proof.
  unfold resolve_ref. intros H. apply ibind_ok in H. destruct H as [[e0 d] [H1 _]].
  unfold lookup_entity2 in H1. cbn [find] in H1. destruct (Info.predefined name) as [e1|] eqn:P; [|discriminate].
  eapply predefined_cases. exact P.
Qed.

Lemma predef_expand name : is_predef name ->
  exists items, W.expand 6 en0 [] (W.XEntRef name) = inr (W.XExp name items) /\ W.tree_ok 6 en0 (W.XExp name items) = None.
Proof.
  intros [->|[->|[->|[->| ->]]]]; eexists; (split; [vm_compute; reflexivity|]); vm_compute; reflexivity.
Qed.

Lemma predef_av name : is_predef name -> W.av_ok 6 en0 [] [W.AvEnt name] = None.
Proof. intros [->|[->|[->|[->| ->]]]]; vm_compute; reflexivity. Qed.

(** ** character references: WFC Legal Character *)
Lemma digit_hexval r c d : digit_val r c = Some d -> W.hexval c = d.
Proof.
  unfold digit_val, W.hexval, W.isDigit. destruct ((48 <=? c) && (c <=? 57)) eqn:E1; [intros H; injection H as <-; reflexivity|].
  destruct r; [discriminate|].
  destruct ((97 <=? c) && (c <=? 102)) eqn:E2.
  - intros H. injection H as <-. apply andb_prop in E2. destruct E2 as [E2 _]. apply N.leb_le in E2.
    destruct (N.leb_spec c 70); [lia|reflexivity].
  - destruct ((65 <=? c) && (c <=? 70)) eqn:E3; [|discriminate]. intros H. injection H as <-.
    apply andb_prop in E3. destruct E3 as [_ E3]. rewrite E3. reflexivity.
Qed.

Lemma digits_number r (num : str) : forall acc n, digits_val r acc num = Some n ->
  fold_left (fun a d => a * radix_n r + W.hexval d) num acc = n.
Proof.
  induction num as [|c num IH]; intros acc n H; cbn [digits_val fold_left] in *.
  - injection H as <-. reflexivity.
  - destruct (digit_val r c) as [d|] eqn:E; [|discriminate]. rewrite (digit_hexval r c d E). apply IH. exact H.
Qed.

Lemma skip_plus_id (x : N) (num : str) : x <> 43 -> match x :: num with 43 :: (_ :: _) as t => t | _ => x :: num end = x :: num.
Proof.
  intros Hx. destruct x as [|p]; [reflexivity|].
  destruct p as [p|p|]; try reflexivity. destruct p as [p|p|]; try reflexivity. destruct p as [p|p|]; try reflexivity.
  destruct p as [p|p|]; try reflexivity. destruct p as [p|p|]; try reflexivity. destruct p as [p|p|]; try reflexivity.
  contradiction.
Qed.

Lemma char_from_spec num r c : reference_ok (RefChar num r) -> char_from num r = IOk c ->
  W.number (radix_n r) num = c /\ W.isChar c = true.
Proof.
  intros Hok H. unfold char_from in H. destruct (parse_u32 r num) as [n|] eqn:E; [|discriminate].
  destruct (is_scalar n && eval is_char n) eqn:E2; [|discriminate]. injection H as <-.
  apply andb_prop in E2. destruct E2 as [_ E2]. split; [|rewrite isChar_eval; exact E2].
  unfold parse_u32 in E.
  assert (match num with 43 :: (_ :: _) as t => t | _ => num end = num) as Hplus.
  { destruct num as [|x num]; [reflexivity|]. apply skip_plus_id. intros ->.
    destruct r; cbn [reference_ok] in Hok; destruct Hok as [_ Hd]; cbn [forallb] in Hd; apply andb_prop in Hd; destruct Hd as [Hd _]; vm_compute in Hd; discriminate. }
  rewrite Hplus in E. destruct num as [|x num]; [discriminate|].
  destruct (digits_val r 0 (x :: num)) as [m|] eqn:Ed; [|discriminate].
  destruct (m <=? 4294967295); [|discriminate]. injection E as <-.
  unfold W.number. apply digits_number. exact Ed.
Qed.

(** ** WFC Unique Att Spec: different attribute names of the typed model are different strings *)
Lemma ncname_no_colon (n : str) : ncname_ok n -> ~ In 58 n.
Proof.
  destruct n as [|c n]; [intros []|]. intros [Hc Hn] [->|Hin].
  - vm_compute in Hc. discriminate.
  - rewrite forallb_forall in Hn. specialize (Hn 58 Hin). vm_compute in Hn. discriminate.
Qed.

Lemma split_first_colon (p p' l l' : str) : ~ In 58 p -> ~ In 58 p' -> p ++ 58 :: l = p' ++ 58 :: l' -> p = p' /\ l = l'.
Proof.
  revert p'. induction p as [|x p IH]; intros [|y p'] Hp Hp' E; cbn [app] in E.
  - injection E as <-. auto.
  - injection E as <- _. exfalso. apply Hp'. left. reflexivity.
  - injection E as -> _. exfalso. apply Hp. left. reflexivity.
  - injection E as <- E. destruct (IH p') as [-> ->]; [intros H; apply Hp; right; exact H|intros H; apply Hp'; right; exact H|exact E|]. auto.
Qed.

Definition att_name_good (n : att_name) : Prop := att_name_ok n /\ att_name_canon n.

Lemma xmlns_no_colon : ~ In 58 s_xmlns.
Proof. intros H. cbn in H. repeat (destruct H as [H|H]; [discriminate H|]). exact H. Qed.

Lemma x_attname_inj (a b : att_name) : att_name_good a -> att_name_good b -> x_attname a = x_attname b -> att_name_eqb a b = true.
Proof.
  intros [Ha Ca] [Hb Cb] E.
  destruct a as [|s|[p l|x]], b as [|s'|[p' l'|x']]; cbn [x_attname d_qname att_name_ok att_name_canon qname_ok att_name_eqb qname_eqb] in *.
  - reflexivity.
  - discriminate E.
  - exfalso. destruct Hb as [Hp' _]. assert (In 58 W.s_xmlns) as Hin by (rewrite E; apply in_or_app; right; left; reflexivity).
    apply xmlns_no_colon. exact Hin.
  - exfalso. apply Cb. symmetry. exact E.
  - discriminate E.
  - injection E as ->. apply str_eqb_refl.
  - exfalso. destruct Hb as [Hp' Hl']. change (W.s_xmlns ++ 58 :: s) with (s_xmlns ++ 58 :: s) in E.
    destruct (split_first_colon _ _ _ _ xmlns_no_colon (ncname_no_colon _ Hp') E) as [E1 _]. apply Cb. symmetry. exact E1.
  - exfalso. apply (ncname_no_colon _ Hb). rewrite <- E. right. right. right. right. right. left. reflexivity.
  - exfalso. destruct Ha as [Hp _]. assert (In 58 W.s_xmlns) as Hin by (rewrite <- E; apply in_or_app; right; left; reflexivity).
    apply xmlns_no_colon. exact Hin.
  - exfalso. destruct Ha as [Hp Hl]. change (W.s_xmlns ++ 58 :: s') with (s_xmlns ++ 58 :: s') in E.
    destruct (split_first_colon _ _ _ _ (ncname_no_colon _ Hp) xmlns_no_colon E) as [E1 _]. apply Ca. exact E1.
  - destruct Ha as [Hp Hl], Hb as [Hp' Hl'].
    destruct (split_first_colon _ _ _ _ (ncname_no_colon _ Hp) (ncname_no_colon _ Hp') E) as [-> ->].
    rewrite !str_eqb_refl. reflexivity.
  - exfalso. apply (ncname_no_colon _ Hb). rewrite <- E. apply in_or_app. right. left. reflexivity.
  - exfalso. apply Ca. exact E.
  - exfalso. apply (ncname_no_colon _ Ha). rewrite E. right. right. right. right. right. left. reflexivity.
  - exfalso. apply (ncname_no_colon _ Ha). rewrite E. apply in_or_app. right. left. reflexivity.
  - subst x'. apply str_eqb_refl.
Qed.

Definition att_nm (a : attribute) : str := x_attname (at_name a).

Lemma mem_false (k : str) (l : list str) : (forall x, In x l -> x <> k) -> W.mem k l = false.
Proof.
  intros H. unfold W.mem. induction l as [|x l IH]; [reflexivity|]. cbn [existsb].
  rewrite (Wstr_eqb_neq k x) by (intros ->; exact (H x (or_introl eq_refl) eq_refl)).
  apply IH. intros y Hy. apply H. right. exact Hy.
Qed.

Lemma build_attrs_nodup ents ext (l : list attribute) : forall before r,
  build_attrs_from ents ext before l = IOk r ->
  Forall (fun a => att_name_good (at_name a)) before -> Forall (fun a => att_name_good (at_name a)) l ->
  W.nodup_names (map att_nm l) = true /\ (forall b, In b before -> W.mem (att_nm b) (map att_nm l) = false).
Proof.
  induction l as [|a l IH]; intros before r H Hb Hl; cbn [build_attrs_from] in H.
  - split; [reflexivity|]. intros b _. reflexivity.
  - destruct (existsb (fun v => att_name_eqb (at_name v) (at_name a)) before) eqn:Ex; [discriminate|].
    apply ibind_ok in H. destruct H as [x [_ H]]. apply ibind_ok in H. destruct H as [r' [H _]].
    inversion Hl as [|? ? Ha Hl']. subst.
    destruct (IH _ _ H) as [IH1 IH2]; [apply Forall_app; split; [exact Hb|constructor; [exact Ha|constructor]]|exact Hl'|].
    cbn [map W.nodup_names]. split.
    + rewrite (IH2 a) by (apply in_or_app; right; left; reflexivity). rewrite IH1. reflexivity.
    + intros b Hin. unfold W.mem. cbn [existsb]. fold (W.mem (att_nm b) (map att_nm l)).
      rewrite (IH2 b) by (apply in_or_app; left; exact Hin). rewrite orb_false_r.
      apply Wstr_eqb_neq. intros E.
      assert (att_name_eqb (at_name b) (at_name a) = true) as Eq.
      { apply x_attname_inj; [|exact Ha|exact E]. rewrite Forall_forall in Hb. apply (Hb b Hin). }
      assert (existsb (fun v => att_name_eqb (at_name v) (at_name a)) before = true) as Ex2
        by (apply existsb_exists; exists b; split; assumption).
      congruence.
Qed.

(** ** attribute values: Legal Character, Entity Declared, No < in Attribute Values *)
Lemma av_ok_app (a b : list W.avpiece) : W.av_ok 6 en0 [] a = None -> W.av_ok 6 en0 [] b = None -> W.av_ok 6 en0 [] (a ++ b) = None.
Proof. cbn [W.av_ok]. apply allc_app. Qed.

Lemma av_ok_lits (s : str) : W.av_ok 6 en0 [] (map W.AvLit s) = None.
Proof. cbn [W.av_ok]. apply allc_map_ok. reflexivity. Qed.

Lemma av_ok_char n : W.isChar n = true -> W.av_ok 6 en0 [] [W.AvChar n] = None.
Proof. intros H. cbn [W.av_ok W.allc fold_right]. rewrite H. reflexivity. Qed.

Lemma build_avalues_ok (l : list att_value) : forall vs, (exists q, av_ok q false l) \/ (exists q, av_ok q true l) ->
  build_avalues [] false l = IOk vs -> W.av_ok 6 en0 [] (x_av l) = None.
Proof.
  induction l as [|v l IH]; intros vs Hok H; [reflexivity|]. cbn [build_avalues] in H.
  apply ibind_ok in H. destruct H as [o [Ho H]]. apply ibind_ok in H. destruct H as [r [Hr _]].
  change (x_av (v :: l)) with (x_avpiece v ++ x_av l). apply av_ok_app.
  - destruct v as [[num rd|n]|s]; cbn [build_avalue x_avpiece x_ref W.piece_of_ref] in *.
    + apply ibind_ok in Ho. destruct Ho as [c [Hc _]].
      assert (reference_ok (RefChar num rd)) as Hrf by (destruct Hok as [[q Hq]|[q Hq]]; cbn [av_ok] in Hq; tauto).
      destruct (char_from_spec _ _ _ Hrf Hc) as [E Hch]. destruct rd; cbn [radix_n] in E; rewrite E; apply av_ok_char; exact Hch.
    + apply ibind_ok in Ho. destruct Ho as [e [He _]]. apply predef_av. eapply resolve_nodoctype. exact He.
    + apply av_ok_lits.
  - apply (IH r); [|exact Hr]. destruct Hok as [[q Hq]|[q Hq]]; destruct v as [x|s]; cbn [av_ok] in Hq.
    + left. exists q. tauto.
    + right. exists q. tauto.
    + left. exists q. tauto.
    + right. exists q. tauto.
Qed.

Lemma attrs_values_ok (l : list attribute) : forall before r, build_attrs_from [] false before l = IOk r ->
  Forall p_attribute_ok' l -> W.allc (fun a : str * list W.avpiece => W.av_ok 6 en0 [] (snd a)) (map x_att l) = None.
Proof.
  induction l as [|a l IH]; intros before r H Hl; [reflexivity|]. cbn [build_attrs_from] in H.
  destruct (existsb (fun v => att_name_eqb (at_name v) (at_name a)) before); [discriminate|].
  apply ibind_ok in H. destruct H as [x [Hx H]]. apply ibind_ok in H. destruct H as [r' [H _]].
  inversion Hl as [|? ? Ha Hl']. subst. cbn [map]. apply allc_cons; [|eapply IH; eassumption].
  cbn [x_att snd]. unfold build_attr in Hx. destruct (attribute_name (at_name a)) as [lo pr].
  apply ibind_ok in Hx. destruct Hx as [vs [Hvs _]]. destruct Ha as [[_ [q [_ Hq]]] _].
  eapply build_avalues_ok; [left; exists q; exact Hq|exact Hvs].
Qed.

(** ** content and elements *)
Lemma expand_elem nm atts et kids : W.expand 6 en0 [] (W.XElem nm atts et kids) =
  match W.mapM (W.expand 6 en0 []) kids with inl r => inl r | inr kids' => inr (W.XElem nm atts et kids') end.
Proof. reflexivity. Qed.

Lemma text_check (o : option str) :
  W.mapM (W.expand 6 en0 []) (x_text o) = inr (x_text o) /\ W.allc (W.tree_ok 6 en0) (x_text o) = None.
Proof.
  destruct o as [t|]; [|split; reflexivity]. cbn [x_text]. split.
  - apply mapM_id. intros x Hx. apply in_map_iff in Hx. destruct Hx as [c [<- _]]. reflexivity.
  - apply allc_map_ok. reflexivity.
Qed.

Definition elem_checked (e : element) : Prop :=
  p_element_ok e -> forall el, build_element [] false e = IOk el ->
  exists x', W.expand 6 en0 [] (x_elem e) = inr x' /\ W.tree_ok 6 en0 x' = None.

Lemma cells_check (cells : list cell) : cells_all elem_checked cells -> cells_ok p_element_ok cells ->
  forall ch, build_cells (build_element [] false) [] false cells = IOk ch ->
  exists kids', W.mapM (W.expand 6 en0 []) (x_cells x_elem cells) = inr kids' /\ W.allc (W.tree_ok 6 en0) kids' = None.
Proof.
  induction 1 as [|[c tl] l Hc _ IH]; intros Hok ch Hb.
  - exists []. split; reflexivity.
  - cbn [cells_ok] in Hok. destruct Hok as [Hc_ok [_ Hl_ok]]. cbn [build_cells] in Hb.
    apply ibind_ok in Hb. destruct Hb as [it [Hit Hb]]. apply ibind_ok in Hb. destruct Hb as [r [Hr _]].
    destruct (IH Hl_ok r Hr) as [kl [Ekl Okl]]. destruct (text_check tl) as [Et Ot].
    assert (exists x', W.expand 6 en0 [] (x_contents x_elem c) = inr x' /\ W.tree_ok 6 en0 x' = None) as [x' [Ex Ox]].
    { cbn [fst] in Hc. destruct c as [e'|[num rd|n]|s|p|s]; cbn [build_child x_contents contents_ok] in *.
      - exact (Hc Hc_ok it Hit).
      - apply ibind_ok in Hit. destruct Hit as [c0 [Hc0 _]]. destruct (char_from_spec _ _ _ Hc_ok Hc0) as [E Hch].
        unfold x_refitem. destruct rd; cbn [x_ref radix_n] in *; rewrite E; eexists; (split; [reflexivity|]); cbn [W.tree_ok]; rewrite Hch; reflexivity.
      - apply ibind_ok in Hit. destruct Hit as [e0 [He0 _]]. apply resolve_nodoctype in He0.
        destruct (predef_expand n He0) as [items [E1 E2]]. unfold x_refitem. cbn [x_ref]. eauto.
      - eexists. split; reflexivity.
      - eexists. split; reflexivity.
      - eexists. split; reflexivity. }
    cbn [x_cells]. exists (x' :: x_text tl ++ kl). split.
    + cbn [W.mapM]. rewrite Ex. rewrite (mapM_app _ _ _ _ _ Et Ekl). reflexivity.
    + apply allc_cons; [exact Ox|]. apply allc_app; assumption.
Qed.

Theorem element_checked : forall e, elem_checked e.
Proof.
  apply element_ind2.
  - intros n a [Hq [Ha _]] el Hb. cbn [build_element] in Hb. apply ibind_ok in Hb. destruct Hb as [attrs' [Hat _]].
    cbn [x_elem]. rewrite expand_elem. cbn [W.mapM]. eexists. split; [reflexivity|].
    cbn [W.tree_ok]. unfold build_attrs in Hat.
    destruct (build_attrs_nodup [] false a [] attrs' Hat) as [Hnd _]; [constructor| |].
    { revert Ha. apply Forall_impl. intros x [[H1 _] H2]. split; assumption. }
    rewrite map_map. change (map (fun x => fst (x_att x)) a) with (map att_nm a). rewrite Hnd.
    rewrite (attrs_values_ok a [] attrs' Hat Ha). reflexivity.
  - intros n a h cells Hcells [Hq [Ha [Hh Hcs]]] el Hb. cbn [build_element] in Hb.
    apply ibind_ok in Hb. destruct Hb as [attrs' [Hat Hb]]. apply ibind_ok in Hb. destruct Hb as [ch [Hch _]].
    destruct (cells_check cells Hcells Hcs ch Hch) as [kl [Ekl Okl]]. destruct (text_check h) as [Et Ot].
    cbn [x_elem]. rewrite expand_elem. rewrite (mapM_app _ _ _ _ _ Et Ekl). eexists. split; [reflexivity|].
    cbn [W.tree_ok]. rewrite Wstr_eqb_refl. unfold build_attrs in Hat.
    destruct (build_attrs_nodup [] false a [] attrs' Hat) as [Hnd _]; [constructor| |].
    { revert Ha. apply Forall_impl. intros x [[H1 _] H2]. split; assumption. }
    rewrite map_map. change (map (fun x => fst (x_att x)) a) with (map att_nm a). rewrite Hnd.
    rewrite (attrs_values_ok a [] attrs' Hat Ha). cbn [W.guard W.andc]. apply allc_app; assumption.
Qed.

(** ** the document *)
Theorem check_doc_nodoctype (pd : pdoc) (d : document) :
  p_element_ok (d_element pd) -> pr_declaration_doc (d_prolog pd) = None -> build_document pd = IOk d ->
  exists root, W.check_doc (x_doc_nodt pd) = inr root.
Proof.
  intros He Hnd Hb. unfold build_document, build_document_gen in Hb. rewrite Hnd in Hb. cbn [ibind] in Hb.
  apply ibind_ok in Hb. destruct Hb as [el [Hel _]].
  unfold external_subset in Hel. cbn [is_some] in Hel. rewrite andb_false_r in Hel.
  destruct (element_checked (d_element pd) He el Hel) as [x' [Ex Ox]].
  exists x'. unfold W.check_doc.
  change (W.doc_env (x_doc_nodt pd)) with en0. change (W.ent_fuel (x_doc_nodt pd)) with 6%nat.
  cbn [W.x_doctype x_doc_nodt W.subset_ok W.x_root W.e_must_declare en0]. rewrite Ex, Ox. reflexivity.
Qed.

(** rungs 2 and 3 together: an accepted document without DOCTYPE is well-formed XML 1.0 *)
Theorem accepted_wf10_nodoctype_pd (s : str) (pd : pdoc) (d : document) :
  ParseActions.parse_document s = POk (pd, []) -> build_document pd = IOk d ->
  pr_declaration_doc (d_prolog pd) = None -> d04_doc_nodt pd = true -> W.wf_xml10 s = true.
Proof.
  intros Hp Hb Hnd Hd.
  pose proof (parse_document_syntax_nodoctype s pd Hp Hnd Hd) as Hsyn.
  assert (p_element_ok (d_element pd)) as He.
  { unfold ParseActions.parse_document, parse_with in Hp.
    destruct (run G_xml G_xml_R nt_document s) as [[t rest]| |] eqn:Er; try discriminate.
    destruct (eval_tree t) eqn:Et; try discriminate. injection Hp as -> ->. apply run_succ in Er.
    inv_nt Er body_document.
    match goal with H : succ _ (Map _ _) _ _ _ |- _ => inv H end.
    match goal with H : succ _ (Seq (NT nt_prolog) _) _ _ _ |- _ => inv H end.
    match goal with H : succ _ (Seq (NT nt_element) _) _ _ _ |- _ => inv H end.
    match goal with H : succ _ (Many0 _) _ _ _ |- _ => inv H end.
    match goal with H : succ _ (NT nt_element) ?s0 _ _ |- _ => destruct (inv_element (length s0) s0 _ _ (le_n _) H) as [e [Ee Hok]] end.
    match goal with H : succ_many _ (NT nt_misc) _ _ _ |- _ => destruct (syn_miscs _ _ _ H misc_stop_nil) as [m3 [Em3 _]] end.
    cbn [eval_tree] in Et. rewrite Ee, Em3 in Et. destruct (document_val _ _ _ _ Et) as [p [_ ->]]. exact Hok. }
  destruct (check_doc_nodoctype pd d He Hnd Hb) as [root Hc].
  unfold W.wf_xml10, W.verdict10. rewrite Hsyn. unfold W.unsupported. cbn [W.x_doctype x_doc_nodt]. rewrite Hc. reflexivity.
Qed.

(** ** at the entry point [from_raw], with the exclusions as decidable predicates of the input *)
(** the typed document the parser builds from [s] has no document type declaration *)
Definition nodoctype (s : str) : bool :=
  match ParseActions.parse_document s with
  | POk (pd, _) => match pr_declaration_doc (d_prolog pd) with None => true | Some _ => false end
  | _ => false
  end.
(** finding D04 seen on a document without DOCTYPE: some PI target or entity reference name read by the
    parser's production `name` is not a [5] Name *)
Definition KnownD04_nodoctype (s : str) : bool :=
  match ParseActions.parse_document s with
  | POk (pd, _) => negb (d04_doc_nodt pd)
  | _ => false
  end.

Lemma from_raw_inv (s rest : str) (d : document) : from_raw s = OOk (rest, d) ->
  exists pd, ParseActions.parse_document s = POk (pd, rest) /\ build_document pd = IOk d.
Proof.
  unfold from_raw, from_raw_gen. destruct (ParseActions.parse_document s) as [[pd r]| | |]; try discriminate.
  destruct (build_document_gen false pd) as [x| | |] eqn:Eb; try discriminate. intros H. injection H as <- <-. eauto.
Qed.

Theorem accepted_wf10_nodoctype (s : str) (d : document) :
  from_raw s = OOk ([], d) -> nodoctype s = true -> KnownD04_nodoctype s = false -> W.wf_xml10 s = true.
Proof.
  intros H Hn Hk. destruct (from_raw_inv _ _ _ H) as [pd [Hp Hb]]. unfold nodoctype, KnownD04_nodoctype in *. rewrite Hp in *.
  destruct (pr_declaration_doc (d_prolog pd)) eqn:Hnd; [discriminate|]. apply negb_false_iff in Hk.
  eapply accepted_wf10_nodoctype_pd; eassumption.
Qed.

(** the infoset has no document type declaration item exactly when the typed document has none *)
Lemma misc_items_no_doctype (l : list misc) : flat_map (fun c => match c with ItDocType x => [x] | _ => [] end) (misc_items l) = [].
Proof. induction l as [|m l IH]; [reflexivity|]. destruct m; cbn; exact IH. Qed.

Lemma doc_doctype_none (s : str) (d : document) : from_raw s = OOk ([], d) -> doc_doctype d = None -> nodoctype s = true.
Proof.
  intros H Hd. destruct (from_raw_inv _ _ _ H) as [pd [Hp Hb]]. unfold nodoctype. rewrite Hp.
  destruct (pr_declaration_doc (d_prolog pd)) as [dd|] eqn:Hnd; [|reflexivity]. exfalso.
  unfold build_document, build_document_gen in Hb. rewrite Hnd in Hb.
  apply ibind_ok in Hb. destruct Hb as [dt [Hdt Hb]]. apply ibind_ok in Hdt. destruct Hdt as [x [_ Hdt]]. injection Hdt as <-.
  apply ibind_ok in Hb. destruct Hb as [el [_ Hb]]. injection Hb as <-.
  unfold doc_doctype in Hd. cbn [doc_children] in Hd. rewrite flat_map_app, misc_items_no_doctype in Hd. cbn in Hd. discriminate.
Qed.

(** a string without the characters `<!DOCTYPE` has no document type declaration *)
Lemma find_sub_prefix (pat v t : str) : prefix pat v = Some t -> find_sub pat v = Some 0%nat.
Proof. destruct v; cbn [find_sub]; intros ->; reflexivity. Qed.

Lemma find_sub_app_some (pat a b : str) : exists i, find_sub pat (a ++ pat ++ b) = Some i.
Proof.
  induction a as [|c a [i IH]]; cbn [app].
  - exists 0%nat. eapply find_sub_prefix. apply prefix_app.
  - cbn [find_sub]. destruct (prefix pat (c :: a ++ pat ++ b)); [eauto|]. rewrite IH. eauto.
Qed.

Lemma miscs_vals s ts r : SM (NT nt_misc) s ts r -> exists l, map eval_tree ts = map VMisc l.
Proof.
  intros H. remember (NT nt_misc) as ex eqn:Ee. induction H as [ex s|ex s t r1 ts r Hs Hlt Hm IH]; subst ex.
  - exists []. reflexivity.
  - destruct (IH eq_refl) as [l El]. apply syn_misc in Hs. destruct Hs as [m [Em _]]. exists (m :: l). cbn [map]. rewrite Em, El. reflexivity.
Qed.

Lemma body_doctype_decl_head : exists e, body G_xml nt_doctype_decl =
  Map L_model_DeclarationDoc_from (Seq (SeqR (Seq (Tag [60;33;68;79;67;84;89;80;69]) (Chars1 ws)) (NT nt_qname)) e).
Proof. eexists. reflexivity. Qed.

Lemma no_doctype_text (s : str) : find_sub W.s_doctype s = None -> forall pd rest, ParseActions.parse_document s = POk (pd, rest) ->
  pr_declaration_doc (d_prolog pd) = None.
Proof.
  intros Hf pd rest Hp. destruct (pr_declaration_doc (d_prolog pd)) as [dd|] eqn:Hnd; [|reflexivity]. exfalso.
  unfold ParseActions.parse_document, parse_with in Hp.
  destruct (run G_xml G_xml_R nt_document s) as [[t rest']| |] eqn:Er; try discriminate.
  destruct (eval_tree t) eqn:Et; try discriminate. injection Hp as -> ->. apply run_succ in Er.
  inv_nt Er body_document.
  match goal with H : succ _ (Map _ _) _ _ _ |- _ => inv H end.
  match goal with H : succ _ (Seq (NT nt_prolog) _) _ _ _ |- _ => inv H end.
  match goal with H : succ _ (Seq (NT nt_element) _) _ _ _ |- _ => inv H end.
  match goal with H : succ _ (Many0 _) _ _ _ |- _ => inv H end.
  match goal with H : succ _ (NT nt_element) ?s0 _ _ |- _ => destruct (inv_element (length s0) s0 _ _ (le_n _) H) as [e [Ee Hok]] end.
  match goal with H : succ_many _ (NT nt_misc) _ _ _ |- _ => destruct (miscs_vals _ _ _ H) as [m3 Em3] end.
  match goal with H : succ _ (NT nt_prolog) _ _ _ |- _ => inv_nt H body_prolog end.
  match goal with H : succ _ (Map _ _) _ _ _ |- _ => inv H end.
  match goal with H : succ _ (Seq (Opt (NT nt_xml_decl)) _) _ _ _ |- _ => inv H end.
  match goal with H : succ _ (Seq (Many0 _) _) _ _ _ |- _ => inv H end.
  cbn [eval_tree] in Et. rewrite Ee, Em3, prolog_val_eq in Et. destruct (document_val _ _ _ _ Et) as [p [Ep ->]]. cbn [d_prolog] in Hnd.
  match goal with H : succ _ (Opt (NT nt_xml_decl)) _ _ _ |- _ => apply succ_suffix in H; destruct H as [c1 ->] end.
  match goal with H : succ _ (Many0 _) _ _ _ |- _ => apply succ_suffix in H; destruct H as [c2 ->] end.
  match goal with H : succ _ (Opt (Seq (NT nt_doctype_decl) _)) _ _ _ |- _ => inv H end.
  - match goal with H : succ _ (Seq (NT nt_doctype_decl) _) _ _ _ |- _ => inv H end.
    destruct body_doctype_decl_head as [e0 Hbody].
    match goal with H : succ _ (NT nt_doctype_decl) _ _ _ |- _ => inv_nt H Hbody end.
    match goal with H : succ _ (Map _ _) _ _ _ |- _ => inv H end.
    match goal with H : succ _ (Seq (SeqR _ _) _) _ _ _ |- _ => inv H end.
    match goal with H : succ _ (SeqR (Seq (Tag _) _) _) _ _ _ |- _ => inv H end.
    match goal with H : succ _ (Seq (Tag _) _) _ _ _ |- _ => inv H end.
    match goal with H : succ _ (Tag _) _ _ _ |- _ => inv H end.
    rewrite app_assoc in Hf.
    match type of Hf with find_sub _ (_ ++ _ ++ ?rr) = None => destruct (find_sub_app_some W.s_doctype (c1 ++ c2) rr) as [i Hi] end.
    change W.s_doctype with [60;33;68;79;67;84;89;80;69] in *. unfold str, char in *. rewrite Hi in Hf. discriminate.
  - cbn [eval_tree] in Ep. unfold prolog_val in Ep.
    match type of Ep with match ?a with _ => _ end = _ => destruct a; [|discriminate] end.
    match type of Ep with match ?a with _ => _ end = _ => destruct a; [|discriminate] end.
    cbn [as_opt] in Ep. injection Ep as <-. discriminate.
Qed.

Lemma nodoctype_of_text (s : str) (d : document) : find_sub W.s_doctype s = None -> from_raw s = OOk ([], d) -> nodoctype s = true.
Proof.
  intros Hf H. destruct (from_raw_inv _ _ _ H) as [pd [Hp _]]. unfold nodoctype. rewrite Hp.
  rewrite (no_doctype_text s Hf pd [] Hp). reflexivity.
Qed.

(** ** the namespace level.  Findings WFNS20-23 are, by their classifiers in known_findings.json, the
    strings that are well-formed XML 1.0 and violate a namespace constraint *)
Definition KnownNS (s : str) : bool := W.wf_xml10 s && negb (W.wf s).

Theorem accepted_wf_nodoctype (s : str) (d : document) :
  from_raw s = OOk ([], d) -> nodoctype s = true -> KnownD04_nodoctype s = false -> KnownNS s = false -> W.wf s = true.
Proof.
  intros H Hn Hk Hns. pose proof (accepted_wf10_nodoctype s d H Hn Hk) as H10. unfold KnownNS in Hns. rewrite H10 in Hns.
  cbn [andb] in Hns. apply negb_false_iff in Hns. exact Hns.
Qed.

(** the hypotheses are satisfiable by a non-trivial document:
    <?xml version="1.0"?><!--c--><a x="1&amp;&#x41;" xmlns:p='u'><p:b/>t&lt;<![CDATA[z]]><?pi d?></a>  *)
Definition ex_nodoctype : str :=
  [60;63;120;109;108;32;118;101;114;115;105;111;110;61;34;49;46;48;34;63;62;60;33;45;45;99;45;45;62;
   60;97;32;120;61;34;49;38;97;109;112;59;38;35;120;52;49;59;34;32;120;109;108;110;115;58;112;61;39;117;39;62;
   60;112;58;98;47;62;116;38;108;116;59;60;33;91;67;68;65;84;65;91;122;93;93;62;60;63;112;105;32;100;63;62;60;47;97;62;10].

Example nodoctype_nonvacuous :
  (exists d, from_raw ex_nodoctype = OOk ([], d)) /\ nodoctype ex_nodoctype = true /\ KnownD04_nodoctype ex_nodoctype = false
  /\ KnownNS ex_nodoctype = false /\ find_sub W.s_doctype ex_nodoctype = None.
Proof.
  split; [eexists; vm_compute; reflexivity|]. repeat split; vm_compute; reflexivity.
Qed.
