(** * [normalize] is a sequence of merges of ADJACENT Text children ([MS]) -- what every such sequence keeps

    [blocks s l]: the child list [l] with every maximal run of adjacent Text nodes replaced by the concatenation
    of their data ("what the children say").  [quiet s prev l]: walking [l] the way [normalize] does never
    merges (every pair of adjacent Text nodes has a concatenation that [valid_str KTx] refuses) -- the normal
    form.  [MS D s s']: [s'] is reached from [s] by merges [merge _ e p c] where [e] is an element in [D], [p]
    and [c] are Text children of [e], [c] directly behind [p], and the concatenation is accepted.

    Every [MS] sequence from a store with the tree invariant keeps: the tree invariant, the frame [NF], the
    [blocks] of EVERY node ([MS_blocks]), the normal form of every node that has it ([MS_quiet]); it changes
    nothing but elements of [D] and their Text children ([MS_frame]).  [show_blocks]: two stores related by [NF]
    with the same [blocks] everywhere serialise every node that is no Text node to the same string. *)
From Coq Require Import List NArith Bool Lia.
From XmlRs Require Import Base.CPred Model.Store Model.DomOps Model.DomNormalize
  Proofs.DomBase Proofs.DomTree Proofs.DomOpsInv Proofs.DomNormalizeFrame Proofs.DomNormalizeStore.
From XmlRs Require Model.CharData.
Import ListNotations.
Open Scope N_scope.

Inductive block := BText (d : str) | BNode (x : id).

Fixpoint blocks (s : store) (l : list id) : list block :=
  match l with
  | [] => []
  | x :: t =>
    if has_kind s KTx x
    then match blocks s t with
         | BText d :: bs => BText (data_of s x ++ d) :: bs
         | bs => BText (data_of s x) :: bs
         end
    else BNode x :: blocks s t
  end.

Fixpoint quiet (s : store) (prev : option id) (l : list id) : bool :=
  match l with
  | [] => true
  | c :: t =>
    if has_kind s KTx c
    then match prev with
         | Some p => negb (valid_str KTx (data_of s p ++ data_of s c))
         | None => true
         end && quiet s (Some c) t
    else quiet s None t
  end.

(** ** lists *)
Lemma blocks_ext s s' l :
  (forall x, In x l -> has_kind s' KTx x = has_kind s KTx x /\ data_of s' x = data_of s x) ->
  blocks s' l = blocks s l.
Proof.
  induction l as [|x t IH]; intros H; cbn [blocks]; [reflexivity|].
  destruct (H x (or_introl eq_refl)) as [Hk Hd]. rewrite Hk, Hd, IH; [reflexivity|].
  intros y Hy. apply H. right. exact Hy.
Qed.

Lemma blocks_nil s l : blocks s l = [] -> l = [].
Proof.
  destruct l as [|x t]; [reflexivity|]. cbn [blocks]. destruct (has_kind s KTx x); [|discriminate].
  destruct (blocks s t) as [|[d|y] bs]; discriminate.
Qed.

Lemma blocks_merge s s' p c : forall d1 t,
  has_kind s KTx p = true -> has_kind s KTx c = true ->
  (forall x, has_kind s' KTx x = has_kind s KTx x) ->
  data_of s' p = data_of s p ++ data_of s c ->
  (forall x, In x (d1 ++ t) -> data_of s' x = data_of s x) ->
  blocks s' (d1 ++ p :: t) = blocks s (d1 ++ p :: c :: t).
Proof.
  intros d1 t Kp Kc Hk Hp. induction d1 as [|x d1 IH]; intros Hd.
  - cbn [app blocks]. rewrite Hk, Kp, Kc, Hp.
    assert (E : blocks s' t = blocks s t).
    { apply blocks_ext. intros x Hx. split; [apply Hk | apply Hd; exact Hx]. }
    rewrite E. destruct (blocks s t) as [|[d|y] bs]; try reflexivity. rewrite app_assoc. reflexivity.
  - cbn [app blocks]. rewrite Hk, (Hd x (or_introl eq_refl)). rewrite IH; [reflexivity|].
    intros y Hy. apply Hd. right. exact Hy.
Qed.

Lemma quiet_ext s s' l : forall prev,
  (forall x, In x l -> has_kind s' KTx x = has_kind s KTx x /\ data_of s' x = data_of s x) ->
  (forall p, prev = Some p -> data_of s' p = data_of s p) ->
  quiet s' prev l = quiet s prev l.
Proof.
  induction l as [|x t IH]; intros prev H Hp; cbn [quiet]; [reflexivity|].
  destruct (H x (or_introl eq_refl)) as [Hk Hd]. rewrite Hk, Hd.
  assert (Ht : forall y, In y t -> has_kind s' KTx y = has_kind s KTx y /\ data_of s' y = data_of s y)
    by (intros y Hy; apply H; right; exact Hy).
  destruct (has_kind s KTx x).
  - rewrite (IH (Some x) Ht) by (intros q E; inversion E; subst; exact Hd).
    destruct prev as [p|]; [rewrite (Hp p eq_refl)|]; reflexivity.
  - apply IH; [exact Ht | intros q E; discriminate].
Qed.

Lemma quiet_adjacent s p c t : forall d1 prev,
  quiet s prev (d1 ++ p :: c :: t) = true -> has_kind s KTx p = true -> has_kind s KTx c = true ->
  valid_str KTx (data_of s p ++ data_of s c) = false.
Proof.
  induction d1 as [|x d1 IH]; intros prev H Kp Kc.
  - cbn [app quiet] in H. rewrite Kp, Kc in H.
    apply andb_true_iff in H. destruct H as [_ H]. apply andb_true_iff in H. destruct H as [H _].
    apply negb_true_iff in H. exact H.
  - cbn [app quiet] in H. destruct (has_kind s KTx x).
    + apply andb_true_iff in H. destruct H as [_ H]. exact (IH _ H Kp Kc).
    + exact (IH _ H Kp Kc).
Qed.

Lemma remove_first_mid c : forall d1 t, ~ In c d1 -> remove_first c (d1 ++ c :: t) = d1 ++ t.
Proof.
  induction d1 as [|x d1 IH]; intros t H; cbn [app remove_first].
  - rewrite N.eqb_refl. reflexivity.
  - destruct (N.eqb_spec x c) as [->|Ne]; [exfalso; apply H; left; reflexivity|].
    rewrite IH; [reflexivity|]. intros Hc. apply H. right. exact Hc.
Qed.

(** ** one merge *)
Lemma kind_has s k x : kind_of s x = Some k -> has_kind s k x = true.
Proof. apply kind_of_has_kind. Qed.

Lemma has_kind_merge s e p c k x : has_kind (merge s e p c) k x = has_kind s k x.
Proof. rewrite !has_kind_kind_of, kind_of_merge. reflexivity. Qed.

Lemma NF_merge s e p c :
  kind_of s e = Some KEl -> kind_of s p = Some KTx -> kind_of s c = Some KTx -> NF s (merge s e p c).
Proof.
  intros Ke Kp Kc. unfold merge. eapply NF_trans; [apply NF_set_str; apply kind_has; exact Kp|].
  unfold info_delete. destruct (mem c (children_of _ e)); cbn [fst]; [|apply NF_refl].
  eapply NF_trans; [|apply NF_invalidate].
  apply NF_delete; apply kind_has; rewrite kind_of_set_str; assumption.
Qed.

Lemma kind_of_get s x k : kind_of s x = Some k -> exists it, get s x = Some it /\ ikind it = k.
Proof.
  unfold kind_of. destruct (get s x) as [it|]; [|discriminate]. cbn. intros H. inversion H. exists it. split; reflexivity.
Qed.

Section OneMerge.
  Variables (s : store) (e p c : id) (d1 t : list id).
  Hypothesis T : TreeInv s.
  Hypothesis Ke : kind_of s e = Some KEl.
  Hypothesis Hl : children_of s e = d1 ++ p :: c :: t.
  Hypothesis Kp : kind_of s p = Some KTx.
  Hypothesis Kc : kind_of s c = Some KTx.

  Let s' := merge s e p c.

  Lemma om_nodup : NoDup (d1 ++ p :: c :: t).
  Proof.
    rewrite <- Hl. unfold children_of. destruct (get s e) as [eit|] eqn:G; [|constructor].
    eapply (ti_nodup_c s T); exact G.
  Qed.

  Lemma om_p_ne_c : p <> c.
  Proof.
    pose proof om_nodup as N. apply NoDup_remove_2 in N. intros ->. apply N. apply in_or_app. right. left. reflexivity.
  Qed.

  Lemma om_c_notin : ~ In c (d1 ++ p :: t).
  Proof.
    pose proof om_nodup as N. change (d1 ++ p :: c :: t) with (d1 ++ [p] ++ c :: t) in N. rewrite app_assoc in N.
    apply NoDup_remove_2 in N. intros H. apply N. rewrite <- app_assoc. exact H.
  Qed.

  Lemma om_p_notin : ~ In p (d1 ++ t).
  Proof.
    pose proof om_nodup as N. apply NoDup_remove_2 in N. intros H. apply N.
    apply in_app_or in H. apply in_or_app. destruct H as [H|H]; [left; exact H | right; right; exact H].
  Qed.

  Lemma om_child x : In x (d1 ++ p :: c :: t) -> par s x e /\ x <> e.
  Proof.
    intros H. rewrite <- Hl in H. unfold children_of in H. destruct (get s e) as [eit|] eqn:G; [|contradiction].
    assert (L : lists s e x) by (exists eit; split; [exact G | left; exact H]).
    split; [apply (ti_lists_par s T); exact L|]. intros ->. exact (not_self_listed s T e L).
  Qed.

  Lemma om_e_ne_p : e <> p. Proof. intros E. rewrite E in Ke. congruence. Qed.
  Lemma om_e_ne_c : e <> c. Proof. intros E. rewrite E in Ke. congruence. Qed.

  Lemma om_gets :
    TreeInv s'
    /\ (exists eit, get s e = Some eit /\ get s' e = Some (with_children (d1 ++ p :: t) eit))
    /\ get s' p = option_map (fun it => with_data (data_of s p ++ data_of s c) (iflag it) it) (get s p)
    /\ get s' c = option_map (with_parent None) (get s c)
    /\ (forall y, y <> e -> y <> p -> y <> c -> get s' y = get s y).
  Proof.
    destruct (kind_of_get _ _ _ Ke) as [eit [Ge _]].
    set (s1 := set_str s p (data_of s p ++ data_of s c)).
    assert (T1 : TreeInv s1) by (apply set_str_inv; exact T).
    assert (Ge1 : get s1 e = Some eit).
    { unfold s1, set_str. rewrite get_upd_other by exact om_e_ne_p. exact Ge. }
    assert (Hch : ichildren eit = d1 ++ p :: c :: t).
    { unfold children_of in Hl. rewrite Ge in Hl. exact Hl. }
    assert (Hin : In c (ichildren eit)) by (rewrite Hch; apply in_or_app; right; right; left; reflexivity).
    destruct (delete_by_id_spec s1 e c eit T1 Ge1 Hin) as [T2 [_ [G2e [G2c G2o]]]].
    assert (M : mem c (children_of s1 e) = true) by (unfold children_of; rewrite Ge1; apply mem_spec; exact Hin).
    assert (E : s' = invalidate (delete_by_id s1 e c)).
    { unfold s', merge, info_delete. fold s1. rewrite M. reflexivity. }
    rewrite E. split; [apply invalidate_inv; exact T2|].
    split; [|split; [|split]].
    - exists eit. split; [exact Ge|]. rewrite get_invalidate, G2e. rewrite Hch.
      change (d1 ++ p :: c :: t) with (d1 ++ [p] ++ c :: t). rewrite app_assoc.
      rewrite remove_first_mid.
      + rewrite <- app_assoc. reflexivity.
      + intros H. apply om_c_notin. apply in_app_or in H. apply in_or_app.
        destruct H as [H|[H|[]]]; [left; exact H | right; left; exact H].
    - rewrite get_invalidate. rewrite G2o by (first [exact (fun E => om_e_ne_p (eq_sym E)) | exact om_p_ne_c]).
      unfold s1, set_str. rewrite get_upd_same. reflexivity.
    - rewrite get_invalidate, G2c. unfold s1, set_str.
      rewrite get_upd_other by (intros E'; apply om_p_ne_c; symmetry; exact E'). reflexivity.
    - intros y H1 H2 H3. rewrite get_invalidate, (G2o y H1 H3). unfold s1, set_str. apply get_upd_other. exact H2.
  Qed.

  Lemma om_children_e : children_of s' e = d1 ++ p :: t.
  Proof. destruct om_gets as [_ [[eit [_ G]] _]]. unfold children_of. rewrite G. reflexivity. Qed.

  Lemma om_children_other y : y <> e -> children_of s' y = children_of s y.
  Proof.
    intros Ne. destruct om_gets as [_ [_ [Gp [Gc Go]]]]. unfold children_of.
    destruct (N.eq_dec y p) as [->|Np]; [rewrite Gp; destruct (get s p); reflexivity|].
    destruct (N.eq_dec y c) as [->|Nc]; [rewrite Gc; destruct (get s c); reflexivity|].
    rewrite (Go y Ne Np Nc). reflexivity.
  Qed.

  Lemma om_data_p : data_of s' p = data_of s p ++ data_of s c.
  Proof.
    destruct om_gets as [_ [_ [Gp _]]]. destruct (kind_of_get _ _ _ Kp) as [pit [G _]].
    unfold data_of at 1. rewrite Gp, G. reflexivity.
  Qed.

  Lemma om_data_other y : y <> p -> data_of s' y = data_of s y.
  Proof.
    intros Np. destruct om_gets as [_ [[eit [Ge Ge']] [_ [Gc Go]]]]. unfold data_of.
    destruct (N.eq_dec y e) as [->|Ne]; [rewrite Ge', Ge; reflexivity|].
    destruct (N.eq_dec y c) as [->|Nc]; [rewrite Gc; destruct (get s c); reflexivity|].
    rewrite (Go y Ne Np Nc). reflexivity.
  Qed.

  (** [p] is a child of [e] only *)
  Lemma om_p_only y : y <> e -> ~ In p (children_of s y).
  Proof.
    intros Ne H. unfold children_of in H. destruct (get s y) as [yit|] eqn:G; [|contradiction].
    assert (P1 : par s p y) by (apply (ti_lists_par s T); exists yit; split; [exact G | left; exact H]).
    destruct (om_child p) as [P2 _]; [apply in_or_app; right; left; reflexivity|].
    apply Ne. eapply par_fun; eassumption.
  Qed.

  Lemma om_blocks y : blocks s' (children_of s' y) = blocks s (children_of s y).
  Proof.
    destruct (N.eq_dec y e) as [->|Ne].
    - rewrite om_children_e, Hl. apply blocks_merge.
      + apply kind_has. exact Kp.
      + apply kind_has. exact Kc.
      + intros x. apply has_kind_merge.
      + exact om_data_p.
      + intros x Hx. apply om_data_other. intros ->. exact (om_p_notin Hx).
    - rewrite (om_children_other y Ne). apply blocks_ext. intros x Hx. split; [apply has_kind_merge|].
      apply om_data_other. intros ->. exact (om_p_only y Ne Hx).
  Qed.

  Lemma om_quiet y :
    valid_str KTx (data_of s p ++ data_of s c) = true ->
    quiet s None (children_of s y) = true -> quiet s' None (children_of s' y) = true.
  Proof.
    intros V Q. destruct (N.eq_dec y e) as [->|Ne].
    - exfalso. rewrite Hl in Q. rewrite (quiet_adjacent s p c t d1 None Q (kind_has _ _ _ Kp) (kind_has _ _ _ Kc)) in V.
      discriminate.
    - rewrite (om_children_other y Ne). rewrite <- Q. apply quiet_ext; [|intros q E; discriminate].
      intros x Hx. split; [apply has_kind_merge|]. apply om_data_other. intros ->. exact (om_p_only y Ne Hx).
  Qed.

  (** only [e], [p], [c] change *)
  Lemma om_frame y : y <> e -> y <> p -> y <> c -> get s' y = get s y.
  Proof. destruct om_gets as [_ [_ [_ [_ Go]]]]. exact (Go y). Qed.
End OneMerge.

(** ** sequences of merges *)
Inductive MS (D : id -> Prop) : store -> store -> Prop :=
| MS_refl s : MS D s s
| MS_step s s1 e p c d1 t :
    MS D s s1 -> D e -> kind_of s1 e = Some KEl -> children_of s1 e = d1 ++ p :: c :: t ->
    kind_of s1 p = Some KTx -> kind_of s1 c = Some KTx ->
    valid_str KTx (data_of s1 p ++ data_of s1 c) = true ->
    MS D s (merge s1 e p c).

Lemma MS_trans D s1 s2 s3 : MS D s1 s2 -> MS D s2 s3 -> MS D s1 s3.
Proof. intros H12 H23. induction H23; [exact H12 | eapply MS_step; eauto]. Qed.

Lemma MS_weaken (D D' : id -> Prop) s s' : (forall e, D e -> D' e) -> MS D s s' -> MS D' s s'.
Proof. intros H M. induction M; [apply MS_refl | eapply MS_step; eauto]. Qed.

Lemma MS_one (D : id -> Prop) s e p c d1 t :
  D e -> kind_of s e = Some KEl -> children_of s e = d1 ++ p :: c :: t ->
  kind_of s p = Some KTx -> kind_of s c = Some KTx ->
  valid_str KTx (data_of s p ++ data_of s c) = true -> MS D s (merge s e p c).
Proof. intros. eapply MS_step; eauto. apply MS_refl. Qed.

(** a property kept by every merge is kept by every sequence *)
Lemma MS_keeps (D : id -> Prop) (P : store -> Prop) :
  (forall s1 e p c d1 t, TreeInv s1 -> P s1 -> D e -> kind_of s1 e = Some KEl -> children_of s1 e = d1 ++ p :: c :: t ->
     kind_of s1 p = Some KTx -> kind_of s1 c = Some KTx ->
     valid_str KTx (data_of s1 p ++ data_of s1 c) = true -> P (merge s1 e p c)) ->
  forall s s', MS D s s' -> TreeInv s -> P s -> TreeInv s' /\ P s'.
Proof.
  intros HP s s' M T P0. induction M as [s | s s1 e p c d1 t M IH De Ke Hl Kp Kc V]; [split; assumption|].
  destruct (IH T P0) as [T1 P1]. split.
  - exact (proj1 (om_gets s1 e p c d1 t T1 Ke Hl Kp Kc)).
  - eapply HP; eassumption.
Qed.

Lemma MS_inv D s s' : MS D s s' -> TreeInv s -> TreeInv s'.
Proof. intros M T. exact (proj1 (MS_keeps D (fun _ => True) (fun _ _ _ _ _ _ _ _ _ _ _ _ _ _ => I) s s' M T I)). Qed.

Lemma MS_NF D s s' : MS D s s' -> NF s s'.
Proof.
  intros M. induction M as [s | s s1 e p c d1 t M IH De Ke Hl Kp Kc V]; [apply NF_refl|].
  eapply NF_trans; [exact IH | apply NF_merge; assumption].
Qed.

Lemma MS_kind D s s' x : MS D s s' -> kind_of s' x = kind_of s x.
Proof. intros M. apply NF_kind_of. eapply MS_NF. exact M. Qed.

Theorem MS_blocks D s s' : MS D s s' -> TreeInv s -> forall y, blocks s' (children_of s' y) = blocks s (children_of s y).
Proof.
  intros M T.
  apply (MS_keeps D (fun s1 => forall y, blocks s1 (children_of s1 y) = blocks s (children_of s y))) with (s := s); try assumption.
  - intros s1 e p c d1 t T1 P1 _ Ke Hl Kp Kc _ y. rewrite <- (P1 y). eapply om_blocks; eassumption.
  - intros y. reflexivity.
Qed.

Theorem MS_quiet D s s' y : MS D s s' -> TreeInv s ->
  quiet s None (children_of s y) = true -> quiet s' None (children_of s' y) = true.
Proof.
  intros M T Q.
  apply (MS_keeps D (fun s1 => quiet s1 None (children_of s1 y) = true)) with (s := s); try assumption.
  intros s1 e p c d1 t T1 P1 _ Ke Hl Kp Kc V. eapply om_quiet; eassumption.
Qed.

(** what a sequence over [D] leaves alone: everything but the elements of [D] and the Text children they have
    (at the start: child lists only shrink) *)
Theorem MS_frame (D : id -> Prop) s s' : MS D s s' -> TreeInv s ->
  forall y, ~ D y -> (forall e, D e -> ~ In y (children_of s e)) -> get s' y = get s y.
Proof.
  intros M T y Hy Hc.
  assert (G : TreeInv s' /\ (get s' y = get s y /\ forall e, incl (children_of s' e) (children_of s e))).
  { apply (MS_keeps D (fun s1 => get s1 y = get s y /\ forall e, incl (children_of s1 e) (children_of s e))) with (s := s);
      try assumption.
    - intros s1 e p c d1 t T1 [P1 I1] De Ke Hl Kp Kc _. split.
      + rewrite <- P1. eapply om_frame; try eassumption.
        * intros ->. exact (Hy De).
        * intros ->. apply (Hc e De). apply I1. rewrite Hl. apply in_or_app. right. left. reflexivity.
        * intros ->. apply (Hc e De). apply I1. rewrite Hl. apply in_or_app. right. right. left. reflexivity.
      + intros e0. eapply incl_tran; [|apply I1].
        destruct (N.eq_dec e0 e) as [->|Ne].
        * rewrite (om_children_e s1 e p c d1 t T1 Ke Hl Kp Kc), Hl. intros x Hx.
          apply in_app_or in Hx. apply in_or_app. destruct Hx as [Hx|[Hx|Hx]]; [left; exact Hx | right; left; exact Hx | right; right; right; exact Hx].
        * rewrite (om_children_other s1 e p c d1 t T1 Ke Hl Kp Kc e0 Ne). apply incl_refl.
    - split; [reflexivity | intros e0; apply incl_refl]. }
  exact (proj1 (proj2 G)).
Qed.

(** ** serialisation is a function of the blocks *)
Definition bshow (g : id -> str) (b : block) : str := match b with BText d => d | BNode x => g x end.

Lemma show_text f s x : has_kind s KTx x = true -> show_fuel (S f) s x = data_of s x.
Proof.
  intros K. destruct (has_kind_get _ _ _ K) as [it [G Ki]]. cbn [show_fuel]. unfold data_of. rewrite G, Ki. reflexivity.
Qed.

Lemma flat_show_blocks f s l :
  flat_map (show_fuel (S f) s) l = flat_map (bshow (show_fuel (S f) s)) (blocks s l).
Proof.
  induction l as [|x t IH]; [reflexivity|]. cbn [flat_map blocks]. rewrite IH.
  destruct (has_kind s KTx x) eqn:K; [|reflexivity].
  rewrite (show_text f s x K). destruct (blocks s t) as [|[d|y] bs]; cbn [flat_map bshow]; try reflexivity.
  rewrite app_assoc. reflexivity.
Qed.

Lemma flat_show_zero s l : flat_map (show_fuel 0 s) l = [].
Proof. induction l as [|x t IH]; [reflexivity|]. cbn [flat_map show_fuel]. exact IH. Qed.

Lemma blocks_node_nontext s x : forall l, In (BNode x) (blocks s l) -> has_kind s KTx x = false.
Proof.
  induction l as [|y t IH]; cbn [blocks]; [contradiction|].
  destruct (has_kind s KTx y) eqn:K.
  - destruct (blocks s t) as [|[d|z] bs]; intros [H|H]; try discriminate; try contradiction.
    + apply IH. right. exact H.
    + apply IH. exact H.
  - intros [H|H]; [inversion H; subst; exact K | apply IH; exact H].
Qed.

Lemma flat_map_ext_in' {A B} (f g : A -> list B) l : (forall x, In x l -> f x = g x) -> flat_map f l = flat_map g l.
Proof. induction l as [|x t IH]; intros H; [reflexivity|]. cbn. rewrite H by (left; reflexivity). rewrite IH; [reflexivity|]. intros y Hy. apply H. right. exact Hy. Qed.

Section Show.
  Variables s s' : store.
  Hypothesis T : TreeInv s.
  Hypothesis F : NF s s'.
  Hypothesis B : forall y, blocks s' (children_of s' y) = blocks s (children_of s y).

  Lemma show_children f n :
    (forall x, has_kind s KTx x = false -> show_fuel f s' x = show_fuel f s x) ->
    flat_map (show_fuel f s') (children_of s' n) = flat_map (show_fuel f s) (children_of s n).
  Proof.
    intros IH. destruct f as [|f]; [rewrite !flat_show_zero; reflexivity|].
    rewrite !flat_show_blocks, B. apply flat_map_ext_in'. intros [d|x] Hb; [reflexivity|].
    cbn [bshow]. apply IH. eapply blocks_node_nontext. exact Hb.
  Qed.

  Theorem show_blocks : forall f n, has_kind s KTx n = false -> show_fuel f s' n = show_fuel f s n.
  Proof.
    induction f as [|f IH]; intros n Kn; [reflexivity|]. cbn [show_fuel].
    destruct F as [_ [_ [Hd Hi]]]. specialize (Hi n).
    destruct (get s n) as [a|] eqn:Ga; [|rewrite Hi; reflexivity].
    destruct Hi as [b [Gb Fr]]. rewrite Gb.
    pose proof (show_children f n IH) as Hc. unfold children_of in Hc. rewrite Ga, Gb in Hc.
    assert (Kt : ikind a <> KTx).
    { intros E. unfold has_kind in Kn. rewrite Ga, E in Kn. discriminate. }
    assert (Hq : qname b = qname a) by (unfold qname; rewrite (if_prefix _ _ _ Fr), (if_local _ _ _ Fr); reflexivity).
    rewrite (if_kind _ _ _ Fr). destruct (ikind a) eqn:Ka; try contradiction.
    - rewrite Hd, Hc. reflexivity.
    - (* element *)
      rewrite Hq, (if_attrs _ _ _ Fr).
      assert (Ha : flat_map (fun x => c_sp :: show_fuel f s' x) (iattrs a) = flat_map (fun x => c_sp :: show_fuel f s x) (iattrs a)).
      { apply flat_map_ext_in'. intros x Hx. f_equal. apply IH.
        unfold has_kind. destruct (get s x) as [xit|] eqn:Gx; [|reflexivity].
        destruct (ti_attr_kind s T n a x xit Ga Hx Gx) as [_ Kx]. rewrite Kx. reflexivity. }
      rewrite Ha.
      assert (Hn : ichildren b = [] <-> ichildren a = []).
      { pose proof (B n) as Bn. unfold children_of in Bn. rewrite Ga, Gb in Bn. split; intros E.
        - rewrite E in Bn. cbn [blocks] in Bn. symmetry in Bn. eapply blocks_nil. exact Bn.
        - rewrite E in Bn. cbn [blocks] in Bn. eapply blocks_nil. exact Bn. }
      destruct (ichildren b) as [|b1 bt] eqn:Eb, (ichildren a) as [|a1 at_] eqn:Ea.
      + reflexivity.
      + destruct Hn as [Hn _]. specialize (Hn eq_refl). discriminate.
      + destruct Hn as [_ Hn]. specialize (Hn eq_refl). discriminate.
      + rewrite Hc. reflexivity.
    - rewrite Hq, Hc. reflexivity.
    - rewrite (if_data _ _ _ Fr) by congruence. reflexivity.
    - rewrite (if_local _ _ _ Fr). reflexivity.
    - rewrite (if_local _ _ _ Fr). reflexivity.
    - rewrite (if_local _ _ _ Fr), (if_flag _ _ _ Fr), (if_data _ _ _ Fr) by congruence. reflexivity.
    - rewrite (if_data _ _ _ Fr) by congruence. reflexivity.
    - rewrite (if_data _ _ _ Fr) by congruence. reflexivity.
    - reflexivity.
  Qed.
End Show.
