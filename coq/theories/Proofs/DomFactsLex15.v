(** * C15: the strengthened lexical invariant and the round trip of edited documents, for operations
    whose string facts are computed by the model of the parser

    [model_facts_ok15]: the facts computed by the model satisfy [op_facts_ok15] (a PI target that the
    parser returns is not xml, the PI data it returns do not start with white space, a character
    reference item carries the digits of its character) -- for every string, no exclusion.
    [lex15_reachable_model_facts], [edited_roundtrip_reachable_model_facts],
    [edited_roundtrip_m_reachable_model_facts]: Proofs/StoreDocInv.v, StoreDocReach.v and
    StoreDocMergedReach.v without the hypotheses [op_facts_ok] / [op_facts_ok15] on the history. *)
From Coq Require Import List NArith Arith Lia Bool.
From XmlRs Require Import Base.CPred Spec.XmlChars Model.Peg Gen.XmlcharGen Model.ParseActions
  Proofs.PegLemmas Proofs.NameLanguage Proofs.DisplayLex Model.DomFacts Proofs.DomFactsName Proofs.DomFactsData.
From XmlRs Require Import Model.Info Model.Display.
From XmlRs Require Import Model.Store Model.PrintableCheck Model.DomOps Model.StoreDoc Model.StoreDocMerged
  Proofs.DomTree Proofs.DomOpsInv Proofs.DomPrintable Proofs.DomL1RefineInv
  Proofs.StoreDocInv Proofs.StoreDocReach Proofs.StoreDocMergedReach Proofs.DomFactsAgree.
From XmlRs Require Spec.DomL1 Proofs.DisplayElem.
Import ListNotations.
Local Open Scope N_scope.

Lemma is_ws_ws c : is_ws c = eval ws c.
Proof.
  destruct (eval ws c) eqn:E.
  - destruct (DisplayElem.ws_cases c E) as [->|[->|[->| ->]]]; reflexivity.
  - unfold is_ws. destruct (N.eqb_spec c 32) as [->|]; [discriminate E|].
    destruct (N.eqb_spec c 9) as [->|]; [discriminate E|].
    destruct (N.eqb_spec c 13) as [->|]; [discriminate E|].
    destruct (N.eqb_spec c 10) as [->|]; [discriminate E|]. reflexivity.
Qed.

Lemma skip_space_no_lead s : no_lead_ws (DomL1.skip_space s) = true.
Proof.
  destruct (skip_space_split s) as [w [_ [_ Hs]]]. unfold no_lead_ws. destruct (DomL1.skip_space s) as [|x t]; [reflexivity|].
  cbn [stops] in Hs. rewrite is_ws_ws, Hs. reflexivity.
Qed.

Lemma charref_item_ok num r c : reference_ok (RefChar num r) -> char_from num r = IOk c ->
  charref_ok (charref_name num r) [c] = true.
Proof.
  intros Hx Hc. destruct r; cbn [reference_ok] in Hx; destruct Hx as [Hne Hd].
  - destruct num as [|d t]; [contradiction|].
    assert (Hdd : 48 <= d <= 57) by (cbn [forallb] in Hd; apply andb_prop in Hd; apply dec_cases; tauto).
    unfold charref_ok, charref_name. change (35 =? 35) with true. cbn [andb].
    assert (Ep : cr_parts (35 :: d :: t) = (d :: t, Dec)).
    { unfold cr_parts. replace (d =? 120) with false by (symmetry; apply N.eqb_neq; lia). reflexivity. }
    rewrite Ep. cbn [fst snd negb andb digit_of]. rewrite Hc.
    replace (forallb dec_digit (d :: t)) with true.
    + cbn [andb Peg.str_eqb]. rewrite N.eqb_refl. reflexivity.
    + symmetry. revert Hd. apply forallb_impl'. intros x Hx. unfold dec_digit. rewrite <- dec_range. exact Hx.
  - destruct num as [|d t]; [contradiction|].
    unfold charref_ok, charref_name. change (35 =? 35) with true. cbn [andb].
    assert (Ep : cr_parts (35 :: 120 :: d :: t) = (d :: t, Hex)) by reflexivity.
    rewrite Ep. cbn [fst snd negb andb digit_of]. rewrite Hc.
    replace (forallb hex_digit (d :: t)) with true.
    + cbn [andb Peg.str_eqb]. rewrite N.eqb_refl. reflexivity.
    + symmetry. revert Hd. apply forallb_impl'. intros x Hx. unfold hex_digit, dec_digit. rewrite <- hex_range. exact Hx.
Qed.

Lemma av_items_ok15 q : forall avl b, av_ok q b avl -> forallb vitem_ok15 (map vitem_of avl) = true.
Proof.
  induction avl as [|v avl IH]; intros b Hok; [reflexivity|]. cbn [map forallb]. apply andb_true_intro. split.
  - destruct v as [[num r|n]|s]; cbn [av_ok] in Hok; cbn [vitem_of vitem_ok15]; try reflexivity.
    destruct (char_from num r) as [c| | |] eqn:E; try reflexivity. apply charref_item_ok; [tauto | exact E].
  - destruct v as [[num r|n]|s]; cbn [av_ok] in Hok; [apply (IH false) | apply (IH false) | apply (IH true)]; tauto.
Qed.

Theorem data_facts_ok15_model : forall s, data_facts_ok15 (facts_of_data s).
Proof.
  intros s. unfold data_facts_ok15, facts_of_data. cbn [d_attr d_pi]. split.
  - intros l Hl. destruct (value_fact_some s l Hl) as [avl [-> [Hok _]]]. exact (av_items_ok15 _ avl false Hok).
  - intros c Hc. rewrite pi_data_fact_spec in Hc. destruct (DomL1.storable_pi s); [|discriminate].
    injection Hc as <-. apply skip_space_no_lead.
Qed.

Theorem name_facts_ok15_model : forall s, name_facts_ok15 (facts_of_name s).
Proof. intros s t. exact (proj2 (proj2 (proj2 (proj2 (facts_of_name_ok s)))) t). Qed.

Theorem model_facts_ok15 : forall o, model_facts o -> op_facts_ok15 (relevant o).
Proof.
  intros o M. unfold model_facts in M.
  destruct o as [| | | |r n v| | | | | |d n|d n| | | |d n v|d n| |r v| | | | | | |r v|];
    cbn [with_model_facts] in M; cbn [relevant op_facts_ok15]; try exact I.
  - injection M as Hn Hv. apply data_mf_eq in Hv. unfold data_facts_ok15. cbn [d_attr d_pi]. rewrite Hv.
    split; [exact (proj1 (data_facts_ok15_model _)) | discriminate].
  - injection M as Hn Hv. apply name_mf_eq in Hn. apply data_mf_eq in Hv. split.
    + unfold name_facts_ok15. cbn [n_pi]. rewrite Hn. apply name_facts_ok15_model.
    + unfold data_facts_ok15. cbn [d_attr d_pi]. rewrite Hv. split; [discriminate | exact (proj2 (data_facts_ok15_model _))].
  - injection M as Hv. apply data_mf_eq in Hv. unfold data_facts_ok15. cbn [d_attr d_pi]. rewrite Hv. apply data_facts_ok15_model.
  - injection M as Hv. apply data_mf_eq in Hv. unfold data_facts_ok15. cbn [d_attr d_pi]. rewrite Hv.
    split; [discriminate | exact (proj2 (data_facts_ok15_model _))].
Qed.

Lemma relevant_all_ok15 ops : Forall model_facts ops -> Forall op_facts_ok15 (map relevant ops).
Proof. intros M. induction M as [|o ops Mo _ IH]; cbn [map]; constructor; [apply model_facts_ok15; exact Mo | exact IH]. Qed.

Theorem lex15_reachable_model_facts : forall ops w,
  WLex15 w -> Forall model_facts ops -> forallb (fun o => negb (KnownFacts o)) ops = true -> WLex15 (run w ops).
Proof.
  intros ops w Hw M K. rewrite <- run_relevant. apply lex15_reachable; [exact Hw | apply relevant_all_ok; assumption | apply relevant_all_ok15; exact M].
Qed.

Theorem edited_roundtrip_reachable_model_facts : forall init ops k s,
  WInv2 init -> WLex15 init -> Forall model_facts ops -> forallb (fun o => negb (KnownFacts o)) ops = true ->
  doc_at (run init ops) k = Some s -> Known15 s = false ->
  display (doc_of_store s) = show_doc s /\ from_raw (show_doc s) = OOk ([], doc_of_store s).
Proof.
  intros init ops k s I2 L M K D. rewrite <- run_relevant in D.
  apply (edited_roundtrip_reachable init (map relevant ops) k s I2 L); [apply relevant_all_ok; assumption | apply relevant_all_ok15; exact M | exact D].
Qed.

Theorem edited_roundtrip_m_reachable_model_facts : forall init ops k s,
  WInv2 init -> WLex15 init -> Forall model_facts ops -> forallb (fun o => negb (KnownFacts o)) ops = true ->
  doc_at (run init ops) k = Some s -> Known15m s = false ->
  from_raw (show_doc s) = OOk ([], norm_doc (doc_of_store s)).
Proof.
  intros init ops k s I2 L M K D. rewrite <- run_relevant in D.
  apply (edited_roundtrip_m_reachable init (map relevant ops) k s I2 L); [apply relevant_all_ok; assumption | apply relevant_all_ok15; exact M | exact D].
Qed.
