(** * The node lists of a relative location path stay small (C06, after the repair of
    [eval_loc_expr]: the nodes collected by a step are de-duplicated by order key).

    On a table satisfying [DocInv] the keys of the good nodes (valid, not namespace nodes) are
    non-zero and pairwise distinct, so what [step_dedup] returns for a list of good nodes is
    duplicate-free, has the same elements, and is at most as long as the table.  Every list on
    which [eval_stepops] continues after a step -- and its final result -- is such a list. *)
From Coq Require Import List NArith Bool Lia.
From XmlRs Require Import Base.CPred Base.NList Base.Float64.
From XmlRs Require Import Spec.XPathCore Model.XPathFuncs.
From XmlRs Require Import Model.XPathAst Model.XDoc Model.XPathScalar Model.XPathEval.
From XmlRs Require Import Proofs.XPathEvalEqs Proofs.XPathNav Proofs.XPathSort Proofs.XPathAstPred
  Proofs.XPathInv Proofs.XPathCanon.
Import ListNotations.
Open Scope N_scope.

Section Bound.
Variable doc : xdoc.
Hypothesis Hinv : DocInv doc.
Let Hwf := inv_wf doc Hinv.

Definition small (l : list node) : Prop :=
  NoDup l /\ (length l <= length doc)%nat /\ Forall (good doc) l.

Lemma step_dedup_small l : Forall (good doc) l ->
  small (step_dedup doc l) /\ (forall x, In x (step_dedup doc l) <-> In x l).
Proof.
  intros Hg.
  assert (Hin : forall x, In x (step_dedup doc l) <-> In x l)
    by (intros x; apply step_dedup_in; apply (good_key_inj doc Hinv); exact Hg).
  assert (Hg' : Forall (good doc) (step_dedup doc l)).
  { apply Forall_forall. intros x Hx. rewrite Forall_forall in Hg. apply Hg. apply Hin. exact Hx. }
  assert (Hnd : NoDup (step_dedup doc l)).
  { apply step_dedup_nodup. intros x Hx. rewrite Forall_forall in Hg.
    pose proof (ko_nonzero doc (inv_keys doc Hinv) x (Hg x Hx)). lia. }
  split; [|exact Hin]. split; [exact Hnd|]. split; [|exact Hg'].
  apply valid_count; [exact Hnd|]. eapply Forall_impl; [|exact Hg']. intros x [V _]. exact V.
Qed.

Let Hall := eval_inv_all doc Hwf (good doc) (good_valid doc) (good_children doc Hinv) (good_parent doc Hinv)
              (good_root doc Hinv) not_ns_axis any_str any_str False (good_axis doc Hinv)
              (fun F : False => match F with end) (fun F : False => match F with end) (fun F : False => match F with end).

(** the nodes collected by one step over a list of good nodes are good *)
Lemma collected_good s from c collected c' :
  ok_step not_ns_axis any_str any_str s = true -> Forall (good doc) from ->
  flat_map_m (eval_step doc s) from c = (Ok collected, c') -> Forall (good doc) collected.
Proof.
  intros Hok Hfrom E.
  assert (Hstep : forall n, good doc n -> inv False (Forall (good doc)) (eval_step doc s n)).
  { intros n Gn. decompose [and] Hall. match goal with Hs : forall s : step, Q_step _ _ _ _ _ _ s |- _ => apply Hs; assumption end. }
  pose proof (flat_map_m_inv (good doc) False (eval_step doc s) Hstep from Hfrom c) as H.
  rewrite E in H. exact H.
Qed.

Lemma from_good op nodes from : Forall (good doc) nodes ->
  match op with
  | LpCurrent => Ok nodes
  | LpDescendantOrSelfNode => flat_map_res (descendant_and_self doc) nodes
  end = Ok from -> Forall (good doc) from.
Proof.
  intros Hn E. destruct op; [inversion E; subst; exact Hn|].
  destruct (descendant_and_self_all_ok doc Hwf (good doc) (good_valid doc) (good_children doc Hinv) nodes Hn) as [l [El Hl]].
  rewrite E in El. inversion El; subst. exact Hl.
Qed.

(** the result of a relative location path with at least one operation *)
Theorem stepops_result_small ops : forall nodes c r c',
  ok_stepop_list not_ns_axis any_str any_str ops = true -> ops <> StepopNil -> Forall (good doc) nodes ->
  eval_stepops doc ops nodes c = (Ok r, c') -> small r.
Proof.
  induction ops as [|op s t IH]; intros nodes c r c' Hok Hne Hn E; [contradiction|].
  cbn [ok_stepop_list] in Hok. apply andb_prop in Hok. destruct Hok as [Hs Ht].
  rewrite eval_stepops_cons in E.
  apply bindM_ok_inv in E. destruct E as [from [c1 [E1 E]]]. apply lift_ok_inv in E1. destruct E1 as [E1 ->].
  apply bindM_ok_inv in E. destruct E as [collected [c2 [E2 E]]].
  pose proof (collected_good s from c collected c2 Hs (from_good op nodes from Hn E1) E2) as Hc.
  destruct (step_dedup_small collected Hc) as [Hsm _].
  destruct t as [|op2 s2 t2].
  - rewrite eval_stepops_nil in E. apply ret_ok_inv in E. destruct E as [-> _]. exact Hsm.
  - apply (IH (step_dedup doc collected) c2 r c' Ht); [discriminate|apply Hsm|exact E].
Qed.

End Bound.
