(** * C15: the round trip towards the document with neighbouring Text items merged

    [store_roundtrip_m : from_raw (show_doc s) = OOk ([], norm_doc (doc_of_store s))] under
    [Known15m s = false] (Model/StoreDocMerged.v): neighbouring Text items are no longer excluded,
    only a maximal run whose characters contain the CDATA end mark -- exactly the listed findings
    C15-ADJACENT-TEXT and C15-ATTR-TEXT-MOVED.  The other clauses are those of [Known15]. *)
From Coq Require Import List NArith Bool Lia.
From XmlRs Require Import Base.CPred Spec.XmlChars Gen.XmlcharGen Model.Peg Model.ParseActions Model.Info Model.Display.
From XmlRs Require Import Proofs.PegLemmas Proofs.DisplayLex Proofs.DisplayElem Proofs.DisplayDoc Proofs.DisplayDtd Proofs.DisplayFull
  Proofs.ParseInvDoc Proofs.StoreDocLex.
From XmlRs Require Import Model.Store Model.PrintableCheck Model.DomOps Model.StoreDoc Model.StoreDocMerged.
From XmlRs Require Import Proofs.DomBase Proofs.DomTree Proofs.DomAnc Proofs.DomOrder Proofs.DomPrintable Proofs.DomL1RefineInv
  Proofs.StoreDocInv Proofs.StoreDocShow Proofs.StoreDocWf Proofs.StoreIso.
From XmlRs Require Model.CharData.
Import ListNotations.
Open Scope N_scope.

(** ** merging does not change the print *)
Lemma merge_texts_print : forall l acc,
  flat_map (d_item false) (merge_texts acc l) = acc_str acc ++ flat_map (d_item false) l.
Proof.
  induction l as [|i l IH]; intros acc.
  - destruct acc; cbn [merge_texts flush_text acc_str flat_map d_item app]; rewrite ?app_nil_r; reflexivity.
  - destruct i; cbn [merge_texts];
      try (rewrite flat_map_app; cbn [flat_map]; rewrite IH; destruct acc; cbn [flush_text acc_str flat_map d_item app]; rewrite ?app_nil_r; reflexivity).
    rewrite IH. cbn [acc_str flat_map d_item]. rewrite <- app_assoc. reflexivity.
Qed.

Lemma merge_texts_nil l : merge_texts None l = [] -> l = [].
Proof.
  assert (G : forall l acc, merge_texts acc l = [] -> acc = None /\ l = []).
  { induction l0 as [|i l0 IH]; intros acc H.
    - destruct acc; [discriminate | split; reflexivity].
    - destruct i; cbn [merge_texts] in H; try (destruct acc; cbn [flush_text app] in H; discriminate).
      destruct (IH _ H) as [X _]. discriminate. }
  intros H. apply (G l None H).
Qed.

Lemma merge_values_print : forall l acc, d_avalues (merge_values acc l) = acc_str acc ++ d_avalues l.
Proof.
  unfold d_avalues. induction l as [|v l IH]; intros acc.
  - destruct acc; cbn [merge_values flush_value acc_str flat_map d_avalue app]; rewrite ?app_nil_r; reflexivity.
  - destruct v; cbn [merge_values];
      try (rewrite flat_map_app; cbn [flat_map]; rewrite IH; destruct acc; cbn [flush_value acc_str flat_map d_avalue app]; rewrite ?app_nil_r; reflexivity).
    rewrite IH. cbn [acc_str flat_map d_avalue]. rewrite <- app_assoc. reflexivity.
Qed.

Lemma norm_attr_print a : Display.d_attr (norm_attr a) = Display.d_attr a.
Proof. unfold Display.d_attr, norm_attr. cbn [xa_prefix xa_local xa_values]. rewrite merge_values_print. reflexivity. Qed.

Lemma norm_item_print : forall i, d_item false (norm_item i) = d_item false i.
Proof.
  apply item_ind2; [|intros i Hi; destruct i; try reflexivity; discriminate].
  intros local prefix attrs children IH. cbn [norm_item d_item].
  assert (EA : flat_map (fun a => 32 :: Display.d_attr a) (map norm_attr attrs) = flat_map (fun a => 32 :: Display.d_attr a) attrs).
  { rewrite flat_map_map. apply flat_map_ext_in2. intros a _. rewrite norm_attr_print. reflexivity. }
  assert (EC : flat_map (d_item false) (merge_texts None (map norm_item children)) = flat_map (d_item false) children).
  { rewrite merge_texts_print. cbn [acc_str app]. rewrite flat_map_map. apply flat_map_ext_in2. intros c Hc.
    rewrite Forall_forall in IH. apply IH. exact Hc. }
  rewrite EA. destruct children as [|c cs]; [reflexivity|].
  destruct (merge_texts None (map norm_item (c :: cs))) as [|m ms] eqn:EM; [apply merge_texts_nil in EM; discriminate|].
  rewrite EC. reflexivity.
Qed.

Theorem norm_doc_print d : display (norm_doc d) = display d.
Proof.
  unfold display, display_gen, norm_doc. cbn [doc_children]. f_equal.
  rewrite flat_map_map. apply flat_map_ext_in2. intros i _. apply norm_item_print.
Qed.

(** ** merged value pieces *)
Definition acc_ok (q : list N) (acc : option str) : Prop :=
  match acc with Some a => a <> [] /\ forallb (eval (is_char_except q)) a = true | None => True end.

Lemma merge_values_no_adjacent : forall l acc, no_adjacent_text false (merge_values acc l).
Proof.
  induction l as [|v l IH]; intros acc.
  - destruct acc; cbn; auto.
  - destruct v; cbn [merge_values]; try (destruct acc; cbn [flush_value app no_adjacent_text]; [split; [reflexivity|]|]; apply IH).
    apply IH.
Qed.

Lemma forallb_app_intro {A} (f : A -> bool) a b : forallb f a = true -> forallb f b = true -> forallb f (a ++ b) = true.
Proof. intros Ha Hb. rewrite forallb_app, Ha, Hb. reflexivity. Qed.

Lemma merge_values_wf tbl x q : forall l acc, acc_ok [60;38;q] acc -> Forall (avalue_wf tbl x q) l ->
  Forall (avalue_wf tbl x q) (merge_values acc l).
Proof.
  induction l as [|v l IH]; intros acc A F.
  - destruct acc as [a|]; cbn [merge_values flush_value]; constructor; [exact A | constructor].
  - inversion F as [|? ? Hv Hl]; subst. destruct v; cbn [merge_values].
    + apply Forall_app. split; [destruct acc as [a|]; cbn [flush_value]; [constructor; [exact A | constructor] | constructor]|].
      constructor; [exact Hv | apply IH; [exact I | exact Hl]].
    + apply Forall_app. split; [destruct acc as [a|]; cbn [flush_value]; [constructor; [exact A | constructor] | constructor]|].
      constructor; [exact Hv | apply IH; [exact I | exact Hl]].
    + apply IH; [|exact Hl]. cbn [avalue_wf] in Hv. destruct Hv as [Hne Hc]. cbn [acc_ok]. split.
      * destruct acc as [a|]; cbn [acc_str]; [|exact Hne]. destruct a; [destruct A as [X _]; contradiction | discriminate].
      * destruct acc as [a|]; cbn [acc_str app]; [|exact Hc]. apply forallb_app_intro; [apply A | exact Hc].
Qed.

Lemma quote_of_merge l : quote_of (merge_values None l) = quote_of l.
Proof. unfold quote_of. rewrite merge_values_print. reflexivity. Qed.

Section WfM.
  Variable s : store.
  Hypothesis T : TreeInv s.
  Hypothesis L : Lex15 s.
  Hypothesis U : UniqQ s.
  Hypothesis H : hdr_ok s = true.
  Hypothesis K : Known15m s = false.
  Let h := hdr s.
  Let ents := ents_of h.
  Let ext := ext_of h.

  Lemma known_parts_m :
    K_noroot s = false /\ K_el_before_dt s = false /\ K_empty_text s = false /\ K_run_cdend s = false
    /\ K_both_quotes s = false /\ K_unresolved s = false.
  Proof.
    pose proof K as K0. unfold Known15m in K0.
    apply orb_false_iff in K0. destruct K0 as [K0 K6]. apply orb_false_iff in K0. destruct K0 as [K0 K5].
    apply orb_false_iff in K0. destruct K0 as [K0 K4]. apply orb_false_iff in K0. destruct K0 as [K0 K3].
    apply orb_false_iff in K0. destruct K0 as [K1 K2]. repeat split; assumption.
  Qed.

  Lemma known_el_m x it : attached s x -> get s x = Some it -> ikind it = KEl ->
    empty_text s (ichildren it) = false /\ run_cdend s [] (ichildren it) = false /\ unresolved s h false (ichildren it) = false.
  Proof.
    intros A Hx Hk. destruct known_parts_m as [_ [_ [K3 [K4 [_ K6]]]]].
    pose proof (attached_any_false s T _ x K3 A) as E3. pose proof (attached_any_false s T _ x K4 A) as E4.
    pose proof (attached_any_false s T _ x K6 A) as E6. cbn beta in *.
    apply orb_false_iff in E3. apply orb_false_iff in E6.
    repeat split; eapply on_kind_false; try eassumption; tauto.
  Qed.

  Lemma known_at_m x it : attached s x -> get s x = Some it -> ikind it = KAt ->
    empty_text s (ichildren it) = false /\ both_quotes s h (ichildren it) = false /\ unresolved s h true (ichildren it) = false.
  Proof.
    intros A Hx Hk. destruct known_parts_m as [_ [_ [K3 [_ [K5 K6]]]]].
    pose proof (attached_any_false s T _ x K3 A) as E3. pose proof (attached_any_false s T _ x K5 A) as E5.
    pose proof (attached_any_false s T _ x K6 A) as E6. cbn beta in *.
    apply orb_false_iff in E3. apply orb_false_iff in E6.
    repeat split; eapply on_kind_false; try eassumption; tauto.
  Qed.

  (** ** attributes *)
  Lemma attr_wf_m a ait : get s a = Some ait -> ikind ait = KAt -> attached s a ->
    exists x, attr_of s ents a = [x] /\ attr_wf ents ext (norm_attr x) /\ xa_local x = ilocal ait /\ xa_prefix x = iprefix ait.
  Proof.
    intros Ha Hk A. unfold attr_of. rewrite Ha, Hk. eexists. split; [reflexivity|]. split; [|split; reflexivity].
    destruct (item_ok_of s L a ait Ha) as [Ho _]. unfold item_ok in Ho. rewrite Hk in Ho. apply qname_ok_ok in Ho.
    destruct (known_at_m a ait A Ha Hk) as [K2 [K3 K4]].
    assert (Hl : forall v, In v (ichildren ait) -> value_live s v).
    { intros v Hv. destruct (child_live s T a ait v Ha Hv) as [vit [Hg Hc]]. rewrite Hk in Hc. exists vit. split; assumption. }
    split.
    - unfold attr_name_wf, norm_attr. cbn [xa_prefix xa_local]. destruct (iprefix ait) as [p|].
      + destruct Ho as [Hp Hl']. destruct (Peg.str_eqb p Info.s_xmlns); [exact Hl' | split; assumption].
      + destruct (Peg.str_eqb (ilocal ait) Info.s_xmlns); [exact I | exact Ho].
    - unfold norm_attr. cbn [xa_values]. split; [apply merge_values_no_adjacent|].
      rewrite quote_of_merge. apply merge_values_wf; [exact I|].
      apply (values_wf_each s L); try assumption; [apply quote_of_cases|]. apply quote_free. exact K3.
  Qed.

  Lemma existsb_at_name (g : att_name -> bool) l : existsb (fun v => g (at_name v)) l = existsb g (map at_name l).
  Proof. induction l as [|x l IH]; cbn [map existsb]; [reflexivity|]. rewrite IH. reflexivity. Qed.

  Lemma attrs_wf_m n it : get s n = Some it -> ikind it = KEl -> attached s n ->
    Forall (attr_wf ents ext) (map norm_attr (flat_map (attr_of s ents) (iattrs it)))
    /\ attrs_nodup [] (map un_attr (map norm_attr (flat_map (attr_of s ents) (iattrs it)))).
  Proof.
    intros Hn Hk A.
    assert (Hat : forall a, In a (iattrs it) -> exists ait, get s a = Some ait /\ ikind ait = KAt /\ attached s a).
    { intros a Ha. pose proof (attr_par s T n it a Hn Ha) as P. destruct P as [ait [Hg Hp]].
      destruct (ti_attr_kind s T n it a ait Hn Ha Hg) as [_ Hkat]. exists ait. split; [exact Hg|]. split; [exact Hkat|].
      eapply attached_child; [exact A | exists ait; split; assumption]. }
    split.
    - rewrite map_flat_map. apply Forall_flat_map. intros a Ha. destruct (Hat a Ha) as [ait [Hg [Hka Aa]]].
      destruct (attr_wf_m a ait Hg Hka Aa) as [x [E [W _]]]. rewrite E. constructor; [exact W | constructor].
    - apply attrs_nodup_names. cbn [map app]. rewrite !map_map.
      assert (E : forall a, at_name (un_attr (norm_attr a)) = un_attr_name a) by reflexivity.
      rewrite (map_ext _ _ E).
      pose proof (ti_nodup_a s T n it Hn) as ND.
      assert (G : forall l, NoDup l -> (forall a, In a l -> In a (iattrs it)) ->
                  NoDup (map un_attr_name (flat_map (attr_of s ents) l))); [|apply G; [exact ND | auto]].
      clear ND. intros l. induction l as [|a l IH]; intros ND Hsub; cbn [flat_map map]; [constructor|].
      inversion ND as [|? ? Hnin ND']; subst.
      destruct (Hat a (Hsub a (or_introl eq_refl))) as [ait [Hg [Hka Aa]]].
      destruct (attr_wf_m a ait Hg Hka Aa) as [x [Ex [_ [Xl Xp]]]]. rewrite Ex. cbn [app map]. constructor.
      + intros Hin. apply in_map_iff in Hin. destruct Hin as [y [Ey Hy]]. apply in_flat_map in Hy. destruct Hy as [b [Hb Hyb]].
        destruct (Hat b (Hsub b (or_intror Hb))) as [bit [Hgb [Hkb Ab]]].
        destruct (attr_wf_m b bit Hgb Hkb Ab) as [y' [Eb [_ [Yl Yp]]]]. rewrite Eb in Hyb. destruct Hyb as [<-|[]].
        apply un_attr_name_inj in Ey. destruct Ey as [El Ep].
        assert (a = b) as ->.
        { eapply (U n it a b ait bit Hn (Hsub a (or_introl eq_refl)) (Hsub b (or_intror Hb)) Hg Hgb); congruence. }
        contradiction.
      + apply IH; [exact ND'|]. intros b Hb. apply Hsub. right. exact Hb.
  Qed.

  (** ** element content *)
  Definition node_goal_m (f : nat) (c : id) (cit : Store.item) : Prop :=
    exists i, item_fuel f s h c = [i] /\ item_wf ents ext (norm_item i) /\ is_text (norm_item i) = false
              /\ (ikind cit = KEl -> is_element (norm_item i) = true).

  Lemma children_wf_m f (Hf : (0 < f)%nat)
    (Hrec : forall c cit, get s c = Some cit -> child_ok KEl (ikind cit) = true -> ikind cit <> KTx -> attached s c -> deep s c f ->
            (ikind cit = KEr -> exists e, resolve_ref ents ext false (ilocal cit) = IOk e) -> node_goal_m f c cit) :
    forall l acc, (forall c, In c l -> el_child s f c) -> acc_ok [60;38] acc ->
      empty_text s l = false -> run_cdend s (acc_str acc) l = false -> unresolved s h false l = false ->
      children_wf (item_wf ents ext) false (merge_texts acc (map norm_item (flat_map (item_fuel f s h) l))).
  Proof.
    induction l as [|c l IH]; intros acc Hl A E C R; cbn [flat_map map].
    - cbn [merge_texts]. destruct acc as [a|]; cbn [flush_text children_wf]; [|exact I].
      cbn [run_cdend acc_str] in C. destruct A as [A1 A2].
      split; [reflexivity|]. split; [exact A1|]. split; [|exact I]. split; [exact A2 | apply has_sub_find; exact C].
    - destruct (Hl c (or_introl eq_refl)) as [cit [Hc [Hk [Ac Dc]]]].
      cbn [empty_text existsb] in E. apply orb_false_iff in E. destruct E as [E1 E2].
      cbn [unresolved existsb] in R. apply orb_false_iff in R. destruct R as [R1 R2].
      cbn [run_cdend] in C. unfold has_kind in C. rewrite Hc in C, E1, R1.
      assert (Hl' : forall c', In c' l -> el_child s f c') by (intros c' Hc'; apply Hl; right; exact Hc').
      rewrite map_app. destruct (kind_eqb (ikind cit) KTx) eqn:KT.
      + (* a Text child joins the run *)
        destruct (kind_eqb_spec (ikind cit) KTx) as [Kt|]; [|discriminate].
        destruct f as [|f']; [lia|]. cbn [item_fuel]. rewrite Hc, Kt. cbn [map norm_item app merge_texts].
        destruct (item_ok_of s L c cit Hc) as [Ho _]. unfold item_ok in Ho. rewrite Kt in Ho.
        cbn [andb] in E1. apply IH; try assumption.
        cbn [acc_ok acc_str]. split.
        * destruct (idata cit) as [|d0 dd]; [discriminate|]. destruct (acc_str acc); discriminate.
        * destruct acc as [a|]; cbn [acc_str app]; [apply forallb_app_intro; [apply A | apply text_lex_chars; exact Ho] | apply text_lex_chars; exact Ho].
      + destruct (kind_eqb_spec (ikind cit) KTx) as [|Kt]; [discriminate|].
        apply orb_false_iff in C. destruct C as [C1 C2].
        assert (Rr : ikind cit = KEr -> exists e, resolve_ref ents ext false (ilocal cit) = IOk e).
        { intros Ke. rewrite Ke in R1. cbn [kind_eqb andb] in R1. fold h ents ext in R1.
          destruct (resolve_ref ents ext false (ilocal cit)) as [e| | |]; try discriminate. eauto. }
        destruct (Hrec c cit Hc Hk Kt Ac Dc Rr) as [i [Ei [Wi [Ti _]]]]. rewrite Ei. cbn [map app].
        assert (IH' : children_wf (item_wf ents ext) false (merge_texts None (map norm_item (flat_map (item_fuel f s h) l))))
          by (apply IH; [exact Hl' | exact I | exact E2 | exact C2 | exact R2]).
        destruct (norm_item i) eqn:EN; try discriminate Ti; cbn [merge_texts];
          (destruct acc as [a|]; cbn [flush_text app children_wf];
           [destruct A as [A1 A2]; split; [reflexivity|]; split; [exact A1|]; split; [split; [exact A2 | apply has_sub_find; exact C1]|];
            split; [exact Wi | exact IH']
           | split; [exact Wi | exact IH']]).
  Qed.

  Lemma node_wf_m : forall f n it, get s n = Some it -> child_ok KEl (ikind it) = true -> ikind it <> KTx ->
    attached s n -> deep s n f -> (0 < f)%nat ->
    (ikind it = KEr -> exists e, resolve_ref ents ext false (ilocal it) = IOk e) -> node_goal_m f n it.
  Proof.
    induction f as [|f IH]; intros n it Hn Hk Nt A D Hf Rr; [lia|]. unfold node_goal_m.
    cbn [item_fuel]. rewrite Hn. destruct (item_ok_of s L n it Hn) as [Ho Hx]. unfold item_ok in Ho. unfold extra15 in Hx.
    destruct (ikind it) eqn:Kd; try discriminate; try (exfalso; apply Nt; reflexivity);
      (eexists; split; [reflexivity|]; split; [|split; [reflexivity | intros X; try discriminate X; reflexivity]]).
    - (* element *)
      cbn [norm_item item_wf]. apply qname_ok_ok in Ho.
      destruct (attrs_wf_m n it Hn Kd A) as [W1 W2]. destruct (known_el_m n it A Hn Kd) as [K2 [K3 K4]].
      split; [|split; [exact W1|split; [exact W2|]]].
      + unfold mk_qname. destruct (iprefix it); exact Ho.
      + destruct (ichildren it) as [|c0 cs] eqn:EL; [exact I|]. rewrite <- EL in *.
        assert (Hpos : (0 < f)%nat).
        { assert (Hin : In c0 (ichildren it)) by (rewrite EL; left; reflexivity).
          destruct (deep_child s n c0 f D (child_par s T n it c0 Hn Hin)) as [_ X]. exact X. }
        apply children_wf_m; try assumption; [| |exact I].
        * intros c cit Hc Hkc Ntc Ac Dc Rc. apply IH; assumption.
        * intros c Hc. destruct (child_live s T n it c Hn Hc) as [cit [Hg Hok]]. rewrite Kd in Hok.
          pose proof (child_par s T n it c Hn Hc) as P.
          exists cit. split; [exact Hg|]. split; [exact Hok|]. split; [eapply attached_child; eassumption|].
          apply (deep_child s n c f D P).
    - (* CDATA *) cbn [norm_item item_wf leaf_wf]. apply check_cdata_ok. exact Ho.
    - (* character reference *) cbn [norm_item item_wf leaf_wf]. destruct (charref_ok_ref _ _ Hx) as [X [Y _]]. split; assumption.
    - (* entity reference *)
      cbn [norm_item item_wf leaf_wf]. rewrite entity_of_name. split; [apply is_Name_ok; exact Ho|].
      destruct (Rr eq_refl) as [e RR]. rewrite RR. f_equal. symmetry. eapply resolve_entity_of. exact RR.
    - (* PI *)
      cbn [norm_item item_wf leaf_wf]. apply andb_prop in Ho. destruct Ho as [Hn' Hd]. apply andb_prop in Hx. destruct Hx as [Hx1 Hx2].
      unfold DisplayLex.pi_ok. cbn [pi_target pi_value]. split.
      * split; [apply is_Name_ok; exact Hn' | apply not_xml_ci; apply negb_true_iff; exact Hx1].
      * destruct (iflag it); [|exact I]. apply pi_data_ok_of; assumption.
    - (* comment *) cbn [norm_item item_wf leaf_wf]. apply check_comment_ok. exact Ho.
  Qed.

  (** ** the document *)
  Theorem store_doc_printable_m : printable (norm_doc (doc_of_store s)).
  Proof.
    destruct (ti_root s T) as [rit [Hr Hkr]].
    assert (Hpos : (0 < N.to_nat (next s))%nat) by (pose proof (ti_bound s T _ _ Hr); lia).
    destruct (N.to_nat (next s)) as [|f] eqn:EN; [lia|].
    set (g := fun c => map norm_item (item_fuel f s h c)).
    assert (Hitems : map norm_item (doc_items s) = flat_map g (ichildren rit)).
    { unfold doc_items. rewrite EN. unfold children_of. rewrite Hr. unfold g. apply map_flat_map. }
    assert (Droot : deep s (sroot s) (S f)).
    { intros d k Hk'. rewrite <- EN. eapply ancn_strict; eassumption. }
    assert (Hch : forall c, In c (ichildren rit) ->
              exists cit, get s c = Some cit /\ child_ok KDoc (ikind cit) = true /\ attached s c /\ deep s c f /\ (0 < f)%nat).
    { intros c Hc. destruct (child_live s T (sroot s) rit c Hr Hc) as [cit [Hg Hok]]. rewrite Hkr in Hok.
      pose proof (child_par s T (sroot s) rit c Hr Hc) as P.
      exists cit. split; [exact Hg|]. split; [exact Hok|]. split; [right; apply anc1; exact P|].
      apply (deep_child s (sroot s) c f Droot P). }
    pose proof (ti_nodup_c s T _ _ Hr) as ND.
    (* a child that is neither the element nor the document type *)
    assert (Hmisc : forall c, In c (ichildren rit) -> has_kind s KEl c = false -> has_kind s KDt c = false -> Forall misc_wf (g c)).
    { intros c Hc NE NDt. destruct (Hch c Hc) as [cit [Hg [Hok [Ac [Dc Hf]]]]].
      unfold has_kind in NE, NDt. rewrite Hg in NE, NDt.
      destruct (item_ok_of s L c cit Hg) as [Ho Hx]. unfold item_ok in Ho. unfold extra15 in Hx.
      unfold g. destruct f as [|f']; [lia|]. cbn [item_fuel]. rewrite Hg.
      destruct (ikind cit) eqn:Kc; try discriminate; cbn [map norm_item]; (constructor; [|constructor]); cbn [misc_wf].
      - apply andb_prop in Ho. destruct Ho as [Hn' Hd]. apply andb_prop in Hx. destruct Hx as [Hx1 Hx2].
        unfold DisplayLex.pi_ok. cbn [pi_target pi_value]. split.
        + split; [apply is_Name_ok; exact Hn' | apply not_xml_ci; apply negb_true_iff; exact Hx1].
        + destruct (iflag cit); [|exact I]. apply pi_data_ok_of; assumption.
      - apply check_comment_ok. exact Ho. }
    destruct known_parts_m as [K1 [K2 _]].
    (* the document element *)
    unfold K_noroot in K1. destruct (doc_element s) as [e|] eqn:DE; [|discriminate].
    unfold doc_element, children_of in DE. rewrite Hr in DE.
    destruct (find_split _ _ _ DE) as [l1 [l2 [EL [He Hl1]]]].
    assert (Hl2 : forall y, In y l2 -> has_kind s KEl y = false).
    { intros y Hy. destruct (has_kind s KEl y) eqn:E; [|reflexivity]. exfalso.
      assert (y = e).
      { eapply (ti_one_el s T rit y e Hr); try assumption; rewrite EL; apply in_or_app; right; [right; exact Hy | left; reflexivity]. }
      subst y. rewrite EL in ND. apply NoDup_remove_2 in ND. apply ND. apply in_or_app. right. exact Hy. }
    assert (Hine : In e (ichildren rit)) by (rewrite EL; apply in_or_app; right; left; reflexivity).
    destruct (Hch e Hine) as [eit [Hge [_ [Ae [De Hf]]]]].
    assert (Hke : ikind eit = KEl).
    { unfold has_kind in He. rewrite Hge in He. destruct (kind_eqb_spec (ikind eit) KEl); [assumption | discriminate]. }
    assert (Hroot : node_goal_m f e eit).
    { apply node_wf_m; try assumption; rewrite Hke; try reflexivity; discriminate. }
    destruct Hroot as [root0 [Eroot0 [Wroot [_ Iroot]]]]. specialize (Iroot Hke).
    set (root := norm_item root0) in *.
    assert (Eroot : g e = [root]) by (unfold g; rewrite Eroot0; reflexivity).
    destruct (hdr_some s H) as [h0 [Hh0 Eh0]]. destruct (header_wf _ _ _ Hh0) as [Hver Hdt]. rewrite <- Eh0 in Hver, Hdt. fold h in Hver, Hdt.
    destruct (doc_decl s) as [d|] eqn:DD.
    - (* with a document type *)
      destruct (hdr_doctype s H d DD) as [x [Hx _]]. fold h in Hx.
      pose proof DD as DD'. unfold doc_decl, children_of in DD'. rewrite Hr in DD'.
      destruct (find_split _ _ _ DD') as [m1 [m2 [EM [Hd Hm1]]]].
      assert (Hind : In d (ichildren rit)) by (rewrite EM; apply in_or_app; right; left; reflexivity).
      assert (Hde : d <> e).
      { intros ->. unfold has_kind in Hd, He. rewrite Hge in Hd, He. rewrite Hke in Hd. discriminate. }
      assert (Hone : forall y, In y (ichildren rit) -> has_kind s KDt y = true -> y = d).
      { intros y Hy Ky. eapply (ti_one_dt s T rit y d Hr); assumption. }
      assert (Hdl1 : In d l1).
      { rewrite EL in Hind. apply in_app_or in Hind. destruct Hind as [X|[X|X]]; [exact X | congruence|]. exfalso.
        assert (Hnd1 : forall y, In y l1 -> has_kind s KDt y = false).
        { intros y Hy. destruct (has_kind s KDt y) eqn:E; [|reflexivity]. exfalso.
          assert (y = d) by (apply Hone; [rewrite EL; apply in_or_app; left; exact Hy | exact E]). subst y.
          rewrite EL in ND. apply (nodup_app_disjoint _ _ d ND Hy). right. exact X. }
        unfold K_el_before_dt in K2. rewrite DD in K2. unfold children_of in K2. rewrite Hr in K2.
        rewrite EL in K2. rewrite (find_skip _ l1 e l2) in K2; [congruence| |rewrite He; reflexivity].
        intros y Hy. rewrite (Hl1 y Hy), (Hnd1 y Hy). reflexivity. }
      apply in_split in Hdl1. destruct Hdl1 as [la [lb Ela]].
      assert (EL' : ichildren rit = la ++ d :: lb ++ e :: l2) by (rewrite EL, Ela, <- app_assoc; reflexivity).
      assert (Hnd : forall y, In y (la ++ lb ++ l2) -> has_kind s KDt y = false).
      { intros y Hy. destruct (has_kind s KDt y) eqn:E; [|reflexivity]. exfalso.
        assert (y = d).
        { apply Hone; [|exact E]. rewrite EL'. apply in_app_or in Hy. apply in_or_app. destruct Hy as [Hy|Hy]; [left; exact Hy|].
          right. right. apply in_app_or in Hy. apply in_or_app. destruct Hy as [Hy|Hy]; [left; exact Hy | right; right; exact Hy]. }
        subst y. rewrite EL' in ND. apply NoDup_remove_2 in ND. apply ND.
        apply in_app_or in Hy. apply in_or_app. destruct Hy as [Hy|Hy]; [left; exact Hy|]. right.
        apply in_app_or in Hy. apply in_or_app. destruct Hy as [Hy|Hy]; [left; exact Hy | right; right; exact Hy]. }
      assert (Hne1 : forall y, In y (la ++ lb) -> has_kind s KEl y = false).
      { intros y Hy. apply Hl1. rewrite Ela. apply in_app_or in Hy. apply in_or_app. destruct Hy; [left | right; right]; assumption. }
      destruct (Hch d Hind) as [dit [Hgd [_ [_ [_ _]]]]].
      assert (Hkd : ikind dit = KDt).
      { unfold has_kind in Hd. rewrite Hgd in Hd. destruct (kind_eqb_spec (ikind dit) KDt); [assumption | discriminate]. }
      assert (Egd : g d = [ItDocType x]).
      { unfold g. destruct f as [|f']; [lia|]. cbn [item_fuel]. rewrite Hgd, Hkd, Hx. reflexivity. }
      exists (Parts (flat_map g la) (Some x) (flat_map g lb) root (flat_map g l2)).
      cbn [dp_pre dp_dt dp_mid dp_root dp_post doc_children doc_version doc_encoding doc_standalone doc_of_store norm_doc].
      split; [|split; [discriminate|split; [|split; [|split; [|split; [exact Iroot|split; [|split; [exact Hver|]]]]]]]].
      + rewrite Hitems, EL'. unfold parts_children. cbn [dp_pre dp_dt dp_mid dp_root dp_post].
        rewrite flat_map_app. cbn [flat_map]. rewrite Egd. rewrite flat_map_app. cbn [flat_map]. rewrite Eroot.
        cbn [app]. rewrite <- ?app_assoc. reflexivity.
      + apply Forall_flat_map. intros c Hc. apply Hmisc.
        * rewrite EL'. apply in_or_app. left. exact Hc.
        * apply Hne1. apply in_or_app. left. exact Hc.
        * apply Hnd. apply in_or_app. left. exact Hc.
      + apply Forall_flat_map. intros c Hc. apply Hmisc.
        * rewrite EL'. apply in_or_app. right. right. apply in_or_app. left. exact Hc.
        * apply Hne1. apply in_or_app. right. exact Hc.
        * apply Hnd. apply in_or_app. right. apply in_or_app. left. exact Hc.
      + apply Forall_flat_map. intros c Hc. apply Hmisc.
        * rewrite EL'. apply in_or_app. right. right. apply in_or_app. right. right. exact Hc.
        * apply Hl2. exact Hc.
        * apply Hnd. apply in_or_app. right. apply in_or_app. right. exact Hc.
      + unfold ents, ext, ents_of, ext_of in Wroot. rewrite Hx in Wroot. exact Wroot.
      + intros x' Hx'. inversion Hx'; subst x'. apply Hdt. exact Hx.
    - (* without *)
      pose proof (hdr_no_doctype s H DD) as Hx. fold h in Hx.
      pose proof DD as DD'. unfold doc_decl, children_of in DD'. rewrite Hr in DD'.
      assert (Hnd : forall y, In y (ichildren rit) -> has_kind s KDt y = false) by (intros y Hy; apply (find_none _ _ DD' y Hy)).
      exists (Parts (flat_map g l1) None [] root (flat_map g l2)).
      cbn [dp_pre dp_dt dp_mid dp_root dp_post doc_children doc_version doc_encoding doc_standalone doc_of_store norm_doc].
      split; [|split; [reflexivity|split; [|split; [constructor|split; [|split; [exact Iroot|split; [|split; [exact Hver|]]]]]]]].
      + rewrite Hitems, EL. unfold parts_children. cbn [dp_pre dp_dt dp_mid dp_root dp_post].
        rewrite flat_map_app. cbn [flat_map]. rewrite Eroot. reflexivity.
      + apply Forall_flat_map. intros c Hc. apply Hmisc.
        * rewrite EL. apply in_or_app. left. exact Hc.
        * apply Hl1. exact Hc.
        * apply Hnd. rewrite EL. apply in_or_app. left. exact Hc.
      + apply Forall_flat_map. intros c Hc. apply Hmisc.
        * rewrite EL. apply in_or_app. right. right. exact Hc.
        * apply Hl2. exact Hc.
        * apply Hnd. rewrite EL. apply in_or_app. right. right. exact Hc.
      + unfold ents, ext, ents_of, ext_of in Wroot. rewrite Hx in Wroot. exact Wroot.
      + intros x' Hx'. discriminate.
  Qed.


  Theorem store_roundtrip_m : from_raw (show_doc s) = OOk ([], norm_doc (doc_of_store s)).
  Proof.
    rewrite <- (display_show_doc s T L H), <- norm_doc_print. apply print_parse_printable. exact store_doc_printable_m.
  Qed.
End WfM.
