(** * C13: the value of an attribute -- [set_values] of the model against [set_attr_value] of the
    specification

    The model does not parse: the value string of [set_attribute] / [set_node_value] travels with
    the value items the implementation's parser derived from it ([d_attr]).  The specification
    parses the literal itself ([DomL1.parse_attvalue]).  [value_facts_agree] states that the two
    readings of the string are the same list of pieces (the hypothesis of every theorem of this
    file that mentions a value; it is what the [dom] correspondence checks on every generated
    case).  Under it, and under the tree invariant, [set_values] IS [set_attr_value]: the old value
    nodes lose their parent, one node per piece is created in order, unknown entities refuse the
    call and leave the store as it was.

    The specification looks an entity up in the table of the document type by name (first match);
    the model's table lists a name as [name] (usable in attribute values) or [0 :: name] (declared,
    not usable).  [EntsOK]: no name is listed in both forms -- an invariant of every reachable
    world ([ents_reachable], Proofs/DomL1RefineInv.v). *)
From Coq Require Import List NArith Bool Lia PeanoNat.
From XmlRs Require Import Base.CPred Base.NList Spec.XmlChars Model.Store Model.PrintableCheck Model.DomOps Proofs.DomBase Proofs.DomTree
  Proofs.DomOpsInv Proofs.DomL1Abs Proofs.DomL1Atomic Proofs.DomL1Refine Proofs.DomL1RefineInsert Proofs.DomL1RefineAttr.
From XmlRs Require Spec.DomCharData Spec.DomL1.
Import ListNotations.
Open Scope N_scope.

(** ** the facts of a value string agree with the grammar of the specification *)
Inductive vmatch : list vitem -> list DomL1.piece -> Prop :=
| vm_nil : vmatch [] []
| vm_empty t pl : vmatch t pl -> vmatch (VText [] :: t) pl
| vm_text c tx t pl : vmatch t pl -> vmatch (VText (c :: tx) :: t) (DomL1.PText (c :: tx) :: pl)
| vm_char name c t pl : vmatch t pl -> vmatch (VChar name (Some [c]) :: t) (DomL1.PChar name c :: pl)
| vm_ent name t pl : vmatch t pl -> vmatch (VEnt name :: t) (DomL1.PEnt name :: pl).

(** a character reference that does not denote a character: the implementation refuses the value *)
Definition has_bad_char (l : list vitem) : bool :=
  existsb (fun v => match v with VChar _ None => true | _ => false end) l.

Definition value_facts_agree (d : data_info) : Prop :=
  match DomL1.parse_attvalue (d_str d) with
  | Some pl => exists l, d_attr d = Some l /\ vmatch l pl
  | None => match d_attr d with None => True | Some l => has_bad_char l = true end
  end.

(** ** entity tables *)
Definition ents_ok (l : list str) : Prop := forall n, In (0 :: n) l -> ~ In n l.
Definition EntsOK (s : store) : Prop := forall i it, get s i = Some it -> ents_ok (ients it).
Definition WEnts (w : world) : Prop := WP EntsOK w.

Definition no_zero (name : str) : Prop := forall t, name <> 0 :: t.

Lemma is_Name_no_zero name : is_Name name = true -> no_zero name.
Proof.
  intros H t E. subst name. cbn [is_Name] in H. apply andb_true_iff in H. destruct H as [H _].
  vm_compute in H. discriminate.
Qed.

Lemma declared_abs name : no_zero name -> forall ents, ents_ok ents ->
  match option_map snd (find (fun e => DomL1.str_eqb (fst e) name) (map abs_ent ents)) with Some b => b | None => false end
  = existsb (Store.str_eqb name) ents.
Proof.
  intros Hn. induction ents as [|e t IH]; intros Hok; [reflexivity|].
  assert (Hok' : ents_ok t) by (intros n H1 H2; apply (Hok n); right; assumption).
  cbn [map find existsb].
  destruct (DomL1.str_eqb (fst (abs_ent e)) name) eqn:E.
  - apply astr_eqb_eq in E. cbn [option_map].
    destruct e as [|c e']; [cbn in E; subst name; reflexivity|].
    destruct c as [|p].
    + cbn [abs_ent fst snd] in *. subst e'.
      assert (H1 : Store.str_eqb name (0 :: name) = false).
      { destruct (Store.str_eqb name (0 :: name)) eqn:X; [|reflexivity]. apply DomBase.str_eqb_eq in X. exfalso. exact (Hn name X). }
      assert (H2 : existsb (Store.str_eqb name) t = false).
      { destruct (existsb (Store.str_eqb name) t) eqn:X; [|reflexivity]. apply existsb_exists in X.
        destruct X as [y [Hy Hxy]]. apply DomBase.str_eqb_eq in Hxy. subst y. exfalso.
        apply (Hok name); [left; reflexivity | right; exact Hy]. }
      symmetry. apply orb_false_intro; [exact H1 | exact H2].
    + cbn [abs_ent fst snd] in *. subst name. rewrite DomBase.str_eqb_refl. reflexivity.
  - assert (H1 : Store.str_eqb name e = false).
    { destruct (Store.str_eqb name e) eqn:X; [|reflexivity]. apply DomBase.str_eqb_eq in X. subst e. exfalso.
      destruct name as [|c n']; [cbn in E; discriminate|]. destruct c as [|p]; [exact (Hn n' eq_refl)|].
      cbn [abs_ent fst] in E. assert (X : DomL1.str_eqb (N.pos p :: n') (N.pos p :: n') = true) by (apply astr_eqb_eq; reflexivity). exact (eq_true_false_abs _ X E). }
    rewrite (IH Hok'). symmetry. change (existsb (str_eqb name) (e :: t)) with (str_eqb name e || existsb (str_eqb name) t). rewrite H1. reflexivity.
Qed.

Lemma find_ext_in {A} (f g : A -> bool) : forall l, (forall x, In x l -> f x = g x) -> find f l = find g l.
Proof.
  induction l as [|a l IH]; intros H; cbn [find]; [reflexivity|].
  rewrite (H a (or_introl eq_refl)). destruct (g a); [reflexivity|]. apply IH. intros x Hx. apply H. right. exact Hx.
Qed.

Lemma children_abs s a : Bounded s -> DomL1.children (abs_store s) a = children_of s a.
Proof. intros B. unfold DomL1.children, children_of. rewrite (node_abs_b s a B). destruct (get s a); reflexivity. Qed.

(** the document type of the specification is the model's [doc_decl] *)
Lemma doctype_of_abs s : TreeInv s ->
  DomL1.doctype_of (abs_store s) = match doc_decl s with Some d => option_map abs_item (get s d) | None => None end.
Proof.
  intros T. unfold DomL1.doctype_of, doc_decl. change (DomL1.d_root (abs_store s)) with (sroot s).
  rewrite (children_abs s (sroot s) (bounded_of_inv s T)).
  rewrite (find_ext_in (DomL1.has_type (abs_store s) DomL1.TDoctype) (has_kind s KDt)) by (intros x _; apply has_type_dt; exact T).
  assert (G : forall o : option id, match o with Some i => DomL1.node (abs_store s) i | None => None end
                                   = match o with Some d => option_map abs_item (get s d) | None => None end)
    by (intros [i|]; [apply node_abs; exact T | reflexivity]).
  exact (G _).
Qed.

Lemma decl_ents_ok s : EntsOK s -> ents_ok (decl_ents s).
Proof.
  intros E. unfold decl_ents. destruct (doc_decl s) as [d|]; [|intros n []].
  destruct (get s d) as [it|] eqn:G; [|intros n []]. exact (E d it G).
Qed.

Lemma entity_usable_abs s name : TreeInv s -> EntsOK s -> no_zero name ->
  DomL1.entity_usable (abs_store s) name = entity_known s name.
Proof.
  intros T E Hn. unfold DomL1.entity_usable, entity_known, DomL1.declared. rewrite (doctype_of_abs s T).
  change (existsb (DomL1.str_eqb name) DomL1.predefined_entities) with (existsb (Store.str_eqb name) predefined).
  rewrite orb_comm. f_equal.
  pose proof (decl_ents_ok s E) as Hok. unfold decl_ents in *.
  destruct (doc_decl s) as [d|]; [|reflexivity]. destruct (get s d) as [it|]; [|reflexivity].
  cbn [option_map abs_item DomL1.n_entities]. apply declared_abs; assumption.
Qed.

(** ** the entity table does not change while value nodes are built *)
Definition keeps_decl (s s' : store) : Prop :=
  sroot s' = sroot s
  /\ children_of s' (sroot s) = children_of s (sroot s)
  /\ forall x, In x (children_of s (sroot s)) ->
       option_map (fun it => (ikind it, ients it)) (get s' x) = option_map (fun it => (ikind it, ients it)) (get s x).

Lemma keeps_decl_refl s : keeps_decl s s.
Proof. repeat split. Qed.

Lemma keeps_decl_trans a b c : keeps_decl a b -> keeps_decl b c -> keeps_decl a c.
Proof.
  intros [R1 [C1 G1]] [R2 [C2 G2]]. split; [congruence|]. split.
  - rewrite <- C1. rewrite <- R1. exact C2.
  - intros x Hx. rewrite <- (G1 x Hx). apply G2. rewrite R1, C1. exact Hx.
Qed.

Lemma keeps_decl_ents s s' : keeps_decl s s' -> decl_ents s' = decl_ents s.
Proof.
  intros [R [C G]]. unfold decl_ents, doc_decl. rewrite R, C.
  rewrite (find_ext_in (has_kind s' KDt) (has_kind s KDt)).
  2:{ intros x Hx. unfold has_kind. specialize (G x Hx). destruct (get s' x), (get s x); cbn in G; try discriminate; [|reflexivity].
      inversion G. congruence. }
  destruct (find (has_kind s KDt) (children_of s (sroot s))) as [d|] eqn:F; [|reflexivity].
  apply find_some in F. destruct F as [Hin _]. specialize (G d Hin).
  destruct (get s' d), (get s d); cbn in G; try discriminate; [|reflexivity]. inversion G. congruence.
Qed.

Lemma keeps_decl_known s s' name : keeps_decl s s' -> entity_known s' name = entity_known s name.
Proof. intros K. unfold entity_known. rewrite (keeps_decl_ents s s' K). reflexivity. Qed.

Lemma keeps_decl_upd s i f :
  (forall it, ikind (f it) = ikind it /\ ients (f it) = ients it) ->
  (i <> sroot s \/ forall it, ichildren (f it) = ichildren it) ->
  keeps_decl s (upd s i f).
Proof.
  intros Hf Hc. split; [apply sroot_upd|]. split.
  - unfold children_of. rewrite get_upd. destruct (N.eqb_spec (sroot s) i) as [E|E]; [|reflexivity].
    destruct Hc as [Hc|Hc]; [exfalso; apply Hc; symmetry; exact E|]. rewrite E.
    destruct (get s i) as [it|]; cbn [option_map]; [apply Hc | reflexivity].
  - intros x _. rewrite get_upd. destruct (N.eqb_spec x i) as [->|]; [|reflexivity].
    destruct (get s i) as [it|]; cbn [option_map]; [|reflexivity]. destruct (Hf it) as [-> ->]. reflexivity.
Qed.

Lemma keeps_decl_invalidate s : keeps_decl s (invalidate s).
Proof. repeat split. Qed.

Lemma keeps_decl_fold_unparent l : forall s, keeps_decl s (fold_left (fun acc a => upd acc a (with_parent None)) l s).
Proof.
  induction l as [|a t IH]; intros s; cbn [fold_left]; [apply keeps_decl_refl|].
  eapply keeps_decl_trans; [|apply IH]. apply keeps_decl_upd; [intros; split; reflexivity | right; intros; reflexivity].
Qed.

Lemma kat_not_root s a : TreeInv s -> has_kind s KAt a = true -> a <> sroot s.
Proof.
  intros T K E. subst a. destruct (ti_root s T) as [rit [Hr Kr]]. unfold has_kind in K. rewrite Hr, Kr in K. discriminate.
Qed.

Lemma keeps_decl_detach_values s a : TreeInv s -> has_kind s KAt a = true -> keeps_decl s (detach_values s a).
Proof.
  intros T K. unfold detach_values. eapply keeps_decl_trans; [|apply keeps_decl_fold_unparent].
  apply keeps_decl_upd; [intros; split; reflexivity | left; apply kat_not_root; assumption].
Qed.

Lemma keeps_decl_create s it : TreeInv s -> keeps_decl s (snd (create s it)).
Proof.
  intros T. destruct (create_spec s it) as [_ [_ [Hr [_ Ho]]]]. split; [exact Hr|].
  destruct (ti_root s T) as [rit [Hroot _]].
  assert (Hne : sroot s <> next s) by (intros E; rewrite E in Hroot; rewrite (fresh_none s T) in Hroot; discriminate).
  split.
  - unfold children_of. rewrite Ho by exact Hne. reflexivity.
  - intros x Hx. rewrite Ho; [reflexivity|]. intros E. subst x.
    destruct (lists_live_child s T (sroot s) (next s)) as [cit Hc].
    + unfold children_of in Hx. rewrite Hroot in Hx. exists rit. split; [exact Hroot | left; exact Hx].
    + rewrite (fresh_none s T) in Hc. discriminate.
Qed.

(** ** one value node: create, then link under the attribute *)
Lemma create_eta s it : create s it = (next s, snd (create s it)).
Proof. reflexivity. Qed.

Lemma bounded_create s it : Bounded s -> Bounded (snd (create s it)).
Proof.
  intros B j x H. destruct (create_spec s it) as [_ [Hn [_ [_ Ho]]]]. rewrite Hn.
  destruct (N.eq_dec j (next s)) as [->|Hne]; [lia|]. rewrite Ho in H by exact Hne. pose proof (B j x H). lia.
Qed.

Lemma link_fresh_shape s a it :
  iparent it = None ->
  link (snd (create s it)) a (next s) None
  = upd (upd (snd (create s it)) (next s) (with_parent (Some a))) a (fun x => with_children (ichildren x ++ [next s]) x).
Proof.
  intros Hp. unfold link. rewrite unlink_no_parent; [reflexivity|].
  destruct (create_spec s it) as [_ [_ [_ [Hg _]]]]. unfold parent_of. rewrite Hg. exact Hp.
Qed.

Lemma abs_add_one s a it : Bounded s -> iparent it = None ->
  abs_store (link (snd (create s it)) a (next s) None)
  = DomL1.attach (snd (DomL1.new_node (abs_store s) (abs_item it))) a (next s) None.
Proof.
  intros B Hp. rewrite (link_fresh_shape s a it Hp). rewrite (abs_create s it B). cbn [snd].
  pose proof (bounded_create s it B) as B1. unfold DomL1.attach.
  rewrite (abs_store_upd _ a _ (fun rn => DomL1.set_children (DomL1.n_children rn ++ [next s]) rn)).
  - f_equal. apply abs_store_upd; [exact B1 | intros; reflexivity].
  - apply bounded_upd. exact B1.
  - intros; reflexivity.
Qed.

Lemma add_one_facts s a k loc data :
  TreeInv s -> has_kind s KAt a = true -> child_ok KAt k = true -> k <> KEl -> k <> KDt ->
  let it := new_item k None loc data false None in
  let s2 := link (snd (create s it)) a (next s) None in
  TreeInv s2 /\ has_kind s2 KAt a = true /\ keeps_decl s s2
  /\ abs_store s2 = DomL1.attach (snd (DomL1.new_node (abs_store s) (abs_item it))) a (next s) None.
Proof.
  intros T K Hok Hk1 Hk2 it s2.
  assert (Hat : exists ait, get s a = Some ait /\ ikind ait = KAt).
  { unfold has_kind in K. destruct (get s a) as [ait|]; [|discriminate]. exists ait. split; [reflexivity|].
    destruct (kind_eqb_spec (ikind ait) KAt); [assumption | discriminate]. }
  destruct Hat as [ait [Ha Ka]].
  split; [|split; [|split]].
  - pose proof (link_fresh_inv s a k None loc data false None T) as HL. rewrite create_eta in HL.
    apply HL; [exists ait; split; [exact Ha | rewrite Ka; exact Hok] | exact Hk1 | exact Hk2].
  - unfold s2. rewrite has_kind_kind_of, kind_of_link.
    rewrite (kind_of_create_old s it a T); [rewrite <- has_kind_kind_of; exact K|]. unfold kind_of. rewrite Ha. eexists. reflexivity.
  - unfold s2. rewrite (link_fresh_shape s a it eq_refl).
    eapply keeps_decl_trans; [apply keeps_decl_create; exact T|].
    apply (keeps_decl_trans _ (upd (snd (create s it)) (next s) (with_parent (Some a)))).
    + apply keeps_decl_upd; [intros; split; reflexivity | right; intros; reflexivity].
    + apply keeps_decl_upd; [intros; split; reflexivity|]. left. rewrite sroot_upd.
      destruct (create_spec s it) as [_ [_ [Hr _]]]. rewrite Hr. apply kat_not_root; assumption.
  - apply abs_add_one; [apply bounded_of_inv; exact T | reflexivity].
Qed.

(** ** the list of pieces *)
Definition ents_known (s : store) (pl : list DomL1.piece) : bool :=
  forallb (fun p => match p with DomL1.PEnt n => entity_known s n | _ => true end) pl.

Lemma forallb_ext_in {A} (f g : A -> bool) : forall l, (forall x, In x l -> f x = g x) -> forallb f l = forallb g l.
Proof.
  induction l as [|a l IH]; intros H; cbn [forallb]; [reflexivity|].
  rewrite (H a (or_introl eq_refl)). f_equal. apply IH. intros x Hx. apply H. right. exact Hx.
Qed.

Lemma ents_known_keeps s s' pl : keeps_decl s s' -> ents_known s' pl = ents_known s pl.
Proof.
  intros K. unfold ents_known. apply forallb_ext_in. intros p _. destruct p; try reflexivity. apply keeps_decl_known. exact K.
Qed.

Lemma add_values_refines l pl : vmatch l pl -> forall s a,
  TreeInv s -> has_kind s KAt a = true ->
  if ents_known s pl
  then exists s', add_values s a l = Some s' /\ abs_store s' = DomL1.add_pieces (abs_store s) a pl
  else add_values s a l = None.
Proof.
  induction 1 as [|t pl M IH|c tx t pl M IH|name c t pl M IH|name t pl M IH]; intros s a T K.
  - cbn. exists s. split; reflexivity.
  - cbn [add_values]. apply IH; assumption.
  - cbn [add_values]. rewrite create_eta.
    destruct (add_one_facts s a KTx [] (c :: tx) T K eq_refl ltac:(discriminate) ltac:(discriminate)) as [T2 [K2 [D2 A2]]].
    cbn [ents_known forallb andb]. fold (ents_known s pl). rewrite <- (ents_known_keeps s _ pl D2).
    specialize (IH _ a T2 K2).
    cbn [DomL1.add_pieces].
    change (DomL1.fresh_node DomL1.TText [] (c :: tx)) with (abs_item (new_item KTx None [] (c :: tx) false None)).
    rewrite (abs_create s _ (bounded_of_inv s T)). rewrite (abs_create s _ (bounded_of_inv s T)) in A2. cbn [snd] in A2.
    rewrite <- A2. exact IH.
  - cbn [add_values]. rewrite create_eta.
    destruct (add_one_facts s a KCr name [c] T K eq_refl ltac:(discriminate) ltac:(discriminate)) as [T2 [K2 [D2 A2]]].
    cbn [ents_known forallb andb]. fold (ents_known s pl). rewrite <- (ents_known_keeps s _ pl D2).
    specialize (IH _ a T2 K2).
    cbn [DomL1.add_pieces].
    change (DomL1.fresh_node DomL1.TCharRef name [c]) with (abs_item (new_item KCr None name [c] false None)).
    rewrite (abs_create s _ (bounded_of_inv s T)). rewrite (abs_create s _ (bounded_of_inv s T)) in A2. cbn [snd] in A2.
    rewrite <- A2. exact IH.
  - cbn [add_values ents_known forallb]. fold (ents_known s pl).
    destruct (entity_known s name) eqn:Ek; cbn [andb]; [|reflexivity].
    rewrite create_eta.
    destruct (add_one_facts s a KEr name [] T K eq_refl ltac:(discriminate) ltac:(discriminate)) as [T2 [K2 [D2 A2]]].
    rewrite <- (ents_known_keeps s _ pl D2).
    specialize (IH _ a T2 K2).
    cbn [DomL1.add_pieces].
    change (DomL1.fresh_node DomL1.TEntityRef name []) with (abs_item (new_item KEr None name [] false None)).
    rewrite (abs_create s _ (bounded_of_inv s T)). rewrite (abs_create s _ (bounded_of_inv s T)) in A2. cbn [snd] in A2.
    rewrite <- A2. exact IH.
Qed.

Lemma add_values_bad l : has_bad_char l = true -> forall s a, add_values s a l = None.
Proof.
  induction l as [|v t IH]; intros H s a; [discriminate|]. cbn [has_bad_char existsb] in H. cbn [add_values].
  destruct v as [tx|name ch|name].
  - cbn [orb] in H. destruct tx as [|c tx]; [apply IH; exact H|]. rewrite create_eta. apply IH. exact H.
  - destruct ch as [ch|]; [|reflexivity]. cbn [orb] in H. rewrite create_eta. apply IH. exact H.
  - cbn [orb] in H. destruct (entity_known s name); [|reflexivity]. rewrite create_eta. apply IH. exact H.
Qed.

(** ** the names of the entity references of a parsed literal are Names *)
Lemma reference_ent body n : DomL1.reference body = Some (DomL1.PEnt n) -> is_Name n = true.
Proof.
  unfold DomL1.reference. intros H.
  repeat match type of H with
         | (if is_Name ?b then _ else _) = _ => destruct (is_Name b) eqn:E; [inversion H; subst; exact E | discriminate]
         | match ?x with _ => _ end = _ => destruct x; try discriminate
         end.
Qed.

Lemma in_push_text p t l : In p (DomL1.push_text t l) -> p = DomL1.PText t \/ In p l.
Proof. unfold DomL1.push_text. destruct t; [tauto|]. intros [H|H]; [left; symmetry; exact H | right; exact H]. Qed.

Lemma pieces_names fuel : forall s cur l, DomL1.pieces fuel s cur = Some l ->
  forall n, In (DomL1.PEnt n) l -> is_Name n = true.
Proof.
  induction fuel as [|f IH]; intros s cur l H n Hin; cbn [DomL1.pieces] in H.
  - destruct s; [|discriminate]. inversion H; subst. apply in_push_text in Hin. destruct Hin as [E|[]]. discriminate.
  - destruct s as [|c t].
    + inversion H; subst. apply in_push_text in Hin. destruct Hin as [E|[]]. discriminate.
    + destruct (c =? 60); [discriminate|]. destruct (c =? 38).
      * destruct (DomL1.until_semi t) as [[body rest]|]; [|discriminate].
        destruct (DomL1.reference body) as [p|] eqn:R; [|discriminate].
        destruct (DomL1.pieces f rest []) as [l'|] eqn:P; [|discriminate]. inversion H; subst.
        apply in_push_text in Hin. destruct Hin as [E|[E|Hin]]; [discriminate | | eapply IH; eassumption].
        subst p. eapply reference_ent. exact R.
      * destruct (DomCharData.isChar c); [|discriminate]. eapply IH; eassumption.
Qed.

Lemma parse_attvalue_names v l : DomL1.parse_attvalue v = Some l -> forall n, In (DomL1.PEnt n) l -> is_Name n = true.
Proof.
  unfold DomL1.parse_attvalue. destruct (existsb (N.eqb 34) v && existsb (N.eqb 39) v); [discriminate|]. apply pieces_names.
Qed.

Lemma pieces_ok_known s pl : TreeInv s -> EntsOK s -> (forall n, In (DomL1.PEnt n) pl -> is_Name n = true) ->
  DomL1.pieces_ok (abs_store s) pl = ents_known s pl.
Proof.
  intros T E Hn. unfold DomL1.pieces_ok, ents_known. apply forallb_ext_in. intros p Hp. destruct p; try reflexivity.
  apply entity_usable_abs; [exact T | exact E | apply is_Name_no_zero; apply Hn; exact Hp].
Qed.

(** ** the value of an attribute *)
Lemma abs_detach_values s a : Bounded s -> abs_store (detach_values s a) = DomL1.clear_value (abs_store s) a.
Proof.
  intros B. unfold detach_values, DomL1.clear_value. rewrite (children_abs s a B).
  rewrite abs_fold_unparent by (apply bounded_upd; exact B). f_equal.
  apply abs_store_upd; [exact B | intros; reflexivity].
Qed.

Theorem set_values_refines s a d :
  TreeInv s -> EntsOK s -> has_kind s KAt a = true -> value_facts_agree d ->
  match DomL1.set_attr_value (abs_store s) a (d_str d) with
  | Some d1 => exists s2, set_values s a d = (s2, true) /\ abs_store s2 = d1
  | None => set_values s a d = (s, false)
  end.
Proof.
  intros T E K F. unfold DomL1.set_attr_value, set_values, value_facts_agree in *.
  destruct (DomL1.parse_attvalue (d_str d)) as [pl|] eqn:P.
  - destruct F as [l [Hl M]]. rewrite Hl.
    rewrite (pieces_ok_known s pl T E (parse_attvalue_names _ _ P)).
    pose proof (detach_values_inv s a T) as T1.
    assert (K1 : has_kind (detach_values s a) KAt a = true)
      by (rewrite has_kind_kind_of, kind_of_detach_values, <- has_kind_kind_of; exact K).
    pose proof (add_values_refines l pl M (detach_values s a) a T1 K1) as R.
    rewrite (ents_known_keeps s _ pl (keeps_decl_detach_values s a T K)) in R.
    destruct (ents_known s pl).
    + destruct R as [s' [A1 A2]]. rewrite A1. exists (invalidate s'). split; [reflexivity|].
      rewrite abs_store_invalidate, A2, (abs_detach_values s a (bounded_of_inv s T)). reflexivity.
    + rewrite R. reflexivity.
  - destruct (d_attr d) as [l|]; [|reflexivity]. rewrite (add_values_bad l F). reflexivity.
Qed.

(** whether a value is accepted depends on the string and on the entity table only *)
Definition value_ok (d : DomL1.adoc) (v : str) : bool :=
  match DomL1.parse_attvalue v with Some l => DomL1.pieces_ok d l | None => false end.

Lemma set_attr_value_some d x v : (match DomL1.set_attr_value d x v with Some _ => true | None => false end) = value_ok d v.
Proof.
  unfold DomL1.set_attr_value, value_ok. destruct (DomL1.parse_attvalue v) as [l|]; [|reflexivity].
  destruct (DomL1.pieces_ok d l); reflexivity.
Qed.

Lemma value_ok_keeps s s' v : TreeInv s -> TreeInv s' -> EntsOK s -> EntsOK s' -> keeps_decl s s' ->
  value_ok (abs_store s') v = value_ok (abs_store s) v.
Proof.
  intros T T' E E' K. unfold value_ok. destruct (DomL1.parse_attvalue v) as [l|] eqn:P; [|reflexivity].
  rewrite (pieces_ok_known s l T E (parse_attvalue_names _ _ P)), (pieces_ok_known s' l T' E' (parse_attvalue_names _ _ P)).
  apply ents_known_keeps. exact K.
Qed.
