(** * C02, rung 2 (syntax), the DOCTYPE rung, part 2: element type declarations [45]-[51]
    (content models: children, cp, choice, seq, Mixed), by induction on the length of the input. *)
From Coq Require Import List NArith Arith Lia Bool.
From XmlRs Require Import Base.CPred Spec.XmlChars Model.Peg Gen.XmlcharGen Gen.GrammarXmlGen Model.ParseActions Model.Info Model.Display
     Proofs.XmlcharProofs Proofs.PegTermination Proofs.PegLemmas Proofs.PegInv Proofs.Expansion
     Proofs.DisplayLex Proofs.ActionLemmas Proofs.DisplayElem Proofs.DisplayDoc Proofs.DisplayDtd
     Proofs.ParseInv Proofs.ParseInvElem Proofs.XmlWFSyntaxLex Proofs.XmlWFSyntaxElem Proofs.XmlWFSyntaxDtd.
From XmlRs Require Spec.XmlWF.
Import ListNotations.
Local Open Scope N_scope.

Definition occ : pexpr := Opt (Alt (Tag [63]) (Alt (Tag [42]) (Tag [43]))).
Definition sep_item (c : N) : pexpr := SeqR (Seq (Chars0 ws) (Seq (Tag [c]) (Chars0 ws))) (NT nt_cp).
Definition group_open : pexpr := Seq (Tag [40]) (Chars0 ws).
Definition group_close : pexpr := Seq (Chars0 ws) (Tag [41]).

Lemma body_seq : body G_xml nt_seq = Map L_closure_441e6bc9 (SeqR group_open (SeqL (Seq (NT nt_cp) (Many0 (sep_item 44))) group_close)).
Proof. reflexivity. Qed.
Lemma body_choice : body G_xml nt_choice = Map L_closure_441e6bc9 (SeqR group_open (SeqL (Seq (NT nt_cp) (Many1 (sep_item 124))) group_close)).
Proof. reflexivity. Qed.
Lemma body_cp : body G_xml nt_cp =
  Alt (Map L_closure_6f80cde5 (Seq (NT nt_seq) occ)) (Alt (Map L_closure_d89bea1a (Seq (NT nt_choice) occ)) (Map L_closure_82e89c41 (Seq (NT nt_qname) occ))).
Proof. reflexivity. Qed.
Lemma body_children : body G_xml nt_children =
  Alt (Map L_closure_6f80cde5 (Seq (NT nt_seq) occ)) (Map L_closure_d89bea1a (Seq (NT nt_choice) occ)).
Proof. reflexivity. Qed.
Definition mixed_item : pexpr := SeqR (Seq (Chars0 ws) (Seq (Tag [124]) (Chars0 ws))) (NT nt_qname).
Lemma body_mixed : body G_xml nt_mixed =
  Alt (Map L_Some (SeqR (Seq (Tag [40]) (Seq (Chars0 ws) (Tag [35;80;67;68;65;84;65]))) (SeqL (Many0 mixed_item) (Seq (Chars0 ws) (Tag [41;42])))))
      (Map L_closure_b4173c6c (Seq (Tag [40]) (Seq (Chars0 ws) (Seq (Tag [35;80;67;68;65;84;65]) (Seq (Chars0 ws) (Tag [41])))))).
Proof. reflexivity. Qed.
Lemma body_content_spec : body G_xml nt_content_spec =
  Alt (Map L_closure_96065bcb (Tag [69;77;80;84;89])) (Alt (Map L_closure_eea513b6 (Tag [65;78;89]))
  (Alt (Map L_model_DeclarationContent_Mixed (NT nt_mixed)) (Map L_model_DeclarationContent_Children (NT nt_children)))).
Proof. reflexivity. Qed.
Lemma body_element_decl : body G_xml nt_element_decl =
  Map L_model_DeclarationElement_from (SeqR (Seq (Tag [60;33;69;76;69;77;69;78;84]) (Chars1 ws))
    (SeqL (Seq (NT nt_qname) (SeqR (Chars1 ws) (NT nt_content_spec))) (Seq (Chars0 ws) (Tag [62])))).
Proof. reflexivity. Qed.

(** ** what may follow a content particle: white space, a separator, a closing parenthesis or the end of the declaration *)
Definition cfollow (r : str) : Prop :=
  match r with [] => True | c :: _ => eval ws c = true \/ c = 124 \/ c = 44 \/ c = 41 \/ c = 62 end.

Lemma cfollow_not_occ c r : cfollow (c :: r) -> (c =? W.c_qm) || (c =? W.c_star) || (c =? W.c_plus) = false.
Proof.
  cbn [cfollow]. intros [H|[->|[->|[->| ->]]]]; try reflexivity.
  destruct (ws_cases c H) as [->|[->|[->| ->]]]; reflexivity.
Qed.

Lemma cfollow_stops_name r : cfollow r -> stops (eval is_name_char) r.
Proof.
  destruct r as [|c r]; [intros _; exact I|]. cbn [cfollow stops]. intros [H|[->|[->|[->| ->]]]]; try reflexivity.
  revert H. apply (disj_sound ws is_name_char). vm_compute. reflexivity.
Qed.

Lemma syn_occ s t r : S occ s t r -> cfollow r -> W.skip_occ s = r /\ stops (eval is_name_char) s.
Proof.
  intros H Hf. unfold occ in H. inv H.
  - repeat inv_alt; invs; cbn [app]; split; reflexivity.
  - split; [|apply cfollow_stops_name; exact Hf]. destruct r as [|c r]; [reflexivity|]. unfold W.skip_occ. rewrite (cfollow_not_occ c r Hf). reflexivity.
Qed.

Lemma cfollow_ws_app (a r : str) : forallb (eval ws) a = true -> cfollow r -> cfollow (a ++ r).
Proof. intros Ha Hr. destruct a as [|c a]; [exact Hr|]. cbn [forallb] in Ha. apply andb_prop in Ha. cbn [app cfollow]. left. tauto. Qed.

(** ** one-step unfoldings of the mutual recursion of Spec.XmlWF (stated with the constants, so that rewriting works) *)
Lemma cp_eq f (s : str) : W.p_cp (Datatypes.S f) s =
  match s with
  | c :: t =>
    if c =? W.c_lpar then
      W.bind (W.p_cp f (W.skipS t)) (fun r => W.bind (W.p_group_rest f None (W.skipS r)) (fun r' => Some (W.skip_occ r')))
    else W.bind (W.p_Name s) (fun '(_, r) => Some (W.skip_occ r))
  | [] => None
  end.
Proof. reflexivity. Qed.

Lemma group_rest_eq f sep (s : str) : W.p_group_rest (Datatypes.S f) sep s =
  match s with
  | c :: t =>
    if c =? W.c_rpar then Some t
    else if ((c =? W.c_bar) || (c =? W.c_comma)) && match sep with Some x => c =? x | None => true end then
      W.bind (W.p_cp f (W.skipS t)) (fun r => W.p_group_rest f (Some c) (W.skipS r))
    else None
  | [] => None
  end.
Proof. reflexivity. Qed.

(** ** groups *)
Definition cp_syn (L : nat) : Prop :=
  forall s t r, (length s <= L)%nat -> S (NT nt_cp) s t r -> cfollow r -> forall fuel, (length s < fuel)%nat -> W.p_cp fuel s = Some r.

Definition closes (r rest : str) : Prop := exists a, forallb (eval ws) a = true /\ r = a ++ 41 :: rest.

Lemma syn_close_group s t r : S group_close s t r -> closes s r.
Proof.
  intros H. unfold group_close in H. inv H. match goal with H : succ _ (Chars0 ws) _ _ _ |- _ => apply inv_ws0 in H; destruct H as [a [-> [Ha _]]] end.
  match goal with H : succ _ (Tag _) _ _ _ |- _ => inv H end. exists a. split; [exact Ha|reflexivity].
Qed.

Lemma closes_cfollow r rest : closes r rest -> cfollow r.
Proof. intros [a [Ha ->]]. apply cfollow_ws_app; [exact Ha|]. cbn. tauto. Qed.

Lemma syn_group_items (L : nat) (c : N) : cp_syn L -> c = 124 \/ c = 44 ->
  forall s ts r rest, (length s <= L)%nat -> SM (sep_item c) s ts r -> closes r rest ->
  cfollow s /\ forall fuel sep, (sep = None \/ sep = Some c) -> (length s < fuel)%nat -> W.p_group_rest fuel sep (W.skipS s) = Some rest.
Proof.
  intros IH Hc s ts r rest Hlen H Hcl. remember (sep_item c) as ex eqn:Ee. revert Hlen.
  induction H as [ex s|ex s t r1 ts r Hs Hlt Hm IHm]; intros Hlen; subst ex.
  - split; [eapply closes_cfollow; exact Hcl|]. intros fuel sep _ Hf. destruct Hcl as [a [Ha ->]].
    rewrite (skipS_app a _ Ha) by reflexivity. destruct fuel as [|f]; [lia|]. rewrite group_rest_eq. reflexivity.
  - destruct (IHm eq_refl Hcl) as [Hfol1 Hrest]; [lia|]. unfold sep_item in Hs. inv Hs.
    match goal with H : succ _ (Seq (Chars0 ws) _) _ _ _ |- _ => inv H end.
    match goal with H : succ _ (Seq (Tag _) _) _ _ _ |- _ => inv H end.
    match goal with H : succ _ (Tag _) _ _ _ |- _ => inv H end.
    match goal with H : succ _ (Chars0 ws) _ _ (_ ++ _) |- _ => apply inv_ws0 in H; destruct H as [a1 [-> [Ha1 _]]] end.
    match goal with H : succ _ (Chars0 ws) _ _ _ |- _ => pose proof (succ_suffix _ _ _ _ _ H) as Hs2; apply syn_ws0 in H; rename H into Hw2 end.
    match goal with H : succ _ (NT nt_cp) _ _ _ |- _ => pose proof (succ_suffix _ _ _ _ _ H) as Hs3; rename H into Hcp end.
    apply suffix_length in Hs2, Hs3. rewrite app_length in Hlen, Hlt. cbn [app length] in Hlen, Hlt.
    split; [apply cfollow_ws_app; [exact Ha1|]; cbn; destruct Hc as [->| ->]; tauto|].
    intros fuel sep Hsep Hf. rewrite (skipS_app a1 _ Ha1) by (destruct Hc as [->| ->]; reflexivity).
    rewrite app_length in Hf. cbn [app length] in Hf. destruct fuel as [|f]; [lia|]. rewrite group_rest_eq. cbn [app].
    assert (forall (X : option str) (t0 : str), (if c =? W.c_rpar then Some t0 else
              if ((c =? W.c_bar) || (c =? W.c_comma)) && match sep with Some x => c =? x | None => true end then X else None) = X) as Hsel.
    { intros X t0. destruct Hsep as [->| ->]; [destruct Hc as [->| ->]; reflexivity|]. rewrite N.eqb_refl. destruct Hc as [->| ->]; reflexivity. }
    rewrite Hsel.
    rewrite Hw2. match type of Hcp with succ _ _ ?x0 _ _ => assert (length x0 <= L)%nat as Hx0 by slia; assert (length x0 < f)%nat as Hx1 by slia end.
    srw (IH _ _ _ Hx0 Hcp Hfol1 f Hx1). cbn [W.bind]. apply Hrest; [right; reflexivity|slia].
Qed.

(** a parenthesised group, after the opening parenthesis *)
Definition group_spec (fuel : nat) (t : str) : option str :=
  W.bind (W.p_cp fuel (W.skipS t)) (fun r => W.p_group_rest fuel None (W.skipS r)).

Lemma syn_group (L : nat) (c : N) (many1 : bool) : cp_syn L -> c = 124 \/ c = 44 ->
  forall s t r, (length s <= Datatypes.S L)%nat ->
  S (SeqR group_open (SeqL (Seq (NT nt_cp) (if many1 then Many1 (sep_item c) else Many0 (sep_item c))) group_close)) s t r ->
  exists s', s = 40 :: s' /\ (length r <= length s')%nat /\ forall fuel, (length s' < fuel)%nat -> group_spec fuel s' = Some r.
Proof.
  intros IH Hc s t r Hlen H. inv H.
  match goal with H : succ _ (SeqL _ _) _ _ _ |- _ => pose proof (succ_suffix _ _ _ _ _ H) as Hs0; inv H end.
  match goal with H : succ _ (Seq (NT nt_cp) _) _ _ _ |- _ => inv H end.
  match goal with H : succ _ group_open _ _ _ |- _ => unfold group_open in H; inv H end.
  match goal with H : succ _ (Tag _) _ _ _ |- _ => inv H end.
  match goal with H : succ _ (Chars0 ws) _ _ _ |- _ => pose proof (succ_suffix _ _ _ _ _ H) as Hs1; apply syn_ws0 in H; rename H into Hw end.
  match goal with H : succ _ group_close _ _ _ |- _ => apply syn_close_group in H; rename H into Hcl end.
  match goal with H : succ _ (NT nt_cp) _ _ _ |- _ => pose proof (succ_suffix _ _ _ _ _ H) as Hs2; rename H into Hcp end.
  apply suffix_length in Hs0, Hs1, Hs2. cbn [app length] in Hlen.
  eexists. split; [reflexivity|]. split; [slia|].
  assert (exists ts, SM (sep_item c) r2 ts r0 /\ True) as [ts [Hm _]].
  { destruct many1; match goal with H : succ _ _ r2 _ r0 |- _ => inv H end.
    - eexists. split; [|exact I]. eapply sm_step; [eassumption| |eassumption].
      match goal with H : succ _ (sep_item c) _ _ _ |- _ => unfold sep_item in H; inv H end.
      match goal with H : succ _ (Seq (Chars0 ws) _) _ _ _ |- _ => inv H end.
      match goal with H : succ _ (Seq (Tag _) _) _ _ _ |- _ => inv H end.
      match goal with H : succ _ (Tag _) _ _ _ |- _ => inv H end.
      match goal with H : succ _ (NT nt_cp) _ _ _ |- _ => apply succ_suffix in H; apply suffix_length in H end.
      repeat match goal with H : succ _ (Chars0 ws) _ _ _ |- _ => apply succ_suffix in H; apply suffix_length in H end.
      cbn [app length] in *. slia.
    - eexists. split; [eassumption|exact I]. }
  assert (length r2 <= L)%nat as Hr2 by slia.
  destruct (syn_group_items L c IH Hc _ _ _ _ Hr2 Hm Hcl) as [Hfol Hrest].
  intros fuel Hf. unfold group_spec. rewrite Hw. match type of Hcp with succ _ _ ?x0 _ _ => assert (length x0 <= L)%nat as Hx0 by slia; assert (length x0 < fuel)%nat as Hx1 by slia end.
  srw (IH _ _ _ Hx0 Hcp Hfol fuel Hx1). cbn [W.bind].
  apply Hrest; [left; reflexivity|slia].
Qed.

(** ** [48] cp, by induction on the length of the input *)
Lemma group_then_occ (L : nat) (c : N) (many1 : bool) (lbl : N) : cp_syn L -> c = 124 \/ c = 44 ->
  forall s t r, (length s <= Datatypes.S L)%nat ->
  S (Map lbl (Seq (Map L_closure_441e6bc9 (SeqR group_open (SeqL (Seq (NT nt_cp) (if many1 then Many1 (sep_item c) else Many0 (sep_item c))) group_close))) occ)) s t r ->
  cfollow r ->
  exists s', s = 40 :: s' /\ forall fuel, (length s' < fuel)%nat ->
    W.bind (group_spec fuel s') (fun r' => Some (W.skip_occ r')) = Some r.
Proof.
  intros IH Hc s t r Hlen H Hfol. inv H.
  match goal with H : succ _ (Seq _ occ) _ _ _ |- _ => inv H end.
  match goal with H : succ _ (Map _ _) _ _ _ |- _ => inv H end.
  match goal with H : succ _ occ _ _ _ |- _ => destruct (syn_occ _ _ _ H Hfol) as [Hocc _] end.
  match goal with H : succ _ (SeqR group_open _) _ _ _ |- _ => destruct (syn_group L c many1 IH Hc _ _ _ Hlen H) as [s' [-> [_ Hg]]] end.
  exists s'. split; [reflexivity|]. intros fuel Hf. rewrite (Hg fuel Hf). cbn [W.bind]. rewrite Hocc. reflexivity.
Qed.

Lemma nt_seq_unfold s t r : S (NT nt_seq) s t r ->
  S (Map L_closure_441e6bc9 (SeqR group_open (SeqL (Seq (NT nt_cp) (if false then Many1 (sep_item 44) else Many0 (sep_item 44))) group_close))) s t r.
Proof. intros H. inv_nt H body_seq. assumption. Qed.
Lemma nt_choice_unfold s t r : S (NT nt_choice) s t r ->
  S (Map L_closure_441e6bc9 (SeqR group_open (SeqL (Seq (NT nt_cp) (if true then Many1 (sep_item 124) else Many0 (sep_item 124))) group_close))) s t r.
Proof. intros H. inv_nt H body_choice. assumption. Qed.

Lemma lift_group lbl e e' s t r : (forall s t r, S e s t r -> S e' s t r) -> S (Map lbl (Seq e occ)) s t r -> S (Map lbl (Seq e' occ)) s t r.
Proof.
  intros He H. inv H. match goal with H : succ _ (Seq _ _) _ _ _ |- _ => inv H end.
  constructor. econstructor; [apply He; eassumption|eassumption].
Qed.

Theorem syn_cp : forall L, cp_syn L.
Proof.
  induction L as [|L IH]; intros s t r Hlen H Hfol fuel Hf.
  - destruct s; [|cbn in Hlen; lia]. exfalso. inv_nt H body_cp. repeat inv_alt.
    + match goal with H : succ _ (Map _ (Seq (NT nt_seq) occ)) _ _ _ |- _ => apply (lift_group _ _ _ _ _ _ nt_seq_unfold) in H; inv H end.
      match goal with H : succ _ (Seq _ _) _ _ _ |- _ => inv H end.
      match goal with H : succ _ (Map _ _) _ _ _ |- _ => inv H end. match goal with H : succ _ (SeqR _ _) _ _ _ |- _ => inv H end.
      match goal with H : succ _ group_open _ _ _ |- _ => unfold group_open in H; inv H end. match goal with H : succ _ (Tag _) _ _ _ |- _ => inv H end.
      match goal with H : [] = _ ++ _ |- _ => discriminate H end.
    + match goal with H : succ _ (Map _ (Seq (NT nt_choice) occ)) _ _ _ |- _ => apply (lift_group _ _ _ _ _ _ nt_choice_unfold) in H; inv H end.
      match goal with H : succ _ (Seq _ _) _ _ _ |- _ => inv H end.
      match goal with H : succ _ (Map _ _) _ _ _ |- _ => inv H end. match goal with H : succ _ (SeqR _ _) _ _ _ |- _ => inv H end.
      match goal with H : succ _ group_open _ _ _ |- _ => unfold group_open in H; inv H end. match goal with H : succ _ (Tag _) _ _ _ |- _ => inv H end.
      match goal with H : [] = _ ++ _ |- _ => discriminate H end.
    + match goal with H : succ _ (Map _ _) _ _ _ |- _ => inv H end. match goal with H : succ _ (Seq _ _) _ _ _ |- _ => inv H end.
      match goal with H : succ _ (NT nt_qname) _ _ _ |- _ => apply inv_qname in H; destruct H as [q [_ [Hq [E _]]]] end.
      apply qname_is_Name in Hq. destruct (d_qname q); [discriminate|discriminate E].
  - inv_nt H body_cp. repeat inv_alt.
    + match goal with H : succ _ (Map _ (Seq (NT nt_seq) occ)) _ _ _ |- _ => apply (lift_group _ _ _ _ _ _ nt_seq_unfold) in H;
        destruct (group_then_occ L 44 false _ IH (or_intror eq_refl) _ _ _ Hlen H Hfol) as [s' [-> Hg]] end.
      cbn [length] in Hf. destruct fuel as [|f]; [lia|]. rewrite cp_eq. change (40 =? W.c_lpar) with true. cbv iota.
      specialize (Hg f ltac:(slia)). unfold group_spec in Hg.
      destruct (W.p_cp f (W.skipS s')) as [r1|]; [|discriminate Hg]. cbn [W.bind] in *. exact Hg.
    + match goal with H : succ _ (Map _ (Seq (NT nt_choice) occ)) _ _ _ |- _ => apply (lift_group _ _ _ _ _ _ nt_choice_unfold) in H;
        destruct (group_then_occ L 124 true _ IH (or_introl eq_refl) _ _ _ Hlen H Hfol) as [s' [-> Hg]] end.
      cbn [length] in Hf. destruct fuel as [|f]; [lia|]. rewrite cp_eq. change (40 =? W.c_lpar) with true. cbv iota.
      specialize (Hg f ltac:(slia)). unfold group_spec in Hg.
      destruct (W.p_cp f (W.skipS s')) as [r1|]; [|discriminate Hg]. cbn [W.bind] in *. exact Hg.
    + match goal with H : succ _ (Map _ _) _ _ _ |- _ => inv H end.
      match goal with H : succ _ (Seq _ _) _ _ _ |- _ => inv H end.
      match goal with H : succ _ occ _ _ _ |- _ => destruct (syn_occ _ _ _ H Hfol) as [Hocc Hst] end.
      match goal with H : succ _ (NT nt_qname) _ _ _ |- _ => apply syn_qname in H; [|exact Hst]; destruct H as [q [_ [Hq [Es Hp]]]] end.
      destruct (p_Name_first _ _ _ Hp) as [c [s0 [-> Hc]]]. destruct fuel as [|f]; [lia|]. rewrite cp_eq.
      assert ((c =? W.c_lpar) = false) as -> by (destruct (N.eqb_spec c W.c_lpar) as [->|]; [vm_compute in Hc; discriminate|reflexivity]).
      rewrite Hp. cbn [W.bind]. rewrite Hocc. reflexivity.
Qed.

(** ** [47] children, [51] Mixed, [46] contentspec *)
Lemma p_cp_first fuel (x r : str) : W.p_cp fuel x = Some r -> exists c t, x = c :: t /\ (c = 40 \/ eval spec_NameStartChar c = true).
Proof.
  destruct fuel as [|f]; [discriminate|]. rewrite cp_eq. destruct x as [|c t]; [discriminate|].
  destruct (N.eqb_spec c W.c_lpar) as [->|Hne]; [intros _; eauto|].
  destruct (W.p_Name (c :: t)) as [[nm r0]|] eqn:E; [|discriminate]. intros _. destruct (p_Name_first _ _ _ E) as [c' [t' [E' Hc]]].
  injection E' as <- <-. eauto.
Qed.

Lemma contentspec_group fuel (s' : str) : (exists r1, W.p_cp fuel (W.skipS s') = Some r1) ->
  W.p_contentspec fuel (40 :: s') = W.bind (group_spec fuel s') (fun r' => Some (W.skip_occ r')).
Proof.
  intros [r1 H]. destruct (p_cp_first _ _ _ H) as [c [t [E Hc]]]. unfold W.p_contentspec, group_spec.
  change (W.strip W.s_EMPTY (40 :: s')) with (@None str). change (W.strip W.s_ANY (40 :: s')) with (@None str).
  change (40 =? W.c_lpar) with true. cbv iota. rewrite E.
  assert (W.strip W.s_PCDATA (c :: t) = None) as ->; [|rewrite <- E, H; reflexivity].
  unfold W.s_PCDATA. cbn [W.strip]. destruct (N.eqb_spec 35 c) as [<-|]; [|reflexivity]. destruct Hc as [Hc|Hc]; [discriminate|vm_compute in Hc; discriminate].
Qed.

Lemma syn_children s t r : S (NT nt_children) s t r -> cfollow r -> forall fuel, (length s < fuel)%nat -> W.p_contentspec fuel s = Some r.
Proof.
  intros H Hfol fuel Hf. inv_nt H body_children. inv_alt.
  - match goal with H : succ _ (Map _ (Seq (NT nt_seq) occ)) _ _ _ |- _ => apply (lift_group _ _ _ _ _ _ nt_seq_unfold) in H;
      destruct (group_then_occ (length s) 44 false _ (syn_cp _) (or_intror eq_refl) _ _ _ (Nat.le_succ_diag_r _) H Hfol) as [s' [-> Hg]] end.
    cbn [length] in Hf. specialize (Hg fuel ltac:(slia)). rewrite contentspec_group; [exact Hg|].
    unfold group_spec in Hg. destruct (W.p_cp fuel (W.skipS s')) as [r1|]; [eauto|discriminate Hg].
  - match goal with H : succ _ (Map _ (Seq (NT nt_choice) occ)) _ _ _ |- _ => apply (lift_group _ _ _ _ _ _ nt_choice_unfold) in H;
      destruct (group_then_occ (length s) 124 true _ (syn_cp _) (or_introl eq_refl) _ _ _ (Nat.le_succ_diag_r _) H Hfol) as [s' [-> Hg]] end.
    cbn [length] in Hf. specialize (Hg fuel ltac:(slia)). rewrite contentspec_group; [exact Hg|].
    unfold group_spec in Hg. destruct (W.p_cp fuel (W.skipS s')) as [r1|]; [eauto|discriminate Hg].
Qed.

Lemma syn_mixed_items s ts r rest : SM mixed_item s ts r -> (exists a, forallb (eval ws) a = true /\ r = a ++ 41 :: 42 :: rest) ->
  cfollow s /\ forall fuel any, (length s < fuel)%nat -> W.p_mixed_rest fuel any s = Some rest.
Proof.
  intros H Hcl. remember mixed_item as ex eqn:Ee. induction H as [ex s|ex s t r1 ts r Hs Hlt Hm IH]; subst ex.
  - destruct Hcl as [a [Ha ->]]. split; [apply cfollow_ws_app; [exact Ha|cbn; tauto]|]. intros fuel any Hf. destruct fuel as [|f]; [lia|].
    cbn [W.p_mixed_rest]. rewrite (skipS_app a _ Ha) by reflexivity. reflexivity.
  - destruct (IH eq_refl Hcl) as [Hfol1 Hrest]. unfold mixed_item in Hs. inv Hs.
    match goal with H : succ _ (Seq (Chars0 ws) _) _ _ _ |- _ => inv H end.
    match goal with H : succ _ (Seq (Tag _) _) _ _ _ |- _ => inv H end.
    match goal with H : succ _ (Tag _) _ _ _ |- _ => inv H end.
    match goal with H : succ _ (Chars0 ws) _ _ (_ ++ _) |- _ => apply inv_ws0 in H; destruct H as [a1 [-> [Ha1 _]]] end.
    match goal with H : succ _ (Chars0 ws) _ _ _ |- _ => apply syn_ws0 in H; rename H into Hw2 end.
    match goal with H : succ _ (NT nt_qname) _ _ _ |- _ => apply syn_qname in H; [|apply cfollow_stops_name; exact Hfol1]; destruct H as [q [_ [_ [_ Hp]]]] end.
    split; [apply cfollow_ws_app; [exact Ha1|cbn; tauto]|]. intros fuel any Hf. destruct fuel as [|f]; [lia|].
    cbn [W.p_mixed_rest]. rewrite (skipS_app a1 _ Ha1) by reflexivity. cbn [app]. change (124 =? W.c_rpar) with false. change (124 =? W.c_bar) with true. cbv iota.
    rewrite Hw2, Hp. cbn [W.bind]. apply Hrest. rewrite app_length in Hlt, Hf. cbn [app length] in *. slia.
Qed.

Lemma syn_mixed s t r : S (NT nt_mixed) s t r -> cfollow r -> forall fuel, (length s < fuel)%nat -> W.p_contentspec fuel s = Some r.
Proof.
  intros H Hfol fuel Hf. inv_nt H body_mixed. inv_alt.
  - match goal with H : succ _ (Map _ _) _ _ _ |- _ => inv H end.
    match goal with H : succ _ (SeqR _ _) _ _ _ |- _ => inv H end.
    match goal with H : succ _ (SeqL _ _) _ _ _ |- _ => inv H end.
    match goal with H : succ _ (Seq (Tag [40]) _) _ _ _ |- _ => inv H end.
    match goal with H : succ _ (Seq (Chars0 ws) (Tag [35;80;67;68;65;84;65])) _ _ _ |- _ => inv H end.
    match goal with H : succ _ (Many0 _) _ _ _ |- _ => inv H end.
    match goal with H : succ _ (Seq (Chars0 ws) (Tag [41;42])) _ _ _ |- _ => inv H end.
    repeat match goal with H : succ _ (Tag _) _ _ _ |- _ => inv H end.
    match goal with H : succ _ (Chars0 ws) _ _ ([41;42] ++ _) |- _ => apply inv_ws0 in H; destruct H as [a2 [-> [Ha2 _]]] end.
    match goal with H : succ _ (Chars0 ws) _ _ _ |- _ => apply inv_ws0 in H; destruct H as [a1 [-> [Ha1 _]]] end.
    match goal with H : succ_many _ mixed_item _ _ _ |- _ => destruct (syn_mixed_items _ _ _ r H (ex_intro _ a2 (conj Ha2 eq_refl))) as [_ Hrest] end.
    cbn [app]. unfold W.p_contentspec.
    match goal with |- context [W.strip W.s_EMPTY (40 :: ?x)] => change (W.strip W.s_EMPTY (40 :: x)) with (@None str); change (W.strip W.s_ANY (40 :: x)) with (@None str) end.
    change (40 =? W.c_lpar) with true. cbv iota. rewrite (skipS_app a1 _ Ha1) by reflexivity.
    change W.s_PCDATA with [35;80;67;68;65;84;65]. change (35 :: 80 :: 67 :: 68 :: 65 :: 84 :: 65 :: ?x) with ([35;80;67;68;65;84;65] ++ x). rewrite Wstrip_app.
    apply Hrest. cbn [app length] in Hf. rewrite app_length in Hf. cbn [app length] in Hf. slia.
  - match goal with H : succ _ (Map _ _) _ _ _ |- _ => inv H end. invs. cbn [app]. unfold W.p_contentspec.
    match goal with |- context [W.strip W.s_EMPTY (40 :: ?x)] => change (W.strip W.s_EMPTY (40 :: x)) with (@None str); change (W.strip W.s_ANY (40 :: x)) with (@None str) end.
    change (40 =? W.c_lpar) with true. cbv iota.
    match goal with Ha : forallb (eval ws) ?a = true |- context [W.skipS (?a ++ _)] => rewrite (skipS_app a _ Ha) by reflexivity end.
    change W.s_PCDATA with [35;80;67;68;65;84;65]. change (35 :: 80 :: 67 :: 68 :: 65 :: 84 :: 65 :: ?x) with ([35;80;67;68;65;84;65] ++ x). rewrite Wstrip_app.
    destruct fuel as [|f]; [lia|]. cbn [W.p_mixed_rest].
    match goal with Ha : forallb (eval ws) ?a = true |- context [W.skipS (?a ++ _)] => rewrite (skipS_app a _ Ha) by reflexivity end.
    cbn [app]. change (41 =? W.c_rpar) with true. cbv iota. destruct r as [|c2 r']; [reflexivity|].
    assert ((c2 =? W.c_star) = false) as ->; [|reflexivity].
    pose proof (cfollow_not_occ c2 r' Hfol) as Hn. apply orb_false_elim in Hn. destruct Hn as [Hn _]. apply orb_false_elim in Hn. tauto.
Qed.

Lemma syn_content_spec s t r : S (NT nt_content_spec) s t r -> cfollow r -> forall fuel, (length s < fuel)%nat -> W.p_contentspec fuel s = Some r.
Proof.
  intros H Hfol fuel Hf. inv_nt H body_content_spec. repeat inv_alt.
  - invs. unfold W.p_contentspec. change W.s_EMPTY with [69;77;80;84;89]. rewrite Wstrip_app. reflexivity.
  - invs. unfold W.p_contentspec. change (W.strip W.s_EMPTY ([65;78;89] ++ r)) with (@None str). change W.s_ANY with [65;78;89]. rewrite Wstrip_app. reflexivity.
  - match goal with H : succ _ (Map _ _) _ _ _ |- _ => inv H end. eapply syn_mixed; eassumption.
  - match goal with H : succ _ (Map _ _) _ _ _ |- _ => inv H end. eapply syn_children; eassumption.
Qed.

(** ** [45] elementdecl *)
Lemma markupdecl_element fuel r : W.p_markupdecl fuel (W.s_element ++ r) =
  W.bind (W.p_S r) (fun r1 => W.bind (W.p_Name r1) (fun '(nm, r2) => W.bind (W.p_S r2) (fun r3 =>
  W.bind (W.p_contentspec fuel r3) (fun r4 => W.bind (W.p_close r4) (fun r5 => Some (W.DElement nm, r5)))))).
Proof. reflexivity. Qed.

Lemma tag_end_cfollow r rest : tag_end r false rest -> cfollow r.
Proof. intros [a [Ha ->]]. apply cfollow_ws_app; [exact Ha|]. cbn. tauto. Qed.

Lemma syn_element_decl s t r : S (NT nt_element_decl) s t r ->
  exists q tcs, t = TMap L_model_DeclarationElement_from (TPair (tree_qname q) tcs) /\
    forall fuel, (length s <= fuel)%nat -> W.p_markupdecl fuel s = Some (W.DElement (d_qname q), r).
Proof.
  intros H. inv_nt H body_element_decl.
  match goal with H : succ _ (Map _ _) _ _ _ |- _ => inv H end.
  match goal with H : succ _ (SeqR _ _) _ _ _ |- _ => inv H end.
  match goal with H : succ _ (SeqL _ _) _ _ _ |- _ => inv H end.
  match goal with H : succ _ (Seq (Tag _) _) _ _ _ |- _ => inv H end.
  match goal with H : succ _ (Tag _) _ _ _ |- _ => inv H end.
  match goal with H : succ _ (Seq (NT nt_qname) _) _ _ _ |- _ => inv H end.
  match goal with H : succ _ (SeqR (Chars1 ws) _) _ _ _ |- _ => inv H end.
  match goal with H : succ _ (Seq (Chars0 ws) (Tag [62])) _ _ _ |- _ => apply syn_close in H; rename H into Hend end.
  match goal with H : succ _ (NT nt_content_spec) _ _ _ |- _ => pose proof (succ_suffix _ _ _ _ _ H) as Hs4; rename H into Hcs end.
  match goal with H1 : succ _ (NT nt_qname) _ _ ?r2, H2 : succ _ (Chars1 ws) ?r2 _ _ |- _ =>
    pose proof (succ_suffix _ _ _ _ _ H1) as Hs2; pose proof (succ_suffix _ _ _ _ _ H2) as Hs3;
    assert (stops (eval is_name_char) r2) as Hst by (destruct (ws1_follow _ _ _ H2) as [a [r' [Hn [Ha ->]]]]; apply ws_name_end; assumption);
    apply syn_ws1 in H2; destruct H2 as [Hw2 _];
    apply syn_qname in H1; [|exact Hst]; destruct H1 as [q [-> [Hq [_ Hp]]]] end.
  match goal with H : succ _ (Chars1 ws) _ _ _ |- _ => pose proof (succ_suffix _ _ _ _ _ H) as Hs1; apply syn_ws1 in H; destruct H as [Hw1 _] end.
  exists q. eexists. split; [reflexivity|]. intros fuel Hf.
  change ([60;33;69;76;69;77;69;78;84] ++ ?y) with (W.s_element ++ y). rewrite markupdecl_element, Hw1. cbn [W.bind]. rewrite Hp. cbn [W.bind]. rewrite Hw2. cbn [W.bind].
  apply suffix_length in Hs1, Hs2, Hs3, Hs4. cbn [app length] in Hf.
  rewrite (syn_content_spec _ _ _ Hcs (tag_end_cfollow _ _ Hend) fuel) by slia. cbn [W.bind]. rewrite (p_close_end _ _ Hend). reflexivity.
Qed.
