(** * XML 1.0 (Fifth Edition) character classes, transcribed from the recommendation.

    [2] Char, [4] NameStartChar, [4a] NameChar, [13] PubidChar, the characters of [81]
    EncName, and [3] S.  Written as range lists straight from the EBNF; this file is the
    oracle of the C18 class theorems and depends on nothing generated. *)
From Coq Require Import List NArith Bool.
From XmlRs Require Import Base.CPred.
Import ListNotations.
Open Scope N_scope.

(** [2] Char ::= #x9 | #xA | #xD | [#x20-#xD7FF] | [#xE000-#xFFFD] | [#x10000-#x10FFFF] *)
Definition spec_Char : cpred :=
  InR [(0x9,0x9);(0xA,0xA);(0xD,0xD);(0x20,0xD7FF);(0xE000,0xFFFD);(0x10000,0x10FFFF)].

(** [4] NameStartChar ::= ":" | [A-Z] | "_" | [a-z] | [#xC0-#xD6] | [#xD8-#xF6] |
    [#xF8-#x2FF] | [#x370-#x37D] | [#x37F-#x1FFF] | [#x200C-#x200D] | [#x2070-#x218F] |
    [#x2C00-#x2FEF] | [#x3001-#xD7FF] | [#xF900-#xFDCF] | [#xFDF0-#xFFFD] | [#x10000-#xEFFFF] *)
Definition spec_NameStartChar : cpred :=
  InR [(0x3A,0x3A);(0x41,0x5A);(0x5F,0x5F);(0x61,0x7A);(0xC0,0xD6);(0xD8,0xF6);(0xF8,0x2FF);
       (0x370,0x37D);(0x37F,0x1FFF);(0x200C,0x200D);(0x2070,0x218F);(0x2C00,0x2FEF);
       (0x3001,0xD7FF);(0xF900,0xFDCF);(0xFDF0,0xFFFD);(0x10000,0xEFFFF)].

(** [4a] NameChar ::= NameStartChar | "-" | "." | [0-9] | #xB7 | [#x0300-#x036F] | [#x203F-#x2040] *)
Definition spec_NameChar : cpred :=
  Or spec_NameStartChar
     (InR [(0x2D,0x2D);(0x2E,0x2E);(0x30,0x39);(0xB7,0xB7);(0x300,0x36F);(0x203F,0x2040)]).

(** [13] PubidChar ::= #x20 | #xD | #xA | [a-zA-Z0-9] | one of  - ' ( ) + , . / : = ? ; ! * # @ $ _ %
    (given below by code point) *)
Definition spec_PubidChar : cpred :=
  InR [(0x20,0x20);(0xD,0xD);(0xA,0xA);(0x61,0x7A);(0x41,0x5A);(0x30,0x39);
       (0x2D,0x2D);(0x27,0x27);(0x28,0x28);(0x29,0x29);(0x2B,0x2B);(0x2C,0x2C);(0x2E,0x2E);
       (0x2F,0x2F);(0x3A,0x3A);(0x3D,0x3D);(0x3F,0x3F);(0x3B,0x3B);(0x21,0x21);(0x2A,0x2A);
       (0x23,0x23);(0x40,0x40);(0x24,0x24);(0x5F,0x5F);(0x25,0x25)].

(** [81] EncName ::= [A-Za-z] ([A-Za-z0-9._] | hyphen)* ; the class of the tail characters *)
Definition spec_EncNameChar : cpred :=
  InR [(0x41,0x5A);(0x61,0x7A);(0x30,0x39);(0x2E,0x2E);(0x5F,0x5F);(0x2D,0x2D)].
Definition spec_EncNameStart : cpred := InR [(0x41,0x5A);(0x61,0x7A)].

(** [3] S ::= (#x20 | #x9 | #xD | #xA)+ *)
Definition spec_S : cpred := InR [(0x20,0x20);(0x9,0x9);(0xD,0xD);(0xA,0xA)].

(** ** Names.  [5] Name ::= NameStartChar (NameChar)*;  Namespaces in XML:
    [4] NCName ::= a Name without any colon;  [7] QName ::= NCName ':' NCName | NCName. *)
Definition colon : N := 0x3A.

Definition is_Name (s : str) : bool :=
  match s with
  | [] => false
  | c :: t => eval spec_NameStartChar c && forallb (eval spec_NameChar) t
  end.

Definition is_NCName (s : str) : bool :=
  is_Name s && negb (existsb (N.eqb colon) s).

Definition is_Nmtoken (s : str) : bool :=
  match s with [] => false | _ => forallb (eval spec_NameChar) s end.

(** split at the first colon *)
Fixpoint split_colon (s : str) : option (str * str) :=
  match s with
  | [] => None
  | c :: t => if c =? colon then Some ([], t)
              else match split_colon t with
                   | Some (p, l) => Some (c :: p, l)
                   | None => None
                   end
  end.

Definition is_QName (s : str) : bool :=
  match split_colon s with
  | None => is_NCName s
  | Some (p, l) => is_NCName p && is_NCName l
  end.

(** [17] PITarget ::= a Name other than x-m-l in any letter case *)
Definition lower (c : N) : N := if (0x41 <=? c) && (c <=? 0x5A) then c + 32 else c.
Definition is_xml_ci (s : str) : bool :=
  match s with
  | [a; b; c] => (lower a =? 0x78) && (lower b =? 0x6D) && (lower c =? 0x6C)
  | _ => false
  end.
Definition is_PITarget (s : str) : bool := is_Name s && negb (is_xml_ci s).
