(** * One-step unfolding equations of the specification evaluator [Spec/XPath10.v], one per
    constructor (the specification is never simplified on open terms in the refinement proof). *)
From Coq Require Import List NArith Bool.
From XmlRs Require Import Base.CPred Base.Float64 Spec.XPathCore.
From XmlRs Require Import Model.XPathAst Model.XDoc Spec.XPath10.
Import ListNotations.
Open Scope N_scope.

Section SEqs.
Variable doc : xdoc.
Variable ns : bindings.

Lemma s_or_eq f r n p z :
  s_or doc ns (EOr f r) n p z =
  match s_and doc ns f n p z with Some v => s_or_rest doc ns r v n p z | None => None end.
Proof. reflexivity. Qed.

Lemma s_or_rest_nil acc n p z : s_or_rest doc ns AndNil acc n p z = Some acc.
Proof. reflexivity. Qed.

Lemma s_or_rest_cons a t acc n p z :
  s_or_rest doc ns (AndCons a t) acc n p z =
  if s_boolean doc acc then Some (SBool true)
  else match s_and doc ns a n p z with
       | Some v => s_or_rest doc ns t (SBool (s_boolean doc v)) n p z
       | None => None
       end.
Proof. reflexivity. Qed.

Lemma s_and_eq f r n p z :
  s_and doc ns (EAnd f r) n p z =
  match s_eq doc ns f n p z with Some v => s_and_rest doc ns r v n p z | None => None end.
Proof. reflexivity. Qed.

Lemma s_and_rest_nil acc n p z : s_and_rest doc ns EqNil acc n p z = Some acc.
Proof. reflexivity. Qed.

Lemma s_and_rest_cons a t acc n p z :
  s_and_rest doc ns (EqCons a t) acc n p z =
  if negb (s_boolean doc acc) then Some (SBool false)
  else match s_eq doc ns a n p z with
       | Some v => s_and_rest doc ns t (SBool (s_boolean doc v)) n p z
       | None => None
       end.
Proof. reflexivity. Qed.

Lemma s_eq_eq o ops n p z :
  s_eq doc ns (EEq o ops) n p z =
  match s_rel doc ns o n p z with Some v => s_eq_ops doc ns ops v n p z | None => None end.
Proof. reflexivity. Qed.

Lemma s_eq_ops_nil acc n p z : s_eq_ops doc ns EqopNil acc n p z = Some acc.
Proof. reflexivity. Qed.

Lemma s_eq_ops_cons op e t acc n p z :
  s_eq_ops doc ns (EqopCons op e t) acc n p z =
  match s_rel doc ns e n p z with
  | Some v => s_eq_ops doc ns t (SBool (s_compare doc (match op with OpEqual => OEq | OpNotEqual => ONe end) acc v)) n p z
  | None => None
  end.
Proof. reflexivity. Qed.

Lemma s_rel_eq o ops n p z :
  s_rel doc ns (ERel o ops) n p z =
  match s_add doc ns o n p z with Some v => s_rel_ops doc ns ops v n p z | None => None end.
Proof. reflexivity. Qed.

Lemma s_rel_ops_nil acc n p z : s_rel_ops doc ns RelopNil acc n p z = Some acc.
Proof. reflexivity. Qed.

Lemma s_rel_ops_cons op e t acc n p z :
  s_rel_ops doc ns (RelopCons op e t) acc n p z =
  match s_add doc ns e n p z with
  | Some v =>
      s_rel_ops doc ns t (SBool (s_compare doc (match op with
                                                | OpLessThan => OLt | OpGreaterThan => OGt
                                                | OpLessEqual => OLe | OpGreaterEqual => OGe end) acc v)) n p z
  | None => None
  end.
Proof. reflexivity. Qed.

Lemma s_add_eq o ops n p z :
  s_add doc ns (EAdd o ops) n p z =
  match s_mul doc ns o n p z with Some v => s_add_ops doc ns ops v n p z | None => None end.
Proof. reflexivity. Qed.

Lemma s_add_ops_nil acc n p z : s_add_ops doc ns AddopNil acc n p z = Some acc.
Proof. reflexivity. Qed.

Lemma s_add_ops_cons op e t acc n p z :
  s_add_ops doc ns (AddopCons op e t) acc n p z =
  match s_mul doc ns e n p z with
  | Some v => match s_arith doc (match op with OpAdd => OAdd | OpSub => OSub end) acc v with
              | Some r => s_add_ops doc ns t r n p z
              | None => None
              end
  | None => None
  end.
Proof. reflexivity. Qed.

Lemma s_mul_eq o ops n p z :
  s_mul doc ns (EMul o ops) n p z =
  match s_unary doc ns o n p z with Some v => s_mul_ops doc ns ops v n p z | None => None end.
Proof. reflexivity. Qed.

Lemma s_mul_ops_nil acc n p z : s_mul_ops doc ns MulopNil acc n p z = Some acc.
Proof. reflexivity. Qed.

Lemma s_mul_ops_cons op e t acc n p z :
  s_mul_ops doc ns (MulopCons op e t) acc n p z =
  match s_unary doc ns e n p z with
  | Some v => match s_arith doc (match op with OpMul => OMul | OpDiv => ODiv | OpMod => OMod end) acc v with
              | Some r => s_mul_ops doc ns t r n p z
              | None => None
              end
  | None => None
  end.
Proof. reflexivity. Qed.

Lemma s_unary_eq inv u n p z :
  s_unary doc ns (EUnary inv u) n p z =
  match s_union doc ns u n p z with
  | Some v => Some (N.iter inv (fun w => SNum (f64_neg (s_number doc w))) v)
  | None => None
  end.
Proof. reflexivity. Qed.

Lemma s_union_nil n p z : s_union doc ns (EUnion PathNil) n p z = Some (SNodes []).
Proof. reflexivity. Qed.

Lemma s_union_one first n p z :
  s_union doc ns (EUnion (PathCons first PathNil)) n p z = s_path doc ns first n p z.
Proof. reflexivity. Qed.

Lemma s_union_many first q t n p z :
  s_union doc ns (EUnion (PathCons first (PathCons q t))) n p z =
  match s_path doc ns first n p z with
  | Some (SNodes l) => s_union_rest doc ns (PathCons q t) l n p z
  | _ => None
  end.
Proof. reflexivity. Qed.

Lemma s_union_rest_nil acc n p z : s_union_rest doc ns PathNil acc n p z = Some (SNodes (nodeset doc acc)).
Proof. reflexivity. Qed.

Lemma s_union_rest_cons q t acc n p z :
  s_union_rest doc ns (PathCons q t) acc n p z =
  match s_path doc ns q n p z with
  | Some (SNodes l') => s_union_rest doc ns t (acc ++ l') n p z
  | _ => None
  end.
Proof. reflexivity. Qed.

Lemma s_path_root n p z : s_path doc ns PRoot n p z = Some (SNodes [Row doc_root]).
Proof. reflexivity. Qed.

Lemma s_path_filter f n p z : s_path doc ns (PFilter f) n p z = s_filter doc ns f n p z.
Proof. reflexivity. Qed.

Lemma s_path_rel' l n p z :
  s_path doc ns (PRel l) n p z =
  match s_rel_path doc ns l [n] with Some r => Some (SNodes r) | None => None end.
Proof. reflexivity. Qed.

Lemma s_path_abs' op l n p z :
  s_path doc ns (PAbs op l) n p z =
  match s_rel_path doc ns l (match op with
                             | LpCurrent => [Row doc_root]
                             | LpDescendantOrSelfNode => Row doc_root :: s_descendants doc (Row doc_root)
                             end) with
  | Some r => Some (SNodes r)
  | None => None
  end.
Proof. reflexivity. Qed.

Lemma s_path_filterpath f op l n p z :
  s_path doc ns (PFilterPath f op l) n p z =
  match s_filter doc ns f n p z with
  | Some (SNodes fl) =>
      match s_rel_path doc ns l (match op with
                                 | LpCurrent => fl
                                 | LpDescendantOrSelfNode => nodeset doc (flat_map (fun x => x :: s_descendants doc x) fl)
                                 end) with
      | Some r => Some (SNodes r)
      | None => None
      end
  | _ => None
  end.
Proof. reflexivity. Qed.

Lemma s_filter_nopred q n p z : s_filter doc ns (EFilter q ExprNil) n p z = s_primary doc ns q n p z.
Proof. reflexivity. Qed.

Lemma s_filter_preds q e t n p z :
  s_filter doc ns (EFilter q (ExprCons e t)) n p z =
  match s_primary doc ns q n p z with
  | Some (SNodes l) => match s_preds doc ns (ExprCons e t) l with Some r => Some (SNodes r) | None => None end
  | _ => None
  end.
Proof. reflexivity. Qed.

Lemma s_primary_variable q n p z : s_primary doc ns (PrimVariable q) n p z = None.
Proof. reflexivity. Qed.

Lemma s_primary_expr x n p z : s_primary doc ns (PrimExpr x) n p z = s_or doc ns x n p z.
Proof. reflexivity. Qed.

Lemma s_primary_literal s n p z : s_primary doc ns (PrimLiteral s) n p z = Some (SStr s).
Proof. reflexivity. Qed.

Lemma s_primary_number s n p z :
  s_primary doc ns (PrimNumber s) n p z = match spec_literal s with ROk v => Some (of_core v) | _ => None end.
Proof. reflexivity. Qed.

Lemma s_primary_function_prefixed a b args n p z :
  s_primary doc ns (PrimFunction (QPrefixed a b) args) n p z = None.
Proof. reflexivity. Qed.

Lemma s_primary_function name args n p z :
  s_primary doc ns (PrimFunction (QUnprefixed name) args) n p z =
  match s_args doc ns args n p z with
  | Some vs => s_call doc name vs n p z
  | None => None
  end.
Proof. reflexivity. Qed.

Lemma s_args_nil n p z : s_args doc ns ExprNil n p z = Some [].
Proof. reflexivity. Qed.

Lemma s_args_cons e t n p z :
  s_args doc ns (ExprCons e t) n p z =
  match s_or doc ns e n p z, s_args doc ns t n p z with
  | Some v, Some vs => Some (v :: vs)
  | _, _ => None
  end.
Proof. reflexivity. Qed.

Lemma s_preds_nil cands : s_preds doc ns ExprNil cands = Some cands.
Proof. reflexivity. Qed.

Lemma s_preds_cons e t cands :
  s_preds doc ns (ExprCons e t) cands =
  match pred_filter (fun x ps sz => match s_or doc ns e x ps sz with
                                    | Some v => Some (pred_truth doc v ps)
                                    | None => None end)
                    cands 1 (N.of_nat (length cands)) with
  | Some r => s_preds doc ns t r
  | None => None
  end.
Proof. reflexivity. Qed.

Lemma s_rel_path_eq' s ops start :
  s_rel_path doc ns (ERelPath s ops) start =
  match opt_flat_map (s_step doc ns s) start with
  | Some r => s_stepops doc ns ops (nodeset doc r)
  | None => None
  end.
Proof. reflexivity. Qed.

Lemma s_stepops_nil' cur : s_stepops doc ns StepopNil cur = Some cur.
Proof. reflexivity. Qed.

Lemma s_stepops_cons' op s t cur :
  s_stepops doc ns (StepopCons op s t) cur =
  match opt_flat_map (s_step doc ns s)
          (match op with
           | LpCurrent => cur
           | LpDescendantOrSelfNode => nodeset doc (flat_map (fun x => x :: s_descendants doc x) cur)
           end) with
  | Some r => s_stepops doc ns t (nodeset doc r)
  | None => None
  end.
Proof. reflexivity. Qed.

Lemma s_step_current' n : s_step doc ns StepCurrent n = Some [n].
Proof. reflexivity. Qed.

Lemma s_step_parent' n :
  s_step doc ns StepParent n = Some (match s_parent doc n with Some q => [q] | None => [] end).
Proof. reflexivity. Qed.

Lemma s_step_test a t preds n :
  s_step doc ns (StepTest a t preds) n =
  match opt_filter (s_test doc ns (axis_of a) t) (s_axis doc (axis_of a) n) with
  | Some cands => s_preds doc ns preds (if is_reverse (axis_of a) then rev cands else cands)
  | None => None
  end.
Proof. reflexivity. Qed.

End SEqs.
