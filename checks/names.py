"""name-syntax half of C18: the name productions of the real parser vs the model (tie) and vs
Name / NCName / QName / Nmtoken / PITarget of the recommendations (failing-input search)."""
import itertools
from . import lib, pegcorr

# representatives of each character class that matters for names
REPS = [0x3A, 0x61, 0x41, 0x5F, 0x31, 0x2D, 0x2E, 0xB7, 0x300, 0xE9, 0x2EFF, 0x2FF0, 0x20, 0x78, 0x6D, 0x6C, 0x58, 0x4D, 0x4C,
        0x203F, 0x37E, 0x10000, 0xF0000, 0x3C]
PRODS = ['name', 'ncname', 'qname', 'nmtoken', 'pi_target', 'prefixed_name']
SPEC_KIND = {'name': 'name', 'ncname': 'ncname', 'qname': 'qname', 'nmtoken': 'nmtoken', 'pi_target': 'pi_target'}

def is_name_char_only_start_bad(s, spec_namechar, spec_namestart):
    return len(s) == 0 or (spec_namechar(s[0]) and not spec_namestart(s[0]))

def check_names(run, okr, okm):
    if not okr:
        return
    rng = run.rng
    strings = [()]
    maxlen = 3 if run.tier == 'quick' else 4
    reps = REPS if run.tier == 'quick' else REPS
    for n in range(1, maxlen + 1):
        if n <= 2:
            strings += list(itertools.product(reps, repeat=n))
        else:
            allc = list(itertools.product(reps, repeat=n))
            k = 4000 if run.tier == 'quick' else 40000
            strings += rng.sample(allc, min(k, len(allc)))
    # name characters from all over the tables, and code points whose low byte or low 16 bits
    # alias a significant ASCII character (truncating casts, byte-wise comparisons)
    wide = set()
    for base in (0x3A, 0x2D, 0x2E, 0x5F, 0x30, 0x41, 0x61, 0x20, 0x3C):
        for hi in (0x100, 0x400, 0x4E00, 0x10000, 0x2C00, 0xF900):
            wide.add(hi + base)
    ranges = [(0xC0, 0x2FF), (0x370, 0x1FFF), (0x2070, 0x218F), (0x2C00, 0x2FEF), (0x3001, 0xD7FF), (0xF900, 0xFDCF),
              (0xFDF0, 0xFFFD), (0x10000, 0xEFFFF), (0x300, 0x36F), (0x203F, 0x2040)]
    for lo, hi in ranges:
        for _ in range(12 if run.tier == 'quick' else 60):
            wide.add(rng.randint(lo, hi))
        wide.update((lo, hi))
    for c in sorted(wide):
        strings += [(0x61, c, 0x62), (c, 0x61), (0x61, 0x3A, c), (c,)]
    # the reserved target in every letter case, with neighbours
    for w in ['xml', 'XML', 'xMl', 'Xml', 'xm', 'x', 'xmlx', 'xml:a', 'a:xml', 'xml-stylesheet', ':', 'a:', ':a', 'a:b:c', 'a::b', 'a:b', 'a:1', '1:a']:
        strings.append(tuple(ord(c) for c in w))
    cases = [(p, list(s), 'names') for p in PRODS for s in strings]
    rust, model = pegcorr.run_cases(run, 'xml', cases) if okm else (lib.run_bin(lib.rust_bin(), ['prod'], ['xml %s %s' % (p, ','.join(map(str, s)) if s else '-') for p, s, _ in cases], shards=8)[1], None)
    spec_lines = ['%s %s' % (SPEC_KIND[p], ','.join(map(str, s)) if s else '-') for p, s, _ in cases if p in SPEC_KIND]
    rc, spec = lib.run_bin(lib.spec_bin('chars'), ['names'], spec_lines, shards=8)
    # class membership of the first character per the specification (for the D04 classifier)
    firsts = sorted({s[0] for _, s, _ in cases if s})
    rc, nc = lib.run_bin(lib.spec_bin('chars'), ['names'], ['nmtoken %d' % c for c in firsts])
    rc, nsc = lib.run_bin(lib.spec_bin('chars'), ['names'], ['name %d' % c for c in firsts])
    is_nc = {c: v == '1' for c, v in zip(firsts, nc)}
    is_nsc = {c: v == '1' for c, v in zip(firsts, nsc)}
    si = 0
    bad_model = 0
    d04 = 0
    for i, (p, s, _) in enumerate(cases):
        r = rust[i] if i < len(rust) else 'crash'
        run.evaluations += 1
        if s:
            run.nontrivial.add(('names', p, tuple(s)))
        accepted = (r == 'ok %d' % len(s))
        if model is not None:
            m = model[i] if i < len(model) else 'crash'
            if m != r:
                bad_model += 1
                if bad_model <= 3:
                    run.tie_breaks.append('names: production %s on %r: implementation %r, model %r' % (p, ''.join(map(chr, s)), r, m))
        if p in SPEC_KIND:
            want = spec[si] == '1' if si < len(spec) else None
            si += 1
            if want is None or accepted == want:
                continue
            known = p in ('name', 'pi_target') and (len(s) == 0 or (is_nc[s[0]] and not is_nsc[s[0]]))
            if known:
                d04 += 1
                continue
            run.failing_inputs.append({'property': 'C18', 'class': 'names:' + p,
                'what': 'production %s %s the string %r, which %s %s' % (p, 'accepts' if accepted else 'rejects', ''.join(map(chr, s)),
                        'is not a' if accepted else 'is a', SPEC_KIND[p]),
                'production': p, 'string': s, 'implementation': r})
    if d04:
        run.known_hits['D04'] = ('production name/pi_target accepts a string whose first character is a NameChar but not a NameStartChar (or the empty string)', d04)
    check_names_in_context(run, okm, [s for s in strings if len(s) <= 2], is_nc, is_nsc)
    run.count('names:cases', len(cases))
    run.sample({'names_productions': PRODS, 'strings': len(strings), 'example': ''.join(map(chr, strings[len(strings) // 2]))})

# the productions that USE a name: (production, text before the name, text after it, kind of name expected there,
# is the position one of finding D04 (served by the production `name`, which accepts NameChar* there))
CONTEXTS = [
    ('empty_entity_tag', '<', '/>', 'qname', False), ('stag', '<', ' a="v">', 'qname', False), ('etag', '</', '>', 'qname', False),
    ('attribute', '', '="v"', 'qname', False), ('att_def', ' ', ' CDATA #IMPLIED', 'qname', False),
    ('attlist_decl', '<!ATTLIST ', ' a CDATA #IMPLIED>', 'qname', False), ('attlist_decl', '<!ATTLIST e ', ' CDATA "d">', 'qname', False),
    ('element_decl', '<!ELEMENT ', ' EMPTY>', 'qname', False), ('mixed', '(#PCDATA|', ')*', 'qname', False),
    ('doctype_decl', '<!DOCTYPE ', '>', 'qname', False), ('enumeration', '(', ')', 'nmtoken', False),
    ('entity_ref', '&', ';', 'name', True), ('pe_reference', '%', ';', 'name', True), ('pi', '<?', ' d?>', 'pi_target', True),
    ('notation_decl', '<!NOTATION ', ' SYSTEM "s">', 'name', True), ('entity_decl', '<!ENTITY ', ' "v">', 'name', True),
    ('notation_type', 'NOTATION (', ')', 'name', True), ('ndata_decl', ' NDATA ', '', 'name', True),
]
LOOKALIKES = ['xmlns', 'xmlnsx', 'xmlns-id', 'xmlns.v', 'xmlns1', 'xmlnsx:y', 'xmlns:a', 'xmlns:', 'xml:lang', 'a:xmlns', 'XMLNS', 'xmln', 'xml',
              'xmlx', 'a:b', 'a:', ':a', 'a:b:c', 'a-b', 'a.b', 'ab', 'a1']

def check_names_in_context(run, okm, strings, is_nc, is_nsc):
    """the same name strings at every place where the grammar uses a name (tags, attributes, attribute-list and
    element declarations, references, PI targets, notation and entity names): the enclosing production consumes the
    whole text iff the string is a name of the kind that place requires"""
    names = list(strings) + [tuple(ord(c) for c in w) for w in LOOKALIKES]
    # the empty name is covered by the productions themselves; white space and '<' around a name belong to the
    # enclosing production (optional S), not to the name
    names = [n for n in names if n and 0x20 not in n and 0x3C not in n]
    cases, meta = [], []
    for prod, pre, post, kind, d04 in CONTEXTS:
        for n in names:
            txt = [ord(c) for c in pre] + list(n) + [ord(c) for c in post]
            cases.append((prod, txt, 'names-in-context')); meta.append((prod, pre, post, kind, d04, n))
    if okm:
        rust, model = pegcorr.run_cases(run, 'xml', cases)
    else:
        rust, model = lib.run_bin(lib.rust_bin(), ['prod'], ['xml %s %s' % (p, ','.join(map(str, s))) for p, s, _ in cases], shards=8)[1], None
    kinds = sorted({m[3] for m in meta} | {'nmtoken'})
    want = {}
    for k in kinds:
        ns = sorted({m[5] for m in meta if m[3] == k or k == 'nmtoken'})
        rc, out = lib.run_bin(lib.spec_bin('chars'), ['names'], ['%s %s' % (k, ','.join(map(str, n))) for n in ns], shards=8)
        for n, o in zip(ns, out):
            want[(k, n)] = (o == '1')
    bad_model = d04n = 0
    for i, ((prod, txt, _), (_, pre, post, kind, d04, n)) in enumerate(zip(cases, meta)):
        r = rust[i] if i < len(rust) else 'crash'
        run.evaluations += 1
        run.nontrivial.add(('names-in-context', prod, pre, n))
        accepted = (r == 'ok %d' % len(txt))
        if model is not None:
            m = model[i] if i < len(model) else 'crash'
            if m != r:
                bad_model += 1
                if bad_model <= 3:
                    run.tie_breaks.append('names in context: production %s on %r: implementation %r, model %r' % (prod, ''.join(map(chr, txt)), r, m))
        w = want.get((kind, n))
        if w is None or accepted == w:
            continue
        if accepted and d04 and n[0] in is_nc and is_nc[n[0]] and not is_nsc[n[0]]:
            # D04 exactly: a string of NameChars (= an Nmtoken) that does not begin with a NameStartChar, at a
            # position served by the production `name`
            if want.get(('nmtoken', n)):
                d04n += 1
                continue
        run.failing_inputs.append({'property': 'C18', 'class': 'names-in-context:' + prod,
            'what': 'production %s %s %r: the name %r %s a %s' % (prod, 'consumes' if accepted else 'does not consume', ''.join(map(chr, txt)),
                    ''.join(map(chr, n)), 'is not' if accepted else 'is', kind),
            'production': prod, 'string': txt, 'name': list(n), 'implementation': r})
    if d04n:
        what, k = run.known_hits.get('D04', ('production name/pi_target accepts a string whose first character is a NameChar but not a NameStartChar (or the empty string)', 0))
        run.known_hits['D04'] = (what, k + d04n)
    run.count('names-in-context:cases', len(cases))

def replay_case(d):
    s = d['string']
    line = 'xml %s %s' % (d['production'], ','.join(map(str, s)) if s else '-')
    for nm, b, dom in (('implementation', lib.rust_bin(), 'prod'), ('model', lib.model_bin('peg'), 'prod')):
        rc, out = lib.run_bin(b, [dom], [line])
        print('%s: %s' % (nm, out))
    if d['production'] in SPEC_KIND:
        rc, out = lib.run_bin(lib.spec_bin('chars'), ['names'], ['%s %s' % (SPEC_KIND[d['production']], ','.join(map(str, s)) if s else '-')])
        print('spec: %s' % out)
