(** * The expanded names of the table of a store are those of Namespaces in XML (C14 bridge)

    [NamesOk] (Proofs/XPathRefinePaths.v; the statement of C10 on a table) for
    [xdoc_of_store F merged s]: the name a row reports ([n_name], computed by Model/StoreView.v the
    way the dom computes [as_expanded_name]: look the prefix -- "xmlns" for none -- up among the
    in-scope namespace nodes by node name) is the name the specification computes from the
    namespace rows of the table ([s_name]).  Holds for every store satisfying the tree invariant
    and the order invariant, with a document element (document types included: the specification
    finds the element of an attribute by [s_parent], which is the parent observation on every
    tree node, [spec_parent] of Proofs/XPathRefineAxes.v).  This removes the hypothesis [NamesOk]
    from the bridge theorems: it is a theorem about the view, for all string facts. *)
From Coq Require Import List NArith Bool Lia.
From XmlRs Require Import Base.CPred.
From XmlRs Require Import Spec.XPathCore Model.XPathAst Model.XDoc Model.XPathEval Spec.XPath10
  Proofs.XPathNav Proofs.XPathCanon Proofs.XPathRefine Proofs.XPathRefineTree Proofs.XPathRefineAxes
  Proofs.XPathRefinePaths.
From XmlRs Require Import Model.Store Model.StoreView
  Proofs.DomBase Proofs.DomTree Proofs.DomNav Proofs.DomOrder
  Proofs.StoreViewBase Proofs.StoreViewWalk Proofs.StoreXDoc Proofs.StoreXDocShape.
Import ListNotations.
Open Scope N_scope.

(** the two string equality tests are the same function *)
Lemma str_eqb_same (a b : str) : XPathCore.str_eqb a b = Store.str_eqb a b.
Proof. reflexivity. Qed.

Lemma find_map_agree {A B C} (g : A -> B) (P : B -> bool) (Q : A -> bool) (D : B -> C) (V : A -> C) (l : list A) :
  (forall x, In x l -> P (g x) = Q x /\ D (g x) = V x) ->
  match find P (map g l) with Some r => Some (D r) | None => None end =
  match find Q l with Some x => Some (V x) | None => None end.
Proof.
  induction l as [|x t IH]; intros H; [reflexivity|]. cbn [map find].
  destruct (H x (or_introl eq_refl)) as [Hp Hd]. rewrite Hp. destruct (Q x); [rewrite Hd; reflexivity|].
  apply IH. intros y Hy. apply H. right. exact Hy.
Qed.

Section Names.
Variable F : sfacts.
Variable merged : bool.
Variable s : store.
Hypothesis T : TreeInv s.

Notation L := (vrows F merged s).
Notation ixk := (ix F merged s).
Notation row := (row_of F merged s).
Notation doc := (xdoc_of_store F merged s).

(** ** what an in-scope entry says is what its row says *)
Definition entry_ok (x : nsent) : Prop :=
  match ne_key x with
  | KNs a => exists ait, get s a = Some ait /\ ns_node_name x = ilocal ait /\ ne_value x = sf_attr F a
  | KXml _ => ns_node_name x = StoreView.s_xml /\ ne_value x = xml_uri
  | KNode _ => False
  end.

Lemma own_entry_ok e x : In x (own_ns F s e) -> entry_ok x.
Proof.
  unfold own_ns. intros H. apply in_flat_map in H. destruct H as [a [_ Hx]].
  destruct (get s a) as [it|] eqn:Ha; [|destruct Hx]. destruct Hx as [<-|[]].
  unfold entry_ok. cbn [ne_key]. exists it. split; [exact Ha|]. split; [|reflexivity].
  unfold ns_node_name. cbn [ne_prefix].
  destruct (Store.str_eqb (ilocal it) Store.s_xmlns) eqn:E; [|reflexivity].
  apply DomBase.str_eqb_eq in E. symmetry. exact E.
Qed.

Lemma rekey_entry_ok e x : entry_ok x -> entry_ok (rekey e x).
Proof.
  unfold entry_ok, rekey. destruct (ne_key x) as [v|a|e'] eqn:K; [intros [] | rewrite K; intros H; exact H|].
  cbn [ne_key]. unfold ns_node_name. cbn [ne_prefix ne_value]. intros H. exact H.
Qed.

Lemma scope_entry_ok f : forall e x, In x (inscope_fuel F s f e) -> entry_ok x.
Proof.
  induction f as [|f IH]; intros e x Hx; [destruct Hx|].
  destruct (scope_cases F s (S f) e x Hx) as [_ [Hown|[->|[f' [p [y [Ef [_ [_ [Hy ->]]]]]]]]]].
  - eapply own_entry_ok. exact Hown.
  - unfold entry_ok, xml_ent. cbn [ne_key]. split; reflexivity.
  - inversion Ef; subst f'. apply rekey_entry_ok. eapply IH. exact Hy.
Qed.

Lemma entry_row x key : entry_ok x -> In (ne_key x) L ->
  (match n_name (getd doc (ixk (ne_key x))) with XName l _ _ => XPathCore.str_eqb l key | _ => false end)
    = Store.str_eqb (ns_node_name x) key /\
  row_data doc (ixk (ne_key x)) = ne_value x.
Proof.
  intros Hok Hin. destruct (node_row_at F merged s _ Hin) as [_ G]. unfold row_data. rewrite G.
  unfold entry_ok in Hok. destruct (ne_key x) as [v|a|e]; [destruct Hok | |]; cbn [row_of n_name n_data].
  - destruct Hok as [ait [Ha [Hn Hv]]]. rewrite Ha, Hn, Hv. split; [apply str_eqb_same | reflexivity].
  - destruct Hok as [Hn Hv]. rewrite Hn, Hv. split; [apply str_eqb_same | reflexivity].
Qed.

(** the namespace bound to a prefix among the namespace rows of an element row *)
Lemma lookup_agrees pre n it post (prefix : option str) :
  L = pre ++ KNode (Plain n) :: post -> get s n = Some it -> ikind it = KEl ->
  ns_lookup_in doc (N.of_nat (length pre)) prefix =
  ns_uri (inscope F s n) (match prefix with Some q => q | None => Store.s_xmlns end).
Proof.
  intros E Hn K. destruct (row_at_split F merged s pre _ post E) as [_ G].
  unfold ns_lookup_in, nss_of, ns_uri. rewrite G. cbn [row_of]. rewrite Hn. cbn [n_nss]. rewrite K.
  assert (Hin : In (KNode (Plain n)) L) by (rewrite E; apply in_elt).
  assert (Hk : has_kind s KEl n = true) by (unfold has_kind; rewrite Hn, K; reflexivity).
  apply (find_map_agree (fun x => ixk (ne_key x))
           (fun r => match n_name (getd doc r) with XName l _ _ => XPathCore.str_eqb l _ | _ => false end)
           (fun x => Store.str_eqb (ns_node_name x) _) (row_data doc) ne_value).
  intros x Hx. apply entry_row.
  - eapply scope_entry_ok. exact Hx.
  - apply (scope_rows F merged s T n x Hin Hk Hx).
Qed.

Lemma norm_key (p : str) :
  match norm_prefix (Some p) with Some q => q | None => Store.s_xmlns end = p.
Proof.
  unfold norm_prefix. destruct (XPathCore.str_eqb p XPath10.s_xmlns) eqn:E; [|reflexivity].
  apply str_eqb_true in E. symmetry. exact E.
Qed.

Lemma row_name_norm i l p u : n_name (getd doc i) = XName l p u -> row_name doc i = Some (l, norm_prefix p).
Proof. intros H. unfold row_name. rewrite H. reflexivity. Qed.

(** ** elements *)
Lemma elem_name_ok pre n it post : L = pre ++ KNode (Plain n) :: post -> get s n = Some it -> ikind it = KEl ->
  match name_of doc (N.of_nat (length pre)) with
  | XName l p u => s_name doc (Row (N.of_nat (length pre))) = Some (l, norm_prefix p, u)
  | _ => False
  end.
Proof.
  intros E Hn K. destruct (row_at_split F merged s pre _ post E) as [_ G].
  assert (Hname : n_name (getd doc (N.of_nat (length pre))) =
                  XName (ilocal it) (Some (match iprefix it with Some p => p | None => Store.s_xmlns end))
                        (ns_uri (inscope F s n) (match iprefix it with Some p => p | None => Store.s_xmlns end))).
  { rewrite G. cbn [row_of]. rewrite Hn. cbn [n_name]. unfold xname_of. rewrite K. reflexivity. }
  unfold name_of. rewrite Hname. unfold s_name.
  assert (Hk : XDoc.kind doc (N.of_nat (length pre)) = KElement).
  { unfold XDoc.kind. rewrite G. cbn [row_of]. rewrite Hn. cbn [n_kind]. rewrite K. reflexivity. }
  rewrite Hk, (row_name_norm _ _ _ _ Hname).
  rewrite (lookup_agrees pre n it post _ E Hn K), norm_key. reflexivity.
Qed.

(** ** every row of the table but the namespace nodes and the document type is a node of the tree *)
Hypothesis HasEl : doc_element s <> None.
Hypothesis O : OrderInv s.

Let Hinv : DocInv doc := view_inv F merged s T HasEl O.
Let Hshape : SpecShape doc := view_shape F merged s T HasEl.

Lemma view_T : forall n i, (N.to_nat i < n)%nat -> valid doc i ->
  XDoc.kind doc i <> KNamespace -> XDoc.kind doc i <> KDocumentType -> XPathRefineTree.T doc i.
Proof.
  induction n as [|n IH]; intros i Hlt V Kn Kd; [lia|].
  destruct (N.eq_dec i doc_root) as [->|Hne]; [apply (T_root doc Hinv Hshape)|].
  destruct (view_has_parent F merged s T i V Kn Hne) as [p Hp].
  destruct (wf_parent doc (inv_wf doc Hinv) i p V Hp) as [Vp Hpi].
  destruct (view_parent_lists F merged s T i p V Kn Hp) as [[Hc Hk]|[Hk Ha]].
  - assert (Tp : XPathRefineTree.T doc p).
    { apply (IH p); [lia | exact Vp | |]; destruct Hk as [-> | ->]; discriminate. }
    apply (T_child doc Hinv Hshape p i Tp). unfold xchildren.
    assert (Hf : In i (filter (fun c => negb (nkind_eqb (XDoc.kind doc c) KDocumentType)) (child_nodes doc p))).
    { apply filter_In. split; [exact Hc|]. destruct (XDoc.kind doc i); try reflexivity. contradiction. }
    destruct Hk as [-> | ->]; exact Hf.
  - assert (Tp : XPathRefineTree.T doc p).
    { apply (IH p); [lia | exact Vp | |]; rewrite Hk; discriminate. }
    apply (T_attr doc Hinv Hshape p i Tp Ha).
Qed.

(** ** attributes *)
Lemma attr_name_ok pre b bit post : L = pre ++ KNode (Plain b) :: post -> get s b = Some bit -> ikind bit = KAt ->
  match name_of doc (N.of_nat (length pre)) with
  | XName l p u => s_name doc (Row (N.of_nat (length pre))) = Some (l, norm_prefix p, u)
  | _ => False
  end.
Proof.
  intros E Hb K. destruct (row_at_split F merged s pre _ post E) as [V G].
  (* the row is listed by an element as one of its attributes *)
  destruct (row_lister F merged s T pre (Plain b) post E) as [[_ Er]|[u [Hu Hv]]].
  { exfalso. inversion Er; subst b. destruct (ti_root s T) as [rit [Hr Kr]]. congruence. }
  destruct u as [e|e]; [|destruct Hv]. cbn [vlisted] in Hv.
  destruct (get s e) as [eit|] eqn:He; [|destruct Hv].
  assert (Hattr : ikind eit = KEl /\ In b (plain_attrs s e)).
  { assert (Hch : In (Plain b) (child_view s merged e) -> False).
    { intros Hc. pose proof (child_view_in merged s e eit _ He Hc) as Hc'. cbn [vid] in Hc'.
      pose proof (ti_child_kind s T e eit b bit He Hc' Hb) as Hok. rewrite K in Hok. destruct (ikind eit); discriminate. }
    destruct (ikind eit) eqn:Ke; try destruct Hv; [exfalso; exact (Hch Hv)|].
    apply in_app_or in Hv. destruct Hv as [Hv|Hv]; [|exfalso; exact (Hch Hv)].
    apply in_map_iff in Hv. destruct Hv as [b' [Eb Hb']]. inversion Eb; subst b'. split; [reflexivity | exact Hb']. }
  destruct Hattr as [Ke Hpa].
  destruct (attr_dom_parent s T e eit b He Hpa) as [Hdp _].
  assert (Hown : owner_element s b = Some e).
  { cbn [dom_parent] in Hdp. rewrite Hb, K in Hdp. exact Hdp. }
  apply in_split in Hu. destruct Hu as [pre1 [post1 Epre]].
  assert (E1 : L = pre1 ++ KNode (Plain e) :: (post1 ++ KNode (Plain b) :: post)).
  { rewrite E, Epre, <- app_assoc. reflexivity. }
  (* the specification finds that element as the parent of the row *)
  assert (Hk : XDoc.kind doc (N.of_nat (length pre)) = KAttribute).
  { unfold XDoc.kind. rewrite G. cbn [row_of]. rewrite Hb. cbn [n_kind]. rewrite K. reflexivity. }
  assert (Hpar : s_parent doc (Row (N.of_nat (length pre))) = Some (Row (N.of_nat (length pre1)))).
  { rewrite (spec_parent doc Hinv Hshape).
    2:{ apply (view_T (S (length pre))); [rewrite Nat2N.id; lia | exact V | rewrite Hk; discriminate | rewrite Hk; discriminate]. }
    unfold XDoc.parent_node. rewrite G, row_parent. cbn [dom_parent]. rewrite Hb, K, Hown. cbn [node_ix option_map].
    rewrite (node_pos F merged s T pre1 _ _ E1). reflexivity. }
  assert (Hname : n_name (getd doc (N.of_nat (length pre))) =
                  match iprefix bit with
                  | None => XName (ilocal bit) (Some Store.s_xmlns) None
                  | Some p => XName (ilocal bit) (Some p) (ns_uri (inscope F s e) p)
                  end).
  { rewrite G. cbn [row_of]. rewrite Hb. cbn [n_name]. unfold xname_of. rewrite K, Hown. reflexivity. }
  unfold name_of. rewrite Hname. unfold s_name. rewrite Hk.
  destruct (iprefix bit) as [p|] eqn:Ep.
  - rewrite (row_name_norm _ _ _ _ Hname).
    assert (Hnp : norm_prefix (Some p) = Some p).
    { unfold norm_prefix. rewrite str_eqb_same.
      unfold plain_attrs in Hpa. apply filter_In in Hpa. destruct Hpa as [_ Hns].
      unfold attr_is_ns in Hns. rewrite Hb in Hns. unfold is_ns in Hns. rewrite Ep in Hns.
      apply negb_true_iff in Hns. apply orb_false_iff in Hns. destruct Hns as [Hns _].
      change XPath10.s_xmlns with Store.s_xmlns. rewrite Hns. reflexivity. }
    rewrite Hnp, Hpar. rewrite (lookup_agrees pre1 e eit _ (Some p) E1 He Ke). reflexivity.
  - rewrite (row_name_norm _ _ _ _ Hname). reflexivity.
Qed.

Theorem view_elem_names : ElemNamesOk doc.
Proof.
  intros i V Hk. destruct (row_at F merged s i V) as [pre [k [post [E [Hl Hr]]]]].
  rewrite (pos_eq pre i Hl) in *.
  unfold XDoc.kind in Hk. rewrite Hr in Hk.
  destruct k as [[n|n]|a|e]; cbn [row_of n_kind] in Hk; try (destruct Hk; discriminate).
  destruct (get s n) as [it|] eqn:Hn; [|destruct Hk; discriminate]. cbn [n_kind] in Hk.
  destruct Hk as [Hk|Hk].
  - apply (elem_name_ok pre n it post E Hn). destruct (ikind it); try discriminate; reflexivity.
  - apply (attr_name_ok pre n it post E Hn). destruct (ikind it); try discriminate; reflexivity.
Qed.

Theorem view_names_ok : NamesOk doc.
Proof. apply view_names. exact view_elem_names. Qed.

End Names.
