//! C16 -- DOM Level 1 CharacterData operations on the real dom crate.
//!
//! case line:   `<kind> <init> <op> [; <op>]*`
//!   kind  = text | comment | cdata | expanded
//!   init  = initial data (decimal code points joined by ',', `-` = empty)
//!   op    = len | sub <off> <cnt> | app <str> | ins <off> <str> | del <off> <cnt>
//!         | rep <off> <cnt> <str> | set <str> | split <off>
//!   numbers are decimal, `M` = usize::MAX, `M-<k>` = usize::MAX - k
//! observation: one group `<result> <data> <following>` per op, groups joined by ` ; `
//!   result    = ok | ok=#<n> | ok=<str> | ok=@<str> (split: data of the new node, `@` when it
//!               is the next sibling of the receiver, `!` otherwise) | IndexSizeErr | InvalidArg
//!               | <other exception> | n/a (operation not offered by the node kind) | panic
//!   data      = data of the receiver after the op
//!   following = data of the siblings that follow the receiver, joined by '/', `.` when none
//! The sequence stops after the first panic (the process would be gone).
//! The node under test is the only child of `<r>`; `expanded` is the merged text view
//! (text + CDATA children seen as one read-only Text node).
use crate::util::{dec, enc};
use std::panic::{catch_unwind, AssertUnwindSafe};
use xml_dom::{
    AsNode, CharacterData, CharacterDataMut, Context, Document, Node, NodeList, TextMut, XmlCDataSection,
    XmlComment, XmlDocument, XmlElement, XmlExpandedText, XmlNode, XmlText,
};

enum Nd {
    Text(XmlText),
    Comment(XmlComment),
    CData(XmlCDataSection),
    Expanded(XmlExpandedText),
}

fn num(w: &str) -> Option<usize> {
    if w == "M" {
        Some(usize::MAX)
    } else if let Some(k) = w.strip_prefix("M-") {
        Some(usize::MAX - k.parse::<usize>().ok()?)
    } else {
        w.parse::<usize>().ok()
    }
}

fn err_name(e: xml_dom::error::Error) -> String {
    match e {
        xml_dom::error::Error::Dom(x) => format!("{:?}", x),
        xml_dom::error::Error::Info(xml_info::error::Error::InvalidData(_)) => "InvalidArg".to_string(),
        xml_dom::error::Error::Info(xml_info::error::Error::Parse(_)) => "InvalidArg".to_string(),
        xml_dom::error::Error::Info(x) => {
            let s = format!("{:?}", x);
            format!("Info{}", s.split('(').next().unwrap_or(""))
        }
        xml_dom::error::Error::Parse(_) => "ParseErr".to_string(),
    }
}

fn data_of(n: &Nd) -> String {
    match n {
        Nd::Text(t) => t.data(),
        Nd::Comment(t) => t.data(),
        Nd::CData(t) => t.data(),
        Nd::Expanded(t) => t.data(),
    }
    .unwrap_or_else(|_| "?".to_string())
}

fn id_of(n: &Nd) -> usize {
    match n {
        Nd::Text(t) => t.as_node().id(),
        Nd::Comment(t) => t.as_node().id(),
        Nd::CData(t) => t.as_node().id(),
        Nd::Expanded(t) => t.as_node().id(),
    }
}

/// build `<r>NODE</r>` and return the root and the node under test holding `init`
fn setup(kind: &str, init: &str) -> Option<(XmlDocument, XmlElement, Nd)> {
    let direct = match kind {
        "text" => format!("<r>{}</r>", init),
        "comment" => format!("<r><!--{}--></r>", init),
        "cdata" => format!("<r><![CDATA[{}]]></r>", init),
        "expanded" => {
            let cs: Vec<char> = init.chars().collect();
            let (a, b) = cs.split_at(cs.len() / 2);
            format!(
                "<r>{}<![CDATA[{}]]></r>",
                a.iter().collect::<String>(),
                b.iter().collect::<String>()
            )
        }
        _ => return None,
    };
    let placeholder = match kind {
        "text" => "<r>x</r>",
        "comment" => "<r><!--x--></r>",
        "cdata" => "<r><![CDATA[x]]></r>",
        _ => "",
    };
    let ctx = || Context::from_text_expanded(kind == "expanded");
    let pick = |doc: &XmlDocument| -> Option<(XmlElement, Nd)> {
        let root = doc.document_element().ok()?;
        let kids = root.child_nodes();
        if kids.length() != 1 {
            return None;
        }
        let k = kids.item(0)?;
        let nd = match kind {
            "text" => Nd::Text(k.as_text()?),
            "comment" => Nd::Comment(k.as_comment()?),
            "cdata" => Nd::CData(k.as_cdata()?),
            _ => Nd::Expanded(k.as_expanded_text()?),
        };
        Some((root, nd))
    };
    // 1. the initial data written in the document text itself
    if !(kind == "text" && init.is_empty()) {
        if let Ok(("", doc)) = XmlDocument::from_raw_with_context(direct.as_str(), ctx()) {
            if let Some((root, nd)) = pick(&doc) {
                if data_of(&nd) == init {
                    return Some((doc, root, nd));
                }
            }
        }
    }
    // 2. a placeholder node whose data is then replaced
    if placeholder.is_empty() {
        return None;
    }
    let (_, doc) = XmlDocument::from_raw_with_context(placeholder, ctx()).ok()?;
    let (root, nd) = pick(&doc)?;
    let r = match &nd {
        Nd::Text(t) => t.set_data(init),
        Nd::Comment(t) => t.set_data(init),
        Nd::CData(t) => t.set_data(init),
        Nd::Expanded(_) => return None,
    };
    if r.is_err() || data_of(&nd) != init {
        return None;
    }
    Some((doc, root, nd))
}

fn unit(r: xml_dom::error::Result<()>) -> String {
    match r {
        Ok(()) => "ok".to_string(),
        Err(e) => err_name(e),
    }
}

fn string(r: xml_dom::error::Result<String>) -> String {
    match r {
        Ok(s) => format!("ok={}", enc(s.as_str())),
        Err(e) => err_name(e),
    }
}

fn apply(root: &XmlElement, nd: &Nd, w: &[&str]) -> Option<String> {
    let s = |i: usize| -> Option<String> { dec(w.get(i)?) };
    let n = |i: usize| -> Option<usize> { num(w.get(i)?) };
    macro_rules! read {
        ($t:expr) => {
            match w[0] {
                "len" => return Some(format!("ok=#{}", $t.length())),
                "sub" => return Some(string($t.substring_data(n(1)?, n(2)?))),
                _ => {}
            }
        };
    }
    macro_rules! write {
        ($t:expr) => {
            match w[0] {
                "app" => return Some(unit($t.append_data(s(1)?.as_str()))),
                "ins" => return Some(unit($t.insert_data(n(1)?, s(2)?.as_str()))),
                "del" => return Some(unit($t.delete_data(n(1)?, n(2)?))),
                "rep" => return Some(unit($t.replace_data(n(1)?, n(2)?, s(3)?.as_str()))),
                "set" => return Some(unit($t.set_data(s(1)?.as_str()))),
                _ => {}
            }
        };
    }
    macro_rules! split {
        ($t:expr) => {
            if w[0] == "split" {
                return Some(match $t.split_text(n(1)?) {
                    Ok(t2) => {
                        let new_id = t2.as_node().id();
                        let next = $t.next_sibling().map(|x| x.id());
                        let second = root.child_nodes().item(1).map(|x| x.id());
                        let adjacent = next == Some(new_id) && second == Some(new_id);
                        format!(
                            "ok={}{}",
                            if adjacent { "@" } else { "!" },
                            enc(t2.data().unwrap_or_default().as_str())
                        )
                    }
                    Err(e) => err_name(e),
                });
            }
        };
    }
    match nd {
        Nd::Text(t) => {
            read!(t);
            write!(t);
            split!(t);
        }
        Nd::Comment(t) => {
            read!(t);
            write!(t);
        }
        Nd::CData(t) => {
            read!(t);
            write!(t);
            split!(t);
        }
        Nd::Expanded(t) => {
            read!(t);
        }
    }
    match w[0] {
        "len" | "sub" | "app" | "ins" | "del" | "rep" | "set" | "split" => Some("n/a".to_string()),
        _ => None,
    }
}

fn following(root: &XmlElement, nd: &Nd) -> String {
    let kids = root.child_nodes();
    let mut out: Vec<String> = Vec::new();
    let first_ok = kids.item(0).map(|k| k.id()) == Some(id_of(nd));
    for i in 1..kids.length() {
        if let Some(k) = kids.item(i) {
            out.push(enc(k.node_value().ok().flatten().unwrap_or_default().as_str()));
        }
    }
    let body = if out.is_empty() { ".".to_string() } else { out.join("/") };
    if first_ok {
        body
    } else {
        format!("!first{}", body)
    }
}

pub fn case(line: &str) -> String {
    let words: Vec<&str> = line.split(' ').filter(|w| !w.is_empty()).collect();
    if words.len() < 3 {
        return "badinput".to_string();
    }
    let init = match dec(words[1]) {
        Some(s) => s,
        None => return "badinput".to_string(),
    };
    let kind = words[0];
    let built = catch_unwind(AssertUnwindSafe(|| setup(kind, init.as_str())));
    let (_doc, root, nd) = match built {
        Ok(Some(x)) => x,
        Ok(None) => return "badinit".to_string(),
        Err(_) => return "badinit-panic".to_string(),
    };
    let mut groups: Vec<String> = Vec::new();
    for opw in words[2..].split(|w| *w == ";") {
        if opw.is_empty() {
            return "badinput".to_string();
        }
        let r = catch_unwind(AssertUnwindSafe(|| apply(&root, &nd, opw)));
        match r {
            Ok(Some(res)) => {
                let obs = catch_unwind(AssertUnwindSafe(|| {
                    format!("{} {} {}", res, enc(data_of(&nd).as_str()), following(&root, &nd))
                }));
                match obs {
                    Ok(s) => groups.push(s),
                    Err(_) => {
                        groups.push(format!("{} panic-in-observation", res));
                        break;
                    }
                }
            }
            Ok(None) => return "badinput".to_string(),
            Err(_) => {
                groups.push("panic".to_string());
                break;
            }
        }
    }
    groups.join(" ; ")
}
