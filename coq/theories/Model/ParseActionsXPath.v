(** * From the generic parse tree of [G_xpath] to the AST of xpath/src/expr/model.rs.

    [Peg.denote G_xpath] returns an untyped [tree] in which every [map(p, f)] of the Rust
    grammar left a node [TMap label t]: [label] is the constant that translator T2 generated
    for [f] ([L_model_Step_from] for [model::Step::from], [L_closure_<hash>] for a closure).
    [act] evaluates such a tree bottom-up: every label is interpreted as the Rust function it
    names, acting on dynamically typed values [val] (one constructor per Rust type that occurs
    in the grammar).  Rust resolves the overloaded [From::from] by the static type of the
    argument; here the same resolution is done on the constructor of the argument value.

    The labels are referred to BY NAME ([Gen.GrammarXPathGen.L_...]): when a closure of
    xpath/src/expr/mod.rs is edited, T2 gives it another name and this file stops compiling,
    i.e. the tie to the source is visibly broken instead of silently stale.

    [unreachable!()] in the [From<&str>] impls of the operator / axis / node-type enums is
    [VPanic]; an argument of a type the Rust function does not accept (impossible for a tree
    produced by [G_xpath], reported by the correspondence check if it ever happens) is [VBad].

    No proofs here. *)
From Coq Require Import List NArith Bool.
From XmlRs Require Import Base.CPred Model.Peg Model.XPathAst Gen.GrammarXPathGen.
Import ListNotations.
Local Open Scope N_scope.

(** ** the literal strings the [From<&str>] impls match on *)
Definition s_ancestor : str := [97;110;99;101;115;116;111;114].
Definition s_ancestor_or_self : str := [97;110;99;101;115;116;111;114;45;111;114;45;115;101;108;102].
Definition s_attribute : str := [97;116;116;114;105;98;117;116;101].
Definition s_child : str := [99;104;105;108;100].
Definition s_descendant : str := [100;101;115;99;101;110;100;97;110;116].
Definition s_descendant_or_self : str := [100;101;115;99;101;110;100;97;110;116;45;111;114;45;115;101;108;102].
Definition s_following : str := [102;111;108;108;111;119;105;110;103].
Definition s_following_sibling : str := [102;111;108;108;111;119;105;110;103;45;115;105;98;108;105;110;103].
Definition s_namespace : str := [110;97;109;101;115;112;97;99;101].
Definition s_parent : str := [112;97;114;101;110;116].
Definition s_preceding : str := [112;114;101;99;101;100;105;110;103].
Definition s_preceding_sibling : str := [112;114;101;99;101;100;105;110;103;45;115;105;98;108;105;110;103].
Definition s_self : str := [115;101;108;102].
Definition s_comment : str := [99;111;109;109;101;110;116].
Definition s_text : str := [116;101;120;116].
Definition s_processing_instruction : str := [112;114;111;99;101;115;115;105;110;103;45;105;110;115;116;114;117;99;116;105;111;110].
Definition s_node : str := [110;111;100;101].
Definition s_slash : str := [47].
Definition s_dslash : str := [47;47].
Definition s_eq : str := [61].
Definition s_ne : str := [33;61].
Definition s_lt : str := [60].
Definition s_gt : str := [62].
Definition s_le : str := [60;61].
Definition s_ge : str := [62;61].
Definition s_plus : str := [43].
Definition s_minus : str := [45].
Definition s_star : str := [42].
Definition s_div : str := [100;105;118].
Definition s_mod : str := [109;111;100].

Fixpoint str_eqb (a b : str) : bool :=
  match a, b with
  | [], [] => true
  | x :: a', y :: b' => N.eqb x y && str_eqb a' b'
  | _, _ => false
  end.

(** ** dynamically typed values *)
Inductive val :=
| VStr (s : str) | VPair (a b : val) | VList (l : list val) | VNone | VSome (v : val)
| VPrefixed (p l : str) | VQName (q : qname)
| VLpOp (o : lp_op) | VEqOp (o : eq_op) | VRelOp (o : rel_op) | VAddOp (o : add_op) | VMulOp (o : mul_op)
| VAxisName (a : axis_name) | VAxisSpec (a : axis_spec)
| VNodeType (t : node_type) | VNameTest (t : name_test) | VNodeTest (t : node_test)
| VStep (s : step) | VRelPath (p : rel_path)
| VPrimary (p : primary_expr) | VCall (name : qname) (args : expr_list)
| VFilter (f : filter_expr) | VPath (p : path_expr) | VUnion (u : union_expr)
| VUnary (u : unary_expr) | VMul (m : mul_expr) | VAdd (a : add_expr) | VRel (r : rel_expr)
| VEq (e : eq_expr) | VAnd (a : and_expr) | VOr (o : or_expr)
| VPanic                 (* unreachable!() reached *)
| VBad.                  (* ill-typed application: not a tree of G_xpath *)

(** ** [Vec<T>] arguments *)
Fixpoint to_exprs (l : list val) : option expr_list :=
  match l with
  | [] => Some ExprNil
  | VOr e :: t => match to_exprs t with Some r => Some (ExprCons e r) | None => None end
  | _ => None
  end.

Fixpoint to_paths (l : list val) : option path_list :=
  match l with
  | [] => Some PathNil
  | VPath p :: t => match to_paths t with Some r => Some (PathCons p r) | None => None end
  | _ => None
  end.

Fixpoint to_ands (l : list val) : option and_list :=
  match l with
  | [] => Some AndNil
  | VAnd a :: t => match to_ands t with Some r => Some (AndCons a r) | None => None end
  | _ => None
  end.

Fixpoint to_eqs (l : list val) : option eq_list :=
  match l with
  | [] => Some EqNil
  | VEq a :: t => match to_eqs t with Some r => Some (EqCons a r) | None => None end
  | _ => None
  end.

Fixpoint to_stepops (l : list val) : option stepop_list :=
  match l with
  | [] => Some StepopNil
  | VPair (VLpOp o) (VStep s) :: t => match to_stepops t with Some r => Some (StepopCons o s r) | None => None end
  | _ => None
  end.

Fixpoint to_eqops (l : list val) : option eqop_list :=
  match l with
  | [] => Some EqopNil
  | VPair (VEqOp o) (VRel e) :: t => match to_eqops t with Some r => Some (EqopCons o e r) | None => None end
  | _ => None
  end.

Fixpoint to_relops (l : list val) : option relop_list :=
  match l with
  | [] => Some RelopNil
  | VPair (VRelOp o) (VAdd e) :: t => match to_relops t with Some r => Some (RelopCons o e r) | None => None end
  | _ => None
  end.

Fixpoint to_addops (l : list val) : option addop_list :=
  match l with
  | [] => Some AddopNil
  | VPair (VAddOp o) (VMul e) :: t => match to_addops t with Some r => Some (AddopCons o e r) | None => None end
  | _ => None
  end.

Fixpoint to_mulops (l : list val) : option mulop_list :=
  match l with
  | [] => Some MulopNil
  | VPair (VMulOp o) (VUnary e) :: t => match to_mulops t with Some r => Some (MulopCons o e r) | None => None end
  | _ => None
  end.

Definition opt_val {A} (o : option A) (f : A -> val) : val :=
  match o with Some a => f a | None => VBad end.

(** ** the [From<&str>] impls with an [unreachable!()] arm *)
Definition axis_name_from (s : str) : val :=
  if str_eqb s s_ancestor then VAxisName AxAncestor
  else if str_eqb s s_ancestor_or_self then VAxisName AxAncestorOrSelf
  else if str_eqb s s_attribute then VAxisName AxAttribute
  else if str_eqb s s_child then VAxisName AxChild
  else if str_eqb s s_descendant then VAxisName AxDescendant
  else if str_eqb s s_descendant_or_self then VAxisName AxDescendantOrSelf
  else if str_eqb s s_following then VAxisName AxFollowing
  else if str_eqb s s_following_sibling then VAxisName AxFollowingSibling
  else if str_eqb s s_namespace then VAxisName AxNamespace
  else if str_eqb s s_parent then VAxisName AxParent
  else if str_eqb s s_preceding then VAxisName AxPreceding
  else if str_eqb s s_preceding_sibling then VAxisName AxPrecedingSibling
  else if str_eqb s s_self then VAxisName AxCurrent
  else VPanic.

Definition node_type_from (s : str) : val :=
  if str_eqb s s_comment then VNodeType NtComment
  else if str_eqb s s_text then VNodeType NtText
  else if str_eqb s s_processing_instruction then VNodeType NtPI
  else if str_eqb s s_node then VNodeType NtNode
  else VPanic.

Definition lp_op_from (s : str) : val :=
  if str_eqb s s_slash then VLpOp LpCurrent
  else if str_eqb s s_dslash then VLpOp LpDescendantOrSelfNode
  else VPanic.

Definition eq_op_from (s : str) : val :=
  if str_eqb s s_eq then VEqOp OpEqual
  else if str_eqb s s_ne then VEqOp OpNotEqual
  else VPanic.

Definition rel_op_from (s : str) : val :=
  if str_eqb s s_lt then VRelOp OpLessThan
  else if str_eqb s s_gt then VRelOp OpGreaterThan
  else if str_eqb s s_le then VRelOp OpLessEqual
  else if str_eqb s s_ge then VRelOp OpGreaterEqual
  else VPanic.

Definition add_op_from (s : str) : val :=
  if str_eqb s s_plus then VAddOp OpAdd
  else if str_eqb s s_minus then VAddOp OpSub
  else VPanic.

Definition mul_op_from (s : str) : val :=
  if str_eqb s s_star then VMulOp OpMul
  else if str_eqb s s_div then VMulOp OpDiv
  else if str_eqb s s_mod then VMulOp OpMod
  else VPanic.

(** ** one definition per function given to [map] *)

(* xml_nom::model::QName::from: From<PrefixedName> and From<&str> *)
Definition f_qname_from (v : val) : val :=
  match v with
  | VPrefixed p l => VQName (QPrefixed p l)
  | VStr s => VQName (QUnprefixed s)
  | _ => VBad
  end.

(* xml_nom::model::PrefixedName::from: From<(&str, &str)> *)
Definition f_prefixed_name_from (v : val) : val :=
  match v with
  | VPair (VStr p) (VStr l) => VPrefixed p l
  | _ => VBad
  end.

(* RelativeLocationPath: From<(Step, Vec<(LocationPathOperator, Step)>)> *)
Definition f_rel_path_from (v : val) : val :=
  match v with
  | VPair (VStep s) (VList l) => opt_val (to_stepops l) (fun ops => VRelPath (ERelPath s ops))
  | _ => VBad
  end.

Definition f_lp_op_from (v : val) : val := match v with VStr s => lp_op_from s | _ => VBad end.

(* Step: From<(AxisSpecifier, NodeTest, Vec<Expr>)> *)
Definition f_step_from (v : val) : val :=
  match v with
  | VPair (VAxisSpec a) (VPair (VNodeTest t) (VList l)) =>
      opt_val (to_exprs l) (fun ps => VStep (StepTest a t ps))
  | _ => VBad
  end.

Definition f_axis_spec_from (v : val) : val :=
  match v with VAxisName a => VAxisSpec (AxisName a) | _ => VBad end.

(* |v| if let Some(at) = v { Abbreviated(at.to_string()) } else { Abbreviated("".to_string()) } *)
Definition f_axis_abbrev (v : val) : val :=
  match v with
  | VSome (VStr at_) => VAxisSpec (AxisAbbreviated at_)
  | VNone => VAxisSpec (AxisAbbreviated [])
  | _ => VBad
  end.

Definition f_axis_name_from (v : val) : val := match v with VStr s => axis_name_from s | _ => VBad end.

(* NodeTest: From<&str> (PI literal), From<NodeType>, From<NameTest> *)
Definition f_node_test_from (v : val) : val :=
  match v with
  | VStr s => VNodeTest (TestPI s)
  | VNodeType t => VNodeTest (TestType t)
  | VNameTest t => VNodeTest (TestName t)
  | _ => VBad
  end.

(* PrimaryExpr: From<QName> (variable), From<Expr>, From<&str> (literal), From<FunctionCall> *)
Definition f_primary_from (v : val) : val :=
  match v with
  | VQName q => VPrimary (PrimVariable q)
  | VOr e => VPrimary (PrimExpr e)
  | VStr s => VPrimary (PrimLiteral s)
  | VCall n a => VPrimary (PrimFunction n a)
  | _ => VBad
  end.

Definition f_primary_number (v : val) : val :=
  match v with VStr s => VPrimary (PrimNumber s) | _ => VBad end.

(* FunctionCall: From<(QName, Vec<Argument>)> *)
Definition f_function_call_from (v : val) : val :=
  match v with
  | VPair (VQName n) (VList l) => opt_val (to_exprs l) (fun a => VCall n a)
  | _ => VBad
  end.

(* UnionExpr: From<Vec<PathExpr>> *)
Definition f_union_from (v : val) : val :=
  match v with
  | VList l => opt_val (to_paths l) (fun ps => VUnion (EUnion ps))
  | _ => VBad
  end.

(* |(filter, rest)| match rest { Some((op, path)) => PathExpr::from((Some((Some(filter), op)), path)),
                                 None => PathExpr::from(filter) } *)
Definition f_path_filter (v : val) : val :=
  match v with
  | VPair (VFilter f) (VSome (VPair (VLpOp o) (VRelPath p))) => VPath (PFilterPath f o p)
  | VPair (VFilter f) VNone => VPath (PFilter f)
  | _ => VBad
  end.

(* PathExpr: From<RelativeLocationPath> (From<FilterExpr> is no longer used by the grammar) *)
Definition f_path_from (v : val) : val :=
  match v with
  | VRelPath p => VPath (PRel p)
  | VFilter f => VPath (PFilter f)
  | _ => VBad
  end.

(* |(op, path)| PathExpr::from((Some((None, op)), path)) *)
Definition f_path_abs (v : val) : val :=
  match v with
  | VPair (VLpOp o) (VRelPath p) => VPath (PAbs o p)
  | _ => VBad
  end.

(* FilterExpr: From<(PrimaryExpr, Vec<PredicateExpr>)> *)
Definition f_filter_from (v : val) : val :=
  match v with
  | VPair (VPrimary p) (VList l) => opt_val (to_exprs l) (fun ps => VFilter (EFilter p ps))
  | _ => VBad
  end.

(* OrExpr: From<Vec<AndExpr>>; separated_list1 never returns an empty vector *)
Definition f_or_from (v : val) : val :=
  match v with
  | VList (VAnd a :: t) => opt_val (to_ands t) (fun r => VOr (EOr a r))
  | _ => VBad
  end.

Definition f_and_from (v : val) : val :=
  match v with
  | VList (VEq a :: t) => opt_val (to_eqs t) (fun r => VAnd (EAnd a r))
  | _ => VBad
  end.

Definition f_eq_from (v : val) : val :=
  match v with
  | VPair (VRel r) (VList l) => opt_val (to_eqops l) (fun ops => VEq (EEq r ops))
  | _ => VBad
  end.

Definition f_eq_op_from (v : val) : val := match v with VStr s => eq_op_from s | _ => VBad end.

Definition f_rel_from (v : val) : val :=
  match v with
  | VPair (VAdd a) (VList l) => opt_val (to_relops l) (fun ops => VRel (ERel a ops))
  | _ => VBad
  end.

Definition f_rel_op_from (v : val) : val := match v with VStr s => rel_op_from s | _ => VBad end.

Definition f_add_from (v : val) : val :=
  match v with
  | VPair (VMul m) (VList l) => opt_val (to_addops l) (fun ops => VAdd (EAdd m ops))
  | _ => VBad
  end.

Definition f_add_op_from (v : val) : val := match v with VStr s => add_op_from s | _ => VBad end.

Definition f_mul_from (v : val) : val :=
  match v with
  | VPair (VUnary u) (VList l) => opt_val (to_mulops l) (fun ops => VMul (EMul u ops))
  | _ => VBad
  end.

Definition f_mul_op_from (v : val) : val := match v with VStr s => mul_op_from s | _ => VBad end.

(* UnaryExpr: From<(Vec<&str>, UnionExpr)>; only the number of signs is observable *)
Definition f_unary_from (v : val) : val :=
  match v with
  | VPair (VList signs) (VUnion u) => VUnary (EUnary (N.of_nat (length signs)) u)
  | _ => VBad
  end.

(* NameTest: From<&str> for the form prefix-colon-star, From<QName> *)
Definition f_name_test_from (v : val) : val :=
  match v with
  | VStr s => VNameTest (NameNamespace s)
  | VQName q => VNameTest (NameQName q)
  | _ => VBad
  end.

Definition f_node_type_from (v : val) : val := match v with VStr s => node_type_from s | _ => VBad end.

(** a panic or a type error anywhere inside a tuple / vector aborts the whole evaluation *)
Definition poisoned (v : val) : option val :=
  match v with VPanic => Some VPanic | VBad => Some VBad | _ => None end.

(** ** dispatch on the generated label constants *)
Definition apply_label (l : N) (v : val) : val :=
  match poisoned v with
  | Some p => p
  | None =>
  if N.eqb l L_model_QName_from then f_qname_from v
  else if N.eqb l L_QName_from then f_qname_from v
  else if N.eqb l L_model_PrefixedName_from then f_prefixed_name_from v
  else if N.eqb l L_PrefixedName_from then f_prefixed_name_from v
  else if N.eqb l L_model_RelativeLocationPath_from then f_rel_path_from v
  else if N.eqb l L_model_LocationPathOperator_from then f_lp_op_from v
  else if N.eqb l L_closure_999d9613 then VStep StepParent
  else if N.eqb l L_closure_f049d213 then VStep StepCurrent
  else if N.eqb l L_model_Step_from then f_step_from v
  else if N.eqb l L_model_AxisSpecifier_from then f_axis_spec_from v
  else if N.eqb l L_closure_15b815f9 then f_axis_abbrev v
  else if N.eqb l L_model_AxisName_from then f_axis_name_from v
  else if N.eqb l L_model_NodeTest_from then f_node_test_from v
  else if N.eqb l L_model_PrimaryExpr_from then f_primary_from v
  else if N.eqb l L_model_PrimaryExpr_number then f_primary_number v
  else if N.eqb l L_model_FunctionCall_from then f_function_call_from v
  else if N.eqb l L_model_UnionExpr_from then f_union_from v
  else if N.eqb l L_closure_dae0d720 then f_path_filter v
  else if N.eqb l L_model_PathExpr_from then f_path_from v
  else if N.eqb l L_closure_1402352e then f_path_abs v
  else if N.eqb l L_closure_be3a7f28 then VPath PRoot
  else if N.eqb l L_model_FilterExpr_from then f_filter_from v
  else if N.eqb l L_model_OrExpr_from then f_or_from v
  else if N.eqb l L_model_AndExpr_from then f_and_from v
  else if N.eqb l L_model_EqualityExpr_from then f_eq_from v
  else if N.eqb l L_model_EqualityOperator_from then f_eq_op_from v
  else if N.eqb l L_model_RelationalExpr_from then f_rel_from v
  else if N.eqb l L_model_RelationalOperator_from then f_rel_op_from v
  else if N.eqb l L_model_AdditiveExpr_from then f_add_from v
  else if N.eqb l L_model_AdditiveOperator_from then f_add_op_from v
  else if N.eqb l L_model_MultiplicativeExpr_from then f_mul_from v
  else if N.eqb l L_model_MultiplicativeOperator_from then f_mul_op_from v
  else if N.eqb l L_model_UnaryExpr_from then f_unary_from v
  else if N.eqb l L_closure_f9ed0828 then VNameTest NameAll
  else if N.eqb l L_model_NameTest_from then f_name_test_from v
  else if N.eqb l L_model_NodeType_from then f_node_type_from v
  else VBad
  end.

Fixpoint first_poison (l : list val) : option val :=
  match l with
  | [] => None
  | v :: t => match poisoned v with Some p => Some p | None => first_poison t end
  end.

Fixpoint act (t : tree) : val :=
  match t with
  | TStr s => VStr s
  | TPair a b =>
      let x := act a in
      match poisoned x with
      | Some p => p
      | None => let y := act b in match poisoned y with Some p => p | None => VPair x y end
      end
  | TList l => let vs := map act l in match first_poison vs with Some p => p | None => VList vs end
  | TNone => VNone
  | TSome a => let x := act a in match poisoned x with Some p => p | None => VSome x end
  | TMap l a => apply_label l (act a)
  end.

(** ** the parser of xml_xpath::expr, as observed through [expr::parse] *)
Inductive presult :=
| POk (e : expr) (rest : str)
| PErr                     (* nom error: Err(..) *)
| PPanic                   (* unreachable!() *)
| POof                     (* impossible: GrammarTermination.xpath_grammar_terminates *)
| PBad.                    (* impossible for well-typed Rust: the tree does not fit the labels *)

Definition run_expr (s : str) : res (tree * str) := run G_xpath G_xpath_R nt_expr s.

Definition parse_expr (s : str) : presult :=
  match run_expr s with
  | Ok (t, r) =>
      match act t with
      | VOr e => POk e r
      | VPanic => PPanic
      | _ => PBad
      end
  | Fail => PErr
  | Oof => POof
  end.
