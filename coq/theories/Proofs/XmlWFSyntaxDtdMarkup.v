(** * C02, rungs 2 and 3 for documents whose declared internal general entities may contain MARKUP
    ([markup_ent] of Proofs/XmlWFSyntaxEntMarkup.v): the conditional theorem
    [accepted_wf_markup].  The subset / element / document lemmas are those of
    Proofs/XmlWFSyntaxDtdFull.v with the reference lemmas of the markup case. *)
From Coq Require Import List NArith Arith Lia Bool.
From XmlRs Require Import Base.CPred Spec.XmlChars Model.Peg Gen.XmlcharGen Gen.GrammarXmlGen Model.ParseActions Model.Info Model.Display
     Proofs.XmlcharProofs Proofs.PegTermination Proofs.PegLemmas Proofs.PegInv Proofs.Expansion Proofs.PipelineTotal
     Proofs.DisplayLex Proofs.ActionLemmas Proofs.DisplayElem Proofs.DisplayDoc Proofs.DisplayDtd
     Proofs.ParseInv Proofs.ParseInvElem Proofs.ParseInvBuild Proofs.ParseInvDtd Proofs.ParseInvDoc
     Proofs.XmlWFSyntaxLex Proofs.XmlWFSyntaxElem Proofs.XmlWFSyntaxDoc Proofs.XmlWFSyntaxCheck
     Proofs.XmlWFSyntaxDtd Proofs.XmlWFSyntaxDtdElem Proofs.XmlWFSyntaxDtdDoc Proofs.XmlWFSyntaxDtdCheck Proofs.XmlWFSyntaxEntRec
     Proofs.XmlWFSyntaxDtdFull Proofs.XmlWFSyntaxEntMarkup.
From XmlRs Require Spec.XmlWF.
Import ListNotations.
Local Open Scope N_scope.

(** ** the pieces of the entity values that XmlDocument::new built *)
Lemma built_pieces_wf (lv : list entity_value) q : forall b, p_ev_ok q b lv -> check_entity_values lv = IOk tt ->
  Forall piece_wf (map build_ent_value lv).
Proof.
  induction lv as [|v lv IH]; intros b Hok Hc; [constructor|]. cbn [check_entity_values] in Hc.
  destruct v as [s|s|[num r|n]]; cbn [p_ev_ok map build_ent_value] in *; try discriminate Hc.
  - destruct Hok as [_ [_ [Hs Hok]]]. constructor; [|eapply IH; eassumption]. cbn [piece_wf].
    revert Hs. apply forallb_impl. intros c Hc0. rewrite is_char_except_equiv in Hc0. apply andb_prop in Hc0. destruct Hc0 as [H1 H2].
    rewrite isChar_eval, is_char_equiv, H1. cbn [andb]. apply negb_true_iff in H2. cbn [existsb] in H2.
    apply orb_false_elim in H2. destruct H2 as [_ H2]. apply orb_false_elim in H2. destruct H2 as [H2 _]. rewrite H2. reflexivity.
  - destruct Hok as [Hrf Hok]. apply ibind_ok in Hc. destruct Hc as [c [Hcf Hc]]. destruct (char_from_spec _ _ _ Hrf Hcf) as [E Hch].
    constructor; [|eapply IH; eassumption]. cbn [piece_wf]. split; [exact Hrf|]. destruct r; cbn [radix_n] in *; rewrite E; exact Hch.
  - destruct Hok as [_ Hok]. constructor; [exact I|eapply IH; eassumption].
Qed.

Lemma gents_wf ext (l : list int_subset) : forall acc r, build_subset false ext acc l = IOk r -> Forall is_ok l ->
  forall e, In e (gents l) -> Forall piece_wf (values_of e).
Proof.
  induction l as [|x l IH]; intros acc r Hb Hinv e Hin; [destruct Hin|]. inversion Hinv as [|? ? Hx Hinv']. subst. cbn [build_subset] in Hb.
  destruct x as [[d|d|[n d|n d]|d|p|s]|n|s]; try discriminate Hb; cbn [gents flat_map app] in Hin; fold (gents l) in Hin.
  - eapply IH; eassumption.
  - apply ibind_ok in Hb. destruct Hb as [a [_ Hb]]. apply ibind_ok in Hb. destruct Hb as [r' [Hr' _]]. eapply IH; eassumption.
  - apply ibind_ok in Hb. destruct Hb as [[] [Hc Hb]]. apply ibind_ok in Hb. destruct Hb as [r' [Hr' _]].
    destruct Hin as [<-|Hin]; [|eapply IH; eassumption].
    cbn [is_ok markup_ok] in Hx. destruct Hx as [_ [_ Hdef]]. destruct d as [lv|xid nd]; cbn [build_entity values_of en_values]; [|constructor].
    cbn [p_entity_def_ok] in Hdef. destruct Hdef as [q [_ Hq]]. eapply built_pieces_wf; [exact Hq|exact Hc].
  - apply ibind_ok in Hb. destruct Hb as [r' [Hr' _]]. eapply IH; eassumption.
  - apply ibind_ok in Hb. destruct Hb as [r' [Hr' _]]. eapply IH; eassumption.
  - eapply IH; eassumption.
  - eapply IH; eassumption.
Qed.

(** ** the internal subset, in order *)
Lemma m_defaults_ok ext f acc sp (defs : list att_def) : forall r,
  sp_rel sp acc -> forallb markup_ent acc = true -> (forall e0, In e0 acc -> en_values e0 = None -> en_system e0 <> None) ->
  (forall e0, In e0 acc -> Forall piece_wf (values_of e0)) ->
  (length acc <= f)%nat -> Forall p_att_def_ok defs -> build_attdefs acc ext defs = IOk r ->
  W.allc (fun '(_, _, df) => match df with
            | W.ADValue _ v => W.av_ok (Datatypes.S (Datatypes.S f)) {| W.e_ents := W.with_predefined sp; W.e_must_declare := negb ext |} [] v
            | _ => W.ok end) (map x_attdef defs) = None.
Proof.
  induction defs as [|d defs IH]; intros r Hsp Hpl Hsys Hwf Hlen Hok Hb; [reflexivity|]. cbn [build_attdefs] in Hb.
  apply ibind_ok in Hb. destruct Hb as [x [Hx Hb]]. apply ibind_ok in Hb. destruct Hb as [r' [Hr' _]].
  inversion Hok as [|? ? Hd Hok']. subst. cbn [map]. apply allc_cons; [|eapply IH; eassumption].
  unfold x_attdef. unfold build_attdef in Hx. destruct (match ad_name d with DanAttr q => qname_parts q | DanNamespace a => attribute_name a end) as [lo pr].
  apply ibind_ok in Hx. destruct Hx as [dv [Hdv _]]. destruct Hd as [_ [_ Hdf]].
  destruct (ad_value d) as [| |fx vs]; cbn [x_attdefault]; try reflexivity.
  apply ibind_ok in Hdv. destruct Hdv as [vs' [Hvs _]]. cbn [p_att_default_ok] in Hdf. destruct Hdf as [_ [q [_ Hq]]].
  eapply (s_build_avalues_ok acc ext _ f); [|left; exists q; exact Hq|exact Hvs].
  intros nm e He. eapply (ref_attr_ok_m acc ext _ (env_rel_att sp acc ext Hsp) Hpl Hsys Hwf f nm e Hlen He).
Qed.

Lemma m_subset_checked ext f (l : list int_subset) : forall acc sp r,
  build_subset false ext acc l = IOk r -> ok_subset l = true -> Forall is_ok l ->
  forallb markup_ent (acc ++ gents l) = true -> (forall e0, In e0 acc -> en_values e0 = None -> en_system e0 <> None) ->
  (forall e0, In e0 (acc ++ gents l) -> Forall piece_wf (values_of e0)) ->
  (length (acc ++ gents l) <= f)%nat ->
  sp_rel sp acc -> W.subset_ok (Datatypes.S (Datatypes.S f)) (negb ext) sp (x_subset l) = None.
Proof.
  induction l as [|x l IH]; intros acc sp r Hb Hok Hinv Hpl Hsys Hwf Hlen Hsp; [reflexivity|].
  cbn [ok_subset forallb] in Hok. apply andb_prop in Hok. destruct Hok as [Hokx Hokl]. inversion Hinv as [|? ? Hx Hinv']. subst.
  change (x_subset (x :: l)) with (x_subset_item x ++ x_subset l). cbn [build_subset] in Hb.
  destruct x as [[d|d|[n d|n d]|d|p|s]|n|s]; cbn [ok_subset_item ok_markup] in Hokx; try discriminate Hokx; try discriminate Hb;
    cbn [x_subset_item x_markup app gents flat_map] in *.
  - cbn [W.subset_ok]. eapply IH; eassumption.
  - apply ibind_ok in Hb. destruct Hb as [a [Ha Hb]]. apply ibind_ok in Hb. destruct Hb as [r' [Hr' _]].
    unfold x_attlist. cbn [W.subset_ok]. unfold build_attlist in Ha. apply ibind_ok in Ha. destruct Ha as [atts [Hatts _]].
    cbn [is_ok markup_ok] in Hx. destruct Hx as [_ Hdefs].
    rewrite (m_defaults_ok ext f acc sp (da_defs d) atts Hsp); try assumption.
    + cbn [W.andc]. eapply IH; eassumption.
    + rewrite forallb_app in Hpl. apply andb_prop in Hpl. tauto.
    + intros e0 He0. apply Hwf. apply in_or_app. left. exact He0.
    + rewrite app_length in Hlen. lia.
  - apply ibind_ok in Hb. destruct Hb as [[] [Hc Hb]]. apply ibind_ok in Hb. destruct Hb as [r' [Hr' _]].
    cbn [W.subset_ok]. apply andb_prop in Hokx. destruct Hokx as [Hn Hd].
    assert (match x_entdef d with W.EdValue v => W.allc (fun p => match p with W.AvChar n0 => W.guard (W.isChar n0) W.RBadCharRef | _ => W.ok end) v | _ => W.ok end = None) as ->.
    { cbn [is_ok markup_ok] in Hx. destruct Hx as [_ [_ Hdef]]. destruct d as [lv|xid nd]; cbn [x_entdef]; [|reflexivity].
      cbn [p_entity_def_ok] in Hdef. destruct Hdef as [q [_ Hq]]. eapply ev_charrefs_ok; [exact Hq|exact Hc]. }
    cbn [W.andc].
    rewrite (entity_of_def_build n d) by (destruct d as [lv|? ?]; [|exact I]; cbn [d04_entdef] in Hd; apply andb_prop in Hd; tauto).
    assert (en_name (build_entity n d) = n) as En by (destruct d; reflexivity).
    pose proof (sp_rel_step sp acc (build_entity n d) Hsp) as Hstep. rewrite En in Hstep.
    eapply (IH (acc ++ [build_entity n d])); try eassumption.
    + rewrite <- app_assoc. exact Hpl.
    + intros e0 Hin. apply in_app_or in Hin. destruct Hin as [Hin|[<-|[]]]; [apply Hsys; exact Hin|].
      apply (gents_sys [IsMarkup (MkEntity (DeGeneral n d))]). left. reflexivity.
    + rewrite <- app_assoc. exact Hwf.
    + rewrite <- app_assoc. exact Hlen.
  - apply ibind_ok in Hb. destruct Hb as [r' [Hr' _]]. unfold x_notation. destruct (dn_id d); cbn [W.subset_ok]; eapply IH; eassumption.
  - apply ibind_ok in Hb. destruct Hb as [r' [Hr' _]]. cbn [W.subset_ok]. eapply IH; eassumption.
  - cbn [W.subset_ok]. eapply IH; eassumption.
  - eapply IH; eassumption.
Qed.

(** ** elements: Section Elems of Proofs/XmlWFSyntaxDtdFull.v once more, with the weaker fact about a
    reference in content (the expansion passes the checks at the fuel of the document, not at every fuel:
    with attributes inside replacement text, fuel 0 would not do) *)
Section ElemsM.
Variable ents : list Info.entity.
Variable ext : bool.
Variable en : W.env.
Variable f : nat.
Notation F := (Datatypes.S (Datatypes.S f)).
Hypothesis Hattr : forall nm e, resolve_ref ents ext true nm = IOk e -> W.av_ok F en [] [W.AvEnt nm] = None.
Hypothesis Hcont : forall nm e, resolve_ref ents ext false nm = IOk e ->
  exists x', W.expand F en [] (W.XEntRef nm) = inr x' /\ W.tree_ok F en x' = None.

Definition m_elem_checked (e : element) : Prop :=
  p_element_ok e -> forall el, build_element ents ext e = IOk el ->
  exists x', W.expand F en [] (x_elem e) = inr x' /\ W.tree_ok F en x' = None.

Lemma m_cells_check (cells : list cell) : cells_all m_elem_checked cells -> cells_ok p_element_ok cells ->
  forall ch, build_cells (build_element ents ext) ents ext cells = IOk ch ->
  exists kids', W.mapM (W.expand F en []) (x_cells x_elem cells) = inr kids' /\ W.allc (W.tree_ok F en) kids' = None.
Proof.
  induction 1 as [|[c tl] l Hc _ IH]; intros Hok ch Hb.
  - exists []. split; reflexivity.
  - cbn [cells_ok] in Hok. destruct Hok as [Hc_ok [_ Hl_ok]]. cbn [build_cells] in Hb.
    apply ibind_ok in Hb. destruct Hb as [it [Hit Hb]]. apply ibind_ok in Hb. destruct Hb as [r [Hr _]].
    destruct (IH Hl_ok r Hr) as [kl [Ekl Okl]]. destruct (s_text_check en f tl) as [Et Ot].
    assert (exists x', W.expand F en [] (x_contents x_elem c) = inr x' /\ W.tree_ok F en x' = None) as [x' [Ex Ox]].
    { cbn [fst] in Hc. destruct c as [e'|[num rd|n]|s|p|s]; cbn [build_child x_contents contents_ok] in *.
      - exact (Hc Hc_ok it Hit).
      - apply ibind_ok in Hit. destruct Hit as [c0 [Hc0 _]]. destruct (char_from_spec _ _ _ Hc_ok Hc0) as [E Hch].
        unfold x_refitem. destruct rd; cbn [x_ref radix_n] in *; rewrite E; eexists; (split; [reflexivity|]); cbn [W.tree_ok]; rewrite Hch; reflexivity.
      - apply ibind_ok in Hit. destruct Hit as [e0 [He0 _]].
        destruct (Hcont n e0 He0) as [x0 [E1 E2]]. unfold x_refitem. cbn [x_ref]. eauto.
      - eexists. split; reflexivity.
      - eexists. split; reflexivity.
      - eexists. split; reflexivity. }
    cbn [x_cells]. exists (x' :: x_text tl ++ kl). split.
    + cbn [W.mapM]. rewrite Ex. rewrite (mapM_app _ _ _ _ _ Et Ekl). reflexivity.
    + apply allc_cons; [exact Ox|]. apply allc_app; assumption.
Qed.

Theorem m_element_checked : forall e, m_elem_checked e.
Proof.
  apply element_ind2.
  - intros n a [Hq [Ha _]] el Hb. cbn [build_element] in Hb. apply ibind_ok in Hb. destruct Hb as [attrs' [Hat _]].
    cbn [x_elem]. rewrite s_expand_elem. cbn [W.mapM]. eexists. split; [reflexivity|].
    cbn [W.tree_ok]. unfold build_attrs in Hat.
    destruct (build_attrs_nodup ents ext a [] attrs' Hat) as [Hnd _]; [constructor| |].
    { revert Ha. apply Forall_impl. intros x [[H1 _] H2]. split; assumption. }
    rewrite map_map. change (map (fun x => fst (x_att x)) a) with (map att_nm a). rewrite Hnd.
    rewrite (s_attrs_values_ok ents ext en f Hattr a [] attrs' Hat Ha). reflexivity.
  - intros n a h cells Hcells [Hq [Ha [Hh Hcs]]] el Hb. cbn [build_element] in Hb.
    apply ibind_ok in Hb. destruct Hb as [attrs' [Hat Hb]]. apply ibind_ok in Hb. destruct Hb as [ch [Hch _]].
    destruct (m_cells_check cells Hcells Hcs ch Hch) as [kl [Ekl Okl]]. destruct (s_text_check en f h) as [Et Ot].
    cbn [x_elem]. rewrite s_expand_elem. rewrite (mapM_app _ _ _ _ _ Et Ekl). eexists. split; [reflexivity|].
    cbn [W.tree_ok]. rewrite Wstr_eqb_refl. unfold build_attrs in Hat.
    destruct (build_attrs_nodup ents ext a [] attrs' Hat) as [Hnd _]; [constructor| |].
    { revert Ha. apply Forall_impl. intros x [[H1 _] H2]. split; assumption. }
    rewrite map_map. change (map (fun x => fst (x_att x)) a) with (map att_nm a). rewrite Hnd.
    rewrite (s_attrs_values_ok ents ext en f Hattr a [] attrs' Hat Ha). cbn [W.guard W.andc]. apply allc_app; assumption.
Qed.
End ElemsM.

(** ** the document *)
Definition markup_doc (pd : pdoc) : bool := forallb markup_ent (gents (doc_subset pd)).

Theorem check_doc_markup (pd : pdoc) (d : document) :
  p_doc_ok pd -> ok_doc pd = true -> markup_doc pd = true -> build_document pd = IOk d ->
  exists root, W.check_doc (x_doc pd) = inr root.
Proof.
  intros [Hpro [Hel _]] Hok Hplain Hb. unfold build_document, build_document_gen in Hb.
  set (sa := match pr_declaration_xml (d_prolog pd) with Some x => dx_standalone x | None => None end) in *.
  destruct (ent_fuel_bound (x_doc pd)) as [f0 [Ef Hf0]].
  unfold W.check_doc. rewrite Ef.
  destruct (pr_declaration_doc (d_prolog pd)) as [dd|] eqn:Hdd.
  - apply ibind_ok in Hb. destruct Hb as [dt [Hdt Hb]]. apply ibind_ok in Hdt. destruct Hdt as [x [Hx Hdt]]. injection Hdt as <-.
    apply ibind_ok in Hb. destruct Hb as [el [Hbe _]].
    unfold build_doctype in Hx. apply ibind_ok in Hx. destruct Hx as [ch [Hch Hx]]. injection Hx as <-.
    cbn [dt_system] in Hbe. unfold dt_entities in Hbe. cbn [dt_children] in Hbe. rewrite (build_subset_entities _ _ _ _ Hch) in Hbe.
    set (ext0 := external_subset sa (match dd_external_id dd with Some x => Some (fst (external_id_parts x)) | None => None end)) in *.
    unfold ok_doc in Hok. rewrite Hdd in Hok.
    apply andb_prop in Hok. destruct Hok as [Hok _]. apply andb_prop in Hok. destruct Hok as [Hok _].
    apply andb_prop in Hok. destruct Hok as [Hok _]. apply andb_prop in Hok. destruct Hok as [_ Hoks].
    unfold markup_doc, doc_subset in Hplain. rewrite Hdd in Hplain.
    destruct Hpro as [_ [_ [Hdoc _]]]. rewrite Hdd in Hdoc. destruct Hdoc as [_ [_ Hinv]].
    pose proof (gents_wf ext0 (dd_internal_subset dd) [] ch Hch Hinv) as Hwf.
    assert (W.e_must_declare (W.doc_env (x_doc pd)) = negb ext0) as Hmust.
    { unfold W.doc_env, x_doc. cbn [W.x_doctype W.x_decl W.e_must_declare]. rewrite Hdd. cbn [option_map x_doctype W.dt_extid].
      subst ext0 sa. unfold external_subset. destruct (pr_declaration_xml (d_prolog pd)) as [xd|]; cbn [option_map x_xmldecl W.xd_standalone];
        [destruct (dx_standalone xd) as [[|]|]|]; destruct (dd_external_id dd); reflexivity. }
    assert (W.e_ents (W.doc_env (x_doc pd)) = W.with_predefined (tbl (gents (dd_internal_subset dd)))) as Hents.
    { unfold W.doc_env, x_doc. cbn [W.x_doctype W.e_ents]. rewrite Hdd. cbn [option_map x_doctype W.dt_subset]. rewrite (entities_of_subset _ Hoks). reflexivity. }
    assert (env_rel (W.doc_env (x_doc pd)) (gents (dd_internal_subset dd)) ext0) as Hrel.
    { split; [|exact Hmust]. intros nm. rewrite Hents. apply assoc_with_predefined. }
    assert (match W.x_doctype (x_doc pd) with Some dt0 => W.dt_subset dt0 | None => [] end = x_subset (dd_internal_subset dd)) as Hsub.
    { unfold x_doc. cbn [W.x_doctype]. rewrite Hdd. reflexivity. }
    rewrite Hsub in *. rewrite Hmust. rewrite (entities_of_subset _ Hoks) in Hf0. unfold tbl in Hf0. rewrite map_length in Hf0.
    rewrite (m_subset_checked ext0 f0 (dd_internal_subset dd) [] [] ch Hch Hoks Hinv Hplain); [|intros e0 []|exact Hwf|exact Hf0|intros k; reflexivity].
    destruct (m_element_checked (gents (dd_internal_subset dd)) ext0 (W.doc_env (x_doc pd)) f0) with (e := d_element pd) (el := el) as [x' [Ex Ox]].
    + intros nm e He. exact (ref_attr_ok_m _ ext0 _ Hrel Hplain (gents_sys _) Hwf f0 nm e Hf0 He).
    + intros nm e He. exact (ref_content_ok_m _ ext0 _ Hrel Hplain Hwf f0 nm e Hf0 He).
    + exact Hel.
    + exact Hbe.
    + exists x'. change (W.x_root (x_doc pd)) with (x_elem (d_element pd)). rewrite Ex, Ox. reflexivity.
  - cbn [ibind] in Hb. apply ibind_ok in Hb. destruct Hb as [el [Hbe _]].
    unfold external_subset in Hbe. cbn [is_some] in Hbe. rewrite andb_false_r in Hbe.
    assert (env_rel (W.doc_env (x_doc pd)) [] false) as Hrel.
    { split; [intros nm; unfold W.doc_env, x_doc; cbn [W.x_doctype W.e_ents]; rewrite Hdd; reflexivity|].
      unfold W.doc_env, x_doc. cbn [W.x_doctype W.e_must_declare]. rewrite Hdd. reflexivity. }
    assert (match W.x_doctype (x_doc pd) with Some dt0 => W.dt_subset dt0 | None => [] end = []) as Hsub.
    { unfold x_doc. cbn [W.x_doctype]. rewrite Hdd. reflexivity. }
    rewrite Hsub. cbn [W.subset_ok].
    destruct (s_element_checked [] false (W.doc_env (x_doc pd)) f0) with (e := d_element pd) (el := el) as [x' [Ex Ox]].
    + intros nm e He. exact (ref_attr_ok_s [] false _ Hrel eq_refl (fun e0 (H : In e0 []) => match H with end) f0 nm e (Nat.le_0_l _) He).
    + intros nm e He. exact (ref_content_ok_s [] false _ Hrel eq_refl f0 nm e (Nat.le_0_l _) He).
    + exact Hel.
    + exact Hbe.
    + exists x'. change (W.x_root (x_doc pd)) with (x_elem (d_element pd)). rewrite Ex, Ox. reflexivity.
Qed.

(** ** at the entry point [from_raw] *)
Definition markup_entities (s : str) : bool :=
  match ParseActions.parse_document s with POk (pd, _) => markup_doc pd | _ => false end.

Theorem accepted_wf10_markup (s : str) (d : document) :
  from_raw s = OOk ([], d) -> KnownD04_doc s = false -> markup_entities s = true -> W.wf_xml10 s = true.
Proof.
  intros H Hk Hpl. destruct (accepted_syntax s d H Hk) as [pd [Hp [Hb Hsyn]]].
  unfold KnownD04_doc in Hk. unfold markup_entities in Hpl. rewrite Hp in Hk, Hpl. apply negb_false_iff in Hk.
  pose proof (build_document_ok pd d Hb Hk) as Hok.
  destruct (check_doc_markup pd d (parse_document_inv _ _ _ Hp) Hok Hpl Hb) as [root Hc].
  unfold W.wf_xml10, W.verdict10. rewrite Hsyn, (unsupported_false pd Hok), Hc. reflexivity.
Qed.

Theorem accepted_wf_markup (s : str) (d : document) :
  from_raw s = OOk ([], d) -> KnownD04_doc s = false -> markup_entities s = true -> KnownNS s = false -> W.wf s = true.
Proof.
  intros H Hk Hpl Hns. pose proof (accepted_wf10_markup s d H Hk Hpl) as H10. unfold KnownNS in Hns. rewrite H10 in Hns.
  cbn [andb] in Hns. apply negb_false_iff in Hns. exact Hns.
Qed.

(** non-vacuity: the usual double escape <!ENTITY l "&#38;#60;">; an entity value with elements (one with
    attributes), a comment, a PI, a CDATA section, a nested reference and a `<` written as a character
    reference, used in content; entities in an attribute value and a default:
    <!DOCTYPE r [<!ENTITY l "&#38;#60;"><!ENTITY b "z&#65;&l;">
                 <!ENTITY m "<i x='1' y='&#65;'>x&b;</i><!-- c --><?p d?><![CDATA[<]]>&#60;j/>">
                 <!ATTLIST r k CDATA "&b;">]><r k="&b;">&m;&b;&l;</r> *)
Definition ex_markup : str :=
  [60;33;68;79;67;84;89;80;69;32;114;32;91;60;33;69;78;84;73;84;89;32;108;32;34;38;35;51;56;59;35;54;48;59;34;62;60;33;69;78;84;73;84;89;32;98;32;34;122;38;35;54;53;59;38;108;59;34;62;60;33;69;78;84;73;84;89;32;109;32;34;60;105;32;120;61;39;49;39;32;121;61;39;38;35;54;53;59;39;62;120;38;98;59;60;47;105;62;60;33;45;45;32;99;32;45;45;62;60;63;112;32;100;63;62;60;33;91;67;68;65;84;65;91;60;93;93;62;38;35;54;48;59;106;47;62;34;62;60;33;65;84;84;76;73;83;84;32;114;32;107;32;67;68;65;84;65;32;34;38;98;59;34;62;93;62;60;114;32;107;61;34;38;98;59;34;62;38;109;59;38;98;59;38;108;59;60;47;114;62].

Example accepted_wf_markup_nonvacuous :
  (exists d, from_raw ex_markup = OOk ([], d)) /\ KnownD04_doc ex_markup = false /\ markup_entities ex_markup = true
  /\ simple_entities ex_markup = false /\ KnownNS ex_markup = false.
Proof. split; [eexists; vm_compute; reflexivity|]. repeat split; vm_compute; reflexivity. Qed.
