(** * What a user of XPath observes of [normalize]: the string-value of every element is unchanged

    XPath 1.0, 5.2: "The string-value of an element node is the concatenation of the string-values of all text node
    descendants of the element node in document order"; 5.1 says the same of the root node.  On a store (raw view)
    the character data an element holds is the data of its Text and CDATASection descendants, reached through child
    elements; comments, processing instructions, references and the document type contribute nothing.  This is what
    [string_value_fuel] of Model/XDoc.v computes for a row of kind [KElement] in the raw view ([KCData],
    [KElement], [KText] children contribute, everything else is [Ok []]), written directly on the store:

      [text_value_fuel f s n] = concatenation over [children_of s n] of
         the data of a Text / CDATASection child, [text_value_fuel] of a child element, nothing for any other child;
      [text_value s n]         the same with the fuel of Model/Store.v ([next s], as [show]).

    For a node without children (a Text node, a comment ...) the value is empty: the statements below are about
    containers -- elements, the document node, attributes -- and are meaningful as "string-value" for elements
    and the document.

    [text_value_blocks]: the value is a function of the [blocks] of the child lists (Proofs/DomNormalizeSteps.v: every
    maximal run of adjacent Text children replaced by the concatenation of its data).  Hence two stores related by
    [NF] (Proofs/DomNormalizeFrame.v) with the same [blocks] everywhere give every node the same value
    ([text_value_NF_blocks]) and, with [normalize_blocks] (= C13_normalize_runs_unchanged), [normalize] changes the
    string-value of no node ([normalize_string_value]). *)
From Coq Require Import List NArith Bool Lia.
From XmlRs Require Import Base.CPred Model.Store Model.DomOps Model.DomNormalize
  Proofs.DomBase Proofs.DomTree Proofs.DomOpsInv Proofs.DomL1Atomic Proofs.DomNormalizeFrame Proofs.DomNormalizeStore
  Proofs.DomNormalizeSteps Proofs.DomNormalizeLoop Proofs.DomNormalizeSpec.
Import ListNotations.
Open Scope N_scope.

(** what one child contributes; [g]: the value of a child element *)
Definition text_child (g : id -> str) (s : store) (c : id) : str :=
  match kind_of s c with
  | Some KTx | Some KCd => data_of s c
  | Some KEl => g c
  | _ => []
  end.

Fixpoint text_value_fuel (fuel : nat) (s : store) (n : id) : str :=
  match fuel with
  | O => []
  | S f => flat_map (text_child (text_value_fuel f s) s) (children_of s n)
  end.

Definition text_value (s : store) (n : id) : str := text_value_fuel (N.to_nat (next s)) s n.

(** ** the value is a function of the blocks *)
Definition btext (g : id -> str) (s : store) (b : block) : str :=
  match b with BText d => d | BNode x => text_child g s x end.

Lemma has_kind_kind_of s k x : has_kind s k x = true -> kind_of s x = Some k.
Proof.
  intros K. destruct (has_kind_get _ _ _ K) as [it [G Ki]]. unfold kind_of. rewrite G. cbn [option_map]. rewrite Ki. reflexivity.
Qed.

Lemma text_child_text g s x : has_kind s KTx x = true -> text_child g s x = data_of s x.
Proof. intros K. unfold text_child. rewrite (has_kind_kind_of _ _ _ K). reflexivity. Qed.

Lemma text_value_blocks g s l : flat_map (text_child g s) l = flat_map (btext g s) (blocks s l).
Proof.
  induction l as [|x t IH]; [reflexivity|]. cbn [flat_map blocks]. rewrite IH.
  destruct (has_kind s KTx x) eqn:K; [|reflexivity].
  rewrite (text_child_text g s x K). destruct (blocks s t) as [|[d|y] bs]; cbn [flat_map btext]; try reflexivity.
  rewrite app_assoc. reflexivity.
Qed.

(** the data of a node that is no Text node is in the frame *)
Lemma NF_data_nontext s s' x : NF s s' -> has_kind s KTx x = false -> data_of s' x = data_of s x.
Proof.
  intros [_ [_ [_ Hi]]] K. specialize (Hi x). unfold data_of. unfold has_kind in K.
  destruct (get s x) as [a|] eqn:Ga.
  - destruct Hi as [b [Gb Fr]]. rewrite Gb. apply (if_data _ _ _ Fr). intros E. rewrite E in K. cbn in K. discriminate.
  - rewrite Hi. reflexivity.
Qed.

Section TextValue.
  Variables s s' : store.
  Hypothesis F : NF s s'.
  Hypothesis B : forall y, blocks s' (children_of s' y) = blocks s (children_of s y).

  Lemma text_child_nontext g g' x :
    has_kind s KTx x = false -> (kind_of s x = Some KEl -> g' x = g x) -> text_child g' s' x = text_child g s x.
  Proof.
    intros K Hg. unfold text_child. rewrite (NF_kind_of s s' x F).
    destruct (kind_of s x) as [k|] eqn:Kx; [|reflexivity].
    destruct k; try reflexivity.
    - apply Hg. reflexivity.
    - apply (NF_data_nontext s s' x F K).
    - apply (NF_data_nontext s s' x F K).
  Qed.

  Theorem text_value_NF_blocks : forall f n, text_value_fuel f s' n = text_value_fuel f s n.
  Proof.
    induction f as [|f IH]; intros n; [reflexivity|]. cbn [text_value_fuel].
    rewrite !text_value_blocks, B. apply flat_map_ext_in'. intros [d|x] Hb; [reflexivity|].
    cbn [btext]. apply text_child_nontext.
    - eapply blocks_node_nontext. exact Hb.
    - intros _. apply IH.
  Qed.
End TextValue.

(** ** [normalize] *)
Theorem normalize_string_value : forall merged w r s s', WInv w -> doc_at w (fst r) = Some s ->
  doc_at (fst (normalize merged w r)) (fst r) = Some s' ->
  forall n, (forall f, text_value_fuel f s' n = text_value_fuel f s n) /\ text_value s' n = text_value s n.
Proof.
  intros merged w r s s' Hw D D' n. destruct (normalize_doc merged w r s s' Hw D D') as [M _].
  pose proof (doc_at_P TreeInv w _ s Hw D) as T.
  pose proof (MS_NF _ _ _ M) as F. pose proof (MS_blocks _ s s' M T) as B.
  split; [intros f; apply (text_value_NF_blocks s s' F B)|].
  unfold text_value. destruct F as [Hn F']. rewrite Hn. apply (text_value_NF_blocks s s' (conj Hn F') B).
Qed.

(** the other documents of the world are untouched altogether ([normalize_local]) *)
Theorem normalize_string_value_other : forall merged w r s k, WInv w -> doc_at w (fst r) = Some s -> k <> fst r ->
  doc_at (fst (normalize merged w r)) k = doc_at w k.
Proof. intros merged w r s k Hw D Hk. exact (proj1 (normalize_local merged w r s Hw D) k Hk). Qed.

(** ** a non-trivial instance: the world [nz_before] of Proofs/DomNormalizeC12.v -- element 2 holds element 3 whose
    Text children "", "t", "]]", ">" become "t]]", ">" -- the value of the outer element is read through the inner
    one, and is the same although the child list of the inner element is not *)
From XmlRs Require Import Proofs.DomExample Proofs.DomC12 Proofs.DomNormalizeC12.

Example nz_string_value_example :
  WInv nz_before /\ doc_at nz_before 0 = Some (store0 nz_before)
  /\ kind_of (store0 nz_before) 2 = Some KEl
  /\ text_value (store0 nz_before) 3 = [116; 93; 93; 62]
  /\ text_value (store0 (fst (normalize false nz_before (0, 2)))) 3 = [116; 93; 93; 62]
  /\ text_value (store0 (fst (normalize false nz_before (0, 2)))) 2 = text_value (store0 nz_before) 2
  /\ text_value (store0 nz_before) 2 = [116; 93; 93; 62]
  /\ children_of (store0 (fst (normalize false nz_before (0, 2)))) 3 <> children_of (store0 nz_before) 3.
Proof.
  destruct nz_spec_example as [Hw [D [K _]]].
  split; [exact Hw|]. split; [exact D|]. split; [exact K|].
  split; [vm_compute; reflexivity|]. split; [vm_compute; reflexivity|].
  split.
  { assert (D' : doc_at (fst (normalize false nz_before (0, 2))) 0 = Some (store0 (fst (normalize false nz_before (0, 2)))))
      by (vm_compute; reflexivity).
    exact (proj2 (normalize_string_value false nz_before (0, 2) _ _ Hw D D' 2)). }
  split; [vm_compute; reflexivity|].
  exact (proj2 nz_show_example).
Qed.
