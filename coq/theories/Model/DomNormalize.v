(** * Model of [ElementMut::normalize] of crate [dom] (on top of Model/DomOps.v)

    The code (dom/src/lib.rs, after fix 371cd5b) performs [normalize] only through calls the model
    already has: it walks a SNAPSHOT of [child_nodes()] of the element, in the view the document is
    in ([text_expanded]); a Text child is appended to the Text child in front of it with the public
    [append_data] -- which validates the RESULTING string, so a pair whose concatenation is no
    character data stays apart -- and, when that succeeded, removed with [remove_child]; Element
    children are normalized recursively and reset [previous], and so does every other child.  In
    the merged-text view the children are [ExpandedText] nodes ([Merged] here), never [Text]: only
    the recursion happens.  [normalize] returns [()]: it has no failure.

    So the model is a derived, adaptive program over [step]: every state change below is
    [step w (AppendData ..)] or [step w (RemoveChild ..)].  The recursion into child elements is
    fuelled by the number of identifiers handed out ([next] of the store; a tree cannot be deeper).
    No proofs in this file. *)
From Coq Require Import List NArith Bool.
From XmlRs Require Import Base.CPred Model.Store Model.DomOps.
Import ListNotations.
Open Scope N_scope.

(** the string argument of the [append_data] call: [step] reads only [d_str] of it *)
Definition text_arg (d : str) : data_info := mkData d false false false None None.

Definition data_in (w : world) (n : nref) : str :=
  match doc_at w (fst n) with Some s => data_of s (snd n) | None => [] end.

(** the loop over the snapshot [l] of the child list of element [r]; [prev] = [previous];
    [rec] = [normalize] of a child element *)
Fixpoint norm_children (rec : world -> nref -> world) (w : world) (r : nref) (prev : option id) (l : list vnode) : world :=
  match l with
  | [] => w
  | Merged _ :: t => norm_children rec w r None t
  | Plain c :: t =>
    match kind_in w (fst r, c) with
    | Some KTx =>
      match prev with
      | Some p =>
        match step w (AppendData (fst r, p) (text_arg (data_in w (fst r, c)))) with
        | (w1, Ok _) => norm_children rec (fst (step w1 (RemoveChild r (fst r, c)))) r prev t
        | (w1, _) => norm_children rec w1 r (Some c) t
        end
      | None => norm_children rec w r (Some c) t
      end
    | Some KEl => norm_children rec (rec w (fst r, c)) r None t
    | _ => norm_children rec w r None t
    end
  end.

Fixpoint normalize_run (merged : bool) (fuel : nat) (w : world) (r : nref) : world :=
  match fuel with
  | O => w
  | S f =>
    match doc_at w (fst r) with
    | Some s =>
      match kind_of s (snd r) with
      | Some KEl => norm_children (normalize_run merged f) w r None (child_view s merged (snd r))
      | _ => w
      end
    | None => w
    end
  end.

Definition normalize_fuel (w : world) (r : nref) : nat :=
  match doc_at w (fst r) with Some s => N.to_nat (next s) | None => O end.

(** [Element::normalize] on receiver [r] in the view [merged] *)
Definition normalize (merged : bool) (w : world) (r : nref) : world * outcome :=
  match kind_in w r with
  | Some KEl => (normalize_run merged (normalize_fuel w r) w r, Ok RUnit)
  | _ => (w, NotApplicable)
  end.

(** histories that contain [normalize] calls *)
Inductive nop :=
| Op (o : op)
| Normalize (merged : bool) (r : nref).

Definition step_n (w : world) (o : nop) : world * outcome :=
  match o with
  | Op o => step w o
  | Normalize merged r => normalize merged w r
  end.

Definition run_n (w : world) (ops : list nop) : world := fold_left (fun a o => fst (step_n a o)) ops w.
